// C07 implementation harness (engine E3): drives the real ring queues of
// common/lockfree_queue.h (working tree of /repo, untouched) under the lock-step controller.
// Case grammar and output format: see ocaml/C07_run.ml / notes/E3.md.
#include "../E3/e3.h"
#include <fstream>
#include <iostream>
#include <sstream>
#include <algorithm>
#include <chrono>
#include <photon/common/timeout.h>
#include <photon/common/utility.h>
#include <photon/thread/thread.h>

// ---- instrumented stand-ins for the photon primitives RingChannel uses (kind "chan") ----
namespace photon {
// photon::semaphore abstracted to a counter: wait = one step per attempt (flavor 0: take a token or stay
// blocked; flavor 1: the timed wait times out), signal = one step
struct verif_semaphore {
    uint64_t cnt = 0;
    const char* kind(const char* q, const char* s) const {
        auto& m = e3::names().m; auto it = m.find((const void*)this);
        return (it != m.end() && it->second == "ssem") ? s : q;
    }
    int wait(uint64_t c, uint64_t /*timeout*/ = -1) {
        for (;;) {
            e3::pre();
            if (cnt >= c) { cnt -= c; e3::post(kind("semwait", "ssemwait"), nullptr, "1"); return 0; }
            if (e3::flavor() == 1) { e3::post(kind("semwait", "ssemwait"), nullptr, "2"); errno = ETIMEDOUT; return -1; }
            e3::post(kind("semwait", "ssemwait"), nullptr, "0");
        }
    }
    int signal(uint64_t c) { e3::pre(); cnt += c; e3::post(kind("semsig", "ssemsig"), nullptr, std::to_string(cnt)); return 0; }
};
inline int verif_thread_yield() { e3::point("yield"); return 0; }
volatile uint64_t now = 0;      // photon::now (no libphoton linked): constant, yield_timeout never expires
}

#define atomic verif_atomic
#define semaphore verif_semaphore
#define thread_yield verif_thread_yield
#define private public
#define protected public
#include <photon/common/lockfree_queue.h>
#undef private
#undef protected
#undef thread_yield
#undef semaphore
#undef atomic

// pause policy for the templated send/recv: one stutter step of the spinning participant
struct E3Pause : PauseBase { static void pause() { e3::spin(); } };

typedef uint64_t V;
struct Op { char k; std::vector<V> a; };
typedef std::vector<Op> Script;

static std::vector<std::string> split(const std::string& s, char c) {
    std::vector<std::string> v; std::string cur; std::stringstream ss(s);
    while (std::getline(ss, cur, c)) v.push_back(cur);
    if (!s.empty() && s.back() == c) v.push_back("");     // getline drops a trailing empty field
    return v;
}
static std::string trim(const std::string& s) {
    size_t a = s.find_first_not_of(" \t"), b = s.find_last_not_of(" \t");
    return a == std::string::npos ? "" : s.substr(a, b - a + 1);
}
static Script parse_script(const std::string& s) {
    Script sc; std::stringstream ss(s); std::string tok;
    while (ss >> tok) {
        if (tok == "-") continue;
        Op o; o.k = tok[0];
        std::string arg = tok.substr(1);
        if (o.k == 'U') { for (auto& x : split(arg, ',')) if (!x.empty()) o.a.push_back(strtoull(x.c_str(), 0, 10)); }
        else if (!arg.empty()) o.a.push_back(strtoull(arg.c_str(), 0, 10));
        sc.push_back(o);
    }
    return sc;
}
static std::string vlist(const std::vector<V>& v) {
    std::string s; for (size_t i = 0; i < v.size(); i++) { if (i) s += ","; s += std::to_string(v[i]); } return s;
}

struct CaseOut { size_t cap; e3::Outcome o; std::string res, fin; };

// ---- per queue kind: create (zeroed storage), preset indices to `start`, name atomics, run ops ----
template <class Q> static void run_ops(Q* q, const Script& sc, std::vector<std::string>* res);

typedef FlexLockfreeSPSCRingQueue<V> SPSC;
typedef FlexLockfreeMPMCRingQueue<V> MPMC;
typedef FlexLockfreeBatchMPMCRingQueue<V> BMPMC;

static void exec_op(SPSC* q, const Op& o, std::vector<std::string>* res) {
    switch (o.k) {
    case 'u': case 's': res->push_back(q->push(o.a[0]) ? "1" : "0"); break;
    case 'o': case 'r': { V x = 0; res->push_back(q->pop(x) ? std::to_string(x) : "-"); break; }
    case 'U': res->push_back(std::to_string(q->push_batch(o.a.data(), o.a.size()))); break;
    case 'O': { std::vector<V> buf(o.a[0] + 1); size_t n = q->pop_batch(buf.data(), o.a[0]); buf.resize(n); res->push_back("[" + vlist(buf) + "]"); break; }
    }
}
static void exec_op(MPMC* q, const Op& o, std::vector<std::string>* res) {
    switch (o.k) {
    case 'u': case 'U': res->push_back(q->push(o.a.empty() ? 0 : o.a[0]) ? "1" : "0"); break;
    case 'o': case 'O': { V x = 0; res->push_back(q->pop(x) ? std::to_string(x) : "-"); break; }
    case 's': q->template send<E3Pause>(o.a[0]); res->push_back("s"); break;
    case 'r': res->push_back(std::to_string(q->template recv<E3Pause>())); break;
    }
}

static void exec_op(BMPMC* q, const Op& o, std::vector<std::string>* res) {
    switch (o.k) {
    case 'u': case 's': res->push_back(q->push(o.a[0]) ? "1" : "0"); break;
    case 'o': case 'r': { V x = 0; res->push_back(q->pop(x) ? std::to_string(x) : "-"); break; }
    case 'U': res->push_back(std::to_string(q->push_batch(o.a.data(), o.a.size()))); break;
    case 'O': { std::vector<V> buf(o.a[0] + 1); size_t n = q->pop_batch(buf.data(), o.a[0]); buf.resize(n); res->push_back("[" + vlist(buf) + "]"); break; }
    }
}
static void prep(BMPMC* q, V start) {
    q->head.store(start); q->tail.store(start); q->write_head.store(start); q->read_tail.store(start);
    e3::name(&q->head, "head"); e3::name(&q->tail, "tail"); e3::name(&q->write_head, "whead"); e3::name(&q->read_tail, "rtail");
}
static std::string final_state(BMPMC* q) {
    std::vector<V> d; for (size_t j = 0; j < q->capacity; j++) d.push_back(q->slots[j]);
    return "h=" + std::to_string(q->head.load()) + ",t=" + std::to_string(q->tail.load()) + ",wh=" + std::to_string(q->write_head.load()) +
           ",rt=" + std::to_string(q->read_tail.load()) + ",d=" + vlist(d);
}
// ---- RingChannel over an ATOMIC abstract bounded FIFO: exercises the real send/recv/notify code ----
struct AbsQ {
    std::vector<V> q; size_t capacity = 2;
    bool push(const V& x) { e3::pre(); bool ok = q.size() < capacity; if (ok) q.push_back(x); e3::post("qpush", nullptr, ok ? "1" : "0"); return ok; }
    bool pop(V& x) {
        e3::pre(); bool ok = !q.empty();
        if (ok) { x = q.front(); q.erase(q.begin()); e3::post("qpop", nullptr, "1", std::to_string(x)); } else e3::post("qpop", nullptr, "0");
        return ok;
    }
    V recv() { V x = 0; while (!pop(x)) {} return x; }
    bool empty() { return q.empty(); }
    bool full() { return q.size() >= capacity; }
    size_t read_available() const { return q.size(); }
    size_t write_available() const { return capacity - q.size(); }
};
typedef photon::common::RingChannel<AbsQ> CHAN;
static CaseOut run_chan(size_t capreq, uint64_t Y, int bound, const std::vector<Script>& scripts, const std::vector<int>& sched) {
    CaseOut co;
    e3::clear_names();
    CHAN* ch = new CHAN(Y, 1000000);         // leaked on livelock
    ch->capacity = capreq > 1 ? (size_t)1 << (64 - __builtin_clzll(capreq - 1)) : 2;
    e3::name(&ch->idler, "idler"); e3::name(&ch->pending, "pending");
    e3::name(&ch->send_waiters, "swait"); e3::name(&ch->send_pending, "spend");
    e3::name(&ch->queue_sem, "qsem"); e3::name(&ch->send_sem, "ssem");
    co.cap = ch->capacity;
    int n = (int)scripts.size();
    auto* results = new std::vector<std::vector<std::string>>(n);
    auto* scs = new std::vector<Script>(scripts);
    co.o = e3::run(n, sched, bound, [ch, results, scs, Y](int p) {
        for (auto& o : (*scs)[p]) {
            if (o.k == 's' || o.k == 'u' || o.k == 'U') { ch->template send<PhotonPause>(o.a.empty() ? 0 : o.a[0]); (*results)[p].push_back("s"); }
            else (*results)[p].push_back(std::to_string(ch->recv(Y, 1000000)));
            e3::mark_done();
        }
    });
    for (int p = 0; p < n; p++) {
        if (p) co.res += "|";
        co.res += e3::join((*results)[p], ",");
        if (!co.o.finished[p]) co.res += "*";
    }
    std::string qs; for (size_t i = 0; i < ch->q.size(); i++) { if (i) qs += ":"; qs += std::to_string(ch->q[i]); }
    co.fin = "q=" + qs + ",idler=" + std::to_string(ch->idler.load()) + ",pend=" + std::to_string(ch->pending.load()) +
             ",sw=" + std::to_string(ch->send_waiters.load()) + ",sp=" + std::to_string(ch->send_pending.load()) +
             ",qsem=" + std::to_string(ch->queue_sem.cnt) + ",ssem=" + std::to_string(ch->send_sem.cnt);
    if (!co.o.livelock) { delete ch; delete results; delete scs; }
    return co;
}

static void prep(SPSC* q, V start) {
    q->head.store(start); q->tail.store(start);
    e3::name(&q->head, "head"); e3::name(&q->tail, "tail");
}
static std::string final_state(SPSC* q) {
    std::vector<V> d; for (size_t j = 0; j < q->capacity; j++) d.push_back(q->slots[j]);
    return "h=" + std::to_string(q->head.load()) + ",t=" + std::to_string(q->tail.load()) + ",d=" + vlist(d);
}
static void prep(MPMC* q, V start) {
    q->head.store(start); q->tail.store(start);
    e3::name(&q->head, "head"); e3::name(&q->tail, "tail");
    // marks of the quiescent empty queue standing at `start`: slot j was last read at index nxt-cap
    V cap = q->capacity, base = start - (start & q->mask);
    for (V j = 0; j < cap; j++) {
        bool wrapped_turn = j < (start & q->mask);
        // previous index mapped to slot j (if any): the one read most recently
        V mark = 0;
        if (wrapped_turn) mark = ((((base + j) >> q->shift) << 1) + 2);          // read in start's turn
        else if (base >= cap) mark = ((((base + j - cap) >> q->shift) << 1) + 2);   // read in the turn before
        q->slots[j].mark.store(mark);
        e3::name(&q->slots[j].mark, "mark", (long)j);
    }
}
static std::string final_state(MPMC* q) {
    std::vector<V> d, m;
    for (size_t j = 0; j < q->capacity; j++) { d.push_back(q->slots[j].data); m.push_back(q->slots[j].mark.load()); }
    return "h=" + std::to_string(q->head.load()) + ",t=" + std::to_string(q->tail.load()) + ",m=" + vlist(m) + ",d=" + vlist(d);
}

template <class Q>
static CaseOut run_case(size_t capreq, V start, int bound, const std::vector<Script>& scripts, const std::vector<int>& sched) {
    CaseOut co;
    e3::clear_names();
    Q* q = (Q*)Q::create(capreq);            // zero-filled storage, placement-constructed
    prep(q, start);
    co.cap = q->capacity;
    int n = (int)scripts.size();
    auto* results = new std::vector<std::vector<std::string>>(n);   // leaked on livelock
    auto* scs = new std::vector<Script>(scripts);
    co.o = e3::run(n, sched, bound, [q, results, scs](int p) {
        for (auto& o : (*scs)[p]) exec_op(q, o, &(*results)[p]);
    });
    for (int p = 0; p < n; p++) {
        if (p) co.res += "|";
        co.res += e3::join((*results)[p], ",");
        if (!co.o.finished[p]) co.res += "*";
    }
    co.fin = final_state(q);
    if (!co.o.livelock) { Q::destroy(q); delete results; delete scs; }
    return co;
}

static CaseOut dispatch(const std::string& kind, size_t capreq, V start, int bound, const std::vector<Script>& scripts, const std::vector<int>& sched) {
    if (kind == "spsc") return run_case<SPSC>(capreq, start, bound, scripts, sched);
    if (kind == "mpmc") return run_case<MPMC>(capreq, start, bound, scripts, sched);
    if (kind == "bmpmc") return run_case<BMPMC>(capreq, start, bound, scripts, sched);
    if (kind == "chan") return run_chan(capreq, start, bound, scripts, sched);
    CaseOut co; co.o.error = "BADKIND"; return co;
}

int main(int argc, char** argv) {
    e3::pin_to_one_cpu();
    std::ifstream in(argv[1]); std::string line;
    while (std::getline(in, line)) {
        if (line.empty() || line[0] == '#') continue;
        auto f = split(line, '|');
        for (auto& x : f) x = trim(x);
        std::stringstream hs(f[0]); std::string kind, flags; unsigned long long capreq, start; int bound;
        hs >> kind >> capreq >> start >> bound >> flags;
        if (f.size() < 3 || flags.empty()) { puts("BADCASE"); fflush(stdout); continue; }
        std::vector<Script> scripts;
        for (size_t i = 1; i + 1 < f.size(); i++) scripts.push_back(parse_script(f[i]));
        auto sched = e3::parse_schedule(f.back());
        // every schedule is run twice; the logs must be identical (else: an uninstrumented shared access)
        CaseOut a = dispatch(kind, capreq, start, bound, scripts, sched);
        CaseOut b = dispatch(kind, capreq, start, bound, scripts, sched);
        if (!a.o.error.empty() || !b.o.error.empty()) {
            printf("E3ERROR %s\n", (a.o.error.empty() ? b.o.error : a.o.error).c_str());
        } else if (a.o.log != b.o.log || a.res != b.res || a.fin != b.fin) {
            printf("E3ERROR nondeterministic replay: two runs of the same schedule differ (uninstrumented shared access?)\n");
        } else {
            printf("cap=%zu steps=%d %s log=%016" PRIx64 " res=%s final=%s", a.cap, a.o.steps(), a.o.livelock ? "livelock" : "ok",
                   e3::digest(a.o.log), a.res.c_str(), a.fin.c_str());
            if (flags == "full") printf(" LOG %s", e3::join(a.o.log, " ").c_str());
            printf("\n");
        }
        fflush(stdout);
    }
    return 0;
}
