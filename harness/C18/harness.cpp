// C18 implementation harness: drives common/range-lock.h of /repo's current working tree.
// Runs inside photon on ONE vCPU.  A controller (the main photon thread) executes the scripted
// op list of each case: op k is handed to worker thread <tid>, which calls the real RangeLock
// method; the controller then waits until every worker is SLEEPING again (parked in
// cond.wait inside RangeLock, or idle waiting for its next command), prints the completion
// events that happened (in the order they happened) and the content of m_index with, for every
// node, the threads parked on its condition variable (FIFO order).
// Output format == ocaml/C18_run.ml.
#include <cstdio>
#include <cstdlib>
#include <cstring>
#include <cinttypes>
#include <cerrno>
#include <cstdarg>
#include <string>
#include <vector>
#include <map>
#include <set>
#include <sstream>
#include <fstream>
#include <iostream>
#include <atomic>
#include <algorithm>
#include <memory>
#include <utility>
#include <type_traits>
#include <unistd.h>
#include <photon/common/intrusive_list.h>
#include <photon/common/utility.h>
#include <photon/common/timeout.h>
#include <photon/common/callback.h>
#define protected public
#define private public
#include <photon/thread/thread.h>
#include <photon/common/range-lock.h>
#undef protected
#undef private
#include <photon/photon.h>
#include <photon/common/alog.h>

static const int NW = 8;                 // worker threads, tids 0..NW-1
struct Op { char k; int t; bool null_h; uint64_t id, o, l; };

struct Worker {
    photon::semaphore sem;
    photon::thread* th = nullptr;
    const Op* cur = nullptr;
    bool busy = false;
};
static Worker W[NW];
static RangeLock* RL;
typedef std::set<RangeLock::Range>::iterator Iter;
static std::map<uint64_t, const void*> live;      // node id -> node address, live nodes only
static uint64_t next_id;
static std::vector<std::string> events;

static const void* node_of(Iter it) { const void* p; static_assert(sizeof(it) == sizeof(p), "iterator is one pointer"); memcpy(&p, &it, sizeof p); return p; }
static Iter iter_of(const void* p) { Iter it; memcpy(&it, &p, sizeof p); return it; }

static void ev(const char* fmt, ...) {
    char b[256]; va_list ap; va_start(ap, fmt); vsnprintf(b, sizeof b, fmt, ap); va_end(ap); events.push_back(b);
}
// called by the thread that just returned from a RangeLock method, before anybody else can run
static void drop_dead() {
    std::set<const void*> now;
    for (auto it = RL->m_index.begin(); it != RL->m_index.end(); ++it) now.insert(node_of(it));
    for (auto i = live.begin(); i != live.end();) { if (!now.count(i->second)) i = live.erase(i); else ++i; }
}
static uint64_t adopt_new_node() {       // after a successful try_lock_wait: exactly one node is not yet known
    std::set<const void*> known;
    for (auto& kv : live) known.insert(kv.second);
    for (auto it = RL->m_index.begin(); it != RL->m_index.end(); ++it)
        if (!known.count(node_of(it))) { live[next_id] = node_of(it); return next_id++; }
    fprintf(stderr, "harness: no new node after successful try_lock_wait\n"); abort();
}
// Would this call insert a second range whose end() == offset at the same point?  Then two keys of the
// std::set are each "less than" the other: the Compare requirements are violated and libstdc++ corrupts
// the tree (observed: L,1,1,0;L,2,1,0;L,3,1,0 loses a node and segfaults).  Undefined behaviour is not
// executed; the model reports the same situation as ub(t).
static bool would_ub(uint64_t o, uint64_t l) {
    RangeLock::range_t r(o, l);
    if (r.end() != o) return false;
    auto it = RL->m_index.lower_bound(r);
    if (it != RL->m_index.end() && it->offset < r.end()) return false;      // the call will park, not insert
    if (it == RL->m_index.begin()) return false;
    auto b = std::prev(it);
    return b->offset == o && b->end() == o;
}
static void run_op(int t, const Op& op) {
    if ((op.k == 'T' || op.k == 'W') && would_ub(op.o, op.l)) { ev("ub(%d)", t); return; }
    if (op.k == 'L' && photon::sat_add(op.o, op.l) == op.o) {
        // a range with end() == offset: RangeLock::lock()'s loop (lines 79-83) replicated with the guard
        // before every attempt, because a retry after a wake-up may be the undefined insertion
        for (;;) {
            if (would_ub(op.o, op.l)) { ev("ub(%d)", t); return; }
            auto h = RL->try_lock_wait2(op.o, op.l);
            if (h) { live[next_id] = (const void*)h; ev("acq(%d,L,#%" PRIu64 ")", t, next_id++); return; }
        }
    }
    switch (op.k) {
    case 'T': { uint64_t o = op.o, l = op.l; int r = RL->try_lock_wait(o, l);
                if (r == 0) ev("acq(%d,T,#%" PRIu64 ")", t, adopt_new_node());
                else ev("fail(%d,T,%" PRIu64 ",%" PRIu64 ")", t, o, l);
                break; }
    case 'W': { auto h = RL->try_lock_wait2(op.o, op.l);
                if (h) { live[next_id] = (const void*)h; ev("acq(%d,W,#%" PRIu64 ")", t, next_id++); }
                else ev("fail(%d,W,0,0)", t);
                break; }
    case 'L': { auto h = RL->lock(op.o, op.l);
                live[next_id] = (const void*)h; ev("acq(%d,L,#%" PRIu64 ")", t, next_id++);
                break; }
    case 'U': RL->unlock(op.o, op.l); drop_dead(); ev("ret(%d,0)", t); break;
    case 'H': { auto i = live.find(op.id);
                if (i == live.end()) { ev("stale(%d)", t); break; }   // dangling iterator = UB: not executed
                auto h = (RangeLock::LockHandle*)i->second; live.erase(i);
                RL->unlock(h); ev("ret(%d,0)", t); break; }
    case 'I': { // a wake-up that is not a notification: interrupt the target iff it is parked inside RangeLock
                Worker& v = W[op.id];
                if ((int)op.id != t && v.busy && photon::thread_stat(v.th) == photon::SLEEPING) { photon::thread_interrupt(v.th, EINTR); ev("ret(%d,0)", t); }
                else ev("ret(%d,-1)", t);
                break; }
    case 'A': { if (op.null_h) { ev("ret(%d,%d)", t, RL->adjust_range(nullptr, op.o, op.l)); break; }
                auto i = live.find(op.id);
                if (i == live.end()) { ev("stale(%d)", t); break; }
                ev("ret(%d,%d)", t, RL->adjust_range((RangeLock::LockHandle*)i->second, op.o, op.l)); break; }
    }
}
static void* worker_main(void* arg) {
    int t = (int)(intptr_t)arg;
    for (;;) {
        W[t].sem.wait(1);
        run_op(t, *W[t].cur);
        W[t].busy = false;
    }
    return nullptr;
}
static void quiesce() {                  // until every worker is parked (in RangeLock) or idle (on its semaphore)
    for (;;) {
        bool all = true;
        for (int t = 0; t < NW; t++) if (photon::thread_stat(W[t].th) != photon::SLEEPING) all = false;
        if (all) return;
        photon::thread_yield();
    }
}
static int tid_of(const void* th) { for (int t = 0; t < NW; t++) if ((const void*)W[t].th == th) return t; return -1; }
static std::string dump() {
    std::string s = "[";
    bool first = true;
    for (auto it = RL->m_index.begin(); it != RL->m_index.end(); ++it) {
        char b[128];
        uint64_t id = (uint64_t)-1; bool found = false;
        for (auto& kv : live) if (kv.second == node_of(it)) { id = kv.first; found = true; }
        if (found) snprintf(b, sizeof b, "%" PRIu64 ":%" PRIu64 "#%" PRIu64 "{", (uint64_t)it->offset, (uint64_t)it->length, id);
        else snprintf(b, sizeof b, "%" PRIu64 ":%" PRIu64 "#?{", (uint64_t)it->offset, (uint64_t)it->length);
        if (!first) s += " "; first = false; s += b;
        // threads parked on this node's condition variable: circular intrusive list headed by q.th
        auto head = (__intrusive_list_node*)it->cond.q.th;
        if (head) { auto n = head; bool f2 = true; int guard = 0;
            do { if (!f2) s += ","; f2 = false; s += std::to_string(tid_of(n)); n = n->__next_ptr; } while (n != head && ++guard < 64); }
        s += "}";
    }
    return s + "]";
}
static void reset_case() {               // release everything, let every blocked worker finish
    for (int round = 0; round < 1000; round++) {
        bool any = !RL->m_index.empty();
        for (int t = 0; t < NW; t++) if (W[t].busy) any = true;
        if (!any) break;
        while (!RL->m_index.empty()) { auto it = RL->m_index.begin(); const void* p = node_of(it); RL->unlock((RangeLock::LockHandle*)p); }
        quiesce();
    }
    live.clear(); next_id = 0; events.clear();
}
static bool parse_op(const std::string& s, Op& op) {
    std::vector<std::string> f; std::stringstream ss(s); std::string tok;
    while (std::getline(ss, tok, ',')) f.push_back(tok);
    if (f.size() < 3) return false;
    op.k = f[0][0]; op.t = atoi(f[1].c_str()); op.null_h = false; op.id = op.o = op.l = 0;
    if (op.t < 0 || op.t >= NW) return false;
    auto u = [](const std::string& x) { return (uint64_t)strtoull(x.c_str(), 0, 10); };
    switch (op.k) {
    case 'T': case 'W': case 'L': case 'U': if (f.size() != 4) return false; op.o = u(f[2]); op.l = u(f[3]); return true;
    case 'H': if (f.size() != 3) return false; op.id = u(f[2]); return true;
    case 'I': if (f.size() != 3) return false; op.id = u(f[2]); return op.id < (uint64_t)NW;
    case 'A': if (f.size() != 5) return false; if (f[2] == "-") op.null_h = true; else op.id = u(f[2]); op.o = u(f[3]); op.l = u(f[4]); return true;
    }
    return false;
}
int main(int argc, char** argv) {
    log_output_level = ALOG_FATAL + 1;
    if (photon::init(photon::INIT_EVENT_DEFAULT, photon::INIT_IO_NONE) != 0) { fprintf(stderr, "photon::init failed\n"); return 2; }
    RL = new RangeLock;
    for (int t = 0; t < NW; t++) W[t].th = photon::thread_create(worker_main, (void*)(intptr_t)t, 64 * 1024);
    quiesce();
    std::ifstream in(argv[1]); std::string line;
    while (std::getline(in, line)) {
        if (line.empty() || line[0] == '#') continue;
        std::vector<Op> ops; bool ok = true;
        { std::stringstream ss(line); std::string tok; while (std::getline(ss, tok, ';')) { if (tok.empty()) continue; Op op; if (!parse_op(tok, op)) { ok = false; break; } ops.push_back(op); } }
        if (!ok) { puts("BADCASE"); fflush(stdout); continue; }
        std::string out;
        for (size_t k = 0; k < ops.size(); k++) {
            const Op& op = ops[k];
            Worker& w = W[op.t];
            if (w.busy) ev("busy(%d)", op.t);
            else { w.cur = &op; w.busy = true; w.sem.signal(1); }
            quiesce();
            if (k) out += " | ";
            for (size_t i = 0; i < events.size(); i++) { if (i) out += " "; out += events[i]; }
            events.clear();
            out += " ; " + dump();
        }
        puts(out.c_str()); fflush(stdout);
        reset_case();
    }
    fflush(stdout);
    _exit(0);
}
