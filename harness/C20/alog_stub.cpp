// The out-of-line symbols of common/alog.cpp that fs/subfs.cpp and fs/path.cpp reference.
// The real alog.cpp drags in the whole thread runtime; the harness silences logging (log_level
// above every level, so LogBuilder never formats anything) and only needs these to link.
// PathCat's behaviour does not depend on them: LOG_ERROR_RETURN(0, , ...) logs and returns.
#include <photon/common/alog.h>
ALogLogger default_logger {nullptr, ALOG_AUDIT + 10};
LogBuffer& operator << (LogBuffer& log, const Prologue&) { return log; }
LogBuffer& operator << (LogBuffer& log, ERRNO) { return log; }
void LogFormatter::put_integer_hbo(ALogBuffer&, ALogInteger) { }
void LogFormatter::put_integer(ALogBuffer&, uint64_t) { }
