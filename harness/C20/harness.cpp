// C20 implementation harness: new_subfs(recording underlay, base, false); fs/subfs.cpp, fs/path.cpp
// (and common/iovector.cpp for SubFile) of the repo under test are compiled into this program
// together with alog_stub.cpp; drives every
// path-taking operation of SubFileSystem and prints what the underlay received.
// Case / output format: see ocaml/C20_run.ml.
#include <cstdio>
#include <cstdlib>
#include <cstring>
#include <string>
#include <vector>
#include <sstream>
#include <fstream>
#include <iostream>
#include <sys/stat.h>
#include <sys/statfs.h>
#include <sys/statvfs.h>
#include <sys/time.h>
#include <utime.h>
#include <fcntl.h>
#include <photon/common/alog.h>
#include <photon/fs/filesystem.h>
#include <photon/fs/subfs.h>
#include <photon/fs/path.h>
using namespace photon::fs;

struct Rec {
    bool called = false;
    std::string op;
    std::vector<std::pair<bool, std::string>> args;     // (non-null, bytes)
    void clear() { called = false; op.clear(); args.clear(); }
    void hit(const char* name, const char* a, const char* b = nullptr, bool two = false) {
        called = true; op = name; args.clear();
        args.emplace_back(a != nullptr, a ? std::string(a) : std::string());
        if (two) args.emplace_back(b != nullptr, b ? std::string(b) : std::string());
    }
};
static Rec rec;
static int stat_mode = 'd';      // what stat() answers: 'd' directory, 'f' regular file, 'e' error

// every pure virtual of IFileSystem, recording the path pointer(s) it receives
class RecFS : public IFileSystem {
public:
    IFile* open(const char* p, int) override { rec.hit("open", p); return nullptr; }
    IFile* open(const char* p, int, mode_t) override { rec.hit("open3", p); return nullptr; }
    IFile* creat(const char* p, mode_t) override { rec.hit("creat", p); return nullptr; }
    int mkdir(const char* p, mode_t) override { rec.hit("mkdir", p); return 0; }
    int rmdir(const char* p) override { rec.hit("rmdir", p); return 0; }
    int symlink(const char* o, const char* n) override { rec.hit("symlink", o, n, true); return 0; }
    ssize_t readlink(const char* p, char*, size_t) override { rec.hit("readlink", p); return 0; }
    int link(const char* o, const char* n) override { rec.hit("link", o, n, true); return 0; }
    int rename(const char* o, const char* n) override { rec.hit("rename", o, n, true); return 0; }
    int unlink(const char* p) override { rec.hit("unlink", p); return 0; }
    int chmod(const char* p, mode_t) override { rec.hit("chmod", p); return 0; }
    int chown(const char* p, uid_t, gid_t) override { rec.hit("chown", p); return 0; }
    int lchown(const char* p, uid_t, gid_t) override { rec.hit("lchown", p); return 0; }
    int statfs(const char* p, struct statfs*) override { rec.hit("statfs", p); return 0; }
    int statvfs(const char* p, struct statvfs*) override { rec.hit("statvfs", p); return 0; }
    int stat(const char* p, struct stat* st) override {
        rec.hit("stat", p);
        if (stat_mode == 'e') { errno = ENOENT; return -1; }
        memset(st, 0, sizeof(*st));
        st->st_mode = (stat_mode == 'd' ? S_IFDIR : S_IFREG) | 0755;
        return 0;
    }
    int lstat(const char* p, struct stat*) override { rec.hit("lstat", p); return 0; }
    int access(const char* p, int) override { rec.hit("access", p); return 0; }
    int truncate(const char* p, off_t) override { rec.hit("truncate", p); return 0; }
    int utime(const char* p, const struct utimbuf*) override { rec.hit("utime", p); return 0; }
    int utimes(const char* p, const struct timeval[2]) override { rec.hit("utimes", p); return 0; }
    int lutimes(const char* p, const struct timeval[2]) override { rec.hit("lutimes", p); return 0; }
    int mknod(const char* p, mode_t, dev_t) override { rec.hit("mknod", p); return 0; }
    int syncfs() override { rec.hit("syncfs", nullptr); return 0; }
    DIR* opendir(const char* p) override { rec.hit("opendir", p); return nullptr; }
};
class RecFSX : public RecFS, public IFileSystemXAttr {
public:
    ssize_t getxattr(const char* p, const char*, void*, size_t) override { rec.hit("getxattr", p); return 0; }
    ssize_t lgetxattr(const char* p, const char*, void*, size_t) override { rec.hit("lgetxattr", p); return 0; }
    ssize_t listxattr(const char* p, char*, size_t) override { rec.hit("listxattr", p); return 0; }
    ssize_t llistxattr(const char* p, char*, size_t) override { rec.hit("llistxattr", p); return 0; }
    int setxattr(const char* p, const char*, const void*, size_t, int) override { rec.hit("setxattr", p); return 0; }
    int lsetxattr(const char* p, const char*, const void*, size_t, int) override { rec.hit("lsetxattr", p); return 0; }
    int removexattr(const char* p, const char*) override { rec.hit("removexattr", p); return 0; }
    int lremovexattr(const char* p, const char*) override { rec.hit("lremovexattr", p); return 0; }
};

static bool unhex(const std::string& s, std::string& out) {
    if (s.empty() || s[0] != 'x' || s.size() % 2 != 1) return false;
    out.clear();
    for (size_t i = 1; i < s.size(); i += 2) {
        unsigned v; if (sscanf(s.c_str() + i, "%2x", &v) != 1) return false;
        out.push_back((char)v);
    }
    return true;
}
static std::string hex(const std::string& s) {
    static const char* d = "0123456789abcdef";
    std::string o = "x";
    for (unsigned char c : s) { o.push_back(d[c >> 4]); o.push_back(d[c & 15]); }
    return o;
}
static void out(const std::string& s) { puts(s.c_str()); fflush(stdout); }

// drive one operation of the sub filesystem (through the public interfaces only)
static bool drive(IFileSystem* fs, const std::string& op, const char* p1, const char* p2) {
    struct stat st; struct statfs sfs; struct statvfs svfs; struct utimbuf ut = {0, 0};
    struct timeval tv[2] = {{0, 0}, {0, 0}}; char buf[64];
    auto x = dynamic_cast<IFileSystemXAttr*>(fs);
    if (op == "open") fs->open(p1, O_RDONLY);
    else if (op == "open3") fs->open(p1, O_RDWR | O_CREAT, 0644);
    else if (op == "creat") fs->creat(p1, 0644);
    else if (op == "mkdir") fs->mkdir(p1, 0755);
    else if (op == "rmdir") fs->rmdir(p1);
    else if (op == "symlink") fs->symlink(p1, p2);
    else if (op == "readlink") fs->readlink(p1, buf, sizeof buf);
    else if (op == "link") fs->link(p1, p2);
    else if (op == "rename") fs->rename(p1, p2);
    else if (op == "unlink") fs->unlink(p1);
    else if (op == "chmod") fs->chmod(p1, 0600);
    else if (op == "chown") fs->chown(p1, 1, 1);
    else if (op == "lchown") fs->lchown(p1, 1, 1);
    else if (op == "opendir") fs->opendir(p1);
    else if (op == "stat") fs->stat(p1, &st);
    else if (op == "lstat") fs->lstat(p1, &st);
    else if (op == "access") fs->access(p1, R_OK);
    else if (op == "truncate") fs->truncate(p1, 0);
    else if (op == "statfs") fs->statfs(p1, &sfs);
    else if (op == "statvfs") fs->statvfs(p1, &svfs);
    else if (op == "utime") fs->utime(p1, &ut);
    else if (op == "utimes") fs->utimes(p1, tv);
    else if (op == "lutimes") fs->lutimes(p1, tv);
    else if (op == "mknod") fs->mknod(p1, 0644, 0);
    else if (!x) return false;
    else if (op == "getxattr") x->getxattr(p1, "user.a", buf, sizeof buf);
    else if (op == "lgetxattr") x->lgetxattr(p1, "user.a", buf, sizeof buf);
    else if (op == "listxattr") x->listxattr(p1, buf, sizeof buf);
    else if (op == "llistxattr") x->llistxattr(p1, buf, sizeof buf);
    else if (op == "setxattr") x->setxattr(p1, "user.a", "v", 1, 0);
    else if (op == "lsetxattr") x->lsetxattr(p1, "user.a", "v", 1, 0);
    else if (op == "removexattr") x->removexattr(p1, "user.a");
    else if (op == "lremovexattr") x->lremovexattr(p1, "user.a");
    else return false;
    return true;
}

static std::string cur_key = "<none>";
static IFileSystem* cur_fs = nullptr;
static RecFS* cur_plain = nullptr;
static RecFSX* cur_withx = nullptr;

int main(int argc, char** argv) {
    default_logger.log_level = ALOG_AUDIT + 10; // PathCat logs every rejection at ERROR level: silence
    std::ifstream in(argv[1]); std::string line;
    while (std::getline(in, line)) {
        if (line.empty() || line[0] == '#') continue;
        std::istringstream ss(line); std::string op; ss >> op;
        if (op == "LV" || op == "LVP") {
            std::string hp, p; ss >> hp;
            if (!unhex(hp, p)) { out("BADCASE"); continue; }
            out(path_level_valid(p.c_str()) ? "lv=T" : "lv=F");
            continue;
        }
        std::string fl, hb, h1, h2, base, p1, p2; ss >> fl >> hb >> h1 >> h2;
        if (fl.size() != 2 || !unhex(hb, base) || !unhex(h1, p1) || !unhex(h2, p2) ||
            !strchr("dfe", fl[0]) || !strchr("xn", fl[1])) { out("BADCASE"); continue; }
        // one sub filesystem is kept across consecutive cases with the same base and flags, so
        // that state carried from one call to the next (there must be none) would show up
        std::string key = fl + " " + hb;
        if (key != cur_key) {
            delete cur_fs; delete cur_plain; delete cur_withx;
            cur_fs = nullptr; cur_plain = nullptr; cur_withx = nullptr; cur_key = key;
            stat_mode = fl[0];
            IFileSystem* under;
            if (fl[1] == 'x') under = cur_withx = new RecFSX; else under = cur_plain = new RecFS;
            cur_fs = new_subfs(under, base.c_str(), false);
            stat_mode = 'd';
        }
        if (!cur_fs) { out("NOFS"); continue; }
        rec.clear();
        if (!drive(cur_fs, op, p1.c_str(), p2.c_str())) { out("BADCASE"); continue; }
        if (!rec.called) out("NOCALL");
        else {
            std::string o = rec.op;
            for (auto& a : rec.args) o += a.first ? " " + hex(a.second) : std::string(" NULL");
            out(o);
        }
    }
    delete cur_fs; delete cur_plain; delete cur_withx;
    return 0;
}
