// ops_c03.cpp — C03 extension of the E2 engine (harness/E2): condition variables over mutex /
// spinlock.  Model: coq/C03/C03_Model.v (`op`), runner ocaml/C03_run.ml.
//
// decls:  c3mutex   photon::mutex(max_retries = 0)        c3spin   photon::spinlock
//         c3cv      photon::condition_variable
// ops (object arguments are decl indices):
//   c3lock l        lock() of mutex/spinlock l; SKIPPED if this thread already holds it
//   c3unlock l      unlock(); SKIPPED if this thread does not hold it
//   c3wait c l t    cv.wait(&lock, Timeout(t)) (t = -1: for ever); SKIPPED if l is not held.
//                   After the call returns two black-box checks of "returns with the lock held":
//                   try_lock() must fail (else ret = -71) and nobody else may believe to hold it
//                   (occupancy counter, else ret = -70)
//   c3n1 c          cv.notify_one(): value = program index of the woken thread, -1 for nullptr
//   c3nall c        cv.notify_all(): value = count
#include <photon/thread/thread.h>
#include "../E2/e2.h"
using namespace e2;

namespace {
struct LockObj {
    bool is_spin;
    photon::mutex mtx{0};
    photon::spinlock spin;
    int occupancy = 0;                 // threads that believe they hold it
    std::map<int, bool> held;          // per program thread
    explicit LockObj(bool s) : is_spin(s) {}
    int lock()      { return is_spin ? spin.lock() : mtx.lock(); }
    int try_lock()  { return is_spin ? spin.try_lock() : mtx.try_lock(); }
    void unlock()   { if (is_spin) spin.unlock(); else mtx.unlock(); }
};
LockObj* lockobj(Ctx& c, int64_t i) {
    if (c.env.obj_is(i, "c3mutex") || c.env.obj_is(i, "c3spin")) return c.env.obj<LockObj>(i);
    return nullptr;
}
}

E2_DECL(c3mutex) { return new LockObj(false); }
E2_DECL(c3spin)  { return new LockObj(true); }
E2_DECL(c3cv)    { return new photon::condition_variable; }

E2_OP(c3lock) {
    auto l = lockobj(c, op.a(0));
    if (!l || l->held[c.self]) return RV(SKIPPED);
    int r = l->lock();
    int e = errno;
    if (r == 0) {
        l->held[c.self] = true;
        if (++l->occupancy > 1) return RV(-70);
        return RV(0);
    }
    return RV(r, e);
}
E2_OP(c3unlock) {
    auto l = lockobj(c, op.a(0));
    if (!l || !l->held[c.self]) return RV(SKIPPED);
    l->held[c.self] = false;
    l->occupancy--;
    l->unlock();
    return RV(0);
}
E2_OP(c3wait) {
    auto l = lockobj(c, op.a(1));
    if (!l || !c.env.obj_is(op.a(0), "c3cv") || !l->held[c.self]) return RV(SKIPPED);
    auto cv = c.env.obj<photon::condition_variable>(op.a(0));
    l->occupancy--;                    // from here on this thread does not rely on holding l
    errno = 0;
    int r = l->is_spin ? cv->wait(&l->spin, photon::Timeout(op.u(2)))
                       : cv->wait(&l->mtx, photon::Timeout(op.u(2)));
    int e = errno;
    if (l->try_lock() == 0) { l->unlock(); return RV(-71); }   // the lock was free on return
    if (++l->occupancy > 1) return RV(-70);                    // somebody else is inside
    return RV(r, r < 0 ? e : 0);
}
E2_OP(c3n1) {
    if (!c.env.obj_is(op.a(0), "c3cv")) return RV(SKIPPED);
    auto cv = c.env.obj<photon::condition_variable>(op.a(0));
    photon::thread* th = cv->notify_one();
    if (!th) return RV(-1);
    for (size_t k = 0; k < c.env.threads.size(); k++)
        if (c.env.threads[k].created && c.env.threads[k].th == th) return RV((int64_t)k);
    return RV(-3);
}
E2_OP(c3nall) {
    if (!c.env.obj_is(op.a(0), "c3cv")) return RV(SKIPPED);
    auto cv = c.env.obj<photon::condition_variable>(op.a(0));
    return RV(cv->notify_all());
}
