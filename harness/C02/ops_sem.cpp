// ops_sem.cpp — E2 ops for photon::semaphore (model: coq/C02/C02_Model.v driven by C02_Coop.v).
// decl `sem <count> <in_order>`; ops `sem_wait i c t`, `sem_waiti i c t`, `sem_signal i n`, `sem_count i`.
#include <photon/thread/thread.h>
#include "e2.h"
using namespace e2;

E2_DECL(sem) { return new photon::semaphore(d.u(0, 0), d.a(1, 1) != 0); }

E2_OP(sem_wait) {
    if (!c.env.obj_is(op.a(0), "sem")) return RV(SKIPPED);
    int r = c.env.obj<photon::semaphore>(op.a(0))->wait(op.u(1), photon::Timeout(op.u(2)));
    return R(r);
}
E2_OP(sem_waiti) {
    if (!c.env.obj_is(op.a(0), "sem")) return RV(SKIPPED);
    int r = c.env.obj<photon::semaphore>(op.a(0))->wait_interruptible(op.u(1), photon::Timeout(op.u(2)));
    return R(r);
}
E2_OP(sem_signal) {
    if (!c.env.obj_is(op.a(0), "sem")) return RV(SKIPPED);
    int r = c.env.obj<photon::semaphore>(op.a(0))->signal(op.u(1));
    return R(r);
}
E2_OP(sem_count) {
    if (!c.env.obj_is(op.a(0), "sem")) return RV(SKIPPED);
    return RV((int64_t)c.env.obj<photon::semaphore>(op.a(0))->count());
}
// observation only: demand of the waiter at the head of the queue (thread::semaphore_count of q.th;
// thread.cpp static_asserts offsetof(thread, start) == 0x48 and semaphore_count shares that union)
struct SemPeek : public photon::semaphore { photon::thread* head_thread() { return q.th; } };
E2_OP(sem_head) {
    if (!c.env.obj_is(op.a(0), "sem")) return RV(SKIPPED);
    auto h = ((SemPeek*)c.env.obj<photon::semaphore>(op.a(0)))->head_thread();
    if (!h) return RV(0);
    return RV((int64_t)*(uint64_t*)((char*)h + 0x48));
}
