// destroy.cpp — C02 "safe to destroy after wait" on the implementation.
// Each semaphore lives alone in a page; the moment wait() returns 0 in the waiter the page is made
// inaccessible (mprotect PROT_NONE) — the strongest form of "destroyed immediately": ANY later access by the
// signaller (instrumented or not, inline or inside libphoton.so) faults.  Usage: destroy <seed> <iterations>
//   part 1: signaller = another photon thread of the same vCPU (deterministic; all call orders)
//   part 2: signaller = a plain OS thread (non-deterministic stress; can fail only by a real fault)
// Prints "OK ..." on success; a fault prints "FAULT" and exits 3.
#include <photon/photon.h>
#include <photon/thread/thread.h>
#include <photon/common/alog.h>
#include <sys/mman.h>
#include <signal.h>
#include <unistd.h>
#include <atomic>
#include <thread>
#include <new>
#include <cstdio>
#include <cstdlib>
#include <cstring>
#include <cerrno>
using namespace photon;

static void on_fault(int, siginfo_t* si, void*) {
    char buf[128];
    int n = snprintf(buf, sizeof buf, "FAULT: access to a destroyed semaphore at %p\n", si->si_addr);
    (void)!write(1, buf, n);
    _exit(3);
}
static uint64_t rng_state;
static uint64_t rnd() { uint64_t z = (rng_state += 0x9e3779b97f4a7c15ULL); z = (z ^ (z >> 30)) * 0xbf58476d1ce4e5b9ULL; z = (z ^ (z >> 27)) * 0x94d049bb133111ebULL; return z ^ (z >> 31); }

static semaphore* new_sem(uint64_t count) {
    void* p = mmap(nullptr, 4096, PROT_READ | PROT_WRITE, MAP_PRIVATE | MAP_ANONYMOUS, -1, 0);
    if (p == MAP_FAILED) { perror("mmap"); exit(2); }
    // put the object at a random offset so that neighbouring bytes are also covered
    return new ((char*)p + 64 * (rnd() % 32)) semaphore(count);
}
static void destroy_sem(semaphore* s) {
    s->~semaphore();
    mprotect((void*)((uintptr_t)s & ~4095UL), 4096, PROT_NONE);
}

struct Job { semaphore* s; int pre_yields; int mode; volatile int done; uint64_t tmo; long waits, signals; };

static void* ph_signaller(void* a) {
    auto j = (Job*)a;
    for (int i = 0; i < j->pre_yields; i++) thread_yield();
    if (j->mode == 1) thread_usleep(100);
    j->s->signal(1);
    j->signals++;
    j->done |= 1;
    return nullptr;
}
static void* ph_waiter(void* a) {
    auto j = (Job*)a;
    int r;
    while ((r = j->s->wait(1, j->tmo)) != 0) {      // a timed-out wait took nothing: the signal is still to come
        if (errno != ETIMEDOUT) { printf("BAD: wait returned %d errno %d\n", r, errno); exit(2); }
        j->tmo = -1;
    }
    destroy_sem(j->s);                               // wait() returned 0: destroy immediately
    j->waits++;
    j->done |= 2;
    return nullptr;
}

int main(int argc, char** argv) {
    log_output_level = ALOG_FATAL + 1;
    rng_state = argc > 1 ? strtoull(argv[1], 0, 10) : 1;
    long iters = argc > 2 ? atol(argv[2]) : 200;
    struct sigaction sa; memset(&sa, 0, sizeof sa); sa.sa_sigaction = on_fault; sa.sa_flags = SA_SIGINFO;
    sigaction(SIGSEGV, &sa, nullptr); sigaction(SIGBUS, &sa, nullptr);
    if (photon::init(INIT_EVENT_DEFAULT, INIT_IO_NONE) != 0) { printf("INITFAIL\n"); return 2; }
    long n1 = 0, n2 = 0;
    // ---- part 1: photon signaller, same vCPU ----
    for (long it = 0; it < iters; it++) {
        Job j; memset(&j, 0, sizeof j);
        j.s = new_sem(0); j.pre_yields = rnd() % 3; j.mode = rnd() % 2;
        j.tmo = (rnd() % 3 == 0) ? (uint64_t)(10 + rnd() % 200) : -1ULL;
        bool waiter_first = rnd() % 2;
        if (waiter_first) { thread_create(ph_waiter, &j); thread_create(ph_signaller, &j); }
        else { thread_create(ph_signaller, &j); thread_create(ph_waiter, &j); }
        while (j.done != 3) thread_usleep(50);
        n1++;
    }
    // ---- part 2: OS-thread signaller ----
    for (long it = 0; it < iters; it++) {
        Job j; memset(&j, 0, sizeof j);
        j.s = new_sem(0); j.tmo = -1;
        std::atomic<int> go{0}, sig_done{0};
        unsigned spin_s = rnd() % 2000, spin_w = rnd() % 2000;
        std::thread th([&] {
            while (!go.load()) { }
            for (volatile unsigned i = 0; i < spin_s; i++) { }
            j.s->signal(1);
            sig_done.store(1);
        });
        go.store(1);
        for (volatile unsigned i = 0; i < spin_w; i++) { }
        int r = j.s->wait(1);
        if (r != 0) { printf("BAD: wait returned %d errno %d\n", r, errno); return 2; }
        destroy_sem(j.s);
        th.join();
        if (!sig_done.load()) { printf("BAD: signaller did not finish\n"); return 2; }
        n2++;
    }
    printf("OK photon-signaller=%ld os-thread-signaller=%ld (semaphore page made inaccessible right after wait() returned; no fault)\n", n1, n2);
    fflush(stdout);
    _exit(0);
}
