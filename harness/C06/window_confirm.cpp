// Confirmation of the F18 windows of rwlock::unlock on the real code: a callback placed between the
// decision (1983) and the notify (1984/1986) interrupts the head waiter, as a thread_interrupt()
// from another vCPU arriving at that instant would.  Single vCPU, no timing dependence.
#include <photon/thread/thread.h>
#include <photon/common/alog.h>
#include <cstdio>
#include <cerrno>
#include <cstdlib>
#include <unistd.h>
extern "C" { extern void (*photon_verif_rwlock_window)(void*, int); }
static photon::rwlock L;
static photon::thread* victim; static int fire_at; static int fired;
static int ret[8], held[8], step_no;
static void cb(void*, int where) { if (where == fire_at && victim && !fired) { fired = 1; photon::thread_interrupt(victim, EINTR); } }
struct Arg { int id, mode; };
static void* locker(void* a_) {
    Arg* a = (Arg*)a_;
    int r = L.lock(a->mode);
    ret[a->id] = r ? -errno : 0;
    if (r == 0) { held[a->id] = ++step_no; }
    return nullptr;
}
int main(int argc, char** argv) {
    int scenario = argc > 1 ? atoi(argv[1]) : 1;
    log_output_level = ALOG_FATAL + 1;
    photon::vcpu_init();
    photon_verif_rwlock_window = cb;
    L.lock(photon::WLOCK);                                   // T0 holds in write mode
    Arg a1{1, scenario == 1 ? photon::WLOCK : photon::RLOCK}, a2{2, scenario == 1 ? photon::RLOCK : photon::WLOCK}, a3{3, photon::RLOCK};
    for (int i = 1; i < 8; i++) ret[i] = 99;
    auto t1 = photon::thread_create(locker, &a1); photon::thread_yield();
    photon::thread_create(locker, &a2); photon::thread_yield();
    if (scenario == 1) { photon::thread_create(locker, &a3); photon::thread_yield(); }
    victim = t1; fire_at = scenario;                          // head waiter leaves inside the window
    L.unlock();
    for (int i = 0; i < 10; i++) photon::thread_yield();
    if (scenario == 1)
        printf("scenario 1 (F18a): fired=%d  T1(W) ret=%d  T2(R) ret=%d acquired#=%d  T3(R) ret=%d acquired#=%d  => %s\n", fired, ret[1], ret[2], held[2], ret[3], held[3],
               (ret[2] == 0 && ret[3] == 99) ? "reader T3 left queued un-notified although no writer waits" : "all waiting readers admitted");
    else
        printf("scenario 2 (F18b): fired=%d  T1(R) ret=%d  T2(W) ret=%d acquired#=%d  => %s\n", fired, ret[1], ret[2], held[2],
               (ret[2] == 99) ? "lock free, writer T2 asleep un-notified: STALL" : "writer admitted");
    fflush(stdout);
    _exit(0);
}
