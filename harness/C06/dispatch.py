#!/usr/bin/env python3
# C06 implementation dispatcher: `P` case lines go to the E2 harness (real scheduler, virtual clock),
# `Q` lines to the E3 harness (qrwlock state word between OS threads), `B` lines to the E3 harness of the BLOCKING
# qrwlock path (qrw_e3b.cpp: lock/try_lock/unlock with instrumented cv stand-ins); the output lines are merged
# back in the order of the case file (one line per case).  If a harness dies, the case it died on
# is reported as CRASH and the harness is restarted on the remaining cases.
import sys, subprocess, os, tempfile
if len(sys.argv) >= 5:
    e2_exe, e3_exe, e3b_exe, casefile = sys.argv[1], sys.argv[2], sys.argv[3], sys.argv[4]
else:
    e2_exe, e3_exe, casefile = sys.argv[1], sys.argv[2], sys.argv[3]; e3b_exe = None
lines = [l.rstrip('\n') for l in open(casefile) if l.strip() and not l.startswith('#')]
groups = {}
for i, l in enumerate(lines):
    groups.setdefault(l[0], []).append(i)
out = [None] * len(lines)
for tag, exe in (('P', e2_exe), ('Q', e3_exe), ('B', e3b_exe)):
    idx = groups.get(tag, []) if exe else []
    while idx:
        fd, fn = tempfile.mkstemp(prefix='C06_%s_' % tag, suffix='.cases', dir=os.path.dirname(casefile))
        with os.fdopen(fd, 'w') as f:
            for i in idx: f.write(lines[i] + '\n')
        p = subprocess.run([exe, fn], stdout=subprocess.PIPE, stderr=subprocess.PIPE, universal_newlines=True, errors='replace')
        os.unlink(fn)
        res = p.stdout.split('\n')
        if res and res[-1] == '': res.pop()
        for j, i in enumerate(idx[:len(res)]):
            out[i] = res[j]
        if len(res) >= len(idx):
            break
        out[idx[len(res)]] = 'CRASH(%s): %s' % (p.returncode, (p.stderr.strip().splitlines() or [''])[-1][:200])
        idx = idx[len(res) + 1:]
for i, l in enumerate(lines):
    print(out[i] if out[i] is not None else 'BADCASE')
sys.stdout.flush()
