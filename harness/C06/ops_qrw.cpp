// ops_qrw.cpp — E2 probes of property C06 for the BLOCKING path of photon::qrwlock / photon::rwlock
// (model: coq/C06/C06_E2.v, ops QWaiters / RwWaiters).
//   q_waiters i   -> 1000 * (threads parked on cv_unique) + (threads parked on cv_shared)   of qrwlock i
//   rw_waiters i  -> threads parked on cvar of rwlock i
// The lock / try_lock / unlock / state ops of both locks are in ops_rw.cpp (q_lock, q_try, q_unlock, q_state,
// rw_lock, rw_unlock, rw_state); the objects are created there (subclasses that add no data member).
// The probe makes the two condition-variable queues of qrwlock (who is parked where) part of the trace
// that is compared verbatim with the model, so a waiter that try_wake() leaves behind shows up at the
// probe and not only through a later blocked/late admission.
// The wait queue is the intrusive circular list headed by `waitq::q.th`; `photon::thread` derives from
// intrusive_list_node<thread> as its only base (thread.cpp: `struct thread : public intrusive_list_node<thread>`),
// so the node is at offset 0 of the thread object.
#include <cstdint>
#include <cstdio>
#include <string>
#include <vector>
#include <map>
#include <atomic>
#include <functional>
#include <memory>
#define protected public
#include <photon/thread/thread.h>
#undef protected
#include <photon/common/intrusive_list.h>
#include "e2.h"
using namespace e2;

static int64_t waiters(photon::condition_variable& cv) {
    auto* head = (__intrusive_list_node*)cv.q.th;
    if (!head) return 0;
    int64_t n = 0;
    auto* p = head;
    do { n++; p = p->__next_ptr; } while (p != head && n < 100000);
    return n;
}

E2_OP(q_waiters) {
    if (!c.env.obj_is(op.a(0), "qrwlock")) return RV(SKIPPED);
    auto* l = c.env.obj<photon::qrwlock>(op.a(0));
    return RV(1000 * waiters(l->cv_unique) + waiters(l->cv_shared));
}
E2_OP(rw_waiters) {
    if (!c.env.obj_is(op.a(0), "rwlock")) return RV(SKIPPED);
    auto* l = c.env.obj<photon::rwlock>(op.a(0));
    return RV(waiters(l->cvar));
}
