// qrw_e3.cpp — engine E3 on the REAL photon::qrwlock state word and its spinlock (thread/thread.h
// 230-261, 614-721), between OS threads: try_lock(mode) / unlock(), every atomic operation on
// `lock_state` ("ls") and `spin._lock` ("spin") is one scheduled, logged step.
// Case line:   Q <bound> <flags> | <script 0> | ... | <script n-1> | <schedule>
//   script: space-separated ops  w = try_lock(WLOCK)  r = try_lock(RLOCK)  u = unlock() if this
//   participant holds the lock (else skipped, result -2);  `-` = empty script;  flags: `full` = print the log
// Output:      steps=<k> ok|livelock log=<fnv digest> res=<results of p0>|<p1>|... final=<lock_state> [LOG ...]
// Model: coq/C06/C06_QE3.v (qe3_run).
#include "../E3/e3.h"
#include <cassert>
#include <cerrno>
#include <type_traits>
#include <emmintrin.h>
#include <fstream>
#include <sstream>
#include <iostream>
#include <photon/common/callback.h>
#include <photon/common/timeout.h>
#include <photon/thread/stack-allocator.h>
#define atomic verif_atomic
#define atomic_bool verif_atomic<bool>
#define protected public
#include <photon/thread/thread.h>
#undef protected
#undef atomic_bool
#undef atomic

struct Box { photon::qrwlock l; };

static std::vector<std::string> split(const std::string& s, char c) {
    std::vector<std::string> out; std::string cur;
    for (char ch : s) { if (ch == c) { out.push_back(cur); cur.clear(); } else cur.push_back(ch); }
    out.push_back(cur); return out;
}
static std::string trim(const std::string& s) {
    size_t a = s.find_first_not_of(" \t\r\n"), b = s.find_last_not_of(" \t\r\n");
    return a == std::string::npos ? "" : s.substr(a, b - a + 1);
}

struct Result { bool livelock; int steps; uint64_t digest; std::string res, log, err; int64_t final_state; };

static Result run_case(const std::vector<std::string>& scripts, const std::string& sched, int bound) {
    int n = (int)scripts.size();
    Box* b = new Box();                              // leaked on livelock
    e3::clear_names();
    e3::name(&b->l.lock_state, "ls");
    e3::name(&b->l.spin._lock, "spin");
    auto results = std::make_shared<std::vector<std::vector<long>>>(n);
    auto o = e3::run(n, e3::parse_schedule(sched), bound, [b, &scripts, results](int p) {
        int held = 0;
        std::istringstream is(scripts[p]);
        std::string tok;
        while (is >> tok) {
            if (tok == "-") continue;
            long r;
            if (tok == "w") { r = b->l.try_lock(photon::WLOCK); if (r == 0) held++; }
            else if (tok == "r") { r = b->l.try_lock(photon::RLOCK); if (r == 0) held++; }
            else if (tok == "u") { if (held > 0) { held--; r = b->l.unlock(); } else r = -2; }
            else continue;
            (*results)[p].push_back(r);
        }
    });
    Result R;
    R.livelock = o.livelock; R.steps = o.steps(); R.digest = e3::digest(o.log); R.err = o.error;
    R.log = e3::join(o.log, " ");
    std::string res;
    for (int p = 0; p < n; p++) {
        if (p) res += "|";
        for (size_t i = 0; i < (*results)[p].size(); i++) { if (i) res += ","; res += std::to_string((*results)[p][i]); }
        if (!o.finished[p]) res += "*";
    }
    R.res = res;
    R.final_state = b->l.lock_state.std::atomic<int64_t>::load();
    if (!o.livelock) delete b;
    return R;
}

int main(int argc, char** argv) {
    if (argc < 2) return 2;
    e3::pin_to_one_cpu();
    std::ifstream in(argv[1]);
    std::string line;
    while (std::getline(in, line)) {
        if (line.empty() || line[0] == '#') continue;
        auto f = split(line, '|');
        std::istringstream hd(f[0]);
        std::string tag, flags; int bound = 0;
        hd >> tag >> bound >> flags;
        if (tag != "Q" || f.size() < 3 || bound <= 0) { printf("BADCASE\n"); fflush(stdout); continue; }
        std::vector<std::string> scripts;
        for (size_t i = 1; i + 1 < f.size(); i++) scripts.push_back(trim(f[i]));
        std::string sched = trim(f.back());
        Result a = run_case(scripts, sched, bound);
        Result b = run_case(scripts, sched, bound);
        if (a.log != b.log || a.res != b.res || a.final_state != b.final_state) { printf("E3ERROR nondeterministic replay\n"); fflush(stdout); continue; }
        printf("steps=%d %s log=%016" PRIx64 " res=%s final=%" PRId64 "%s%s\n", a.steps, a.livelock ? "livelock" : "ok", a.digest,
               a.res.c_str(), a.final_state, flags == "full" ? (" LOG " + a.log).c_str() : "",
               a.err.empty() ? "" : (" E3ERROR=" + a.err).c_str());
        fflush(stdout);
    }
    return 0;
}
