// ops_rw.cpp — E2 ops of property C06: photon::rwlock and photon::qrwlock (model: coq/C06/C06_E2.v).
//   decls: `rwlock`, `qrwlock`
//   ops:   rw_lock i mode t | rw_unlock i | rw_state i | q_lock i mode t | q_try i mode | q_unlock i | q_state i
//   mode is passed through unchanged (RLOCK = 4096, WLOCK = 8192); t = -1: no timeout.
#include <photon/thread/thread.h>
#include "e2.h"
using namespace e2;

namespace {
struct RW : public photon::rwlock { int64_t get_state() const { return state; } };
struct QRW : public photon::qrwlock { int64_t get_state() const { return lock_state.load(); } };
}

E2_DECL(rwlock) { return new RW; }
E2_DECL(qrwlock) { return new QRW; }

// c.me.local[i] = number of holds of object i by this thread (objects 0..7): `*_unlock` is only
// executed by a thread that holds the lock (well-formed client), else it is skipped on both sides
static int64_t& held(Ctx& c, int64_t i) { static int64_t dummy; dummy = 0; return (i >= 0 && i < 8) ? c.me.local[i] : dummy; }

E2_OP(rw_lock) {
    if (!c.env.obj_is(op.a(0), "rwlock")) return RV(SKIPPED);
    int r = c.env.obj<RW>(op.a(0))->lock((int)op.a(1), photon::Timeout(op.u(2, (uint64_t)-1)));
    Result res = R(r);
    if (r == 0) held(c, op.a(0))++;
    return res;
}
E2_OP(rw_unlock) {
    if (!c.env.obj_is(op.a(0), "rwlock")) return RV(SKIPPED);
    if (held(c, op.a(0)) <= 0) return RV(SKIPPED);
    held(c, op.a(0))--;
    return R(c.env.obj<RW>(op.a(0))->unlock());
}
E2_OP(rw_state) {
    if (!c.env.obj_is(op.a(0), "rwlock")) return RV(SKIPPED);
    return RV(c.env.obj<RW>(op.a(0))->get_state());
}
E2_OP(q_lock) {
    if (!c.env.obj_is(op.a(0), "qrwlock")) return RV(SKIPPED);
    int r = c.env.obj<QRW>(op.a(0))->lock((int)op.a(1), photon::Timeout(op.u(2, (uint64_t)-1)));
    Result res = R(r);
    if (r == 0) held(c, op.a(0))++;
    return res;
}
E2_OP(q_try) {
    if (!c.env.obj_is(op.a(0), "qrwlock")) return RV(SKIPPED);
    int r = c.env.obj<QRW>(op.a(0))->try_lock((int)op.a(1));
    if (r == 0) held(c, op.a(0))++;
    return RV(r, 0);            // try_lock does not set errno
}
E2_OP(q_unlock) {
    if (!c.env.obj_is(op.a(0), "qrwlock")) return RV(SKIPPED);
    if (held(c, op.a(0)) <= 0) return RV(SKIPPED);
    held(c, op.a(0))--;
    return R(c.env.obj<QRW>(op.a(0))->unlock());
}
E2_OP(q_state) {
    if (!c.env.obj_is(op.a(0), "qrwlock")) return RV(SKIPPED);
    return RV(c.env.obj<QRW>(op.a(0))->get_state());
}
