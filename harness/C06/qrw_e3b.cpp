// qrw_e3b.cpp — engine E3 on the BLOCKING path of the REAL photon::qrwlock (thread/thread.h: do_lock, try_wake,
// __unlock_unique, __unlock_shared, __trylock, __trylock_shared, lock/try_lock/unlock) between OS threads.
// thread.h is included UNCHANGED; by macro
//   * std::atomic -> std::verif_atomic: every atomic operation on `lock_state` ("ls") and on `spin._lock` ("spin";
//     the real photon::spinlock code runs: xchg / load loop / store) is one scheduled, logged step;
//   * the three out-of-line scheduler entry points the class reaches through its two condition variables are renamed,
//     so that this file supplies them (the class text, its members and their layout stay as they are):
//       condition_variable::wait(spinlock*, Timeout)  (thread.cpp cvar_do_wait = thread_usleep_defer + re-lock)
//           point "enq.<cv>"   enqueue at the tail of the cv's FIFO (prepare_usleep)
//           point st.spin.0    the deferred spin.unlock()   (the real spinlock::unlock)
//           points "blk.<v>"   asleep; one per scheduling of the sleeper:
//                 blk.0 still asleep        blk.1 it has been notified: leaves the loop
//                 blk.2 its deadline has passed on the harness clock and (schedule flavor 1, or every unfinished
//                       participant is asleep = time must pass): it leaves the FIFO, wait() will return -1/ETIMEDOUT
//                 blk.3 every unfinished participant is asleep and no sleeper's deadline has passed: nothing can
//                       ever happen again; the participant is DISMISSED (longjmp out of lock(), nothing touched; it
//                       stays in the FIFO and is reported in `blocked=`)
//           then spin.lock() again (the real spinlock::lock: points xg / ld on "spin")
//       waitq::resume_one  (notify_one)  point "n1.<cv>.<k>"  k = 1 + participant taken from the head, 0 = empty
//       waitq::resume_all  (notify_all)  points "na.<cv>.<k>" one per woken participant, then "na.<cv>.0"
// The clock is photon::now, moved only by script op A (point "tick", then now += 200).
// Case line:   B <bound> <flags> | <script 0> | ... | <script n-1> | <schedule>
//   ops: Lw[<t>] / Lr[<t>] = lock(WLOCK|RLOCK, Timeout(t)) (no number: no timeout)   Tw / Tr = try_lock
//        U = unlock() if this participant holds (else skipped, result -2)   A = tick    `-` = empty script
//   schedule entry e: participant e % n, flavor e / n (1 = "timer": lets an expired sleeper time out)
// Output: steps=<k> ok|livelock log=<fnv> res=<r:errno:k0:k1,..>|.. final=<lock_state> spin=<0|1> cvu=<p,..|-> cvs=<..>
//         blocked=<p,..|-> hold=<p:count,..|-> now=<clock> [LOG ...]     (k0..k1 = log index range of the op)
// Model: coq/C06/C06_QE3B.v (qb_run): the SAME qth_step/qstep of C06_QModel.v, one per point.
#include "../E3/e3.h"
#include <cassert>
#include <cerrno>
#include <csetjmp>
#include <type_traits>
#include <emmintrin.h>
#include <algorithm>
#include <fstream>
#include <sstream>
#include <iostream>
#include <photon/common/callback.h>
#include <photon/common/timeout.h>
#include <photon/thread/stack-allocator.h>
#define atomic verif_atomic
#define atomic_bool verif_atomic<bool>
#define condition_variable verif_condition_variable
#define resume_one verif_resume_one
#define resume_all verif_resume_all
#define protected public
#include <photon/thread/thread.h>
#undef protected
#undef resume_all
#undef resume_one
#undef condition_variable
#undef atomic_bool
#undef atomic

enum { MAXP = 36 };
struct CvState { std::vector<int> q; std::string nm; };
struct G {
    std::map<const void*, CvState> cv;
    int slp[MAXP];            // 0 not waiting, 1 enqueued (spin not yet released), 2 asleep, 3 notified, 4 timed out
    uint64_t dl[MAXP];        // expiration of the wait in progress
    char dismissed[MAXP];
    jmp_buf jb[MAXP];
    int n;
    char dummy[MAXP];
} g;

static CvState& cvstate(const void* p) {
    auto it = g.cv.find(p);
    if (it == g.cv.end()) { if (e3::cur()) e3::cur()->error = "wait/notify on an unregistered condition variable"; return g.cv[p]; }
    return it->second;
}
static bool asleep(int p) { return g.slp[p] == 2; }
static bool stuck(int me) {           // every unfinished participant other than me is asleep
    e3::Run* r = e3::cur();
    for (int p = 0; p < g.n; p++) if (p != me && !r->finished[p] && !asleep(p)) return false;
    return true;
}
static bool some_sleeper_expired() {
    e3::Run* r = e3::cur();
    for (int p = 0; p < g.n; p++) if (!r->finished[p] && asleep(p) && g.dl[p] <= photon::now) return true;
    return false;
}

namespace photon {
int verif_condition_variable::wait(spinlock* m, Timeout t) {
    int me = e3::me();
    CvState& c = cvstate(this);
    e3::pre();                                            // prepare_usleep: enqueue at the tail
    c.q.push_back(me); g.slp[me] = 1; g.dl[me] = t.expiration();
    e3::post(("enq." + c.nm).c_str(), nullptr);
    m->unlock();                                          // the deferred unlock (point st.spin.0)
    if (g.slp[me] == 1) g.slp[me] = 2;
    for (;;) {
        e3::pre();
        if (g.slp[me] != 2) { e3::post("blk", nullptr, "1"); break; }
        bool expired = g.dl[me] <= photon::now;
        bool st = stuck(me);
        if (expired && (e3::flavor() == 1 || st)) {
            c.q.erase(std::remove(c.q.begin(), c.q.end(), me), c.q.end()); g.slp[me] = 4;
            e3::post("blk", nullptr, "2"); break;
        }
        if (st && !some_sleeper_expired()) {
            e3::post("blk", nullptr, "3");
            g.dismissed[me] = 1; longjmp(g.jb[me], 1);
        }
        e3::post("blk", nullptr, "0");
    }
    bool timedout = (g.slp[me] == 4); g.slp[me] = 0;
    m->lock();                                            // cvar_do_wait re-locks (points on "spin")
    if (timedout) { errno = ETIMEDOUT; return -1; }
    return 0;
}
thread* waitq::verif_resume_one(int) {
    CvState& c = cvstate(this);
    e3::pre();
    if (c.q.empty()) { e3::post(("n1." + c.nm).c_str(), nullptr, "0"); return nullptr; }
    int h = c.q.front(); c.q.erase(c.q.begin()); g.slp[h] = 3;
    e3::post(("n1." + c.nm).c_str(), nullptr, std::to_string(h + 1));
    return (thread*)&g.dummy[h];
}
int waitq::verif_resume_all(int) {
    CvState& c = cvstate(this);
    int k = 0;
    for (;;) {
        e3::pre();
        if (c.q.empty()) { e3::post(("na." + c.nm).c_str(), nullptr, "0"); break; }
        int h = c.q.front(); c.q.erase(c.q.begin()); g.slp[h] = 3; k++;
        e3::post(("na." + c.nm).c_str(), nullptr, std::to_string(h + 1));
    }
    return k;
}
}

struct Box { photon::qrwlock l; };

static std::vector<std::string> split(const std::string& s, char c) {
    std::vector<std::string> out; std::string cur;
    for (char ch : s) { if (ch == c) { out.push_back(cur); cur.clear(); } else cur.push_back(ch); }
    out.push_back(cur); return out;
}
static std::string trim(const std::string& s) {
    size_t a = s.find_first_not_of(" \t\r\n"), b = s.find_last_not_of(" \t\r\n");
    return a == std::string::npos ? "" : s.substr(a, b - a + 1);
}
static std::string plist(const std::vector<int>& v) {
    if (v.empty()) return "-";
    std::string s; for (size_t i = 0; i < v.size(); i++) { if (i) s += ","; s += std::to_string(v[i]); } return s;
}

struct OpRes { long r, e, k0, k1; };

static void run_script(Box* b, int p, const std::string& script, std::vector<OpRes>& res, int& held) {
    std::istringstream is(script);
    std::string tok;
    while (is >> tok) {
        if (tok == "-") continue;
        long r = 0, e = 0, k0 = (long)e3::cur()->log.size();
        if (tok[0] == 'L' || tok[0] == 'T') {
            int mode = (tok.size() > 1 && tok[1] == 'w') ? photon::WLOCK : photon::RLOCK;
            if (tok[0] == 'T') r = b->l.try_lock(mode);
            else {
                long t = tok.size() > 2 ? strtol(tok.c_str() + 2, nullptr, 10) : -1;
                r = b->l.lock(mode, t < 0 ? photon::Timeout() : photon::Timeout((uint64_t)t));
                if (r < 0) e = errno;
            }
            if (r == 0) held++;
        } else if (tok[0] == 'U') {
            if (held > 0) { held--; r = b->l.unlock(); if (r < 0) e = errno; } else r = -2;
        } else if (tok[0] == 'A') {
            e3::point("tick"); photon::now = photon::now + 200;
        } else continue;
        res.push_back(OpRes{r, e, k0, (long)e3::cur()->log.size()});
    }
}

struct Result { std::string line, log; };

static Result run_case(const std::vector<std::string>& scripts, const std::string& sched, int bound) {
    int n = (int)scripts.size();
    Box* b = new Box();                              // leaked on livelock
    e3::clear_names();
    e3::name(&b->l.lock_state, "ls");
    e3::name(&b->l.spin._lock, "spin");
    g.cv.clear();
    g.cv[&b->l.cv_unique].nm = "cvu";
    g.cv[&b->l.cv_shared].nm = "cvs";
    memset(g.slp, 0, sizeof g.slp); memset(g.dismissed, 0, sizeof g.dismissed);
    for (int p = 0; p < MAXP; p++) g.dl[p] = (uint64_t)-1;
    g.n = n;
    photon::now = 0;
    auto results = std::make_shared<std::vector<std::vector<OpRes>>>(n);
    auto held = std::make_shared<std::vector<int>>(n, 0);
    auto o = e3::run(n, e3::parse_schedule(sched), bound, [b, &scripts, results, held](int p) {
        if (setjmp(g.jb[p]) == 0) run_script(b, p, scripts[p], (*results)[p], (*held)[p]);   // else: dismissed while asleep
    });
    std::string res;
    std::vector<int> blocked;
    std::string hold;
    for (int p = 0; p < n; p++) {
        if (p) res += "|";
        auto& v = (*results)[p];
        for (size_t i = 0; i < v.size(); i++) {
            if (i) res += ",";
            res += std::to_string(v[i].r) + ":" + std::to_string(v[i].e) + ":" + std::to_string(v[i].k0) + ":" + std::to_string(v[i].k1);
        }
        bool bl = !o.finished[p] || g.dismissed[p];
        if (bl) { res += "*"; blocked.push_back(p); }
        if ((*held)[p] > 0) { if (!hold.empty()) hold += ","; hold += std::to_string(p) + ":" + std::to_string((*held)[p]); }
    }
    char buf[256];
    snprintf(buf, sizeof buf, "steps=%d %s log=%016" PRIx64 " res=", o.steps(), o.livelock ? "livelock" : "ok", e3::digest(o.log));
    Result R;
    R.line = buf + res;
    R.line += " final=" + std::to_string((long long)b->l.lock_state.std::atomic<int64_t>::load());
    R.line += " spin=" + std::to_string((int)b->l.spin._lock.std::atomic<bool>::load());
    R.line += " cvu=" + plist(g.cv[&b->l.cv_unique].q) + " cvs=" + plist(g.cv[&b->l.cv_shared].q);
    R.line += " blocked=" + plist(blocked) + " hold=" + (hold.empty() ? "-" : hold);
    R.line += " now=" + std::to_string((unsigned long long)photon::now);
    if (!o.error.empty()) R.line += " E3ERROR=" + o.error;
    R.log = e3::join(o.log, " ");
    if (!o.livelock) delete b;
    return R;
}

int main(int argc, char** argv) {
    if (argc < 2) return 2;
    e3::pin_to_one_cpu();
    std::ifstream in(argv[1]);
    std::string line;
    while (std::getline(in, line)) {
        if (line.empty() || line[0] == '#') continue;
        auto f = split(line, '|');
        std::istringstream hd(f[0]);
        std::string tag, flags; int bound = 0;
        hd >> tag >> bound >> flags;
        if (tag != "B" || f.size() < 3 || bound <= 0 || f.size() - 2 > MAXP) { printf("BADCASE\n"); fflush(stdout); continue; }
        std::vector<std::string> scripts;
        for (size_t i = 1; i + 1 < f.size(); i++) scripts.push_back(trim(f[i]));
        std::string sched = trim(f.back());
        Result a = run_case(scripts, sched, bound);
        Result b = run_case(scripts, sched, bound);
        if (a.line != b.line || a.log != b.log) { printf("E3ERROR nondeterministic replay {%s} {%s}\n", a.line.c_str(), b.line.c_str()); fflush(stdout); continue; }
        printf("%s%s\n", a.line.c_str(), flags == "full" ? (" LOG " + a.log).c_str() : "");
        fflush(stdout);
    }
    fflush(stdout);
    _exit(0);
}
