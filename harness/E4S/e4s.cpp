// e4s.cpp — engine E4S: CONTROLLED multi-vCPU schedule explorer for photon's blocking synchronisation
// primitives (mutex, semaphore, condition_variable, rwlock; thread/thread.cpp of the tree under test is
// compiled INTO this translation unit, e4s_repo.h).
//
// N photon vCPUs = N OS threads ("participants").  Each runs a few photon threads that execute a scripted
// op list on shared primitives.  Exactly ONE participant runs at any time; the others are blocked on a
// semaphore INSIDE a hook.  The PREEMPTION POINTS are
//   * every lockset callback PHOTON_VERIF_LS(id, obj, l1, l2): spinlock acquire attempt (LS_LOCK_WANT = 3,
//     repo_patches/E4S-hook-lock-want.diff), acquire (1), release (2, BEFORE the releasing store; LS_LOCK_FREE = 4 AFTER it,
//     same patch: without it everything up to the next hook would be glued to the release), and every
//     hooked access (wait-queue push/erase, going to sleep, interrupt/timeout wake-up, mutex CAS and hand-off,
//     semaphore add/subtract/resume pass, rwlock state change, standby push/drain);
//   * the start of every scripted op (100 START of a participant, 101 op start);
//   * the idle hook (103): the idler of a vCPU with nothing runnable hands the token on instead of blocking.
// A participant parked at LOCK_WANT is ENABLED only while that spinlock is free (so a spinner is never run
// against a descheduled holder: the holder is run instead); an idle participant is enabled when its standby
// queue is non-empty or the front of its sleep queue has expired in VIRTUAL time (E2 clock hook; the clock
// moves only by the op `tick d`, or — when nothing at all is enabled — jumps to the earliest deadline).
// When nothing is enabled and no deadline is left the run is QUIESCENT: the result is printed.
//
// A SCHEDULE is the sequence of participant choices at the decisions (points with >= 2 enabled participants).
// It comes from the case line: explicit prefix items, then a replay string, then a seeded scheduler
// (pct: d-1 priority change points among k decisions; rand: sticky random walk; rr: run until blocked).
// The choices actually made are printed (`sched=`), so every run can be replayed exactly (`replay=`).
//
// Case line:   X <nv> | <decls> | <v> <ops> | <v> <ops> | ... | @ <key=value ...>
//   decls:  mutex [retries [contending 0|1]] ; rmutex [retries [contending]] (photon::recursive_mutex) ; sem [count] ; cv ;
//           rwlock [retries of its internal mutex]                                            (index = position)
//   thread section: the vCPU it lives on, then ops separated by ';' (thread ids = section order, T0..)
//   ops:  lock m t | try_lock m | unlock m | rlock m t | rtry m | runlock m (recursive_mutex: lock / try_lock / unlock) | sem_wait s n t | sem_signal s n | cv_wait c m t | notify_one c |
//         notify_all c | rw_lock l mode(0=R,1=W) t | rw_unlock l | interrupt k e | shutdown k flag | tick d | yield | usleep t | nop
//     t = -1 means no timeout.  unlock / cv_wait / rw_unlock by a thread that does not hold the lock
//     (an earlier timed lock failed) are not executed: result -2 (SKIPPED).  runlock is executed while the script's own nesting
//     depth (successful rlock / rtry minus runlock) is > 0.
//   schedule keys: mode=pct|rand|rr seed=<n> d=<n> k=<n> q=<percent> pre=<item,item,..> replay=<digits>
//     pre items:  p      one decision for participant p          p*n    n decisions
//                 p!     p until it is disabled (idle / waits for a held spinlock)
//                 p@K    p until it is parked at a point of kind K (hook id); p@K:name = K in 1..4: on the spinlock `name`
//                        (m0.sp m0.q s1.sp s1.q c2.q r3.msp r3.mq r3.cq t4 [lock of thread T4] M0 I0 V0.sb), else: while the
//                        vCPU's CURRENT thread is `name` (4 = T4, M0 = main, I0 = idler)
// Output: ONE line
//   ev=<events> | blocked=<tid.pc,..> | fin=<object dump> | sched=<digits> | n=<points>/<decisions> [| note=..] [| trace=..]
//   events:  S<tid>.<pc>@<vclock>/<now>   R<tid>.<pc>=<ret>/<errno>/<aux>@<vclock>/<now>   J@<vclock> (clock jump)
//            Q+<q>:<tid> / Q-<q>:<tid>  thread linked into / unlinked from a wait queue (q = m0 s1 c2 r3c r3m), logged at the
//            instant of the list operation (hooks LS_WAITQ_PUSH / LS_WAITQ_ERASE);  X<tid>  sleep of tid expired (LS_TH_TIMEOUT)
//            N<tid>:<by>  the SLEEPING thread tid is woken by thread `by` (LS_TH_INTERRUPT: interrupt, shutdown, notify, hand-off)
//   aux: lock/try_lock/cv_wait/rlock/rtry AND unlock/runlock: 1 iff mutex.owner == CURRENT at return; sem ops: count; rw ops: state; else 0
//   notify_one returns 1 + tid of the thread it woke (0 = nullptr).
// Prefixes: HANG / HANG(cpu) / CRASH(sigN) / DEADLOCK (every participant waits for a spinlock) / NONDET.
#include "e4s_repo.h"
#include <semaphore.h>
#include <pthread.h>
#include <poll.h>
#include <signal.h>
#include <time.h>
#include <sys/wait.h>
#include <sys/resource.h>
#include <cinttypes>
#include <string>
#include <sstream>
#include <fstream>
#include <iostream>
#include <algorithm>
#include <map>
#include <set>

namespace e4s {
using photon::thread;
using photon::vcpu_t;
static const int MAXV = 4;
static const int64_t SKIPPED = -2;
enum { K_WANT = 3, K_ACQ = 1, K_REL = 2, K_START = 100, K_OPSTART = 101, K_IDLE = 103 };

struct Item {
    std::string name; std::vector<int64_t> args;
    int64_t a(size_t i, int64_t d = 0) const { return i < args.size() ? args[i] : d; }
    uint64_t u(size_t i) const { return (uint64_t)a(i, -1); }
};
struct Obj { std::string kind; void* p = nullptr; photon::thread_list* wq = nullptr; };
struct TInfo {
    int vcpu = 0; std::vector<Item> ops; thread* th = nullptr; int pc = 0; bool done = false;
    std::set<int> held; std::map<int, int> rwheld; std::map<int, int> rdepth;
};
struct Res { int64_t ret; int err; int64_t aux; };
enum PState { RUNNING = 0, PARKED = 1 };
struct Part { int st = PARKED; int kind = K_START; const void* obj = nullptr; thread* cur = nullptr; sem_t sem; };
enum IType { I_STEP, I_UNTIL_DISABLED, I_UNTIL_KIND };
struct SItem { IType t; int p; int n; int kind; std::string lname; };

static int NV = 0, NT = 0;
static std::vector<Obj> O;
static std::vector<TInfo> T;
static Part P[MAXV];
static vcpu_t* VC[MAXV];
static thread* MAINTH[MAXV];
static volatile bool g_active = false;
static uint64_t vclock = 1000;
static int g_outfd = 1;
static std::string g_ev, g_notes, g_trace, g_sched;
static bool g_want_trace = false;
static long g_points = 0, g_decisions = 0;
static std::map<const void*, std::string> g_lname;
static std::map<const void*, int> g_tid;

// schedule
static std::string s_mode = "rr", s_replay;
static uint64_t s_seed = 1; static int s_d = 2, s_k = 100, s_q = 20;
static std::vector<SItem> s_items; static size_t s_item_pos = 0;
static int s_prio[MAXV]; static std::vector<int> s_cp;
static int s_last = -1;
static uint64_t s_rng;
static uint64_t sm() { uint64_t z = (s_rng += 0x9e3779b97f4a7c15ULL); z = (z ^ (z >> 30)) * 0xbf58476d1ce4e5b9ULL; z = (z ^ (z >> 27)) * 0x94d049bb133111ebULL; return z ^ (z >> 31); }

static __thread int os_index_tls = -1;
__attribute__((noinline)) static int os_idx() { asm volatile("" ::: "memory"); return os_index_tls; }
__attribute__((noinline)) static int get_errno() { asm volatile("" ::: "memory"); return errno; }
__attribute__((noinline)) static thread* get_current() { asm volatile("" ::: "memory"); return photon::CURRENT; }

static void note(const std::string& s) { if (g_notes.find(s) == std::string::npos) { if (!g_notes.empty()) g_notes += ","; g_notes += s; } }
static const char* lname(const void* p) { auto it = g_lname.find(p); return it == g_lname.end() ? "?" : it->second.c_str(); }
static std::string tname(thread* th) {
    if (!th) return "-";
    auto it = g_tid.find(th); if (it != g_tid.end()) return std::to_string(it->second);
    for (int v = 0; v < NV; v++) { if (MAINTH[v] == th) return "M" + std::to_string(v); if (VC[v] && VC[v]->idle_worker == th) return "I" + std::to_string(v); }
    return "?";
}
static int qlen(photon::thread_list* q) {
    int n = 0; thread* h = q->node; if (!h) return 0;
    for (thread* t = h;;) { n++; t = t->next(); if (t == h || n > 1000) break; }
    return n;
}
static std::string qdump(photon::thread_list* q) {
    std::string s = "["; thread* h = q->node; int n = 0;
    if (h) for (thread* t = h;;) { if (n++) s += " "; s += tname(t); t = t->next(); if (t == h || n > 64) break; }
    return s + "]";
}

// ---------------------------------------------------------------- result ----
static void emit(const std::string& s0) {
    std::string s = s0 + "\n"; size_t off = 0;
    while (off < s.size()) { ssize_t n = write(g_outfd, s.data() + off, s.size() - off); if (n <= 0) break; off += n; }
}
static std::string result(const char* prefix) {
    std::string s = prefix; char buf[160];
    s += "ev=" + (g_ev.empty() ? std::string("-") : g_ev) + " | blocked=";
    bool any = false;
    for (int k = 0; k < NT; k++) if (!T[k].done) { snprintf(buf, sizeof buf, "%s%d.%d", any ? "," : "", k, T[k].pc); s += buf; any = true; }
    if (!any) s += "-";
    s += " | fin=";
    for (size_t i = 0; i < O.size(); i++) {
        auto& o = O[i];
        if (o.kind == "mutex") { auto m = (photon::mutex*)o.p; s += "m" + std::to_string(i) + ":o=" + tname(m->owner.load()) + ",q=" + qdump(o.wq) + " "; }
        else if (o.kind == "rmutex") { auto m = (photon::recursive_mutex*)o.p;
            s += "m" + std::to_string(i) + ":o=" + tname(m->owner.load()) + ",rc=" + std::to_string((int)m->recursive_count) + ",q=" + qdump(o.wq) + " "; }
        else if (o.kind == "sem") { auto m = (photon::semaphore*)o.p; s += "s" + std::to_string(i) + ":c=" + std::to_string(m->m_count.load()) + ",q=" + qdump(o.wq) + " "; }
        else if (o.kind == "cv") { s += "c" + std::to_string(i) + ":q=" + qdump(o.wq) + " "; }
        else if (o.kind == "rwlock") { auto r = (photon::rwlock*)o.p;
            s += "r" + std::to_string(i) + ":st=" + std::to_string((long long)r->state) + ",cq=" + qdump(o.wq) + ",mo=" + tname(r->mtx.owner.load()) + ",mq=" + qdump((photon::thread_list*)&r->mtx.q) + " "; }
    }
    for (int k = 0; k < NT; k++) {
        int st = T[k].th->state;
        const char* L = st == photon::READY ? "Y" : st == photon::RUNNING ? "R" : st == photon::SLEEPING ? "S" : st == photon::STANDBY ? "B" : "?";
        s += "T" + std::to_string(k) + "=" + L + " ";
    }
    snprintf(buf, sizeof buf, "| sched=%s | n=%ld/%ld", g_sched.empty() ? "-" : g_sched.c_str(), g_points, g_decisions); s += buf;
    if (!g_notes.empty()) s += " | note=" + g_notes;
    if (g_want_trace) s += " | trace=" + g_trace;
    return s;
}
static void finish(const char* prefix) { emit(result(prefix)); _exit(0); }

// ---------------------------------------------------------------- controller ----
static bool enabled(int p) {
    Part& x = P[p];
    if (x.st != PARKED) return false;
    switch (x.kind) {
    case K_WANT: return !((const photon::spinlock*)x.obj)->locked();
    case K_IDLE: {
        vcpu_t* v = VC[p];
        if (v->standbyq.node) return true;
        return !v->sleepq.empty() && v->sleepq.front()->ts_wakeup <= vclock;
    }
    default: return true;
    }
}
static bool advance_time() {
    uint64_t best = (uint64_t)-1;
    for (int p = 0; p < NV; p++) if (P[p].st == PARKED && P[p].kind == K_IDLE) {
        vcpu_t* v = VC[p];
        if (!v->sleepq.empty()) { uint64_t t = v->sleepq.front()->ts_wakeup; if (t < best) best = t; }
    }
    if (best == (uint64_t)-1) return false;
    if (best > vclock) vclock = best;
    char buf[48]; snprintf(buf, sizeof buf, "%sJ@%" PRIu64, g_ev.empty() ? "" : ",", vclock); g_ev += buf;
    return true;
}
static int by_mode(const bool* en, int n) {
    if (s_mode == "pct") {
        for (size_t j = 0; j < s_cp.size(); j++) if (s_cp[j] == (int)g_decisions) {
            int hi = -1; for (int p = 0; p < NV; p++) if (en[p] && (hi < 0 || s_prio[p] > s_prio[hi])) hi = p;
            s_prio[hi] = -(int)j - 1;                                  // lowered below every initial priority
        }
        int hi = -1; for (int p = 0; p < NV; p++) if (en[p] && (hi < 0 || s_prio[p] > s_prio[hi])) hi = p;
        return hi;
    }
    if (s_mode == "rand") {
        if (s_last >= 0 && en[s_last] && (int)(sm() % 100) >= s_q) return s_last;
        int r = (int)(sm() % n);
        for (int p = 0; p < NV; p++) if (en[p] && r-- == 0) return p;
    }
    if (s_last >= 0 && en[s_last]) return s_last;                       // rr: run until blocked
    for (int p = 0; p < NV; p++) if (en[p]) return p;
    return -1;
}
// called by the participant that has just parked (or by the process main thread to start the run)
static int choose() {
    for (;;) {
        bool en[MAXV]; int n = 0, only = -1;
        for (int p = 0; p < NV; p++) { en[p] = enabled(p); if (en[p]) { n++; only = p; } }
        if (n == 0) {
            if (advance_time()) continue;
            bool spin = false; for (int p = 0; p < NV; p++) if (P[p].kind == K_WANT) spin = true;
            finish(spin ? "DEADLOCK " : "");
        }
        // explicit prefix: completion of "until" items is tested at every point
        while (s_item_pos < s_items.size()) {
            SItem& it = s_items[s_item_pos];
            if (it.t == I_UNTIL_DISABLED && !en[it.p]) { s_item_pos++; continue; }
            if (it.t == I_UNTIL_KIND && P[it.p].st == PARKED && P[it.p].kind == it.kind &&
                (it.lname.empty() || it.lname == (it.kind <= 4 ? std::string(lname(P[it.p].obj)) : tname(P[it.p].cur)))) { s_item_pos++; continue; }
            break;
        }
        if (n == 1) { s_last = only; return only; }
        int pick = -1;
        if (s_item_pos < s_items.size()) {
            SItem& it = s_items[s_item_pos];
            if (en[it.p]) { pick = it.p; if (it.t == I_STEP && --it.n <= 0) s_item_pos++; }
            else { note("INFEASIBLE@" + std::to_string(g_decisions)); s_item_pos = s_items.size(); }
        }
        if (pick < 0 && (size_t)g_decisions < s_replay.size()) {
            int p = s_replay[g_decisions] - '0';
            if (p >= 0 && p < NV && en[p]) pick = p; else note("REPLAY-MISMATCH@" + std::to_string(g_decisions));
        }
        if (pick < 0) pick = by_mode(en, n);
        g_sched += (char)('0' + pick);
        g_decisions++;
        s_last = pick;
        return pick;
    }
}
__attribute__((noinline)) static void set_errno(int e) { asm volatile("" ::: "memory"); errno = e; }
static void point1(int kind, const void* obj);
// the library assumes that spinlock operations leave errno alone (e.g. semaphore::wait_interruptible re-locks `splock` between the
// wake-up and the test of errno): the hook must be transparent
static void point(int kind, const void* obj) { int e = get_errno(); point1(kind, obj); set_errno(e); }
static void point1(int kind, const void* obj) {
    if (!g_active) return;
    int me = os_idx();
    if (me < 0) return;
    g_points++;
    if (g_points > 200000) finish("STEP-LIMIT ");
    Part& x = P[me];
    x.kind = kind; x.obj = obj; x.cur = get_current(); x.st = PARKED;
    if (g_want_trace) {
        char buf[96];
        if (kind < 100) snprintf(buf, sizeof buf, "%s%d:%d:%s", g_trace.empty() ? "" : " ", me, kind, kind <= 4 ? lname(obj) : tname(get_current()).c_str());
        else snprintf(buf, sizeof buf, "%s%d:%d:%s", g_trace.empty() ? "" : " ", me, kind, tname(get_current()).c_str());
        g_trace += buf;
    }
    int nxt = choose();
    if (nxt != me) {
        sem_post(&P[nxt].sem);
        while (sem_wait(&x.sem) < 0 && get_errno() == EINTR) {}
    }
    x.st = RUNNING;
}
// wait-queue membership events (evidence for the oracles): logged when the participant is scheduled again, i.e. immediately
// before the push / erase is executed (no preemption point lies between the hook and the list operation)
static std::map<const void*, std::string> g_qname;
static std::map<const void*, int> g_lock2tid;
static __thread const void* t_sleeper = nullptr;
static void ls_cb1(int id, const void* obj, const void* l1, const void* l2);
static void ls_cb(int id, const void* obj, const void* l1, const void* l2) { int e = get_errno(); ls_cb1(id, obj, l1, l2); set_errno(e); }
static void ls_cb1(int id, const void* obj, const void* l1, const void* l2) {
    point(id, obj);
    if (!g_active) return;
    if (id == photon::LS_TH_SLEEP) t_sleeper = obj;
    else if (id == photon::LS_WAITQ_PUSH || id == photon::LS_WAITQ_ERASE) {
        auto q = g_qname.find(obj); if (q == g_qname.end()) return;
        int tid = -1;
        if (id == photon::LS_WAITQ_PUSH) { auto it = g_tid.find((thread*)t_sleeper); if (it != g_tid.end()) tid = it->second; }
        else { auto it = g_lock2tid.find(l2); if (it != g_lock2tid.end()) tid = it->second; }
        char buf[64]; snprintf(buf, sizeof buf, "%sQ%c%s:%d", g_ev.empty() ? "" : ",", id == photon::LS_WAITQ_PUSH ? '+' : '-', q->second.c_str(), tid);
        g_ev += buf;
    } else if (id == photon::LS_TH_INTERRUPT) {          // a SLEEPING script thread is woken by interrupt / resume / hand-off: N<tid>:<by>
        auto it = g_tid.find((thread*)obj); if (it == g_tid.end()) return;
        auto by = g_tid.find(get_current());
        char buf[48]; snprintf(buf, sizeof buf, "%sN%d:%d", g_ev.empty() ? "" : ",", it->second, by == g_tid.end() ? -1 : by->second); g_ev += buf;
    } else if (id == photon::LS_TH_TIMEOUT) {
        auto it = g_tid.find((thread*)obj); if (it == g_tid.end()) return;
        char buf[48]; snprintf(buf, sizeof buf, "%sX%d", g_ev.empty() ? "" : ",", it->second); g_ev += buf;
    }
}
static uint64_t clock_cb() { return vclock; }
static int idle_cb(uint64_t, uint64_t) { point(K_IDLE, nullptr); return 1; }

// ---------------------------------------------------------------- ops ----
static bool is(int64_t i, const char* kind) { return i >= 0 && (size_t)i < O.size() && O[i].kind == kind; }
static Res R(int64_t r, int64_t aux = 0) { return Res{r, r < 0 ? get_errno() : 0, aux}; }
static Res exec_op(int self, const Item& op) {
    const std::string& n = op.name; TInfo& me = T[self];
    if (n == "lock") { if (!is(op.a(0), "mutex")) return Res{SKIPPED, 0, 0};
        auto m = (photon::mutex*)O[op.a(0)].p; if (me.held.count((int)op.a(0))) return Res{SKIPPED, 0, 0};
        int r = m->lock(photon::Timeout(op.u(1))); int e = get_errno();
        bool own = m->owner.load() == get_current(); if (r == 0) me.held.insert((int)op.a(0));
        return Res{r, r < 0 ? e : 0, own}; }
    if (n == "try_lock") { if (!is(op.a(0), "mutex")) return Res{SKIPPED, 0, 0};
        auto m = (photon::mutex*)O[op.a(0)].p; if (me.held.count((int)op.a(0))) return Res{SKIPPED, 0, 0};
        int r = m->try_lock(); bool own = m->owner.load() == get_current(); if (r == 0) me.held.insert((int)op.a(0));
        return Res{r, 0, own}; }
    if (n == "unlock") { if (!is(op.a(0), "mutex") || !me.held.count((int)op.a(0))) return Res{SKIPPED, 0, 0};
        auto m = (photon::mutex*)O[op.a(0)].p; me.held.erase((int)op.a(0)); m->unlock();
        bool own = m->owner.load() == get_current(); return Res{0, 0, own}; }
    if (n == "rlock" || n == "rtry") { if (!is(op.a(0), "rmutex")) return Res{SKIPPED, 0, 0};
        auto m = (photon::recursive_mutex*)O[op.a(0)].p;
        int r = n == "rlock" ? m->lock(photon::Timeout(op.u(1))) : m->try_lock(); int e = get_errno();
        bool own = m->owner.load() == get_current(); if (r == 0) me.rdepth[(int)op.a(0)]++;
        return Res{r, r < 0 && n == "rlock" ? e : 0, own}; }
    if (n == "runlock") { if (!is(op.a(0), "rmutex") || me.rdepth[(int)op.a(0)] <= 0) return Res{SKIPPED, 0, 0};
        auto m = (photon::recursive_mutex*)O[op.a(0)].p; me.rdepth[(int)op.a(0)]--; m->unlock();
        bool own = m->owner.load() == get_current(); return Res{0, 0, own}; }
    if (n == "sem_wait") { if (!is(op.a(0), "sem")) return Res{SKIPPED, 0, 0};
        auto s = (photon::semaphore*)O[op.a(0)].p;
        int r = s->wait_interruptible((uint64_t)op.a(1, 1), photon::Timeout(op.u(2))); int e = get_errno();
        return Res{r, r < 0 ? e : 0, (int64_t)s->m_count.load()}; }
    if (n == "sem_signal") { if (!is(op.a(0), "sem")) return Res{SKIPPED, 0, 0};
        auto s = (photon::semaphore*)O[op.a(0)].p; int r = s->signal((uint64_t)op.a(1, 1)); return Res{r, 0, (int64_t)s->m_count.load()}; }
    if (n == "cv_wait") { if (!is(op.a(0), "cv") || !is(op.a(1), "mutex") || !me.held.count((int)op.a(1))) return Res{SKIPPED, 0, 0};
        auto c = (photon::condition_variable*)O[op.a(0)].p; auto m = (photon::mutex*)O[op.a(1)].p;
        int r = c->wait(m, photon::Timeout(op.u(2))); int e = get_errno();
        bool own = m->owner.load() == get_current();
        return Res{r, r < 0 ? e : 0, own}; }
    if (n == "notify_one") { if (!is(op.a(0), "cv")) return Res{SKIPPED, 0, 0};
        auto c = (photon::condition_variable*)O[op.a(0)].p; thread* th = c->notify_one();
        int64_t r = 0; if (th) { auto it = g_tid.find(th); r = it == g_tid.end() ? 999 : 1 + it->second; }
        return Res{r, 0, 0}; }
    if (n == "notify_all") { if (!is(op.a(0), "cv")) return Res{SKIPPED, 0, 0};
        auto c = (photon::condition_variable*)O[op.a(0)].p; int r = c->notify_all(); return Res{r, 0, 0}; }
    if (n == "rw_lock") { if (!is(op.a(0), "rwlock") || me.rwheld.count((int)op.a(0))) return Res{SKIPPED, 0, 0};
        auto l = (photon::rwlock*)O[op.a(0)].p; int mode = op.a(1) ? photon::WLOCK : photon::RLOCK;
        int r = l->lock(mode, photon::Timeout(op.u(2))); int e = get_errno();
        if (r == 0) me.rwheld[(int)op.a(0)] = mode;
        return Res{r, r < 0 ? e : 0, (int64_t)l->state}; }
    if (n == "rw_unlock") { if (!is(op.a(0), "rwlock") || !me.rwheld.count((int)op.a(0))) return Res{SKIPPED, 0, 0};
        auto l = (photon::rwlock*)O[op.a(0)].p; me.rwheld.erase((int)op.a(0)); int r = l->unlock(); return Res{r, 0, (int64_t)l->state}; }
    if (n == "interrupt") { int64_t k = op.a(0); if (k < 0 || k >= NT || k == self) return Res{SKIPPED, 0, 0};
        photon::thread_interrupt(T[k].th, (int)op.a(1, EINTR)); return Res{0, 0, 0}; }
    if (n == "shutdown") { int64_t k = op.a(0); if (k < 0 || k >= NT || k == self) return Res{SKIPPED, 0, 0};
        int r = photon::thread_shutdown(T[k].th, op.a(1, 1) != 0); return R(r); }
    if (n == "tick") { uint64_t nv = vclock + (uint64_t)op.a(0); if (nv < vclock) nv = (uint64_t)-2; vclock = nv; return Res{0, 0, 0}; }
    if (n == "yield") { int r = photon::thread_yield(); return Res{r, 0, 0}; }
    if (n == "usleep") { int r = photon::thread_usleep(op.u(0)); return R(r); }
    if (n == "nop") return Res{0, 0, 0};
    return Res{-99, 0, 0};
}
static const char* OPS[] = {"lock", "try_lock", "unlock", "rlock", "rtry", "runlock", "sem_wait", "sem_signal", "cv_wait", "notify_one", "notify_all", "rw_lock",
                            "rw_unlock", "interrupt", "shutdown", "tick", "yield", "usleep", "nop"};

static void* thread_body(void* arg) {
    TInfo* t = (TInfo*)arg; int self = (int)(t - &T[0]);
    char buf[128];
    for (t->pc = 0; (size_t)t->pc < t->ops.size(); t->pc++) {
        const Item& op = t->ops[t->pc];
        point(K_OPSTART, nullptr);
        snprintf(buf, sizeof buf, "%sS%d.%d@%" PRIu64 "/%" PRIu64, g_ev.empty() ? "" : ",", self, t->pc, vclock, (uint64_t)photon::now); g_ev += buf;
        Res r = exec_op(self, op);
        snprintf(buf, sizeof buf, ",R%d.%d=%" PRId64 "/%d/%" PRId64 "@%" PRIu64 "/%" PRIu64, self, t->pc, r.ret, r.err, r.aux, vclock, (uint64_t)photon::now); g_ev += buf;
    }
    t->done = true;
    // never exits: stays a valid interrupt target, no thread::die in the run.  Parks with the file-static thread_usleep(Timeout, waitq),
    // which has no 10 ms cap for a thread marked by thread_shutdown (the public one would wake it every 10 ms for ever)
    for (;;) photon::thread_usleep(photon::Timeout(), (photon::thread_list*)nullptr);
    return nullptr;
}

static sem_t sem_ready;
static void* os_main(void* arg) {
    int v = (int)(intptr_t)arg;
    os_index_tls = v;
    if (photon::vcpu_init(0) < 0) { emit("INITFAIL"); _exit(0); }
    MAINTH[v] = photon::CURRENT;
    VC[v] = photon::CURRENT->get_vcpu();
    for (int k = 0; k < NT; k++) if (T[k].vcpu == v) {
        T[k].th = photon::thread_create(&thread_body, &T[k], 256 * 1024);
        if (!T[k].th) { emit("INITFAIL"); _exit(0); }
    }
    P[v].st = PARKED; P[v].kind = K_START;
    sem_post(&sem_ready);
    while (sem_wait(&P[v].sem) < 0 && get_errno() == EINTR) {}
    P[v].st = RUNNING;
    for (;;) photon::thread_usleep(-1);          // the vCPU's main thread parks; its script threads run in creation order
    return nullptr;
}

// ---------------------------------------------------------------- parsing ----
static std::vector<std::string> split(const std::string& s, char c) {
    std::vector<std::string> out; std::string cur;
    for (char ch : s) { if (ch == c) { out.push_back(cur); cur.clear(); } else cur.push_back(ch); }
    out.push_back(cur); return out;
}
static std::string trim(const std::string& s) {
    size_t a = s.find_first_not_of(" \t\r\n"), b = s.find_last_not_of(" \t\r\n");
    return a == std::string::npos ? "" : s.substr(a, b - a + 1);
}
static bool parse_items(const std::string& sec, std::vector<Item>& out) {
    std::string t = trim(sec);
    if (t.empty() || t == "-") return true;
    for (auto& part : split(t, ';')) {
        std::istringstream is(part); Item it; std::string w;
        if (!(is >> it.name)) return false;
        while (is >> w) {
            char* end = nullptr;
            if (w[0] == '-') it.args.push_back((int64_t)strtoll(w.c_str(), &end, 10)); else it.args.push_back((int64_t)strtoull(w.c_str(), &end, 10));
            if (!end || *end) return false;
        }
        out.push_back(it);
    }
    return true;
}
static bool parse_pre(const std::string& s) {
    for (auto& w : split(s, ',')) {
        if (w.empty()) continue;
        SItem it; it.t = I_STEP; it.n = 1; it.kind = 0;
        char* end = nullptr; it.p = (int)strtol(w.c_str(), &end, 10);
        if (end == w.c_str() || it.p < 0 || it.p >= NV) return false;
        if (*end == 0) {}
        else if (*end == '*') { it.n = atoi(end + 1); if (it.n <= 0) return false; }
        else if (*end == '!') { it.t = I_UNTIL_DISABLED; }
        else if (*end == '@') { it.t = I_UNTIL_KIND; char* e2 = nullptr; it.kind = (int)strtol(end + 1, &e2, 10); if (*e2 == ':') it.lname = e2 + 1; else if (*e2) return false; }
        else return false;
        s_items.push_back(it);
    }
    return true;
}
static bool parse_case(const std::string& line) {
    auto secs = split(line, '|');
    if (secs.size() < 4) return false;
    { std::istringstream hs(secs[0]); std::string tag; if (!(hs >> tag >> NV) || tag != "X" || NV < 1 || NV > MAXV) return false; }
    std::vector<Item> decls;
    if (!parse_items(secs[1], decls)) return false;
    for (auto& d : decls) {
        Obj o; o.kind = d.name;
        if (d.name == "mutex") { auto m = new photon::mutex((uint16_t)d.a(0, 0), d.a(1, 0) != 0); o.p = m; o.wq = (photon::thread_list*)&m->q; }
        else if (d.name == "rmutex") { auto m = new photon::recursive_mutex((uint16_t)d.a(0, 0), d.a(1, 0) != 0); o.p = m; o.wq = (photon::thread_list*)&m->q; }
        else if (d.name == "sem") { auto s = new photon::semaphore((uint64_t)d.a(0, 0)); o.p = s; o.wq = (photon::thread_list*)&s->q; }
        else if (d.name == "cv") { auto c = new photon::condition_variable(); o.p = c; o.wq = (photon::thread_list*)&c->q; }
        else if (d.name == "rwlock") { auto r = new photon::rwlock(); r->mtx.retries = (uint16_t)d.a(0, 100); o.p = r; o.wq = (photon::thread_list*)&r->cvar.q; }
        else return false;
        O.push_back(o);
    }
    if (trim(secs.back()).empty() || trim(secs.back())[0] != '@') return false;
    NT = (int)secs.size() - 3;
    T.assign(NT, TInfo());
    for (int k = 0; k < NT; k++) {
        std::string s = trim(secs[k + 2]);
        size_t sp = s.find(' ');
        std::string vs = sp == std::string::npos ? s : s.substr(0, sp);
        T[k].vcpu = atoi(vs.c_str());
        if (T[k].vcpu < 0 || T[k].vcpu >= NV) return false;
        if (sp != std::string::npos && !parse_items(s.substr(sp + 1), T[k].ops)) return false;
        for (auto& op : T[k].ops) { bool ok = false; for (auto o : OPS) if (op.name == o) ok = true; if (!ok) return false; }
    }
    std::istringstream ss(trim(secs.back()).substr(1)); std::string w;
    while (ss >> w) {
        size_t eq = w.find('='); if (eq == std::string::npos) return false;
        std::string k = w.substr(0, eq), v = w.substr(eq + 1);
        if (k == "mode") s_mode = v; else if (k == "seed") s_seed = strtoull(v.c_str(), nullptr, 10); else if (k == "d") s_d = atoi(v.c_str());
        else if (k == "k") s_k = atoi(v.c_str()); else if (k == "q") s_q = atoi(v.c_str()); else if (k == "replay") s_replay = (v == "-" ? "" : v);
        else if (k == "pre") { if (!parse_pre(v)) return false; }
        else return false;
    }
    if (s_mode != "pct" && s_mode != "rand" && s_mode != "rr") return false;
    return true;
}

static void child_main(const std::string& line, int outfd, bool trace) {
    g_outfd = outfd; g_want_trace = trace;
    log_output_level = ALOG_FATAL + 1;
    if (!parse_case(line)) { emit("BADCASE"); _exit(0); }
    g_ev.reserve(1 << 16); g_sched.reserve(1 << 14); if (trace) g_trace.reserve(1 << 20);
    s_rng = s_seed * 0x2545F4914F6CDD1DULL + 12345;
    { // PCT: random distinct priorities, d-1 change points among the first k decisions
        int perm[MAXV]; for (int p = 0; p < NV; p++) perm[p] = p;
        for (int p = NV - 1; p > 0; p--) { int j = (int)(sm() % (p + 1)); std::swap(perm[p], perm[j]); }
        for (int p = 0; p < NV; p++) s_prio[perm[p]] = 10 + p;
        for (int j = 0; j + 1 < s_d; j++) s_cp.push_back((int)(sm() % (uint64_t)std::max(1, s_k)));
    }
    photon::photon_verif_clock = clock_cb;
    photon::photon_verif_idle = idle_cb;
    photon::photon_verif_ls_cb = ls_cb;
    sem_init(&sem_ready, 0, 0);
    for (int v = 0; v < NV; v++) sem_init(&P[v].sem, 0, 0);
    for (int v = 0; v < NV; v++) {
        pthread_t th; pthread_attr_t at; pthread_attr_init(&at); pthread_attr_setstacksize(&at, 1 << 20);
        if (pthread_create(&th, &at, os_main, (void*)(intptr_t)v) != 0) { emit("INITFAIL"); _exit(0); }
        while (sem_wait(&sem_ready) < 0 && errno == EINTR) {}
    }
    // names of every spinlock a participant can wait for
    for (size_t i = 0; i < O.size(); i++) {
        auto& o = O[i]; std::string n = std::to_string(i);
        if (o.kind == "mutex") { auto m = (photon::mutex*)o.p; g_lname[&m->splock] = "m" + n + ".sp"; g_lname[&m->q.lock] = "m" + n + ".q"; }
        else if (o.kind == "rmutex") { auto m = (photon::recursive_mutex*)o.p; g_lname[&m->splock] = "m" + n + ".sp"; g_lname[&m->q.lock] = "m" + n + ".q"; }
        else if (o.kind == "sem") { auto m = (photon::semaphore*)o.p; g_lname[&m->splock] = "s" + n + ".sp"; g_lname[&m->q.lock] = "s" + n + ".q"; }
        else if (o.kind == "cv") { auto m = (photon::condition_variable*)o.p; g_lname[&m->q.lock] = "c" + n + ".q"; }
        else if (o.kind == "rwlock") { auto r = (photon::rwlock*)o.p; g_lname[&r->mtx.splock] = "r" + n + ".msp"; g_lname[&r->mtx.q.lock] = "r" + n + ".mq"; g_lname[&r->cvar.q.lock] = "r" + n + ".cq"; }
    }
    for (int k = 0; k < NT; k++) { g_tid[T[k].th] = k; g_lname[&T[k].th->lock] = "t" + std::to_string(k); g_lock2tid[&T[k].th->lock] = k; }
    for (size_t i = 0; i < O.size(); i++) {
        auto& o = O[i]; std::string n = std::to_string(i);
        if (o.kind == "rwlock") { auto r = (photon::rwlock*)o.p; g_qname[&r->cvar.q] = "r" + n + "c"; g_qname[&r->mtx.q] = "r" + n + "m"; }
        else g_qname[o.wq] = (o.kind == "mutex" || o.kind == "rmutex" ? "m" : o.kind == "sem" ? "s" : "c") + n;
    }
    for (int v = 0; v < NV; v++) {
        g_lname[&MAINTH[v]->lock] = "M" + std::to_string(v); g_lname[&VC[v]->idle_worker->lock] = "I" + std::to_string(v);
        g_lname[&VC[v]->standbyq.lock] = "V" + std::to_string(v) + ".sb";
    }
    g_lname[&vcpu_t::vcpu_list_lock] = "VL";
    g_active = true;
    int first = choose();
    sem_post(&P[first].sem);
    for (;;) pause();            // the finishing participant _exit()s the process
}

static std::string run_once1(const std::string& line, int timeout_ms, bool trace) {
    int fds[2];
    if (pipe(fds) < 0) return "PIPEFAIL";
    fflush(stdout);
    pid_t pid = fork();
    if (pid < 0) { close(fds[0]); close(fds[1]); return "FORKFAIL"; }
    if (pid == 0) {
        close(fds[0]);
        struct rlimit rl = {5, 7};       // a case needs a few ms of CPU; a spinning one is cut here (load-independent)
        setrlimit(RLIMIT_CPU, &rl);
        child_main(line, fds[1], trace); _exit(0);
    }
    close(fds[1]);
    std::string out; char buf[65536]; bool hang = false;
    while (true) {
        struct pollfd p = {fds[0], POLLIN, 0};
        int r = poll(&p, 1, timeout_ms);
        if (r == 0) { hang = true; kill(pid, SIGKILL); break; }
        if (r < 0) { if (errno == EINTR) continue; break; }
        ssize_t n = read(fds[0], buf, sizeof buf);
        if (n <= 0) break;
        out.append(buf, n);
    }
    close(fds[0]);
    int status = 0; waitpid(pid, &status, 0);
    while (!out.empty() && (out.back() == '\n' || out.back() == '\r')) out.pop_back();
    if (hang) return "HANG " + out;
    if (WIFSIGNALED(status) && (WTERMSIG(status) == SIGXCPU || WTERMSIG(status) == SIGKILL)) return "HANG(cpu) " + out;
    if (WIFSIGNALED(status)) return "CRASH(sig" + std::to_string(WTERMSIG(status)) + ") " + out;
    if (out.empty()) return "NOOUTPUT(exit" + std::to_string(WEXITSTATUS(status)) + ")";
    return out;
}
// a loaded machine can refuse fork / pthread_create / stack mmap (EAGAIN, ENOMEM): that says nothing about the case -> retry
static std::string run_once(const std::string& line, int timeout_ms, bool trace) {
    std::string r;
    for (int attempt = 0; attempt < 12; attempt++) {
        r = run_once1(line, timeout_ms, trace);
        if (r != "FORKFAIL" && r != "PIPEFAIL" && r != "INITFAIL" && r.compare(0, 8, "NOOUTPUT") != 0) return r;
        usleep(50000 * (attempt + 1));
    }
    return r;
}
}  // namespace e4s

int main(int argc, char** argv) {
    if (argc < 2) { fprintf(stderr, "usage: %s <casefile>\n", argv[0]); return 2; }
    int timeout_ms = getenv("E4S_TIMEOUT_MS") ? atoi(getenv("E4S_TIMEOUT_MS")) : 120000;
    int twice_pct = getenv("E4S_TWICE_PCT") ? atoi(getenv("E4S_TWICE_PCT")) : 5;
    bool trace = getenv("E4S_TRACE") && atoi(getenv("E4S_TRACE"));
    {   // optional (E4S_PIN=1): pin the process to one CPU.  Measured here: NOT pinning is 3-5x faster on a loaded machine
        cpu_set_t all; CPU_ZERO(&all);
        if (getenv("E4S_PIN") && sched_getaffinity(0, sizeof all, &all) == 0) {
            std::vector<int> cpus; for (int i = 0; i < CPU_SETSIZE; i++) if (CPU_ISSET(i, &all)) cpus.push_back(i);
            if (!cpus.empty()) { cpu_set_t set; CPU_ZERO(&set); CPU_SET(cpus[(size_t)getpid() % cpus.size()], &set); sched_setaffinity(0, sizeof set, &set); }
        }
    }
    std::ifstream in(argv[1]);
    std::string line;
    while (std::getline(in, line)) {
        if (line.empty() || line[0] == '#') continue;
        if (line[0] != 'X') { printf("BADCASE\n"); fflush(stdout); continue; }
        std::string a = e4s::run_once(line, timeout_ms, trace);
        if ((int)(std::hash<std::string>()(line) % 100) < twice_pct) {      // determinism check on a sample
            std::string b = e4s::run_once(line, timeout_ms, trace);
            if (a != b) a = "NONDET first{" + a + "} second{" + b + "}";
        }
        printf("%s\n", a.c_str());
        fflush(stdout);
    }
    return 0;
}
