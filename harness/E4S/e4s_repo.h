// e4s_repo.h — pulls the REAL thread/thread.cpp of the tree under test into the E4S translation unit:
// mutex / semaphore / condition_variable / rwlock / waitq and the scheduler underneath them are the
// object code under test, and the file-local types (vcpu_t, thread, thread_list, SleepQueue) can be read
// by the controller (which vCPU is idle and why, who sits in which wait queue).
// Compile with -I<tree> (so that "thread/thread.cpp" is the tree's file) and link libphoton for the rest.
#pragma once
#include <atomic>
#include <string>
#include <map>
#include <chrono>
#define protected public
#include <photon/thread/thread.h>
#include <photon/thread/timer.h>
#include <photon/common/intrusive_list.h>
#undef protected
#include <photon/io/fd-events.h>
#include <photon/common/timeout.h>
#include <photon/common/alog.h>
#include <photon/common/alog-functionptr.h>
#include <photon/thread/thread-key.h>
#include <photon/thread/arch.h>
#include <memory.h>
#include <sys/time.h>
#include <unistd.h>
#include <cstddef>
#include <cassert>
#include <cerrno>
#include <vector>
#include <new>
#include <thread>
#include <mutex>
#include <condition_variable>
#include <sys/mman.h>
#include "thread/thread.cpp"
