// C13 implementation harness: drives net/http/{body,message,headers}.cpp of /repo's
// current working tree through a scripted ISocketStream and prints one line per case
// in the same format as ocaml/C13_run.ml.  The three anchored .cpp files are compiled
// INTO this translation unit (file-local classes; ASan/UBSan instrumentation); the rest
// of photon comes from libphoton.so.  No photon::init(): the mock stream never blocks.
#include <cstdio>
#include <cstdlib>
#include <cstring>
#include <cinttypes>
#include <string>
#include <vector>
#include <sstream>
#include <fstream>
#include <iostream>
#include <memory>
#include <algorithm>
#include <tuple>
#include <utility>
#include <sys/uio.h>
static inline void mcpy(void* d, const void* s, size_t n) { if (n) memcpy(d, s, n); }
#include <photon/common/alog.h>
#include <photon/common/alog-stdstring.h>
#include <photon/common/iovector.h>
#include <photon/common/estring.h>
#include <photon/common/stream.h>
#include <photon/common/timeout.h>
#include <photon/common/utility.h>
#include <photon/net/socket.h>
#include <photon/fs/filesystem.h>
// C++14: static constexpr data members that are ODR-used (they are, under -fsanitize) need an
// out-of-class definition; photon's optimised build never ODR-uses them.  Harness-only shim.
namespace ConstString {
template <char SP, char ch, char... chs> constexpr typename TSCut<SP, ch, chs...>::Head TSCut<SP, ch, chs...>::head;
template <char SP, char ch, char... chs> constexpr typename TSCut<SP, ch, chs...>::Tail TSCut<SP, ch, chs...>::tail;
}
#define private public
#define protected public
#include "net/http/body.cpp"
#include "net/http/headers.cpp"
// body.cpp and message.cpp both define a file-local LINE_BUFFER_SIZE in the same namespace
#define LINE_BUFFER_SIZE LINE_BUFFER_SIZE_MSG
#include "net/http/message.cpp"
#undef LINE_BUFFER_SIZE
#undef private
#undef protected

using namespace photon::net::http;
typedef std::vector<uint8_t> Bytes;

// ---- scripted socket ---------------------------------------------------------------
struct MockSock : public photon::net::ISocketStream {
    std::vector<Bytes> pieces; size_t pi = 0, po = 0;   // read side
    bool err = false; bool closed = false;
    Bytes out; int64_t budget = INT64_MAX;                // write side
    size_t rest() { size_t n = 0; for (size_t i = pi; i < pieces.size(); i++) n += pieces[i].size(); return n - po; }
    ssize_t recv(void* buf, size_t count, int flags = 0) override {
        while (pi < pieces.size() && pieces[pi].size() == po) { pi++; po = 0; }
        if (pi >= pieces.size()) return err ? -1 : 0;
        size_t n = std::min(count, pieces[pi].size() - po);
        mcpy(buf, pieces[pi].data() + po, n);
        po += n;
        if (po == pieces[pi].size()) { pi++; po = 0; }
        return n;
    }
    ssize_t recv(const struct iovec* iov, int iovcnt, int flags = 0) override { abort(); }
    ssize_t read(void* buf, size_t count) override {
        size_t got = 0;
        while (got < count) {
            ssize_t r = recv((char*)buf + got, count - got);
            if (r < 0) return -1;
            if (r == 0) break;
            got += r;
        }
        return got;
    }
    ssize_t readv(const struct iovec* iov, int iovcnt) override { abort(); }
    ssize_t write(const void* buf, size_t count) override {
        size_t n = (int64_t)count <= budget ? count : (size_t)budget;
        out.insert(out.end(), (const uint8_t*)buf, (const uint8_t*)buf + n);
        budget -= n;
        return n;
    }
    ssize_t writev(const struct iovec* iov, int iovcnt) override {
        ssize_t tot = 0;
        for (int i = 0; i < iovcnt; i++) {
            if (iov[i].iov_len == 0) continue;
            ssize_t r = write(iov[i].iov_base, iov[i].iov_len);
            tot += r;
            if ((size_t)r < iov[i].iov_len) break;
        }
        return tot;
    }
    ssize_t send(const void* buf, size_t count, int flags = 0) override { return write(buf, count); }
    ssize_t send(const struct iovec* iov, int iovcnt, int flags = 0) override { return writev(iov, iovcnt); }
    ssize_t sendfile(int, off_t, size_t) override { abort(); }
    int close() override { closed = true; return 0; }
    uint64_t timeout() const override { return -1UL; }
    void timeout(uint64_t) override {}
    Object* get_underlay_object(uint64_t) override { return nullptr; }
    int setsockopt(int, int, const void*, socklen_t) override { return 0; }
    int getsockopt(int, int, void*, socklen_t*) override { return 0; }
    int getsockname(photon::net::EndPoint&) override { return -1; }
    int getpeername(photon::net::EndPoint&) override { return -1; }
    int getsockname(char*, size_t) override { return -1; }
    int getpeername(char*, size_t) override { return -1; }
};

// ---- helpers -----------------------------------------------------------------------
static int hexval(char c) { return c <= '9' ? c - '0' : (c | 32) - 'a' + 10; }
static Bytes unhex(const std::string& s) {
    Bytes b; if (s == "-" || s == "_") return b;
    b.reserve(s.size() / 2);
    for (size_t i = 0; i + 1 < s.size(); i += 2) b.push_back(hexval(s[i]) * 16 + hexval(s[i + 1]));
    return b;
}
static std::string hex(const uint8_t* p, size_t n) {
    if (n == 0) return "-";
    static const char* d = "0123456789abcdef";
    std::string s; s.reserve(2 * n);
    for (size_t i = 0; i < n; i++) { s += d[p[i] >> 4]; s += d[p[i] & 15]; }
    return s;
}
struct Spec { std::vector<long> sizes; bool cyc = false; };
static Spec parse_spec(std::string s) {
    Spec sp; if (s == "-") return sp;
    if (s.back() == '*') { sp.cyc = true; s.pop_back(); }
    std::stringstream ss(s); std::string t;
    while (std::getline(ss, t, ',')) if (!t.empty()) sp.sizes.push_back(atol(t.c_str()));
    return sp;
}
static std::vector<Bytes> split_frag(const Bytes& data, const std::string& spec) {
    Spec sp = parse_spec(spec);
    std::vector<Bytes> out; size_t off = 0, k = 0;
    bool anypos = false; for (long x : sp.sizes) if (x > 0) anypos = true;
    while (off < data.size()) {
        if (k >= sp.sizes.size()) {
            if (sp.cyc && anypos) { k = 0; continue; }
            out.emplace_back(data.begin() + off, data.end()); break;
        }
        long n = sp.sizes[k++];
        if (n <= 0) continue;
        size_t m = std::min((size_t)n, data.size() - off);
        out.emplace_back(data.begin() + off, data.begin() + off + m);
        off += m;
    }
    return out;
}
static const int STEP_BOUND = 20000;
// exact-size heap buffer per read so that ASan traps an overrun of the caller's buffer
template<class F> static std::string run_reads(const std::string& spec, F rd) {
    Spec sp = parse_spec(spec);
    std::string b; bool stop = false;
    auto one = [&](long n) -> long {
        if (stop) return -1;
        uint8_t* buf = (uint8_t*)malloc(n ? n : 1);
        memset(buf, 0xEE, n ? n : 1);
        ssize_t r = rd(buf, (size_t)n);
        b += std::to_string((long)r) + ":" + (r > 0 ? hex(buf, r) : std::string("-")) + ";";
        free(buf);
        return r;
    };
    if (sp.sizes.empty()) return b;
    if (!sp.cyc) { for (long n : sp.sizes) one(n); return b; }
    int steps = 0; size_t k = 0; bool fin = false;
    while (!fin && !stop) {
        if (k >= sp.sizes.size()) k = 0;
        long r = one(sp.sizes[k++]);
        steps++;
        if (r <= 0) fin = true;
        else if (steps >= STEP_BOUND) { b += "STEPBOUND;"; stop = true; }
    }
    if (!stop) one(sp.sizes[0]);
    return b;
}
static std::vector<std::string> tokens(const std::string& line) {
    std::vector<std::string> t; std::stringstream ss(line); std::string x;
    while (std::getline(ss, x, ' ')) t.push_back(x);
    return t;
}
static std::vector<Bytes> writes_of(const std::string& s) {
    std::vector<Bytes> w; if (s == "-") return w;
    std::stringstream ss(s); std::string t;
    while (std::getline(ss, t, ',')) w.push_back(unhex(t));
    return w;
}

static std::string run_chunked(size_t cap, const Bytes& partial, bool err, std::vector<Bytes> pieces, const std::string& reads) {
    MockSock sock; sock.pieces = std::move(pieces); sock.err = err;
    char* line = (char*)malloc(cap ? cap : 1);              // exact size: ASan traps any access beyond `cap`
    memset(line, 0xAA, cap ? cap : 1);
    mcpy(line, partial.data(), std::min(partial.size(), cap));
    std::string out;
    {
        ChunkedBodyReadStream st(&sock, std::string_view(line, partial.size()));
        out = run_reads(reads, [&](void* b, size_t n) { return st.read(b, n); });
        out += " rest=" + std::to_string(sock.rest()) + " fin=" + (st.m_finish ? "1" : "0") +
               " closed=" + (sock.closed ? "1" : "0") + " close=" + std::to_string(st.close());
    }
    free(line);
    return out;
}

int main(int argc, char** argv) {
    log_output_level = ALOG_FATAL + 1;
    std::ifstream in(argv[1]); std::string line;
    while (std::getline(in, line)) {
        if (line.empty() || line[0] == '#') continue;
        auto t = tokens(line);
        const std::string& k = t[0];
        if (k == "B" && t.size() == 7) {
            Bytes partial = unhex(t[1]); size_t remain = strtoull(t[2].c_str(), 0, 10);
            MockSock sock; sock.err = t[3] != "0"; sock.pieces = split_frag(unhex(t[4]), t[5]);
            char* pb = (char*)malloc(partial.size() ? partial.size() : 1);
            mcpy(pb, partial.data(), partial.size());
            std::string out;
            {
                BodyReadStream st(&sock, std::string_view(pb, partial.size()), remain);
                out = run_reads(t[6], [&](void* b, size_t n) { return st.read(b, n); });
                out += " rest=" + std::to_string(sock.rest());
                if (st.m_close_delim) out += " close=0";
                else {
                    size_t sr = st.m_body_remain - st.m_partial_body_remain;
                    if (sr > SKIP_LIMIT || sr == 0) out += " close=" + std::to_string(st.close());
                    else out += " close=skip:" + std::to_string(sr);
                }
            }
            free(pb);
            printf("B %s\n", out.c_str());
        } else if (k == "C" && t.size() == 7) {
            printf("C %s\n", run_chunked(strtoull(t[1].c_str(), 0, 10), unhex(t[2]), t[3] != "0",
                                         split_frag(unhex(t[4]), t[5]), t[6]).c_str());
        } else if (k == "W" && t.size() == 4) {
            MockSock sock; sock.budget = strtoll(t[2].c_str(), 0, 10);
            std::string out;
            {
                BodyWriteStream st(&sock, strtoull(t[1].c_str(), 0, 10));
                for (auto& w : writes_of(t[3])) {
                    uint8_t* b = (uint8_t*)malloc(w.size() ? w.size() : 1); mcpy(b, w.data(), w.size());
                    out += std::to_string((long)st.write(b, w.size())) + ";";
                    free(b);
                }
            }
            printf("W %s out=%s\n", out.c_str(), hex(sock.out.data(), sock.out.size()).c_str());
        } else if (k == "X" && t.size() == 3) {
            MockSock sock; sock.budget = strtoll(t[1].c_str(), 0, 10);
            std::string out; int cr;
            {
                ChunkedBodyWriteStream st(&sock);
                for (auto& w : writes_of(t[2])) {
                    uint8_t* b = (uint8_t*)malloc(w.size() ? w.size() : 1); mcpy(b, w.data(), w.size());
                    out += std::to_string((long)st.write(b, w.size())) + ";";
                    free(b);
                }
                cr = st.close();
                st.m_finish = true;     // the destructor must not write again after a failed close
            }
            printf("X %s close=%d out=%s\n", out.c_str(), cr, hex(sock.out.data(), sock.out.size()).c_str());
        } else if (k == "R" && t.size() == 6) {
            MockSock wsock;
            {
                ChunkedBodyWriteStream st(&wsock);
                for (auto& w : split_frag(unhex(t[1]), t[2])) {
                    uint8_t* b = (uint8_t*)malloc(w.size() ? w.size() : 1); mcpy(b, w.data(), w.size());
                    st.write(b, w.size());
                    free(b);
                }
                st.close();
            }
            Bytes& wire = wsock.out;
            size_t plen = std::min((size_t)atol(t[3].c_str()), wire.size());
            size_t cap = std::max((size_t)4096, plen);
            Bytes partial(wire.begin(), wire.begin() + plen), rest(wire.begin() + plen, wire.end());
            printf("R wire=%s %s\n", hex(wire.data(), wire.size()).c_str(),
                   run_chunked(cap, partial, false, split_frag(rest, t[4]), t[5]).c_str());
        } else if (k == "M" && t.size() == 9) {
            bool isreq = t[1] == "Q";
            size_t cap = strtoull(t[2].c_str(), 0, 10);
            int fill = atoi(t[3].c_str());
            int verb = atoi(t[4].c_str());
            MockSock sock; sock.err = t[5] != "0"; sock.pieces = split_frag(unhex(t[6]), t[7]);
            char* buf = (char*)malloc(cap ? cap : 1);      // exact size
            memset(buf, fill, cap ? cap : 1);
            std::string out;
            {
                std::unique_ptr<Request> req; std::unique_ptr<Response> resp; Message* m;
                if (isreq) { req.reset(new Request(buf, (uint16_t)cap)); req->reset(&sock, false); m = req.get(); }
                else { resp.reset(new Response()); resp->reset(buf, (uint16_t)cap, false, &sock, false, (Verb)verb); m = resp.get(); }
                int ret = m->receive_header(-1UL);
                out = "rh=" + std::to_string(ret);
                if (m->message_status == HEADER_PARSED) {
                    char tmp[512];
                    auto& h = m->headers;
                    std::string kvs;
                    for (int i = 0; i < h.m_kv_size; i++) {
                        auto e = h.kv_begin()[i];
                        if (i) kvs += ";";
                        kvs += std::to_string(e.first.offset()) + "," + std::to_string(e.first.size()) + "," +
                               std::to_string(e.second.offset()) + "," + std::to_string(e.second.size());
                    }
                    rstring_view16 tgt = isreq ? req->m_target : rstring_view16();
                    rstring_view16 sm = isreq ? rstring_view16() : resp->m_status_message;
                    snprintf(tmp, sizeof tmp, " verb=%d tgt=%u,%u ver=%u,%u code=%u sm=%u,%u body=%u,%u ab=%d hoff=%ld kv=%d[",
                             (int)m->m_verb, tgt.offset(), tgt.size(), m->m_version.offset(), m->m_version.size(),
                             isreq ? 0 : resp->m_status_code, sm.offset(), sm.size(), m->m_body.offset(), m->m_body.size(),
                             (int)m->m_abandon, (long)(h.m_buf - buf), (int)h.m_kv_size);
                    out += tmp; out += kvs;
                    out += std::string("] chunked=") + (h.chunked() ? "1" : "0") + " bsize=" + std::to_string(m->body_size());
                }
                if (ret == 0)
                    out += " " + run_reads(t[8], [&](void* b, size_t n) { return m->read(b, n); });
                out += " rest=" + std::to_string(sock.rest());
            }
            free(buf);
            printf("M %s\n", out.c_str());
        } else {
            puts("BADCASE");
        }
        fflush(stdout);
    }
    return 0;
}
