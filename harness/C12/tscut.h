// C++14: static constexpr data members odr-used (through alog's macros, once the code is
// instrumented by the sanitizers) need an out-of-class definition; C++17 makes them inline.
#pragma once
#include <photon/common/conststr.h>
namespace ConstString {
template<char SP, char ch, char... chs> constexpr typename TSCut<SP,ch,chs...>::Tail TSCut<SP,ch,chs...>::tail;
template<char SP, char ch, char... chs> constexpr typename TSCut<SP,ch,chs...>::Head TSCut<SP,ch,chs...>::head;
template<char SP> constexpr typename TSCut<SP>::Tail TSCut<SP>::tail;
template<char SP> constexpr typename TSCut<SP>::Head TSCut<SP>::head;
}
