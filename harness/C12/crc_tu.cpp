// The CRC32C implementation of /repo (common/checksum/crc.cpp + crc_tables.cpp), compiled
// with the sanitizers into the C12 harness, plus stubs for the three alog symbols that
// crc.cpp / iovector.cpp reference in their error paths (the harness never logs).
#include "tscut.h"
#include <photon/common/alog.h>
ALogLogger default_logger{nullptr, 1000};
LogBuffer& operator<<(LogBuffer& log, const Prologue&) { return log; }
LogBuffer& operator<<(LogBuffer& log, ERRNO) { return log; }
void LogFormatter::put_integer(ALogBuffer&, uint64_t) {}
#include "common/checksum/crc.cpp"
#include "common/checksum/crc_tables.cpp"
