// C12 implementation harness (engine E1, ASan+UBSan): drives rpc/serialize.h,
// common/iovector.{h,cpp} and the CRC32C of /repo's current working tree.
//
//   harness <casefile>     one output line per case, same format as ocaml/C12_run.ml
//   harness --shapes       "<type> <shape descriptor>" per message type (offsets via offsetof)
//   harness --probe        five 0/1 flags: which of the delivered repairs the tree has
//
// Memory: every buffer of a case lives in a fixed mmap arena, region r at
// ARENA + r*2^32 (the model uses the same addresses, so pointer values written by the
// deserializer are compared as numbers).  The whole arena is ASan-poisoned; exactly the
// bytes of each region (and of each allocation made by the iovector) are unpoisoned, so
// any access outside the supplied bytes traps.  The harness reads every byte of every
// field of a successfully deserialized message.
#include <cstdio>
#include <cstdlib>
#include <cstring>
#include <cstdarg>
#include <array>
#include <cinttypes>
#include <string>
#include <vector>
#include <sstream>
#include <fstream>
#include <iostream>
#include <algorithm>
#include <memory>
#include <sys/mman.h>
#include <sys/wait.h>
#include <unistd.h>
#include <sys/uio.h>
#include <sanitizer/asan_interface.h>
#define private public
#define protected public
#include <photon/rpc/serialize.h>
#undef private
#undef protected
#include "tscut.h"
using namespace photon::rpc;
typedef photon::rpc::string rstring;

// ------------------------------------------------------------------ message types
struct Pod12 { char x[12]; };
struct T1 : Message { int32_t a; uint64_t b; char c[5]; PROCESS_FIELDS(a, b, c); };
struct T2 : Message { int32_t a; buffer b; int32_t z; PROCESS_FIELDS(a, b, z); };
struct T3 : Message { rstring s1; int32_t a; rstring s2; PROCESS_FIELDS(s1, a, s2); };
struct T4 : Message { int32_t a; buffer b; aligned_buffer ab; rstring s; aligned_buffer ab2; PROCESS_FIELDS(a, b, ab, s, ab2); };
struct T5 : Message { array<int32_t> xs; array<uint64_t> ys; int32_t k; PROCESS_FIELDS(xs, ys, k); };
struct T6 : Message { fixed_buffer<Pod12> fb; int32_t a; PROCESS_FIELDS(fb, a); };
struct T7 : Message { int32_t a; iovec_array v; buffer b; PROCESS_FIELDS(a, v, b); };
struct T8 : Message { buffer b; aligned_iovec_array av; rstring s; iovec_array v; PROCESS_FIELDS(b, av, s, v); };
struct In9 : Message { int32_t x; rstring s; buffer b; PROCESS_FIELDS(x, s, b); };
struct T9 : Message { int32_t a; In9 in; rstring t; PROCESS_FIELDS(a, in, t); };
struct T10 : CheckedMessage<> { int32_t a; rstring s; buffer b; PROCESS_FIELDS(a, s, b); };
struct El11 : Message { int32_t id; rstring name; PROCESS_FIELDS(id, name); };
struct T11 : Message { int32_t a; array<El11> es; rstring tail; PROCESS_FIELDS(a, es, tail); };
struct MapVal : Message { int32_t a = 0; rstring b; char c = 0; PROCESS_FIELDS(a, b, c); };
struct T12 : Message { int32_t code; buffer buf; sorted_map<rstring, MapVal> map; PROCESS_FIELDS(code, buf, map); };
struct In13 : CheckedMessage<> { int32_t f4_1; rstring f4_2; PROCESS_FIELDS(f4_1, f4_2); };
struct El13 : Message { int32_t f6_1; float f6_2; PROCESS_FIELDS(f6_1, f6_2); };
struct T13 : CheckedMessage<> { int32_t f2; rstring f3; In13 f4; sorted_map<rstring, MapVal> map; array<El13> f6;
                                PROCESS_FIELDS(f2, f3, f4, map, f6); };
struct In14 : Message { int32_t x; aligned_buffer ab; rstring s; aligned_iovec_array av; PROCESS_FIELDS(x, ab, s, av); };
struct T14 : Message { int32_t a; In14 in; aligned_buffer top; buffer b; PROCESS_FIELDS(a, in, top, b); };
struct El15 : Message { iovec_array v; int32_t tag; PROCESS_FIELDS(v, tag); };
struct T15 : Message { array<El15> es; buffer b; PROCESS_FIELDS(es, b); };

#pragma GCC diagnostic ignored "-Winvalid-offsetof"
#define OFF(T, m) ((int)offsetof(T, m))
static std::string fmt(const char* f, ...) {
    char b[2048]; va_list ap; va_start(ap, f); vsnprintf(b, sizeof b, f, ap); va_end(ap); return b;
}
static std::string mapval_fields() {
    return fmt("[%d@F4,%d@S,%d@F1]", OFF(MapVal, a), OFF(MapVal, b), OFF(MapVal, c));
}
static std::vector<std::pair<std::string, std::string>> shapes() {
    std::vector<std::pair<std::string, std::string>> v;
    v.push_back({"T1", fmt("%zu:P:[%d@F4,%d@F8,%d@F5]", sizeof(T1), OFF(T1, a), OFF(T1, b), OFF(T1, c))});
    v.push_back({"T2", fmt("%zu:P:[%d@F4,%d@B,%d@F4]", sizeof(T2), OFF(T2, a), OFF(T2, b), OFF(T2, z))});
    v.push_back({"T3", fmt("%zu:P:[%d@S,%d@F4,%d@S]", sizeof(T3), OFF(T3, s1), OFF(T3, a), OFF(T3, s2))});
    v.push_back({"T4", fmt("%zu:P:[%d@F4,%d@B,%d@A,%d@S,%d@A]", sizeof(T4), OFF(T4, a), OFF(T4, b), OFF(T4, ab), OFF(T4, s), OFF(T4, ab2))});
    v.push_back({"T5", fmt("%zu:P:[%d@R4[],%d@R8[],%d@F4]", sizeof(T5), OFF(T5, xs), OFF(T5, ys), OFF(T5, k))});
    v.push_back({"T6", fmt("%zu:P:[%d@X12,%d@F4]", sizeof(T6), OFF(T6, fb), OFF(T6, a))});
    v.push_back({"T7", fmt("%zu:P:[%d@F4,%d@I,%d@B]", sizeof(T7), OFF(T7, a), OFF(T7, v), OFF(T7, b))});
    v.push_back({"T8", fmt("%zu:P:[%d@B,%d@J,%d@S,%d@I]", sizeof(T8), OFF(T8, b), OFF(T8, av), OFF(T8, s), OFF(T8, v))});
    v.push_back({"T9", fmt("%zu:P:[%d@F4,%d@N[%d@F4,%d@S,%d@B],%d@S]", sizeof(T9), OFF(T9, a), OFF(T9, in),
                         OFF(In9, x), OFF(In9, s), OFF(In9, b), OFF(T9, t))});
    v.push_back({"T10", fmt("%zu:C:[%d@F4,%d@S,%d@B]", sizeof(T10), OFF(T10, a), OFF(T10, s), OFF(T10, b))});
    v.push_back({"T11", fmt("%zu:P:[%d@F4,%d@R%zu[%d@F4,%d@S],%d@S]", sizeof(T11), OFF(T11, a), OFF(T11, es), sizeof(El11),
                          OFF(El11, id), OFF(El11, name), OFF(T11, tail))});
    v.push_back({"T12", fmt("%zu:P:[%d@F4,%d@B,%d@M%zu%s]", sizeof(T12), OFF(T12, code), OFF(T12, buf), OFF(T12, map),
                          sizeof(MapVal), mapval_fields().c_str())});
    v.push_back({"T13", fmt("%zu:C:[%d@F4,%d@S,%d@N[%d@F4,%d@S],%d@M%zu%s,%d@R%zu[%d@F4,%d@F4]]", sizeof(T13), OFF(T13, f2), OFF(T13, f3),
                          OFF(T13, f4), OFF(In13, f4_1), OFF(In13, f4_2), OFF(T13, map), sizeof(MapVal), mapval_fields().c_str(),
                          OFF(T13, f6), sizeof(El13), OFF(El13, f6_1), OFF(El13, f6_2))});
    v.push_back({"T14", fmt("%zu:P:[%d@F4,%d@N[%d@F4,%d@A,%d@S,%d@J],%d@A,%d@B]", sizeof(T14), OFF(T14, a), OFF(T14, in),
                          OFF(In14, x), OFF(In14, ab), OFF(In14, s), OFF(In14, av), OFF(T14, top), OFF(T14, b))});
    v.push_back({"T15", fmt("%zu:P:[%d@R%zu[%d@I,%d@F4],%d@B]", sizeof(T15), OFF(T15, es), sizeof(El15), OFF(El15, v), OFF(El15, tag), OFF(T15, b))});
    return v;
}

// ------------------------------------------------------------------ shape descriptors
struct Field;
typedef std::vector<Field> Fields;
struct Field { long off; char kind; long n; Fields sub; };
struct Shape { long size; bool checked; Fields fs; };
static long parse_num(const char*& p) { long v = 0; while (*p >= '0' && *p <= '9') v = v * 10 + (*p++ - '0'); return v; }
static Fields parse_fields(const char*& p);
static Field parse_field(const char*& p) {
    Field f; f.off = parse_num(p); f.n = 0;
    if (*p != '@') { fprintf(stderr, "bad shape at %s\n", p); exit(2); }
    ++p; f.kind = *p++;
    switch (f.kind) {
    case 'F': case 'X': f.n = parse_num(p); break;
    case 'R': case 'M': f.n = parse_num(p); f.sub = parse_fields(p); break;
    case 'N': f.sub = parse_fields(p); break;
    default: break;
    }
    return f;
}
static Fields parse_fields(const char*& p) {
    Fields fs;
    if (*p != '[') { fprintf(stderr, "bad shape (expected [) at %s\n", p); exit(2); }
    ++p;
    while (*p != ']') { fs.push_back(parse_field(p)); if (*p == ',') ++p; }
    ++p;
    return fs;
}
static Shape parse_shape(const std::string& s) {
    const char* p = s.c_str(); Shape sh; sh.size = parse_num(p); ++p; sh.checked = (*p == 'C'); p += 2; sh.fs = parse_fields(p); return sh;
}
static bool active(const Fields& fs) {
    for (auto& f : fs) { if (f.kind == 'N') { if (active(f.sub)) return true; } else if (f.kind != 'F') return true; }
    return false;
}

// ------------------------------------------------------------------ the arena
static const uintptr_t ARENA = 0x300000000000ULL;
static const uintptr_t STRIDE = 1ULL << 32;
static const size_t MAPPED = 1 << 18;
static const int NREG = 80;
static std::vector<size_t> g_len;        // length of every live region (input regions, then allocation slots)
static char* rbase(size_t r) { return (char*)(ARENA + r * STRIDE); }
static void arena_init() {
    for (int r = 0; r < NREG; r++) {
        void* p = mmap(rbase(r), MAPPED, PROT_READ | PROT_WRITE, MAP_PRIVATE | MAP_ANONYMOUS | MAP_FIXED_NOREPLACE, -1, 0);
        if (p != (void*)rbase(r)) { fprintf(stderr, "arena mmap failed for region %d\n", r); exit(3); }
        ASAN_POISON_MEMORY_REGION(p, MAPPED);
    }
}
static int add_region(const void* data, size_t n) {       // returns the region index, -1 if it does not fit
    size_t r = g_len.size();
    if (r >= (size_t)NREG || n > MAPPED) return -1;
    ASAN_UNPOISON_MEMORY_REGION(rbase(r), n);
    if (n) { if (data) memcpy(rbase(r), data, n); else memset(rbase(r), 0, n); }
    g_len.push_back(n);
    return (int)r;
}
static void arena_reset() {
    for (size_t r = 0; r < g_len.size(); r++) ASAN_POISON_MEMORY_REGION(rbase(r), (g_len[r] + 64) & ~(size_t)63);
    g_len.clear();
}
// the allocator handed to the receiving iovector: every allocation is a fresh exact-size region
static int g_allocs = 0;
static int arena_alloc(void*, IOAlloc::RangeSize size, void** ptr) {
    int r = add_region(nullptr, (size_t)size.max);
    if (r < 0) { *ptr = nullptr; return -1; }
    *ptr = rbase(r); g_allocs++;
    return size.max;
}
static int arena_dealloc(void*, void*) { return 0; }
static IOAlloc arena_ioalloc() {
    return IOAlloc(IOAlloc::Allocator{nullptr, &arena_alloc}, IOAlloc::Deallocator{nullptr, &arena_dealloc});
}

// ------------------------------------------------------------------ output helpers
static const char* HEXD = "0123456789abcdef";
// reads every byte (instrumented loads: an out-of-range byte traps under ASan)
static std::string hexread(const void* p, size_t n) {
    std::string s; if (n > (1u << 24)) s.reserve(1u << 24); else s.reserve(2 * n);
    const volatile unsigned char* q = (const volatile unsigned char*)p;
    for (size_t i = 0; i < n; i++) { unsigned char c = q[i]; s += HEXD[c >> 4]; s += HEXD[c & 15]; }
    return s;
}
static std::string u64s(uint64_t v) { return std::to_string(v); }
static std::string memdump() {
    std::string s = "[";
    for (size_t r = 0; r < g_len.size(); r++) { if (r) s += "|"; s += hexread(rbase(r), g_len[r]); }
    return s + "]";
}
static std::string iovdump(iovector& v) {
    std::string s = u64s(v.front_free_iovcnt()) + ":[";
    bool first = true;
    for (auto& e : v) { if (!first) s += ";"; first = false; s += u64s((uint64_t)e.iov_base) + "," + u64s(e.iov_len); }
    return s + "]";
}

// reads every byte of every field, through the accessors where the header has one
static std::string walk_fields(const Fields& fs, char* base);
static std::string walk_field(const Field& f, char* a) {
    switch (f.kind) {
    case 'F': return "F(" + hexread(a, f.n) + ")";
    case 'B': case 'X': case 'A': {
        buffer* b = (buffer*)a;
        return "B(" + u64s((uint64_t)b->addr()) + "," + u64s(b->size()) + "," + hexread(b->addr(), b->size()) + ")";
    }
    case 'S': {
        rstring* s = (rstring*)a;
        std::string r = "S(" + u64s((uint64_t)s->c_str()) + "," + u64s(s->size()) + "," + hexread(s->c_str(), s->size());
        auto sv = s->sv();
        return r + "," + u64s(sv.size()) + "," + hexread(sv.data(), sv.size()) + ")";
    }
    case 'R': {
        buffer* b = (buffer*)a;
        std::string r = "A(" + u64s((uint64_t)b->addr()) + "," + u64s(b->size()) + "," + hexread(b->addr(), b->size()) + ",[";
        if (active(f.sub)) {
            size_t cnt = b->size() / (size_t)f.n;
            for (size_t i = 0; i < cnt; i++) r += "{" + walk_fields(f.sub, (char*)b->addr() + i * f.n) + "}";
        }
        return r + "])";
    }
    case 'I': case 'J': {
        iovec_array* v = (iovec_array*)a;
        std::string r = "I(" + u64s((uint64_t)v->_ptr) + "," + u64s(v->_len) + "," + u64s(v->summed_size) + ",[";
        bool first = true;
        for (auto& e : *v) {
            if (!first) r += ";"; first = false;
            r += u64s((uint64_t)e.iov_base) + "," + u64s(e.iov_len) + "," + hexread(e.iov_base, e.iov_len);
        }
        return r + "])";
    }
    case 'N': return "N{" + walk_fields(f.sub, a) + "}";
    case 'M': {
        buffer* idx = (buffer*)a; buffer* bb = (buffer*)(a + 16);
        return "M(" + u64s((uint64_t)idx->addr()) + "," + u64s(idx->size()) + "," + hexread(idx->addr(), idx->size()) + "," +
               u64s((uint64_t)bb->addr()) + "," + u64s(bb->size()) + "," + hexread(bb->addr(), bb->size()) + ")";
    }
    }
    return "?";
}
static std::string walk_fields(const Fields& fs, char* base) {
    std::string s;
    for (size_t i = 0; i < fs.size(); i++) { if (i) s += ","; s += walk_field(fs[i], base + fs[i].off); }
    return s;
}

// ------------------------------------------------------------------ sorted_map operations
static const Field* find_map(const Fields& fs) { for (auto& f : fs) if (f.kind == 'M') return &f; return nullptr; }
template<class P> static std::string show_pair(P& p, const Field& mf) {
    auto sv = p.first.sv();
    return "k(" + u64s((uint64_t)p.first.c_str()) + "," + u64s(p.first.size()) + "," + u64s(sv.size()) + "," + hexread(sv.data(), sv.size()) +
           ")v{" + walk_fields(mf.sub, (char*)&p.second) + "}";
}
static std::vector<unsigned char> unhex(const std::string& h) {
    std::vector<unsigned char> v;
    if (h == "." || h == "~") return v;
    for (size_t i = 0; i + 1 < h.size(); i += 2) v.push_back((unsigned char)strtoul(h.substr(i, 2).c_str(), 0, 16));
    return v;
}
template<class M> static std::string map_ops(M& m, const Field& mf, const std::string& ops) {
    std::string out; std::stringstream ss(ops); std::string op;
    while (std::getline(ss, op, ',')) {
        if (!out.empty()) out += ",";
        if (op == "I") {
            out += "I[";
            bool first = true;
            for (auto it = m.begin(); it != m.end(); ++it) {
                if (!first) out += ";"; first = false;
                auto& p = *it;
                out += show_pair(p, mf);
            }
            out += "]";
        } else if (op[0] == 'F') {
            auto kb = unhex(op.substr(2));
            char* kbuf = (char*)malloc(kb.size() ? kb.size() : 1);     // exact-size heap copy of the caller's key
            memcpy(kbuf, kb.data(), kb.size());
            rstring key; key.assign((const void*)kbuf, kb.size());
            auto it = m.find(key);
            if (it == m.end()) out += "F(end)";
            else {
                size_t pos = it.m_ptr - m.index.begin();
                auto& p = *it;
                out += "F(" + u64s(pos) + "," + show_pair(p, mf) + ")";
            }
            free(kbuf);
        }
    }
    return out;
}
template<class T> static auto ops_of(T* t, const Shape& sh, const std::string& ops, int) -> decltype((void)t->map, std::string()) {
    const Field* mf = find_map(sh.fs);
    return map_ops(t->map, *mf, ops);
}
template<class T> static std::string ops_of(T*, const Shape&, const std::string&, long) { return "-"; }

// ------------------------------------------------------------------ cases
struct Case { std::string kind, cfg, type, shape; long rf; std::vector<std::vector<unsigned char>> regions;
              std::vector<std::array<long, 3>> iov; std::string ops; };
static std::vector<std::string> split(const std::string& s, char c) {
    std::vector<std::string> v; std::stringstream ss(s); std::string t;
    while (std::getline(ss, t, c)) v.push_back(t);
    return v;
}
static void load_regions(const Case& c) {
    for (auto& r : c.regions) if (add_region(r.data(), r.size()) < 0) { fprintf(stderr, "region does not fit\n"); exit(2); }
}
template<class T> static std::string run_D(const Case& c) {
    Shape sh = parse_shape(c.shape);
    load_regions(c);
    g_allocs = 0;
    std::string out;
    {
        IOVector iov(arena_ioalloc(), (uint16_t)c.rf);
        for (auto& e : c.iov) iov.push_back(rbase(e[0]) + e[1], (size_t)e[2]);
        DeserializerIOV des;
        T* t = des.template deserialize<T>(&iov);
        out = "ret=" + u64s((uint64_t)t) + " failed=" + (des.failed ? "1" : "0") + " iov=" + iovdump(iov) + " nb=" + u64s(iov.nbases) +
              " mem=" + memdump();
        if (t) {
            out += " walk=" + walk_fields(sh.fs, (char*)t);
            out += " ops=" + (c.ops[0] == '~' ? std::string("-") : ops_of(t, sh, c.ops, 0));
            out += " mem2=" + (c.ops[0] == '~' ? std::string("-") : memdump());
        } else out += " walk=- ops=- mem2=-";
    }
    return out;
}
template<class T> static std::string run_S(const Case& c) {
    load_regions(c);
    T* x = (T*)rbase(c.rf);            // for S cases the fourth token is the region holding the message object
    SerializerIOV ser;
    ser.serialize(*x);
    return std::string("full=") + (ser.iovfull ? "1" : "0") + " iov=" + iovdump(ser.iov) + " mem=" + memdump();
}
template<class T> static std::string run(const Case& c) { return c.kind == "S" ? run_S<T>(c) : run_D<T>(c); }

static std::string dispatch(const Case& c) {
#define TY(T) if (c.type == #T) return run<T>(c);
    TY(T1) TY(T2) TY(T3) TY(T4) TY(T5) TY(T6) TY(T7) TY(T8) TY(T9) TY(T10) TY(T11) TY(T12) TY(T13) TY(T14) TY(T15)
#undef TY
    return "BADTYPE";
}

// which of the delivered repairs does this tree have?  (behavioural probes, no file inspection)
static std::string probe() {
    std::string r;
    { // zero-length buffer: is the sender's pointer nulled?   /  failed extraction: is the length zeroed?
        T2 m; memset(&m, 0, sizeof m); m.b._ptr = (void*)0x1234; m.b._len = 0;
        IOVector iov; iov.push_back(&m, sizeof m);
        DeserializerIOV d; T2* t = d.deserialize<T2>(&iov);
        r += (t && t->b._ptr == nullptr) ? "1" : "0";
        T2 m2; memset(&m2, 0, sizeof m2); m2.b._ptr = (void*)0x1234; m2.b._len = 77;
        IOVector iov2; iov2.push_back(&m2, sizeof m2);
        DeserializerIOV d2; d2.deserialize<T2>(&iov2);
        r += (m2.b._len == 0) ? "1" : "0";
    }
    { // aligned buffer inside a nested message: serialized at all?
        T14 m; memset(&m, 0, sizeof m); char x[4] = {1, 2, 3, 4};
        m.in.ab.assign(x, 4);
        SerializerIOV s; s.serialize(m);
        r += (s.iov.iovcnt() == 2) ? "1" : "0";
    }
    { char b[4]; buffer base(b, 4); slice s(8, 8); r += (s.anchor(base).size() == 0) ? "1" : "0"; }
    { rstring e; r += (e.sv().size() == 0) ? "1" : "0"; }
    return r;
}

static std::string run_line(const std::string& line) {
    auto tok = split(line, ' ');
    Case c;
    if (tok.size() < 6) return "BADCASE";
    c.kind = tok[0]; c.cfg = tok[1]; c.type = tok[2]; c.shape = tok[3]; c.rf = atol(tok[4].c_str());
    if (tok[5] != "~") for (auto& h : split(tok[5], ';')) c.regions.push_back(unhex(h));
    if (c.kind == "D") {
        if (tok.size() < 8) return "BADCASE";
        if (tok[6] != "~") for (auto& e : split(tok[6], ',')) { auto p = split(e, ':'); c.iov.push_back({atol(p[0].c_str()), atol(p[1].c_str()), atol(p[2].c_str())}); }
        c.ops = tok[7];
    }
    return dispatch(c);
}

int main(int argc, char** argv) {
    if (argc < 2) return 2;
    if (std::string(argv[1]) == "--shapes") { for (auto& p : shapes()) printf("%s %s\n", p.first.c_str(), p.second.c_str()); return 0; }
    if (std::string(argv[1]) == "--probe") { printf("%s\n", probe().c_str()); return 0; }
    arena_init();
    std::ifstream in(argv[1]); std::string line;
    std::vector<std::string> lines;
    while (std::getline(in, line)) if (!line.empty() && line[0] != '#') lines.push_back(line);
    // Supervisor: the cases run in a forked worker; when the worker dies (sanitizer report, SEGV) the
    // supervisor prints TRAP for the case it was running and forks a new worker for the rest.
    size_t next = 0;
    while (next < lines.size()) {
        int pfd[2]; if (pipe(pfd) != 0) return 4;
        fflush(stdout);
        pid_t pid = fork();
        if (pid < 0) return 4;
        if (pid == 0) {
            close(pfd[0]);
            for (size_t i = next; i < lines.size(); i++) {
                uint32_t idx = (uint32_t)i;
                if (write(pfd[1], &idx, sizeof idx) != (ssize_t)sizeof idx) _exit(5);
                alarm(20);
                std::string out = run_line(lines[i]);
                arena_reset();
                puts(out.c_str()); fflush(stdout);
            }
            uint32_t done = 0xffffffffu;
            if (write(pfd[1], &done, sizeof done) != (ssize_t)sizeof done) _exit(5);
            _exit(0);
        }
        close(pfd[1]);
        uint32_t last = 0xfffffffeu, v;
        while (read(pfd[0], &v, sizeof v) == (ssize_t)sizeof v) last = v;
        close(pfd[0]);
        int status = 0; waitpid(pid, &status, 0);
        if (last == 0xffffffffu) break;
        if (last == 0xfffffffeu) return 6;            // worker died before starting a case
        puts("TRAP"); fflush(stdout);
        next = (size_t)last + 1;
    }
    return 0;
}
// the anchored translation units, instrumented (ASan/UBSan) together with the harness
#include "common/iovector.cpp"
