// C14 implementation harness: drives iovector_view / iovector of /repo's current working tree
// (common/iovector.cpp is compiled into this program, ASan on) over the case file and prints one
// line per case in the same format as ocaml/C14_run.ml.
//
// Every element / destination / allocator result is its own exact-size heap buffer, every iovec
// array (the view's, destination views', out-views') is its own exact-size heap array, so any
// access outside what the elements describe traps under ASan.  Buffers are never freed during a
// case (ids stay valid for the final dump).
#include <cstdio>
#include <cstdlib>
#include <cstring>
#include <cinttypes>
#include <string>
#include <vector>
#include <sstream>
#include <fstream>
#include <iostream>
#define protected public
#define private public
#include <photon/common/iovector.h>
#include <photon/common/alog.h>
#undef protected
#undef private

struct Buf { char* p; size_t n; bool opaque; };
static std::vector<Buf> g_bufs;
static bool g_opaque_step = false;
static size_t g_chunk = 1;

static int new_buf(size_t n) {
    char* p = (char*)malloc(n);
    int id = (int)g_bufs.size();
    for (size_t i = 0; i < n; i++) p[i] = (char)(((uint64_t)id * 37 + i * 11 + 5) % 251);
    g_bufs.push_back(Buf{p, n, g_opaque_step});
    return id;
}
// the allocator given to the owning iovector: hands out min(size.max, chunk) bytes
static int my_alloc(void*, IOAlloc::RangeSize s, void** ptr) {
    long r = (long)s.max < (long)g_chunk ? (long)s.max : (long)g_chunk;
    if (r < s.min) { *ptr = nullptr; return -1; }
    int id = new_buf((size_t)r);
    *ptr = g_bufs[id].p;
    return (int)r;
}
static int my_dealloc(void*, void*) { return 0; }

static bool locate(const void* ptr, long& id, long& off) {
    if (!ptr) { id = -1; off = 0; return true; }
    const char* c = (const char*)ptr;
    for (size_t i = 0; i < g_bufs.size(); i++)
        if (c >= g_bufs[i].p && c <= g_bufs[i].p + g_bufs[i].n) { id = (long)i; off = c - g_bufs[i].p; return true; }
    id = -9; off = 0; return false;
}
static std::string triples(const iovec* a, int n) {
    std::string s = "[";
    for (int i = 0; i < n; i++) {
        long id, off; locate(a[i].iov_base, id, off);
        char b[96]; snprintf(b, sizeof b, "%s%ld,%ld,%zu", i ? ";" : "", id, off, a[i].iov_len); s += b;
    }
    return s + "]";
}
static void hex_append(std::string& s, const void* p, size_t n) {
    static const char* H = "0123456789abcdef";
    const unsigned char* c = (const unsigned char*)p;
    for (size_t i = 0; i < n; i++) { s += H[c[i] >> 4]; s += H[c[i] & 15]; }
}
static std::string flat_hex(const iovec* a, int n) {
    std::string s;
    for (int i = 0; i < n; i++) if (a[i].iov_len) hex_append(s, a[i].iov_base, a[i].iov_len);
    return s.empty() ? "-" : s;
}
static std::vector<size_t> parse_shape(const std::string& s) {
    std::vector<size_t> v; if (s == "-") return v;
    std::stringstream ss(s); std::string t;
    while (std::getline(ss, t, ',')) v.push_back(strtoull(t.c_str(), 0, 10));
    return v;
}
static void g_arrays_push(void* p);
struct FreshView { iovec* arr; int n; std::vector<int> ids; };
static FreshView fresh_view(const std::vector<size_t>& shape) {
    FreshView f; f.n = (int)shape.size();
    std::vector<int> ids;
    for (size_t x : shape) ids.push_back(new_buf(x));
    f.arr = (iovec*)malloc(sizeof(iovec) * shape.size()); g_arrays_push(f.arr);
    for (int i = 0; i < f.n; i++) f.arr[i] = iovec{g_bufs[ids[i]].p, shape[i]};
    f.ids = ids; return f;
}
static iovec* null_slots(size_t N) {
    iovec* a = (iovec*)malloc(sizeof(iovec) * N); g_arrays_push(a);
    for (size_t i = 0; i < N; i++) a[i] = iovec{nullptr, 0};
    return a;
}

struct Machine {
    bool own;
    iovector_view v;      // view kind
    iovector* iv;         // owning kind
    iovector_view aux;
};
static const long NA = -2;

static std::vector<void*> g_arrays;
static void g_arrays_push(void* p) { g_arrays.push_back(p); }
static std::string run_case(const std::string& line) {
    for (auto& b : g_bufs) free(b.p);
    for (auto a : g_arrays) free(a);
    g_bufs.clear(); g_arrays.clear();
    std::vector<std::string> parts;
    { std::stringstream ss(line); std::string t; while (std::getline(ss, t, ';')) parts.push_back(t); }
    if (parts.empty()) return "BADCASE";
    std::istringstream hs(parts[0]);
    std::string kind, shape_s; uint64_t cap, rf, chunk;
    hs >> kind >> cap >> rf >> chunk >> shape_s;
    if (kind != "V" && kind != "O") return "BADCASE";
    g_chunk = chunk; g_opaque_step = false;
    Machine m; m.own = (kind == "O"); m.iv = nullptr; m.aux = iovector_view();
    auto shape = parse_shape(shape_s);
    if (m.own) {
        m.iv = new_iovector((uint16_t)cap, (uint16_t)rf);
        *m.iv->get_allocator() = IOAlloc(IOAlloc::Allocator{nullptr, &my_alloc}, IOAlloc::Deallocator{nullptr, &my_dealloc});
        for (size_t x : shape) { int id = new_buf(x); m.iv->push_back(g_bufs[id].p, x); }
    } else {
        FreshView f = fresh_view(shape);
        m.v = iovector_view(f.arr, f.n);
    }
    std::string out;
    for (size_t k = 1; k < parts.size(); k++) {
        std::istringstream os(parts[k]); std::string op; os >> op;
        if (op.empty()) continue;
        long ret = 0; const void* ptr = nullptr; bool has_ptr = false;
        std::string dst = "-";
        auto dump_ids = [&](const std::vector<int>& ids) {
            if (ids.empty()) { dst = "-"; return; }
            dst.clear();
            for (size_t j = 0; j < ids.size(); j++) {
                int id = ids[j]; if (j) dst += "/";
                dst += std::to_string(id) + ":";
                if (g_bufs[id].n == 0) dst += "-"; else hex_append(dst, g_bufs[id].p, g_bufs[id].n);
            }
        };
        uint64_t n = 0, a2 = 0, a3 = 0; std::string sh;
        if (op == "sum") { ret = m.own ? m.iv->sum() : m.v.sum(); }
        else if (op == "shrink") { os >> n; ret = m.own ? m.iv->shrink_to(n) : m.v.shrink_to(n); }
        else if (op == "shrinklt") { os >> n; ret = m.own ? NA : (long)m.v.shrink_less_than(n); }
        else if (op == "trunc") { os >> n; ret = m.own ? (long)m.iv->truncate(n) : NA; }
        else if (op == "xf") { os >> n; ret = m.own ? m.iv->extract_front(n) : m.v.extract_front(n); }
        else if (op == "xb") { os >> n; ret = m.own ? m.iv->extract_back(n) : m.v.extract_back(n); }
        else if (op == "xfb" || op == "xbb") {
            os >> n; int id = new_buf(n); void* b = g_bufs[id].p;
            if (op == "xfb") ret = m.own ? m.iv->extract_front(n, b) : m.v.extract_front(n, b);
            else ret = m.own ? m.iv->extract_back(n, b) : m.v.extract_back(n, b);
            dump_ids({id});
        }
        else if (op == "xfv" || op == "xbv") {
            os >> n >> a2; g_opaque_step = true;
            m.aux = iovector_view(null_slots(a2), (int)a2);
            if (op == "xfv") ret = m.own ? m.iv->extract_front(n, &m.aux) : m.v.extract_front(n, &m.aux);
            else ret = m.own ? m.iv->extract_back(n, &m.aux) : m.v.extract_back(n, &m.aux);
            g_opaque_step = false;
        }
        else if (op == "xfc" || op == "xbc") {
            os >> n;
            if (op == "xfc") ptr = m.own ? m.iv->extract_front_continuous(n) : m.v.extract_front_continuous(n);
            else ptr = m.own ? m.iv->extract_back_continuous(n) : m.v.extract_back_continuous(n);
            ret = ptr ? 1 : 0; has_ptr = ptr != nullptr;
            if (ptr) { dst = "p:"; if (n == 0) dst += "-"; else hex_append(dst, ptr, n); }
        }
        else if (op == "slice") {
            os >> n >> a2 >> a3; g_opaque_step = true;
            m.aux = iovector_view(null_slots(a3), (int)a3);
            ret = m.own ? m.iv->slice(n, (off_t)a2, &m.aux) : m.v.slice(n, (off_t)a2, &m.aux);
            g_opaque_step = false;
        }
        else if (op == "mto" || op == "mfrom" || op == "pto") {
            os >> n; int id = new_buf(n); void* b = g_bufs[id].p;
            if (op == "mto") ret = m.own ? m.iv->memcpy_to(b, n) : m.v.memcpy_to(b, n);
            else if (op == "mfrom") ret = m.own ? m.iv->memcpy_from(b, n) : m.v.memcpy_from(b, n);
            else ret = m.own ? m.iv->pipe_to(b, n) : m.v.pipe_to(b, n);
            dump_ids({id});
        }
        else if (op == "mtov" || op == "mfromv" || op == "ptov" || op == "pfromv") {
            os >> sh >> n; FreshView f = fresh_view(parse_shape(sh));
            iovector_view dv(f.arr, f.n);
            if (op == "mtov") ret = m.own ? m.iv->memcpy_to(&dv, n) : m.v.memcpy_to(&dv, n);
            else if (op == "mfromv") ret = m.own ? m.iv->memcpy_from(&dv, n) : m.v.memcpy_from(&dv, n);
            else if (op == "ptov") ret = m.own ? m.iv->pipe_to(&dv, n) : m.v.pipe_to(&dv, n);
            else { ret = m.own ? m.iv->pipe_from(&dv, n) : m.v.pipe_from(&dv, n); m.aux = dv; }
            dump_ids(f.ids);
        }
        else if (op == "pushb" || op == "pushf") {
            os >> n;
            if (!m.own) ret = NA;
            else { int id = new_buf(n); ret = (op == "pushb") ? m.iv->push_back(g_bufs[id].p, n) : m.iv->push_front(g_bufs[id].p, n); }
        }
        else if (op == "pushba") { os >> n; ret = m.own ? (long)m.iv->push_back((size_t)n) : NA; }
        else if (op == "pushfa") { os >> n; ret = m.own ? (long)m.iv->push_front((size_t)n) : NA; }
        else if (op == "popf") { ret = m.own ? (long)m.iv->pop_front() : NA; }
        else if (op == "popb") { ret = m.own ? (long)m.iv->pop_back() : NA; }
        else if (op == "clear") { if (m.own) { m.iv->clear(); ret = 0; } else ret = NA; }
        else if (op == "xfo" || op == "xbo") {
            os >> n >> a2 >> a3;                       // bytes, capacity and reserve_front of the destination
            if (!m.own) ret = NA;
            else {
                iovector* dst = new_iovector((uint16_t)a2, (uint16_t)a3);
                g_arrays_push(dst);
                ret = (op == "xfo") ? m.iv->extract_front(n, dst) : m.iv->extract_back(n, dst);
                m.aux = dst->view();
            }
        }
        else return "BADCASE";

        const iovec* mv = m.own ? m.iv->iovec() : m.v.iov; int mc = m.own ? m.iv->iovcnt() : m.v.iovcnt;
        char hdr[128]; std::string ps = "-";
        if (has_ptr) { long id, off; locate(ptr, id, off); snprintf(hdr, sizeof hdr, "%ld,%ld", id, off); ps = hdr; }
        if (k > 1) out += " | ";
        snprintf(hdr, sizeof hdr, "r=%ld p=%s v=", ret, ps.c_str()); out += hdr;
        out += triples(mv, mc);
        snprintf(hdr, sizeof hdr, " w=%d,%d a=", m.own ? (int)m.iv->iov_begin : 0, m.own ? (int)m.iv->nbases : 0); out += hdr;
        out += triples(m.aux.iov, m.aux.iovcnt);
        out += " f=" + flat_hex(mv, mc) + " g=" + flat_hex(m.aux.iov, m.aux.iovcnt) + " d=" + dst;
    }
    if (m.own) g_arrays_push(m.iv);
    out += " # ";
    for (size_t i = 0; i < g_bufs.size(); i++) {
        if (i) out += ",";
        out += std::to_string(i) + ":";
        if (g_bufs[i].opaque) out += "@" + std::to_string(g_bufs[i].n);
        else if (g_bufs[i].n == 0) out += "-";
        else hex_append(out, g_bufs[i].p, g_bufs[i].n);
    }
    return out;
}

// Supervisor: the cases are run by a forked worker; when the worker dies on case k (sanitizer report,
// signal) the supervisor prints "CRASH(<status>): <sanitizer summary>" for that case and forks a new
// worker for case k+1.  The supervisor itself never runs iovector code, so one process handles a whole
// case file however many cases trap (a restart costs a fork, not a new process + a new case file).
#include <unistd.h>
#include <sys/wait.h>
#include <sys/mman.h>
int main(int argc, char** argv) {
    log_output_level = ALOG_FATAL + 1;
    std::vector<std::string> cases;
    { std::ifstream in(argv[1]); std::string line;
      while (std::getline(in, line)) { if (line.empty() || line[0] == '#') continue; cases.push_back(line); } }
    volatile size_t* done = (volatile size_t*)mmap(nullptr, sizeof(size_t), PROT_READ | PROT_WRITE, MAP_SHARED | MAP_ANONYMOUS, -1, 0);
    *done = 0;
    char errname[64]; snprintf(errname, sizeof errname, "/tmp/C14_err_%d.txt", (int)getpid());
    int traps = 0; const int MAX_TRAPS = 40;
    while (*done < cases.size()) {
        fflush(stdout);
        if (traps >= MAX_TRAPS) {        // systemic defect: do not spend a process per remaining case
            for (size_t k = *done; k < cases.size(); k++) puts("CRASH(skipped): more than 40 cases of this file trapped, not run");
            fflush(stdout); break;
        }
        pid_t pid = fork();
        if (pid == 0) {
            if (!freopen(errname, "w", stderr)) _exit(3);
            for (size_t k = *done; k < cases.size(); k++) {
                std::string r = run_case(cases[k]);
                puts(r.c_str()); fflush(stdout);
                *done = k + 1;
            }
            _exit(0);
        }
        int status = 0; waitpid(pid, &status, 0);
        if (*done >= cases.size()) break;
        // worker died on case *done
        std::string msg;
        { std::ifstream ef(errname); std::string l;
          while (std::getline(ef, l)) if (l.find("ERROR") != std::string::npos || l.find("runtime error") != std::string::npos) { msg = l; break; } }
        if (msg.size() > 200) msg.resize(200);
        int code = WIFEXITED(status) ? WEXITSTATUS(status) : -(int)WTERMSIG(status);
        printf("CRASH(%d): %s\n", code, msg.c_str()); fflush(stdout);
        *done = *done + 1; traps++;
    }
    unlink(errname);
    return 0;
}
