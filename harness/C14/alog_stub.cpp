// The only symbols common/iovector.cpp needs from common/alog.cpp (which itself needs the photon
// thread library): the logger object and two formatting functions.  The harness keeps the log level
// above ALOG_FATAL, so LogBuilder never invokes the formatting code; these definitions only satisfy
// the linker and let the harness run without libphoton (no global photon build / lock).
#include <photon/common/alog.h>
ALogLogger default_logger{nullptr, ALOG_FATAL + 1};
uint32_t& log_output_level = default_logger.log_level;
void LogFormatter::put_integer(ALogBuffer&, uint64_t) {}
LogBuffer& operator<<(LogBuffer& log, const Prologue&) { return log; }
