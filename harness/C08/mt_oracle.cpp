// mt_oracle.cpp — C08, engine (ii): an UNCONTROLLED multi-OS-thread run of the real WorkPool whose only role is
// to feed the python property oracle (checks/C08.py `mt_oracle`).  Nothing here depends on timing: the program
// prints the per-task counters AFTER the pool's destructor returned; the oracle asserts only
//   runs == 1, finished == 1, flag read right after call() returned == 1, deletes == 1 (async) / 0 (call),
//   nothing unfinished when ~WorkPool returned.
// thread/workerpool.cpp is compiled into this translation unit (ASan sees its new/delete and the task objects).
//
// case line:  M <mode> <ring> <nworkers> <joiner> <nstd> <nphoton_os> <photon_per_os> <tasks_each> <seed>
//   nworkers       OS-thread vCPUs owned by the pool
//   joiner         1: one more OS thread inits photon and calls join_current_vcpu_into_workpool()
//   nstd           plain OS threads submitting with call<StdContext>/call<AutoContext>/async_call
//   nphoton_os     OS threads running photon, each with <photon_per_os> photon threads submitting with
//                  call<PhotonContext>/call<AutoContext>/async_call
//   the pool is destroyed IMMEDIATELY after the last submitter returned (async tasks still queued / running)
// output line: n=<tasks> unfinished_at_destroy=<k> bad=<list of id:runs.fin.del.flag>  ("-" if none)
#include <cstdint>
#include <cstdio>
#include <cstdlib>
#include <cstring>
#include <string>
#include <vector>
#include <map>
#include <algorithm>
#include <atomic>
#include <thread>
#include <future>
#include <random>
#include <memory>
#include <utility>
#include <fstream>
#include <sstream>
#include <photon/photon.h>
#include <photon/thread/thread.h>
#include <photon/common/alog.h>
#include <photon/common/lockfree_queue.h>
#include <photon/thread/workerpool.h>
#include "thread/workerpool.cpp"

namespace {
struct Rec {
    std::atomic<int> runs{0}, fin{0}, del{0}, flag{-1};
    bool is_call = false;
};
std::vector<Rec>* g_recs;

uint64_t mix(uint64_t x) { x += 0x9e3779b97f4a7c15ull; x = (x ^ (x >> 30)) * 0xbf58476d1ce4e5b9ull; x = (x ^ (x >> 27)) * 0x94d049bb133111ebull; return x ^ (x >> 31); }

struct Body {
    int id; int kind; bool heap;
    Body(int i, int k, bool h) : id(i), kind(k), heap(h) {}
    void operator()() {
        auto& r = (*g_recs)[id];
        r.runs++;
        switch (kind) {
            case 1: photon::thread_yield(); break;
            case 2: photon::thread_usleep(50); break;
            case 3: photon::thread_yield(); photon::thread_yield(); photon::thread_yield(); break;
            case 4: photon::thread_usleep(200); photon::thread_yield(); break;
            default: break;
        }
        r.fin++;
    }
    ~Body() { if (heap) (*g_recs)[id].del++; }
};

void submit(photon::WorkPool* pool, int id, uint64_t seed, bool photon_env) {
    uint64_t h = mix(seed * 1000003 + id);
    int kind = (int)(h % 5);
    int how = (int)((h >> 8) % 4);
    auto& r = (*g_recs)[id];
    if (how == 0 || how == 3) {                       // async
        r.is_call = false;
        pool->async_call(new Body(id, kind, true));
    } else {
        r.is_call = true;
        Body b(id, kind, false);
        if (how == 1) pool->call<photon::AutoContext>(b);
        else if (photon_env) pool->call<photon::PhotonContext>(b);
        else pool->call<photon::StdContext>(b);
        r.flag = r.fin.load();                        // the finished flag read right after call() returned
    }
}

struct PArg { photon::WorkPool* pool; int first, n; uint64_t seed; std::atomic<int>* done; };
void* photon_submitter(void* a) {
    auto p = (PArg*)a;
    for (int i = 0; i < p->n; i++) {
        submit(p->pool, p->first + i, p->seed, true);
        if (mix(p->seed + p->first + i) % 3 == 0) photon::thread_yield();
    }
    (*p->done)++;
    return nullptr;
}

std::string run_case(const std::string& line) {
    std::istringstream is(line);
    std::string tag; int mode, ring, nworkers, joiner, nstd, npos, pper, each; uint64_t seed;
    if (!(is >> tag >> mode >> ring >> nworkers >> joiner >> nstd >> npos >> pper >> each >> seed) || tag != "M") return "BADCASE";
    int total = (nstd + npos * pper) * each;
    std::vector<Rec> recs(total);
    g_recs = &recs;
    auto pool = new photon::WorkPool(nworkers, photon::INIT_EVENT_DEFAULT, photon::INIT_IO_NONE, mode, ring);
    std::thread jt;
    if (joiner) {
        jt = std::thread([&] {
            photon::init(photon::INIT_EVENT_DEFAULT, photon::INIT_IO_NONE);
            pool->join_current_vcpu_into_workpool();
            photon::fini();
        });
        while (pool->get_vcpu_num() != nworkers + 1) std::this_thread::yield();
    }
    std::vector<std::thread> subs;
    int next = 0;
    for (int s = 0; s < nstd; s++) {
        int first = next; next += each;
        subs.emplace_back([=] { for (int i = 0; i < each; i++) submit(pool, first + i, seed, false); });
    }
    for (int s = 0; s < npos; s++) {
        int first = next; next += pper * each;
        subs.emplace_back([=] {
            photon::init(photon::INIT_EVENT_DEFAULT, photon::INIT_IO_NONE);
            std::atomic<int> done{0};
            std::vector<PArg> args(pper);
            for (int k = 0; k < pper; k++) {
                args[k] = PArg{pool, first + k * each, each, seed, &done};
                photon::thread_create(&photon_submitter, &args[k]);
            }
            while (done.load() != pper) photon::thread_usleep(100);
            photon::fini();
        });
    }
    for (auto& t : subs) t.join();
    delete pool;                                      // destruction right after the last submit
    int unfinished = 0;
    for (auto& r : recs) if (r.fin.load() != 1) unfinished++;
    if (joiner) jt.join();
    std::string bad;
    for (int i = 0; i < total; i++) {
        auto& r = recs[i];
        bool ok = r.runs == 1 && r.fin == 1 && (r.is_call ? (r.del == 0 && r.flag == 1) : r.del == 1);
        if (!ok) {
            char buf[96];
            snprintf(buf, sizeof buf, "%s%d%c:%d.%d.%d.%d", bad.empty() ? "" : ",", i, r.is_call ? 'c' : 'a',
                     r.runs.load(), r.fin.load(), r.del.load(), r.flag.load());
            bad += buf;
        }
    }
    char head[96];
    snprintf(head, sizeof head, "n=%d unfinished_at_destroy=%d bad=", total, unfinished);
    return std::string(head) + (bad.empty() ? "-" : bad);
}
}  // namespace

int main(int argc, char** argv) {
    if (argc < 2) return 2;
    log_output_level = ALOG_FATAL + 1;
    std::ifstream in(argv[1]);
    std::string line;
    while (std::getline(in, line)) {
        if (line.empty() || line[0] == '#') continue;
        printf("%s\n", run_case(line).c_str());
        fflush(stdout);
    }
    return 0;
}
