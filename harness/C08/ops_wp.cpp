// ops_wp.cpp — E2 extension for C08: the REAL photon::WorkPool driven on ONE vCPU (model: coq/C08/C08_Coop.v).
// thread/workerpool.cpp is compiled into THIS translation unit (class WorkPool::impl is file-local), so a
// change of the working tree's workerpool.cpp / lockfree_queue.h / awaiter.h is what runs here.
//
// decl   wp <mode> <ring_size>        new WorkPool(0 /*no OS-thread workers*/, 0, 0, mode, ring_size)
// ops    wp_join p                    pool->join_current_vcpu_into_workpool()       (main_loop on this vCPU)
//        wp_call p id a1 a2 ...       pool->call(body)      body: a = 0 thread_yield(), a > 0 thread_usleep(a)
//        wp_async p id a1 a2 ...      pool->async_call(new Body)
//        wp_destroy p q               gate, then `delete pool`.  The gate (harness code, modelled) makes the program
//                                     respect the user contract and keeps E2's virtual time live:
//                                     q = 0: spin (thread_yield) until every issued submission has been pushed;
//                                     q = 1: poll with thread_usleep(37) until every issued task has finished
//                                     (needed when task bodies sleep: virtual time only advances when the vCPU
//                                     is idle, so the destructor's own yield loops would never see a sleeper wake)
//        wp_tt                        placeholder program of the thread slots the MODEL uses for the photon
//                                     threads that main_loop / the thread pool create (never run here)
// A submission or join issued once the destroyer has started is not executed (-2/0): the user contract.
// Task events are appended to the E2 trace as  <1000+id>.<0 start|1 finish|2 deleted>:<counter>/0@now.
#include <cstdint>
#include <cerrno>
#include <string>
#include <vector>
#include <map>
#include <algorithm>
#include <atomic>
#include <thread>
#include <future>
#include <random>
#include <memory>
#include <utility>
#include <photon/thread/thread.h>
#define private public
#define protected public
#include <photon/common/lockfree_queue.h>
#include <photon/thread/workerpool.h>
#include "thread/workerpool.cpp"
#undef private
#undef protected
#include "e2.h"
using namespace e2;

namespace {
// access to the implicitly-private `FlexRingChannel::queue` (explicit-instantiation idiom; /repo untouched)
using WPRing = photon::WorkPool::impl::FlexRing;
using WPChan = photon::WorkPool::impl::FlexRingChannel;
template <typename Tag, typename Tag::type M> struct Rob { friend typename Tag::type rob_get(Tag) { return M; } };
struct QueueTag { typedef WPRing* WPChan::*type; friend type rob_get(QueueTag); };
template struct Rob<QueueTag, &WPChan::queue>;
uint64_t ring_pushes(photon::WorkPool* p) { return (p->pImpl->ring->*rob_get(QueueTag()))->tail.load(); }

struct TaskRec { int runs = 0, fin = 0, del = 0; };
std::map<int64_t, TaskRec> g_tasks;
uint64_t g_fin_total = 0;
struct PoolRec { photon::WorkPool* pool = nullptr; bool destroying = false; uint64_t issued = 0; };
std::map<int64_t, PoolRec> g_pools;

void log_ev(int64_t id, int pc, int64_t v) {
    env().trace.push_back(TraceEv{(int)(1000 + id), pc, v, 0, (uint64_t)photon::now});
}
struct Body {
    int64_t id; std::vector<int64_t> acts; bool heap;
    Body(int64_t i, std::vector<int64_t> a, bool h) : id(i), acts(std::move(a)), heap(h) {}
    Body(const Body&) = default;
    void operator()() {
        auto& r = g_tasks[id];
        log_ev(id, 0, ++r.runs);
        for (auto a : acts) { if (a == 0) photon::thread_yield(); else photon::thread_usleep((uint64_t)a); }
        g_fin_total++;
        log_ev(id, 1, ++r.fin);
    }
    ~Body() { if (heap) log_ev(id, 2, ++g_tasks[id].del); }
};
std::vector<int64_t> acts_of(const Item& op) {
    std::vector<int64_t> a;
    for (size_t i = 2; i < op.args.size(); i++) a.push_back(op.args[i]);
    return a;
}
PoolRec* pool_of(Ctx& c, const Item& op) {
    if (!c.env.obj_is(op.a(0), "wp")) return nullptr;
    auto it = g_pools.find(op.a(0));
    if (it == g_pools.end() || !it->second.pool || it->second.destroying) return nullptr;
    return &it->second;
}
}  // namespace

E2_DECL(wp) {
    auto p = new photon::WorkPool(0, 0, 0, (int)d.a(0, -1), (size_t)d.a(1, 4));
    int64_t idx = (int64_t)env.objs.size();
    g_pools[idx].pool = p;
    return p;
}
E2_OP(wp_join) {
    auto pr = pool_of(c, op);
    if (!pr) return RV(SKIPPED);
    int r = pr->pool->join_current_vcpu_into_workpool();
    return RV(r);
}
E2_OP(wp_call) {
    auto pr = pool_of(c, op);
    if (!pr) return RV(SKIPPED);
    pr->issued++;
    Body b(op.a(1), acts_of(op), false);
    pr->pool->call(b);                       // Context = PhotonContext
    return RV(g_tasks[op.a(1)].fin);         // the finished flag read right after call() returns
}
E2_OP(wp_async) {
    auto pr = pool_of(c, op);
    if (!pr) return RV(SKIPPED);
    pr->issued++;
    pr->pool->async_call(new Body(op.a(1), acts_of(op), true));
    return RV(0);
}
E2_OP(wp_destroy) {
    for (;;) {
        auto pr = pool_of(c, op);
        if (!pr) return RV(SKIPPED);
        if (op.a(1, 0) != 0 && g_fin_total != pr->issued) photon::thread_usleep(37);
        else if (ring_pushes(pr->pool) != pr->issued) photon::thread_yield();
        else {
            pr->destroying = true;
            delete pr->pool;
            pr->pool = nullptr;
            return RV(0);
        }
    }
}
E2_OP(wp_tt) { return RV(0); }
E2_OP(wp_pt) { return RV(0); }
