(* C06 runner: include after zutil.ml and E2_lib.ml.
   P-lines: E2 programs over decls `rwlock` / `qrwlock` (model: coq/C06/C06_E2.v). *)
let c06_kind (d : e2_item) : z = match fst d with "rwlock" -> z_of_int 1 | "qrwlock" -> z_of_int 2 | _ -> z_of_int 0
let c06_op (decls : e2_item list) ((name, a) as it : e2_item) : c06_op op option =
  let z0 = z_of_int 0 in
  let m1 = z_of_int (-1) in
  let i () = e2_nat (e2_arg a 0 z0) in
  let neg () = BigZ.sign (big_of_z (e2_arg a 0 z0)) < 0 in
  match name with
  | "rw_lock" when not (neg ()) -> Some (OUser (RwLock (i (), e2_arg a 1 z0, e2_u64 (e2_arg a 2 m1))))
  | "rw_unlock" when not (neg ()) -> Some (OUser (RwUnlock (i ())))
  | "rw_state" when not (neg ()) -> Some (OUser (RwState (i ())))
  | "q_lock" when not (neg ()) -> Some (OUser (QLock (i (), e2_arg a 1 z0, e2_u64 (e2_arg a 2 m1))))
  | "q_try" when not (neg ()) -> Some (OUser (QTryLock (i (), e2_arg a 1 z0)))
  | "q_unlock" when not (neg ()) -> Some (OUser (QUnlock (i ())))
  | "q_state" when not (neg ()) -> Some (OUser (QState (i ())))
  | "q_waiters" when not (neg ()) -> Some (OUser (QWaiters (i ())))
  | "rw_waiters" when not (neg ()) -> Some (OUser (RwWaiters (i ())))
  | _ -> (match e2_core_op it with Some c -> Some (OCore c) | None -> None)
let c06_p_line (l : string) : string =
  let (decls, ts) = e2_parse l in
  let ps = List.map (List.map (c06_op decls)) ts in
  if ps = [] || List.exists (List.exists (fun o -> o = None)) ps then "BADCASE"
  else e2_show (c06_run e2_fuel (List.map (List.map (function Some o -> o | None -> OCore ONop)) ps)
                  (c06_init (List.map c06_kind decls)))
(* ---------- E3 helpers (copy this block into the runner of any other E3 property) ---------- *)
let fnv_digest (entries : string list) : string =
  let h = ref 0xcbf29ce484222325L in
  let feed c = h := Int64.mul (Int64.logxor !h (Int64.of_int (Char.code c))) 0x100000001b3L in
  List.iteri (fun k s -> if k > 0 then feed ' '; String.iter feed s) entries;
  Printf.sprintf "%016Lx" !h
let parse_schedule (s : string) : nat list =
  let l = ref [] in
  String.iter (fun c ->
    if c >= '0' && c <= '9' then l := nat_of_int (Char.code c - 48) :: !l
    else if c >= 'a' && c <= 'z' then l := nat_of_int (10 + Char.code c - 97) :: !l) s;
  List.rev !l
(* one log entry from an observation; addr_name : class -> string ; user_name : code -> string *)
let fmt_obs (addr_name : int -> string) (user_name : int -> string) (p : nat) (o : obs) : string =
  let z = string_of_z in
  let a () =
    let nm = addr_name (int_of_z o.o_addr) in
    let i = int_of_z o.o_idx in
    if i >= 0 then Printf.sprintf "%s[%d]" nm i else nm in
  let pp = string_of_int (int_of_nat p) in
  let done_mark = if int_of_z o.o_kind <> 3 && int_of_z o.o_v4 = 1 then "!" else "" in
  (fun s -> s ^ done_mark) @@
  match int_of_z o.o_kind with
  | 0 -> Printf.sprintf "%s.ld.%s.%s" pp (a ()) (z o.o_v1)
  | 1 -> Printf.sprintf "%s.st.%s.%s" pp (a ()) (z o.o_v1)
  | 2 -> Printf.sprintf "%s.xg.%s.%s.%s" pp (a ()) (z o.o_v1) (z o.o_v2)
  | 3 -> Printf.sprintf "%s.cas.%s.%s.%s.%s.%s" pp (a ()) (z o.o_v1) (z o.o_v2) (z o.o_v3) (z o.o_v4)
  | 4 -> Printf.sprintf "%s.fa.%s.%s.%s" pp (a ()) (z o.o_v1) (z o.o_v2)
  | 5 -> Printf.sprintf "%s.fs.%s.%s.%s" pp (a ()) (z o.o_v1) (z o.o_v2)
  | 6 -> Printf.sprintf "%s.fo.%s.%s.%s" pp (a ()) (z o.o_v1) (z o.o_v2)
  | 7 -> Printf.sprintf "%s.fn.%s.%s.%s" pp (a ()) (z o.o_v1) (z o.o_v2)
  | 8 -> Printf.sprintf "%s.sp" pp
  | 9 -> (match int_of_z o.o_idx with
          | 0 -> Printf.sprintf "%s.%s" pp (user_name (int_of_z o.o_addr))
          | 1 -> Printf.sprintf "%s.%s.%s" pp (user_name (int_of_z o.o_addr)) (z o.o_v1)
          | _ -> Printf.sprintf "%s.%s.%s.%s" pp (user_name (int_of_z o.o_addr)) (z o.o_v1) (z o.o_v2))
  | _ -> Printf.sprintf "%s.none" pp
(* ---------- end of E3 helpers ---------------------------------------------------------------- *)

(* Q-lines: E3 schedules over the qrwlock state word (model: coq/C06/C06_QE3.v) *)
let q_addr_name = function 0 -> "ls" | 1 -> "spin" | _ -> "?"
let q_user_name (_ : int) = "?"
let q_parse_op = function "w" -> Some OTryW | "r" -> Some OTryR | "u" -> Some OUnlock | _ -> None
let c06_q_line (line : string) : string =
  try
    let fields = List.map String.trim (String.split_on_char '|' line) in
    let hd = List.hd fields in
    let rest = List.tl fields in
    let hw = split_on ' ' hd in
    let bound = int_of_string (List.nth hw 1) in
    let full = (match List.nth_opt hw 2 with Some "full" -> true | _ -> false) in
    let nrest = List.length rest in
    if nrest < 2 || bound <= 0 then "BADCASE" else
    let scripts_s = List.filteri (fun i _ -> i < nrest - 1) rest in
    let sched = parse_schedule (List.nth rest (nrest - 1)) in
    let scripts = List.map (fun s -> List.filter_map q_parse_op (split_on ' ' s)) scripts_s in
    let ((st, log), livelock) = qe3_run scripts (nat_of_int bound) sched in
    let entries = List.filter_map (fun (p, o) -> if int_of_z o.o_kind = 10 then None else Some (fmt_obs q_addr_name q_user_name p o)) log in
    let n = List.length scripts in
    let res = String.concat "|" (List.init n (fun p ->
      let pn = nat_of_int p in
      String.concat "," (List.rev_map string_of_z (st.e_res pn)) ^ (if e3fin st pn then "" else "*"))) in
    Printf.sprintf "steps=%d %s log=%s res=%s final=%s%s" (List.length entries) (if livelock then "livelock" else "ok")
      (fnv_digest entries) res (string_of_z st.e_q.ls) (if full then " LOG " ^ String.concat " " entries else "")
  with _ -> "BADCASE"

(* B-lines: E3 schedules over the BLOCKING path of qrwlock (model: coq/C06/C06_QE3B.v) *)
let b_user_name = function 0 -> "enq.cvu" | 1 -> "enq.cvs" | 2 -> "blk" | 3 -> "n1.cvu" | 4 -> "na.cvs" | 5 -> "tick" | _ -> "?"
let b_parse_op (w : string) : bop option =
  let n = String.length w in
  if n = 0 then None else
  let md () = if n > 1 && w.[1] = 'w' then WR else RD in
  match w.[0] with
  | 'L' -> Some (BLock (md (), if n > 2 then z_of_string (String.sub w 2 (n - 2)) else z_of_int (-1)))
  | 'T' -> Some (BTry (md ()))
  | 'U' -> Some BUnlock
  | 'A' -> Some BTick
  | _ -> None
let b_plist (l : nat list) : string = if l = [] then "-" else String.concat "," (List.map (fun p -> string_of_int (int_of_nat p)) l)
let c06_b_line (line : string) : string =
  try
    let fields = List.map String.trim (String.split_on_char '|' line) in
    let hd = List.hd fields in
    let rest = List.tl fields in
    let hw = split_on ' ' hd in
    let bound = int_of_string (List.nth hw 1) in
    let full = (match List.nth_opt hw 2 with Some "full" -> true | _ -> false) in
    let nrest = List.length rest in
    if nrest < 2 || bound <= 0 || nrest - 1 > 36 then "BADCASE" else
    let scripts_s = List.filteri (fun i _ -> i < nrest - 1) rest in
    let sched = parse_schedule (List.nth rest (nrest - 1)) in
    let scripts = List.map (fun s -> List.filter_map b_parse_op (split_on ' ' s)) scripts_s in
    let ((st, log), livelock) = qb_run scripts (nat_of_int bound) sched in
    let entries = List.filter_map (fun (p, o) -> if int_of_z o.o_kind = 10 then None else Some (fmt_obs q_addr_name b_user_name p o)) log in
    let n = List.length scripts in
    let ps = List.init n (fun p -> nat_of_int p) in
    let res = String.concat "|" (List.map (fun pn ->
      String.concat "," (List.rev_map (fun r -> Printf.sprintf "%s:%s:%s:%s" (string_of_z r.br_ret) (string_of_z r.br_err) (string_of_z r.br_k0) (string_of_z r.br_k1)) (st.b_res pn))
      ^ (if List.mem pn (b_blocked st) then "*" else "")) ps) in
    let hold = String.concat "," (List.filter_map (fun pn ->
      let c = int_of_nat (b_holdcount st pn) in if c > 0 then Some (Printf.sprintf "%d:%d" (int_of_nat pn) c) else None) ps) in
    Printf.sprintf "steps=%d %s log=%s res=%s final=%s spin=%d cvu=%s cvs=%s blocked=%s hold=%s now=%s%s" (List.length entries)
      (if livelock then "livelock" else "ok") (fnv_digest entries) res (string_of_z st.b_q.ls)
      (match st.b_q.spin with None -> 0 | Some _ -> 1) (b_plist st.b_q.qu) (b_plist st.b_q.qs) (b_plist (b_blocked st))
      (if hold = "" then "-" else hold) (string_of_z st.b_now) (if full then " LOG " ^ String.concat " " entries else "")
  with _ -> "BADCASE"

let () =
  iter_lines Sys.argv.(1) (fun l ->
    if String.length l > 0 && l.[0] = 'P' then print_endline (c06_p_line l)
    else if String.length l > 0 && l.[0] = 'Q' then print_endline (c06_q_line l)
    else if String.length l > 0 && l.[0] = 'B' then print_endline (c06_b_line l)
    else print_endline "BADCASE")
