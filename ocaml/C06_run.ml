(* C06 runner: include after zutil.ml and E2_lib.ml.
   P-lines: E2 programs over decls `rwlock` / `qrwlock` (model: coq/C06/C06_E2.v). *)
let c06_kind (d : e2_item) : z = match fst d with "rwlock" -> z_of_int 1 | "qrwlock" -> z_of_int 2 | _ -> z_of_int 0
let c06_op (decls : e2_item list) ((name, a) as it : e2_item) : c06_op op option =
  let z0 = z_of_int 0 in
  let m1 = z_of_int (-1) in
  let i () = e2_nat (e2_arg a 0 z0) in
  let neg () = BigZ.sign (big_of_z (e2_arg a 0 z0)) < 0 in
  match name with
  | "rw_lock" when not (neg ()) -> Some (OUser (RwLock (i (), e2_arg a 1 z0, e2_u64 (e2_arg a 2 m1))))
  | "rw_unlock" when not (neg ()) -> Some (OUser (RwUnlock (i ())))
  | "rw_state" when not (neg ()) -> Some (OUser (RwState (i ())))
  | "q_lock" when not (neg ()) -> Some (OUser (QLock (i (), e2_arg a 1 z0, e2_u64 (e2_arg a 2 m1))))
  | "q_try" when not (neg ()) -> Some (OUser (QTryLock (i (), e2_arg a 1 z0)))
  | "q_unlock" when not (neg ()) -> Some (OUser (QUnlock (i ())))
  | "q_state" when not (neg ()) -> Some (OUser (QState (i ())))
  | _ -> (match e2_core_op it with Some c -> Some (OCore c) | None -> None)
let c06_p_line (l : string) : string =
  let (decls, ts) = e2_parse l in
  let ps = List.map (List.map (c06_op decls)) ts in
  if ps = [] || List.exists (List.exists (fun o -> o = None)) ps then "BADCASE"
  else e2_show (c06_run e2_fuel (List.map (List.map (function Some o -> o | None -> OCore ONop)) ps)
                  (c06_init (List.map c06_kind decls)))
let () =
  iter_lines Sys.argv.(1) (fun l ->
    if String.length l > 0 && l.[0] = 'P' then print_endline (c06_p_line l)
    else print_endline "BADCASE")
