(* C19 runner.  Case line:
     <now0> <lifespan> <numlimit> | op;op;... | op;... | ...
   ops:  A k ok y cd b | R h rc ds | X | Y | T d          (`-` = empty program)
   One output line per case (same format as harness/C19/harness.cpp). *)
let fuel = nat_of_int 200000
let ni n = string_of_int (int_of_nat n)
let parse_op s =
  match split_on ' ' s with
  | "A" :: k :: ok :: y :: cd :: _ -> OpAcquire (nat_of_int (int_of_string k), ok = "1", nat_of_int (int_of_string y), z_of_string cd)
  | ["R"; h; rc; ds] -> OpRelease (nat_of_int (int_of_string h), rc = "1", ds = "1")
  | ["X"] -> OpExpire
  | ["Y"] -> OpYield
  | ["T"; d] -> OpTick (z_of_string d)
  | _ -> failwith "badop"
let oo = function Some o -> ni o | None -> "N"
let show_ev = function
  | EvCtorBegin (t, k) -> Printf.sprintf "c%s:%s" (ni t) (ni k)
  | EvCtorEnd (t, k, r) -> Printf.sprintf "C%s:%s:%s" (ni t) (ni k) (match r with Some o -> ni o | None -> "F")
  | EvDtor (t, o, refs) -> Printf.sprintf "d%s:%s:%s" (ni t) (ni o) (ni refs)
  | EvAcq (t, i, r) -> Printf.sprintf "a%s.%s:%s" (ni t) (ni i) (oo r)
  | EvRel (t, i, r) -> Printf.sprintf "r%s.%s:%s" (ni t) (ni i) (match r with Some (o, n) -> ni o ^ "/" ^ ni n | None -> "N")
  | EvRelCall (t, i) -> Printf.sprintf "b%s.%s" (ni t) (ni i)
  | EvSkip (t, i) -> Printf.sprintf "s%s.%s" (ni t) (ni i)
  | EvExp (t, i) -> Printf.sprintf "x%s.%s" (ni t) (ni i)
  | EvYield (t, i) -> Printf.sprintf "y%s.%s" (ni t) (ni i)
  | EvTick (t, i) -> Printf.sprintf "t%s.%s" (ni t) (ni i)
let () =
  iter_lines Sys.argv.(1) (fun l ->
    try
      match String.split_on_char '|' l with
      | hd :: progs ->
        (match split_on ' ' hd with
         | [now0; life; lim] ->
           let ps = List.map (fun p -> let p = String.trim p in
                                if p = "-" || p = "" then [] else List.map parse_op (List.filter (fun x -> String.trim x <> "") (String.split_on_char ';' p))) progs in
           let ((s, rq), finished) = run_case fuel (z_of_string now0) (z_of_string life) (z_of_string lim) ps in
           let evs = List.rev_map show_ev s.s_log in
           let blocked = List.concat (List.mapi (fun t th ->
               match th.t_pc, th.t_prog with PIdle, [] -> [] | _ -> [Printf.sprintf "%d.%s" t (ni th.t_idx)]) s.s_thr) in
           Printf.printf "ev=%s blocked=%s size=%d list=%d bad=%d end=%s\n"
             (if evs = [] then "-" else String.concat "," evs)
             (if blocked = [] then "-" else String.concat "," blocked)
             (List.length s.s_set) (List.length s.s_list) (if s.s_bad then 1 else 0)
             (if finished then "done" else "fuel")
         | _ -> print_endline "BADCASE")
      | _ -> print_endline "BADCASE"
    with _ -> print_endline "BADCASE")
