(* C10 runner.  Case lines (see checks/C10.py):
     D <op> <tmo|inf> <flags> <lens|-> <sys|-> <wt|->     part 1: stream call over a scripted kernel
   One output line per case (same format as harness/C10/harness.cpp). *)
let zs = string_of_z
let max64 = z_of_string "18446744073709551615"
let csv s = if s = "-" then [] else split_on ',' s
let tail s = String.sub s 1 (String.length s - 1)
let parse_sys t = if t.[0] = 'e' then Fail (z_of_string (tail t)) else Ret (z_of_string (tail t))
let parse_wt t =
  match t.[0] with
  | 'w' -> WReady (z_of_string (tail t))
  | 'n' -> WNever
  | _ -> (match split_on ':' (tail t) with [d; e] -> WIntr (z_of_string d, z_of_string e) | _ -> failwith "wt")
let hex l = String.concat "" (List.map (fun b -> Printf.sprintf "%02x" (int_of_z b)) l)
let show_view v = String.concat "/" (List.map (fun e -> zs e.base ^ "+" ^ zs e.len) v)
let show_event = function
  | ESys (k, fl, v, r) -> Printf.sprintf "S%s,%s,%s=%s" (zs k) (zs fl) (show_view v) (zs r)
  | EWait (k, rem, a) -> Printf.sprintf "W%s,%s=%s" (zs k) (zs rem) (zs a)
let run_d opn tmo flags lens sys wt =
  let o = match opn with
    | "read" -> OpRead | "write" -> OpWrite | "readv" -> OpReadv | "writev" -> OpWritev
    | "recv" -> OpRecv | "send" -> OpSend | "recvv" -> OpRecvv | "sendv" -> OpSendv
    | "sendfile" -> OpSendfile | _ -> failwith "op" in
  let tmo = if tmo = "inf" then max64 else z_of_string tmo in
  let lens = List.map z_of_string (csv lens) in
  let sending = List.mem opn ["write"; "writev"; "send"; "sendv"; "sendfile"] in
  match run_op o tmo (z_of_string flags) lens (List.map parse_sys (csv sys)) (List.map parse_wt (csv wt)) with
  | ScriptEnd -> print_endline "SCRIPTEND"
  | Hang -> print_endline "HANG"
  | OutOfFuel -> print_endline "OUTOFFUEL"
  | Done (ret, k) ->
    let touched = List.rev k.k_touched in
    let neg = match ret with Zneg _ -> true | _ -> false in
    let data = if sending then "" else
      String.concat "/" (List.map hex (recv_bufs (mk_iovs Z0 lens) touched)) in
    let w = if sending then hex (wire touched) else "" in
    Printf.printf "ret=%s errno=%s el=%s log=%s data=%s wire=%s guard=1 iovkept=1\n"
      (zs ret) (if neg then zs k.k_errno else "0") (zs k.k_elapsed)
      (String.concat ";" (List.map show_event (List.rev k.k_log))) data w
let () =
  iter_lines Sys.argv.(1) (fun l ->
    match split_on ' ' l with
    | ["D"; opn; tmo; flags; lens; sys; wt] -> run_d opn tmo flags lens sys wt
    | _ -> print_endline "BADCASE")
