(* C10 runner.  Case lines (see checks/C10.py):
     D <op> <tmo|inf> <flags> <lens|-> <sys|-> <wt|->     part 1: stream call over a scripted kernel
   One output line per case (same format as harness/C10/harness.cpp). *)
let zs = string_of_z
let max64 = z_of_string "18446744073709551615"
let csv s = if s = "-" then [] else split_on ',' s
let tail s = String.sub s 1 (String.length s - 1)
let parse_sys t = if t.[0] = 'e' then Fail (z_of_string (tail t)) else Ret (z_of_string (tail t))
let parse_wt t =
  match t.[0] with
  | 'w' -> WReady (z_of_string (tail t))
  | 'n' -> WNever
  | _ -> (match split_on ':' (tail t) with [d; e] -> WIntr (z_of_string d, z_of_string e) | _ -> failwith "wt")
let hex l = String.concat "" (List.map (fun b -> Printf.sprintf "%02x" (int_of_z b)) l)
let show_view v = String.concat "/" (List.map (fun e -> zs e.base ^ "+" ^ zs e.len) v)
let show_event = function
  | ESys (k, fl, v, r) -> Printf.sprintf "S%s,%s,%s=%s" (zs k) (zs fl) (show_view v) (zs r)
  | EWait (k, rem, a) -> Printf.sprintf "W%s,%s=%s" (zs k) (zs rem) (zs a)
let run_d opn tmo flags lens sys wt =
  let o = match opn with
    | "read" -> OpRead | "write" -> OpWrite | "readv" -> OpReadv | "writev" -> OpWritev
    | "recv" -> OpRecv | "send" -> OpSend | "recvv" -> OpRecvv | "sendv" -> OpSendv
    | "sendfile" -> OpSendfile | _ -> failwith "op" in
  let tmo = if tmo = "inf" then max64 else z_of_string tmo in
  let lens = List.map z_of_string (csv lens) in
  let sending = List.mem opn ["write"; "writev"; "send"; "sendv"; "sendfile"] in
  match run_op o tmo (z_of_string flags) lens (List.map parse_sys (csv sys)) (List.map parse_wt (csv wt)) with
  | ScriptEnd -> print_endline "SCRIPTEND"
  | Hang -> print_endline "HANG"
  | OutOfFuel -> print_endline "OUTOFFUEL"
  | Done (ret, k) ->
    let touched = List.rev k.k_touched in
    let neg = match ret with Zneg _ -> true | _ -> false in
    let data = if sending then "" else
      String.concat "/" (List.map hex (recv_bufs (mk_iovs Z0 lens) touched)) in
    let w = if sending then hex (wire touched) else "" in
    Printf.printf "ret=%s errno=%s el=%s log=%s data=%s wire=%s guard=1 iovkept=1\n"
      (zs ret) (if neg then zs k.k_errno else "0") (zs k.k_elapsed)
      (String.concat ";" (List.map show_event (List.rev k.k_log))) data w
(* ---- part 2: engine scripts ---- *)
let zi s = if s = "inf" then z_of_string "-1" else z_of_string s
let parse_step tok =
  let a = split_on ':' (tail tok) in
  let g i = zi (List.nth a i) in
  match tok.[0] with
  | 'w' -> SWait (g 0, g 1, g 2, g 3)
  | 'r' -> SReady (g 0, g 1)
  | 'p' -> SPoll
  | 'i' -> SIntr (g 0, g 1)
  | 't' -> SSleep (g 0)
  | 'k' -> SKick
  | 'x' -> SClose (g 0)
  | 'a' -> SAdd (g 0, g 1, g 2)
  | 'd' -> SRm (g 0, g 1, g 2)
  | 'c' -> SEvents (g 0, g 1)
  | _ -> failwith "step"
let show_ev = function
  | LCtl (op, fd, evs, res) -> Some (Printf.sprintf "C%s,%s,%s=%s" (zs op) (zs fd) (zs evs) (zs res))
  | LWait evs -> Some ("P[" ^ String.concat "," (List.map (fun (f, e) -> zs f ^ ":" ^ zs e) evs) ^ "]")
  | LFire _ -> None
  | LMark -> Some "|"
  | LRes (t, r, e) -> Some (Printf.sprintf "T%s=%s/%s" (zs t) (zs r) (zs e))
  | LCall (c, r, out) ->
    (match int_of_z c with
     | 1 -> Some ("A=" ^ zs r) | 2 -> Some ("D=" ^ zs r)
     | _ -> Some ("V=" ^ zs r ^ "[" ^ String.concat "," (List.map zs out) ^ "]"))
let run_e steps =
  let s = run_engine (List.map parse_step (split_on ',' steps)) in
  let log = List.filter_map show_ev (List.rev s.s_log) in
  let tab = List.filter (fun (_, e) -> not (e.i_int = Z0 && e.i_rd = Z0 && e.i_wr = Z0 && e.i_er = Z0)) s.s_tab in
  let tab = List.sort (fun (a, _) (b, _) -> compare (int_of_z a) (int_of_z b)) tab in
  let tabs = List.map (fun (fd, e) -> Printf.sprintf "%s:%s:%s:%s:%s" (zs fd) (zs e.i_int) (zs e.i_rd) (zs e.i_wr) (zs e.i_er)) tab in
  let kern = List.map (fun e -> Printf.sprintf "%s:%s:%d" (zs e.ke_fd) (zs e.ke_events) (if e.ke_armed then 1 else 0)) s.s_k.kn_list in
  let batch = List.map (fun (f, e) -> zs f ^ ":" ^ zs e) s.s_batch in
  let blocked = List.filter_map (fun (t, w) -> match w with Waiting _ -> Some (zs t) | Finished -> None) s.s_thr in
  Printf.printf "log=%s tab=%s size=%s kern=%s batch=%s blocked=%s now=%s\n"
    (String.concat ";" log) (String.concat "," tabs) (zs s.s_size) (String.concat "," kern)
    (String.concat "," batch) (String.concat "," blocked) (zs s.s_now)
(* ---- part 2b: epoll-ng scripts ---- *)
let pidx = function PEng -> 0 | PRd -> 1 | PWr -> 2 | PEr -> 3
let parse_nstep tok =
  let a = split_on ':' (tail tok) in
  let g i = zi (List.nth a i) in
  match tok.[0] with
  | 'w' -> NSWait (g 0, g 1, g 2, g 3)
  | 'r' -> NSReady (g 0, g 1)
  | 'p' -> NSPoll
  | 'i' -> NSIntr (g 0, g 1)
  | 't' -> NSSleep (g 0)
  | 'k' -> NSKick
  | 'x' -> NSClose (g 0)
  | _ -> failwith "nstep"
let show_nev = function
  | NCtl (p, op, fd, evs, d, res) -> Printf.sprintf "K%d,%s,%s,%s,%s=%s" (pidx p) (zs op) (zs fd) (zs evs) (zs d) (zs res)
  | NWaitL (p, evs) ->
    Printf.sprintf "Q%d[%s]" (pidx p) (String.concat "," (List.map (fun ((f, e), d) -> zs f ^ ":" ^ zs e ^ ":" ^ zs d) evs))
  | NRes (t, r, e) -> Printf.sprintf "T%s=%s/%s" (zs t) (zs r) (zs e)
  | NPollRet n -> "N=" ^ zs n
  | NUnknown d -> "U" ^ zs d
  | NMark -> "|"
let rec take n l = if n <= 0 then [] else match l with [] -> [] | x :: r -> x :: take (n - 1) r
let run_n steps =
  let s = run_ng (List.map parse_nstep (split_on ',' steps)) in
  let log = List.map show_nev (List.rev s.n_log) in
  let kl l = String.concat "," (List.map (fun e -> Printf.sprintf "%s:%s:%d:%s" (zs e.nk_fd) (zs e.nk_events) (if e.nk_armed then 1 else 0) (zs e.nk_data)) l) in
  let rem p = String.concat "," (List.map zs (take (int_of_z p.pl_rem) p.pl_ev)) in
  let blocked = List.filter_map (fun (t, w) -> match w with NWaiting _ -> Some (zs t) | _ -> None) s.n_thr in
  Printf.printf "log=%s k0=%s k1=%s k2=%s k3=%s rem=%s/%s/%s/%s blocked=%s now=%s stale=%d\n"
    (String.concat ";" log) (kl s.n_k.nk_e) (kl s.n_k.nk_r) (kl s.n_k.nk_w) (kl s.n_k.nk_x)
    (rem s.n_pe) (rem s.n_pr) (rem s.n_pw) (rem s.n_px)
    (String.concat "," blocked) (zs s.n_now) (if s.n_stale || s.n_misfire then 1 else 0)
let () =
  iter_lines Sys.argv.(1) (fun l ->
    match split_on ' ' l with
    | ["D"; opn; tmo; flags; lens; sys; wt] -> run_d opn tmo flags lens sys wt
    | ["E"; steps] -> run_e steps
    | ["N"; steps] -> run_n steps
    | "R" :: _ -> print_endline "R ok"      (* part 3 has no model: the real-kernel run feeds the property oracle only *)
    | _ -> print_endline "BADCASE")
