(* C01 spinlock model runner (E3 schedules): include after zutil.ml (and E2_lib.ml), before C01_run.ml.
   Case line:  S <tas|tkl|qsl> <bound> | <script 0> | ... | <script n-1> | <schedule>   (see harness/C01/spin_e3.cpp) *)
let sp_fnv (entries : string list) : string =
  let h = ref 0xcbf29ce484222325L in
  let feed c = h := Int64.mul (Int64.logxor !h (Int64.of_int (Char.code c))) 0x100000001b3L in
  List.iteri (fun k s -> if k > 0 then feed ' '; String.iter feed s) entries;
  Printf.sprintf "%016Lx" !h
let sp_schedule (s : string) : nat list =
  let l = ref [] in
  String.iter (fun c ->
    if c >= '0' && c <= '9' then l := nat_of_int (Char.code c - 48) :: !l
    else if c >= 'a' && c <= 'z' then l := nat_of_int (10 + Char.code c - 97) :: !l) s;
  List.rev !l
let sp_addr = function 0 -> "lock" | 1 -> "next" | 2 -> "serv" | 3 -> "tail" | 4 -> "hnext" | 5 -> "hgot" | _ -> "?"
let sp_ptr (v : z) : string = let i = int_of_z v in if i = 0 then "null" else Printf.sprintf "hnext[%d]" (i - 1)
let sp_fmt (p : nat) (o : obs) : string =
  let a = int_of_z o.o_addr in
  let nm = let i = int_of_z o.o_idx in if i >= 0 then Printf.sprintf "%s[%d]" (sp_addr a) i else sp_addr a in
  let v x = if a = 3 || a = 4 then sp_ptr x else string_of_z x in
  let pp = string_of_int (int_of_nat p) in
  match int_of_z o.o_kind with
  | 0 -> Printf.sprintf "%s.ld.%s.%s" pp nm (v o.o_v1)
  | 1 -> Printf.sprintf "%s.st.%s.%s" pp nm (v o.o_v1)
  | 2 -> Printf.sprintf "%s.xg.%s.%s.%s" pp nm (v o.o_v1) (v o.o_v2)
  | 3 -> Printf.sprintf "%s.cas.%s.%s.%s.%s.%s" pp nm (v o.o_v1) (v o.o_v2) (v o.o_v3) (string_of_z o.o_v4)
  | 4 -> Printf.sprintf "%s.fa.%s.%s.%s" pp nm (string_of_z o.o_v1) (string_of_z o.o_v2)
  | _ -> Printf.sprintf "%s.none" pp
let sp_script (kind : int) (s : string) : sop list option =
  let s = String.trim s in
  let s = if s = "-" then "" else s in
  let ok = ref true in
  let l = List.init (String.length s) (fun i ->
    match s.[i] with 'L' -> ALock | 'U' -> AUnlock | 'T' when kind <> 1 -> ATry | _ -> ok := false; ALock) in
  if !ok then Some l else None
let spin_line (line : string) : string =
  try
    let secs = String.split_on_char '|' line in
    let nsec = List.length secs in
    if nsec < 3 || nsec > 10 then "BADCASE" else
    let hd = List.filter (fun t -> t <> "") (String.split_on_char ' ' (String.trim (List.hd secs))) in
    match hd with
    | ["S"; k; b] ->
        let kind = (match k with "tas" -> 0 | "tkl" -> 1 | "qsl" -> 2 | _ -> -1) in
        let bound = int_of_string b in
        if kind < 0 || bound <= 0 then "BADCASE" else
        let mids = List.filteri (fun i _ -> i >= 1 && i < nsec - 1) secs in
        let scripts = List.map (sp_script kind) mids in
        if List.exists (fun o -> o = None) scripts then "BADCASE" else
        let scripts = List.map (function Some l -> l | None -> []) scripts in
        let sched = sp_schedule (String.trim (List.nth secs (nsec - 1))) in
        let fin log livelock =
          let entries = List.map (fun (p, o) -> sp_fmt p o) log in
          Printf.sprintf "steps=%d livelock=%d digest=%s log=%s" (List.length entries) (if livelock then 1 else 0)
            (sp_fnv entries) (String.concat " " entries) in
        (match kind with
         | 0 -> let ((_, log), ll) = tas_run (nat_of_int bound) scripts sched in fin log ll
         | 1 -> let ((_, log), ll) = tkl_run (nat_of_int bound) scripts sched in fin log ll
         | _ -> let ((_, log), ll) = qsl_run (nat_of_int bound) scripts sched in fin log ll)
    | _ -> "BADCASE"
  with _ -> "BADCASE"
