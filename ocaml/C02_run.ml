(* C02 model runner: E2 programs with semaphore ops (coq/C02/C02_Coop.v).  Included after zutil.ml
   and E2_lib.ml.  Lines starting with `P` are E2 programs. *)
let z0 = z_of_int 0
let sem_op_of (decls : e2_item list) ((name, a) as it : e2_item) : sem_op op option =
  let is_sem i = (match List.nth_opt decls (int_of_z i) with Some ("sem", _) -> true | _ -> false) in
  let i = e2_arg a 0 z0 in
  match name with
  | "sem_wait" | "sem_waiti" | "sem_signal" | "sem_count" | "sem_head" when not (is_sem i) -> None
  | "sem_wait" -> Some (OUser (SemWait (e2_nat i, e2_u64 (e2_arg a 1 z0), e2_u64 (e2_arg a 2 z0))))
  | "sem_waiti" -> Some (OUser (SemWaitI (e2_nat i, e2_u64 (e2_arg a 1 z0), e2_u64 (e2_arg a 2 z0))))
  | "sem_signal" -> Some (OUser (SemSignal (e2_nat i, e2_u64 (e2_arg a 1 z0))))
  | "sem_count" -> Some (OUser (SemCount (e2_nat i)))
  | "sem_head" -> Some (OUser (SemHead (e2_nat i)))
  | _ -> (match e2_core_op it with Some c -> Some (OCore c) | None -> None)
let () =
  iter_lines Sys.argv.(1) (fun l ->
    let (decls, ts) = e2_parse l in
    let ps = List.map (List.map (sem_op_of decls)) ts in
    if ps = [] || List.exists (List.exists (fun o -> o = None)) ps then print_endline "BADCASE"
    else begin
      let n = List.length ps in
      let u0 = List.map (fun (name, a) ->
          if name = "sem" then sem_init (e2_u64 (e2_arg a 0 z0)) (int_of_z (e2_arg a 1 (z_of_int 1)) <> 0) (nat_of_int n)
          else sem_init z0 true (nat_of_int n)) decls in
      print_endline (e2_show (sem_run e2_fuel (List.map (List.map (function Some o -> o | None -> OCore ONop)) ps) u0))
    end)
