(* model runner for C08 (include after zutil.ml and E2_lib.ml).
   `P ...` lines: the E2 program is run through the cooperative model (coq/C08/C08_Coop.v wp_run); the ghost log of
   C08_Model labels it produces is replayed through C08_Model.step — a rejected label turns the line into
   `AREJECT@k ...` (so the correspondence fails visibly).  Events of the thread slots used for pool-created
   photon threads (programs `wp_tt` / `wp_pt`) are not part of the observable trace.
   `A inline cap nowned njoin intr | l1 l2 ...` lines: a schedule of C08_Model labels run directly; prints the
   observation or REJECT@k. *)
let z0 = z_of_int 0
let wp_op_of (decls : e2_item list) ((name, a) as it : e2_item) : wp_op op option =
  let n i = e2_nat (e2_arg a i z0) in
  let rest k = let rec drop l k = if k = 0 then l else (match l with [] -> [] | _ :: r -> drop r (k - 1)) in drop a k in
  match name with
  | "wp_join" -> Some (OUser (WJoin (n 0)))
  | "wp_call" -> Some (OUser (WCall (n 0, n 1, rest 2)))
  | "wp_async" -> Some (OUser (WAsync (n 0, n 1, rest 2)))
  | "wp_destroy" -> Some (OUser (WDestroy (n 0, int_of_z (e2_arg a 1 z0) <> 0)))
  | "wp_tt" -> Some (OUser TT)
  | "wp_pt" -> Some (OUser PT)
  | _ -> (match e2_core_op it with Some c -> Some (OCore c) | None -> None)

let label_of_string (s : string) : label option =
  let w = split_on ':' s in
  let n i = nat_of_int (int_of_string (List.nth w i)) in
  let tgt i = let x = List.nth w i in if x = "-" then None else Some (nat_of_int (int_of_string x)) in
  try
    match List.hd w with
    | "submit" -> Some (LSubmit (List.nth w 1 = "1"))
    | "return" -> Some (LReturn (n 1)) | "intr" -> Some (LIntr (n 1))
    | "register" -> Some (LRegister (n 1)) | "recv" -> Some (LRecv (n 1))
    | "dispatch" -> Some (LDispatch (n 1)) | "yieldto" -> Some (LYieldTo (n 1))
    | "stop" -> Some (LStop (n 1)) | "drained" -> Some (LDrained (n 1))
    | "yield" -> Some (LYield (n 1, tgt 2))
    | "copy" -> Some (LCopy (n 1)) | "start" -> Some (LStart (n 1)) | "finish" -> Some (LFinish (n 1))
    | "signal" -> Some (LSignal (n 1)) | "delete" -> Some (LDelete (n 1))
    | "dec" -> Some (LDec (n 1, tgt 2))
    | "dbegin" -> Some LDBegin | "dpush" -> Some LDPush | "dfinal" -> Some LDFinal
    | _ -> None
  with _ -> None

let show_obs (((tasks, (((bc, uaf), bcnt), ruaf)), ddone)) : string =
  let b x = if x then "1" else "0" in
  let t ((((r, f), d), s), rt) = Printf.sprintf "%d.%d.%d.%s.%s" (int_of_nat r) (int_of_nat f) (int_of_nat d) (b s) (b rt) in
  Printf.sprintf "tasks=%s badcopy=%s uaf=%s badcount=%s ringuaf=%s destroyed=%s"
    (if tasks = [] then "-" else String.concat "," (List.map t tasks)) (b bc) (b uaf) (b bcnt) (b ruaf) (b ddone)

let run_A (line : string) : string =
  match String.split_on_char '|' (String.sub line 1 (String.length line - 1)) with
  | [cfg; sched] ->
      (match List.filter (fun s -> s <> "") (split_on ' ' (String.trim cfg)) with
       | [inl; cap; nown; njoin; intr] ->
           let s0 = modelA_init (inl = "1") (nat_of_int (int_of_string cap)) (nat_of_int (int_of_string nown))
                      (nat_of_int (int_of_string njoin)) (intr = "1") in
           let ls = List.map label_of_string (List.filter (fun s -> s <> "") (split_on ' ' (String.trim sched))) in
           if List.exists (fun o -> o = None) ls then "BADCASE" else
           (match replay_prefix s0 (List.map (function Some l -> l | None -> LDBegin) ls) (nat_of_int 0) with
            | Inl k -> Printf.sprintf "REJECT@%d" (int_of_nat k)
            | Inr s -> show_obs (modelA_obs s))
       | _ -> "BADCASE")
  | _ -> "BADCASE"

let run_P (l : string) : string =
  let (decls, ts) = e2_parse l in
  let ps = List.map (List.map (wp_op_of decls)) ts in
  if ps = [] || List.exists (List.exists (fun o -> o = None)) ps then "BADCASE" else
  let ps = List.map (List.map (function Some o -> o | None -> OCore ONop)) ps in
  let (has_pool, mode, ring) =
    (match decls with
     | ("wp", a) :: _ -> (true, e2_arg a 0 (z_of_int (-1)), e2_nat (e2_arg a 1 (z_of_int 4)))
     | _ -> (false, z_of_int (-1), nat_of_int 4)) in
  let u0 = u_init (nat_of_int 0) has_pool mode ring in
  let ((res, alog), (cap, ndisp)) = wp_run (nat_of_int 150000) ps u0 in
  let ((((tr, bl), now), ended), stuck) = res in
  let is_slot k = (match List.nth_opt ps (int_of_nat k) with Some [OUser TT] | Some [OUser PT] -> true | _ -> false) in
  let tr' = List.filter (fun e -> not (is_slot e.ev_tid)) tr in
  let bl' = List.filter (fun (k, _) -> not (is_slot k)) bl in
  let line = e2_show ((((tr', bl'), now), ended), stuck) in
  let inline_mode = BigZ.sign (big_of_z mode) < 0 in
  (match replay_prefix (modelA_init inline_mode cap (nat_of_int 0) ndisp false) alog (nat_of_int 0) with
   | Inl k -> Printf.sprintf "AREJECT@%d/%d %s" (int_of_nat k) (List.length alog) line
   | Inr _ -> line)

let () =
  iter_lines Sys.argv.(1) (fun l ->
    if String.length l > 0 && l.[0] = 'A' then print_endline (run_A l) else print_endline (run_P l))
