(* C13 runner.  Case lines (tokens separated by one space; hex strings, "-" = empty):
     B <partial> <remain> <err> <stream> <frag> <reads>        BodyReadStream
     C <cap> <partial> <err> <stream> <frag> <reads>            ChunkedBodyReadStream
     W <size> <budget> <writes>                                 BodyWriteStream
     X <budget> <writes>                                        ChunkedBodyWriteStream (+close)
     R <payload> <wfrag> <plen> <frag> <reads>                  chunked writer -> chunked reader
     M <Q|S> <cap> <fill> <verb> <err> <msg> <frag> <reads>     Request/Response receive_header + body read
   frag / reads: "-" or "a,b,c" or "a,b,c*" (cyclic).
   One output line per case (same format as harness/C13/harness.cpp). *)
let ztab = Array.init 256 (fun i -> z_of_int i)
let zb i = ztab.(i)
let hexval c = match c with
  | '0'..'9' -> Char.code c - 48 | 'a'..'f' -> Char.code c - 87 | 'A'..'F' -> Char.code c - 55
  | _ -> failwith "hex"
let bytes_of_hex (s : string) : z list =
  if s = "-" || s = "_" then [] else begin
    let n = String.length s / 2 in
    let r = ref [] in
    for i = n - 1 downto 0 do
      r := zb (hexval s.[2*i] * 16 + hexval s.[2*i+1]) :: !r
    done; !r end
let hexdig = "0123456789abcdef"
let hex_of_bytes (l : z list) : string =
  if l = [] then "-" else begin
    let b = Buffer.create 256 in
    List.iter (fun z -> let i = int_of_z z land 255 in
                Buffer.add_char b hexdig.[i lsr 4]; Buffer.add_char b hexdig.[i land 15]) l;
    Buffer.contents b end
(* spec -> (sizes, cyclic) *)
let parse_spec (s : string) : int list * bool =
  if s = "-" then ([], false) else begin
    let cyc = s.[String.length s - 1] = '*' in
    let s = if cyc then String.sub s 0 (String.length s - 1) else s in
    (List.map int_of_string (split_on ',' s), cyc) end
let rec take n l = if n <= 0 then [] else match l with [] -> [] | x :: t -> x :: take (n-1) t
let rec drop n l = if n <= 0 then l else match l with [] -> [] | _ :: t -> drop (n-1) t
let split_frag (data : z list) (spec : string) : z list list =
  let (sizes, cyc) = parse_spec spec in
  let rec go data cur acc =
    if data = [] then List.rev acc else
    match cur with
    | [] -> if cyc && sizes <> [] && List.exists (fun x -> x > 0) sizes then go data sizes acc
            else List.rev (data :: acc)
    | n :: t -> if n <= 0 then go data t acc
                else go (drop n data) t (take n data :: acc)
  in go data sizes []
let step_bound = 20000
(* run reads: f count -> (ret:int, bytes) ; returns the output string *)
let run_reads (spec : string) (rd : int -> (int * z list) option) : string =
  let (sizes, cyc) = parse_spec spec in
  let b = Buffer.create 256 in
  let stop = ref false in
  let one n =
    if not !stop then
    match rd n with
    | None -> Buffer.add_string b "OOR;"; stop := true; (-1)
    | Some (r, bs) ->
      Buffer.add_string b (Printf.sprintf "%d:%s;" r (if r > 0 then hex_of_bytes bs else "-")); r
    else (-1) in
  if sizes = [] then ()
  else if not cyc then List.iter (fun n -> ignore (one n)) sizes
  else begin
    let steps = ref 0 in
    let cur = ref sizes in
    let fin = ref false in
    while not !fin && not !stop do
      (match !cur with [] -> cur := sizes | _ -> ());
      let n = List.hd !cur in cur := List.tl !cur;
      let r = one n in
      incr steps;
      if r <= 0 then fin := true
      else if !steps >= step_bound then (Buffer.add_string b "STEPBOUND;"; stop := true)
    done;
    if not !stop then ignore (one (List.hd sizes))
  end;
  Buffer.contents b
let bool_of s = s <> "0"
let b2s b = if b then "1" else "0"
let pr (a, b) = Printf.sprintf "%s,%s" (string_of_z a) (string_of_z b)

let chunked_tail (st : crs) =
  Printf.sprintf "rest=%s fin=%s closed=%s close=%s" (string_of_z (total_len st.c_ps))
    (b2s st.c_finish) (b2s st.c_closed) (string_of_z (crs_close st))

let run_chunked cap partial err pieces reads =
  let st = ref (crs_init cap partial pieces err) in
  let fuel = crs_fuel !st in
  let out = run_reads reads (fun n ->
    match crs_read_f fuel !st (z_of_int n) with
    | None -> None
    | Some ((r, bs), s') -> st := s'; Some (int_of_z r, bs)) in
  Printf.sprintf "%s %s" out (chunked_tail !st)

let writes_of s = if s = "-" then [] else List.map bytes_of_hex (String.split_on_char ',' s)

let () =
  iter_lines Sys.argv.(1) (fun l ->
    (match String.split_on_char ' ' l with
    | ["B"; partial; remain; err; stream; frag; reads] ->
      let st = ref (brs_init (bytes_of_hex partial) (z_of_string remain)
                      (split_frag (bytes_of_hex stream) frag) (bool_of err)) in
      let out = run_reads reads (fun n ->
        let ((r, bs), s') = brs_read !st (z_of_int n) in st := s'; Some (int_of_z r, bs)) in
      let (cd, n) = brs_close_decision !st in
      Printf.printf "B %s rest=%s close=%s\n" out (string_of_z (total_len !st.b_ps))
        (match cd with Some r -> string_of_z r | None -> "skip:" ^ string_of_z n)
    | ["C"; cap; partial; err; stream; frag; reads] ->
      Printf.printf "C %s\n" (run_chunked (z_of_string cap) (bytes_of_hex partial) (bool_of err)
                                (split_frag (bytes_of_hex stream) frag) reads)
    | ["W"; size; budget; writes] ->
      let st = ref { bw_size = z_of_string size; bw_cnt = z_of_int 0;
                     bw_sock = { w_out = []; w_budget = z_of_string budget } } in
      let b = Buffer.create 64 in
      List.iter (fun w -> let (r, s') = bws_write !st w in st := s';
                  Buffer.add_string b (string_of_z r ^ ";")) (writes_of writes);
      Printf.printf "W %s out=%s\n" (Buffer.contents b) (hex_of_bytes !st.bw_sock.w_out)
    | ["X"; budget; writes] ->
      let st = ref { cw_finish = false; cw_sock = { w_out = []; w_budget = z_of_string budget } } in
      let b = Buffer.create 64 in
      List.iter (fun w -> let (r, s') = cws_write !st w in st := s';
                  Buffer.add_string b (string_of_z r ^ ";")) (writes_of writes);
      let (r, s') = cws_close !st in
      Printf.printf "X %s close=%s out=%s\n" (Buffer.contents b) (string_of_z r) (hex_of_bytes s'.cw_sock.w_out)
    | ["R"; payload; wfrag; plen; frag; reads] ->
      let st = ref { cw_finish = false; cw_sock = { w_out = []; w_budget = z_of_string "1000000000" } } in
      List.iter (fun w -> let (_, s') = cws_write !st w in st := s') (split_frag (bytes_of_hex payload) wfrag);
      let (_, s') = cws_close !st in
      let wire = s'.cw_sock.w_out in
      let plen = min (int_of_string plen) (List.length wire) in
      let cap = max 4096 plen in
      Printf.printf "R wire=%s %s\n" (hex_of_bytes wire)
        (run_chunked (z_of_int cap) (take plen wire) false (split_frag (drop plen wire) frag) reads)
    | ["M"; kind; cap; fill; verb; err; m; frag; reads] ->
      let m0 = msg_init (kind = "Q") (z_of_string cap) (z_of_string fill) (z_of_string verb) in
      let ps = split_frag (bytes_of_hex m) frag in
      let err = bool_of err in
      (match receive_header (rh_fuel ps) m0 ps err with
       | None -> print_string "M OOR\n"
       | Some ((ret, m1), ps1) ->
         let parsed = int_of_z m1.m_status = 3 in
         let fields () =
           let h = m1.m_hdrs in
           Printf.sprintf " verb=%s tgt=%s ver=%s code=%s sm=%s body=%s ab=%s hoff=%s kv=%d[%s] chunked=%s bsize=%s"
             (string_of_z m1.m_verb) (pr m1.m_target) (pr m1.m_version) (string_of_z m1.m_code) (pr m1.m_stmsg)
             (pr m1.m_body) (b2s m1.m_abandon) (string_of_z m1.m_hoff) (List.length h.h_kv)
             (String.concat ";" (List.map (fun (((a, b), c), d) ->
                Printf.sprintf "%s,%s,%s,%s" (string_of_z a) (string_of_z b) (string_of_z c) (string_of_z d)) h.h_kv))
             (b2s (h_chunked h)) (match body_size m1 with None -> "OOR" | Some n -> string_of_z n) in
         if int_of_z ret <> 0 then
           Printf.printf "M rh=%s%s rest=%s\n" (string_of_z ret) (if parsed then fields () else "") (string_of_z (total_len ps1))
         else
           (match prepare_body_read_stream m1 ps1 err with
            | None -> Printf.printf "M rh=OOR%s\n" (fields ())
            | Some (r, None) -> Printf.printf "M rh=%s%s rest=%s\n" (string_of_z r) (fields ()) (string_of_z (total_len ps1))
            | Some (r, Some bs0) ->
              let st = ref bs0 in
              let fuel = bs_fuel bs0 in
              let out = run_reads reads (fun n ->
                match bs_read_f fuel !st (z_of_int n) with
                | None -> None
                | Some ((r, o), s') -> st := s'; Some (int_of_z r, o)) in
              Printf.printf "M rh=%s%s %s rest=%s\n" (string_of_z r) (fields ()) out (string_of_z (bs_rest !st))))
    | _ -> print_endline "BADCASE");
    flush stdout)
