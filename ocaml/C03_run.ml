(* C03 runner: E2 program lines
     P <decls> | <ops of T0> | <ops of T1> | ...
   decls: `c3mutex` | `c3spin` | `c3cv` (object i = i-th decl); ops: see harness/C03/ops_c03.cpp.
   Output (same format as harness/E2/e2_main.cpp):
     tr=<k>.<pc>:<ret>/<errno>@<now>,... blocked=<k>.<pc>,... end=<now> *)
let zs = string_of_z
let trim = String.trim
let items sec =
  let t = trim sec in
  if t = "" || t = "-" then [] else
  List.map (fun p -> List.filter (fun x -> x <> "") (String.split_on_char ' ' (trim p))) (String.split_on_char ';' t)
let u64 s = (* args are signed decimals; -1 = 2^64-1 *)
  let b = BigZ.of_string s in
  if BigZ.sign b < 0 then z_of_big (BigZ.add b (BigZ.shift_left BigZ.one 64)) else z_of_big b
let nat s = nat_of_int (int_of_string s)
let parse_op = function
  | ["nop"] -> ONop
  | ["yield"] -> OYield
  | ["usleep"; t] -> OSleep (u64 t)
  | ["create"; k; _] | ["create"; k] -> OCreate (nat k)
  | ["interrupt"; k; e] -> OInterrupt (nat k, z_of_string e)
  | ["c3lock"; l] -> OLock (nat l)
  | ["c3unlock"; l] -> OUnlock (nat l)
  | ["c3wait"; c; l; t] -> OWait (nat c, nat l, u64 t)
  | ["c3n1"; c] -> ONotifyOne (nat c)
  | ["c3nall"; c] -> ONotifyAll (nat c)
  | _ -> failwith "bad op"
let rec nth_or l i d = match l with [] -> d | x :: r -> if i = 0 then x else nth_or r (i - 1) d
let () =
  iter_lines Sys.argv.(1) (fun line ->
    try
      if line.[0] <> 'P' then failwith "bad";
      let secs = String.split_on_char '|' (String.sub line 1 (String.length line - 1)) in
      (match secs with
       | d :: ts when ts <> [] ->
         let kinds = List.map (function ["c3spin"] -> KSpin | ["c3mutex"] | ["c3cv"] -> KMutex | _ -> failwith "bad decl") (items d) in
         let progs = List.map (fun s -> List.map parse_op (items s)) ts in
         let n = List.length progs in
         let kf l = nth_or kinds (int_of_nat l) KMutex in
         let pf t = nth_or progs (int_of_nat t) [] in
         let (((tr, bl), nw), f) = run_coop (nat_of_int 200000) (nat_of_int n) kf pf in
         let evs = List.map (fun e -> Printf.sprintf "%d.%d:%s/%s@%s" (int_of_nat e.ev_t) (int_of_nat e.ev_i) (zs e.ev_ret) (zs e.ev_err) (zs e.ev_now)) tr in
         let bls = List.map (fun (k, i) -> Printf.sprintf "%d.%d" (int_of_nat k) (int_of_nat i)) bl in
         let pre = (match f with FEnd -> "" | FStuck -> "HANG " | FFuel -> "FUEL ") in
         Printf.printf "%str=%s blocked=%s end=%s\n" pre
           (if evs = [] then "-" else String.concat "," evs)
           (if bls = [] then "-" else String.concat "," bls) (zs nw)
       | _ -> failwith "bad")
    with _ -> print_endline "BADCASE")
