(* C20 runner.  Case lines (strings are 'x' followed by the hex of their bytes, so the
   empty string is "x"):
     <op> <st><xa> x<base> x<path1> x<path2>
         op  = open open3 creat mkdir rmdir symlink readlink link rename unlink chmod chown
               lchown opendir stat lstat access truncate statfs statvfs utime utimes lutimes
               mknod getxattr lgetxattr listxattr llistxattr setxattr lsetxattr removexattr
               lremovexattr
         st  = d | f | e   what the underlay's stat(base) answers: directory / regular file / error
         xa  = x | n       the underlay implements IFileSystemXAttr / does not
     LV  x<path>      path_level_valid(path) of the code under test (the repaired function)
     LVP x<path>      the PRE-FIX function (model side: level_valid_prefix); only meaningful
                      against a tree without C20-fix-level-valid.diff
   One output line per case (same format as harness/C20/harness.cpp):
     NOFS | NOCALL | <underlay-op> <arg> [<arg>]      arg = NULL | x<hex>
     lv=T | lv=F *)
let ops = [
  "open", Open; "open3", Open3; "creat", Creat; "mkdir", Mkdir; "rmdir", Rmdir; "symlink", Symlink;
  "readlink", Readlink; "link", Link; "rename", Rename; "unlink", Unlink; "chmod", Chmod;
  "chown", Chown; "lchown", Lchown; "opendir", Opendir; "stat", Stat; "lstat", Lstat;
  "access", Access; "truncate", Truncate; "statfs", Statfs; "statvfs", Statvfs; "utime", Utime;
  "utimes", Utimes; "lutimes", Lutimes; "mknod", Mknod; "getxattr", Getxattr; "lgetxattr", Lgetxattr;
  "listxattr", Listxattr; "llistxattr", Llistxattr; "setxattr", Setxattr; "lsetxattr", Lsetxattr;
  "removexattr", Removexattr; "lremovexattr", Lremovexattr ]
let op_name o = fst (List.find (fun (_, c) -> c = o) ops)

let small = Array.init 256 z_of_int
let unhex (s : string) : z list =
  if String.length s < 1 || s.[0] <> 'x' || String.length s mod 2 <> 1 then failwith "bad string";
  let n = (String.length s - 1) / 2 in
  List.init n (fun i -> small.(int_of_string ("0x" ^ String.sub s (1 + 2 * i) 2)))
let hex (l : z list) : string =
  let b = Buffer.create (1 + 2 * List.length l) in
  Buffer.add_char b 'x';
  List.iter (fun c -> Buffer.add_string b (Printf.sprintf "%02x" (int_of_z c land 255))) l;
  Buffer.contents b
let arg = function PNull -> "NULL" | PStr s -> hex s
let lv = function LvTrue -> "lv=T" | LvFalse -> "lv=F" | LvFuel -> "lv=FUEL" | LvOverflow -> "lv=OVERFLOW"
let show = function
  | NoFs -> "NOFS"
  | InitUndefined -> "INIT-UB"
  | Ran NoCall -> "NOCALL"
  | Ran (CallError e) -> "ERROR " ^ lv e
  | Ran (Call (o, args)) -> String.concat " " (op_name o :: List.map arg args)
let () =
  iter_lines Sys.argv.(1) (fun l ->
    print_endline (
      try
        match split_on ' ' l with
        | ["LV"; p] -> lv (level_valid (unhex p))
        | ["LVP"; p] -> lv (level_valid_prefix (unhex p))
        | [o; fl; b; p1; p2] when String.length fl = 2 ->
          let st = (match fl.[0] with 'd' -> StatDir | 'f' -> StatNotDir | 'e' -> StatFail | _ -> failwith "st") in
          let xa = (match fl.[1] with 'x' -> true | 'n' -> false | _ -> failwith "xa") in
          show (run_case st xa (unhex b) (List.assoc o ops) (unhex p1) (unhex p2))
        | _ -> "BADCASE"
      with _ -> "BADCASE"))
