(* C07 model runner (engine E3).  Case line (fields separated by " | "):
     <kind> <capreq> <start> <bound> <flags> | <script 0> | ... | <script n-1> | <schedule>
   kind   spsc | mpmc | bmpmc | chan
   script space-separated ops: u<v> push  o pop  s<v> send  r recv  U<v>,<v>.. push_batch  O<n> pop_batch  - (empty)
   schedule  one base-36 digit per entry (entry = participant + n*flavor)
   flags  - | full (append the whole step log)
   One output line per case, same format as harness/C07/harness.cpp. *)

(* ---------- E3 helpers (copy this block into the runner of any other E3 property) ---------- *)
let fnv_digest (entries : string list) : string =
  let h = ref 0xcbf29ce484222325L in
  let feed c = h := Int64.mul (Int64.logxor !h (Int64.of_int (Char.code c))) 0x100000001b3L in
  List.iteri (fun k s -> if k > 0 then feed ' '; String.iter feed s) entries;
  Printf.sprintf "%016Lx" !h
let parse_schedule (s : string) : nat list =
  let l = ref [] in
  String.iter (fun c ->
    if c >= '0' && c <= '9' then l := nat_of_int (Char.code c - 48) :: !l
    else if c >= 'a' && c <= 'z' then l := nat_of_int (10 + Char.code c - 97) :: !l) s;
  List.rev !l
(* one log entry from an observation; addr_name : class -> string ; user_name : code -> string *)
let fmt_obs (addr_name : int -> string) (user_name : int -> string) (p : nat) (o : obs) : string =
  let z = string_of_z in
  let a () =
    let nm = addr_name (int_of_z o.o_addr) in
    let i = int_of_z o.o_idx in
    if i >= 0 then Printf.sprintf "%s[%d]" nm i else nm in
  let pp = string_of_int (int_of_nat p) in
  let done_mark = if int_of_z o.o_kind <> 3 && int_of_z o.o_v4 = 1 then "!" else "" in
  (fun s -> s ^ done_mark) @@
  match int_of_z o.o_kind with
  | 0 -> Printf.sprintf "%s.ld.%s.%s" pp (a ()) (z o.o_v1)
  | 1 -> Printf.sprintf "%s.st.%s.%s" pp (a ()) (z o.o_v1)
  | 2 -> Printf.sprintf "%s.xg.%s.%s.%s" pp (a ()) (z o.o_v1) (z o.o_v2)
  | 3 -> Printf.sprintf "%s.cas.%s.%s.%s.%s.%s" pp (a ()) (z o.o_v1) (z o.o_v2) (z o.o_v3) (z o.o_v4)
  | 4 -> Printf.sprintf "%s.fa.%s.%s.%s" pp (a ()) (z o.o_v1) (z o.o_v2)
  | 5 -> Printf.sprintf "%s.fs.%s.%s.%s" pp (a ()) (z o.o_v1) (z o.o_v2)
  | 6 -> Printf.sprintf "%s.fo.%s.%s.%s" pp (a ()) (z o.o_v1) (z o.o_v2)
  | 7 -> Printf.sprintf "%s.fn.%s.%s.%s" pp (a ()) (z o.o_v1) (z o.o_v2)
  | 8 -> Printf.sprintf "%s.sp" pp
  | 9 -> (match int_of_z o.o_idx with
          | 0 -> Printf.sprintf "%s.%s" pp (user_name (int_of_z o.o_addr))
          | 1 -> Printf.sprintf "%s.%s.%s" pp (user_name (int_of_z o.o_addr)) (z o.o_v1)
          | _ -> Printf.sprintf "%s.%s.%s.%s" pp (user_name (int_of_z o.o_addr)) (z o.o_v1) (z o.o_v2))
  | _ -> Printf.sprintf "%s.none" pp
(* ---------- end of E3 helpers ---------------------------------------------------------------- *)

let addr_name = function
  | 0 -> "head" | 1 -> "tail" | 2 -> "mark" | 3 -> "whead" | 4 -> "rtail"
  | 5 -> "idler" | 6 -> "pending" | 7 -> "swait" | 8 -> "spend" | _ -> "?"
let user_name = function
  | 0 -> "semwait" | 1 -> "semsig" | 2 -> "yield" | 3 -> "ssemwait" | 4 -> "ssemsig" | 5 -> "qpush" | 6 -> "qpop" | _ -> "?"

let parse_op (tok : string) : op =
  let arg () = String.sub tok 1 (String.length tok - 1) in
  match tok.[0] with
  | 'u' -> OPush (z_of_string (arg ()))
  | 'o' -> OPop
  | 's' -> OSend (z_of_string (arg ()))
  | 'r' -> ORecv
  | 'U' -> OPushB (List.map z_of_string (split_on ',' (arg ())))
  | 'O' -> OPopB (z_of_string (arg ()))
  | _ -> failwith "bad op"
let parse_script (s : string) : op list =
  List.map parse_op (List.filter (fun t -> t <> "-") (split_on ' ' s))

let show_res (r : res) : string = match r with
  | RPushOk (_, _) -> "1" | RPushFail -> "0" | RPopOk (_, v) -> string_of_z v | RPopFail -> "-"
  | RSent (_, _) -> "s" | RRecv (_, v) -> string_of_z v
  | RPushB (_, ws) -> string_of_int (List.length ws)
  | RPopB (_, vs) -> "[" ^ String.concat "," (List.map string_of_z vs) ^ "]"
let show_thr (pc_none : bool) (rs : res list) : string =
  String.concat "," (List.map show_res (List.rev rs)) ^ (if pc_none then "" else "*")
let rec range a b = if a >= b then [] else a :: range (a + 1) b
let zl (f : z -> z) (cap : int) : string =
  String.concat "," (List.map (fun j -> string_of_z (f (z_of_int j))) (range 0 cap))

let out cap log livelock res final full =
  let entries = log in
  Printf.printf "cap=%d steps=%d %s log=%s res=%s final=%s%s\n" cap (List.length entries)
    (if livelock then "livelock" else "ok") (fnv_digest entries) res final
    (if full then " LOG " ^ String.concat " " entries else "")

let () =
  iter_lines Sys.argv.(1) (fun line ->
    try
      let fields = List.map String.trim (String.split_on_char '|' line) in
      let hd, rest = List.hd fields, List.tl fields in
      let scripts_s, sched_s =
        let r = List.rev rest in List.rev (List.tl r), List.hd r in
      (match split_on ' ' hd with
       | [kind; capreq; start; bound; flags] ->
         let c = cfg_of (z_of_string capreq) in
         let cap = int_of_z c.c_cap in
         let scripts = List.map parse_script scripts_s in
         let n = List.length scripts in
         let sched = parse_schedule sched_s in
         let bound = nat_of_int (int_of_string bound) in
         let start = z_of_string start in
         let full = (flags = "full") in
         let fmt l = List.map (fun (p, o) -> fmt_obs addr_name user_name p o) l in
         (match kind with
          | "spsc" ->
            let ((st, log), ll) = spsc_run c bound sched start scripts in
            let res = String.concat "|" (List.map (fun p -> let th = st.s_thr (nat_of_int p) in show_thr (th.t_pc = None) th.t_res) (range 0 n)) in
            out cap (fmt log) ll res
              (Printf.sprintf "h=%s,t=%s,d=%s" (string_of_z st.s_head) (string_of_z st.s_tail) (zl st.s_slot cap)) full
          | "mpmc" ->
            let ((st, log), ll) = mpmc_run c bound sched start scripts in
            let res = String.concat "|" (List.map (fun p -> let th = st.m_thr (nat_of_int p) in show_thr (th.t_pc = None) th.t_res) (range 0 n)) in
            out cap (fmt log) ll res
              (Printf.sprintf "h=%s,t=%s,m=%s,d=%s" (string_of_z st.m_head) (string_of_z st.m_tail) (zl st.m_mark cap) (zl st.m_slot cap)) full
          | "bmpmc" ->
            let ((st, log), ll) = batch_run c bound sched start scripts in
            let res = String.concat "|" (List.map (fun p -> let th = st.b_thr (nat_of_int p) in show_thr (th.t_pc = None) th.t_res) (range 0 n)) in
            out cap (fmt log) ll res
              (Printf.sprintf "h=%s,t=%s,wh=%s,rt=%s,d=%s" (string_of_z st.b_head) (string_of_z st.b_tail) (string_of_z st.b_whead) (string_of_z st.b_rtail) (zl st.b_slot cap)) full
          | "chan" ->
            (* capreq = capacity request, "start" field = yield_turn *)
            let ((st, log), ll) = chan_run c.c_cap start bound sched scripts in
            let res = String.concat "|" (List.map (fun p -> let th = st.c_thr (nat_of_int p) in show_thr (th.t_pc = None) th.t_res) (range 0 n)) in
            out cap (fmt log) ll res
              (Printf.sprintf "q=%s,idler=%s,pend=%s,sw=%s,sp=%s,qsem=%s,ssem=%s" (String.concat ":" (List.map string_of_z st.c_q))
                 (string_of_z st.c_idler) (string_of_z st.c_pending) (string_of_z st.c_swait) (string_of_z st.c_spend)
                 (string_of_z st.c_qsem) (string_of_z st.c_ssem)) full
          | _ -> print_endline "BADKIND")
       | _ -> print_endline "BADCASE")
    with e -> print_endline ("BADCASE " ^ Printexc.to_string e))
