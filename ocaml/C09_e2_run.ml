(* C09 E2 runner: include after zutil.ml and E2_lib.ml.  One channel per case: decl 0 = `chan cap [fx]`. *)
let chan_op_of ((name, a) as it : e2_item) : chan_op op option =
  let z0 = z_of_int 0 in
  let m1 = z_of_int (-1) in
  let is0 = (int_of_z (e2_arg a 0 z0) = 0) in
  match name with
  | "send" when is0 -> Some (OUser (CSend (e2_u64 (e2_arg a 1 m1))))
  | "recv" when is0 -> Some (OUser (CRecv (e2_u64 (e2_arg a 1 m1))))
  | "try_send" when is0 -> Some (OUser CTrySend)
  | "try_recv" when is0 -> Some (OUser CTryRecv)
  | "close" when is0 -> Some (OUser CClose)
  | _ -> (match e2_core_op it with Some c -> Some (OCore c) | None -> None)
let () =
  iter_lines Sys.argv.(1) (fun l ->
    let (decls, ts) = e2_parse l in
    match decls with
    | [("chan", a)] ->
        let cap = e2_arg a 0 (z_of_int 0) in
        let fx = int_of_z (e2_arg a 1 (z_of_int 0)) <> 0 in
        let ps = List.map (List.map chan_op_of) ts in
        if ps = [] || List.exists (List.exists (fun o -> o = None)) ps then print_endline "BADCASE"
        else print_endline (e2_show (chan_run e2_fuel cap fx (List.map (List.map (function Some o -> o | None -> OCore ONop)) ps)))
    | _ -> print_endline "BADCASE")
