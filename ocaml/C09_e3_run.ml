(* C09 E3 runner.  ops: S R s r C, T<d> = send with Timeout(d), A = advance the harness clock by 200.
   case:  E[x] <cap> | <script p0> | <script p1> | .. | <model schedule: one digit per entry = thread id>
   output: <e3 schedule> res=..|.. blocked=.. q=.. closed=.. sw=.. rw=.. ssem=.. rsem=..   (format of harness/C09/e3_chan.cpp) *)
let max64 = z_of_string "18446744073709551615"
let parse_op w = match w.[0] with
  | 'T' -> OSend (z_of_string (String.sub w 1 (String.length w - 1)))   (* send with Timeout(d) *)
  | 'A' -> OYield                                                       (* clock participant: now += 200 *)
  | 'S' -> OSend max64 | 'R' -> ORecv max64 | 's' -> OTrySend | 'r' -> OTryRecv | 'C' -> OClose | _ -> failwith "op"
let digit c = if c >= '0' && c <= '9' then Char.code c - 48 else 10 + Char.code c - 97
let () =
  iter_lines Sys.argv.(1) (fun l ->
    try
      let secs = String.split_on_char '|' l in
      let hd = List.hd secs in
      let rest = List.tl secs in
      let nsec = List.length rest in
      let scripts = List.filteri (fun i _ -> i < nsec - 1) rest in
      let ms = String.trim (List.nth rest (nsec - 1)) in
      (match split_on ' ' hd with
       | [k; c] when k = "E" || k = "Ex" ->
           let ps = List.map (fun s -> List.map parse_op (split_on ' ' s)) scripts in
           let msl = List.map (fun c -> nat_of_int (digit c)) (List.init (String.length ms) (String.get ms)) in
           let r = e3_expand (k = "Ex") (z_of_string c) ps msl in
           let dig t = let i = int_of_nat t in if i < 10 then String.make 1 (Char.chr (48 + i)) else String.make 1 (Char.chr (87 + i)) in
           let sched = String.concat "" (List.map dig r.r_sched) in
           let res = String.concat "|" (List.map (fun l -> String.concat "," (List.map string_of_z l)) r.r_res) in
           let bl = if r.r_blocked = [] then "-" else String.concat "," (List.map (fun t -> string_of_int (int_of_nat t)) r.r_blocked) in
           Printf.printf "%s res=%s blocked=%s q=%d closed=%d sw=%s rw=%s ssem=%s rsem=%s\n"
             (if sched = "" then "-" else sched) res bl (int_of_nat r.r_q) (if r.r_closed then 1 else 0)
             (string_of_z r.r_sw) (string_of_z r.r_rw) (string_of_z r.r_ssem) (string_of_z r.r_rsem)
       | _ -> print_endline "BADCASE")
    with _ -> print_endline "BADCASE")
