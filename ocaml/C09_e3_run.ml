(* C09 E3 runner.  ops: S R s r C, T<d> = send with Timeout(d), V<d> = recv with Timeout(d), A = advance the harness clock by 200.
   case:  E[x] <cap> | <script p0> | <script p1> | .. | <model schedule: one digit per entry = thread id>
   output: <e3 schedule> res=..|.. blocked=.. q=.. closed=.. sw=.. rw=.. ssem=.. rsem=..   (format of harness/C09/e3_chan.cpp)
   case:  Ux | <script p0> | .. | <model schedule: one base-36 digit per entry e: thread e mod n, e / n = 1: its timer fires>
   output: <e3 schedule> res=..|.. blocked=.. slot=<v|-1> closed=.. sw=.. rw=.. seq=.. scv=<p,..|-> rcv=<p,..|-> mtx=<p|->
           (UNBUFFERED channel, coq/C09/C09_E3U.v, format of harness/C09/e3_uchan.cpp) *)
let max64 = z_of_string "18446744073709551615"
let parse_op w = match w.[0] with
  | 'T' -> OSend (z_of_string (String.sub w 1 (String.length w - 1)))   (* send with Timeout(d) *)
  | 'V' -> ORecv (z_of_string (String.sub w 1 (String.length w - 1)))   (* recv with Timeout(d) *)
  | 'A' -> OYield                                                       (* clock participant: now += 200 *)
  | 'S' -> OSend max64 | 'R' -> ORecv max64 | 's' -> OTrySend | 'r' -> OTryRecv | 'C' -> OClose | _ -> failwith "op"
let digit c = if c >= '0' && c <= '9' then Char.code c - 48 else 10 + Char.code c - 97
let () =
  iter_lines Sys.argv.(1) (fun l ->
    try
      let secs = String.split_on_char '|' l in
      let hd = List.hd secs in
      let rest = List.tl secs in
      let nsec = List.length rest in
      let scripts = List.filteri (fun i _ -> i < nsec - 1) rest in
      let ms = String.trim (List.nth rest (nsec - 1)) in
      (match split_on ' ' hd with
       | [k; c] when k = "E" || k = "Ex" ->
           let ps = List.map (fun s -> List.map parse_op (split_on ' ' s)) scripts in
           let msl = List.map (fun c -> nat_of_int (digit c)) (List.init (String.length ms) (String.get ms)) in
           let r = e3_expand (k = "Ex") (z_of_string c) ps msl in
           let dig t = let i = int_of_nat t in if i < 10 then String.make 1 (Char.chr (48 + i)) else String.make 1 (Char.chr (87 + i)) in
           let sched = String.concat "" (List.map dig r.r_sched) in
           let res = String.concat "|" (List.map (fun l -> String.concat "," (List.map string_of_z l)) r.r_res) in
           let bl = if r.r_blocked = [] then "-" else String.concat "," (List.map (fun t -> string_of_int (int_of_nat t)) r.r_blocked) in
           Printf.printf "%s res=%s blocked=%s q=%d closed=%d sw=%s rw=%s ssem=%s rsem=%s\n"
             (if sched = "" then "-" else sched) res bl (int_of_nat r.r_q) (if r.r_closed then 1 else 0)
             (string_of_z r.r_sw) (string_of_z r.r_rw) (string_of_z r.r_ssem) (string_of_z r.r_rsem)
       | [k] when k = "Ux" ->
           let ps = List.map (fun s -> List.map parse_op (split_on ' ' s)) scripts in
           let msl = List.map (fun c -> nat_of_int (digit c)) (List.init (String.length ms) (String.get ms)) in
           let r = e3u_expand ps msl in
           let dig t = let i = int_of_nat t in if i < 10 then String.make 1 (Char.chr (48 + i)) else String.make 1 (Char.chr (87 + i)) in
           let sched = String.concat "" (List.map dig r.ur_sched) in
           let res = String.concat "|" (List.map (fun l -> String.concat "," (List.map string_of_z l)) r.ur_res) in
           let tl l = if l = [] then "-" else String.concat "," (List.map (fun t -> string_of_int (int_of_nat t)) l) in
           Printf.printf "%s res=%s blocked=%s slot=%s closed=%d sw=%s rw=%s seq=%d scv=%s rcv=%s mtx=%s\n"
             (if sched = "" then "-" else sched) res (tl r.ur_blocked) (string_of_z r.ur_slot) (if r.ur_closed then 1 else 0)
             (string_of_z r.ur_sw) (string_of_z r.ur_rw) (int_of_nat r.ur_seq) (tl r.ur_scv) (tl r.ur_rcv)
             (match r.ur_mtx with Some t -> string_of_int (int_of_nat t) | None -> "-")
       | [k; d; lim] when k = "UxN" ->
           (* enumeration: every model-level schedule of at most d entries in which EVERY entry is enabled (thread steps
              and timer firings), i.e. every path of length <= d of the model's transition system from the initial state
              (shorter only if nobody can move); at most lim words.  Output: ENUM w1 w2 .. *)
           let ps = List.map (fun s -> List.map parse_op (split_on ' ' s)) scripts in
           let n = List.length ps in
           let nn = nat_of_int n in
           let s0 = u_init (fun t -> nth t ps []) (z_of_string "0") in
           let dig i = if i < 10 then String.make 1 (Char.chr (48 + i)) else String.make 1 (Char.chr (87 + i)) in
           let out = Buffer.create 65536 and cnt = ref 0 and lim = int_of_string lim in
           let rec go s d pref =
             if !cnt >= lim then () else begin
               let moves = List.filter_map (fun e ->
                 match uentry nn s (nat_of_int (e mod n)) (nat_of_int (e / n)) with
                 | Some (s', _) -> Some (e, s') | None -> None) (List.init (2 * n) (fun e -> e)) in
               if d = 0 || moves = [] then begin
                 Buffer.add_char out ' '; Buffer.add_string out (if pref = "" then "-" else pref); incr cnt end
               else List.iter (fun (e, s') -> go s' (d - 1) (pref ^ dig e)) moves
             end in
           go s0 (int_of_string d) "";
           print_endline ("ENUM" ^ Buffer.contents out)
       | _ -> print_endline "BADCASE")
    with _ -> print_endline "BADCASE")
