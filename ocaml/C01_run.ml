(* C01 model runner (E2 programs): include after zutil.ml and E2_lib.ml.
   decls: mutex r c | seq_mutex | rmutex r c ; ops: lock i t, try_lock i, unlock i, rlock i t,
   rtry_lock i, runlock i, musleep t, myield, minterrupt k e, + the core ops. *)
let c01_cfgs (decls : e2_item list) =
  let z0 = z_of_int 0 in
  List.map (fun (name, a) ->
    match name with
    | "mutex" -> ((e2_nat (e2_arg a 0 (z_of_int 100)), int_of_z (e2_arg a 1 z0) <> 0), false)
    | "seq_mutex" -> ((nat_of_int 0, false), false)
    | "rmutex" -> ((e2_nat (e2_arg a 0 (z_of_int 100)), int_of_z (e2_arg a 1 z0) <> 0), true)
    | _ -> ((nat_of_int 0, false), false)) decls
let c01_op (decls : e2_item list) ((name, a) as it : e2_item) : mop op option =
  let z0 = z_of_int 0 in
  let kind i = (match List.nth_opt decls (int_of_z i) with
                | Some ("mutex", _) | Some ("seq_mutex", _) -> 1 | Some ("rmutex", _) -> 2 | _ -> 0) in
  let i = e2_arg a 0 z0 in
  let skip = Some (OCore (OState (nat_of_int 99))) in   (* a core op that is SKIPPED (-2/0) *)
  let obj k f = if BigZ.sign (big_of_z i) >= 0 && kind i = k then Some (OUser (f (e2_nat i))) else skip in
  match name with
  | "lock" -> obj 1 (fun m -> MLock (m, e2_u64 (e2_arg a 1 z0)))
  | "try_lock" -> obj 1 (fun m -> MTryLock m)
  | "unlock" -> obj 1 (fun m -> MUnlock m)
  | "rlock" -> obj 2 (fun m -> MRLock (m, e2_u64 (e2_arg a 1 z0)))
  | "rtry_lock" -> obj 2 (fun m -> MRTryLock m)
  | "runlock" -> obj 2 (fun m -> MRUnlock m)
  | "musleep" -> Some (OUser (MSleep (e2_u64 (e2_arg a 0 z0))))
  | "myield" -> Some (OUser MYield)
  | "minterrupt" ->
      let k = e2_arg a 0 z0 in
      if BigZ.sign (big_of_z k) < 0 then skip
      else Some (OUser (MInterrupt (e2_nat k, e2_arg a 1 (z_of_int 4))))
  | _ -> (match e2_core_op it with Some c -> Some (OCore c) | None -> None)
let () =
  iter_lines Sys.argv.(1) (fun l ->
    if String.length l > 0 && l.[0] = 'S' then print_endline (spin_line l) else
    if String.length l = 0 || l.[0] <> 'P' then print_endline "BADCASE" else
    let (decls, ts) = e2_parse l in
    let known = List.for_all (fun (n, _) -> n = "mutex" || n = "seq_mutex" || n = "rmutex") decls in
    let ps = List.map (List.map (c01_op decls)) ts in
    if ps = [] || not known || List.exists (List.exists (fun o -> o = None)) ps then print_endline "BADCASE"
    else print_endline (e2_show (c01_run e2_fuel (c01_cfgs decls)
                                   (List.map (List.map (function Some o -> o | None -> OCore ONop)) ps))))
