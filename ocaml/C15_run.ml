(* C15 runner.  Case lines:
     F <off> <len> <iv>         range_split
     P <off> <len> <iv>         range_split_power2
     V <off> <len> <k0,k1,...>  range_split_vi
   One output line per case (same format as harness/C15/harness.cpp). *)
let fuel = nat_of_int 4096
let sub s = Printf.sprintf "%s,%s,%s" (string_of_z s.s_i) (string_of_z s.s_off) (string_of_z s.s_len)
let parts = function
  | None -> "RUNAWAY"
  | Some l -> Printf.sprintf "%d[%s]" (List.length l) (String.concat ";" (List.map sub l))
let show rp =
  let r = rp.rp_rs in
  Printf.printf "ab=%s ae=%s apb=%s ape=%s br=%s er=%s small=%s pre=%s first=%s post=%s all=%s aligned=%s abo=%s aeo=%s\n"
    (string_of_z r.r_abegin) (string_of_z r.r_aend) (string_of_z r.r_apbegin) (string_of_z r.r_apend)
    (string_of_z r.r_brem) (string_of_z r.r_erem)
    (sub r.r_small) (sub r.r_preface) (sub r.r_first) (sub r.r_postface)
    (parts rp.rp_all) (parts rp.rp_aligned) (string_of_z rp.rp_abo) (string_of_z rp.rp_aeo)
let () =
  iter_lines Sys.argv.(1) (fun l ->
    match split_on ' ' l with
    | ["F"; o; n; iv] -> show (run_fixed fuel (z_of_string o) (z_of_string n) (z_of_string iv))
    | ["P"; o; n; iv] -> show (run_p2 fuel (z_of_string o) (z_of_string n) (z_of_string iv))
    | ["V"; o; n; kp] -> show (run_vi fuel (z_of_string o) (z_of_string n) (List.map z_of_string (split_on ',' kp)))
    | _ -> print_endline "BADCASE")
