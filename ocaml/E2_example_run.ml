(* runner of the worked example (coq/Sched/Example.v): include after zutil.ml and E2_lib.ml *)
let example_op (decls : e2_item list) ((name, a) as it : e2_item) : cv_op op option =
  let z0 = z_of_int 0 in
  let is_cv i = (match List.nth_opt decls (int_of_z i) with Some ("cv", _) -> true | _ -> false) in
  match name with
  | "cv_wait" when is_cv (e2_arg a 0 z0) -> Some (OUser (CvWait (e2_nat (e2_arg a 0 z0), e2_u64 (e2_arg a 1 z0))))
  | "cv_notify" when is_cv (e2_arg a 0 z0) -> Some (OUser (CvNotify (e2_nat (e2_arg a 0 z0))))
  | "cv_notify_all" when is_cv (e2_arg a 0 z0) -> Some (OUser (CvNotifyAll (e2_nat (e2_arg a 0 z0))))
  | _ -> (match e2_core_op it with Some c -> Some (OCore c) | None -> None)
let () =
  iter_lines Sys.argv.(1) (fun l ->
    let (decls, ts) = e2_parse l in
    let ps = List.map (List.map (example_op decls)) ts in
    if ps = [] || List.exists (List.exists (fun o -> o = None)) ps then print_endline "BADCASE"
    else print_endline (e2_show (cv_run e2_fuel (List.map (List.map (function Some o -> o | None -> OCore ONop)) ps))))
