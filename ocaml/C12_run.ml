(* C12 runner.  Case lines (tokens separated by one space):
     S <cfg> <type> <shape> <bodyregion> <regions>
     D <cfg> <type> <shape> <reserve_front> <regions> <iov> <ops>
   cfg     five 0/1 flags (fix_zero_ptr fix_fail_len fix_nested_al fix_anchor fix_sv)
   shape   <size>:<C|P>:[<off>@<kind>,...]   kinds F<n> B S X<n> A R<esz>[..] I J N[..] M<vsz>[..]
   regions hex;hex;...  ('.' = empty region, '~' = none)
   iov     r:off:len,...  ('~' = none)           ops  '~' | '~x' (none; x marks an altered copy of a valid checked stream, for the oracle) | I | F:<hexkey> (comma separated)
   One output line per case, same format as harness/C12/harness.cpp. *)
let rec int_of_pos p = match p with XH -> 1 | XO q -> 2 * int_of_pos q | XI q -> 2 * int_of_pos q + 1
let sint = function Z0 -> 0 | Zpos p -> int_of_pos p | Zneg p -> - (int_of_pos p)
let ztab = Array.init 256 z_of_int
let hexv c = match c with '0'..'9' -> Char.code c - 48 | 'a'..'f' -> Char.code c - 87 | 'A'..'F' -> Char.code c - 55 | _ -> failwith "hex"
let unhex (s : string) : z list =
  if s = "." || s = "~" then [] else
  let n = String.length s / 2 in
  List.init n (fun i -> ztab.(16 * hexv s.[2*i] + hexv s.[2*i+1]))
let hexd = "0123456789abcdef"
let hex (l : z list) : string =
  let b = Buffer.create 64 in
  List.iter (fun x -> let v = sint x in Buffer.add_char b hexd.[(v lsr 4) land 15]; Buffer.add_char b hexd.[v land 15]) l;
  Buffer.contents b
let zs = string_of_z

(* ---- shape parser ---- *)
let parse_shape (s : string) : shape =
  let pos = ref 0 in
  let peek () = s.[!pos] in
  let adv () = incr pos in
  let num () = let st = !pos in while !pos < String.length s && peek () >= '0' && peek () <= '9' do adv () done;
    z_of_string (String.sub s st (!pos - st)) in
  let rec fields () : fields =
    if peek () <> '[' then failwith "shape: [" else adv ();
    let rec go () =
      if peek () = ']' then (adv (); FNil) else begin
        let off = num () in
        if peek () <> '@' then failwith "shape: @" else adv ();
        let k = peek () in adv ();
        let f = match k with
          | 'F' -> FFixed (num ())
          | 'B' -> FBuf | 'S' -> FStr | 'A' -> FABuf | 'I' -> FIov | 'J' -> FAIov
          | 'X' -> FFixBuf (num ())
          | 'R' -> let e = num () in let fs = fields () in FArr (e, fs)
          | 'N' -> FNest (fields ())
          | 'M' -> let e = num () in let fs = fields () in FMap (e, fs)
          | _ -> failwith "shape: kind" in
        if peek () = ',' then adv ();
        let r = go () in FCons (off, f, r) end in
    go () in
  let size = num () in adv ();
  let checked = (peek () = 'C') in adv (); adv ();
  let fs = fields () in
  { sh_size = size; sh_checked = checked; sh_fields = fs }

let parse_cfg (s : string) : cfg =
  let b i = s.[i] = '1' in
  { fix_zero_ptr = b 0; fix_fail_len = b 1; fix_nested_al = b 2; fix_anchor = b 3; fix_sv = b 4 }

let parse_regions (s : string) : z list list =
  if s = "~" then [] else List.map unhex (String.split_on_char ';' s)

let memdump (m : z list list) = "[" ^ String.concat "|" (List.map hex m) ^ "]"
let iovdump (v : iovs) =
  zs v.i_beg ^ ":[" ^ String.concat ";" (List.map (fun (b, l) -> zs b ^ "," ^ zs l) v.i_el) ^ "]"

let rec show_item (it : item) : string = match it with
  | IFix bs -> "F(" ^ hex bs ^ ")"
  | IBuf (p, n, bs) -> "B(" ^ zs p ^ "," ^ zs n ^ "," ^ hex bs ^ ")"
  | IStr (p, n, bs, svn, sv) -> "S(" ^ zs p ^ "," ^ zs n ^ "," ^ hex bs ^ "," ^ zs svn ^ "," ^ hex sv ^ ")"
  | IArr (p, n, bs, es) -> "A(" ^ zs p ^ "," ^ zs n ^ "," ^ hex bs ^ ",[" ^ String.concat "" (List.map (fun e -> "{" ^ show_items e ^ "}") es) ^ "])"
  | IIov (p, n, s, parts) -> "I(" ^ zs p ^ "," ^ zs n ^ "," ^ zs s ^ ",[" ^
      String.concat ";" (List.map (fun ((b, l), d) -> zs b ^ "," ^ zs l ^ "," ^ hex d) parts) ^ "])"
  | INest its -> "N{" ^ show_items its ^ "}"
  | IMap (ip, inn, ibs, bp, bn, bbs) -> "M(" ^ zs ip ^ "," ^ zs inn ^ "," ^ hex ibs ^ "," ^ zs bp ^ "," ^ zs bn ^ "," ^ hex bbs ^ ")"
and show_items its = String.concat "," (List.map show_item its)

exception Trap
let ok = function Ok a -> a | Err _ -> raise Trap
let h = crc32c_step

let rec find_map (fs : fields) : (z * z * fields) option = match fs with
  | FNil -> None
  | FCons (off, FMap (vsz, vfs), _) -> Some (off, vsz, vfs)
  | FCons (_, _, r) -> find_map r

let z32 = z_of_int 32
let show_pair c m vfs ((kp, kn), vb) =
  let (sp, sn) = sv_of c kp kn in
  let sv = ok (load m sp sn) in
  let m' = m @ [vb] in
  let its = ok (w_fields c vfs m' (region_base (len m))) in
  "k(" ^ zs kp ^ "," ^ zs kn ^ "," ^ zs sn ^ "," ^ hex sv ^ ")v{" ^ show_items its ^ "}"

let run_ops c sh m t (ops : string) : string * z list list =
  match find_map sh.sh_fields with
  | None -> ("-", m)
  | Some (off, vsz, vfs) ->
    let a = BigZ.add (big_of_z t) (big_of_z off) |> z_of_big in
    let mem = ref m in
    let default = ((Z0, Z0), zeros vsz) in
    let cnt () = let inn = ok (load64 !mem (z_of_big (BigZ.add (big_of_z a) (BigZ.of_int 8)))) in BigZ.to_int (BigZ.div (big_of_z inn) (BigZ.of_int 32)) in
    let outs = List.map (fun op ->
      if op = "I" then begin
        let n = cnt () in
        let pair = ref default in
        let parts = ref [] in
        for i = 0 to n - 1 do
          let (m', p') = ok (map_deref h c vsz vfs !mem a (z_of_int i) !pair) in
          mem := m'; pair := p';
          parts := show_pair c !mem vfs p' :: !parts
        done;
        "I[" ^ String.concat ";" (List.rev !parts) ^ "]"
      end else begin
        let key = unhex (String.sub op 2 (String.length op - 2)) in
        let pos = ok (map_find c !mem a key) in
        let n = cnt () in
        if sint pos = n then "F(end)" else begin
          let (m', p') = ok (map_deref h c vsz vfs !mem a pos default) in
          mem := m';
          "F(" ^ zs pos ^ "," ^ show_pair c !mem vfs p' ^ ")"
        end
      end) (String.split_on_char ',' ops) in
    (String.concat "," outs, !mem)

let () =
  iter_lines Sys.argv.(1) (fun l ->
    let out =
      try
        match String.split_on_char ' ' l with
        | ["S"; cfg; _; shape; br; regions] ->
            let c = parse_cfg cfg and sh = parse_shape shape and m = parse_regions regions in
            let st = ok (serialize h c sh m (region_base (z_of_string br))) in
            Printf.sprintf "full=%d iov=%s mem=%s" (if st.s_full then 1 else 0) (iovdump st.s_iov) (memdump st.s_mem)
        | ["D"; cfg; _; shape; rf; regions; iov; ops] ->
            let c = parse_cfg cfg and sh = parse_shape shape and m = parse_regions regions in
            let el = if iov = "~" then [] else List.map (fun e ->
              match String.split_on_char ':' e with
              | [r; o; n] -> (z_of_big (BigZ.add (big_of_z (region_base (z_of_string r))) (BigZ.of_string o)), z_of_string n)
              | _ -> failwith "iov") (String.split_on_char ',' iov) in
            let v = { i_beg = z_of_string rf; i_el = el; i_nb = Z0; i_cap = z32 } in
            let (t, st) = ok (deserialize h c sh m v) in
            let head = Printf.sprintf "ret=%s failed=%d iov=%s nb=%s mem=%s" (zs t) (if st.d_failed then 1 else 0)
                         (iovdump st.d_iov) (zs st.d_iov.i_nb) (memdump st.d_mem) in
            if t = Z0 then head ^ " walk=- ops=- mem2=-" else begin
              let its = ok (w_fields c sh.sh_fields st.d_mem t) in
              if ops.[0] = '~' then head ^ " walk=" ^ show_items its ^ " ops=- mem2=-"
              else begin
                let (o, m2) = run_ops c sh st.d_mem t ops in
                head ^ " walk=" ^ show_items its ^ " ops=" ^ o ^ " mem2=" ^ memdump m2
              end
            end
        | _ -> "BADCASE"
      with Trap -> "TRAP" in
    print_endline out)
