(* C04 (part A) model-runner fragment: the sleep-queue heap.
   `run_heap_line line` takes a case line
        H <n> <op> <op> ...     op = u<t>:<d> (HPush t d) | f (HPopFront) | o<t> (HPop t)
   and returns the output line, in exactly the format of harness/C04/heap_harness.cpp:
        q=<t0,t1,...> idx=<i0,...,i(n-1)> r=<r0,r1,...>        (+ " BAD" when hbad is set)
   Uses the extracted `hops_run`, `hstate_init`, `hobs`, `HPush/HPopFront/HPop`; numerals go
   through zutil.ml (`z_of_string`, `string_of_z`, `nat_of_int`, `int_of_nat`). *)
let heap_parse_op (n : int) (tok : string) : hop option =
  let len = String.length tok in
  if len = 0 then None
  else match tok.[0] with
    | 'f' -> if len = 1 then Some HPopFront else None
    | 'o' ->
        (match int_of_string_opt (String.sub tok 1 (len - 1)) with
         | Some t when t >= 0 && t < n -> Some (HPop (nat_of_int t))
         | _ -> None)
    | 'u' ->
        (match String.index_opt tok ':' with
         | None -> None
         | Some c ->
             (match int_of_string_opt (String.sub tok 1 (c - 1)) with
              | Some t when t >= 0 && t < n ->
                  Some (HPush (nat_of_int t, z_of_string (String.sub tok (c + 1) (len - c - 1))))
              | _ -> None))
    | _ -> None

let run_heap_line (line : string) : string =
  match split_on ' ' line with
  | "H" :: ns :: ops ->
      (match int_of_string_opt ns with
       | None -> "BADCASE"
       | Some n ->
           let parsed = List.map (heap_parse_op n) ops in
           if List.exists (fun o -> o = None) parsed then "BADCASE"
           else
             let l = List.map (function Some o -> o | None -> HPopFront) parsed in
             let (s, rs) = hops_run hstate_init l [] in
             let ((q, idx), bad) = hobs (nat_of_int n) s in
             Printf.sprintf "q=%s idx=%s r=%s%s"
               (String.concat "," (List.map (fun t -> string_of_int (int_of_nat t)) q))
               (String.concat "," (List.map string_of_z idx))
               (String.concat "," (List.map string_of_z rs))
               (if bad then " BAD" else ""))
  | _ -> "BADCASE"
