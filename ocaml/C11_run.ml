(* C11 runner.  Case line (see harness/C11/harness.cpp):
     K <fix> | start,tmo,req,cap ; ... | H,tag,size ; B,n,seed ; X,hex ; ... | t,n ; ... ; t,E
   One output line per case, same format as the harness. *)
let vstart = 1000
let max64 = z_of_string "18446744073709551615"
let trim = String.trim
let zu s = let s = trim s in if s = "-1" then max64 else z_of_string s
let put_le (v : BigZ.t) n =
  List.init n (fun i -> BigZ.to_int (BigZ.logand (BigZ.shift_right v (8 * i)) (BigZ.of_int 255)))
let magic = BigZ.of_string "0x87de5d02e6ab95c7"
let wire_of (sec : string) : int list =
  if trim sec = "-" then [] else
  List.concat_map (fun it ->
    match List.map trim (String.split_on_char ',' (trim it)) with
    | ["H"; tag; size] ->
        put_le magic 8 @ put_le BigZ.zero 4 @ put_le (BigZ.of_string size) 4 @ put_le BigZ.zero 8
        @ put_le (BigZ.of_string tag) 8 @ put_le BigZ.zero 8
    | ["B"; n; seed] -> let n = int_of_string n and seed = int_of_string seed in List.init n (fun j -> (seed + j) mod 251)
    | ["X"; hx] -> List.init (String.length hx / 2) (fun j -> int_of_string ("0x" ^ String.sub hx (2 * j) 2))
    | _ -> failwith "wire") (String.split_on_char ';' sec)
let rec take n l = if n <= 0 then [] else match l with [] -> [] | x :: r -> x :: take (n - 1) r
let rec drop n l = if n <= 0 then l else match l with [] -> [] | _ :: r -> drop (n - 1) r
let script_of (wire : int list) (sec : string) : sev list =
  if trim sec = "-" then [] else
  let rest = ref wire in
  List.map (fun it ->
    match List.map trim (String.split_on_char ',' (trim it)) with
    | [t; "E"] -> SEof (z_of_big (BigZ.add (BigZ.of_int vstart) (BigZ.of_string t)))
    | [t; n] ->
        let n = int_of_string n in
        let bs = take n !rest in
        rest := drop n !rest;
        SData (z_of_big (BigZ.add (BigZ.of_int vstart) (BigZ.of_string t)), List.map z_of_int bs)
    | _ -> failwith "delivery") (String.split_on_char ';' sec)
let calls_of (sec : string) : call list =
  List.map (fun it ->
    match List.map trim (String.split_on_char ',' (trim it)) with
    | [st; tmo; req; _cap] -> { k_start = zu st; k_tmo = zu tmo; k_req = zu req }
    | _ -> failwith "calls") (String.split_on_char ';' sec)
let i n = int_of_nat n
let zs = string_of_z
let hex l = if l = [] then "-" else String.concat "" (List.map (fun b -> Printf.sprintf "%02x" (int_of_z b)) l)
let show_ev = function
  | TvWrite (t, tag, size, ret, now) -> Printf.sprintf "W%d:%s:%s:%s@%s" (i t) (zs tag) (zs size) (zs ret) (zs now)
  | TvHdr (t, tmo, ret, now) -> Printf.sprintf "H%d:%s:%s@%s" (i t) (zs tmo) (zs ret) (zs now)
  | TvChunk (t, o, dead, n, now) -> Printf.sprintf "C%d:%d:%d:%d@%s" (i t) (i o) (if dead then 1 else 0) (i n) (zs now)
  | TvBody (t, o, dead, tmo, ret, now) ->
      Printf.sprintf "B%d:%d:%d:%s:%s@%s" (i t) (match o with Some o -> i o | None -> -1) (if dead then 1 else 0) (zs tmo) (zs ret) (zs now)
  | TvShut (t, now) -> Printf.sprintf "X%d@%s" (i t) (zs now)
  | TvRet (t, ret, e, pl, now) -> Printf.sprintf "E%d:%s/%s:%s@%s" (i t) (zs ret) (zs e) (hex pl) (zs now)
let () =
  iter_lines Sys.argv.(1) (fun l ->
    try
      match String.split_on_char '|' l with
      | [h; cs; w; d] ->
          let h = trim h in
          let fix = (String.length h >= 3 && h.[2] = '1') in
          let calls = calls_of cs in
          let wire = wire_of w in
          let script = script_of wire d in
          let r = run_case fix calls script (nat_of_int 100000) (nat_of_int 100000) in
          let s = r.d_st in
          let evs = List.rev_map show_ev s.s_trace in
          let k = List.length calls in
          let blocked = List.filter (fun t -> match (s.s_thr (nat_of_int t)).t_pc with PDone -> false | _ -> true) (List.init k (fun x -> x)) in
          Printf.printf "%s%s Q=%d blocked=%s end=%s\n"
            (if s.s_bad || r.d_fail then "BAD " else "")
            (if evs = [] then "-" else String.concat " " evs)
            (List.length s.s_map)
            (if blocked = [] then "-" else String.concat "," (List.map string_of_int blocked))
            (zs s.s_now)
      | _ -> print_endline "BADCASE"
    with _ -> print_endline "BADCASE")
