(* C17 runner.  Case lines:
     RM <ops|-> <queries|->     ops = a:l:r,r:l:r,f:o,c     queries = l:r,l:r
       -> one S[...] per op (state after it), then one Q(a,b) per query on the final state.
     RD tne=.. page=.. unit=.. pool=.. tp=.. maxr=.. thr=.. refilling=.. src=<hex> actual=.. filled=.. media=<hex>
        td=.. sor=.. wor=.. ops=<op,op,..>
       op = R/off/seg+seg/held/flags | E/off/cnt | T | P/off/cnt
       -> one token per op `ret:ubufhex:events`, then the final store. *)
let zs = string_of_z
let show_ivs m = String.concat ";" (List.map (fun (s, e) -> zs s ^ "-" ^ zs e) m)
let show_map m = "S[" ^ show_ivs m ^ "]"
let parse_op s = match split_on ':' s with
  | ["a"; l; r] -> RAdd (z_of_string l, z_of_string r)
  | ["r"; l; r] -> RRemove (z_of_string l, z_of_string r)
  | ["f"; o] -> RRemoveFrom (z_of_string o)
  | ["c"] -> RClear
  | _ -> failwith "bad op"
let list_of s = if s = "-" then [] else split_on ',' s
let run_rm ops qs =
  let ops = List.map parse_op (list_of ops) in
  let tr = rm_trace [] ops in
  let fin = rm_run ops in
  let qo = List.map (fun q -> match split_on ':' q with
    | [l; r] -> let (a, b) = queryRefillRange fin (z_of_string l) (z_of_string r) in "Q(" ^ zs a ^ "," ^ zs b ^ ")"
    | _ -> failwith "bad query") (list_of qs) in
  print_endline (String.concat " " (List.map show_map tr @ qo))

(* ---- RD ---- *)
let unhex s = if s = "-" then [] else
  List.init (String.length s / 2) (fun i -> z_of_int (int_of_string ("0x" ^ String.sub s (2 * i) 2)))
let hex l = if l = [] then "-" else String.concat "" (List.map (fun b -> Printf.sprintf "%02x" (int_of_z b)) l)
let parse_outcomes s = if s = "-" then [] else List.map (fun t ->
  if t = "k" then OOk else if t = "f" then OFail
  else OShort (z_of_string (String.sub t 1 (String.length t - 1)))) (split_on ',' s)
let parse_filled s = if s = "-" then [] else List.map (fun iv ->
  match split_on '-' iv with [a; b] -> (z_of_string a, z_of_string b) | _ -> failwith "bad iv") (split_on ';' s)
let parse_held s = if s = "-" then [] else List.map (fun h ->
  match split_on ':' h with [o; l; f] -> ((z_of_string o, z_of_string l), f = "1") | _ -> failwith "bad held") (split_on ';' s)
let parse_rdop s = match String.split_on_char '/' s with
  | ["R"; off; segs; held; flags] ->
      let vs = List.fold_left (fun a x -> a + int_of_string x) 0 (String.split_on_char '+' segs) in
      OpRead (z_of_string off, z_of_int vs, parse_held held, String.contains flags 'c', String.contains flags 's')
  | ["E"; off; cnt] -> OpEvict (z_of_string off, z_of_string cnt)
  | ["T"] -> OpEvictAll
  | ["P"; off; cnt] -> OpPrefetch (z_of_string off, z_of_string cnt)
  | _ -> failwith ("bad rd op " ^ s)
let show_ev = function
  | EvStat r -> "st" ^ zs r
  | EvSrc (o, l, r) -> "sr" ^ zs o ^ "/" ^ zs l ^ "/" ^ zs r
  | EvMedR (o, l, r) -> "mr" ^ zs o ^ "/" ^ zs l ^ "/" ^ zs r
  | EvMedW (o, l, r) -> "mw" ^ zs o ^ "/" ^ zs l ^ "/" ^ zs r
  | EvMedT l -> "mt" ^ zs l
  | EvPunch (o, l) -> "ph" ^ zs o ^ "/" ^ zs l
  | EvWait -> "wt"
  | EvRet r -> "rt" ^ zs r
let run_rd kvs =
  let tbl = Hashtbl.create 16 in
  List.iter (fun kv -> match String.index_opt kv '=' with
    | Some i -> Hashtbl.replace tbl (String.sub kv 0 i) (String.sub kv (i + 1) (String.length kv - i - 1))
    | None -> ()) kvs;
  let g k = Hashtbl.find tbl k in
  let gz k = z_of_string (g k) in
  let cfg = { c_page = gz "page"; c_unit = gz "unit"; c_pool = (g "pool" = "1"); c_tp = (g "tp" = "1");
              c_maxr = gz "maxr"; c_thr = gz "thr"; c_tne = (try g "tne" = "1" with Not_found -> false) } in
  let st = { s_actual = gz "actual"; s_filled = parse_filled (g "filled"); s_media = unhex (g "media");
             s_td = (g "td" = "1"); s_refilling = gz "refilling" } in
  let w = { w_st = st; w_sor = parse_outcomes (g "sor"); w_wor = parse_outcomes (g "wor"); w_ubuf = [];
            w_held = []; w_pending = []; w_log = [] } in
  let ops = List.map parse_rdop (split_on ',' (g "ops")) in
  let (rs, w2) = run_ops (unhex (g "src")) cfg w ops in
  let toks = List.map (fun ((r, ub), log) -> zs r ^ ":" ^ hex ub ^ ":" ^ (if log = [] then "-" else String.concat "," (List.map show_ev log))) rs in
  let s2 = w2.w_st in
  print_endline (String.concat " " toks ^ " ST actual=" ^ zs s2.s_actual ^ " filled=[" ^ show_ivs s2.s_filled ^ "] media=" ^ hex s2.s_media
                 ^ " td=" ^ (if s2.s_td then "1" else "0") ^ " refilling=" ^ zs s2.s_refilling)
let () =
  iter_lines Sys.argv.(1) (fun l ->
    match split_on ' ' l with
    | ["RM"; ops; qs] -> run_rm ops qs
    | "RD" :: kvs -> (try run_rd kvs with Failure m -> print_endline ("BADCASE " ^ m) | Not_found -> print_endline "BADCASE missing key")
    | _ -> print_endline "BADCASE")
