(* C17 runner.  Case lines:
     RM <ops|-> <queries|->     ops = a:l:r,r:l:r,f:o,c     queries = l:r,l:r
   Output: one S[...] per op (state after it), then one Q(a,b) per query on the final state. *)
let zs = string_of_z
let show_map m = "S[" ^ String.concat ";" (List.map (fun (s, e) -> zs s ^ "-" ^ zs e) m) ^ "]"
let parse_op s = match split_on ':' s with
  | ["a"; l; r] -> RAdd (z_of_string l, z_of_string r)
  | ["r"; l; r] -> RRemove (z_of_string l, z_of_string r)
  | ["f"; o] -> RRemoveFrom (z_of_string o)
  | ["c"] -> RClear
  | _ -> failwith "bad op"
let list_of s = if s = "-" then [] else split_on ',' s
let run_rm ops qs =
  let ops = List.map parse_op (list_of ops) in
  let tr = rm_trace [] ops in
  let fin = rm_run ops in
  let qo = List.map (fun q -> match split_on ':' q with
    | [l; r] -> let (a, b) = queryRefillRange fin (z_of_string l) (z_of_string r) in "Q(" ^ zs a ^ "," ^ zs b ^ ")"
    | _ -> failwith "bad query") (list_of qs) in
  print_endline (String.concat " " (List.map show_map tr @ qo))
let () =
  iter_lines Sys.argv.(1) (fun l ->
    match split_on ' ' l with
    | ["RM"; ops; qs] -> run_rm ops qs
    | _ -> print_endline "BADCASE")
