(* C04 model runner: `P` lines = E2 programs over the core ops (Sched/Prog.v core_run);
   `H` lines = sleep-queue heap op sequences (C04_Heap.v), see ocaml/C04_heap_run.ml.
   The check concatenates E2_lib.ml + C04_heap_run.ml + this file. *)
let run_prog_line (l : string) : string =
  let (_, ts) = e2_parse l in
  let conv t = List.map e2_core_op t in
  let ps = List.map conv ts in
  if ps = [] || List.exists (List.exists (fun o -> o = None)) ps then "BADCASE"
  else
    let ps = List.map (List.map (function Some o -> o | None -> ONop)) ps in
    e2_show (core_run e2_fuel ps)
let () =
  iter_lines Sys.argv.(1) (fun l ->
    let out =
      try
        if String.length l > 0 && l.[0] = 'P' then run_prog_line l
        else if String.length l > 0 && l.[0] = 'H' then run_heap_line l
        else "BADCASE"
      with e -> "EXN " ^ Printexc.to_string e in
    print_endline out)
