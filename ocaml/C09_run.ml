(* C09 runner.  Case lines (same as harness/C09/harness.cpp):
     U[x] | ops | ops ...        unbuffered; "Ux" = the repaired go.h (fx = true)
     B[x] <cap> | ops | ...      buffered
   ops: S<d> R<d> (d = n | decimal) s r C Y.   The "x" suffix is added by checks/C09.py when the
   tree under test contains the repair; the C++ harness ignores it. *)
let max64 = z_of_string "18446744073709551615"
let parse_op w =
  let d s = if s = "n" then max64 else z_of_string s in
  match w.[0] with
  | 'S' -> OSend (d (String.sub w 1 (String.length w - 1)))
  | 'R' -> ORecv (d (String.sub w 1 (String.length w - 1)))
  | 's' -> OTrySend | 'r' -> OTryRecv | 'C' -> OClose | 'Y' -> OYield
  | _ -> failwith "op"
let kchar = function KSend -> 'S' | KRecv -> 'R' | KTrySend -> 's' | KTryRecv -> 'r' | KClose -> 'C' | KYield -> 'Y'
let show_ev e =
  let base = Printf.sprintf "%d.%c.%s" (int_of_nat e.e_t) (kchar e.e_k) (string_of_z (res_code e.e_r)) in
  match e.e_v with
  | Some (a, b) when (match e.e_k with KRecv | KTryRecv -> e.e_r = ROk | _ -> true) ->
      Printf.sprintf "%s.%d.%d" base (int_of_nat a) (int_of_nat b)
  | _ -> base
let show ((evs, blocked), exhausted) =
  if exhausted then print_endline "FUEL" else begin
    let a = if evs = [] then "-" else String.concat " " (List.map show_ev evs) in
    let b = if blocked = [] then "-" else String.concat "," (List.map (fun t -> string_of_int (int_of_nat t)) blocked) in
    Printf.printf "%s / blocked=%s\n" a b
  end
let fuel = nat_of_int 20000
let () =
  iter_lines Sys.argv.(1) (fun l ->
    try
      match String.split_on_char '|' l with
      | hd :: secs when secs <> [] ->
          let progs = List.map (fun s -> List.map parse_op (split_on ' ' s)) secs in
          (match split_on ' ' hd with
           | ["U"] -> show (run_unbuf false fuel progs)
           | ["Ux"] -> show (run_unbuf true fuel progs)
           | ["B"; c] -> show (run_buf false (z_of_string c) fuel progs)
           | ["Bx"; c] -> show (run_buf true (z_of_string c) fuel progs)
           | _ -> print_endline "BADCASE")
      | _ -> print_endline "BADCASE"
    with _ -> print_endline "BADCASE")
