(* E2_lib.ml — shared by every E2 model runner (textually included after zutil.ml and the
   `open <Model>` line): parsing of `P` case lines, mapping of the core op names to the
   constructors of Sched/Prog.v, printing of the result of `coop_result`.
   Case line:  P <decls> | <ops T0> | <ops T1> | ...   items `name arg ...` separated by `;`, `-` = none *)
type e2_item = string * z list
let e2_two64 = z_of_string "18446744073709551616"
let e2_u64 (x : z) : z = if BigZ.sign (big_of_z x) < 0 then z_of_big (BigZ.add (big_of_z x) (big_of_z e2_two64)) else x
let e2_nat (x : z) : nat = nat_of_int (int_of_z x)
let e2_parse_items (sec : string) : e2_item list =
  let sec = String.trim sec in
  if sec = "" || sec = "-" then [] else
  List.map (fun part ->
    match split_on ' ' (String.trim part) with
    | [] -> ("", [])
    | name :: args -> (name, List.map z_of_string args))
    (List.filter (fun s -> String.trim s <> "") (String.split_on_char ';' sec))
(* returns (decls, threads) *)
let e2_parse (line : string) : e2_item list * e2_item list list =
  let body = String.sub line 1 (String.length line - 1) in
  match String.split_on_char '|' body with
  | [] -> ([], [])
  | d :: ts -> (e2_parse_items d, List.map e2_parse_items ts)
let e2_arg (args : z list) (i : int) (dflt : z) : z = match List.nth_opt args i with Some x -> x | None -> dflt
(* core ops of Sched/Prog.v *)
let e2_core_op ((name, a) : e2_item) : core_op option =
  let z0 = z_of_int 0 in
  match name with
  | "usleep" -> Some (OUsleep (e2_u64 (e2_arg a 0 z0)))
  | "yield" -> Some OYield
  | "yield_to" -> Some (OYieldTo (e2_nat (e2_arg a 0 z0)))
  | "interrupt" -> Some (OInterrupt (e2_nat (e2_arg a 0 z0), e2_arg a 1 (z_of_int 4)))
  | "shutdown" -> Some (OShutdown (e2_nat (e2_arg a 0 z0), int_of_z (e2_arg a 1 (z_of_int 1)) <> 0))
  | "create" -> Some (OCreate (e2_nat (e2_arg a 0 z0), int_of_z (e2_arg a 1 z0) <> 0))
  | "join" -> Some (OJoin (e2_nat (e2_arg a 0 z0)))
  | "state" -> Some (OState (e2_nat (e2_arg a 0 z0)))
  | "nop" -> Some ONop
  | _ -> None
(* thread arguments that are negative or absurdly large are out of range on both sides *)
let e2_show (((((tr, bl), now), ended), stuck)) : string =
  let ev e = Printf.sprintf "%d.%d:%s/%s@%s" (int_of_nat e.ev_tid) (int_of_nat e.ev_pc)
               (string_of_z e.ev_ret) (string_of_z e.ev_err) (string_of_z e.ev_time) in
  let trs = if tr = [] then "-" else String.concat "," (List.map ev tr) in
  let bls = if bl = [] then "-" else String.concat "," (List.map (fun (k, pc) -> Printf.sprintf "%d.%d" (int_of_nat k) (int_of_nat pc)) bl) in
  (if stuck then "STUCK " else if not ended then "FUEL " else "") ^
  Printf.sprintf "tr=%s blocked=%s end=%s" trs bls (string_of_z now)
let e2_fuel = nat_of_int 20000
