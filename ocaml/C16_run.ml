(* C16 runner: same case format and output format as harness/C16/harness.cpp (see there). *)
let split c s = String.split_on_char c s
let zi = z_of_int
let rec list_of_hex (s : string) : z list =
  if s = "-" then [] else
  let n = String.length s / 2 in
  List.init n (fun i -> zi (int_of_string ("0x" ^ String.sub s (2 * i) 2)))
let hex (l : z list) : string =
  if l = [] then "-" else String.concat "" (List.map (fun b -> Printf.sprintf "%02x" (int_of_z b)) l)
let rec repeat x n = if n <= 0 then [] else x :: repeat x (n - 1)
let files_state fs = String.concat "," (List.map hex fs)
let opname = function KPread -> "pread" | KPwrite -> "pwrite" | KPreadv -> "preadv" | KPwritev -> "pwritev"
  | KFstat -> "fstat" | KFtruncate -> "ftruncate"
let trace show_mem (tr : event list) =
  String.concat "," (List.map (fun e ->
    let m = match e.ev_op with
      | KFstat | KFtruncate -> "-"
      | _ -> if show_mem then (if e.ev_mem then "1" else "0") else "-" in
    Printf.sprintf "%s.%s.%s.%s.%s" (string_of_z e.ev_file) (opname e.ev_op) (string_of_z e.ev_off) (string_of_z e.ev_len) m) tr)

type pop = { o : op; kind : string }
let parse_op (t : string) : pop option =
  match split ':' t with
  | ["R"; off; mis; len] -> Some { o = OPread ({ sg_mis = z_of_string mis; sg_data = repeat pREFILL (int_of_string len) }, z_of_string off); kind = "R" }
  | ["W"; off; mis; h] -> Some { o = OPwrite ({ sg_mis = z_of_string mis; sg_data = list_of_hex h }, z_of_string off); kind = "W" }
  | "RV" :: off :: rest ->
    let items = match rest with [s] when s <> "" -> split ',' s | _ -> [] in
    let segs = List.map (fun it -> match split '/' it with
      | [mis; len] -> { sg_mis = z_of_string mis; sg_data = repeat pREFILL (int_of_string len) }
      | _ -> failwith "bad RV item") items in
    Some { o = OPreadv (segs, z_of_string off); kind = "RV" }
  | "WV" :: off :: rest ->
    let items = match rest with [s] when s <> "" -> split ',' s | _ -> [] in
    let segs = List.map (fun it -> match split '/' it with
      | [mis; h] -> { sg_mis = z_of_string mis; sg_data = list_of_hex h }
      | _ -> failwith "bad WV item") items in
    Some { o = OPwritev (segs, z_of_string off); kind = "WV" }
  | ["F"] -> Some { o = OFstat; kind = "F" }
  | ["T"; len] -> Some { o = OFtruncate (z_of_string len); kind = "T" }
  | _ -> None

let run_case (line : string) : string =
  let tok = split ' ' line in
  let b = Buffer.create 256 in
  let go (ad : adaptor option) (init_tr : event list) (show_mem : bool) (files : z list list) (ops : string list) =
    Buffer.add_string b (Printf.sprintf "init=%s[%s]" (if ad = None then "NULL" else "ok") (trace show_mem init_tr));
    let final = match ad with
      | None -> files
      | Some ad ->
        List.fold_left (fun files t ->
          match parse_op t with
          | None -> Buffer.add_string b " ; BADOP"; files
          | Some p ->
            let r = run_op ad files p.o in
            let ret = r.rs_ret in
            let neg = BigZ.sign (big_of_z ret) < 0 in
            let bufs = match p.kind with
              | "R" -> (match r.rs_bufs with [x] -> hex x | _ -> "?")
              | "RV" -> if r.rs_bufs = [] then "-" else String.concat "/" (List.map hex r.rs_bufs)
              | _ -> "-" in
            let wrote = (p.kind = "W" || p.kind = "WV" || p.kind = "T") in
            Buffer.add_string b (Printf.sprintf " ; %s,%s,%s,[%s],%s" (string_of_z ret)
              (if neg then string_of_z r.rs_errno else "0") bufs (trace show_mem r.rs_trace)
              (if wrote then files_state r.rs_files else "="));
            r.rs_files) files ops in
    Buffer.add_string b (" ; final=" ^ files_state final) in
  let contents s = List.map list_of_hex (split ',' s) in
  (match tok with
   | "A" :: a :: am :: c :: ops ->
     let a = z_of_string a and am = (am = "1") in
     let files = contents c in
     let ad = if is_power_of_2 a then Some (AdAligned (a, am)) else None in
     go ad [] am files ops
   | "LF" :: u :: _ :: c :: ops ->
     let files = contents c in
     let (x, tr) = new_fixed (z_of_string u) files in
     go (match x with Some x -> Some (AdX x) | None -> None) tr false files ops
   | "LV" :: _ :: c :: ops ->
     let files = contents c in
     let (x, tr) = new_linear files in
     go (match x with Some x -> Some (AdX x) | None -> None) tr false files ops
   | "ST" :: s :: _ :: c :: ops ->
     let files = contents c in
     let (x, tr) = new_stripe (z_of_string s) files in
     go (match x with Some x -> Some (AdX x) | None -> None) tr false files ops
   | _ -> Buffer.add_string b "BADCASE");
  Buffer.contents b

let () = iter_lines Sys.argv.(1) (fun l -> print_endline (run_case l))
