(* zutil.ml — I/O glue shared by all model runners; textually appended after
   `open <Model>` so that the constructors below are the extracted Coq ones.
   Uses zarith ONLY to parse and print decimal numerals; all model arithmetic
   is done by the extracted Coq functions on Coq's own positive/Z/N. *)
let rec pos_of_big (b : BigZ.t) : positive =
  if BigZ.equal b BigZ.one then XH
  else if BigZ.is_even b then XO (pos_of_big (BigZ.shift_right b 1))
  else XI (pos_of_big (BigZ.shift_right b 1))
let z_of_big (b : BigZ.t) : z =
  if BigZ.sign b = 0 then Z0 else if BigZ.sign b > 0 then Zpos (pos_of_big b) else Zneg (pos_of_big (BigZ.neg b))
let rec big_of_pos (p : positive) : BigZ.t = match p with
  | XH -> BigZ.one
  | XO q -> BigZ.shift_left (big_of_pos q) 1
  | XI q -> BigZ.succ (BigZ.shift_left (big_of_pos q) 1)
let big_of_z (x : z) : BigZ.t = match x with Z0 -> BigZ.zero | Zpos p -> big_of_pos p | Zneg p -> BigZ.neg (big_of_pos p)
let z_of_string (s : string) : z = z_of_big (BigZ.of_string s)
let string_of_z (x : z) : string = BigZ.to_string (big_of_z x)
let z_of_int (i : int) : z = z_of_big (BigZ.of_int i)
let int_of_z (x : z) : int = BigZ.to_int (big_of_z x)
let rec nat_of_int (i : int) : nat = if i <= 0 then O else S (nat_of_int (i - 1))
let rec int_of_nat (n : nat) : int = match n with O -> 0 | S m -> 1 + int_of_nat m
let split_on (c : char) (s : string) : string list =
  List.filter (fun x -> x <> "") (String.split_on_char c s)
let iter_lines (fn : string) (f : string -> unit) : unit =
  let ic = open_in fn in
  (try while true do
    let l = input_line ic in
    if String.length l > 0 && l.[0] <> '#' then f l
  done with End_of_file -> ());
  close_in ic
