(* C05 runner.  Case lines:
     P <decls> | <ops T0> | <ops T1> | ...     E2 program (harness/E2/e2.h); model = coop_result
     A <n> <rounds> <bound> <schedule>         E3 schedule for asymmetric_spinLock; model = asym_e3
   One output line per case, same format as the implementation harness. *)
let two64 = BigZ.shift_left BigZ.one 64
let arg_z (w : string) : z =
  let b = BigZ.of_string w in
  if BigZ.sign b < 0 then z_of_big (BigZ.add b two64) else z_of_big b
let arg_n (w : string) : nat = nat_of_int (int_of_string w)
exception Bad
let parse_op (part : string) : op =
  match split_on ' ' part with
  | ["usleep"; d] -> OUsleep (arg_z d)
  | ["yield"] -> OYield
  | ["interrupt"; k; e] -> OInterrupt (arg_n k, z_of_string e)
  | ["interrupt"; k] -> OInterrupt (arg_n k, z_of_string "4")
  | ["create"; k; j] -> OCreate (arg_n k, (int_of_string j <> 0), false)
  | ["create"; k] -> OCreate (arg_n k, false, false)
  | ["join"; k] -> OJoin (arg_n k)
  | ["nop"] -> ONop
  | ["nthreads"] -> ONthreads
  | ["released"; k] -> OReleased (arg_n k)
  | _ -> raise Bad
let parse_sec (sec : string) : op list =
  let t = String.trim sec in
  if t = "" || t = "-" then [] else
  List.map (fun p -> parse_op (String.trim p)) (List.filter (fun x -> String.trim x <> "") (String.split_on_char ';' t))
let rec nth_prog (l : op list list) (k : nat) : op list =
  match l, k with
  | [], _ -> []
  | x :: _, O -> x
  | _ :: r, S m -> nth_prog r m
let show_ev e =
  Printf.sprintf "%d.%d:%s/%s@%s" (int_of_nat e.ev_tid) (int_of_nat e.ev_pc) (string_of_z e.ev_ret) (string_of_z e.ev_err) (string_of_z e.ev_time)
let run_prog (line : string) =
  let secs = String.split_on_char '|' (String.sub line 1 (String.length line - 1)) in
  match secs with
  | _decls :: progs when progs <> [] ->
      let ps = List.map parse_sec progs in
      let n = List.length ps in
      let (((((tr, blocked), now), ((ended, stuck), tie)), counters), nthr) =
        coop_result (nth_prog ps) (nat_of_int n) (nat_of_int 200000) (z_of_string "1000") in
      let pre = (if stuck then "STUCK " else "") ^ (if tie then "TIE " else "") ^ (if ended then "" else "FUEL ") in
      let trs = if tr = [] then "-" else String.concat "," (List.map show_ev tr) in
      let bl = if blocked = [] then "-" else String.concat "," (List.map (fun (k, pc) -> Printf.sprintf "%d.%d" (int_of_nat k) (int_of_nat pc)) blocked) in
      Printf.printf "%str=%s blocked=%s end=%s\n" pre trs bl (string_of_z now)
  | _ -> print_endline "BADCASE"

(* ---- E3 log of the asymmetric lock ---- *)
let addr_name a = if int_of_z a = 0 then "fg" else "bg"
let show_obs (p, o) =
  let k = int_of_z o.o_kind in
  let ps = string_of_int (int_of_nat p) in
  if k = 0 then Some (Printf.sprintf "%s.ld.%s.%s" ps (addr_name o.o_addr) (string_of_z o.o_v1))
  else if k = 1 then Some (Printf.sprintf "%s.st.%s.%s" ps (addr_name o.o_addr) (string_of_z o.o_v1))
  else if k = 2 then Some (Printf.sprintf "%s.xg.%s.%s.%s" ps (addr_name o.o_addr) (string_of_z o.o_v1) (string_of_z o.o_v2))
  else None
let fnv (l : string list) : string =
  let h = ref (BigZ.of_string "14695981039346656037") in
  let m = BigZ.of_string "1099511628211" in
  let mask = BigZ.pred two64 in
  let upd c = h := BigZ.logand (BigZ.mul (BigZ.logxor !h (BigZ.of_int c)) m) mask in
  List.iteri (fun i s -> if i > 0 then upd 32; String.iter (fun c -> upd (Char.code c)) s) l;
  BigZ.to_string !h
let digit c = if c >= '0' && c <= '9' then Char.code c - 48 else 10 + Char.code c - 97
let run_asym n rounds bound sched =
  let sl = List.map (fun c -> nat_of_int (digit c)) (List.of_seq (String.to_seq sched)) in
  let ((_, log), livelock) = asym_e3 (nat_of_int n) (nat_of_int rounds) sl (nat_of_int bound) in
  let strs = List.filter_map show_obs log in
  Printf.printf "livelock=%d steps=%d digest=%s log=%s\n" (if livelock then 1 else 0) (List.length strs) (fnv strs) (String.concat " " strs)

let () =
  iter_lines Sys.argv.(1) (fun l ->
    try
      if l.[0] = 'P' then run_prog l
      else match split_on ' ' l with
        | ["A"; n; r; b; sched] -> run_asym (int_of_string n) (int_of_string r) (int_of_string b) sched
        | ["A"; n; r; b] -> run_asym (int_of_string n) (int_of_string r) (int_of_string b) ""
        | _ -> print_endline "BADCASE"
    with Bad -> print_endline "BADCASE")
