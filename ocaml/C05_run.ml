(* C05 runner.  Case lines:
     M <nv> <flags,..> | <ops T0> | ... | <cmds>   E4 controlled multi-vCPU replay; model = C05_E4.cmd_labels run through C05_Model.step
     P <decls> | <ops T0> | <ops T1> | ...     E2 program (harness/E2/e2.h); model = coop_result
     A <n> <rounds> <bound> <schedule>         E3 schedule for asymmetric_spinLock; model = asym_e3
   One output line per case, same format as the implementation harness. *)
let two64 = BigZ.shift_left BigZ.one 64
let arg_z (w : string) : z =
  let b = BigZ.of_string w in
  if BigZ.sign b < 0 then z_of_big (BigZ.add b two64) else z_of_big b
let arg_n (w : string) : nat = nat_of_int (int_of_string w)
exception Bad
let parse_op (part : string) : op =
  match split_on ' ' part with
  | ["usleep"; d] -> OUsleep (arg_z d)
  | ["yield"] -> OYield
  | ["interrupt"; k; e] -> OInterrupt (arg_n k, z_of_string e)
  | ["interrupt"; k] -> OInterrupt (arg_n k, z_of_string "4")
  | ["create"; k; j; w] -> OCreate (arg_n k, (int_of_string j <> 0), (int_of_string w <> 0))
  | ["migrate"; k; u] -> OMigrate (arg_n k, arg_n u)
  | ["create"; k; j] -> OCreate (arg_n k, (int_of_string j <> 0), false)
  | ["create"; k] -> OCreate (arg_n k, false, false)
  | ["join"; k] -> OJoin (arg_n k)
  | ["nop"] -> ONop
  | ["nthreads"] -> ONthreads
  | ["released"; k] -> OReleased (arg_n k)
  | ["waitall"] -> OWaitAll
  | ["fini"] -> OFini
  | _ -> raise Bad
let parse_sec (sec : string) : op list =
  let t = String.trim sec in
  if t = "" || t = "-" then [] else
  List.map (fun p -> parse_op (String.trim p)) (List.filter (fun x -> String.trim x <> "") (String.split_on_char ';' t))
let rec nth_prog (l : op list list) (k : nat) : op list =
  match l, k with
  | [], _ -> []
  | x :: _, O -> x
  | _ :: r, S m -> nth_prog r m
let show_ev e =
  Printf.sprintf "%d.%d:%s/%s@%s" (int_of_nat e.ev_tid) (int_of_nat e.ev_pc) (string_of_z e.ev_ret) (string_of_z e.ev_err) (string_of_z e.ev_time)
let run_prog (line : string) =
  let secs = String.split_on_char '|' (String.sub line 1 (String.length line - 1)) in
  match secs with
  | _decls :: progs when progs <> [] ->
      let ps = List.map parse_sec progs in
      let n = List.length ps in
      let (((((tr, blocked), now), ((ended, stuck), tie)), counters), nthr) =
        coop_result (nth_prog ps) (nat_of_int n) (nat_of_int 200000) (z_of_string "1000") in
      let pre = (if stuck then "STUCK " else "") ^ (if tie then "TIE " else "") ^ (if ended then "" else "FUEL ") in
      let trs = if tr = [] then "-" else String.concat "," (List.map show_ev tr) in
      let bl = if blocked = [] then "-" else String.concat "," (List.map (fun (k, pc) -> Printf.sprintf "%d.%d" (int_of_nat k) (int_of_nat pc)) blocked) in
      Printf.printf "%str=%s blocked=%s end=%s\n" pre trs bl (string_of_z now)
  | _ -> print_endline "BADCASE"

(* ---- E3 log of the asymmetric lock ---- *)
let addr_name a = if int_of_z a = 0 then "fg" else "bg"
let show_obs (p, o) =
  let k = int_of_z o.o_kind in
  let ps = string_of_int (int_of_nat p) in
  if k = 0 then Some (Printf.sprintf "%s.ld.%s.%s" ps (addr_name o.o_addr) (string_of_z o.o_v1))
  else if k = 1 then Some (Printf.sprintf "%s.st.%s.%s" ps (addr_name o.o_addr) (string_of_z o.o_v1))
  else if k = 2 then Some (Printf.sprintf "%s.xg.%s.%s.%s" ps (addr_name o.o_addr) (string_of_z o.o_v1) (string_of_z o.o_v2))
  else None
let fnv (l : string list) : string =
  let h = ref (BigZ.of_string "14695981039346656037") in
  let m = BigZ.of_string "1099511628211" in
  let mask = BigZ.pred two64 in
  let upd c = h := BigZ.logand (BigZ.mul (BigZ.logxor !h (BigZ.of_int c)) m) mask in
  List.iteri (fun i s -> if i > 0 then upd 32; String.iter (fun c -> upd (Char.code c)) s) l;
  BigZ.to_string !h
let digit c = if c >= '0' && c <= '9' then Char.code c - 48 else 10 + Char.code c - 97
let run_asym n rounds bound sched =
  let sl = List.map (fun c -> nat_of_int (digit c)) (List.of_seq (String.to_seq sched)) in
  let ((_, log), livelock) = asym_e3 (nat_of_int n) (nat_of_int rounds) sl (nat_of_int bound) in
  let strs = List.filter_map show_obs log in
  Printf.printf "livelock=%d steps=%d digest=%s log=%s\n" (if livelock then 1 else 0) (List.length strs) (fnv strs) (String.concat " " strs)


(* ---- E4: controlled multi-vCPU replay (coq/C05/C05_E4.v) ---- *)
let parse_cmd (w : string) : cmd =
  if String.length w < 2 then raise Bad else
  let arg = String.sub w 1 (String.length w - 1) in
  match w.[0] with
  | 's' -> CStep (arg_n arg) | 'y' -> CBlock (arg_n arg) | 'r' -> CResume (arg_n arg)
  | 'w' -> CScan (arg_n arg) | 'a' -> CAuto (arg_n arg) | 't' -> CTick (z_of_string arg)
  | _ -> raise Bad
let ion = int_of_nat
let show_label = function
  | LStep v -> Printf.sprintf "LStep%d" (ion v)
  | LDrain v -> Printf.sprintf "LDrain%d" (ion v)
  | LResume v -> Printf.sprintf "LResume%d" (ion v)
  | LSteal (v, u, t) -> Printf.sprintf "LSteal%d<%d:T%d" (ion v) (ion u) (ion t)
  | LTick d -> "LTick" ^ string_of_z d
let show_tids l = if l = [] then "-" else String.concat "," (List.map (fun t -> string_of_int (ion t)) l)
let state_letter = function NOTCREATED -> "N" | READY -> "Y" | RUNNING -> "R" | SLEEPING -> "S" | STANDBY -> "B" | DONE -> "D"
let e4_dump pr nv n s =
  let b = Buffer.create 256 in
  let off v = v >= 0 && v < nv && offline pr s (nat_of_int v) in
  for v = 0 to nv - 1 do
    let vc = getvc s (nat_of_int v) in
    let sq = List.sort compare (List.map ion vc.v_sleepq) in
    if off v then Buffer.add_string b (Printf.sprintf "V%d[off] " v) else
    Buffer.add_string b (Printf.sprintf "V%d[r=%s q=%s b=%s n=%s] " v (show_tids vc.v_runq)
      (if sq = [] then "-" else String.concat "," (List.map string_of_int sq)) (show_tids vc.v_standby) (string_of_z vc.v_nthreads))
  done;
  for k = 0 to n + nv - 1 do
    let th = getth s (nat_of_int k) in
    let user = k >= nv && k < n in
    (* `started` is counted by the model at the ring rotation (switch_in) but can be observed only when the entry function is
       entered, i.e. after the pending part of the switch: for the thread a parked vCPU (yield window) is switching to, the
       pre-switch value is shown (a thread at pc 0 / phase 0 that is CURRENT under a pending switch was fresh before it) *)
    let in_switch = user && th.th_state = RUNNING && ion th.th_pc = 0 && ion th.th_k = 0 && ion th.th_vcpu < nv &&
      (let vc = getvc s th.th_vcpu in vc.v_pend <> PNone && (match vc.v_runq with c :: _ -> ion c = k | [] -> false)) in
    let cnt = if user then Printf.sprintf "c%d%d%d" (ion th.g_started - (if in_switch && ion th.g_started > 0 then 1 else 0)) (ion th.g_finished) (ion th.g_disposed) else "" in
    (* a finalised vCPU: its main thread object and its idler are destroyed (vcpu_fini 2346-2348) *)
    if (k < nv && off k) || (k >= n && off (k - n)) then Buffer.add_string b (Printf.sprintf "T%d=D " k) else
    match th.th_state with
    | NOTCREATED -> ()
    | DONE -> Buffer.add_string b (Printf.sprintf "T%d=D%s " k cnt)
    | st ->
        Buffer.add_string b (Printf.sprintf "T%d=%s%d%s%s%s%s " k (state_letter st) (ion th.th_vcpu)
          (if th.th_insleep then "z" else "")
          (match th.th_waitq with Some j -> Printf.sprintf "w%d" (ion j) | None -> "")
          (if int_of_z th.th_err <> 0 then "e" ^ string_of_z th.th_err else "") cnt)
  done;
  String.trim (Buffer.contents b)
let rec take k l = if k <= 0 then [] else match l with [] -> [] | x :: r -> x :: take (k - 1) r
let run_e4 (line : string) =
  let secs = String.split_on_char '|' line in
  let nsec = List.length secs in
  if nsec < 3 then print_endline "BADCASE" else
  let head = split_on ' ' (List.hd secs) in
  let progs = List.filteri (fun i _ -> i > 0 && i < nsec - 1) secs in
  let cmds = split_on ' ' (String.trim (List.nth secs (nsec - 1))) in
  match head with
  | ["M"; nvs; fl] ->
      let nv = int_of_string nvs in
      let fls = Array.of_list (String.split_on_char ',' fl) in
      let ps = List.map parse_sec progs in
      let n = List.length ps in
      if nv < 1 || nv > 8 || n < nv || Array.length fls <> nv then print_endline "BADCASE" else
      let flags v = let i = ion v in if i < nv then (String.contains fls.(i) 'a', String.contains fls.(i) 'p') else (false, false) in
      let pr = nth_prog ps in
      let s = ref (init_state (nat_of_int nv) (nat_of_int n) flags (z_of_string "1000")) in
      let segs = ref [ "init " ^ e4_dump pr nv n !s ] in
      let cls = ref false and clash = ref false in
      List.iter (fun w ->
        let c = parse_cmd w in
        let labels = cmd_labels pr !s c in
        let ntr = List.length !s.s_trace in
        List.iter (fun l -> if f23_class !s l then cls := true; s := step pr !s l) labels;
        if phys_clash !s then clash := true;
        let evs = List.rev (take (List.length !s.s_trace - ntr) !s.s_trace) in
        segs := (Printf.sprintf "%s {%s} ev=%s %s" w (String.concat " " (List.map show_label labels))
                   (if evs = [] then "-" else String.concat "," (List.map show_ev evs)) (e4_dump pr nv n !s)) :: !segs) cmds;
      let pre = (if !s.s_stuck then "STUCK " else "") ^ (if !s.s_tie then "TIE " else "")
                ^ (if !cls then "{F23CLASS} " else "") ^ (if !clash then "{F23RUN} " else "") in
      print_endline (pre ^ String.concat " ;; " (List.rev !segs))
  | _ -> print_endline "BADCASE"

let () =
  iter_lines Sys.argv.(1) (fun l ->
    try
      if l.[0] = 'P' then run_prog l
      else if l.[0] = 'M' then run_e4 l
      else match split_on ' ' l with
        | ["A"; n; r; b; sched] -> run_asym (int_of_string n) (int_of_string r) (int_of_string b) sched
        | ["A"; n; r; b] -> run_asym (int_of_string n) (int_of_string r) (int_of_string b) ""
        | _ -> print_endline "BADCASE"
    with Bad | Failure _ | Invalid_argument _ | Not_found -> print_endline "BADCASE")
