(* C18 runner.  One case per line: ops separated by ';', fields by ',':
     T,<tid>,<off>,<len>        try_lock_wait
     W,<tid>,<off>,<len>        try_lock_wait2
     L,<tid>,<off>,<len>        lock
     U,<tid>,<off>,<len>        unlock(offset,length)
     H,<tid>,<id>               unlock(handle of node <id>)
     A,<tid>,<id|->,<off>,<len> adjust_range(handle of node <id> or nullptr, off, len)
     I,<tid>,<tid2>             photon::thread_interrupt(thread <tid2>) if it is parked in the RangeLock
   Output: one line per case, one segment per op joined by " | ":
     <completion events in order> ; [<off>:<len>#<id>{<waiting tids>} ...]
   (same format as harness/C18/harness.cpp). *)
let kstr = function KT -> "T" | KW -> "W" | KL -> "L"
let zs = string_of_z
let ev_str = function
  | EvAcq (t, k, id) -> Some (Printf.sprintf "acq(%s,%s,#%s)" (zs t) (kstr k) (zs id))
  | EvFail (t, k, co, cl) -> Some (Printf.sprintf "fail(%s,%s,%s,%s)" (zs t) (kstr k) (zs co) (zs cl))
  | EvPark (_, _) -> None
  | EvRet (t, r) -> Some (Printf.sprintf "ret(%s,%s)" (zs t) (zs r))
  | EvBusy t -> Some (Printf.sprintf "busy(%s)" (zs t))
  | EvStale t -> Some (Printf.sprintf "stale(%s)" (zs t))
  | EvUB t -> Some (Printf.sprintf "ub(%s)" (zs t))
let rec filter_map f = function [] -> [] | x :: tl -> (match f x with Some y -> y :: filter_map f tl | None -> filter_map f tl)
let entry_str e =
  Printf.sprintf "%s:%s#%s{%s}" (zs e.e_off) (zs e.e_len) (zs e.e_id) (String.concat "," (List.map zs e.e_wait))
let seg (evs, ix) =
  Printf.sprintf "%s ; [%s]" (String.concat " " (filter_map ev_str evs)) (String.concat " " (List.map entry_str ix))
let parse_op s =
  match String.split_on_char ',' s with
  | ["T"; t; o; l] -> OTry (z_of_string t, KT, z_of_string o, z_of_string l)
  | ["W"; t; o; l] -> OTry (z_of_string t, KW, z_of_string o, z_of_string l)
  | ["L"; t; o; l] -> OTry (z_of_string t, KL, z_of_string o, z_of_string l)
  | ["U"; t; o; l] -> OUnlock (z_of_string t, z_of_string o, z_of_string l)
  | ["H"; t; h] -> OUnlockH (z_of_string t, z_of_string h)
  | ["I"; t; u] -> OInterrupt (z_of_string t, z_of_string u)
  | ["A"; t; "-"; o; l] -> OAdjust (z_of_string t, None, z_of_string o, z_of_string l)
  | ["A"; t; h; o; l] -> OAdjust (z_of_string t, Some (z_of_string h), z_of_string o, z_of_string l)
  | _ -> failwith "bad op"
let () =
  iter_lines Sys.argv.(1) (fun l ->
    match (try Some (List.map parse_op (split_on ';' l)) with _ -> None) with
    | None -> print_endline "BADCASE"
    | Some ops -> print_endline (String.concat " | " (List.map seg (run_case ops))))
