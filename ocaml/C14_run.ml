(* C14 runner.  Case line:
     <V|O> <cap> <rf> <chunk> <shape> ; <op> ; <op> ...
   shape = comma separated element sizes or '-'.  ops: see harness/C14/harness.cpp (same grammar).
   Special first token 'OLDM' / 'OLDP': the unfixed constructor (F2 witness), model side only.
   One output line per case: per-op records joined by " | ", then " # " and the store dump. *)
let zs = string_of_z
let shape_of s = if s = "-" then [] else List.map z_of_string (split_on ',' s)
let hex_of l = if l = [] then "-" else String.concat "" (List.map (fun b -> Printf.sprintf "%02x" (int_of_z b)) l)
let triples v = "[" ^ String.concat ";" (List.map (fun e -> Printf.sprintf "%s,%s,%s" (zs e.iv_id) (zs e.iv_off) (zs e.iv_len)) v) ^ "]"
let flat_s st v = match flat st v with None -> "OOB" | Some l -> hex_of l
let regions st isptr v =
  if v = [] then "-" else
  String.concat "/" (List.map (fun e ->
    (if isptr then "p" else zs e.iv_id) ^ ":" ^
    (match load st e.iv_id e.iv_off e.iv_len with None -> "OOB" | Some l -> hex_of l)) v)
(* buffers handed out as iovec ARRAYS (allocated inside xfv/xbv/slice) are not byte-compared *)
let dump st opaque =
  String.concat "," (List.mapi (fun i b -> if List.mem i opaque then Printf.sprintf "%d:@%d" i (List.length b) else Printf.sprintf "%d:%s" i (hex_of b)) st)
let nz v = List.filter (fun e -> e.iv_len <> Z0) v
let rec range a b = if a >= b then [] else a :: range (a + 1) b
let parse_op toks =
  let z = z_of_string in
  match toks with
  | ["sum"] -> OSum
  | ["shrink"; n] -> OShrink (z n)
  | ["shrinklt"; n] -> OShrinkLT (z n)
  | ["trunc"; n] -> OTrunc (z n)
  | ["xf"; n] -> OXF (z n)
  | ["xfb"; n] -> OXFB (z n)
  | ["xfv"; n; k] -> OXFV (z n, z k)
  | ["xfc"; n] -> OXFC (z n)
  | ["xb"; n] -> OXB (z n)
  | ["xbb"; n] -> OXBB (z n)
  | ["xbv"; n; k] -> OXBV (z n, z k)
  | ["xbc"; n] -> OXBC (z n)
  | ["slice"; c; o; k] -> OSlice (z c, z o, z k)
  | ["mto"; n] -> OMTo (z n)
  | ["mfrom"; n] -> OMFrom (z n)
  | ["mtov"; s; n] -> OMToV (shape_of s, z n)
  | ["mfromv"; s; n] -> OMFromV (shape_of s, z n)
  | ["pto"; n] -> OPTo (z n)
  | ["ptov"; s; n] -> OPToV (shape_of s, z n)
  | ["pfromv"; s; n] -> OPFromV (shape_of s, z n)
  | ["pushb"; n] -> OPushB (z n)
  | ["pushf"; n] -> OPushF (z n)
  | ["pushba"; n] -> OPushBA (z n)
  | ["pushfa"; n] -> OPushFA (z n)
  | ["popf"] -> OPopF
  | ["popb"] -> OPopB
  | ["clear"] -> OClear
  | ["xfo"; n; sl; rf] -> OXFO (z n, z sl, z rf)
  | ["xbo"; n; sl; rf] -> OXBO (z n, z sl, z rf)
  | _ -> failwith "badop"
let show_op m ob =
  Printf.sprintf "r=%s p=%s v=%s w=%s,%s a=%s f=%s g=%s d=%s"
    (zs ob.o_ret)
    (match ob.o_ptr with None -> "-" | Some (i, o) -> zs i ^ "," ^ zs o)
    (triples m.m_iv.live) (zs m.m_iv.ibeg) (zs m.m_iv.nbases)
    (triples m.m_aux) (flat_s m.m_st m.m_iv.live) (flat_s m.m_st (nz m.m_aux))
    (regions m.m_st (ob.o_ptr <> None) ob.o_dst)
let () =
  iter_lines Sys.argv.(1) (fun l ->
    try
      let parts = String.split_on_char ';' l in
      match parts with
      | [] -> print_endline "BADCASE"
      | hd :: ops ->
        (match split_on ' ' hd with
         | [k; cap; rf; chunk; shape] when k = "V" || k = "O" ->
           let m0 = init_machine (k = "O") (z_of_string cap) (z_of_string rf) (z_of_string chunk) (shape_of shape) in
           let buf = Buffer.create 256 in
           let opaque = ref [] in
           let rec go m ops first =
             match ops with
             | [] -> Some m
             | o :: r ->
               let pop = parse_op (split_on ' ' o) in
               (match step m pop with
                | None -> (if not first then Buffer.add_string buf " | "); Buffer.add_string buf "NONE"; None
                | Some (m1, ob) ->
                  (if not first then Buffer.add_string buf " | ");
                  (match pop with
                   | OXFV _ | OXBV _ | OSlice _ -> opaque := range (List.length m.m_st) (List.length m1.m_st) @ !opaque
                   | _ -> ());
                  Buffer.add_string buf (show_op m1 ob); go m1 r false) in
           (match go m0 ops true with
            | None -> ()
            | Some m -> Buffer.add_string buf " # "; Buffer.add_string buf (dump m.m_st !opaque));
           print_endline (Buffer.contents buf)
         | ["OLDM"; shape; n] ->
           let m0 = init_machine false Z0 Z0 (z_of_int 1) (shape_of shape) in
           (match old_memcpy_to m0.m_st m0.m_iv.live (z_of_string n) with
            | None -> print_endline "NONE" | Some (_, r) -> print_endline ("r=" ^ zs r))
         | ["OLDP"; shape; dshape; n] ->
           let m0 = init_machine false Z0 Z0 (z_of_int 1) (shape_of shape) in
           (match old_pipe_to_view m0.m_st m0.m_iv.live (shape_of dshape) (z_of_string n) with
            | None -> print_endline "NONE" | Some (_, r) -> print_endline ("r=" ^ zs r))
         | [k; shape; n; cap; rf] when k = "OLDXF" || k = "OLDXB" ->
           let m0 = init_machine true (z_of_int 64) Z0 (z_of_int 1) (shape_of shape) in
           let f = if k = "OLDXF" then old_extract_front_into else old_extract_back_into in
           (match f m0.m_iv.live (z_of_string n) (z_of_string cap) (z_of_string rf) with
            | None -> print_endline "NONE" | Some (_, r) -> print_endline ("r=" ^ zs r))
         | _ -> print_endline "BADCASE")
    with _ -> print_endline "BADCASE")
