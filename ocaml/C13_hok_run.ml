(* evaluates head_ok (the hypothesis of theorem parse_fragmentation_independent) on message heads:
     K <Q|S> <cap> <verb> <head hex>   ->   "K hok=1" / "K hok=0" *)
let hexval c = match c with
  | '0'..'9' -> Char.code c - 48 | 'a'..'f' -> Char.code c - 87 | 'A'..'F' -> Char.code c - 55
  | _ -> failwith "hex"
let bytes_of_hex (s : string) : z list =
  if s = "-" then [] else begin
    let n = String.length s / 2 in
    let r = ref [] in
    for i = n - 1 downto 0 do
      r := z_of_int (hexval s.[2*i] * 16 + hexval s.[2*i+1]) :: !r
    done; !r end
let () =
  iter_lines Sys.argv.(1) (fun l ->
    (match String.split_on_char ' ' l with
     | ["K"; kind; cap; verb; head] ->
       let m = msg_init (kind = "Q") (z_of_string cap) (z_of_int 0) (z_of_string verb) in
       Printf.printf "K hok=%s\n" (if head_ok m (bytes_of_hex head) (z_of_int 4096) then "1" else "0")
     | _ -> print_endline "BADCASE");
    flush stdout)
