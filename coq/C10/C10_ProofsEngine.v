(* C10 part 2 — proofs about the engine bookkeeping model (see C10_Engine.v). *)
From Coq Require Import ZArith List Lia Bool.
From PV Require Import C10.C10_Engine.
Import ListNotations.
Local Open Scope Z_scope.

(* ------------------------------------------------------------------ frame: other descriptors are untouched *)
Lemma kfind_kreplace_other n l fd : ke_fd n <> fd -> kfind fd (kreplace n l) = kfind fd l.
Proof.
  intros Hne. induction l as [|e r IH]; [reflexivity|]. cbn [kreplace].
  destruct (ke_fd e =? ke_fd n) eqn:E.
  - apply Z.eqb_eq in E. cbn [kfind]. rewrite E.
    destruct (ke_fd n =? fd) eqn:E2; [apply Z.eqb_eq in E2; contradiction|reflexivity].
  - cbn [kfind]. rewrite IH. reflexivity.
Qed.

Lemma kfind_kremove_other x l fd : x <> fd -> kfind fd (kremove x l) = kfind fd l.
Proof.
  intros Hne. induction l as [|e r IH]; [reflexivity|]. cbn [kremove].
  destruct (ke_fd e =? x) eqn:E.
  - apply Z.eqb_eq in E. cbn [kfind]. destruct (ke_fd e =? fd) eqn:E2; [apply Z.eqb_eq in E2; lia|reflexivity].
  - cbn [kfind]. rewrite IH. reflexivity.
Qed.

Lemma kfind_app_other l x fd : ke_fd x <> fd -> kfind fd (l ++ [x]) = kfind fd l.
Proof.
  intros Hne. induction l as [|e r IH]; cbn [app kfind].
  - destruct (ke_fd x =? fd) eqn:E; [apply Z.eqb_eq in E; contradiction|reflexivity].
  - rewrite IH. reflexivity.
Qed.

(* epoll_ctl on fd does not change the kernel's entry (events, arming) of any other descriptor *)
Lemma k_ctl_frame op fd events k fd' :
  fd <> fd' -> kfind fd' (kn_list (snd (k_ctl op fd events k))) = kfind fd' (kn_list k).
Proof.
  intros Hne. unfold k_ctl. destruct (kfind fd (kn_list k)).
  - destruct (op =? CTL_ADD); [reflexivity|]. destruct (op =? CTL_MOD); cbn [snd kn_list].
    + apply kfind_kreplace_other. exact Hne.
    + apply kfind_kremove_other. exact Hne.
  - destruct (op =? CTL_ADD); cbn [snd kn_list]; [|reflexivity].
    apply kfind_app_other. exact Hne.
Qed.

Lemma tab_get_set_other fd v l fd' : fd <> fd' -> tab_get fd' (tab_set fd v l) = tab_get fd' l.
Proof.
  intros Hne. induction l as [|[f e] r IH]; cbn [tab_set tab_get].
  - destruct (fd =? fd') eqn:E; [apply Z.eqb_eq in E; contradiction|reflexivity].
  - destruct (f =? fd) eqn:E.
    + apply Z.eqb_eq in E. subst f. cbn [tab_get]. destruct (fd =? fd') eqn:E2; [apply Z.eqb_eq in E2; contradiction|reflexivity].
    + cbn [tab_get]. rewrite IH. reflexivity.
Qed.

(* the part of the state that belongs to descriptor fd': its table entry and its kernel entry *)
Definition fd_view (fd' : Z) (s : st) : ife * option kent := (tab_get fd' (s_tab s), kfind fd' (kn_list (s_k s))).

Lemma ctl_frame fd op events ign s fd' : fd <> fd' -> fd_view fd' (snd (ctl fd op events ign s)) = fd_view fd' s.
Proof.
  intros Hne. unfold ctl, fd_view.
  pose proof (k_ctl_frame op fd events (s_k s) fd' Hne) as Hk.
  destruct (k_ctl op fd events (s_k s)) as [res k'] eqn:E. cbn [snd] in Hk.
  destruct (res =? 0); [cbn; rewrite Hk; reflexivity|].
  destruct ((ign =? 0) || negb (ign =? res)); cbn; rewrite Hk; reflexivity.
Qed.

Ltac frame_ctl :=
  repeat match goal with
  | |- context [ctl ?fd ?op ?ev ?ign ?s] =>
      let r := fresh "r" in let s1 := fresh "s" in let E := fresh "E" in
      pose proof (ctl_frame fd op ev ign s) as E;
      destruct (ctl fd op ev ign s) as [r s1]; cbn [snd] in E
  end.

Lemma rm_interest_frame fd ints s fd' : fd <> fd' -> fd_view fd' (snd (rm_interest fd ints s)) = fd_view fd' s.
Proof.
  intros Hne. unfold rm_interest.
  destruct ((fd <? 0) || (s_size s <=? fd)); [reflexivity|].
  destruct (ints =? 0); [reflexivity|].
  destruct (Z.land ints (Z.land (i_int (tab_get fd (s_tab s))) EV_RWEO) =? 0); [reflexivity|].
  match goal with |- context [if ?c then _ else _] => destruct c end.
  { unfold fd_view. cbn. rewrite tab_get_set_other by exact Hne. reflexivity. }
  match goal with |- context [if ?c then _ else _] => destruct c end.
  - frame_ctl. destruct (r <? 0); cbn [snd]; [auto|].
    unfold fd_view in *. cbn. rewrite tab_get_set_other by exact Hne. apply E. exact Hne.
  - frame_ctl. destruct (r <? 0); cbn [snd]; [auto|].
    unfold fd_view in *. cbn. rewrite tab_get_set_other by exact Hne. apply E. exact Hne.
Qed.

(* no_cross_talk across descriptors, for a timeout / interrupt of a waiter: the failure tail of wait_for_fd
   (rm_interest + return) leaves the registration and the kernel arming of every OTHER descriptor intact *)
Lemma wait_fail_frame t fd interest e s fd' :
  fd <> fd' -> fd_view fd' (wait_fail t fd interest e s) = fd_view fd' s.
Proof.
  intros Hne. unfold wait_fail. unfold fd_view at 1. cbn.
  exact (rm_interest_frame fd interest s fd' Hne).
Qed.

(* ------------------------------------------------------------------ fire_only_registered *)
(* whatever one kernel event fires is registered data of that very descriptor, in a direction whose epoll bits
   intersect the reported event (ERR for the error waiter; IN/RDHUP/ERR/HUP for the reader; OUT/ERR/HUP for the writer) *)
Lemma fire_one_only_registered fd evs s d :
  In d (fst (fire_one (fd, evs) s)) ->
  fd <> s_evfd s /\ fd < s_size s /\
  let entry := tab_get fd (s_tab s) in
  (d = i_er entry /\ has evs ERRBIT = true /\ has (i_int entry) EV_ERROR = true) \/
  (d = i_rd entry /\ has evs READBITS = true /\ has (i_int entry) EV_READ = true) \/
  (d = i_wr entry /\ has evs WRITEBITS = true /\ has (i_int entry) EV_WRITE = true).
Proof.
  unfold fire_one. destruct (fd =? s_evfd s) eqn:E1; [cbn; tauto|].
  destruct (s_size s <=? fd) eqn:E2; [cbn; tauto|].
  apply Z.eqb_neq in E1. apply Z.leb_gt in E2.
  set (entry := tab_get fd (s_tab s)).
  set (fe := has evs ERRBIT && has (i_int entry) EV_ERROR).
  set (fr := has evs READBITS && has (i_int entry) EV_READ).
  set (fw := has evs WRITEBITS && has (i_int entry) EV_WRITE).
  intros Hin.
  assert (Hin' : In d ((if fe then [i_er entry] else []) ++ (if fr then [i_rd entry] else []) ++ (if fw then [i_wr entry] else []))).
  { match type of Hin with context [if ?c then _ else _] => destruct c end; exact Hin. }
  clear Hin. split; [assumption|]. split; [assumption|]. cbn zeta.
  apply in_app_or in Hin'. destruct Hin' as [H|H].
  - left. destruct fe eqn:F; [|destruct H]. destruct H as [<-|[]]. apply andb_true_iff in F. tauto.
  - apply in_app_or in H. destruct H as [H|H].
    + right; left. destruct fr eqn:F; [|destruct H]. destruct H as [<-|[]]. apply andb_true_iff in F. tauto.
    + right; right. destruct fw eqn:F; [|destruct H]. destruct H as [<-|[]]. apply andb_true_iff in F. tauto.
Qed.

(* ------------------------------------------------------------------ batch_boundary *)
(* the master engine (fdcb always true) drains the whole batch: nothing is left behind *)
Lemma process_master_drains : forall rb s acc, snd (fst (process rb None s acc)) = [].
Proof.
  induction rb as [|e r IH]; intros s acc; [reflexivity|].
  cbn [process]. destruct (fire_one e s) as [out s1]. apply IH.
Qed.

(* the cascading engine stops only when fewer than 3 output slots are left, and what it has not processed
   stays in the batch in order (it is processed by the next call before a new epoll_wait: [wait_for_events]) *)
Lemma process_leftover_suffix : forall rb room s acc, exists pre, rb = pre ++ snd (fst (process rb room s acc)).
Proof.
  induction rb as [|e r IH]; intros room s acc; [exists []; reflexivity|].
  cbn [process]. destruct (match room with None => true | Some n => 3 <=? n end).
  - destruct (fire_one e s) as [out s1].
    destruct (IH (match room with None => None | Some n => Some (n - Z.of_nat (length out)) end) s1 (acc ++ out)) as [pre Hp].
    exists (e :: pre). cbn [app]. f_equal. exact Hp.
  - exists []. reflexivity.
Qed.

(* ------------------------------------------------------------------ the finding (F32), as a theorem about the model *)
(* engine_kernel_agree — "whenever a thread waits for (fd, direction), the kernel entry of fd is armed for the
   translation of that direction" — does NOT hold: EPOLLHUP, which the kernel reports regardless of the requested
   events, consumes the one-shot arming of an EVENT_ERROR waiter, is not in ERRBIT, so nobody is woken and nothing
   re-arms the descriptor; a later EPOLLERR is never delivered. *)
Definition armed_for (s : st) (fd interest : Z) : bool :=
  match kfind fd (kn_list (s_k s)) with
  | Some e => ke_armed e && negb (Z.land (ke_events e) (translate interest) =? 0)
  | None => false
  end.
Definition engine_kernel_agree_at (s : st) : Prop :=
  forall t fd i d, In (t, Waiting fd i d) (s_thr s) -> armed_for s fd i = true.
Definition no_close (x : step) : bool := match x with SClose _ => false | SWait _ _ i _ => negb (i =? 0) | _ => true end.

Lemma engine_kernel_agree_refuted_lemma :
  exists steps, forallb no_close steps = true /\ ~ engine_kernel_agree_at (run_engine steps).
Proof.
  exists [SWait 1 5 EV_ERROR (-1); SReady 5 EPOLLHUP; SPoll; SReady 5 (Z.lor EPOLLERR EPOLLHUP); SPoll].
  split; [reflexivity|]. intros H.
  specialize (H 1 5 EV_ERROR (-1)). vm_compute in H. specialize (H (or_introl eq_refl)). discriminate.
Qed.
