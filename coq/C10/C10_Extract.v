(* Extraction of the C10 models: ExtrOcamlBasic only, no Extract Constant /
   Extract Inductive of our own; Z, positive, nat stay Coq's datatypes. *)
From Coq Require Import ZArith List.
From PV Require Import Base.U64 C10.C10_Model C10.C10_Engine C10.C10_EngineNG.
Require Extraction.
Require Import ExtrOcamlBasic.
Extraction "c10_model.ml" run_op mk_iovs recv_bufs wire run_engine run_ng.
