(* C10 part 2 — the level-triggered engine's bookkeeping (io/epoll.cpp 94-316) against a model of the
   kernel's epoll interest list with EPOLLONESHOT semantics.  Executable definitions only.

   Modelled code (pinned tree, io/epoll.cpp):
      94-115  ctl()                     118-170 add_interest      172-199 rm_interest
     201-226  do_epoll_wait (timeout 0) 227-264 wait_for_events<DataCB,FDCB>  (16-event batch, _events_remain)
     265-282  wait_for_events(data,count,timeout) (cascading)    283-293 wait_and_fire_events
     294      cancel_wait               296-315 wait_for_fd
   The kernel (an oracle for readiness, deterministic otherwise) is the same on both sides: the harness
   interposes epoll_create/epoll_ctl/epoll_wait/eventfd/eventfd_read/eventfd_write with the semantics
   written here as [k_ctl]/[k_wait]. *)
From Coq Require Import ZArith List Bool.
Import ListNotations.
Local Open Scope Z_scope.

(* photon event bits (fd-events.h 25-30) *)
Definition EV_READ : Z := 1.
Definition EV_WRITE : Z := 2.
Definition EV_ERROR : Z := 4.
Definition EV_RWE : Z := 7.
Definition ONE_SHOT : Z := 32768.            (* 0x8000 *)
Definition EV_RWEO : Z := 32775.
(* epoll bits *)
Definition EPOLLIN : Z := 1.
Definition EPOLLOUT : Z := 4.
Definition EPOLLERR : Z := 8.
Definition EPOLLHUP : Z := 16.
Definition EPOLLRDHUP : Z := 8192.           (* 0x2000 *)
Definition EPOLLONESHOT : Z := 1073741824.   (* 1<<30 *)
Definition EPOLLET : Z := 2147483648.        (* 1<<31 *)
Definition READBITS : Z := 8217.             (* IN|RDHUP|ERR|HUP *)
Definition WRITEBITS : Z := 28.              (* OUT|ERR|HUP *)
Definition ERRBIT : Z := 8.
Definition CTL_ADD : Z := 1.
Definition CTL_DEL : Z := 2.
Definition CTL_MOD : Z := 3.
(* errno *)
Definition ENOENT : Z := 2.
Definition EOK : Z := 6.                     (* ENXIO *)
Definition EEXIST : Z := 17.
Definition EINVAL : Z := 22.
Definition ETIMEDOUT : Z := 110.
Definition EALREADY : Z := 114.

Definition has (x m : Z) : bool := negb (Z.land x m =? 0).

(* events_map.h 48-54: translate_bitwisely with EVUnderlay<EPOLLIN|EPOLLRDHUP, EPOLLOUT, EPOLLERR> *)
Definition translate (ev : Z) : Z :=
  Z.lor (if has ev EV_READ then Z.lor EPOLLIN EPOLLRDHUP else 0)
        (Z.lor (if has ev EV_WRITE then EPOLLOUT else 0) (if has ev EV_ERROR then EPOLLERR else 0)).

(* ------------------------------------------------------------------ the kernel *)
Record kent := mkkent { ke_fd : Z; ke_events : Z; ke_armed : bool }.
Record kern := mkkern {
  kn_list : list kent;            (* interest list, insertion order *)
  kn_ready : list (Z * Z)         (* current (level) readiness mask per fd; absent = 0 *)
}.

Fixpoint assoc (fd : Z) (l : list (Z * Z)) : Z :=
  match l with [] => 0 | (f, v) :: r => if f =? fd then v else assoc fd r end.
Fixpoint assoc_set (fd v : Z) (l : list (Z * Z)) : list (Z * Z) :=
  match l with [] => [(fd, v)] | (f, x) :: r => if f =? fd then (f, v) :: r else (f, x) :: assoc_set fd v r end.

Fixpoint kfind (fd : Z) (l : list kent) : option kent :=
  match l with [] => None | e :: r => if ke_fd e =? fd then Some e else kfind fd r end.
Fixpoint kreplace (n : kent) (l : list kent) : list kent :=
  match l with [] => [] | e :: r => if ke_fd e =? ke_fd n then n :: r else e :: kreplace n r end.
Fixpoint kremove (fd : Z) (l : list kent) : list kent :=
  match l with [] => [] | e :: r => if ke_fd e =? fd then r else e :: kremove fd r end.

(* epoll_ctl: 0 or the errno *)
Definition k_ctl (op fd events : Z) (k : kern) : Z * kern :=
  match kfind fd (kn_list k) with
  | None =>
      if op =? CTL_ADD then (0, mkkern (kn_list k ++ [mkkent fd events true]) (kn_ready k))
      else (ENOENT, k)
  | Some _ =>
      if op =? CTL_ADD then (EEXIST, k)
      else if op =? CTL_MOD then (0, mkkern (kreplace (mkkent fd events true) (kn_list k)) (kn_ready k))
      else (0, mkkern (kremove fd (kn_list k)) (kn_ready k))
  end.

(* what the kernel would report for an entry now: (ready & ((requested & (IN|OUT|RDHUP)) | ERR | HUP)) if armed,
   written bit by bit (the mock kernel of the harness computes it with `&`; only these five bits can appear) *)
Definition bit_if (c : bool) (b : Z) : Z := if c then b else 0.
Definition reportable (k : kern) (e : kent) : Z :=
  if ke_armed e then
    let r := assoc (ke_fd e) (kn_ready k) in
    let ev := ke_events e in
    Z.lor (bit_if (has r EPOLLIN && has ev EPOLLIN) EPOLLIN)
   (Z.lor (bit_if (has r EPOLLOUT && has ev EPOLLOUT) EPOLLOUT)
   (Z.lor (bit_if (has r EPOLLRDHUP && has ev EPOLLRDHUP) EPOLLRDHUP)
   (Z.lor (bit_if (has r EPOLLERR) EPOLLERR) (bit_if (has r EPOLLHUP) EPOLLHUP))))
  else 0.

(* epoll_wait(maxevents): scan the interest list in order; one-shot and edge-triggered entries are disarmed
   when reported (one-shot: until EPOLL_CTL_MOD; edge-triggered: until the next edge = [k_kick]) *)
Fixpoint k_scan (k0 : kern) (max : nat) (l : list kent) : list (Z * Z) * list kent :=
  match l with
  | [] => ([], [])
  | e :: r =>
      match max with
      | O => ([], l)
      | S m =>
          let rep := reportable k0 e in
          if rep =? 0 then let '(evs, l') := k_scan k0 max r in (evs, e :: l')
          else
            let e' := if has (ke_events e) EPOLLONESHOT || has (ke_events e) EPOLLET
                      then mkkent (ke_fd e) (ke_events e) false else e in
            let '(evs, l') := k_scan k0 m r in ((ke_fd e, rep) :: evs, e' :: l')
      end
  end.
Definition k_wait (max : nat) (k : kern) : list (Z * Z) * kern :=
  let '(evs, l') := k_scan k max (kn_list k) in (evs, mkkern l' (kn_ready k)).

Definition k_set_ready (fd mask : Z) (k : kern) : kern := mkkern (kn_list k) (assoc_set fd mask (kn_ready k)).
(* a new edge on an edge-triggered entry (eventfd_write) *)
Definition k_kick (fd : Z) (k : kern) : kern :=
  mkkern (match kfind fd (kn_list k) with
          | Some e => kreplace (mkkent fd (ke_events e) true) (kn_list k) | None => kn_list k end)
         (assoc_set fd EPOLLIN (kn_ready k)).
(* close(fd): the kernel drops the descriptor from every interest list *)
Definition k_close (fd : Z) (k : kern) : kern := mkkern (kremove fd (kn_list k)) (assoc_set fd 0 (kn_ready k)).
Definition k_readable (k : kern) : bool := existsb (fun e => negb (reportable k e =? 0)) (kn_list k).

(* ------------------------------------------------------------------ the engine *)
Record ife := mkife { i_int : Z; i_rd : Z; i_wr : Z; i_er : Z }.      (* InFlightEvent; data 0 = nullptr *)
Definition ife0 := mkife 0 0 0 0.

Inductive ev :=
| LCtl (op fd events res : Z)            (* epoll_ctl call and its result (0 / errno) *)
| LWait (evs : list (Z * Z))             (* epoll_wait(16) result, array order *)
| LFire (data : Z)                       (* datacb(data) *)
| LRes (t ret errno : Z)                 (* thread t's wait_for_fd returned *)
| LCall (code ret : Z) (out : list Z)    (* a direct call of the driver returned: 1 add 2 rm 3 wait_for_events *)
| LMark.                                 (* a script step begins *)

Inductive wst := Waiting (fd interest deadline : Z) | Finished.

Record st := mkst {
  s_k : kern;
  s_tab : list (Z * ife);     (* _inflight_events: entries that were ever written; others are zero *)
  s_size : Z;                 (* _inflight_events.size() *)
  s_batch : list (Z * Z);     (* _events[0 .. _events_remain) *)
  s_evfd : Z;
  s_errno : Z;
  s_now : Z;
  s_thr : list (Z * wst);
  s_log : list ev             (* most recent first *)
}.

Fixpoint tab_get (fd : Z) (l : list (Z * ife)) : ife :=
  match l with [] => ife0 | (f, e) :: r => if f =? fd then e else tab_get fd r end.
Fixpoint tab_set (fd : Z) (v : ife) (l : list (Z * ife)) : list (Z * ife) :=
  match l with [] => [(fd, v)] | (f, e) :: r => if f =? fd then (f, v) :: r else (f, e) :: tab_set fd v r end.

Definition upd_k k s := mkst k (s_tab s) (s_size s) (s_batch s) (s_evfd s) (s_errno s) (s_now s) (s_thr s) (s_log s).
Definition upd_tab t s := mkst (s_k s) t (s_size s) (s_batch s) (s_evfd s) (s_errno s) (s_now s) (s_thr s) (s_log s).
Definition upd_size z s := mkst (s_k s) (s_tab s) z (s_batch s) (s_evfd s) (s_errno s) (s_now s) (s_thr s) (s_log s).
Definition upd_batch b s := mkst (s_k s) (s_tab s) (s_size s) b (s_evfd s) (s_errno s) (s_now s) (s_thr s) (s_log s).
Definition upd_errno e s := mkst (s_k s) (s_tab s) (s_size s) (s_batch s) (s_evfd s) e (s_now s) (s_thr s) (s_log s).
Definition upd_now n s := mkst (s_k s) (s_tab s) (s_size s) (s_batch s) (s_evfd s) (s_errno s) n (s_thr s) (s_log s).
Definition upd_thr t s := mkst (s_k s) (s_tab s) (s_size s) (s_batch s) (s_evfd s) (s_errno s) (s_now s) t (s_log s).
Definition add_log e s := mkst (s_k s) (s_tab s) (s_size s) (s_batch s) (s_evfd s) (s_errno s) (s_now s) (s_thr s) (e :: s_log s).

(* epoll.cpp 94-115: ctl(fd, op, events, ignore1): 0 ok, 1 error ignored, -errno *)
Definition ctl (fd op events ign : Z) (s : st) : Z * st :=
  let '(res, k') := k_ctl op fd events (s_k s) in
  let s1 := add_log (LCtl op fd events res) (upd_k k' s) in
  if res =? 0 then (0, s1)
  else
    let s2 := upd_errno res s1 in
    if (ign =? 0) || negb (ign =? res) then (- res, s2) else (1, s2).

Definition set_data (ints data : Z) (e : ife) : ife :=
  mkife (i_int e)
        (if has ints EV_READ then data else i_rd e)
        (if has ints EV_WRITE then data else i_wr e)
        (if has ints EV_ERROR then data else i_er e).

(* epoll.cpp 165-169 (label ok:) *)
Definition add_finish (fd ints data eint : Z) (s : st) : Z * st :=
  let entry := tab_get fd (s_tab s) in
  let e1 := mkife (Z.lor (i_int entry) eint) (i_rd entry) (i_wr entry) (i_er entry) in
  (0, upd_tab (tab_set fd (set_data ints data e1) (s_tab s)) s).

(* epoll.cpp 147-163: the epoll_ctl attempt(s) for the merged interests [eint] with operation [op] *)
Definition add_attempt (fd ints data op eint : Z) (s : st) : Z * st :=
  let events := translate eint in
  if has eint ONE_SHOT then
    let events := Z.lor events EPOLLONESHOT in
    if op =? CTL_MOD then
      let '(r, s1) := ctl fd op events ENOENT s in
      if r =? 0 then add_finish fd ints data eint s1
      else if 0 <? r then
        let '(r2, s2) := ctl fd CTL_ADD events 0 s1 in
        if r2 <? 0 then (-1, s2) else add_finish fd ints data eint s2
      else (-1, s1)
    else
      let '(r2, s2) := ctl fd op events 0 s in
      if r2 <? 0 then (-1, s2) else add_finish fd ints data eint s2
  else
    let '(r2, s2) := ctl fd op events 0 s in
    if r2 <? 0 then (-1, s2) else add_finish fd ints data eint s2.

(* epoll.cpp 118-146 *)
Definition add_interest (fd ints data : Z) (s : st) : Z * st :=
  if fd <? 0 then (-1, upd_errno EINVAL s)
  else if ints =? 0 then (0, s)
  else
    let s := if s_size s <=? fd then upd_size (fd * 2 + 2) s else s in
    let ints := Z.land ints EV_RWEO in
    let entry := tab_get fd (s_tab s) in
    let eint0 := Z.land (i_int entry) EV_RWEO in
    if eint0 =? 0 then add_attempt fd ints data CTL_ADD ints s
    else if has (Z.lxor eint0 ints) ONE_SHOT then (-1, upd_errno EALREADY s)
    else
      let inter := Z.land ints eint0 in
      let dmask := Z.lor (if i_rd entry =? data then 0 else EV_READ)
                  (Z.lor (if i_wr entry =? data then 0 else EV_WRITE)
                         (if i_er entry =? data then 0 else EV_ERROR)) in
      if has inter dmask then (-1, upd_errno EALREADY s)
      else add_attempt fd ints data CTL_MOD (Z.lor eint0 ints) s.

(* epoll.cpp 172-199 *)
Definition rm_interest (fd ints : Z) (s : st) : Z * st :=
  if (fd <? 0) || (s_size s <=? fd) then (-1, upd_errno EINVAL s)
  else if ints =? 0 then (0, s)
  else
    let entry := tab_get fd (s_tab s) in
    let eint := Z.land (i_int entry) EV_RWEO in
    let inter := Z.land ints eint in
    if inter =? 0 then (0, s)
    else
      let remain := Z.lxor eint inter in
      let fin (s : st) : Z * st :=
        let e1 := mkife (Z.lxor (i_int entry) inter)
                        (if has inter EV_READ then 0 else i_rd entry)
                        (if has inter EV_WRITE then 0 else i_wr entry)
                        (if has inter EV_ERROR then 0 else i_er entry) in
        (0, upd_tab (tab_set fd e1 (s_tab s)) s) in
      if remain =? ONE_SHOT then fin s
      else if remain =? 0 then
        let '(r, s1) := ctl fd CTL_DEL 0 ENOENT s in
        if r <? 0 then (-1, s1) else fin s1
      else
        let events := translate remain in
        let events := if has remain ONE_SHOT then Z.lor events EPOLLONESHOT else events in
        let '(r, s1) := ctl fd CTL_MOD events 0 s in
        if r <? 0 then (-1, s1) else fin s1.

(* one event of the batch: epoll.cpp 236-262; returns the data values handed to datacb, in order *)
Definition fire_one (e : Z * Z) (s : st) : list Z * st :=
  let '(fd, evs) := e in
  if fd =? s_evfd s then ([], upd_k (k_set_ready fd 0 (s_k s)) s)        (* eventfd_read *)
  else if s_size s <=? fd then ([], s)
  else
    let entry := tab_get fd (s_tab s) in
    let fe := has evs ERRBIT && has (i_int entry) EV_ERROR in
    let fr := has evs READBITS && has (i_int entry) EV_READ in
    let fw := has evs WRITEBITS && has (i_int entry) EV_WRITE in
    let events := Z.lor (if fe then EV_ERROR else 0) (Z.lor (if fr then EV_READ else 0) (if fw then EV_WRITE else 0)) in
    let out := (if fe then [i_er entry] else []) ++ (if fr then [i_rd entry] else []) ++ (if fw then [i_wr entry] else []) in
    let s1 := fold_left (fun s d => add_log (LFire d) s) out s in
    if negb (events =? 0) && has (i_int entry) ONE_SHOT then (out, snd (rm_interest fd events s1))
    else (out, s1).

(* the while loop of wait_for_events over the batch taken from its END; [room] = None: fdcb() is always
   true (master), Some n: n output slots are left and fdcb() = (n >= 3) (cascading) *)
Fixpoint process (rb : list (Z * Z)) (room : option Z) (s : st) (acc : list Z) : list Z * list (Z * Z) * st :=
  match rb with
  | [] => (acc, [], s)
  | e :: r =>
      let go := match room with None => true | Some n => 3 <=? n end in
      if go then
        let '(out, s1) := fire_one e s in
        process r (match room with None => None | Some n => Some (n - Z.of_nat (length out)) end) s1 (acc ++ out)
      else (acc, rb, s)
  end.

(* epoll.cpp 227-264 with timeout 0 *)
Definition wait_for_events (room : option Z) (s : st) : list Z * st :=
  let s1 :=
    match s_batch s with
    | [] => let '(evs, k') := k_wait 16 (s_k s) in
            add_log (LWait evs) (upd_batch evs (upd_k k' s))
    | _ => s
    end in
  let '(out, lft, s2) := process (rev (s_batch s1)) room s1 [] in
  (out, upd_batch (rev lft) s2).

(* ------------------------------------------------------------------ threads (the callers of wait_for_fd) *)
Fixpoint thr_get (t : Z) (l : list (Z * wst)) : option wst :=
  match l with [] => None | (x, w) :: r => if x =? t then Some w else thr_get t r end.
Fixpoint thr_set (t : Z) (w : wst) (l : list (Z * wst)) : list (Z * wst) :=
  match l with [] => [(t, w)] | (x, v) :: r => if x =? t then (x, w) :: r else (x, v) :: thr_set t w r end.

(* epoll.cpp 311-314: the failure tail of wait_for_fd (timeout: ret = 0; interrupted: errno e) *)
Definition wait_fail (t fd interest e : Z) (s : st) : st :=
  let s1 := snd (rm_interest fd interest s) in
  add_log (LRes t (-1) e) (upd_thr (thr_set t Finished (s_thr s1)) s1).

(* epoll.cpp 296-306: wait_for_fd up to the sleep; tmo < 0 means "never" *)
Definition wait_for_fd_begin (t fd interest tmo : Z) (s : st) : st :=
  let fin ret s := add_log (LRes t ret (if ret <? 0 then s_errno s else 0)) (upd_thr (thr_set t Finished (s_thr s)) s) in
  if fd <? 0 then fin (-1) (upd_errno EINVAL s)
  else if negb (Z.land interest (interest - 1) =? 0) then fin (-1) (upd_errno EINVAL s)
  else if interest =? 0 then
    let '(r, s1) := rm_interest fd (Z.lor EV_RWE ONE_SHOT) s in fin r s1
  else
    let '(r, s1) := add_interest fd (Z.lor interest ONE_SHOT) t s in
    if r <? 0 then fin (-1) s1
    else if tmo =? 0 then wait_fail t fd interest ETIMEDOUT s1            (* thread_usleep(expired) returns 0 *)
    else upd_thr (thr_set t (Waiting fd interest (if tmo <? 0 then -1 else s_now s1 + tmo)) (s_thr s1)) s1.

(* thread_interrupt(th, e) for each fired thread; then the woken threads run: EOK -> return 0 *)
Definition wake_event (s : st) (t : Z) : st :=
  match thr_get t (s_thr s) with
  | Some (Waiting _ _ _) => add_log (LRes t 0 0) (upd_thr (thr_set t Finished (s_thr s)) s)
  | _ => s
  end.

(* the earliest finite deadline <= limit among waiting threads *)
Fixpoint next_expiry (limit : Z) (l : list (Z * wst)) (best : option (Z * Z * Z * Z)) : option (Z * Z * Z * Z) :=
  match l with
  | [] => best
  | (t, Waiting fd i d) :: r =>
      if (0 <=? d) && (d <=? limit) && (match best with Some (_, _, _, bd) => d <? bd | None => true end)
      then next_expiry limit r (Some (t, fd, i, d)) else next_expiry limit r best
  | _ :: r => next_expiry limit r best
  end.
Fixpoint expire_until (fuel : nat) (limit : Z) (s : st) : st :=
  match fuel with
  | O => s
  | S f =>
      match next_expiry limit (s_thr s) None with
      | None => s
      | Some (t, fd, i, d) => expire_until f limit (wait_fail t fd i ETIMEDOUT (upd_now d s))
      end
  end.

(* ------------------------------------------------------------------ scripts *)
Inductive step :=
| SWait (t fd interest tmo : Z)      (* a new photon thread t calls wait_for_fd(fd, interest, tmo) *)
| SReady (fd mask : Z)               (* the kernel's readiness of fd becomes mask *)
| SPoll                              (* wait_and_fire_events(0), then the woken threads run *)
| SIntr (t e : Z)                    (* thread_interrupt(t, e), then t runs *)
| SSleep (d : Z)                     (* d us pass: waiters whose deadline is reached time out, in deadline order *)
| SKick                              (* cancel_wait() *)
| SClose (fd : Z)                    (* the descriptor is closed behind the engine's back *)
| SAdd (fd ints data : Z)            (* cascading use: add_interest / rm_interest / wait_for_events(data, count, tmo) *)
| SRm (fd ints data : Z)
| SEvents (count tmo : Z).

Definition do_step (x : step) (s : st) : st :=
  match x with
  | SWait t fd i tmo => wait_for_fd_begin t fd i tmo s
  | SReady fd m => upd_k (k_set_ready fd m (s_k s)) s
  | SPoll =>
      let '(out, s1) := wait_for_events None s in
      fold_left wake_event out s1
  | SIntr t e =>
      match thr_get t (s_thr s) with
      | Some (Waiting fd i _) => if e =? EOK then wake_event s t else wait_fail t fd i e s
      | _ => s
      end
  | SSleep d =>
      let lim := s_now s + d in
      upd_now lim (expire_until (length (s_thr s)) lim s)
  | SKick => upd_k (k_kick (s_evfd s) (s_k s)) s
  | SClose fd => upd_k (k_close fd (s_k s)) s
  | SAdd fd ints data => let '(r, s1) := add_interest fd ints data s in add_log (LCall 1 r []) s1
  | SRm fd ints data => let '(r, s1) := rm_interest fd ints s in add_log (LCall 2 r []) s1
  | SEvents count tmo =>
      (* wait_for_fd_readable(_engine_fd, timeout) on the master engine, then wait_for_events(0, ...) *)
      if k_readable (s_k s) then
        let '(out, s1) := wait_for_events (Some count) s in
        add_log (LCall 3 (Z.of_nat (length out)) out) s1
      else add_log (LCall 3 0 []) (upd_now (s_now s + tmo) s)
  end.

(* EventEngineEPoll::init(): epoll_create, eventfd, ctl(evfd, ADD, EPOLLIN|EPOLLRDHUP|EPOLLET) *)
Definition EVFD : Z := 901.
Definition init_st : st :=
  snd (ctl EVFD CTL_ADD (Z.lor (Z.lor EPOLLIN EPOLLRDHUP) EPOLLET) 0
           (mkst (mkkern [] []) [] 0 [] EVFD 0 1000 [] [])).
Definition run_engine (steps : list step) : st := fold_left (fun s x => do_step x (add_log LMark s)) steps init_st.
