(* C10 part 2 — engine_kernel_agree, continued: the invariant and its preservation by every step. *)
From Coq Require Import ZArith List Lia Bool.
From PV Require Import C10.C10_Engine C10.C10_ProofsEngine C10.C10_ProofsRearm C10.C10_ProofsAgree.
Import ListNotations.
Local Open Scope Z_scope.

(* ------------------------------------------------------------------ the thread table *)
Lemma thr_get_in t l w : thr_get t l = Some w -> In (t, w) l.
Proof.
  induction l as [|[x v] r IH]; [discriminate|]. cbn [thr_get]. destruct (x =? t) eqn:E.
  - apply Z.eqb_eq in E. subst x. intros H; inversion H; subst. left; reflexivity.
  - intros H. right. apply IH. exact H.
Qed.
Lemma thr_get_none t l : thr_get t l = None -> ~ In t (map fst l).
Proof.
  induction l as [|[x v] r IH]; [intros _ []|]. cbn [thr_get map fst]. destruct (x =? t) eqn:E; [discriminate|].
  apply Z.eqb_neq in E. intros H [H1|H1]; [contradiction|]. exact (IH H H1).
Qed.
Lemma thr_set_keys_in t w l x : In x (map fst (thr_set t w l)) -> x = t \/ In x (map fst l).
Proof.
  induction l as [|[y v] r IH]; cbn [thr_set map fst].
  - intros [H|[]]; left; auto.
  - destruct (y =? t) eqn:E; cbn [map fst]; intros [H|H].
    + apply Z.eqb_eq in E. left. congruence.
    + right. right. exact H.
    + right. left. exact H.
    + destruct (IH H); [left|right; right]; assumption.
Qed.
Lemma thr_set_nodup t w l : NoDup (map fst l) -> NoDup (map fst (thr_set t w l)).
Proof.
  induction l as [|[y v] r IH]; cbn [thr_set map fst]; intros H.
  - constructor; [intros []|constructor].
  - inversion H as [|? ? Hn Hr]; subst. destruct (y =? t) eqn:E; cbn [map fst].
    + constructor; assumption.
    + constructor; [|apply IH; assumption]. intros Hin. apply thr_set_keys_in in Hin.
      apply Z.eqb_neq in E. destruct Hin; [congruence|contradiction].
Qed.
Lemma thr_set_in t w l t' w' : NoDup (map fst l) -> In (t', w') (thr_set t w l) ->
  (t' = t /\ w' = w) \/ (t' <> t /\ In (t', w') l).
Proof.
  induction l as [|[y v] r IH]; cbn [thr_set map fst]; intros Hn H.
  - destruct H as [H|[]]. inversion H; subst. left; auto.
  - inversion Hn as [|? ? Hy Hr]; subst. destruct (y =? t) eqn:E.
    + apply Z.eqb_eq in E. subst y. destruct H as [H|H]; [inversion H; subst; left; auto|].
      right. split; [|right; exact H]. intros ->. apply Hy. apply (in_map fst) in H. exact H.
    + apply Z.eqb_neq in E. destruct H as [H|H]; [inversion H; subst; right; split; [exact E|left; reflexivity]|].
      destruct (IH Hr H) as [?|[? ?]]; [left; assumption|right; split; [assumption|right; assumption]].
Qed.

(* ------------------------------------------------------------------ the invariant *)
Definition will_fire (m rep : Z) : bool :=
  (has rep ERRBIT && has m EV_ERROR) || (has rep READBITS && has m EV_READ) || (has rep WRITEBITS && has m EV_WRITE).

Definition kern_ok (s : st) (pending : list (Z * Z)) : Prop :=
  forall fd m, 1 <= m <= 7 -> i_int (tab_get fd (s_tab s)) = ONE_SHOT + m ->
    exists e, kfind fd (kn_list (s_k s)) = Some e /\ ke_events e = Z.lor (translate m) EPOLLONESHOT /\
      (ke_armed e = true \/ exists rep, In (fd, rep) pending /\ will_fire m rep = true).

Record Inv0 (s : st) : Prop := mkInv0 {
  i_valid : forall fd, valid_int (i_int (tab_get fd (s_tab s)));
  i_rng : forall fd, i_int (tab_get fd (s_tab s)) <> 0 -> 0 <= fd < s_size s;
  i_evfd : s_evfd s = EVFD /\ (exists e, kfind EVFD (kn_list (s_k s)) = Some e) /\ i_int (tab_get EVFD (s_tab s)) = 0;
  i_keys : NoDup (map fst (s_thr s)) }.

Definition wait_ok (s : st) (fired : list Z) : Prop :=
  forall t fd i d, In (t, Waiting fd i d) (s_thr s) ->
    is_dir i /\ ((has (i_int (tab_get fd (s_tab s))) i = true /\ dir_data i (tab_get fd (s_tab s)) = t) \/ In t fired).

Definition Pinv (s : st) (pending : list (Z * Z)) (fired : list Z) : Prop := Inv0 s /\ kern_ok s pending /\ wait_ok s fired.
Definition Inv (s : st) : Prop := Pinv s [] [] /\ s_batch s = [].

(* states that differ only in log / errno / now / batch *)
Definition same_core (s s' : st) : Prop :=
  s_tab s' = s_tab s /\ kn_list (s_k s') = kn_list (s_k s) /\ s_size s' = s_size s /\ s_thr s' = s_thr s /\ s_evfd s' = s_evfd s.
Lemma Pinv_core s s' P f : same_core s s' -> Pinv s P f -> Pinv s' P f.
Proof.
  intros (T & K & Sz & Th & Ev) ([V R E N] & Hk & Hw). split; [|split].
  - constructor; rewrite ?T, ?K, ?Sz, ?Th, ?Ev; assumption.
  - unfold kern_ok. rewrite T, K. exact Hk.
  - unfold wait_ok. rewrite T, Th. exact Hw.
Qed.

Lemma dir_has_mask m i : 0 <= m <= 7 -> is_dir i -> has (ONE_SHOT + m) i = has m i.
Proof. intros H [-> | [-> | ->]]; enum7 m; reflexivity. Qed.

Lemma dir_data_rm F m j entry : is_dir j -> has F j = false ->
  dir_data j (mkife (ONE_SHOT + minus m F) (if has F 1 && has m 1 then 0 else i_rd entry)
                    (if has F 2 && has m 2 then 0 else i_wr entry) (if has F 4 && has m 4 then 0 else i_er entry))
  = dir_data j entry.
Proof. intros [-> | [-> | ->]] H; unfold dir_data; cbn [Z.eqb Pos.eqb i_rd i_wr i_er]; rewrite H; reflexivity. Qed.

(* ------------------------------------------------------------------ removing directions F of descriptor fd *)
Lemma rm_pres s fd F m P P' fired :
  Pinv s P fired ->
  (forall fd' rep, fd' <> fd -> In (fd', rep) P -> In (fd', rep) P') ->
  1 <= F <= 7 -> 0 <= m <= 7 -> i_int (tab_get fd (s_tab s)) = ONE_SHOT + m -> Z.land F m <> 0 ->
  forall fired',
  (forall t i d, In (t, Waiting fd i d) (s_thr s) -> In t fired \/ has F i = false \/ In t fired') ->
  (forall t, In t fired -> In t fired') ->
  Pinv (snd (rm_interest fd F s)) P' fired' /\ s_thr (snd (rm_interest fd F s)) = s_thr s.
Proof.
  intros ([V R E N] & Hk & Hw) HP HF Hm Hint Hne fired' Hfd' Hsub.
  assert (Hrng : 0 <= fd < s_size s) by (apply R; rewrite Hint; unfold ONE_SHOT; lia).
  assert (Hent : 1 <= minus m F -> exists e0, kfind fd (kn_list (s_k s)) = Some e0).
  { intros _. assert (Hm1 : 1 <= m <= 7).
    { split; [|lia]. destruct (Z.eq_dec m 0) as [->|]; [|lia]. exfalso. apply Hne. apply Z.land_0_r. }
    destruct (Hk fd m Hm1 Hint) as (e & He & _). exists e. exact He. }
  destruct (rm_spec fd F m s Hrng HF Hm Hint Hent) as [(Hz & _)|(_ & Ht & Hk0 & Hk1)]; [contradiction|].
  destruct (rm_misc fd F s) as (Sz & Th & Ev & Ba & No & Rd).
  assert (Hfr : forall fd', fd <> fd' -> tab_get fd' (s_tab (snd (rm_interest fd F s))) = tab_get fd' (s_tab s) /\
                                kfind fd' (kn_list (s_k (snd (rm_interest fd F s)))) = kfind fd' (kn_list (s_k s))).
  { intros fd' Hd. pose proof (rm_interest_frame fd F s fd' Hd) as Fr. unfold fd_view in Fr. inversion Fr. auto. }
  destruct (ar_rm F m ltac:(lia) Hm) as (_ & _ & R3 & _).
  assert (Hfe : fd <> EVFD).
  { intros ->. destruct E as (_ & _ & E0). rewrite E0 in Hint. unfold ONE_SHOT in Hint. lia. }
  split; [|exact Th]. split; [|split].
  - constructor.
    + intros fd'. destruct (Z.eq_dec fd fd') as [<-|Hd].
      * rewrite Ht. cbn [i_int]. right. exists (minus m F). auto.
      * rewrite (proj1 (Hfr fd' Hd)). apply V.
    + intros fd'. rewrite Sz. destruct (Z.eq_dec fd fd') as [<-|Hd]; [intros _; exact Hrng|].
      rewrite (proj1 (Hfr fd' Hd)). apply R.
    + rewrite Ev. destruct E as (E1 & E2 & E3). split; [exact E1|].
      rewrite (proj1 (Hfr EVFD Hfe)), (proj2 (Hfr EVFD Hfe)). auto.
    + rewrite Th. exact N.
  - intros fd' m' Hm' Hi'. destruct (Z.eq_dec fd fd') as [<-|Hd].
    + rewrite Ht in Hi'. cbn [i_int] in Hi'. assert (m' = minus m F) by (unfold ONE_SHOT in Hi'; lia). subst m'.
      eexists. split; [apply Hk1; lia|]. split; [reflexivity|]. left. reflexivity.
    + rewrite (proj1 (Hfr fd' Hd)) in Hi'. rewrite (proj2 (Hfr fd' Hd)).
      destruct (Hk fd' m' Hm' Hi') as (e & A & B & C). exists e. split; [exact A|]. split; [exact B|].
      destruct C as [C|(rep & C1 & C2)]; [left; exact C|right]. exists rep. split; [|exact C2]. apply HP; [congruence|exact C1].
  - intros t fd' i d Hin. rewrite Th in Hin. destruct (Hw t fd' i d Hin) as (Hdir & Hreg). split; [exact Hdir|].
    destruct Hreg as [(Hh & Hd)|Hf]; [|right; apply Hsub; exact Hf].
    destruct (Z.eq_dec fd fd') as [<-|Hdf].
    + destruct (Hfd' t i d Hin) as [Hf|[Hnf|Hf]]; [right; apply Hsub; exact Hf| |right; exact Hf].
      left. rewrite Ht. cbn [i_int]. rewrite (dir_has_mask _ i R3 Hdir), (ar_rm_has F m i ltac:(lia) Hm Hdir).
      rewrite Hint, (dir_has_mask m i Hm Hdir) in Hh. rewrite Hh, Hnf. split; [reflexivity|].
      rewrite (dir_data_rm F m i _ Hdir Hnf). exact Hd.
    + left. rewrite (proj1 (Hfr fd' Hdf)). auto.
Qed.

Lemma in_thr_get t w l : NoDup (map fst l) -> In (t, w) l -> thr_get t l = Some w.
Proof.
  induction l as [|[y v] r IH]; [intros _ []|]. cbn [map fst thr_get]. intros Hn [H|H].
  - inversion H; subst. rewrite Z.eqb_refl. reflexivity.
  - inversion Hn as [|? ? Hy Hr]; subst. destruct (y =? t) eqn:E.
    + apply Z.eqb_eq in E. subst y. exfalso. apply Hy. apply (in_map fst) in H. exact H.
    + apply IH; assumption.
Qed.

Lemma kern_ok_drop s fd rep r :
  kern_ok s ((fd, rep) :: r) ->
  (forall m, 1 <= m <= 7 -> i_int (tab_get fd (s_tab s)) = ONE_SHOT + m -> will_fire m rep = false) ->
  kern_ok s r.
Proof.
  intros Hk Hn fd' m Hm Hi. destruct (Hk fd' m Hm Hi) as (e & A & B & C). exists e. split; [exact A|]. split; [exact B|].
  destruct C as [C|(rep' & [C1|C1] & C2)]; [left; exact C| |right; exists rep'; auto].
  inversion C1; subst. rewrite (Hn m Hm Hi) in C2. discriminate.
Qed.

Lemma ar_fire a b c m : 0 <= m <= 7 ->
  let fe := a && has m 4 in let fr := b && has m 1 in let fw := c && has m 2 in
  let F := Z.lor (if fe then EV_ERROR else 0) (Z.lor (if fr then EV_READ else 0) (if fw then EV_WRITE else 0)) in
  (F =? 0) = negb (fe || fr || fw) /\ 0 <= F <= 7 /\ (fe || fr || fw = true -> Z.land F m <> 0) /\
  has F 4 = fe /\ has F 1 = fr /\ has F 2 = fw.
Proof. intros H. destruct a, b, c; enum7 m; cbn; repeat split; try lia; try discriminate. Qed.

Lemma fold_log_core out : forall s, same_core s (fold_left (fun s d => add_log (LFire d) s) out s).
Proof.
  induction out as [|d r IH]; intros s; [repeat split|]. cbn [fold_left].
  destruct (IH (add_log (LFire d) s)) as (A & B & C & D & E). repeat split; assumption.
Qed.

Lemma fire_one_pres s fd rep r acc :
  Pinv s ((fd, rep) :: r) acc ->
  Pinv (snd (fire_one (fd, rep) s)) r (acc ++ fst (fire_one (fd, rep) s)) /\
  s_thr (snd (fire_one (fd, rep) s)) = s_thr s.
Proof.
  intros HP. pose proof HP as ([V R E N] & Hk & Hw). unfold fire_one.
  assert (Hweak : forall s', same_core s s' ->
            (forall m, 1 <= m <= 7 -> i_int (tab_get fd (s_tab s)) = ONE_SHOT + m -> will_fire m rep = false) ->
            Pinv s' r (acc ++ [])).
  { intros s' Hc Hn. rewrite app_nil_r. apply (Pinv_core s s' r acc Hc).
    split; [constructor; assumption|]. split; [eapply kern_ok_drop; eassumption|exact Hw]. }
  destruct (fd =? s_evfd s) eqn:E1.
  - apply Z.eqb_eq in E1. cbn [fst snd]. split; [|reflexivity]. apply Hweak; [repeat split|].
    intros m Hm Hi. destruct E as (E0 & _ & E3). rewrite E1, E0, E3 in Hi. unfold ONE_SHOT in Hi. lia.
  - destruct (s_size s <=? fd) eqn:E2.
    + apply Z.leb_le in E2. cbn [fst snd]. split; [|reflexivity]. apply Hweak; [repeat split|].
      intros m Hm Hi. assert (0 <= fd < s_size s) by (apply R; rewrite Hi; unfold ONE_SHOT; lia). lia.
    + set (entry := tab_get fd (s_tab s)).
      destruct (V fd) as [Hx|(m & Hm & Hx)]; fold entry in Hx.
      * rewrite Hx. replace (has 0 EV_ERROR) with false by reflexivity. replace (has 0 EV_READ) with false by reflexivity.
        replace (has 0 EV_WRITE) with false by reflexivity. rewrite !andb_false_r. cbn [app fold_left fst snd Z.lor Z.eqb negb andb].
        split; [|reflexivity]. apply Hweak; [repeat split|]. intros m Hm Hi. fold entry in Hi. rewrite Hx in Hi. unfold ONE_SHOT in Hi. lia.
      * rewrite Hx. change EV_ERROR with 4. change EV_READ with 1. change EV_WRITE with 2.
        rewrite !(dir_has_mask m) by (auto; unfold is_dir; auto).
        destruct (ar_fire (has rep ERRBIT) (has rep READBITS) (has rep WRITEBITS) m Hm) as (F0 & Frng & Fne & F4 & F1 & F2).
        change EV_ERROR with 4 in *. change EV_READ with 1 in *. change EV_WRITE with 2 in *.
        set (fe := has rep ERRBIT && has m 4) in *. set (fr := has rep READBITS && has m 1) in *.
        set (fw := has rep WRITEBITS && has m 2) in *.
        set (F := Z.lor (if fe then 4 else 0) (Z.lor (if fr then 1 else 0) (if fw then 2 else 0))) in *.
        set (out := (if fe then [i_er entry] else []) ++ (if fr then [i_rd entry] else []) ++ (if fw then [i_wr entry] else [])).
        set (s1 := fold_left (fun s d => add_log (LFire d) s) out s).
        pose proof (fold_log_core out s) as Hc1. fold s1 in Hc1.
        rewrite F0. destruct (ar_mask m Hm) as (_ & _ & Hos & _). rewrite Hos.
        destruct (fe || fr || fw) eqn:Efire; cbn [negb andb fst snd].
        -- (* something fires: rm_interest(fd, F) *)
           assert (HF : 1 <= F <= 7).
           { split; [|lia]. destruct (Z.eq_dec F 0) as [Hz|]; [|lia]. exfalso. apply (Fne eq_refl). rewrite Hz. reflexivity. }
           pose proof (Pinv_core s s1 _ _ Hc1 HP) as HP1. destruct Hc1 as (T1 & K1 & S1 & Th1 & Ev1).
           assert (Hint1 : i_int (tab_get fd (s_tab s1)) = ONE_SHOT + m) by (rewrite T1; exact Hx).
           destruct (rm_pres s1 fd F m ((fd, rep) :: r) r acc HP1) with (fired' := acc ++ out) as [A B]; try assumption.
           ++ intros fd' rep' Hne [Hin|Hin]; [inversion Hin; congruence|exact Hin].
           ++ apply Fne. reflexivity.
           ++ intros t i d Hin. rewrite Th1 in Hin. destruct (Hw t fd i d Hin) as (Hdir & [(Hh & Hd)|Hf]); [|left; exact Hf].
              destruct (has F i) eqn:EF; [|right; left; reflexivity]. right. right. apply in_or_app. right.
              fold entry in Hd. subst out. unfold dir_data in Hd.
              destruct Hdir as [-> | [-> | ->]]; cbn [Z.eqb Pos.eqb] in Hd.
              ** rewrite F1 in EF. rewrite EF. apply in_or_app. right. apply in_or_app. left. left. exact Hd.
              ** rewrite F2 in EF. rewrite EF. apply in_or_app. right. apply in_or_app. right. left. exact Hd.
              ** rewrite F4 in EF. rewrite EF. apply in_or_app. left. left. exact Hd.
           ++ intros t Hin. apply in_or_app. left. exact Hin.
           ++ split; [exact A|]. rewrite B. exact Th1.
        -- (* nothing fires *)
           assert (Hout : out = []).
           { subst out. apply orb_false_iff in Efire. destruct Efire as [Ef Ew]. apply orb_false_iff in Ef. destruct Ef as [Ee Er].
             rewrite Ee, Er, Ew. reflexivity. }
           subst s1. rewrite Hout in *. cbn [fold_left] in *. split; [|reflexivity]. apply Hweak; [repeat split|].
           intros m' Hm' Hi'. fold entry in Hi'. rewrite Hx in Hi'. assert (m' = m) by (unfold ONE_SHOT in Hi'; lia). subst m'.
           unfold will_fire. change EV_ERROR with 4. change EV_READ with 1. change EV_WRITE with 2. exact Efire.
Qed.

Lemma process_pres : forall rb s acc,
  Pinv s rb acc ->
  Pinv (snd (process rb None s acc)) [] (fst (fst (process rb None s acc))) /\
  s_thr (snd (process rb None s acc)) = s_thr s.
Proof.
  induction rb as [|[fd rep] r IH]; intros s acc HP; [cbn; auto|].
  cbn [process]. destruct (fire_one (fd, rep) s) as [out s1] eqn:Ef.
  pose proof (fire_one_pres s fd rep r acc HP) as [A B]. rewrite Ef in A, B. cbn [fst snd] in A, B.
  destruct (IH s1 (acc ++ out) A) as [C D]. split; [exact C|]. rewrite D. exact B.
Qed.
