(* C10 part 2 — no_cross_talk for the other direction(s) of the SAME descriptor (the MOD-after-one-shot case):
   when one direction of a one-shot entry is removed (its event fired, or its waiter timed out / was interrupted)
   while other directions are still registered, those stay registered with their data and the kernel entry is
   re-armed for exactly them. *)
From Coq Require Import ZArith List Lia Bool.
From PV Require Import C10.C10_Engine C10.C10_ProofsEngine.
Import ListNotations.
Local Open Scope Z_scope.

Lemma kfind_kreplace_same fd ev a l e0 :
  kfind fd l = Some e0 -> kfind fd (kreplace (mkkent fd ev a) l) = Some (mkkent fd ev a).
Proof.
  induction l as [|e r IH]; [discriminate|]. cbn [kfind kreplace ke_fd].
  destruct (ke_fd e =? fd) eqn:E.
  - intros _. cbn [kfind ke_fd]. rewrite Z.eqb_refl. reflexivity.
  - intros H. cbn [kfind]. rewrite E. apply IH. exact H.
Qed.

Lemma tab_get_set_same fd v l : tab_get fd (tab_set fd v l) = v.
Proof.
  induction l as [|[f e] r IH]; cbn [tab_set tab_get].
  - rewrite Z.eqb_refl. reflexivity.
  - destruct (f =? fd) eqn:E; cbn [tab_get]; rewrite E; [reflexivity|exact IH].
Qed.

Lemma ctl_mod_existing fd ev s e0 :
  kfind fd (kn_list (s_k s)) = Some e0 ->
  ctl fd CTL_MOD ev 0 s =
  (0, add_log (LCtl CTL_MOD fd ev 0)
        (upd_k (mkkern (kreplace (mkkent fd ev true) (kn_list (s_k s))) (kn_ready (s_k s))) s)).
Proof. intros H. unfold ctl, k_ctl. rewrite H. reflexivity. Qed.

(* the MOD branch of rm_interest, with the bit computations as hypotheses *)
Lemma rm_interest_mod_case fd ints s e0 :
  (fd <? 0) || (s_size s <=? fd) = false ->
  (ints =? 0) = false ->
  let entry := tab_get fd (s_tab s) in
  let eint := Z.land (i_int entry) EV_RWEO in
  let inter := Z.land ints eint in
  let remain := Z.lxor eint inter in
  (inter =? 0) = false -> (remain =? ONE_SHOT) = false -> (remain =? 0) = false ->
  kfind fd (kn_list (s_k s)) = Some e0 ->
  let events := if has remain ONE_SHOT then Z.lor (translate remain) EPOLLONESHOT else translate remain in
  let r := rm_interest fd ints s in
  fst r = 0 /\
  tab_get fd (s_tab (snd r)) =
    mkife (Z.lxor (i_int entry) inter)
          (if has inter EV_READ then 0 else i_rd entry)
          (if has inter EV_WRITE then 0 else i_wr entry)
          (if has inter EV_ERROR then 0 else i_er entry) /\
  kfind fd (kn_list (s_k (snd r))) = Some (mkkent fd events true).
Proof.
  intros Hb Hi entry eint inter remain H1 H2 H3 Hk events r.
  subst r. unfold rm_interest. rewrite Hb, Hi.
  fold entry. fold eint. fold inter. rewrite H1. fold remain. rewrite H2, H3.
  fold events. rewrite (ctl_mod_existing fd events s e0 Hk).
  cbn [fst snd]. replace (0 <? 0) with false by reflexivity. cbn [fst snd].
  split; [reflexivity|]. split.
  - cbn [s_tab upd_tab]. apply tab_get_set_same.
  - cbn [s_k upd_tab add_log upd_k kn_list]. eapply kfind_kreplace_same. exact Hk.
Qed.

(* the statement for the masks the engine actually uses: entry = ONE_SHOT | m with m a set of directions,
   d one registered direction, at least one other direction registered *)
Lemma rm_one_direction_rearms_others_lemma : forall fd d m s e0,
  0 <= fd < s_size s -> (d = EV_READ \/ d = EV_WRITE \/ d = EV_ERROR) -> 0 <= m <= 7 ->
  Z.land d m = d -> m <> d ->
  i_int (tab_get fd (s_tab s)) = ONE_SHOT + m ->
  kfind fd (kn_list (s_k s)) = Some e0 ->
  let entry := tab_get fd (s_tab s) in
  let r := rm_interest fd d s in
  let entry' := tab_get fd (s_tab (snd r)) in
  fst r = 0 /\
  i_int entry' = ONE_SHOT + (m - d) /\
  (d <> EV_READ -> i_rd entry' = i_rd entry) /\
  (d <> EV_WRITE -> i_wr entry' = i_wr entry) /\
  (d <> EV_ERROR -> i_er entry' = i_er entry) /\
  kfind fd (kn_list (s_k (snd r))) = Some (mkkent fd (Z.lor (translate (m - d)) EPOLLONESHOT) true).
Proof.
  intros fd d m s e0 Hfd Hd Hm Hland Hne Hint Hk entry r entry'.
  assert (Hb : (fd <? 0) || (s_size s <=? fd) = false).
  { apply orb_false_iff. split; [apply Z.ltb_ge; lia | apply Z.leb_gt; lia]. }
  assert (Hcases : m = 0 \/ m = 1 \/ m = 2 \/ m = 3 \/ m = 4 \/ m = 5 \/ m = 6 \/ m = 7) by lia.
  unfold EV_READ, EV_WRITE, EV_ERROR in *.
  destruct Hd as [-> | [-> | ->]];
    destruct Hcases as [-> | [-> | [-> | [-> | [-> | [-> | [-> | ->]]]]]]];
    try (exfalso; cbn in Hland; lia); try (exfalso; apply Hne; reflexivity);
    (match goal with r0 := rm_interest fd ?dd s |- _ => destruct (rm_interest_mod_case fd dd s e0 Hb eq_refl) as (R1 & R2 & R3) end;
       [ rewrite Hint; reflexivity | rewrite Hint; reflexivity | rewrite Hint; reflexivity | exact Hk | ];
     subst r entry' entry; rewrite Hint in R2, R3;
     split; [exact R1|]; rewrite R2; cbn [i_int i_rd i_wr i_er];
     split; [reflexivity|]; split; [intros; try reflexivity; try congruence|];
     split; [intros; try reflexivity; try congruence|]; split; [intros; try reflexivity; try congruence|];
     exact R3).
Qed.

(* the hypotheses are met by the state in which a reader and a writer wait on descriptor 5 (m = READ|WRITE, d = READ) *)
Example rearm_hypotheses_hold :
  let s := run_engine [SWait 1 5 EV_READ (-1); SWait 2 5 EV_WRITE (-1)] in
  0 <= 5 < s_size s /\ Z.land EV_READ 3 = EV_READ /\ 3 <> EV_READ /\
  i_int (tab_get 5 (s_tab s)) = ONE_SHOT + 3 /\
  kfind 5 (kn_list (s_k s)) = Some (mkkent 5 (Z.lor (translate 3) EPOLLONESHOT) true).
Proof. vm_compute. repeat split; congruence. Qed.
