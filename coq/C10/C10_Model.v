(* C10 part 1 — the socket I/O loops over a kernel ORACLE.
   Executable definitions only (no proofs).

   Modelled code (pinned tree):
     net/basic_socket.h   90-107  doio_once
                          111-121 doio_loop
                          123-135 BufStep
                          137-156 BufStepV (skip_empty)
     common/iovector.cpp  127-160 ioview::do_extract_front (extract_front(bytes))
     net/basic_socket.cpp 126-148 sendfile / sendfile_n, 155-169 send/sendmsg/recv/recvmsg
     net/kernel_socket.cpp 98-132 KernelSocketStream::read/readv/write/writev/recv/send/sendfile
     common/timeout.h     Timeout(x), timeout()  (deadline fixed once per stream call)

   The kernel is an explicit oracle: a list of answers to the data syscalls
   (recv/send/recvmsg/sendmsg/sendfile) and a list of answers to the waits
   (wait_for_fd_readable/writable).  Running out of either list is the explicit
   result [ScriptEnd]; running out of fuel is [OutOfFuel] (proved impossible for
   fuel > length of the syscall script). *)
From Coq Require Import ZArith List Bool.
From PV Require Import Base.U64.
Import ListNotations.
Local Open Scope Z_scope.

(* ---- errno values used by the code (Linux) ---- *)
Definition EINTR : Z := 4.
Definition EAGAIN : Z := 11.          (* == EWOULDBLOCK on Linux *)
Definition ETIMEDOUT : Z := 110.
Definition MSG_NOSIGNAL : Z := 16384. (* 0x4000 *)

(* ---- oracle ---- *)
Inductive sysans :=
| Ret (n : Z)      (* the kernel can move n bytes now (n = 0: EOF / nothing): returns min n requested *)
| Fail (e : Z).    (* returns -1, errno = e (4 = EINTR, 11 = EAGAIN are interpreted by doio_once) *)
Inductive waitans :=
| WReady (d : Z)          (* readiness event arrives d us after the wait started *)
| WNever                  (* no event: the wait ends by its timeout (hangs if there is none) *)
| WIntr (d : Z) (e : Z).  (* thread_interrupt(th, e) arrives after d us *)

(* ---- memory-free view of an iovec array: (address, length) ---- *)
Record iov := mkiov { base : Z; len : Z }.
Definition view := list iov.

Fixpoint vsum (v : view) : Z := match v with [] => 0 | e :: r => len e + vsum r end.

(* addresses base .. base+n-1 *)
Fixpoint addrs_from (b : Z) (n : nat) : list Z :=
  match n with O => [] | S k => b :: addrs_from (b + 1) k end.
Definition iov_addrs (e : iov) : list Z := addrs_from (base e) (Z.to_nat (len e)).
Fixpoint flat (v : view) : list Z := match v with [] => [] | e :: r => iov_addrs e ++ flat r end.

(* ---- observable events ---- *)
Inductive event :=
| ESys (kind flags : Z) (v : view) (r : Z)      (* kind: 0 recv 1 send 2 recvmsg 3 sendmsg 4 sendfile; r = return value, or -errno *)
| EWait (kind : Z) (rem : Z) (a : Z).           (* kind: 1 readable 2 writable; rem = timeout handed to the engine (-1 = never);
                                                   a: 0 ready, 1 timed out, 2 interrupted *)

Record kst := mkkst {
  k_sys : list sysans;
  k_wt : list waitans;
  k_errno : Z;
  k_elapsed : Z;            (* virtual time spent in waits since the stream call started *)
  k_touched : list Z;       (* addresses moved by the kernel, most recent FIRST *)
  k_log : list event        (* most recent FIRST *)
}.

Inductive res (A : Type) :=
| Done (a : A)
| ScriptEnd       (* oracle lists exhausted *)
| Hang            (* wait without timeout and the oracle says no event ever comes *)
| OutOfFuel.
Arguments Done {A} a. Arguments ScriptEnd {A}. Arguments Hang {A}. Arguments OutOfFuel {A}.

(* ---- the kernel ---- *)
(* a data syscall on view v: consumes one answer *)
Definition ksys (kind flags : Z) (v : view) (k : kst) : option (Z * kst) :=
  match k_sys k with
  | [] => None
  | Ret n :: rest =>
      let r := Z.min n (vsum v) in
      Some (r, mkkst rest (k_wt k) (k_errno k) (k_elapsed k)
                     (rev (firstn (Z.to_nat r) (flat v)) ++ k_touched k)
                     (ESys kind flags v r :: k_log k))
  | Fail e :: rest =>
      Some (-1, mkkst rest (k_wt k) e (k_elapsed k) (k_touched k)
                      (ESys kind flags v (- e) :: k_log k))
  end.

(* Timeout: [tmo] is the stream's m_timeout (MAX64 = never).  Timeout(x) = x ? sat_add(now,x) : 0,
   timeout() = sat_sub(expiration, now): relative to the start of the call the time left is
   tmo - elapsed (never below 0); MAX64 is treated as "never" (sat_add saturates). *)
Definition remaining (tmo elapsed : Z) : option Z :=
  if tmo =? MAX64 then None else Some (sat_sub tmo elapsed).

(* wait_for_fd: 0 = event, -1/ETIMEDOUT, -1/e *)
Definition kwait (kind : Z) (tmo : Z) (k : kst) : res (Z * kst) :=
  match k_wt k with
  | [] => ScriptEnd
  | a :: rest =>
      let mk errno el rem ans :=
        mkkst (k_sys k) rest errno el (k_touched k) (EWait kind rem ans :: k_log k) in
      match remaining tmo (k_elapsed k), a with
      | None, WReady d => Done (0, mk (k_errno k) (k_elapsed k + d) (-1) 0)
      | None, WNever => Hang
      | None, WIntr d e => Done (-1, mk e (k_elapsed k + d) (-1) 2)
      | Some rem, WReady d =>
          if d <? rem then Done (0, mk (k_errno k) (k_elapsed k + d) rem 0)
          else Done (-1, mk ETIMEDOUT (k_elapsed k + rem) rem 1)
      | Some rem, WNever => Done (-1, mk ETIMEDOUT (k_elapsed k + rem) rem 1)
      | Some rem, WIntr d e =>
          if d <? rem then Done (-1, mk e (k_elapsed k + d) rem 2)
          else Done (-1, mk ETIMEDOUT (k_elapsed k + rem) rem 1)
      end
  end.

(* ---- basic_socket.h 90-107: doio_once ---- *)
Fixpoint doio_once (fuel : nat) (skind flags wkind tmo : Z) (v : view) (k : kst) : res (Z * kst) :=
  match fuel with
  | O => OutOfFuel
  | S f =>
      match ksys skind flags v k with                      (* ssize_t ret = iocb(); *)
      | None => ScriptEnd
      | Some (ret, k1) =>
          if ret <? 0 then                                 (* if (ret < 0) { *)
            let e := k_errno k1 in                         (*   auto e = errno; *)
            if e =? EINTR then doio_once f skind flags wkind tmo v k1   (* continue *)
            else if e =? EAGAIN then                       (*   EAGAIN || EWOULDBLOCK *)
              match kwait wkind tmo k1 with                (*   if (waitcb()) return ret; *)
              | Done (w, k2) => if w =? 0 then doio_once f skind flags wkind tmo v k2
                                else Done (ret, k2)
              | ScriptEnd => ScriptEnd | Hang => Hang | OutOfFuel => OutOfFuel
              end
            else Done (ret, k1)
          else Done (ret, k1)                              (* return ret; *)
      end
  end.

(* ---- basic_socket.h 111-135: doio_loop with BufStep(buf, count) ----
   `buf` advances by ret, `count -= ret` in size_t arithmetic, continue while count > 0.
   For sendfile_n the kernel advances *offset and BufStep(count) advances its dummy buffer:
   [adv_by_step] = false means the base is advanced by the kernel (same amount). *)
Fixpoint loop_buf (fuel : nat) (skind flags wkind tmo : Z) (buf count n : Z) (k : kst) : res (Z * kst) :=
  match fuel with
  | O => OutOfFuel
  | S f =>
      match doio_once (S f) skind flags wkind tmo [mkiov buf count] k with
      | Done (ret, k1) =>
          if ret <? 0 then Done (ret, k1)                  (* error *)
          else if ret =? 0 then Done (n, k1)               (* EOF: break; return n *)
          else
            let n' := n + ret in
            let buf' := buf + ret in
            let count' := u64_sub count ret in
            if 0 <? count' then loop_buf f skind flags wkind tmo buf' count' n' k1
            else Done (n', k1)
      | ScriptEnd => ScriptEnd | Hang => Hang | OutOfFuel => OutOfFuel
      end
  end.

(* ---- iovector.cpp 127-160: extract_front(bytes) on a view ---- *)
Fixpoint ef_loop (bytes : Z) (v : view) : Z * view :=     (* returns (bytes left over, view) *)
  match v with
  | [] => (bytes, [])
  | e :: rest =>
      if bytes <=? len e then
        let l' := len e - bytes in
        (0, if l' =? 0 then rest else mkiov (base e + bytes) l' :: rest)
      else ef_loop (bytes - len e) rest
  end.
Definition extract_front (bytes : Z) (v : view) : Z * view :=   (* (extracted, view') *)
  if bytes =? 0 then (0, v)
  else let '(lft, v') := ef_loop bytes v in (bytes - lft, v').

(* ---- basic_socket.h 152-155: BufStepV::skip_empty(keep) ---- *)
Fixpoint skip_empty (keep : Z) (v : view) : view :=
  match v with
  | [] => []
  | e :: rest =>
      if (keep <? Z.of_nat (length v)) && (len e =? 0) then skip_empty keep rest else v
  end.

(* ---- doio_loop with BufStepV(view) ---- *)
Fixpoint loop_v (fuel : nat) (skind flags wkind tmo : Z) (v : view) (n : Z) (k : kst) : res (Z * kst) :=
  match fuel with
  | O => OutOfFuel
  | S f =>
      match doio_once (S f) skind flags wkind tmo v k with   (* tmp_msg_hdr(view) is rebuilt per call *)
      | Done (ret, k1) =>
          if ret <? 0 then Done (ret, k1)
          else if ret =? 0 then Done (n, k1)
          else
            let n' := n + ret in
            let v1 := snd (extract_front ret v) in           (* v.extract_front(ret) *)
            let v2 := skip_empty 0 v1 in                     (* skip_empty(0) *)
            if 0 <? Z.of_nat (length v2) then loop_v f skind flags wkind tmo v2 n' k1   (* v.iovcnt > 0 *)
            else Done (n', k1)
      | ScriptEnd => ScriptEnd | Hang => Hang | OutOfFuel => OutOfFuel
      end
  end.

(* ---- the stream operations (kernel_socket.cpp 98-132) ---- *)
Inductive op :=
| OpRead | OpWrite | OpReadv | OpWritev      (* full-count loops *)
| OpRecv | OpSend | OpRecvv | OpSendv        (* one doio_once *)
| OpSendfile.                                (* sendfile_n: lens = [offset; count], no timeout *)

Definition STRIDE : Z := 4096.
Fixpoint mk_iovs (i : Z) (lens : list Z) : view :=
  match lens with [] => [] | l :: r => mkiov (i * STRIDE) l :: mk_iovs (i + 1) r end.

Definition init_kst (sys : list sysans) (wt : list waitans) : kst :=
  mkkst sys wt 0 0 [] [].

Definition run_op (o : op) (tmo flags : Z) (lens : list Z) (sys : list sysans) (wt : list waitans)
  : res (Z * kst) :=
  let fuel := S (length sys) in
  let k := init_kst sys wt in
  let iovs := mk_iovs 0 lens in
  let count := nth 0 lens 0 in
  match o with
  | OpRead  => loop_buf fuel 0 0 1 tmo 0 count 0 k
  | OpWrite => loop_buf fuel 1 MSG_NOSIGNAL 2 tmo 0 count 0 k
  | OpReadv  => loop_v fuel 2 0 1 tmo (skip_empty 1 iovs) 0 k            (* BufStepV ctor: skip_empty(1) *)
  | OpWritev => loop_v fuel 3 MSG_NOSIGNAL 2 tmo (skip_empty 1 iovs) 0 k
  | OpRecv  => doio_once fuel 0 flags 1 tmo [mkiov 0 count] k
  | OpSend  => doio_once fuel 1 (Z.lor flags MSG_NOSIGNAL) 2 tmo [mkiov 0 count] k
  | OpRecvv => doio_once fuel 2 flags 1 tmo iovs k
  | OpSendv => doio_once fuel 3 (Z.lor flags MSG_NOSIGNAL) 2 tmo iovs k
  | OpSendfile => loop_buf fuel 4 0 2 MAX64 (nth 0 lens 0) (nth 1 lens 0) 0 k
  end.

(* ---- rendering of the data actually moved (for the correspondence check) ---- *)
Definition FILL : Z := 238.                                   (* 0xEE: untouched receive buffer *)
Definition src_byte (j : Z) : Z := (j * 37 + 11) mod 256.     (* j-th byte the peer sent *)
Definition content (a : Z) : Z := (a * 131 + (a / STRIDE) * 17 + 7) mod 256.  (* send buffers *)

(* touched is in chronological order here *)
Fixpoint mem_lookup (a : Z) (touched : list Z) (j : Z) (cur : Z) : Z :=
  match touched with
  | [] => cur
  | t :: r => mem_lookup a r (j + 1) (if t =? a then src_byte j else cur)
  end.
Definition recv_bufs (iovs : view) (touched : list Z) : list (list Z) :=
  map (fun e => map (fun a => mem_lookup a touched 0 FILL) (iov_addrs e)) iovs.
Definition wire (touched : list Z) : list Z := map content touched.
