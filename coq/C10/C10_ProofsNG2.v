(* C10 part 2b — the inductive invariant of the epoll-ng model over ALL scripts (both variants of add_interest):
     ents_ok : every entry of a direction poller's kernel list carries the id of a thread that is asleep in
               wait_for_fd on exactly that descriptor, with that direction among its interests;
     rem_ok  : every reaped-but-undelivered event (events[0..remains) of a direction poller) points to such a thread.
   Consequences: a datacb never dereferences the Event of a waiter that has returned (no stale access), and never
   fires a waiter for a direction it did not register (fire only registered). *)
From Coq Require Import ZArith List Lia Bool.
From PV Require Import C10.C10_Engine C10.C10_EngineNG C10.C10_ProofsNG.
Import ListNotations.
Local Open Scope Z_scope.

Definition tst (s : nst) (t : Z) : option nwst := nthr_get t (n_thr s).
Definition winfo (w : option nwst) : option (Z * Z) :=
  match w with
  | Some (NWaiting fd i _) | Some (NNotified fd i) | Some (NTail fd i) => Some (fd, i)
  | _ => None
  end.
Definition alive_dir (w : option nwst) (p : pid) : Prop := exists fd i, winfo w = Some (fd, i) /\ has i (dirbit p) = true.
Definition waiting_dir (w : option nwst) (p : pid) : Prop := exists fd i dl, w = Some (NWaiting fd i dl) /\ has i (dirbit p) = true.
Definition not_waiting (w : option nwst) : Prop := match w with Some (NWaiting _ _ _) => False | _ => True end.

Lemma waiting_alive w p : waiting_dir w p -> alive_dir w p.
Proof. intros (fd & i & dl & -> & H). exists fd, i. split; [reflexivity|exact H]. Qed.

Definition ents_ok (s : nst) : Prop :=
  forall p e, p <> PEng -> In e (klist p (n_k s)) ->
    0 <= nk_fd e /\ exists i dl, tst s (nk_data e) = Some (NWaiting (nk_fd e) i dl) /\ has i (dirbit p) = true.
Definition rem_ok (P : option nwst -> pid -> Prop) (s : nst) : Prop :=
  forall p, p <> PEng ->
    0 <= pl_rem (get_pl p s) /\
    forall j, (j < Z.to_nat (pl_rem (get_pl p s)))%nat -> P (tst s (nth j (pl_ev (get_pl p s)) (-1))) p.
Definition clean (s : nst) : Prop := n_stale s = false /\ n_misfire s = false.
Definition eng_ok (s : nst) : Prop := NoDup (map nk_data (klist PEng (n_k s))) /\ pl_rem (n_pe s) = 0.
Definition thr_mono (s s' : nst) : Prop := forall t, not_waiting (tst s t) -> not_waiting (tst s' t).

Definition DInv (s : nst) : Prop := ents_ok s /\ rem_ok alive_dir s /\ clean s /\ eng_ok s.
Definition Inv (s : nst) : Prop := ents_ok s /\ rem_ok waiting_dir s /\ clean s /\ eng_ok s.

Lemma rem_ok_weaken s : rem_ok waiting_dir s -> rem_ok alive_dir s.
Proof. intros H p Hp. destruct (H p Hp) as [H0 H1]. split; [exact H0|]. intros j Hj. apply waiting_alive, H1, Hj. Qed.
Lemma Inv_DInv s : Inv s -> DInv s.
Proof. intros (A & B & C & D). split; [exact A|]. split; [apply rem_ok_weaken, B|]. split; [exact C|exact D]. Qed.

Lemma thr_mono_refl s : thr_mono s s.
Proof. intros t H; exact H. Qed.
Lemma thr_mono_trans a b c : thr_mono a b -> thr_mono b c -> thr_mono a c.
Proof. intros H1 H2 t H. apply H2, H1, H. Qed.
Lemma thr_mono_same a b : n_thr b = n_thr a -> thr_mono a b.
Proof. intros E t H. unfold tst in *. rewrite E. exact H. Qed.

(* ------------------------------------------------------------------ threads *)
Lemma nthr_get_set_same t w l : nthr_get t (nthr_set t w l) = Some w.
Proof.
  induction l as [|[x v] r IH]; cbn [nthr_set nthr_get].
  - rewrite Z.eqb_refl. reflexivity.
  - destruct (x =? t) eqn:E; cbn [nthr_get]; rewrite E; [reflexivity|exact IH].
Qed.
Lemma nthr_get_set_other t w l u : t <> u -> nthr_get u (nthr_set t w l) = nthr_get u l.
Proof.
  intros Hne. induction l as [|[x v] r IH]; cbn [nthr_set nthr_get].
  - destruct (t =? u) eqn:E; [apply Z.eqb_eq in E; contradiction|reflexivity].
  - destruct (x =? t) eqn:E.
    + apply Z.eqb_eq in E. subst x. cbn [nthr_get]. destruct (t =? u) eqn:E2; [apply Z.eqb_eq in E2; contradiction|reflexivity].
    + cbn [nthr_get]. rewrite IH. reflexivity.
Qed.
Lemma tst_set_same t w s : tst (set_thr t w s) t = Some w.
Proof. unfold tst, set_thr. cbn. apply nthr_get_set_same. Qed.
Lemma tst_set_other t w s u : t <> u -> tst (set_thr t w s) u = tst s u.
Proof. intros H. unfold tst, set_thr. cbn. apply nthr_get_set_other, H. Qed.

(* ------------------------------------------------------------------ kernel lists under Poller::ctl *)
Lemma nkfind_none_remove fd l : nkfind fd l = None -> nkremove fd l = l.
Proof.
  unfold nkremove. induction l as [|e r IH]; [reflexivity|]. cbn [nkfind filter].
  destruct (nk_fd e =? fd); [discriminate|]. intros H. cbn [negb]. rewrite IH by exact H. reflexivity.
Qed.
Lemma nkremove_incl fd l : incl (nkremove fd l) l.
Proof. unfold nkremove. intros x Hx. apply filter_In in Hx. apply Hx. Qed.
Lemma nkremove_no fd l e : In e (nkremove fd l) -> nk_fd e <> fd.
Proof.
  unfold nkremove. intros Hx. apply filter_In in Hx. destruct Hx as [_ Hx].
  destruct (nk_fd e =? fd) eqn:E; [discriminate|]. apply Z.eqb_neq in E. exact E.
Qed.

Lemma pctl_del_list p fd s :
  klist p (n_k (snd (pctl p fd CTL_DEL 0 0 s))) = nkremove fd (klist p (n_k s)).
Proof.
  unfold pctl, nk_ctl. destruct (nkfind fd (klist p (n_k s))) eqn:F.
  - change (CTL_DEL =? CTL_ADD) with false. change (CTL_DEL =? CTL_MOD) with false. cbn. rewrite klist_set_same. reflexivity.
  - change (CTL_DEL =? CTL_ADD) with false. cbn. symmetry. apply nkfind_none_remove, F.
Qed.
Lemma pctl_del_incl p fd s q : incl (klist q (n_k (snd (pctl p fd CTL_DEL 0 0 s)))) (klist q (n_k s)).
Proof.
  destruct (pid_eq_dec p q) as [->|Hne].
  - rewrite pctl_del_list. apply nkremove_incl.
  - rewrite pctl_other_poller by exact Hne. apply incl_refl.
Qed.
(* ADD: fails and changes nothing, or appends the new armed entry *)
Lemma pctl_add_spec p fd ev d s :
  (fst (pctl p fd CTL_ADD ev d s) < 0 /\ forall q, klist q (n_k (snd (pctl p fd CTL_ADD ev d s))) = klist q (n_k s)) \/
  (fst (pctl p fd CTL_ADD ev d s) = 0 /\ klist p (n_k (snd (pctl p fd CTL_ADD ev d s))) = klist p (n_k s) ++ [mknk fd ev true d]).
Proof.
  unfold pctl, nk_ctl. destruct (nkfind fd (klist p (n_k s))) eqn:F.
  - left. change (CTL_ADD =? CTL_ADD) with true. cbn. split; [reflexivity|intros; reflexivity].
  - right. change (CTL_ADD =? CTL_ADD) with true. cbn. split; [reflexivity|apply klist_set_same].
Qed.

(* ------------------------------------------------------------------ rm_interest: only removes; removes the waiter's own entries *)
Definition klists_incl (s s' : nst) : Prop := forall q, incl (klist q (n_k s')) (klist q (n_k s)).
Lemma klists_incl_refl s : klists_incl s s.
Proof. intros q. apply incl_refl. Qed.
Lemma klists_incl_trans a b c : klists_incl a b -> klists_incl b c -> klists_incl a c.
Proof. intros H1 H2 q. eapply incl_tran; [apply H2|apply H1]. Qed.

Lemma rm_interest_incl fd ints s : klists_incl s (snd (rm_interest fd ints s)).
Proof.
  unfold rm_interest. destruct (fd <? 0); [intros q; cbn; apply incl_refl|].
  assert (D : forall p s0, klists_incl s0 (snd (pctl p fd CTL_DEL 0 0 s0))) by (intros p s0 q; apply pctl_del_incl).
  assert (S1 : klists_incl s (snd (if has ints EV_READ then pctl PRd fd CTL_DEL 0 0 s else (0, s)))).
  { destruct (has ints EV_READ); [apply D|apply klists_incl_refl]. }
  destruct (if has ints EV_READ then pctl PRd fd CTL_DEL 0 0 s else (0, s)) as [r1 s1]. cbn [snd] in S1.
  assert (S2 : klists_incl s1 (snd (if has ints EV_WRITE then pctl PWr fd CTL_DEL 0 0 s1 else (0, s1)))).
  { destruct (has ints EV_WRITE); [apply D|apply klists_incl_refl]. }
  destruct (if has ints EV_WRITE then pctl PWr fd CTL_DEL 0 0 s1 else (0, s1)) as [r2 s2]. cbn [snd] in S2.
  assert (S3 : klists_incl s2 (snd (if has ints EV_ERROR then pctl PEr fd CTL_DEL 0 0 s2 else (0, s2)))).
  { destruct (has ints EV_ERROR); [apply D|apply klists_incl_refl]. }
  destruct (if has ints EV_ERROR then pctl PEr fd CTL_DEL 0 0 s2 else (0, s2)) as [r3 s3]. cbn [snd] in S3 |- *.
  eapply klists_incl_trans; [exact S1|]. eapply klists_incl_trans; [exact S2|exact S3].
Qed.

Lemma rm_interest_removes fd ints s p e :
  0 <= fd -> p <> PEng -> has ints (dirbit p) = true ->
  In e (klist p (n_k (snd (rm_interest fd ints s)))) -> nk_fd e <> fd.
Proof.
  intros Hfd Hp Hh. unfold rm_interest. destruct (fd <? 0) eqn:Efd; [apply Z.ltb_lt in Efd; lia|].
  assert (D : forall q s0, klists_incl s0 (snd (pctl q fd CTL_DEL 0 0 s0))) by (intros q s0 q'; apply pctl_del_incl).
  assert (R : forall s0 x, In x (klist p (n_k (snd (pctl p fd CTL_DEL 0 0 s0)))) -> nk_fd x <> fd).
  { intros s0 x Hx. rewrite pctl_del_list in Hx. eapply nkremove_no, Hx. }
  (* "no entry of fd in p's list" is preserved by the later DELs (they only remove) *)
  set (Q := fun s0 : nst => forall x, In x (klist p (n_k s0)) -> nk_fd x <> fd).
  assert (QI : forall a b, klists_incl a b -> Q a -> Q b) by (intros a b Hi Ha x Hx; apply Ha, (Hi p), Hx).
  destruct p; [contradiction| | |]; cbn [dirbit] in Hh; rewrite Hh.
  - (* PRd *)
    pose proof (R s) as Q1. destruct (pctl PRd fd CTL_DEL 0 0 s) as [r1 s1]. cbn [snd] in Q1.
    assert (S2 : klists_incl s1 (snd (if has ints EV_WRITE then pctl PWr fd CTL_DEL 0 0 s1 else (0, s1)))).
    { destruct (has ints EV_WRITE); [apply D|apply klists_incl_refl]. }
    destruct (if has ints EV_WRITE then pctl PWr fd CTL_DEL 0 0 s1 else (0, s1)) as [r2 s2]. cbn [snd] in S2.
    assert (S3 : klists_incl s2 (snd (if has ints EV_ERROR then pctl PEr fd CTL_DEL 0 0 s2 else (0, s2)))).
    { destruct (has ints EV_ERROR); [apply D|apply klists_incl_refl]. }
    destruct (if has ints EV_ERROR then pctl PEr fd CTL_DEL 0 0 s2 else (0, s2)) as [r3 s3]. cbn [snd] in S3 |- *.
    intros He. revert e He. change (Q s3). eapply QI; [exact S3|]. eapply QI; [exact S2|]. exact Q1.
  - (* PWr *)
    destruct (if has ints EV_READ then pctl PRd fd CTL_DEL 0 0 s else (0, s)) as [r1 s1].
    pose proof (R s1) as Q2. destruct (pctl PWr fd CTL_DEL 0 0 s1) as [r2 s2]. cbn [snd] in Q2.
    assert (S3 : klists_incl s2 (snd (if has ints EV_ERROR then pctl PEr fd CTL_DEL 0 0 s2 else (0, s2)))).
    { destruct (has ints EV_ERROR); [apply D|apply klists_incl_refl]. }
    destruct (if has ints EV_ERROR then pctl PEr fd CTL_DEL 0 0 s2 else (0, s2)) as [r3 s3]. cbn [snd] in S3 |- *.
    intros He. revert e He. change (Q s3). eapply QI; [exact S3|]. exact Q2.
  - (* PEr *)
    destruct (if has ints EV_READ then pctl PRd fd CTL_DEL 0 0 s else (0, s)) as [r1 s1].
    destruct (if has ints EV_WRITE then pctl PWr fd CTL_DEL 0 0 s1 else (0, s1)) as [r2 s2].
    pose proof (R s2) as Q3. destruct (pctl PEr fd CTL_DEL 0 0 s2) as [r3 s3]. cbn [snd] in Q3 |- *.
    intros He. eapply Q3, He.
Qed.

(* ------------------------------------------------------------------ generic preservation: same threads, fewer entries *)
Lemma ents_ok_shrink s s' :
  n_thr s' = n_thr s -> klists_incl s s' -> ents_ok s -> ents_ok s'.
Proof.
  intros Et Hi H p e Hp He. unfold tst. rewrite Et. apply (H p e Hp). apply (Hi p), He.
Qed.
Lemma rem_ok_same P s s' :
  n_thr s' = n_thr s -> (forall p, get_pl p s' = get_pl p s) -> rem_ok P s -> rem_ok P s'.
Proof.
  intros Et Ep H p Hp. rewrite Ep. unfold tst. rewrite Et. apply (H p Hp).
Qed.
Lemma same_engine_pl s s' : same_engine s s' -> forall p, get_pl p s' = get_pl p s.
Proof. intros (A & B & C & D & _) p. destruct p; assumption. Qed.
Lemma same_engine_thr s s' : same_engine s s' -> n_thr s' = n_thr s.
Proof. intros H. apply H. Qed.
Lemma same_engine_clean s s' : same_engine s s' -> clean s -> clean s'.
Proof. intros (_ & _ & _ & _ & _ & _ & _ & A & B & _) [C D]. split; congruence. Qed.

Lemma rm_interest_eng fd ints s : klist PEng (n_k (snd (rm_interest fd ints s))) = klist PEng (n_k s).
Proof. apply rm_interest_other_dir. left. reflexivity. Qed.

(* ------------------------------------------------------------------ fire *)
Lemma fire_spec p t s :
  p <> PEng -> ents_ok s -> rem_ok alive_dir s -> clean s -> eng_ok s -> alive_dir (tst s t) p ->
  let s' := fire p t s in
  ents_ok s' /\ rem_ok alive_dir s' /\ clean s' /\ eng_ok s' /\ thr_mono s s' /\ (forall q, get_pl q s' = get_pl q s).
Proof.
  intros Hp HE HR HC HG (fd & i & Hw & Hh). unfold fire. fold (tst s t).
  destruct (tst s t) as [[fd0 i0 dl|fd0 i0|fd0 i0|]|] eqn:Et; cbn [winfo] in Hw; try discriminate;
    injection Hw as -> ->; rewrite Hh.
  - (* asleep: removed, made READY *)
    pose proof (rm_interest_same_engine fd i s) as SE. pose proof (rm_interest_incl fd i s) as HI.
    pose proof (fun q e H1 H2 H3 => rm_interest_removes fd i s q e H1 H2 H3) as HRm.
    pose proof (rm_interest_eng fd i s) as HEn.
    destruct (rm_interest fd i s) as [r s1]. cbn [snd] in *.
    assert (Et1 : n_thr s1 = n_thr s) by (apply same_engine_thr, SE).
    assert (Ep1 : forall q, get_pl q s1 = get_pl q s) by (apply same_engine_pl, SE).
    set (s2 := nupd_runq (n_runq s1 ++ [t]) (set_thr t (NNotified fd i) s1)).
    assert (Ep2 : forall q, get_pl q s2 = get_pl q s) by (intros q; rewrite <- Ep1; destruct q; reflexivity).
    assert (Tsame : tst s2 t = Some (NNotified fd i)) by (unfold tst, s2; cbn; apply nthr_get_set_same).
    assert (Tother : forall u, t <> u -> tst s2 u = tst s u).
    { intros u Hu. unfold tst, s2. cbn. rewrite nthr_get_set_other by exact Hu. rewrite Et1. reflexivity. }
    split; [|split; [|split; [|split; [|split]]]].
    + intros q e Hq He. change (klist q (n_k s2)) with (klist q (n_k s1)) in He.
      destruct (HE q e Hq (HI q e He)) as [H0 (i1 & dl1 & Hst & Hd)]. split; [exact H0|].
      destruct (Z.eq_dec (nk_data e) t) as [Edt|Edt].
      * exfalso. rewrite Edt, Et in Hst. injection Hst as E1 E2 E3. subst.
        eapply (HRm q e); eauto.
      * exists i1, dl1. split; [|exact Hd]. rewrite Tother by congruence. exact Hst.
    + intros q Hq. rewrite Ep2. destruct (HR q Hq) as [H0 HRj]. split; [exact H0|].
      intros j Hj. specialize (HRj j Hj).
      set (x := nth j (pl_ev (get_pl q s)) (-1)) in *.
      destruct (Z.eq_dec x t) as [Ex|Ex].
      * rewrite Ex in HRj |- *. rewrite Et in HRj. destruct HRj as (f1 & i1 & Hw1 & Hh1). cbn [winfo] in Hw1. injection Hw1 as <- <-.
        exists fd, i. split; [|exact Hh1]. rewrite Tsame. reflexivity.
      * rewrite Tother by congruence. exact HRj.
    + destruct HC as [C1 C2]. destruct SE as (_ & _ & _ & _ & _ & _ & _ & A & B & _). split; cbn; congruence.
    + destruct HG as [G1 G2]. split.
      * change (klist PEng (n_k s2)) with (klist PEng (n_k s1)). rewrite HEn. exact G1.
      * change (n_pe s2) with (n_pe s1). destruct SE as (A & _). rewrite A. exact G2.
    + intros u Hu. destruct (Z.eq_dec t u) as [<-|Ne].
      * rewrite Tsame. exact I.
      * rewrite Tother by exact Ne. exact Hu.
    + exact Ep2.
  - (* READY already (a second direction of the same waiter): only the DELs *)
    pose proof (rm_interest_same_engine fd i s) as SE. pose proof (rm_interest_incl fd i s) as HI.
    pose proof (rm_interest_eng fd i s) as HEn.
    destruct (rm_interest fd i s) as [r s1]. cbn [snd] in *.
    split; [|split; [|split; [|split; [|split]]]].
    + apply (ents_ok_shrink s s1); [apply same_engine_thr, SE|exact HI|exact HE].
    + apply (rem_ok_same _ s s1); [apply same_engine_thr, SE|apply same_engine_pl, SE|exact HR].
    + apply (same_engine_clean s s1 SE HC).
    + destruct HG as [G1 G2]. split; [rewrite HEn; exact G1|]. destruct SE as (A & _). rewrite A. exact G2.
    + apply thr_mono_same, same_engine_thr, SE.
    + apply same_engine_pl, SE.
  - (* the running thread itself, in its failure tail: only the DELs *)
    pose proof (rm_interest_same_engine fd i s) as SE. pose proof (rm_interest_incl fd i s) as HI.
    pose proof (rm_interest_eng fd i s) as HEn.
    destruct (rm_interest fd i s) as [r s1]. cbn [snd] in *.
    split; [|split; [|split; [|split; [|split]]]].
    + apply (ents_ok_shrink s s1); [apply same_engine_thr, SE|exact HI|exact HE].
    + apply (rem_ok_same _ s s1); [apply same_engine_thr, SE|apply same_engine_pl, SE|exact HR].
    + apply (same_engine_clean s s1 SE HC).
    + destruct HG as [G1 G2]. split; [rewrite HEn; exact G1|]. destruct SE as (A & _). rewrite A. exact G2.
    + apply thr_mono_same, same_engine_thr, SE.
    + apply same_engine_pl, SE.
Qed.

(* ------------------------------------------------------------------ set_pl *)
Lemma get_set_pl_same p x s : get_pl p (set_pl p x s) = x.
Proof. destruct p; reflexivity. Qed.
Lemma get_set_pl_other p q x s : p <> q -> get_pl q (set_pl p x s) = get_pl q s.
Proof. destruct p, q; intros H; try reflexivity; contradiction. Qed.
Lemma set_pl_k p x s : n_k (set_pl p x s) = n_k s.
Proof. destruct p; reflexivity. Qed.
Lemma set_pl_thr p x s : n_thr (set_pl p x s) = n_thr s.
Proof. destruct p; reflexivity. Qed.
Lemma set_pl_clean p x s : clean s -> clean (set_pl p x s).
Proof. destruct p; exact (fun H => H). Qed.

(* ------------------------------------------------------------------ notify_one / drain *)
Lemma notify_one_sum p s :
  p <> PEng -> DInv s ->
  exists a s', notify_one p s = (a, s') /\ DInv s' /\ thr_mono s s' /\ (a = 0 \/ a = 1) /\
               (a = 0 -> s' = s /\ pl_rem (get_pl p s) = 0) /\
               pl_rem (get_pl p s') = pl_rem (get_pl p s) - a /\
               (forall q, q <> p -> get_pl q s' = get_pl q s).
Proof.
  intros Hp (HE & HR & HC & HG). unfold notify_one.
  destruct (HR p Hp) as [Hnn HRj].
  destruct (0 <? pl_rem (get_pl p s)) eqn:Epos.
  - apply Z.ltb_lt in Epos.
    set (ev := pl_ev (get_pl p s)) in *. set (rm := pl_rem (get_pl p s)) in *.
    set (s0 := set_pl p (mkpl ev (rm - 1)) s).
    set (d := nth (Z.to_nat (rm - 1)) ev (-1)).
    assert (E0 : ents_ok s0).
    { intros q e Hq He. unfold s0 in He. rewrite set_pl_k in He. unfold tst, s0. rewrite set_pl_thr. apply (HE q e Hq He). }
    assert (R0 : rem_ok alive_dir s0).
    { intros q Hq. unfold tst, s0. rewrite set_pl_thr. destruct (pid_eq_dec p q) as [<-|Hne].
      - rewrite get_set_pl_same. cbn [pl_rem pl_ev]. split; [lia|]. intros j Hj. apply HRj. fold rm. lia.
      - rewrite get_set_pl_other by exact Hne. apply (HR q Hq). }
    assert (C0 : clean s0) by (apply set_pl_clean, HC).
    assert (G0 : eng_ok s0).
    { destruct HG as [G1 G2]. unfold s0. split; [rewrite set_pl_k; exact G1|].
      change (n_pe (set_pl p (mkpl ev (rm - 1)) s)) with (get_pl PEng (set_pl p (mkpl ev (rm - 1)) s)).
      rewrite get_set_pl_other by exact Hp. exact G2. }
    assert (A0 : alive_dir (tst s0 d) p).
    { unfold tst, s0. rewrite set_pl_thr. apply HRj. fold rm. lia. }
    destruct (fire_spec p d s0 Hp E0 R0 C0 G0 A0) as (E1 & R1 & C1 & G1 & M1 & P1).
    exists 1, (fire p d s0). split; [reflexivity|]. split; [exact (conj E1 (conj R1 (conj C1 G1)))|].
    split. { intros t Ht. apply M1. unfold tst, s0. rewrite set_pl_thr. exact Ht. }
    split; [right; reflexivity|]. split; [intros H; discriminate|]. split.
    + rewrite P1. unfold s0. rewrite get_set_pl_same. reflexivity.
    + intros q Hq. rewrite P1. unfold s0. apply get_set_pl_other. congruence.
  - apply Z.ltb_ge in Epos. exists 0, s. split; [reflexivity|]. split; [exact (conj HE (conj HR (conj HC HG)))|].
    split; [apply thr_mono_refl|]. split; [left; reflexivity|]. split; [intros _; split; [reflexivity|lia]|].
    split; [lia|reflexivity].
Qed.

Definition rems (s : nst) : Z := pl_rem (n_pr s) + pl_rem (n_pw s) + pl_rem (n_px s).
Definition rems_zero (s : nst) : Prop := pl_rem (n_pr s) = 0 /\ pl_rem (n_pw s) = 0 /\ pl_rem (n_px s) = 0.

Lemma DInv_rems_nonneg s : DInv s -> 0 <= pl_rem (n_pr s) /\ 0 <= pl_rem (n_pw s) /\ 0 <= pl_rem (n_px s).
Proof.
  intros (_ & HR & _). split; [|split].
  - apply (HR PRd). discriminate.
  - apply (HR PWr). discriminate.
  - apply (HR PEr). discriminate.
Qed.

Lemma drain_spec : forall f s fired,
  DInv s -> (Z.to_nat (rems s) < f)%nat ->
  exists fired' s', drain f s fired = (fired', s') /\ DInv s' /\ thr_mono s s' /\ rems_zero s' /\
                    (fired' = fired -> s' = s) /\ fired <= fired'.
Proof.
  induction f as [|f IH]; intros s fired HD Hf; [lia|].
  cbn [drain].
  destruct (notify_one_sum PRd s ltac:(discriminate) HD) as (a & s1 & E1 & D1 & M1 & A1 & Z1 & R1 & O1). rewrite E1.
  destruct (notify_one_sum PWr s1 ltac:(discriminate) D1) as (b & s2 & E2 & D2 & M2 & A2 & Z2 & R2 & O2). rewrite E2.
  destruct (notify_one_sum PEr s2 ltac:(discriminate) D2) as (c & s3 & E3 & D3 & M3 & A3 & Z3 & R3 & O3). rewrite E3.
  pose proof (O1 PWr ltac:(discriminate)) as O1w. pose proof (O1 PEr ltac:(discriminate)) as O1e.
  pose proof (O2 PRd ltac:(discriminate)) as O2r. pose proof (O2 PEr ltac:(discriminate)) as O2e.
  pose proof (O3 PRd ltac:(discriminate)) as O3r. pose proof (O3 PWr ltac:(discriminate)) as O3w.
  cbn [get_pl] in *.
  pose proof (DInv_rems_nonneg s HD) as (N1 & N2 & N3).
  pose proof (DInv_rems_nonneg s3 D3) as (N1' & N2' & N3').
  assert (Hr3 : pl_rem (n_pr s3) = pl_rem (n_pr s) - a) by congruence.
  assert (Hw3 : pl_rem (n_pw s3) = pl_rem (n_pw s) - b) by congruence.
  assert (He3 : pl_rem (n_px s3) = pl_rem (n_px s) - c) by congruence.
  destruct (a + b + c =? 0) eqn:Et.
  - apply Z.eqb_eq in Et. assert (a = 0 /\ b = 0 /\ c = 0) as (-> & -> & ->) by lia.
    destruct (Z1 eq_refl) as [-> Hz1]. destruct (Z2 eq_refl) as [-> Hz2]. destruct (Z3 eq_refl) as [-> Hz3].
    exists fired, s. split; [reflexivity|]. split; [exact HD|]. split; [apply thr_mono_refl|].
    split; [exact (conj Hz1 (conj Hz2 Hz3))|]. split; [reflexivity|lia].
  - apply Z.eqb_neq in Et.
    assert (Hf3 : (Z.to_nat (rems s3) < f)%nat).
    { unfold rems in *. rewrite Hr3, Hw3, He3. lia. }
    destruct (IH s3 (fired + (a + b + c)) D3 Hf3) as (fired' & s' & E & D' & M' & Z' & S' & L').
    exists fired', s'. split; [exact E|]. split; [exact D'|].
    split. { eapply thr_mono_trans; [exact M1|]. eapply thr_mono_trans; [exact M2|]. eapply thr_mono_trans; [exact M3|exact M']. }
    split; [exact Z'|]. split; [intros H; lia|lia].
Qed.

(* ------------------------------------------------------------------ epoll_wait *)
Definition fd_data (e : nkent) : Z * Z := (nk_fd e, nk_data e).
Lemma nk_scan_spec rep l : forall max evs l', nk_scan rep max l = (evs, l') ->
  map fd_data l' = map fd_data l /\
  (forall x, In x (map snd evs) -> In x (map nk_data l)) /\
  (NoDup (map nk_data l) -> NoDup (map snd evs)).
Proof.
  induction l as [|e r IH]; intros max evs l' H; cbn [nk_scan] in H.
  - injection H as <- <-. split; [reflexivity|]. split; [intros x []|intros; constructor].
  - destruct max as [|m].
    + injection H as <- <-. split; [reflexivity|]. split; [intros x []|intros; constructor].
    + destruct (rep e =? 0).
      * destruct (nk_scan rep (S m) r) as [evs0 l0] eqn:E. injection H as <- <-.
        destruct (IH _ _ _ E) as (A & B & C). cbn [map]. split; [f_equal; exact A|].
        split; [intros x Hx; right; apply B, Hx|]. intros Hn. apply NoDup_cons_iff in Hn as [_ Hn]. apply C, Hn.
      * destruct (nk_scan rep m r) as [evs0 l0] eqn:E. injection H as <- <-.
        destruct (IH _ _ _ E) as (A & B & C). cbn [map snd]. split.
        { f_equal; [|exact A]. destruct (has (nk_events e) EPOLLONESHOT || has (nk_events e) EPOLLET); reflexivity. }
        split. { intros x [Hx|Hx]; [left; exact Hx|right; apply B, Hx]. }
        intros Hn. apply NoDup_cons_iff in Hn as [Hn1 Hn2]. constructor; [intros Hin; apply Hn1, B, Hin|apply C, Hn2].
Qed.
Lemma map_data_of_fd_data l : map nk_data l = map snd (map fd_data l).
Proof. rewrite map_map. reflexivity. Qed.
Lemma in_fd_data l l' e' : map fd_data l' = map fd_data l -> In e' l' -> exists e, In e l /\ nk_fd e = nk_fd e' /\ nk_data e = nk_data e'.
Proof.
  intros Hm Hin. apply (in_map fd_data) in Hin. rewrite Hm in Hin. apply in_map_iff in Hin as (e & He & Hin).
  exists e. split; [exact Hin|]. unfold fd_data in He. injection He as E1 E2. split; assumption.
Qed.

(* the state between the drain and the end of wait_and_fire_events *)
Definition RInv (s : nst) : Prop :=
  ents_ok s /\ rem_ok waiting_dir s /\ clean s /\ NoDup (map nk_data (klist PEng (n_k s))).

Lemma reap_sub_spec p s :
  p <> PEng -> RInv s -> pl_rem (get_pl p s) = 0 ->
  RInv (reap p s) /\ n_thr (reap p s) = n_thr s /\ (forall q, q <> p -> get_pl q (reap p s) = get_pl q s).
Proof.
  intros Hp (HE & HR & HC & HN) Hz. unfold reap, nk_wait.
  set (rep := match p with PEng => eng_rep (n_k s) | _ => sub_rep (n_k s) end). clearbody rep.
  destruct (nk_scan rep 16 (klist p (n_k s))) as [evs l'] eqn:Esc.
  destruct (nk_scan_spec rep _ _ _ _ Esc) as (Hm & Hin & _).
  set (ds := map (fun x : Z * Z * Z => snd x) evs) in *.
  set (k' := set_klist p l' (n_k s)).
  set (pl' := mkpl (ds ++ skipn (length ds) (pl_ev (get_pl p s))) (pl_rem (get_pl p s) + Z.of_nat (length ds))).
  set (s' := nadd_log (NWaitL p evs) (set_pl p pl' (upd_k k' s))).
  assert (Ethr : n_thr s' = n_thr s) by (unfold s'; cbn; rewrite set_pl_thr; reflexivity).
  assert (Ek : n_k s' = k') by (unfold s'; cbn; rewrite set_pl_k; reflexivity).
  assert (Epl : forall q, q <> p -> get_pl q s' = get_pl q s).
  { intros q Hq. unfold s'. transitivity (get_pl q (set_pl p pl' (upd_k k' s))); [destruct q; reflexivity|].
    rewrite get_set_pl_other by congruence. destruct q; reflexivity. }
  assert (Eplp : get_pl p s' = pl').
  { unfold s'. transitivity (get_pl p (set_pl p pl' (upd_k k' s))); [destruct p; reflexivity|]. apply get_set_pl_same. }
  assert (HE' : ents_ok s').
  { intros q e Hq He. rewrite Ek in He. unfold tst. rewrite Ethr. destruct (pid_eq_dec p q) as [<-|Hne].
    - unfold k' in He. rewrite klist_set_same in He. destruct (in_fd_data _ _ _ Hm He) as (e0 & Hin0 & Ef & Ed).
      rewrite <- Ef, <- Ed. apply (HE p e0 Hp Hin0).
    - unfold k' in He. rewrite klist_set_other in He by exact Hne. apply (HE q e Hq He). }
  split; [|split; [exact Ethr|exact Epl]].
  split; [exact HE'|]. split; [|split].
  - intros q Hq. destruct (pid_eq_dec p q) as [<-|Hne].
    + rewrite Eplp. unfold pl'. cbn [pl_rem pl_ev]. rewrite Hz. split; [lia|]. intros j Hj.
      assert (Hj' : (j < length ds)%nat) by lia.
      rewrite app_nth1 by exact Hj'.
      assert (Hind : In (nth j ds (-1)) (map nk_data (klist p (n_k s)))) by (apply Hin, nth_In, Hj').
      apply in_map_iff in Hind as (e0 & Ed & Hin0).
      destruct (HE p e0 Hp Hin0) as [_ (i & dl & Hst & Hd)].
      exists (nk_fd e0), i, dl. split; [|exact Hd]. unfold tst. rewrite Ethr. rewrite <- Ed. exact Hst.
    + rewrite Epl by congruence. unfold tst. rewrite Ethr. apply (HR q Hq).
  - unfold s'. destruct HC as [C1 C2]. split; cbn; destruct p; assumption.
  - rewrite Ek. unfold k'. rewrite klist_set_other by exact Hp. exact HN.
Qed.

Lemma reap_eng_spec s :
  RInv s -> pl_rem (n_pe s) = 0 ->
  exists ds rest, RInv (reap PEng s) /\ n_thr (reap PEng s) = n_thr s /\ NoDup ds /\
    n_pe (reap PEng s) = mkpl (ds ++ rest) (Z.of_nat (length ds)) /\
    (forall q, q <> PEng -> get_pl q (reap PEng s) = get_pl q s).
Proof.
  intros (HE & HR & HC & HN) Hz. unfold reap, nk_wait.
  destruct (nk_scan (eng_rep (n_k s)) 16 (klist PEng (n_k s))) as [evs l'] eqn:Esc.
  destruct (nk_scan_spec _ _ _ _ _ Esc) as (Hm & Hin & Hnd).
  set (ds := map (fun x : Z * Z * Z => snd x) evs) in *.
  exists ds, (skipn (length ds) (pl_ev (n_pe s))).
  split; [|split; [reflexivity|split; [apply Hnd, HN|split]]].
  - split; [|split; [|split]].
    + intros q e Hq He. cbn in He. destruct q; try contradiction; apply (HE _ e Hq He).
    + intros q Hq. destruct q; try contradiction; apply (HR _ Hq).
    + exact HC.
    + cbn. rewrite map_data_of_fd_data, Hm, <- map_data_of_fd_data. exact HN.
  - cbn. rewrite Hz. reflexivity.
  - intros q Hq. destruct q; try contradiction; reflexivity.
Qed.

Definition sub_zero (d : Z) (s : nst) : Prop :=
  (d = 1 -> pl_rem (n_pr s) = 0) /\ (d = 2 -> pl_rem (n_pw s) = 0) /\ (d = 3 -> pl_rem (n_px s) = 0).

Lemma eng_dispatch_spec d s :
  RInv s -> sub_zero d s ->
  RInv (eng_dispatch d s) /\ n_thr (eng_dispatch d s) = n_thr s /\ n_pe (eng_dispatch d s) = n_pe s /\
  (forall d', d' <> d -> sub_zero d' s -> sub_zero d' (eng_dispatch d s)).
Proof.
  intros HI (Z1 & Z2 & Z3). unfold eng_dispatch.
  destruct (d =? 1) eqn:E1; [apply Z.eqb_eq in E1|apply Z.eqb_neq in E1].
  { destruct (reap_sub_spec PRd s ltac:(discriminate) HI (Z1 E1)) as (A & B & C).
    split; [exact A|]. split; [exact B|]. split; [apply (C PEng); discriminate|].
    intros d' Hd (Y1 & Y2 & Y3). split; [intros; lia|]. split; intros Hx.
    - change (n_pw (reap PRd s)) with (get_pl PWr (reap PRd s)). rewrite C by discriminate. apply Y2, Hx.
    - change (n_px (reap PRd s)) with (get_pl PEr (reap PRd s)). rewrite C by discriminate. apply Y3, Hx. }
  destruct (d =? 2) eqn:E2; [apply Z.eqb_eq in E2|apply Z.eqb_neq in E2].
  { destruct (reap_sub_spec PWr s ltac:(discriminate) HI (Z2 E2)) as (A & B & C).
    split; [exact A|]. split; [exact B|]. split; [apply (C PEng); discriminate|].
    intros d' Hd (Y1 & Y2 & Y3). split; [|split]; intros Hx; try lia.
    - change (n_pr (reap PWr s)) with (get_pl PRd (reap PWr s)). rewrite C by discriminate. apply Y1, Hx.
    - change (n_px (reap PWr s)) with (get_pl PEr (reap PWr s)). rewrite C by discriminate. apply Y3, Hx. }
  destruct (d =? 3) eqn:E3; [apply Z.eqb_eq in E3|apply Z.eqb_neq in E3].
  { destruct (reap_sub_spec PEr s ltac:(discriminate) HI (Z3 E3)) as (A & B & C).
    split; [exact A|]. split; [exact B|]. split; [apply (C PEng); discriminate|].
    intros d' Hd (Y1 & Y2 & Y3). split; [|split]; intros Hx; try lia.
    - change (n_pr (reap PEr s)) with (get_pl PRd (reap PEr s)). rewrite C by discriminate. apply Y1, Hx.
    - change (n_pw (reap PEr s)) with (get_pl PWr (reap PEr s)). rewrite C by discriminate. apply Y2, Hx. }
  destruct (d =? 4).
  - split; [|split; [reflexivity|split; [reflexivity|intros d' _ H; exact H]]]. exact HI.
  - split; [|split; [reflexivity|split; [reflexivity|intros d' _ H; exact H]]]. exact HI.
Qed.

Lemma eng_notify_all_spec : forall ds rest s,
  n_pe s = mkpl (ds ++ rest) (Z.of_nat (length ds)) -> RInv s -> NoDup ds -> (forall d, In d ds -> sub_zero d s) ->
  RInv (eng_notify_all (length ds) s) /\ n_thr (eng_notify_all (length ds) s) = n_thr s /\
  pl_rem (n_pe (eng_notify_all (length ds) s)) = 0.
Proof.
  induction ds as [|d ds IH] using rev_ind; intros rest s Hpe HI Hnd Hz.
  - cbn. split; [exact HI|]. split; [reflexivity|]. rewrite Hpe. reflexivity.
  - rewrite app_length in Hpe |- *. cbn [length] in Hpe |- *. rewrite Nat.add_1_r in Hpe |- *.
    cbn [eng_notify_all]. rewrite Hpe. cbn [pl_rem pl_ev].
    replace (0 <? Z.of_nat (S (length ds))) with true by (symmetry; apply Z.ltb_lt; lia).
    replace (Z.to_nat (Z.of_nat (S (length ds)) - 1)) with (length ds) by lia.
    replace (nth (length ds) ((ds ++ [d]) ++ rest) (-1)) with d.
    2:{ rewrite <- app_assoc. rewrite app_nth2 by lia. rewrite Nat.sub_diag. reflexivity. }
    set (s0 := set_pl PEng (mkpl ((ds ++ [d]) ++ rest) (Z.of_nat (S (length ds)) - 1)) s).
    assert (HI0 : RInv s0).
    { destruct HI as (A & B & C & D). split; [|split; [|split]].
      - intros q e Hq He. apply (A q e Hq He).
      - intros q Hq. destruct q; try contradiction; apply (B _ Hq).
      - exact C.
      - exact D. }
    assert (Hz0 : forall d', In d' (ds ++ [d]) -> sub_zero d' s0) by (intros d' Hd; apply (Hz d' Hd)).
    destruct (eng_dispatch_spec d s0 HI0 (Hz0 d ltac:(apply in_or_app; right; left; reflexivity))) as (A & B & C & D).
    assert (Hnd1 : NoDup ds) by (apply NoDup_remove_1 in Hnd; rewrite app_nil_r in Hnd; exact Hnd).
    assert (Hnd2 : ~ In d ds) by (apply NoDup_remove_2 in Hnd; rewrite app_nil_r in Hnd; exact Hnd).
    destruct (IH (d :: rest) (eng_dispatch d s0)) as (A' & B' & C').
    + rewrite C. unfold s0.
      change (n_pe (set_pl PEng (mkpl ((ds ++ [d]) ++ rest) (Z.of_nat (S (length ds)) - 1)) s))
        with (mkpl ((ds ++ [d]) ++ rest) (Z.of_nat (S (length ds)) - 1)).
      f_equal; [rewrite <- app_assoc; reflexivity|lia].
    + exact A.
    + exact Hnd1.
    + intros d' Hd'. apply D; [intros ->; contradiction|]. apply Hz0. apply in_or_app. left. exact Hd'.
    + split; [exact A'|]. split; [|exact C']. etransitivity; [exact B'|]. etransitivity; [exact B|]. reflexivity.
Qed.

Lemma waf_spec s : DInv s -> Inv (snd (wait_and_fire s)) /\ thr_mono s (snd (wait_and_fire s)).
Proof.
  intros HD. unfold wait_and_fire.
  destruct (drain_spec (drain_fuel s) s 0 HD ltac:(unfold drain_fuel, rems; lia)) as (fired & s1 & E & D1 & M1 & (Zr & Zw & Zx) & S1 & L1).
  rewrite E. destruct D1 as (E1 & R1 & C1 & (G1 & G2)).
  assert (RW : rem_ok waiting_dir s1).
  { intros q Hq. destruct q; try contradiction; cbn [get_pl]; rewrite ?Zr, ?Zw, ?Zx; (split; [lia|intros j Hj; cbn in Hj; lia]). }
  destruct (fired =? 0).
  - destruct (reap_eng_spec s1 (conj E1 (conj RW (conj C1 G1))) G2) as (ds & rest & I2 & T2 & N2 & P2 & O2).
    cbn [snd]. rewrite P2. cbn [pl_rem]. rewrite Nat2Z.id.
    destruct (eng_notify_all_spec ds rest (reap PEng s1) P2 I2 N2) as ((A & B & C & D) & T3 & Z3).
    { intros d _. split; [|split]; intros _.
      - change (n_pr (reap PEng s1)) with (get_pl PRd (reap PEng s1)). rewrite O2 by discriminate. exact Zr.
      - change (n_pw (reap PEng s1)) with (get_pl PWr (reap PEng s1)). rewrite O2 by discriminate. exact Zw.
      - change (n_px (reap PEng s1)) with (get_pl PEr (reap PEng s1)). rewrite O2 by discriminate. exact Zx. }
    split; [exact (conj A (conj B (conj C (conj D Z3))))|].
    eapply thr_mono_trans; [exact M1|]. apply thr_mono_same. rewrite T3, T2. reflexivity.
  - cbn [snd]. split; [exact (conj E1 (conj RW (conj C1 (conj G1 G2))))|exact M1].
Qed.

(* ------------------------------------------------------------------ a thread returns *)
Lemma set_finished_inv t s : Inv s -> not_waiting (tst s t) -> Inv (set_thr t NFinished s).
Proof.
  intros (HE & HR & HC & HG) Hn. split; [|split; [|split]].
  - intros q e Hq He. destruct (HE q e Hq He) as [H0 (i & dl & Hst & Hd)]. split; [exact H0|].
    exists i, dl. split; [|exact Hd]. rewrite tst_set_other; [exact Hst|]. intros ->. rewrite Hst in Hn. exact Hn.
  - intros q Hq. destruct (HR q Hq) as [H0 HRj]. split; [destruct q; exact H0|]. intros j Hj.
    assert (Hp : get_pl q (set_thr t NFinished s) = get_pl q s) by (destruct q; reflexivity).
    rewrite Hp in Hj |- *. destruct (HRj j Hj) as (fd & i & dl & Hst & Hd). exists fd, i, dl. split; [|exact Hd].
    rewrite tst_set_other; [exact Hst|]. intros ->. rewrite Hst in Hn. exact Hn.
  - exact HC.
  - exact HG.
Qed.

Lemma run_one_inv s t : Inv s -> Inv (run_one s t).
Proof.
  intros HI. unfold run_one. fold (tst s t). destruct (tst s t) as [[| | |]|] eqn:E; try exact HI.
  apply (set_finished_inv t s HI). rewrite E. exact I.
Qed.
Lemma run_notified_inv s : Inv s -> Inv (run_notified s).
Proof.
  intros HI. unfold run_notified.
  assert (H : forall l s0, Inv s0 -> Inv (fold_left run_one l s0)).
  { induction l as [|x l IH]; intros s0 H0; [exact H0|]. cbn [fold_left]. apply IH, run_one_inv, H0. }
  exact (H _ _ HI).
Qed.

(* ------------------------------------------------------------------ the failure tail of wait_for_fd *)
Definition pre_tail (t fd ints : Z) (s : nst) : Prop :=
  (forall q e, q <> PEng -> In e (klist q (n_k s)) ->
     0 <= nk_fd e /\
     ((nk_data e = t /\ nk_fd e = fd /\ has ints (dirbit q) = true) \/
      (nk_data e <> t /\ exists i dl, tst s (nk_data e) = Some (NWaiting (nk_fd e) i dl) /\ has i (dirbit q) = true))) /\
  (forall q, q <> PEng ->
     0 <= pl_rem (get_pl q s) /\
     forall j, (j < Z.to_nat (pl_rem (get_pl q s)))%nat ->
       let x := nth j (pl_ev (get_pl q s)) (-1) in
       (x = t /\ has ints (dirbit q) = true) \/ (x <> t /\ waiting_dir (tst s x) q)) /\
  clean s /\ eng_ok s.

Lemma wait_fail_inv t fd ints e s : pre_tail t fd ints s -> Inv (wait_fail t fd ints e s).
Proof.
  intros (PE & PR & PC & PG). unfold wait_fail.
  set (s0 := set_thr t (NTail fd ints) s).
  pose proof (rm_interest_same_engine fd ints s0) as SE. pose proof (rm_interest_incl fd ints s0) as HI.
  pose proof (fun q x H1 H2 H3 => rm_interest_removes fd ints s0 q x H1 H2 H3) as HRm.
  pose proof (rm_interest_eng fd ints s0) as HEn.
  destruct (rm_interest fd ints s0) as [r s1]. cbn [snd] in *.
  assert (Et1 : n_thr s1 = n_thr s0) by (apply same_engine_thr, SE).
  assert (Ep1 : forall q, get_pl q s1 = get_pl q s) by (intros q; rewrite (same_engine_pl _ _ SE); destruct q; reflexivity).
  assert (Tt : tst s1 t = Some (NTail fd ints)) by (unfold tst; rewrite Et1; apply tst_set_same).
  assert (To : forall u, t <> u -> tst s1 u = tst s u) by (intros u Hu; unfold tst; rewrite Et1; apply tst_set_other, Hu).
  assert (D1 : DInv s1).
  { split; [|split; [|split]].
    - intros q x Hq Hx. destruct (PE q x Hq (HI q x Hx)) as [H0 [(Ed & Ef & Eh)|(Ed & i & dl & Hst & Hd)]].
      + exfalso. eapply (HRm q x); eauto. lia.
      + split; [exact H0|]. exists i, dl. split; [|exact Hd]. rewrite To by congruence. exact Hst.
    - intros q Hq. rewrite Ep1. destruct (PR q Hq) as [H0 HRj]. split; [exact H0|]. intros j Hj.
      destruct (HRj j Hj) as [(Ex & Eh)|(Ex & Hw)].
      + rewrite Ex, Tt. exists fd, ints. split; [reflexivity|exact Eh].
      + rewrite To by congruence. apply waiting_alive, Hw.
    - apply (same_engine_clean s0 s1 SE). exact PC.
    - destruct PG as [G1 G2]. split; [rewrite HEn; exact G1|]. destruct SE as (A & _). rewrite A. exact G2. }
  destruct (waf_spec s1 D1) as [I2 M2].
  destruct (wait_and_fire s1) as [n s2]. cbn [snd] in *.
  apply run_notified_inv.
  change (Inv (set_thr t NFinished s2)).
  apply set_finished_inv; [exact I2|]. apply M2. rewrite Tt. exact I.
Qed.

Lemma pre_tail_of_inv t fd ints dl s : Inv s -> tst s t = Some (NWaiting fd ints dl) -> pre_tail t fd ints s.
Proof.
  intros (HE & HR & HC & HG) Ht. split; [|split; [|split; assumption]].
  - intros q e Hq He. destruct (HE q e Hq He) as [H0 (i & dl' & Hst & Hd)]. split; [exact H0|].
    destruct (Z.eq_dec (nk_data e) t) as [Ed|Ed].
    + left. rewrite Ed, Ht in Hst. injection Hst as E1 E2 E3. subst. auto.
    + right. split; [exact Ed|]. exists i, dl'. split; assumption.
  - intros q Hq. destruct (HR q Hq) as [H0 HRj]. split; [exact H0|]. intros j Hj x.
    destruct (Z.eq_dec x t) as [Ex|Ex].
    + left. split; [exact Ex|]. destruct (HRj j Hj) as (f1 & i1 & d1 & Hst & Hd). fold x in Hst. rewrite Ex, Ht in Hst.
      injection Hst as E1 E2 E3. subst. exact Hd.
    + right. split; [exact Ex|]. apply HRj, Hj.
Qed.

(* ------------------------------------------------------------------ add_interest: what a (failed) call leaves behind *)
Lemma has_lor_oneshot i p : p <> PEng -> has (Z.lor i ONE_SHOT) (dirbit p) = has i (dirbit p).
Proof.
  intros Hp. unfold has. rewrite Z.land_lor_distr_l.
  destruct p; try contradiction; cbn [dirbit].
  - replace (Z.land ONE_SHOT EV_READ) with 0 by reflexivity. rewrite Z.lor_0_r. reflexivity.
  - replace (Z.land ONE_SHOT EV_WRITE) with 0 by reflexivity. rewrite Z.lor_0_r. reflexivity.
  - replace (Z.land ONE_SHOT EV_ERROR) with 0 by reflexivity. rewrite Z.lor_0_r. reflexivity.
Qed.

Definition new_or_old (t fd ints : Z) (a b : nst) : Prop :=
  forall q e, In e (klist q (n_k b)) ->
    In e (klist q (n_k a)) \/ (q <> PEng /\ nk_data e = t /\ nk_fd e = fd /\ has ints (dirbit q) = true).

Lemma pctl_add_new p fd ev t s ints : p <> PEng -> has ints (dirbit p) = true ->
  new_or_old t fd ints s (snd (pctl p fd CTL_ADD ev t s)).
Proof.
  intros Hp Hh q e He. destruct (pid_eq_dec p q) as [<-|Hne].
  - destruct (pctl_add_spec p fd ev t s) as [[_ U]|[_ U]]; rewrite U in He.
    + left. exact He.
    + apply in_app_or in He as [He|[<-|[]]]; [left; exact He|right]. cbn. auto.
  - rewrite pctl_other_poller in He by exact Hne. left. exact He.
Qed.

Lemma add_interest_new g fd ints t s : new_or_old t fd ints s (snd (add_interest g fd ints t s)).
Proof.
  apply (add_interest_frame (new_or_old t fd ints)).
  - intros a q e He. left. exact He.
  - intros a b c H1 H2 q e He. destruct (H2 q e He) as [Hb|Hn]; [apply (H1 q e Hb)|right; exact Hn].
  - intros a e0 q e He. left. exact He.
  - intros Hh ev a. apply pctl_add_new; [discriminate|exact Hh].
  - intros Hh ev a. apply pctl_add_new; [discriminate|exact Hh].
  - intros Hh ev a. apply pctl_add_new; [discriminate|exact Hh].
  - intros _ a q e He. left. apply (pctl_del_incl PRd fd a q e He).
  - intros _ a q e He. left. apply (pctl_del_incl PWr fd a q e He).
Qed.

Lemma add_interest_eng g fd ints t s : klist PEng (n_k (snd (add_interest g fd ints t s))) = klist PEng (n_k s).
Proof.
  apply (add_interest_frame (fun a b => klist PEng (n_k b) = klist PEng (n_k a))); intros;
    try reflexivity; try congruence; apply pctl_other_poller; discriminate.
Qed.

Lemma add_interest_neg_fd g fd ints t s : 0 <= fst (add_interest g fd ints t s) -> 0 <= fd.
Proof. unfold add_interest. destruct (fd <? 0) eqn:E; [cbn; lia|]. intros _. apply Z.ltb_ge in E. exact E. Qed.

(* one ADD stage: skipped / failed (nothing changes) / appended the new entry *)
Definition stage (p : pid) (fd : Z) (b : bool) (a a' : nst) : Prop :=
  (forall q, p <> q -> klist q (n_k a') = klist q (n_k a)) /\
  ((b = true /\ exists new, nk_fd new = fd /\ klist p (n_k a') = klist p (n_k a) ++ [new]) \/
   klist p (n_k a') = klist p (n_k a)).
Lemma stage_cases (b : bool) p fd ev d r0 s : 0 <= r0 ->
  exists r1 s1, (if b then pctl p fd CTL_ADD ev d s else (r0, s)) = (r1, s1) /\ stage p fd b s s1 /\
    (r1 < 0 -> forall q, klist q (n_k s1) = klist q (n_k s)) /\ (0 <= r1 \/ r1 < 0).
Proof.
  intros Hr. destruct b.
  - pose proof (pctl_add_spec p fd ev d s) as H. pose proof (fun q => pctl_other_poller p fd CTL_ADD ev d s q) as HO.
    destruct (pctl p fd CTL_ADD ev d s) as [r1 s1]. cbn [fst snd] in *. exists r1, s1. split; [reflexivity|].
    destruct H as [[F U]|[F U]].
    + split; [split; [exact HO|right; apply U]|]. split; [intros _; exact U|lia].
    + split; [split; [exact HO|left; split; [reflexivity|eexists; split; [|exact U]; reflexivity]]|]. split; [lia|lia].
  - exists r0, s. split; [reflexivity|]. split; [split; [reflexivity|right; reflexivity]|]. split; [lia|lia].
Qed.
(* one roll-back: skipped (only when this call added nothing there) or DEL *)
Definition undo (p : pid) (fd : Z) (c : bool) (a a' : nst) : Prop :=
  (forall q, p <> q -> klist q (n_k a') = klist q (n_k a)) /\ incl (klist p (n_k a')) (klist p (n_k a)) /\
  (c = false -> forall l new, klist p (n_k a) = l ++ [new] -> nk_fd new = fd -> incl (klist p (n_k a')) l).
Lemma undo_cases (c : bool) p fd s : undo p fd c s (if c then s else snd (pctl p fd CTL_DEL 0 0 s)).
Proof.
  destruct c.
  - split; [reflexivity|]. split; [apply incl_refl|discriminate].
  - split; [intros q Hq; apply pctl_other_poller, Hq|]. split; [apply pctl_del_incl|].
    intros _ l new Hl Hf. rewrite pctl_del_list, Hl. unfold nkremove. rewrite filter_app. cbn [filter].
    rewrite Hf, Z.eqb_refl. cbn [negb]. rewrite app_nil_r. intros x Hx. apply filter_In in Hx. apply Hx.
Qed.
(* a stage followed (later) by its roll-back leaves at most the old entries *)
Lemma stage_undo p fd b g a a1 a2 a3 :
  stage p fd b a a1 -> klist p (n_k a2) = klist p (n_k a1) -> undo p fd (g && negb b) a2 a3 ->
  incl (klist p (n_k a3)) (klist p (n_k a)).
Proof.
  intros [_ [[-> (new & Hf & Hl)]|Hl]] E (_ & U2 & U3).
  - rewrite andb_false_r in U3. apply (U3 eq_refl _ new); [rewrite E; exact Hl|exact Hf].
  - rewrite E, Hl in U2. exact U2.
Qed.

Lemma add_interest_fail g fd ints d s :
  fst (add_interest g fd ints d s) < 0 -> klists_incl s (snd (add_interest g fd ints d s)).
Proof.
  unfold add_interest. destruct (fd <? 0); [intros _ q; cbn; apply incl_refl|].
  set (md := if has ints ONE_SHOT then EPOLLONESHOT else 0).
  destruct (stage_cases (has ints EV_READ) PRd fd (Z.lor md (Z.lor EPOLLIN EPOLLRDHUP)) d 0 s ltac:(lia)) as (r1 & s1 & E1 & G1 & F1 & _).
  rewrite E1. destruct (r1 <? 0) eqn:L1.
  { apply Z.ltb_lt in L1. cbn [fst snd]. intros _ q. rewrite (F1 L1 q). apply incl_refl. }
  apply Z.ltb_ge in L1.
  destruct (stage_cases (has ints EV_WRITE) PWr fd (Z.lor md EPOLLOUT) d r1 s1 L1) as (r2 & s2 & E2 & G2 & F2 & _).
  rewrite E2. destruct (r2 <? 0) eqn:L2.
  { apply Z.ltb_lt in L2. cbn [fst snd]. intros _.
    pose proof (undo_cases (g && negb (has ints EV_READ)) PRd fd s2) as U.
    set (sf := if g && negb (has ints EV_READ) then s2 else snd (pctl PRd fd CTL_DEL 0 0 s2)) in *.
    intros q. destruct (pid_eq_dec PRd q) as [<-|Hq].
    - apply (stage_undo PRd fd _ g s s1 s2 sf G1); [apply (F2 L2)|exact U].
    - destruct U as (U1 & _). rewrite (U1 q Hq), (F2 L2 q). destruct G1 as [G1 _]. rewrite (G1 q Hq). apply incl_refl. }
  apply Z.ltb_ge in L2.
  destruct (stage_cases (has ints EV_ERROR) PEr fd (Z.lor md EPOLLERR) d r2 s2 L2) as (r3 & s3 & E3 & G3 & F3 & _).
  rewrite E3. destruct (r3 <? 0) eqn:L3; [|apply Z.ltb_ge in L3; cbn [fst]; lia].
  apply Z.ltb_lt in L3. cbn [fst snd]. intros _.
  pose proof (undo_cases (g && negb (has ints EV_WRITE)) PWr fd s3) as UW.
  set (sw := if g && negb (has ints EV_WRITE) then s3 else snd (pctl PWr fd CTL_DEL 0 0 s3)) in *.
  pose proof (undo_cases (g && negb (has ints EV_READ)) PRd fd sw) as UR.
  set (sr := if g && negb (has ints EV_READ) then sw else snd (pctl PRd fd CTL_DEL 0 0 sw)) in *.
  intros q. destruct (pid_eq_dec PRd q) as [<-|Hqr].
  - apply (stage_undo PRd fd _ g s s1 sw sr G1); [|exact UR].
    destruct UW as (UW1 & _). rewrite (UW1 PRd ltac:(discriminate)), (F3 L3 PRd). destruct G2 as [G2 _]. apply G2. discriminate.
  - destruct UR as (UR1 & _). rewrite (UR1 q Hqr). destruct (pid_eq_dec PWr q) as [<-|Hqw].
    + eapply incl_tran; [apply (stage_undo PWr fd _ g s1 s2 s3 sw G2); [apply (F3 L3)|exact UW]|].
      destruct G1 as [G1 _]. rewrite (G1 PWr ltac:(discriminate)). apply incl_refl.
    + destruct UW as (UW1 & _). rewrite (UW1 q Hqw), (F3 L3 q).
      destruct G2 as [G2 _]. rewrite (G2 q Hqw). destruct G1 as [G1 _]. rewrite (G1 q Hqr). apply incl_refl.
Qed.

(* ------------------------------------------------------------------ the steps *)
Lemma Inv_log e s : Inv s -> Inv (nadd_log e s).
Proof. exact (fun H => H). Qed.
Lemma Inv_now n s : Inv s -> Inv (nupd_now n s).
Proof. exact (fun H => H). Qed.

Lemma swait_inv g t fd ints tmo s : Inv s -> tst s t = None -> Inv (wait_for_fd_begin g t fd ints tmo s).
Proof.
  intros HI Ht. unfold wait_for_fd_begin.
  destruct (ints =? 0).
  { apply Inv_log. apply set_finished_inv; [exact HI|]. rewrite Ht. exact I. }
  pose proof (add_interest_same_engine g fd (Z.lor ints ONE_SHOT) t s) as SE.
  pose proof (add_interest_new g fd (Z.lor ints ONE_SHOT) t s) as NEW.
  pose proof (add_interest_eng g fd (Z.lor ints ONE_SHOT) t s) as ENG.
  pose proof (add_interest_fail g fd (Z.lor ints ONE_SHOT) t s) as FAIL.
  pose proof (add_interest_neg_fd g fd (Z.lor ints ONE_SHOT) t s) as NEG.
  destruct (add_interest g fd (Z.lor ints ONE_SHOT) t s) as [r s1]. cbn [fst snd] in *.
  destruct HI as (HE & HR & HC & (G1 & G2)).
  assert (Et1 : n_thr s1 = n_thr s) by (apply same_engine_thr, SE).
  assert (Ep1 : forall q, get_pl q s1 = get_pl q s) by (apply same_engine_pl, SE).
  assert (C1 : clean s1) by (apply (same_engine_clean s s1 SE HC)).
  assert (GG : eng_ok s1) by (split; [rewrite ENG; exact G1|destruct SE as (A & _); rewrite A; exact G2]).
  assert (Tn : tst s1 t = None) by (unfold tst; rewrite Et1; exact Ht).
  assert (Old : forall q e, q <> PEng -> In e (klist q (n_k s)) -> nk_data e <> t).
  { intros q e Hq He Ed. destruct (HE q e Hq He) as [_ (i & dl & Hst & _)]. rewrite Ed, Ht in Hst. discriminate. }
  assert (OldR : forall q j, q <> PEng -> (j < Z.to_nat (pl_rem (get_pl q s)))%nat -> nth j (pl_ev (get_pl q s)) (-1) <> t).
  { intros q j Hq Hj Ed. destruct (HR q Hq) as [_ HRj]. destruct (HRj j Hj) as (f1 & i1 & d1 & Hst & _). rewrite Ed, Ht in Hst. discriminate. }
  destruct (r <? 0) eqn:Lr.
  - apply Z.ltb_lt in Lr. apply Inv_log. apply set_finished_inv; [|rewrite Tn; exact I].
    split; [|split; [|split; assumption]].
    + apply (ents_ok_shrink s s1 Et1 (FAIL Lr) HE).
    + apply (rem_ok_same _ s s1 Et1 Ep1 HR).
  - apply Z.ltb_ge in Lr. specialize (NEG Lr).
    destruct (tmo =? 0).
    + apply wait_fail_inv. split; [|split; [|split; assumption]].
      * intros q e Hq He. destruct (NEW q e He) as [Ho|(_ & Ed & Ef & Eh)].
        -- destruct (HE q e Hq Ho) as [H0 (i & dl & Hst & Hd)]. split; [exact H0|]. right.
           split; [apply (Old q e Hq Ho)|]. exists i, dl. split; [unfold tst; rewrite Et1; exact Hst|exact Hd].
        -- split; [lia|]. left. rewrite has_lor_oneshot in Eh by exact Hq. auto.
      * intros q Hq. rewrite Ep1. destruct (HR q Hq) as [H0 HRj]. split; [exact H0|]. intros j Hj x. right.
        split; [apply (OldR q j Hq Hj)|]. unfold tst. rewrite Et1. apply HRj, Hj.
    + set (dl := if tmo <? 0 then -1 else n_now s1 + tmo).
      split; [|split; [|split; assumption]].
      * intros q e Hq He. change (klist q (n_k (set_thr t (NWaiting fd ints dl) s1))) with (klist q (n_k s1)) in He.
        destruct (NEW q e He) as [Ho|(_ & Ed & Ef & Eh)].
        -- destruct (HE q e Hq Ho) as [H0 (i & dl' & Hst & Hd)]. split; [exact H0|]. exists i, dl'. split; [|exact Hd].
           rewrite tst_set_other by (intros E; apply (Old q e Hq Ho); congruence). unfold tst. rewrite Et1. exact Hst.
        -- split; [lia|]. exists ints, dl. rewrite Ed, Ef, tst_set_same. rewrite has_lor_oneshot in Eh by exact Hq. auto.
      * intros q Hq.
        assert (Hp : get_pl q (set_thr t (NWaiting fd ints dl) s1) = get_pl q s) by (rewrite <- Ep1; destruct q; reflexivity).
        rewrite Hp. destruct (HR q Hq) as [H0 HRj]. split; [exact H0|]. intros j Hj.
        rewrite tst_set_other by (intros E; apply (OldR q j Hq Hj); congruence). unfold tst. rewrite Et1. apply HRj, Hj.
Qed.

Lemma NoDup_map_filter {A B} (f : A -> B) (g : A -> bool) l : NoDup (map f l) -> NoDup (map f (filter g l)).
Proof.
  induction l as [|x l IH]; cbn [map filter]; intros H; [constructor|].
  apply NoDup_cons_iff in H as [H1 H2]. destruct (g x); cbn [map]; [|apply IH, H2].
  constructor; [|apply IH, H2]. intros Hin. apply H1. apply in_map_iff in Hin as (y & Ey & Hy).
  apply in_map_iff. exists y. split; [exact Ey|]. apply filter_In in Hy. apply Hy.
Qed.

Lemma same_lists_inv s k' :
  (forall q, incl (klist q k') (klist q (n_k s))) -> NoDup (map nk_data (klist PEng k')) -> Inv s -> Inv (upd_k k' s).
Proof.
  intros Hi Hn (HE & HR & HC & (G1 & G2)). split; [|split; [|split; [exact HC|split; [exact Hn|exact G2]]]].
  - intros q e Hq He. apply (HE q e Hq). apply (Hi q), He.
  - intros q Hq. destruct q; try contradiction; apply (HR _ Hq).
Qed.

Lemma nexpire_inv : forall f lim s, Inv s -> Inv (nexpire_until f lim s).
Proof.
  induction f as [|f IH]; intros lim s HI; [exact HI|]. cbn [nexpire_until].
  destruct (nnext_expiry lim (n_thr s) None) as [[[[t fd0] i0] d]|]; [|exact HI].
  destruct (nthr_get t (n_thr s)) as [[fd i dl| | |]|] eqn:Et; try exact HI.
  apply IH. apply wait_fail_inv. apply (pre_tail_of_inv t fd i dl); [apply Inv_now, HI|exact Et].
Qed.

Definition ng_step_ok (x : nstep) (s : nst) : Prop :=
  match x with
  | NSWait t _ _ _ => nthr_get t (n_thr s) = None      (* a NEW photon thread *)
  | NSIntr _ e => e <> EOK                               (* nobody but the engine interrupts with EOK *)
  | _ => True
  end.

Lemma step_inv g x s : Inv s -> ng_step_ok x s -> Inv (ndo_step g x s).
Proof.
  intros HI Hok. destruct x as [t fd i tmo|fd m| |t e|d| |fd]; cbn [ndo_step ng_step_ok] in *.
  - apply swait_inv; [exact HI|exact Hok].
  - apply same_lists_inv; [intros q; destruct q; apply incl_refl|apply HI|exact HI].
  - destruct (waf_spec s (Inv_DInv s HI)) as [I1 _]. destruct (wait_and_fire s) as [n s1]. cbn [snd] in I1.
    apply run_notified_inv, Inv_log, I1.
  - destruct (nthr_get t (n_thr s)) as [[fd i dl| | |]|] eqn:Et; try exact HI.
    destruct (e =? EOK) eqn:Ee; [apply Z.eqb_eq in Ee; contradiction|].
    apply wait_fail_inv. apply (pre_tail_of_inv t fd i dl s HI Et).
  - apply Inv_now, nexpire_inv, HI.
  - apply same_lists_inv; [intros q; destruct q; apply incl_refl|apply HI|exact HI].
  - apply same_lists_inv; [intros q; destruct q; apply nkremove_incl| |exact HI].
    cbn. unfold nkremove. apply NoDup_map_filter. apply HI.
Qed.

Fixpoint ng_guarded (g : bool) (steps : list nstep) (s : nst) : Prop :=
  match steps with
  | [] => True
  | x :: r => ng_step_ok x s /\ ng_guarded g r (ndo_step g x (nadd_log NMark s))
  end.

Lemma run_inv g : forall steps s, Inv s -> ng_guarded g steps s ->
  Inv (fold_left (fun s x => ndo_step g x (nadd_log NMark s)) steps s).
Proof.
  induction steps as [|x r IH]; intros s HI Hg; [exact HI|]. cbn [fold_left]. destruct Hg as [Hok Hg].
  apply IH; [|exact Hg]. apply step_inv; [apply Inv_log, HI|exact Hok].
Qed.

Lemma init_inv : Inv ng_init.
Proof.
  split; [|split; [|split; [split; reflexivity|split]]].
  - intros p e Hp He. destruct p; try contradiction; vm_compute in He; contradiction.
  - intros p Hp. destruct p; try contradiction; (split; [vm_compute; discriminate|intros j Hj; vm_compute in Hj; lia]).
  - vm_compute. repeat constructor; cbn; intuition discriminate.
  - reflexivity.
Qed.

(* ------------------------------------------------------------------ the theorems *)
Lemma ng_inv_lemma g steps : ng_guarded g steps ng_init -> Inv (run_ng_g g steps).
Proof. intros H. apply run_inv; [apply init_inv|exact H]. Qed.

Lemma ng_no_stale_waiter_access_lemma g steps : ng_guarded g steps ng_init -> n_stale (run_ng_g g steps) = false.
Proof. intros H. apply (ng_inv_lemma g steps H). Qed.

Lemma ng_fire_only_registered_lemma g steps : ng_guarded g steps ng_init -> n_misfire (run_ng_g g steps) = false.
Proof. intros H. apply (ng_inv_lemma g steps H). Qed.

(* the kernel-side form: whatever a direction poller's kernel list holds, and whatever it has reaped and not yet
   delivered, belongs to a thread asleep in wait_for_fd on that descriptor with that direction among its interests *)
Definition ng_entries_owned (s : nst) : Prop :=
  (forall p e, p <> PEng -> In e (klist p (n_k s)) ->
     exists i dl, nthr_get (nk_data e) (n_thr s) = Some (NWaiting (nk_fd e) i dl) /\ has i (dirbit p) = true) /\
  (forall p j, p <> PEng -> (j < Z.to_nat (pl_rem (get_pl p s)))%nat ->
     exists fd i dl, nthr_get (nth j (pl_ev (get_pl p s)) (-1)) (n_thr s) = Some (NWaiting fd i dl) /\ has i (dirbit p) = true).
Lemma ng_entries_owned_lemma g steps : ng_guarded g steps ng_init -> ng_entries_owned (run_ng_g g steps).
Proof.
  intros H. destruct (ng_inv_lemma g steps H) as (HE & HR & _). split.
  - intros p e Hp He. apply (HE p e Hp He).
  - intros p j Hp Hj. apply (HR p Hp), Hj.
Qed.

(* the guard is satisfiable by a script that goes through the reap -> timeout -> notify window *)
Example ng_guarded_example :
  ng_guarded false [NSWait 1 5 EV_READ 7; NSWait 2 6 EV_WRITE (-1); NSReady 5 EPOLLIN; NSReady 6 EPOLLOUT; NSPoll;
                    NSSleep 10; NSPoll; NSWait 3 5 EV_READ (-1); NSIntr 3 4] ng_init.
Proof. cbn [ng_guarded ng_step_ok]. repeat split; try (vm_compute; reflexivity); discriminate. Qed.

(* without the guard the hazard is real in the model: a third party that interrupts a waiter with EOK makes it return
   0 WITHOUT rm_interest; the kernel later hands its dead Event to the datacb *)
Lemma ng_stale_without_guard :
  n_stale (run_ng_g false [NSWait 1 5 EV_READ (-1); NSIntr 1 EOK; NSReady 5 EPOLLIN; NSPoll; NSPoll]) = true.
Proof. vm_compute. reflexivity. Qed.

Lemma ng_no_cross_talk_other_fd_lemma g fd ints data s q fd' :
  fd <> fd' ->
  nkfind fd' (klist q (n_k (snd (add_interest g fd ints data s)))) = nkfind fd' (klist q (n_k s)) /\
  nkfind fd' (klist q (n_k (snd (rm_interest fd ints s)))) = nkfind fd' (klist q (n_k s)).
Proof. intros H. split; [apply add_interest_other_fd, H|apply rm_interest_other_fd, H]. Qed.
