(* C10 part 2 — engine_kernel_agree, final part: every step preserves the invariant. *)
From Coq Require Import ZArith List Lia Bool.
From PV Require Import C10.C10_Engine C10.C10_ProofsEngine C10.C10_ProofsRearm C10.C10_ProofsAgree C10.C10_ProofsAgree2.
Import ListNotations.
Local Open Scope Z_scope.

(* ------------------------------------------------------------------ epoll_wait *)
Lemma k_scan_spec k0 : forall l max fd e, kfind fd l = Some e ->
  exists e', kfind fd (snd (k_scan k0 max l)) = Some e' /\ ke_events e' = ke_events e /\
    (e' = e \/ (reportable k0 e <> 0 /\ In (fd, reportable k0 e) (fst (k_scan k0 max l)))).
Proof.
  induction l as [|x r IH]; intros max fd e H; [discriminate|].
  cbn [kfind] in H. cbn [k_scan]. destruct max as [|mx].
  - cbn [snd fst kfind]. destruct (ke_fd x =? fd); [exists e; inversion H; subst; auto|exists e; auto].
  - destruct (reportable k0 x =? 0) eqn:Er.
    + destruct (k_scan k0 (S mx) r) as [evs l'] eqn:Es. cbn [fst snd kfind].
      destruct (ke_fd x =? fd) eqn:Ex; [inversion H; subst; exists e; auto|].
      specialize (IH (S mx) fd e H). rewrite Es in IH. exact IH.
    + destruct (k_scan k0 mx r) as [evs l'] eqn:Es. cbn [fst snd kfind].
      apply Z.eqb_neq in Er.
      destruct (ke_fd x =? fd) eqn:Ex.
      * inversion H; subst. apply Z.eqb_eq in Ex.
        destruct (has (ke_events e) EPOLLONESHOT || has (ke_events e) EPOLLET); cbn [ke_fd]; rewrite Ex, Z.eqb_refl;
          eexists; (split; [reflexivity|]); (split; [reflexivity|]); right; (split; [exact Er|left; reflexivity]).
      * assert (Hx : ke_fd (if has (ke_events x) EPOLLONESHOT || has (ke_events x) EPOLLET
                             then mkkent (ke_fd x) (ke_events x) false else x) = ke_fd x)
          by (destruct (has (ke_events x) EPOLLONESHOT || has (ke_events x) EPOLLET); reflexivity).
        rewrite Hx, Ex. specialize (IH mx fd e H). rewrite Es in IH. cbn [fst snd] in IH.
        destruct IH as (e' & A & B & C). exists e'. split; [exact A|]. split; [exact B|].
        destruct C as [C|[C1 C2]]; [left; exact C|right; split; [exact C1|right; exact C2]].
Qed.

Lemma kfind_fd fd l e : kfind fd l = Some e -> ke_fd e = fd.
Proof.
  induction l as [|x r IH]; [discriminate|]. cbn [kfind]. destruct (ke_fd x =? fd) eqn:E; [|exact IH].
  intros H; inversion H; subst. apply Z.eqb_eq. exact E.
Qed.

(* a report for an armed one-shot entry translate(m)|ONESHOT fires some registered direction, unless the entry is
   for EVENT_ERROR only and the descriptor reports HUP without ERR (the F32 class) *)
Lemma report_fires m k0 e :
  1 <= m <= 7 -> ke_events e = Z.lor (translate m) EPOLLONESHOT -> ke_armed e = true ->
  reportable k0 e <> 0 ->
  (m = 4 -> has (assoc (ke_fd e) (kn_ready k0)) EPOLLHUP = true -> has (assoc (ke_fd e) (kn_ready k0)) EPOLLERR = true) ->
  will_fire m (reportable k0 e) = true.
Proof.
  intros Hm Hev Ha. unfold reportable. rewrite Ha, Hev.
  destruct (has (assoc (ke_fd e) (kn_ready k0)) EPOLLIN), (has (assoc (ke_fd e) (kn_ready k0)) EPOLLOUT),
           (has (assoc (ke_fd e) (kn_ready k0)) EPOLLRDHUP), (has (assoc (ke_fd e) (kn_ready k0)) EPOLLERR),
           (has (assoc (ke_fd e) (kn_ready k0)) EPOLLHUP);
    enum7 m; try lia; cbn; intros Hr Hg; try reflexivity; try (exfalso; apply Hr; reflexivity);
    try (specialize (Hg eq_refl eq_refl); discriminate).
Qed.

Definition f32_free (s : st) : Prop :=
  forall fd, i_int (tab_get fd (s_tab s)) = ONE_SHOT + 4 ->
    has (assoc fd (kn_ready (s_k s))) EPOLLHUP = true -> has (assoc fd (kn_ready (s_k s))) EPOLLERR = true.

Lemma k_wait_pres s :
  Pinv s [] [] -> f32_free s ->
  forall P, (forall x, In x (fst (k_wait 16 (s_k s))) -> In x P) ->
  Pinv (upd_k (snd (k_wait 16 (s_k s))) s) P [].
Proof.
  intros ([V R E N] & Hk & Hw) Hg P HP. unfold k_wait.
  destruct (k_scan (s_k s) 16 (kn_list (s_k s))) as [evs l'] eqn:Es. cbn [fst snd] in *.
  assert (Hsc : forall fd e, kfind fd (kn_list (s_k s)) = Some e ->
            exists e', kfind fd l' = Some e' /\ ke_events e' = ke_events e /\
              (e' = e \/ (reportable (s_k s) e <> 0 /\ In (fd, reportable (s_k s) e) evs))).
  { intros fd e H. pose proof (k_scan_spec (s_k s) _ 16 fd e H) as X. rewrite Es in X. exact X. }
  assert (HP' : forall x, In x evs -> In x P).
  { intros x Hx. apply HP. unfold k_wait. rewrite Es. exact Hx. }
  split; [|split].
  - constructor; cbn [s_tab s_size s_evfd s_thr s_k upd_k kn_list]; try assumption.
    destruct E as (E1 & (e & E2) & E3). split; [exact E1|]. split; [|exact E3].
    destruct (Hsc EVFD e E2) as (e' & A & _). exists e'. exact A.
  - intros fd m Hm Hi. cbn [s_tab upd_k] in Hi. cbn [s_k upd_k kn_list].
    destruct (Hk fd m Hm Hi) as (e & A & B & C). destruct C as [C|(rep & [] & _)].
    destruct (Hsc fd e A) as (e' & A' & B' & C'). exists e'. split; [exact A'|]. split; [congruence|].
    destruct C' as [->|[C1 C2]]; [left; exact C|right].
    exists (reportable (s_k s) e). split; [apply HP'; exact C2|].
    apply report_fires; try assumption. intros -> Hh. pose proof (kfind_fd _ _ _ A) as Hfd. rewrite Hfd in *.
    apply (Hg fd Hi Hh).
  - exact Hw.
Qed.

(* ------------------------------------------------------------------ waking the fired threads *)
Lemma wake_fold : forall out s,
  NoDup (map fst (s_thr s)) ->
  let s' := fold_left wake_event out s in
  s_tab s' = s_tab s /\ kn_list (s_k s') = kn_list (s_k s) /\ s_size s' = s_size s /\ s_evfd s' = s_evfd s /\
  s_batch s' = s_batch s /\ NoDup (map fst (s_thr s')) /\
  (forall t fd i d, In (t, Waiting fd i d) (s_thr s') -> In (t, Waiting fd i d) (s_thr s) /\ ~ In t out).
Proof.
  induction out as [|t r IH]; intros s Hn; cbn [fold_left].
  - repeat split; auto.
  - assert (Hw : s_tab (wake_event s t) = s_tab s /\ kn_list (s_k (wake_event s t)) = kn_list (s_k s) /\
                 s_size (wake_event s t) = s_size s /\ s_evfd (wake_event s t) = s_evfd s /\
                 s_batch (wake_event s t) = s_batch s /\ NoDup (map fst (s_thr (wake_event s t))) /\
                 (forall t' fd i d, In (t', Waiting fd i d) (s_thr (wake_event s t)) ->
                                    In (t', Waiting fd i d) (s_thr s) /\ t' <> t)).
    { unfold wake_event. destruct (thr_get t (s_thr s)) as [[fd i d|]|] eqn:Eg; cbn.
      - repeat split; auto; try (apply thr_set_nodup; exact Hn).
        + destruct (thr_set_in _ _ _ _ _ Hn H) as [[_ Hx]|[_ Hx]]; [discriminate|exact Hx].
        + destruct (thr_set_in _ _ _ _ _ Hn H) as [[_ Hx]|[Hx _]]; [discriminate|exact Hx].
      - repeat split; auto. intros ->. rewrite (in_thr_get _ _ _ Hn H) in Eg. discriminate.
      - repeat split; auto. intros ->. rewrite (in_thr_get _ _ _ Hn H) in Eg. discriminate. }
    destruct Hw as (A & B & C & D & E & F & G).
    destruct (IH (wake_event s t) F) as (A' & B' & C' & D' & E' & F' & G').
    repeat split; try congruence; try assumption.
    + destruct (G' _ _ _ _ H) as [X _]. apply (G _ _ _ _ X).
    + intros [<-|Hin].
      * destruct (G' _ _ _ _ H) as [X _]. destruct (G _ _ _ _ X) as [_ Y]. congruence.
      * destruct (G' _ _ _ _ H) as [_ Y]. contradiction.
Qed.

Lemma poll_pres s : Inv s -> f32_free s -> Inv (do_step SPoll s).
Proof.
  intros [HP Hb] Hg. cbn [do_step]. unfold wait_for_events. rewrite Hb.
  destruct (k_wait 16 (s_k s)) as [evs k'] eqn:Ew.
  set (s1 := add_log (LWait evs) (upd_batch evs (upd_k k' s))).
  assert (HP1 : Pinv s1 (rev evs) []).
  { apply (Pinv_core (upd_k k' s) s1); [repeat split|].
    pose proof (k_wait_pres s HP Hg (rev evs)) as X. rewrite Ew in X. cbn [fst snd] in X. apply X.
    intros x Hx. apply -> in_rev. exact Hx. }
  replace (s_batch s1) with evs by reflexivity.
  pose proof (process_pres (rev evs) s1 [] HP1) as [A B].
  pose proof (process_master_drains (rev evs) s1 []) as Hd.
  destruct (process (rev evs) None s1 []) as [[out lft] s2]. cbn [fst snd] in *. subst lft. cbn [rev].
  set (s3 := upd_batch [] s2).
  assert (HP3 : Pinv s3 [] out) by (apply (Pinv_core s2 s3); [repeat split|exact A]).
  destruct HP3 as ([V R E N] & Hk & Hw).
  destruct (wake_fold out s3 N) as (T & K & Sz & Ev & Ba & Nd & Hin).
  split; [|rewrite Ba; reflexivity]. split; [|split].
  - constructor; rewrite ?T, ?K, ?Sz, ?Ev; assumption.
  - unfold kern_ok. rewrite T, K. exact Hk.
  - intros t fd i d H. destruct (Hin t fd i d H) as [H1 H2]. rewrite T.
    destruct (Hw t fd i d H1) as (Hdir & [Hreg|Hf]); [|contradiction]. split; [exact Hdir|left; exact Hreg].
Qed.

(* ------------------------------------------------------------------ the failure tail of wait_for_fd *)
Lemma has_dir_cases i j : is_dir i -> is_dir j -> i <> j -> has i j = false.
Proof. intros [-> | [-> | ->]] [-> | [-> | ->]] H; try congruence; reflexivity. Qed.

Lemma wait_fail_pres s t fd i e :
  Pinv s [] [] -> is_dir i -> has (i_int (tab_get fd (s_tab s))) i = true -> dir_data i (tab_get fd (s_tab s)) = t ->
  Pinv (wait_fail t fd i e s) [] [] /\ s_batch (wait_fail t fd i e s) = s_batch s.
Proof.
  intros HP Hdir Hh Hd. pose proof HP as ([V R E N] & Hk & Hw).
  destruct (V fd) as [Hx|(m & Hm & Hx)]; [rewrite Hx in Hh; destruct Hdir as [-> | [-> | ->]]; discriminate|].
  rewrite Hx, (dir_has_mask m i Hm Hdir) in Hh.
  destruct (ar_dir_range i Hdir) as (Hir & _).
  assert (Hne : Z.land i m <> 0).
  { clear - Hh Hdir Hm. destruct Hdir as [-> | [-> | ->]]; enum7 m; cbn in *; (discriminate || lia). }
  destruct (rm_pres s fd i m [] [] [] HP) with (fired' := [t]) as [A B]; try assumption; try lia.
  - intros ? ? _ [].
  - destruct Hdir as [-> | [-> | ->]]; lia.
  - intros t' j d Hin. destruct (Hw t' fd j d Hin) as (Hdj & [(Hhj & Hdd)|[]]).
    destruct (Z.eq_dec i j) as [<-|Hij]; [right; right; left; congruence|].
    right. left. apply has_dir_cases; assumption.
  - intros ? [].
  - destruct (rm_misc fd i s) as (_ & _ & _ & Ba & _).
    unfold wait_fail. split; [|exact Ba].
    set (s1 := snd (rm_interest fd i s)) in *. destruct A as ([V1 R1 E1 N1] & Hk1 & Hw1).
    split; [|split].
    + constructor; cbn [s_tab s_size s_evfd s_k s_thr add_log upd_thr]; try assumption. apply thr_set_nodup. exact N1.
    + exact Hk1.
    + intros t' fd' j d Hin. cbn [s_thr s_tab add_log upd_thr] in *.
      destruct (thr_set_in _ _ _ _ _ N1 Hin) as [[_ Hx']|[Hx1 Hx2]]; [discriminate|].
      destruct (Hw1 t' fd' j d Hx2) as (Hdj & [Hreg|[Hf|[]]]); [split; [exact Hdj|left; exact Hreg]|congruence].
Qed.

(* ------------------------------------------------------------------ wait_for_fd up to the sleep *)
Lemma fin_pres s t lg : Pinv s [] [] -> Pinv (add_log lg (upd_thr (thr_set t Finished (s_thr s)) s)) [] [].
Proof.
  intros ([V R E N] & Hk & Hw). split; [|split].
  - constructor; cbn [s_tab s_size s_evfd s_k s_thr add_log upd_thr]; try assumption. apply thr_set_nodup. exact N.
  - exact Hk.
  - intros t' fd j d Hin. cbn [s_thr s_tab add_log upd_thr] in *.
    destruct (thr_set_in _ _ _ _ _ N Hin) as [[_ Hx]|[_ Hx]]; [discriminate|]. apply (Hw _ _ _ _ Hx).
Qed.

Lemma dir_data_set i j t entry x : is_dir i -> is_dir j ->
  dir_data j (mkife x (if i =? 1 then t else i_rd entry) (if i =? 2 then t else i_wr entry) (if i =? 4 then t else i_er entry))
  = if i =? j then t else dir_data j entry.
Proof. intros [-> | [-> | ->]] [-> | [-> | ->]]; reflexivity. Qed.

Lemma begin_pres s t fd i tmo :
  Inv s -> is_dir i -> thr_get t (s_thr s) = None -> Inv (wait_for_fd_begin t fd i tmo s).
Proof.
  intros [HP Hb] Hdir Hfresh. pose proof HP as ([V R E N] & Hk & Hw).
  unfold wait_for_fd_begin.
  destruct (fd <? 0) eqn:Efd.
  { split; [apply fin_pres; apply (Pinv_core s); [repeat split|exact HP]|exact Hb]. }
  apply Z.ltb_ge in Efd.
  replace (negb (Z.land i (i - 1) =? 0)) with false by (destruct Hdir as [-> | [-> | ->]]; reflexivity).
  replace (i =? 0) with false by (destruct Hdir as [-> | [-> | ->]]; reflexivity).
  assert (Hm : exists m, 0 <= m <= 7 /\ (i_int (tab_get fd (s_tab s)) = 0 /\ m = 0 \/ i_int (tab_get fd (s_tab s)) = ONE_SHOT + m)).
  { destruct (V fd) as [Hx|(m & Hm & Hx)]; [exists 0; split; [lia|left; auto]|exists m; auto]. }
  destruct Hm as (m & Hm & Hx).
  pose proof (add_interest_spec fd i t s m Efd Hdir Hm Hx) as Spec. cbv zeta in Spec.
  destruct (add_interest fd (Z.lor i ONE_SHOT) t s) as [r s1]. cbn [fst snd] in Spec.
  set (entry := tab_get fd (s_tab s)) in *.
  destruct Spec as [(-> & T & K & Th & Ev & Ba & No & Sz)|(-> & Hconf & T & Kfd & Kfr & Knone & Rd & Th & Ev & Ba & No & Sz1 & Sz2)].
  - (* add_interest failed: nothing is registered *)
    replace (-1 <? 0) with true by reflexivity.
    assert (HP1 : Pinv s1 [] []).
    { split; [|split].
      - constructor; rewrite ?T, ?K, ?Th, ?Ev; try assumption. intros fd' H. specialize (R fd' H). lia.
      - unfold kern_ok. rewrite T, K. exact Hk.
      - unfold wait_ok. rewrite T, Th. exact Hw. }
    split; [apply fin_pres; exact HP1|]. cbn. congruence.
  - replace (0 <? 0) with false by reflexivity.
    destruct (ar_merge i m Hdir Hm) as (_ & _ & M3 & M4 & M5 & _ & _).
    assert (Hfe : fd <> EVFD).
    { intros ->. destruct E as (_ & (e & E2) & E3). fold entry in E3. rewrite (Knone E3) in E2. discriminate. }
    assert (Hget : tab_get fd (s_tab s1) = mkife (ONE_SHOT + Z.lor m i) (if i =? 1 then t else i_rd entry)
                     (if i =? 2 then t else i_wr entry) (if i =? 4 then t else i_er entry))
      by (rewrite T; apply tab_get_set_same).
    assert (Hoth : forall fd', fd <> fd' -> tab_get fd' (s_tab s1) = tab_get fd' (s_tab s))
      by (intros fd' Hd; rewrite T; apply tab_get_set_other; exact Hd).
    assert (Hnotin : ~ In t (map fst (s_thr s))) by (apply thr_get_none; exact Hfresh).
    assert (HP1 : Pinv s1 [] []).
    { split; [|split].
      - constructor.
        + intros fd'. destruct (Z.eq_dec fd fd') as [<-|Hd]; [rewrite Hget; right; exists (Z.lor m i); auto|rewrite (Hoth fd' Hd); apply V].
        + intros fd'. destruct (Z.eq_dec fd fd') as [<-|Hd]; [intros _; lia|]. rewrite (Hoth fd' Hd). intros H. specialize (R fd' H). lia.
        + rewrite Ev. destruct E as (E1 & E2 & E3). split; [exact E1|]. rewrite (Kfr EVFD Hfe), (Hoth EVFD Hfe). auto.
        + rewrite Th. exact N.
      - intros fd' m' Hm' Hi'. destruct (Z.eq_dec fd fd') as [<-|Hd].
        + rewrite Hget in Hi'. cbn [i_int] in Hi'. assert (m' = Z.lor m i) by (unfold ONE_SHOT in Hi'; lia). subst m'.
          eexists. split; [exact Kfd|]. split; [reflexivity|left; reflexivity].
        + rewrite (Hoth fd' Hd) in Hi'. rewrite (Kfr fd' Hd). apply Hk; assumption.
      - intros t' fd' j d Hin. rewrite Th in Hin. destruct (Hw t' fd' j d Hin) as (Hdj & [(Hh & Hd)|[]]). split; [exact Hdj|left].
        destruct (Z.eq_dec fd fd') as [<-|Hdf]; [|rewrite (Hoth fd' Hdf); auto].
        fold entry in Hh, Hd.
        assert (Hxm : i_int entry = ONE_SHOT + m).
        { destruct Hx as [[Hx0 _]|Hx']; [|exact Hx']. rewrite Hx0 in Hh. destruct Hdj as [-> | [-> | ->]]; discriminate. }
        rewrite Hxm, (dir_has_mask m j Hm Hdj) in Hh.
        destruct (Z.eq_dec i j) as [<-|Hij].
        * exfalso. apply Hnotin. rewrite <- (Hconf Hh), Hd. apply (in_map fst) in Hin. exact Hin.
        * rewrite Hget. cbn [i_int]. rewrite (dir_has_mask _ j M3 Hdj), (ar_merge_other i j m Hdir Hdj Hij Hm), Hh.
          split; [reflexivity|]. rewrite (dir_data_set i j t entry _ Hdir Hdj).
          replace (i =? j) with false by (symmetry; apply Z.eqb_neq; exact Hij). exact Hd. }
    assert (Hreg : has (i_int (tab_get fd (s_tab s1))) i = true /\ dir_data i (tab_get fd (s_tab s1)) = t).
    { rewrite Hget. cbn [i_int]. rewrite (dir_has_mask _ i M3 Hdir), M5. split; [reflexivity|].
      rewrite (dir_data_set i i t entry _ Hdir Hdir), Z.eqb_refl. reflexivity. }
    destruct (tmo =? 0).
    + destruct (wait_fail_pres s1 t fd i ETIMEDOUT HP1 Hdir (proj1 Hreg) (proj2 Hreg)) as [A B]. split; [exact A|]. congruence.
    + destruct HP1 as ([V1 R1 E1 N1] & Hk1 & Hw1). split; [|cbn; congruence]. split; [|split].
      * constructor; cbn [s_tab s_size s_evfd s_k s_thr upd_thr]; try assumption. apply thr_set_nodup. exact N1.
      * exact Hk1.
      * intros t' fd' j d Hin. cbn [s_thr s_tab upd_thr] in *.
        destruct (thr_set_in _ _ _ _ _ N1 Hin) as [[-> Hx']|[_ Hx']].
        -- inversion Hx'; subst. split; [exact Hdir|left; exact Hreg].
        -- apply (Hw1 _ _ _ _ Hx').
Qed.

(* ------------------------------------------------------------------ all steps *)
Definition step_ok (s : st) (x : step) : Prop :=
  match x with
  | SWait t fd i tmo => is_dir i /\ thr_get t (s_thr s) = None   (* a valid direction, a new thread *)
  | SIntr t e => e <> EOK
  | SPoll => f32_free s                                            (* the complement of finding F32 *)
  | SReady _ _ | SSleep _ | SKick => True
  | SClose _ | SAdd _ _ _ | SRm _ _ _ | SEvents _ _ => False       (* descriptor closed under the engine; cascading API *)
  end.

Lemma next_expiry_in limit : forall l best t fd i d,
  (forall t fd i d, best = Some (t, fd, i, d) -> In (t, Waiting fd i d) l \/ True) ->
  next_expiry limit l best = Some (t, fd, i, d) -> best = Some (t, fd, i, d) \/ In (t, Waiting fd i d) l.
Proof.
  induction l as [|[x w] r IH]; intros best t fd i d _ H; [left; exact H|].
  cbn [next_expiry] in H. destruct w as [fd' i' d'|].
  - match type of H with context [if ?c then _ else _] => destruct c end.
    + destruct (IH _ t fd i d (fun _ _ _ _ _ => or_intror I) H) as [X|X]; [inversion X; subst; right; left; reflexivity|right; right; exact X].
    + destruct (IH _ t fd i d (fun _ _ _ _ _ => or_intror I) H) as [X|X]; [left; exact X|right; right; exact X].
  - destruct (IH _ t fd i d (fun _ _ _ _ _ => or_intror I) H) as [X|X]; [left; exact X|right; right; exact X].
Qed.

Lemma expire_pres : forall fuel limit s, Inv s -> Inv (expire_until fuel limit s).
Proof.
  induction fuel as [|f IH]; intros limit s HI; [exact HI|]. cbn [expire_until].
  destruct (next_expiry limit (s_thr s) None) as [[[[t fd] i] d]|] eqn:En; [|exact HI].
  destruct (next_expiry_in limit (s_thr s) None t fd i d (fun _ _ _ _ _ => or_intror I) En) as [X|Hin]; [discriminate|].
  apply IH. destruct HI as [HP Hb]. pose proof HP as (_ & _ & Hw).
  destruct (Hw t fd i d Hin) as (Hdir & [(Hh & Hd)|[]]).
  assert (HP' : Pinv (upd_now d s) [] []) by (apply (Pinv_core s); [repeat split|exact HP]).
  destruct (wait_fail_pres (upd_now d s) t fd i ETIMEDOUT HP' Hdir Hh Hd) as [A B]. split; [exact A|]. rewrite B. exact Hb.
Qed.

Lemma step_pres s x : Inv s -> step_ok s x -> Inv (do_step x s).
Proof.
  intros HI Hok. destruct x; cbn [step_ok] in Hok; try contradiction.
  - destruct Hok as [Hd Hf]. apply begin_pres; assumption.
  - destruct HI as [HP Hb]. cbn [do_step]. split; [apply (Pinv_core s); [repeat split|exact HP]|exact Hb].
  - apply poll_pres; assumption.
  - cbn [do_step]. destruct (thr_get t (s_thr s)) as [[fd i d|]|] eqn:Eg; try exact HI.
    replace (e =? EOK) with false by (symmetry; apply Z.eqb_neq; exact Hok).
    destruct HI as [HP Hb]. pose proof HP as (_ & _ & Hw).
    destruct (Hw t fd i d (thr_get_in _ _ _ Eg)) as (Hdir & [(Hh & Hd)|[]]).
    destruct (wait_fail_pres s t fd i e HP Hdir Hh Hd) as [A B]. split; [exact A|congruence].
  - cbn [do_step]. pose proof (expire_pres (length (s_thr s)) (s_now s + d) s HI) as [HP Hb].
    split; [apply (Pinv_core (expire_until (length (s_thr s)) (s_now s + d) s)); [repeat split|exact HP]|exact Hb].
  - destruct HI as [HP Hb]. cbn [do_step]. split; [|exact Hb].
    destruct HP as ([V R E N] & Hk & Hw). unfold k_kick.
    destruct (kfind (s_evfd s) (kn_list (s_k s))) as [e0|] eqn:Ee.
    + assert (Hfr : forall fd', s_evfd s <> fd' -> kfind fd' (kreplace (mkkent (s_evfd s) (ke_events e0) true) (kn_list (s_k s))) = kfind fd' (kn_list (s_k s)))
        by (intros fd' Hd; apply kfind_kreplace_other; exact Hd).
      split; [|split].
      * constructor; cbn [s_tab s_size s_evfd s_k s_thr upd_k kn_list]; try assumption.
        destruct E as (E1 & E2 & E3). split; [exact E1|]. split; [|exact E3].
        rewrite E1 in *. eexists. eapply kfind_kreplace_same. exact Ee.
      * intros fd m Hm Hi. cbn [s_tab upd_k] in Hi. cbn [s_k upd_k kn_list].
        destruct (Z.eq_dec (s_evfd s) fd) as [Hd|Hd]; [|rewrite (Hfr fd Hd); apply Hk; assumption].
        exfalso. destruct E as (E1 & _ & E3). rewrite <- Hd, E1, E3 in Hi. unfold ONE_SHOT in Hi. lia.
      * exact Hw.
    + apply (Pinv_core s); [repeat split|]. split; [constructor; assumption|auto].
Qed.

Fixpoint guarded (steps : list step) (s : st) : Prop :=
  match steps with
  | [] => True
  | x :: r => step_ok (add_log LMark s) x /\ guarded r (do_step x (add_log LMark s))
  end.

Lemma init_inv : Inv init_st.
Proof.
  split; [|reflexivity]. split; [|split].
  - constructor.
    + intros fd. left. reflexivity.
    + intros fd H. exfalso. apply H. reflexivity.
    + split; [reflexivity|]. split; [eexists; vm_compute; reflexivity|reflexivity].
    + constructor.
  - intros fd m Hm Hi. change (0 = ONE_SHOT + m) in Hi. unfold ONE_SHOT in Hi. lia.
  - intros t fd i d [].
Qed.

Lemma run_inv : forall steps s, Inv s -> guarded steps s -> Inv (fold_left (fun s x => do_step x (add_log LMark s)) steps s).
Proof.
  induction steps as [|x r IH]; intros s HI Hg; [exact HI|]. cbn [fold_left]. destruct Hg as [Hok Hr].
  apply IH; [|exact Hr]. apply step_pres; [|exact Hok].
  destruct HI as [HP Hb]. split; [apply (Pinv_core s); [repeat split|exact HP]|exact Hb].
Qed.

(* engine_kernel_agree: in every state reached by a guarded script, every thread that waits for (fd, direction)
   has the kernel entry of fd armed for (at least) the translation of that direction *)
Lemma engine_kernel_agree_lemma : forall steps,
  guarded steps init_st -> engine_kernel_agree_at (run_engine steps).
Proof.
  intros steps Hg. pose proof (run_inv steps init_st init_inv Hg) as [([V R E N] & Hk & Hw) _].
  fold (run_engine steps) in *. intros t fd i d Hin.
  destruct (Hw t fd i d Hin) as (Hdir & [(Hh & _)|[]]).
  destruct (V fd) as [Hx|(m & Hm & Hx)]; [rewrite Hx in Hh; destruct Hdir as [-> | [-> | ->]]; discriminate|].
  rewrite Hx, (dir_has_mask m i Hm Hdir) in Hh.
  assert (Hm1 : 1 <= m <= 7) by (split; [eapply ar_has_dir_pos; eassumption|lia]).
  destruct (Hk fd m Hm1 Hx) as (e & A & B & [C|(rep & [] & _)]).
  unfold armed_for. rewrite A, C, B. cbn [andb]. apply ar_armed; assumption.
Qed.

(* the guard is met by a non-trivial script: reader and writer on one descriptor, a timeout, readiness, an interrupt *)
Example guarded_example :
  guarded [SWait 1 5 EV_READ 7; SWait 2 5 EV_WRITE (-1); SSleep 10; SReady 5 (Z.lor EPOLLIN EPOLLHUP);
           SWait 3 5 EV_READ (-1); SIntr 3 4; SKick] init_st.
Proof. cbn [guarded step_ok]. repeat split; try (vm_compute; auto; fail); try discriminate; vm_compute; auto. Qed.
