(* C10 part 1 — theorems about the stream calls of KernelSocketStream, for every kernel oracle. *)
From Coq Require Import ZArith List Lia Bool.
From PV Require Import Base.U64 C10.C10_Model C10.C10_Proofs C10.C10_ProofsLoop.
Import ListNotations.
Local Open Scope Z_scope.

Definition wf_lens (lens : list Z) : Prop := Forall (fun l => 0 <= l < W64) lens.

(* the byte positions the caller asked to move, in stream order *)
Definition requested (o : op) (lens : list Z) : list Z :=
  match o with
  | OpRead | OpWrite | OpRecv | OpSend => flat [mkiov 0 (nth 0 lens 0)]
  | OpSendfile => flat [mkiov (nth 0 lens 0) (nth 1 lens 0)]
  | OpReadv | OpWritev | OpRecvv | OpSendv => flat (mk_iovs 0 lens)
  end.
Definition is_loop (o : op) : bool :=
  match o with OpRead | OpWrite | OpReadv | OpWritev | OpSendfile => true | _ => false end.

Lemma wf_lens_nth lens i : wf_lens lens -> 0 <= nth i lens 0 < W64.
Proof.
  intros H. destruct (lt_dec i (length lens)) as [Hi|Hi].
  - eapply Forall_forall in H; [exact H|]. apply nth_In. exact Hi.
  - rewrite nth_overflow by lia. split; [lia|reflexivity].
Qed.

Lemma mk_iovs_wf : forall lens i, wf_lens lens -> wf_view (mk_iovs i lens).
Proof.
  induction lens as [|l r IH]; intros i H; [constructor|].
  inversion H; subst. cbn [mk_iovs]. constructor; [cbn; lia|]. apply IH. assumption.
Qed.

Lemma init_tch sys wt : tch (init_kst sys wt) = [].
Proof. reflexivity. Qed.

(* ---- doio_stream_exact ----
   read/write/readv/writev/sendfile_n: the bytes moved are a prefix of the requested stream, in order, each
   once; the return value is the number moved, which is the full count unless the kernel answered EOF to a
   non-empty request; or it is -1, and then (and only then) the last thing that happened is a kernel error
   other than EINTR/EAGAIN (errno = it), a wait that timed out (errno = ETIMEDOUT) or an interrupted wait. *)
Definition stream_exact (o : op) (lens : list Z) (ret : Z) (k : kst) : Prop :=
  exists m : nat,
    (m <= length (requested o lens))%nat /\ tch k = firstn m (requested o lens) /\
    ((ret = Z.of_nat m /\ (m = length (requested o lens) \/ eof k)) \/ (ret = -1 /\ fail_reason k)).

Lemma doio_stream_exact_lemma : forall o tmo flags lens sys wt ret k,
  is_loop o = true -> wf_lens lens -> wf_script sys ->
  run_op o tmo flags lens sys wt = Done (ret, k) ->
  stream_exact o lens ret k.
Proof.
  intros o tmo flags lens sys wt ret k Hl Hw Hs H.
  pose proof (wf_lens_nth lens 0 Hw) as H0. pose proof (wf_lens_nth lens 1 Hw) as H1.
  assert (Hinit : wf_script (k_sys (init_kst sys wt))) by exact Hs.
  unfold run_op in H. unfold stream_exact.
  destruct o; try discriminate Hl; cbn [requested].
  - destruct (loop_buf_spec _ _ _ _ _ _ _ _ _ _ _ H0 Hinit H) as [(m & A & B & C) _].
    exists m. rewrite init_tch in B. cbn [app] in B. replace (0 + Z.of_nat m) with (Z.of_nat m) in C by lia. auto.
  - destruct (loop_buf_spec _ _ _ _ _ _ _ _ _ _ _ H0 Hinit H) as [(m & A & B & C) _].
    exists m. rewrite init_tch in B. cbn [app] in B. replace (0 + Z.of_nat m) with (Z.of_nat m) in C by lia. auto.
  - pose proof (mk_iovs_wf lens 0 Hw) as Hv.
    destruct (skip_empty_spec 1 _ Hv) as (Hv1 & Hf1).
    destruct (loop_v_spec _ _ _ _ _ _ _ _ _ _ Hv1 (skip_empty1_head _ Hv) Hinit H) as [(m & A & B & C) _].
    exists m. rewrite init_tch in B. cbn [app] in B. rewrite Hf1 in *.
    replace (0 + Z.of_nat m) with (Z.of_nat m) in C by lia. auto.
  - pose proof (mk_iovs_wf lens 0 Hw) as Hv.
    destruct (skip_empty_spec 1 _ Hv) as (Hv1 & Hf1).
    destruct (loop_v_spec _ _ _ _ _ _ _ _ _ _ Hv1 (skip_empty1_head _ Hv) Hinit H) as [(m & A & B & C) _].
    exists m. rewrite init_tch in B. cbn [app] in B. rewrite Hf1 in *.
    replace (0 + Z.of_nat m) with (Z.of_nat m) in C by lia. auto.
  - destruct (loop_buf_spec _ _ _ _ _ _ _ _ _ _ _ H1 Hinit H) as [(m & A & B & C) _].
    exists m. rewrite init_tch in B. cbn [app] in B. replace (0 + Z.of_nat m) with (Z.of_nat m) in C by lia. auto.
Qed.

(* ---- recv/send: at most the requested count, at least one byte unless EOF (or nothing was asked) ---- *)
Definition once_exact (o : op) (lens : list Z) (ret : Z) (k : kst) : Prop :=
  (0 <= ret <= Z.of_nat (length (requested o lens)) /\ tch k = firstn (Z.to_nat ret) (requested o lens) /\
   (ret = 0 -> requested o lens = [] \/ eof k))
  \/ (ret = -1 /\ tch k = [] /\ fail_reason k).

Lemma recv_send_bounds_lemma : forall o tmo flags lens sys wt ret k,
  is_loop o = false -> wf_lens lens -> wf_script sys ->
  run_op o tmo flags lens sys wt = Done (ret, k) ->
  once_exact o lens ret k.
Proof.
  intros o tmo flags lens sys wt ret k Hl Hw Hs H.
  pose proof (wf_lens_nth lens 0 Hw) as H0.
  assert (Hinit : wf_script (k_sys (init_kst sys wt))) by exact Hs.
  assert (Hone : wf_view [mkiov 0 (nth 0 lens 0)]) by (constructor; [cbn; lia|constructor]).
  pose proof (mk_iovs_wf lens 0 Hw) as Hv.
  unfold run_op in H. unfold once_exact.
  assert (G : forall sk fl wk v, wf_view v ->
              doio_once (S (length sys)) sk fl wk tmo v (init_kst sys wt) = Done (ret, k) ->
              (0 <= ret <= Z.of_nat (length (flat v)) /\ tch k = firstn (Z.to_nat ret) (flat v) /\
               (ret = 0 -> flat v = [] \/ eof k)) \/ (ret = -1 /\ tch k = [] /\ fail_reason k)).
  { intros sk fl wk v Hwv Hd.
    destruct (doio_once_spec _ _ _ _ _ _ _ _ _ Hwv Hinit Hd) as [(_ & _ & Hc) _].
    pose proof (flat_length v Hwv) as Hfl.
    destruct Hc as [(Hr & Ht & (l & Hlog))|(-> & Ht & Hf)]; [left|right; auto].
    split; [lia|]. split; [exact Ht|]. intros ->.
    destruct (Z.eq_dec (vsum v) 0) as [Hz|Hz].
    - left. destruct (flat v); [reflexivity|cbn in Hfl; lia].
    - right. unfold eof. rewrite Hlog. lia. }
  destruct o; try discriminate Hl; cbn [requested]; eapply G; eauto.
Qed.

(* ---- the stream timeout bounds the time spent waiting; a call never runs out of fuel ---- *)
Lemma doio_timeout_bound_lemma : forall o tmo flags lens sys wt ret k,
  o <> OpSendfile -> wf_lens lens -> wf_script sys -> 0 <= tmo -> tmo <> MAX64 ->
  run_op o tmo flags lens sys wt = Done (ret, k) ->
  k_elapsed k <= tmo.
Proof.
  intros o tmo flags lens sys wt ret k Hsf Hw Hs Ht Hm H.
  pose proof (wf_lens_nth lens 0 Hw) as H0.
  assert (Hinit : wf_script (k_sys (init_kst sys wt))) by exact Hs.
  assert (Hel0 : el_ok tmo (init_kst sys wt)) by (right; cbn; lia).
  assert (Hone : wf_view [mkiov 0 (nth 0 lens 0)]) by (constructor; [cbn; lia|constructor]).
  pose proof (mk_iovs_wf lens 0 Hw) as Hv.
  destruct (skip_empty_spec 1 _ Hv) as (Hv1 & Hf1).
  unfold run_op in H.
  assert (G : el_ok tmo k -> k_elapsed k <= tmo) by (intros [?|?]; [contradiction|assumption]).
  apply G.
  destruct o; try congruence.
  - eapply (proj2 (loop_buf_spec _ _ _ _ _ _ _ _ _ _ _ H0 Hinit H)); assumption.
  - eapply (proj2 (loop_buf_spec _ _ _ _ _ _ _ _ _ _ _ H0 Hinit H)); assumption.
  - eapply (proj2 (loop_v_spec _ _ _ _ _ _ _ _ _ _ Hv1 (skip_empty1_head _ Hv) Hinit H)); assumption.
  - eapply (proj2 (loop_v_spec _ _ _ _ _ _ _ _ _ _ Hv1 (skip_empty1_head _ Hv) Hinit H)); assumption.
  - eapply (proj2 (doio_once_spec _ _ _ _ _ _ _ _ _ Hone Hinit H)); assumption.
  - eapply (proj2 (doio_once_spec _ _ _ _ _ _ _ _ _ Hone Hinit H)); assumption.
  - eapply (proj2 (doio_once_spec _ _ _ _ _ _ _ _ _ Hv Hinit H)); assumption.
  - eapply (proj2 (doio_once_spec _ _ _ _ _ _ _ _ _ Hv Hinit H)); assumption.
Qed.

Lemma doio_terminates_lemma : forall o tmo flags lens sys wt,
  wf_lens lens -> wf_script sys -> run_op o tmo flags lens sys wt <> OutOfFuel.
Proof.
  intros o tmo flags lens sys wt Hw Hs.
  pose proof (wf_lens_nth lens 0 Hw) as H0. pose proof (wf_lens_nth lens 1 Hw) as H1.
  assert (Hinit : wf_script (k_sys (init_kst sys wt))) by exact Hs.
  assert (Hlen : (length (k_sys (init_kst sys wt)) < S (length sys))%nat) by (cbn; lia).
  pose proof (mk_iovs_wf lens 0 Hw) as Hv.
  destruct (skip_empty_spec 1 _ Hv) as (Hv1 & _).
  unfold run_op. destruct o.
  - apply loop_buf_fuel; assumption.
  - apply loop_buf_fuel; assumption.
  - apply loop_v_fuel; assumption.
  - apply loop_v_fuel; assumption.
  - apply doio_once_fuel; assumption.
  - apply doio_once_fuel; assumption.
  - apply doio_once_fuel; assumption.
  - apply doio_once_fuel; assumption.
  - apply loop_buf_fuel; assumption.
Qed.

(* a timeout is reported only when the whole stream timeout has been spent waiting *)
Lemma examples_hold :
  wf_lens [2; 0; 3] /\ wf_script [Ret 2; Fail 11; Ret 9] /\
  exists k, run_op OpReadv MAX64 0 [2; 0; 3] [Ret 2; Fail 11; Ret 9] [WReady 5] = Done (5, k).
Proof.
  split; [repeat constructor; cbn; lia|]. split; [repeat constructor; cbn; lia|].
  eexists. vm_compute. reflexivity.
Qed.
