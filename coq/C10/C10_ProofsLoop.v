(* C10 part 1 — doio_once / doio_loop theorems for every kernel oracle. *)
From Coq Require Import ZArith List Lia Bool.
From PV Require Import Base.U64 C10.C10_Model C10.C10_Proofs.
Import ListNotations.
Local Open Scope Z_scope.

(* the time spent waiting never exceeds the stream timeout *)
Definition el_ok (tmo : Z) (k : kst) : Prop := tmo = MAX64 \/ k_elapsed k <= tmo.

Lemma kwait_spec kind tmo k w k1 :
  kwait kind tmo k = Done (w, k1) ->
  k_sys k1 = k_sys k /\ tch k1 = tch k /\ (el_ok tmo k -> el_ok tmo k1) /\
  ((w = 0 /\ k_errno k1 = k_errno k) \/ (w = -1 /\ fail_reason k1)).
Proof.
  unfold kwait, remaining, el_ok. intros H.
  destruct (k_wt k) as [|a rest]; [discriminate|].
  destruct (tmo =? MAX64) eqn:Et.
  - apply Z.eqb_eq in Et.
    destruct a as [d| |d e]; inversion H; subst; clear H; cbn [k_sys k_touched k_elapsed k_errno];
      (split; [reflexivity|]); (split; [reflexivity|]); (split; [intros _; left; reflexivity|]).
    + left. auto.
    + right. split; [reflexivity|]. unfold fail_reason; cbn. right; reflexivity.
  - apply Z.eqb_neq in Et. unfold sat_sub in H.
    assert (Hrem : forall el, el <= tmo -> (if tmo <? el then 0 else tmo - el) = tmo - el).
    { intros el Hel. destruct (Z.ltb_spec tmo el); lia. }
    destruct a as [d| |d e].
    + destruct (d <? (if tmo <? k_elapsed k then 0 else tmo - k_elapsed k)) eqn:Hd; inversion H; subst; clear H;
        cbn [k_sys k_touched k_elapsed k_errno]; (split; [reflexivity|]); (split; [reflexivity|]).
      * split. { intros [?|Hel]; [contradiction|]. right. rewrite Hrem in Hd by assumption. apply Z.ltb_lt in Hd. lia. }
        left; auto.
      * split. { intros [?|Hel]; [contradiction|]. right. rewrite Hrem by assumption. lia. }
        right. split; [reflexivity|]. unfold fail_reason; cbn. left; auto.
    + inversion H; subst; clear H. cbn [k_sys k_touched k_elapsed k_errno]. (split; [reflexivity|]); (split; [reflexivity|]).
      split. { intros [?|Hel]; [contradiction|]. right. rewrite Hrem by assumption. lia. }
      right. split; [reflexivity|]. unfold fail_reason; cbn. left; auto.
    + destruct (d <? (if tmo <? k_elapsed k then 0 else tmo - k_elapsed k)) eqn:Hd; inversion H; subst; clear H;
        cbn [k_sys k_touched k_elapsed k_errno]; (split; [reflexivity|]); (split; [reflexivity|]).
      * split. { intros [?|Hel]; [contradiction|]. right. rewrite Hrem in Hd by assumption. apply Z.ltb_lt in Hd. lia. }
        right. split; [reflexivity|]. unfold fail_reason; cbn. right; reflexivity.
      * split. { intros [?|Hel]; [contradiction|]. right. rewrite Hrem by assumption. lia. }
        right. split; [reflexivity|]. unfold fail_reason; cbn. left; auto.
Qed.

(* what one doio_once call can do *)
Definition once_post (sk fl : Z) (v : view) (k : kst) (ret : Z) (k1 : kst) : Prop :=
  wf_script (k_sys k1) /\ (length (k_sys k1) < length (k_sys k))%nat /\
  ((0 <= ret <= vsum v /\ tch k1 = tch k ++ firstn (Z.to_nat ret) (flat v) /\
    exists l, k_log k1 = ESys sk fl v ret :: l)
   \/ (ret = -1 /\ tch k1 = tch k /\ fail_reason k1)).

Lemma doio_once_spec : forall fuel sk fl wk tmo v k ret k1,
  wf_view v -> wf_script (k_sys k) ->
  doio_once fuel sk fl wk tmo v k = Done (ret, k1) ->
  once_post sk fl v k ret k1 /\ (el_ok tmo k -> el_ok tmo k1).
Proof.
  induction fuel as [|f IH]; intros sk fl wk tmo v k ret k1 Hv Hs H; [discriminate|].
  cbn [doio_once] in H.
  destruct (ksys sk fl v k) as [[r ka]|] eqn:Ek; [|discriminate].
  destruct (ksys_spec _ _ _ _ _ _ Hv Hs Ek) as (a & Hsys & Hwf1 & _ & Hel & Hcase).
  assert (Hlen : (length (k_sys ka) < length (k_sys k))%nat) by (rewrite Hsys; simpl; lia).
  assert (Helk : el_ok tmo k -> el_ok tmo ka) by (unfold el_ok; rewrite Hel; auto).
  destruct Hcase as [(n & -> & Hr & Hrange & Htch & Hlog) | (e & -> & He & Hr & Htch & Herr & Hlog)].
  - destruct (r <? 0) eqn:Hneg; [apply Z.ltb_lt in Hneg; lia|].
    inversion H; subst; clear H. split; [|assumption].
    split; [assumption|]. split; [assumption|]. left. split; [lia|]. split; [assumption|]. eexists; eassumption.
  - subst r. cbn in H. rewrite Herr in H.
    destruct (e =? EINTR) eqn:E1.
    + destruct (IH _ _ _ _ _ _ _ _ Hv Hwf1 H) as [(P1 & P2 & P3) P4].
      split; [|auto]. split; [assumption|]. split; [lia|].
      rewrite Htch in P3. exact P3.
    + destruct (e =? EAGAIN) eqn:E2.
      * destruct (kwait wk tmo ka) as [[w kb]| | |] eqn:Ew; try discriminate.
        destruct (kwait_spec _ _ _ _ _ Ew) as (Ws & Wt & Wel & Wc).
        destruct (w =? 0) eqn:Ew0.
        -- assert (Hwfb : wf_script (k_sys kb)) by (rewrite Ws; assumption).
           destruct (IH _ _ _ _ _ _ _ _ Hv Hwfb H) as [(P1 & P2 & P3) P4].
           split; [|auto]. split; [assumption|]. split; [rewrite Ws in P2; lia|].
           rewrite Wt, Htch in P3. exact P3.
        -- inversion H; subst; clear H. apply Z.eqb_neq in Ew0.
           destruct Wc as [[? _]|[_ Wf]]; [contradiction|].
           split; [|auto]. split; [rewrite Ws; assumption|]. split; [rewrite Ws; assumption|].
           right. split; [reflexivity|]. split; [rewrite Wt; assumption|assumption].
      * inversion H; subst; clear H. apply Z.eqb_neq in E1. apply Z.eqb_neq in E2.
        split; [|assumption]. split; [assumption|]. split; [assumption|].
        right. split; [reflexivity|]. split; [assumption|].
        unfold fail_reason. rewrite Hlog. repeat split; auto.
Qed.

Lemma ksys_len kind fl v k r ka : ksys kind fl v k = Some (r, ka) -> S (length (k_sys ka)) = length (k_sys k).
Proof.
  unfold ksys. destruct (k_sys k) as [|a rest]; [discriminate|].
  destruct a; intros H; inversion H; subst; reflexivity.
Qed.

Lemma kwait_sys kind tmo k w kb : kwait kind tmo k = Done (w, kb) -> k_sys kb = k_sys k.
Proof. intros H. apply kwait_spec in H. tauto. Qed.

Lemma kwait_no_oof kind tmo k : kwait kind tmo k <> OutOfFuel.
Proof.
  unfold kwait. destruct (k_wt k) as [|a rest]; [discriminate|].
  destruct (remaining tmo (k_elapsed k)); destruct a; try discriminate;
    match goal with |- context [if ?c then _ else _] => destruct c end; discriminate.
Qed.

Lemma doio_once_fuel : forall fuel sk fl wk tmo v k,
  (length (k_sys k) < fuel)%nat -> doio_once fuel sk fl wk tmo v k <> OutOfFuel.
Proof.
  induction fuel as [|f IH]; intros sk fl wk tmo v k Hlen; [lia|].
  cbn [doio_once]. destruct (ksys sk fl v k) as [[r ka]|] eqn:Ek; [|discriminate].
  apply ksys_len in Ek.
  destruct (r <? 0); [|discriminate].
  destruct (k_errno ka =? EINTR). { apply IH. lia. }
  destruct (k_errno ka =? EAGAIN); [|discriminate].
  destruct (kwait wk tmo ka) as [[w kb]| | |] eqn:Ew; try discriminate.
  - destruct (w =? 0); [|discriminate]. apply IH. rewrite (kwait_sys _ _ _ _ _ Ew). lia.
  - exfalso. exact (kwait_no_oof _ _ _ Ew).
Qed.

(* ------------------------------------------------------------------ doio_loop with BufStepV *)
(* result of a full-count loop that started with n bytes already counted and view v *)
Definition loop_post (v : view) (n : Z) (k : kst) (ret : Z) (k' : kst) : Prop :=
  exists m : nat,
    (m <= length (flat v))%nat /\ tch k' = tch k ++ firstn m (flat v) /\
    ((ret = n + Z.of_nat m /\ (m = length (flat v) \/ eof k')) \/ (ret = -1 /\ fail_reason k')).

Lemma loop_v_spec : forall fuel sk fl wk tmo v n k ret k',
  wf_view v -> head_ok v -> wf_script (k_sys k) ->
  loop_v fuel sk fl wk tmo v n k = Done (ret, k') ->
  loop_post v n k ret k' /\ (el_ok tmo k -> el_ok tmo k').
Proof.
  induction fuel as [|f IH]; intros sk fl wk tmo v n k ret k' Hv Hh Hs H; [discriminate|].
  cbn [loop_v] in H.
  destruct (doio_once (S f) sk fl wk tmo v k) as [[r k1]| | |] eqn:Eo; try discriminate.
  destruct (doio_once_spec _ _ _ _ _ _ _ _ _ Hv Hs Eo) as [(Hwf1 & Hlen & Hc) Hel].
  pose proof (flat_length v Hv) as Hfl.
  destruct Hc as [(Hr & Htch & (l & Hlog)) | (-> & Htch & Hf)].
  - destruct (r <? 0) eqn:Hneg; [apply Z.ltb_lt in Hneg; lia|].
    destruct (r =? 0) eqn:Hz.
    + apply Z.eqb_eq in Hz. subst r. inversion H; subst; clear H. split; [|assumption].
      exists 0%nat. split; [lia|]. split; [cbn [firstn] in *; exact Htch|]. left. split; [lia|].
      destruct (head_ok_vsum v Hv Hh) as [He|Hp]; [left; rewrite He; reflexivity|right].
      unfold eof. rewrite Hlog. exact Hp.
    + apply Z.eqb_neq in Hz.
      destruct (extract_front_spec v r Hv ltac:(lia)) as (Hwe & Hsplit).
      destruct (skip_empty_spec 0 _ Hwe) as (Hws & Hfs).
      set (v2 := skip_empty 0 (snd (extract_front r v))) in *.
      assert (Hlenm : (Z.to_nat r <= length (flat v))%nat) by lia.
      destruct (0 <? Z.of_nat (length v2)) eqn:Hcont.
      * assert (Hh2 : head_ok v2).
        { destruct (skip_empty0_head _ Hwe) as [E|(e & rr & E & He)]; fold v2 in E.
          - rewrite E in Hcont. discriminate.
          - right. exists e, rr. auto. }
        destruct (IH _ _ _ _ _ _ _ _ _ Hws Hh2 Hwf1 H) as [(m & Hm & Ht & Hres) Hel2].
        split; [|auto].
        exists (Z.to_nat r + m)%nat.
        assert (Hl1 : length (firstn (Z.to_nat r) (flat v)) = Z.to_nat r) by (apply firstn_length_le; lia).
        rewrite <- Hfs in Hsplit.
        remember (firstn (Z.to_nat r) (flat v)) as A eqn:HA.
        split. { rewrite Hsplit, app_length, Hl1. lia. }
        split.
        { rewrite Ht, Htch, <- app_assoc. f_equal.
          rewrite Hsplit, <- Hl1. symmetry. apply firstn_app_2. }
        destruct Hres as [(Hret & Hfull)|Hfail]; [left|right; assumption].
        split; [lia|]. destruct Hfull as [Hfull|Heof]; [left|right; assumption].
        rewrite Hsplit, app_length, Hl1. lia.
      * inversion H; subst; clear H. split; [|assumption].
        assert (Hv2 : v2 = []) by (destruct v2; [reflexivity|cbn in Hcont; discriminate]).
        rewrite <- Hfs in Hsplit. rewrite Hv2 in Hsplit. cbn [flat] in Hsplit. rewrite app_nil_r in Hsplit.
        exists (Z.to_nat r). split; [assumption|]. split; [assumption|]. left. split; [lia|]. left.
        rewrite Hsplit at 1. rewrite firstn_length. lia.
  - cbn in H. inversion H; subst; clear H. split; [|assumption].
    exists 0%nat. split; [lia|]. split; [cbn [firstn]; rewrite app_nil_r; assumption|]. right. auto.
Qed.

(* ------------------------------------------------------------------ doio_loop with BufStep *)
Lemma loop_buf_spec : forall fuel sk fl wk tmo buf count n k ret k',
  0 <= count < W64 -> wf_script (k_sys k) ->
  loop_buf fuel sk fl wk tmo buf count n k = Done (ret, k') ->
  loop_post [mkiov buf count] n k ret k' /\ (el_ok tmo k -> el_ok tmo k').
Proof.
  induction fuel as [|f IH]; intros sk fl wk tmo buf count n k ret k' Hc Hs H; [discriminate|].
  cbn [loop_buf] in H.
  assert (Hv : wf_view [mkiov buf count]) by (constructor; [cbn; lia|constructor]).
  destruct (doio_once (S f) sk fl wk tmo [mkiov buf count] k) as [[r k1]| | |] eqn:Eo; try discriminate.
  destruct (doio_once_spec _ _ _ _ _ _ _ _ _ Hv Hs Eo) as [(Hwf1 & Hlen & Hcs) Hel].
  assert (Hflat : forall b c, 0 <= c -> flat [mkiov b c] = addrs_from b (Z.to_nat c)).
  { intros. cbn [flat]. rewrite app_nil_r. reflexivity. }
  assert (Hsum : vsum [mkiov buf count] = count) by (cbn; lia).
  rewrite Hsum in Hcs.
  destruct Hcs as [(Hr & Htch & (l & Hlog)) | (-> & Htch & Hf)].
  - destruct (r <? 0) eqn:Hneg; [apply Z.ltb_lt in Hneg; lia|].
    destruct (r =? 0) eqn:Hz.
    + apply Z.eqb_eq in Hz. subst r. inversion H; subst; clear H. split; [|assumption].
      exists 0%nat. split; [lia|]. split; [cbn [firstn] in *; exact Htch|]. left. split; [lia|].
      destruct (Z.eq_dec count 0) as [->|Hnz]; [left; reflexivity|right].
      unfold eof. rewrite Hlog. rewrite Hsum. lia.
    + apply Z.eqb_neq in Hz.
      assert (Hsub : u64_sub count r = count - r) by (unfold u64_sub; apply wrap_small; lia).
      rewrite Hsub in H.
      unfold loop_post. rewrite Hflat in * by lia. rewrite addrs_from_length.
      assert (Hsplit : addrs_from buf (Z.to_nat count) =
                       addrs_from buf (Z.to_nat r) ++ addrs_from (buf + r) (Z.to_nat (count - r))).
      { replace (Z.to_nat count) with (Z.to_nat r + Z.to_nat (count - r))%nat by lia.
        rewrite addrs_from_app. do 2 f_equal. lia. }
      assert (Hfirst : firstn (Z.to_nat r) (addrs_from buf (Z.to_nat count)) = addrs_from buf (Z.to_nat r)).
      { rewrite Hsplit, firstn_app, addrs_from_length, Nat.sub_diag. cbn [firstn]. rewrite app_nil_r.
        apply firstn_all2. rewrite addrs_from_length. lia. }
      destruct (0 <? count - r) eqn:Hcont.
      * apply Z.ltb_lt in Hcont.
        assert (Hc2 : 0 <= count - r < W64) by lia.
        destruct (IH _ _ _ _ _ _ _ _ _ _ Hc2 Hwf1 H) as [(m & Hm & Ht & Hres) Hel2].
        split; [|auto]. unfold loop_post in Hm. rewrite Hflat in * by lia. rewrite addrs_from_length in Hm.
        exists (Z.to_nat r + m)%nat. split; [lia|]. split.
        { rewrite Ht, Htch, <- app_assoc, Hfirst. f_equal.
          replace (Z.to_nat r + m)%nat with (length (addrs_from buf (Z.to_nat r)) + m)%nat
            by (rewrite addrs_from_length; reflexivity).
          rewrite Hsplit. symmetry. apply firstn_app_2. }
        destruct Hres as [(Hret & Hfull)|Hfail]; [left|right; assumption].
        split; [lia|]. destruct Hfull as [Hfull|Heof]; [left|right; assumption].
        rewrite addrs_from_length in Hfull. lia.
      * apply Z.ltb_ge in Hcont. inversion H; subst; clear H. split; [|assumption].
        exists (Z.to_nat r). split; [lia|]. split; [assumption|]. left. split; [lia|]. left. lia.
  - cbn in H. inversion H; subst; clear H. split; [|assumption].
    exists 0%nat. split; [lia|]. split; [cbn [firstn]; rewrite app_nil_r; assumption|]. right. auto.
Qed.

(* ------------------------------------------------------------------ termination: fuel > script length suffices *)
Lemma loop_v_fuel : forall fuel sk fl wk tmo v n k,
  wf_view v -> wf_script (k_sys k) ->
  (length (k_sys k) < fuel)%nat -> loop_v fuel sk fl wk tmo v n k <> OutOfFuel.
Proof.
  induction fuel as [|f IH]; intros sk fl wk tmo v n k Hv Hs Hlen; [lia|].
  cbn [loop_v].
  destruct (doio_once (S f) sk fl wk tmo v k) as [[r k1]| | |] eqn:Eo; try discriminate.
  - destruct (doio_once_spec _ _ _ _ _ _ _ _ _ Hv Hs Eo) as [(Hwf1 & Hl & Hc) _].
    destruct (r <? 0) eqn:Hn; [discriminate|]. destruct (r =? 0) eqn:Hz; [discriminate|].
    match goal with |- context [if ?c then _ else _] => destruct c end; [|discriminate].
    apply Z.eqb_neq in Hz.
    destruct Hc as [(Hr & _)|(-> & _)]; [|discriminate].
    destruct (extract_front_spec v r Hv ltac:(lia)) as (Hwe & _).
    apply IH; [apply skip_empty_spec; assumption | assumption | lia].
  - exfalso. eapply doio_once_fuel; [|exact Eo]. lia.
Qed.

Lemma loop_buf_fuel : forall fuel sk fl wk tmo buf count n k,
  0 <= count < W64 -> wf_script (k_sys k) ->
  (length (k_sys k) < fuel)%nat -> loop_buf fuel sk fl wk tmo buf count n k <> OutOfFuel.
Proof.
  induction fuel as [|f IH]; intros sk fl wk tmo buf count n k Hc Hs Hlen; [lia|].
  cbn [loop_buf].
  assert (Hv : wf_view [mkiov buf count]) by (constructor; [cbn; lia|constructor]).
  destruct (doio_once (S f) sk fl wk tmo [mkiov buf count] k) as [[r k1]| | |] eqn:Eo; try discriminate.
  - destruct (doio_once_spec _ _ _ _ _ _ _ _ _ Hv Hs Eo) as [(Hwf1 & Hl & Hcs) _].
    destruct (r <? 0) eqn:Hn; [discriminate|]. destruct (r =? 0) eqn:Hz; [discriminate|].
    apply Z.eqb_neq in Hz.
    destruct Hcs as [(Hr & _)|(-> & _)]; [|discriminate]. cbn [vsum len] in Hr.
    assert (Hsub : u64_sub count r = count - r) by (unfold u64_sub; apply wrap_small; lia).
    rewrite Hsub. destruct (0 <? count - r) eqn:Hcont; [|discriminate].
    apply Z.ltb_lt in Hcont. assert (Hc2 : 0 <= count - r < W64) by lia. apply IH; [exact Hc2 | assumption | lia].
  - exfalso. eapply doio_once_fuel; [|exact Eo]. lia.
Qed.
