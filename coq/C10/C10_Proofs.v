From Coq Require Import ZArith List Lia.
From PV Require Import Base.U64 C10.C10_Model.
Lemma placeholder : True. Proof. exact I. Qed.
