(* C10 part 1 — proofs about the socket I/O loops over an arbitrary kernel oracle. *)
From Coq Require Import ZArith List Lia Bool.
From PV Require Import Base.U64 C10.C10_Model.
Import ListNotations.
Local Open Scope Z_scope.

(* ------------------------------------------------------------------ well-formedness *)
Definition wf_ans (a : sysans) : Prop := match a with Ret n => 0 <= n | Fail e => 0 < e end.
Definition wf_script (l : list sysans) : Prop := Forall wf_ans l.
Definition wf_view (v : view) : Prop := Forall (fun e => 0 <= len e) v.

(* chronological list of the addresses moved so far *)
Definition tch (k : kst) : list Z := rev (k_touched k).

(* why a call failed: the last thing that happened is a kernel error that is neither EINTR nor EAGAIN
   (errno = that error), or a wait that timed out (errno = ETIMEDOUT) or was interrupted *)
Definition fail_reason (k : kst) : Prop :=
  match k_log k with
  | ESys _ _ _ r :: _ => r = - k_errno k /\ 0 < k_errno k /\ k_errno k <> EINTR /\ k_errno k <> EAGAIN
  | EWait _ _ a :: _ => (a = 1 /\ k_errno k = ETIMEDOUT) \/ a = 2
  | [] => False
  end.
(* a genuine end-of-stream: the kernel answered 0 to a request for at least one byte *)
Definition eof (k : kst) : Prop :=
  match k_log k with
  | ESys _ _ v 0 :: _ => 0 < vsum v
  | _ => False
  end.

(* ------------------------------------------------------------------ lists of addresses *)
Lemma addrs_from_length b n : length (addrs_from b n) = n.
Proof. revert b; induction n; simpl; intros; auto. Qed.

Lemma addrs_from_app b n m : addrs_from b (n + m) = addrs_from b n ++ addrs_from (b + Z.of_nat n) m.
Proof.
  revert b; induction n; intros b.
  - simpl. f_equal. lia.
  - cbn [Nat.add addrs_from app]. rewrite IHn. do 3 f_equal. lia.
Qed.

Lemma vsum_nonneg v : wf_view v -> 0 <= vsum v.
Proof. induction 1; simpl; lia. Qed.

Lemma flat_length v : wf_view v -> Z.of_nat (length (flat v)) = vsum v.
Proof.
  induction 1 as [|e r He Hr IH]; simpl; auto.
  rewrite app_length, Nat2Z.inj_add, IH. unfold iov_addrs. rewrite addrs_from_length. lia.
Qed.

(* ------------------------------------------------------------------ extract_front / skip_empty *)
Lemma ef_loop_spec : forall v bytes,
  wf_view v -> 0 < bytes <= vsum v ->
  fst (ef_loop bytes v) = 0 /\ wf_view (snd (ef_loop bytes v)) /\
  flat v = firstn (Z.to_nat bytes) (flat v) ++ flat (snd (ef_loop bytes v)).
Proof.
  induction v as [|e r IH]; intros bytes Hwf Hb.
  - simpl in Hb. lia.
  - inversion Hwf as [|? ? He Hr]; subst. cbn [ef_loop vsum] in *.
    destruct (bytes <=? len e) eqn:Hle.
    + apply Z.leb_le in Hle. cbn [fst snd].
      assert (Hsplit : iov_addrs e = addrs_from (base e) (Z.to_nat bytes) ++
                        addrs_from (base e + bytes) (Z.to_nat (len e - bytes))).
      { unfold iov_addrs. replace (Z.to_nat (len e)) with (Z.to_nat bytes + Z.to_nat (len e - bytes))%nat by lia.
        rewrite addrs_from_app. do 2 f_equal. lia. }
      split; [reflexivity|].
      destruct (len e - bytes =? 0) eqn:Hz.
      * apply Z.eqb_eq in Hz. split; [assumption|].
        cbn [flat]. rewrite firstn_app.
        assert (Hl : length (iov_addrs e) = Z.to_nat bytes) by (unfold iov_addrs; rewrite addrs_from_length; lia).
        rewrite Hl, Nat.sub_diag. cbn [firstn]. rewrite app_nil_r.
        rewrite firstn_all2 by lia. reflexivity.
      * apply Z.eqb_neq in Hz. split.
        { constructor; [cbn; lia | assumption]. }
        cbn [flat]. rewrite firstn_app.
        assert (Hl : length (iov_addrs e) = Z.to_nat (len e)) by (unfold iov_addrs; rewrite addrs_from_length; lia).
        rewrite Hl. replace (Z.to_nat bytes - Z.to_nat (len e))%nat with 0%nat by lia.
        cbn [firstn]. rewrite app_nil_r.
        rewrite Hsplit at 2. rewrite firstn_app, addrs_from_length, Nat.sub_diag. cbn [firstn]. rewrite app_nil_r.
        rewrite firstn_all2 by (rewrite addrs_from_length; lia).
        unfold iov_addrs at 2. cbn [base len]. rewrite Hsplit at 1. rewrite <- app_assoc. reflexivity.
    + apply Z.leb_gt in Hle.
      destruct (IH (bytes - len e) Hr) as (H1 & H2 & H3); [lia|].
      split; [assumption|]. split; [assumption|].
      cbn [flat]. rewrite firstn_app.
      assert (Hl : length (iov_addrs e) = Z.to_nat (len e)) by (unfold iov_addrs; rewrite addrs_from_length; lia).
      rewrite Hl. rewrite firstn_all2 by lia.
      replace (Z.to_nat bytes - Z.to_nat (len e))%nat with (Z.to_nat (bytes - len e)) by lia.
      rewrite <- app_assoc. f_equal. exact H3.
Qed.

Lemma extract_front_spec v bytes :
  wf_view v -> 0 < bytes <= vsum v ->
  wf_view (snd (extract_front bytes v)) /\
  flat v = firstn (Z.to_nat bytes) (flat v) ++ flat (snd (extract_front bytes v)).
Proof.
  intros Hwf Hb. unfold extract_front.
  destruct (bytes =? 0) eqn:Hz; [apply Z.eqb_eq in Hz; lia|].
  destruct (ef_loop_spec v bytes Hwf Hb) as (_ & H2 & H3).
  destruct (ef_loop bytes v) as [l v'] eqn:E. cbn [snd] in *. auto.
Qed.

(* the head of the view is a non-empty element, or the view holds no byte at all *)
Definition head_ok (v : view) : Prop := flat v = [] \/ exists e r, v = e :: r /\ 0 < len e.

Lemma skip_empty_spec keep v :
  wf_view v -> wf_view (skip_empty keep v) /\ flat (skip_empty keep v) = flat v.
Proof.
  induction 1 as [|e r He Hr IH]; [simpl; split; [constructor|reflexivity]|].
  cbn [skip_empty]. destruct ((keep <? Z.of_nat (length (e :: r))) && (len e =? 0)) eqn:C.
  - apply andb_true_iff in C. destruct C as [_ C]. apply Z.eqb_eq in C.
    destruct IH as [I1 I2]. split; [assumption|]. rewrite I2. cbn [flat]. unfold iov_addrs. rewrite C. reflexivity.
  - split; [constructor; assumption | reflexivity].
Qed.

Lemma skip_empty0_head v : wf_view v -> skip_empty 0 v = [] \/ exists e r, skip_empty 0 v = e :: r /\ 0 < len e.
Proof.
  induction 1 as [|e r He Hr IH]; [left; reflexivity|].
  cbn [skip_empty]. replace (0 <? Z.of_nat (length (e :: r))) with true by (symmetry; apply Z.ltb_lt; simpl; lia).
  cbn [andb]. destruct (len e =? 0) eqn:C; [exact IH|].
  apply Z.eqb_neq in C. right. exists e, r. split; [reflexivity|lia].
Qed.

Lemma skip_empty1_head v : wf_view v -> head_ok (skip_empty 1 v).
Proof.
  induction 1 as [|e r He Hr IH]; [left; reflexivity|].
  cbn [skip_empty]. destruct ((1 <? Z.of_nat (length (e :: r))) && (len e =? 0)) eqn:C; [exact IH|].
  apply andb_false_iff in C. destruct C as [C|C].
  - apply Z.ltb_ge in C. destruct r; [|simpl in C; lia].
    destruct (Z.eq_dec (len e) 0) as [Hz|Hz].
    + left. cbn [flat]. unfold iov_addrs. rewrite Hz. reflexivity.
    + right. exists e, []. split; [reflexivity|lia].
  - apply Z.eqb_neq in C. right. exists e, r. split; [reflexivity|lia].
Qed.

Lemma head_ok_vsum v : wf_view v -> head_ok v -> flat v = [] \/ 0 < vsum v.
Proof.
  intros Hwf [H|(e & r & -> & He)]; [left; assumption|right].
  inversion Hwf; subst. cbn [vsum]. pose proof (vsum_nonneg r H2). lia.
Qed.

(* ------------------------------------------------------------------ the kernel *)
Lemma ksys_spec kind fl v k ret k1 :
  wf_view v -> wf_script (k_sys k) ->
  ksys kind fl v k = Some (ret, k1) ->
  exists a, k_sys k = a :: k_sys k1 /\ wf_script (k_sys k1) /\ k_wt k1 = k_wt k /\ k_elapsed k1 = k_elapsed k /\
    ((exists n, a = Ret n /\ ret = Z.min n (vsum v) /\ 0 <= ret <= vsum v /\
                tch k1 = tch k ++ firstn (Z.to_nat ret) (flat v) /\
                k_log k1 = ESys kind fl v ret :: k_log k)
     \/ (exists e, a = Fail e /\ 0 < e /\ ret = -1 /\ tch k1 = tch k /\ k_errno k1 = e /\
                   k_log k1 = ESys kind fl v (- e) :: k_log k)).
Proof.
  intros Hv Hs H. unfold ksys in H. destruct (k_sys k) as [|a rest] eqn:E; [discriminate|].
  inversion Hs as [|? ? Ha Hrest]; subst.
  destruct a as [n|e]; inversion H; subst; clear H; cbn [k_sys k_wt k_elapsed k_log k_errno].
  - exists (Ret n). repeat split; auto. left. exists n. cbn in Ha. pose proof (vsum_nonneg v Hv).
    repeat split; try lia. unfold tch. cbn [k_touched]. rewrite rev_app_distr, rev_involutive. reflexivity.
  - exists (Fail e). repeat split; auto. right. exists e. cbn in Ha. repeat split; auto.
Qed.
