From Coq Require Import ZArith List.
From PV Require Import Base.U64 C10.C10_Model C10.C10_Proofs.
Theorem c10_placeholder : True. Proof. exact placeholder. Qed.
Print Assumptions c10_placeholder.
