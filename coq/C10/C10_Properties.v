From Coq Require Import ZArith List.
From PV Require Import Base.U64 C10.C10_Model C10.C10_Proofs C10.C10_ProofsLoop C10.C10_ProofsTop C10.C10_Engine C10.C10_ProofsEngine C10.C10_ProofsRearm C10.C10_ProofsAgree C10.C10_ProofsAgree2 C10.C10_ProofsAgree3.
From PV Require C10.C10_EngineNG C10.C10_ProofsNG C10.C10_ProofsNG2.
Import ListNotations.
Local Open Scope Z_scope.

Theorem doio_stream_exact : forall o tmo flags lens sys wt ret k,
  is_loop o = true -> wf_lens lens -> wf_script sys ->
  run_op o tmo flags lens sys wt = Done (ret, k) ->
  stream_exact o lens ret k.
Proof. exact doio_stream_exact_lemma. Qed.
Print Assumptions doio_stream_exact.

Theorem recv_send_bounds : forall o tmo flags lens sys wt ret k,
  is_loop o = false -> wf_lens lens -> wf_script sys ->
  run_op o tmo flags lens sys wt = Done (ret, k) ->
  once_exact o lens ret k.
Proof. exact recv_send_bounds_lemma. Qed.
Print Assumptions recv_send_bounds.

Theorem doio_timeout_bound : forall o tmo flags lens sys wt ret k,
  o <> OpSendfile -> wf_lens lens -> wf_script sys -> 0 <= tmo -> tmo <> MAX64 ->
  run_op o tmo flags lens sys wt = Done (ret, k) ->
  k_elapsed k <= tmo.
Proof. exact doio_timeout_bound_lemma. Qed.
Print Assumptions doio_timeout_bound.

Theorem doio_terminates : forall o tmo flags lens sys wt,
  wf_lens lens -> wf_script sys -> run_op o tmo flags lens sys wt <> OutOfFuel.
Proof. exact doio_terminates_lemma. Qed.
Print Assumptions doio_terminates.

Theorem fire_only_registered : forall fd evs s d,
  In d (fst (fire_one (fd, evs) s)) ->
  fd <> s_evfd s /\ fd < s_size s /\
  let entry := tab_get fd (s_tab s) in
  (d = i_er entry /\ has evs ERRBIT = true /\ has (i_int entry) EV_ERROR = true) \/
  (d = i_rd entry /\ has evs READBITS = true /\ has (i_int entry) EV_READ = true) \/
  (d = i_wr entry /\ has evs WRITEBITS = true /\ has (i_int entry) EV_WRITE = true).
Proof. exact fire_one_only_registered. Qed.
Print Assumptions fire_only_registered.

Theorem no_cross_talk_other_fd : forall t fd interest e s fd',
  fd <> fd' -> fd_view fd' (wait_fail t fd interest e s) = fd_view fd' s.
Proof. exact wait_fail_frame. Qed.
Print Assumptions no_cross_talk_other_fd.

Theorem batch_boundary_master_drains : forall rb s acc, snd (fst (process rb None s acc)) = [].
Proof. exact process_master_drains. Qed.
Print Assumptions batch_boundary_master_drains.

Theorem batch_boundary_leftover_kept : forall rb room s acc, exists pre, rb = pre ++ snd (fst (process rb room s acc)).
Proof. exact process_leftover_suffix. Qed.
Print Assumptions batch_boundary_leftover_kept.

Theorem engine_kernel_agree_refuted :
  exists steps, forallb no_close steps = true /\ ~ engine_kernel_agree_at (run_engine steps).
Proof. exact engine_kernel_agree_refuted_lemma. Qed.
Print Assumptions engine_kernel_agree_refuted.

Theorem no_cross_talk_same_fd : forall fd d m s e0,
  0 <= fd < s_size s -> (d = EV_READ \/ d = EV_WRITE \/ d = EV_ERROR) -> 0 <= m <= 7 ->
  Z.land d m = d -> m <> d ->
  i_int (tab_get fd (s_tab s)) = ONE_SHOT + m ->
  kfind fd (kn_list (s_k s)) = Some e0 ->
  let entry := tab_get fd (s_tab s) in
  let r := rm_interest fd d s in
  let entry' := tab_get fd (s_tab (snd r)) in
  fst r = 0 /\
  i_int entry' = ONE_SHOT + (m - d) /\
  (d <> EV_READ -> i_rd entry' = i_rd entry) /\
  (d <> EV_WRITE -> i_wr entry' = i_wr entry) /\
  (d <> EV_ERROR -> i_er entry' = i_er entry) /\
  kfind fd (kn_list (s_k (snd r))) = Some (mkkent fd (Z.lor (translate (m - d)) EPOLLONESHOT) true).
Proof. exact rm_one_direction_rearms_others_lemma. Qed.
Print Assumptions no_cross_talk_same_fd.

Theorem engine_kernel_agree : forall steps,
  guarded steps init_st -> engine_kernel_agree_at (run_engine steps).
Proof. exact engine_kernel_agree_lemma. Qed.
Print Assumptions engine_kernel_agree.

Theorem ng_fire_only_registered : forall g steps,
  C10_ProofsNG2.ng_guarded g steps C10_EngineNG.ng_init -> C10_EngineNG.n_misfire (C10_EngineNG.run_ng_g g steps) = false.
Proof. exact C10_ProofsNG2.ng_fire_only_registered_lemma. Qed.
Print Assumptions ng_fire_only_registered.

Theorem ng_no_stale_waiter_access : forall g steps,
  C10_ProofsNG2.ng_guarded g steps C10_EngineNG.ng_init -> C10_EngineNG.n_stale (C10_EngineNG.run_ng_g g steps) = false.
Proof. exact C10_ProofsNG2.ng_no_stale_waiter_access_lemma. Qed.
Print Assumptions ng_no_stale_waiter_access.

Theorem ng_entries_owned_by_waiters : forall g steps,
  C10_ProofsNG2.ng_guarded g steps C10_EngineNG.ng_init -> C10_ProofsNG2.ng_entries_owned (C10_EngineNG.run_ng_g g steps).
Proof. exact C10_ProofsNG2.ng_entries_owned_lemma. Qed.
Print Assumptions ng_entries_owned_by_waiters.

Theorem ng_no_cross_talk_other_fd : forall g fd ints data s q fd',
  fd <> fd' ->
  C10_EngineNG.nkfind fd' (C10_EngineNG.klist q (C10_EngineNG.n_k (snd (C10_EngineNG.add_interest g fd ints data s)))) = C10_EngineNG.nkfind fd' (C10_EngineNG.klist q (C10_EngineNG.n_k s)) /\
  C10_EngineNG.nkfind fd' (C10_EngineNG.klist q (C10_EngineNG.n_k (snd (C10_EngineNG.rm_interest fd ints s)))) = C10_EngineNG.nkfind fd' (C10_EngineNG.klist q (C10_EngineNG.n_k s)).
Proof. exact C10_ProofsNG2.ng_no_cross_talk_other_fd_lemma. Qed.
Print Assumptions ng_no_cross_talk_other_fd.

Theorem ng_no_cross_talk_other_direction_rm : forall fd ints s q,
  C10_ProofsNG.dir_untouched ints q -> C10_EngineNG.klist q (C10_EngineNG.n_k (snd (C10_EngineNG.rm_interest fd ints s))) = C10_EngineNG.klist q (C10_EngineNG.n_k s).
Proof. exact C10_ProofsNG.rm_interest_other_dir. Qed.
Print Assumptions ng_no_cross_talk_other_direction_rm.

Theorem ng_no_cross_talk_other_direction_add_repaired : forall fd ints data s q,
  C10_ProofsNG.dir_untouched ints q -> C10_EngineNG.klist q (C10_EngineNG.n_k (snd (C10_EngineNG.add_interest true fd ints data s))) = C10_EngineNG.klist q (C10_EngineNG.n_k s).
Proof. exact C10_ProofsNG.add_interest_other_dir_guarded. Qed.
Print Assumptions ng_no_cross_talk_other_direction_add_repaired.

Theorem ng_no_cross_talk_other_direction_refuted :
  exists steps, forallb C10_ProofsNG.plain_step steps = true /\ ~ C10_ProofsNG.ng_agree_at (C10_EngineNG.run_ng_g false steps).
Proof. exact C10_ProofsNG.ng_agree_refuted_lemma. Qed.
Print Assumptions ng_no_cross_talk_other_direction_refuted.
