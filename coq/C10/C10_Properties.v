From Coq Require Import ZArith List.
From PV Require Import Base.U64 C10.C10_Model C10.C10_Proofs C10.C10_ProofsLoop C10.C10_ProofsTop C10.C10_Engine C10.C10_ProofsEngine C10.C10_ProofsRearm C10.C10_ProofsAgree C10.C10_ProofsAgree2 C10.C10_ProofsAgree3.
Import ListNotations.
Local Open Scope Z_scope.

Theorem doio_stream_exact : forall o tmo flags lens sys wt ret k,
  is_loop o = true -> wf_lens lens -> wf_script sys ->
  run_op o tmo flags lens sys wt = Done (ret, k) ->
  stream_exact o lens ret k.
Proof. exact doio_stream_exact_lemma. Qed.
Print Assumptions doio_stream_exact.

Theorem recv_send_bounds : forall o tmo flags lens sys wt ret k,
  is_loop o = false -> wf_lens lens -> wf_script sys ->
  run_op o tmo flags lens sys wt = Done (ret, k) ->
  once_exact o lens ret k.
Proof. exact recv_send_bounds_lemma. Qed.
Print Assumptions recv_send_bounds.

Theorem doio_timeout_bound : forall o tmo flags lens sys wt ret k,
  o <> OpSendfile -> wf_lens lens -> wf_script sys -> 0 <= tmo -> tmo <> MAX64 ->
  run_op o tmo flags lens sys wt = Done (ret, k) ->
  k_elapsed k <= tmo.
Proof. exact doio_timeout_bound_lemma. Qed.
Print Assumptions doio_timeout_bound.

Theorem doio_terminates : forall o tmo flags lens sys wt,
  wf_lens lens -> wf_script sys -> run_op o tmo flags lens sys wt <> OutOfFuel.
Proof. exact doio_terminates_lemma. Qed.
Print Assumptions doio_terminates.

Theorem fire_only_registered : forall fd evs s d,
  In d (fst (fire_one (fd, evs) s)) ->
  fd <> s_evfd s /\ fd < s_size s /\
  let entry := tab_get fd (s_tab s) in
  (d = i_er entry /\ has evs ERRBIT = true /\ has (i_int entry) EV_ERROR = true) \/
  (d = i_rd entry /\ has evs READBITS = true /\ has (i_int entry) EV_READ = true) \/
  (d = i_wr entry /\ has evs WRITEBITS = true /\ has (i_int entry) EV_WRITE = true).
Proof. exact fire_one_only_registered. Qed.
Print Assumptions fire_only_registered.

Theorem no_cross_talk_other_fd : forall t fd interest e s fd',
  fd <> fd' -> fd_view fd' (wait_fail t fd interest e s) = fd_view fd' s.
Proof. exact wait_fail_frame. Qed.
Print Assumptions no_cross_talk_other_fd.

Theorem batch_boundary_master_drains : forall rb s acc, snd (fst (process rb None s acc)) = [].
Proof. exact process_master_drains. Qed.
Print Assumptions batch_boundary_master_drains.

Theorem batch_boundary_leftover_kept : forall rb room s acc, exists pre, rb = pre ++ snd (fst (process rb room s acc)).
Proof. exact process_leftover_suffix. Qed.
Print Assumptions batch_boundary_leftover_kept.

Theorem engine_kernel_agree_refuted :
  exists steps, forallb no_close steps = true /\ ~ engine_kernel_agree_at (run_engine steps).
Proof. exact engine_kernel_agree_refuted_lemma. Qed.
Print Assumptions engine_kernel_agree_refuted.

Theorem no_cross_talk_same_fd : forall fd d m s e0,
  0 <= fd < s_size s -> (d = EV_READ \/ d = EV_WRITE \/ d = EV_ERROR) -> 0 <= m <= 7 ->
  Z.land d m = d -> m <> d ->
  i_int (tab_get fd (s_tab s)) = ONE_SHOT + m ->
  kfind fd (kn_list (s_k s)) = Some e0 ->
  let entry := tab_get fd (s_tab s) in
  let r := rm_interest fd d s in
  let entry' := tab_get fd (s_tab (snd r)) in
  fst r = 0 /\
  i_int entry' = ONE_SHOT + (m - d) /\
  (d <> EV_READ -> i_rd entry' = i_rd entry) /\
  (d <> EV_WRITE -> i_wr entry' = i_wr entry) /\
  (d <> EV_ERROR -> i_er entry' = i_er entry) /\
  kfind fd (kn_list (s_k (snd r))) = Some (mkkent fd (Z.lor (translate (m - d)) EPOLLONESHOT) true).
Proof. exact rm_one_direction_rearms_others_lemma. Qed.
Print Assumptions no_cross_talk_same_fd.

Theorem engine_kernel_agree : forall steps,
  guarded steps init_st -> engine_kernel_agree_at (run_engine steps).
Proof. exact engine_kernel_agree_lemma. Qed.
Print Assumptions engine_kernel_agree.
