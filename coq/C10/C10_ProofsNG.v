(* C10 part 2b — proofs about the epoll-ng bookkeeping model (C10_EngineNG.v), first part:
   frame lemmas (what one waiter's add_interest / rm_interest can touch in the four kernel interest lists) and the
   refutation of same-descriptor non-interference for the code as it is (finding F40). *)
From Coq Require Import ZArith List Lia Bool.
From PV Require Import C10.C10_Engine C10.C10_EngineNG.
Import ListNotations.
Local Open Scope Z_scope.

Definition pid_eq_dec (p q : pid) : {p = q} + {p <> q}.
Proof. decide equality. Defined.

Lemma klist_set_same p l k : klist p (set_klist p l k) = l.
Proof. destruct p; reflexivity. Qed.
Lemma klist_set_other p q l k : p <> q -> klist q (set_klist p l k) = klist q k.
Proof. destruct p, q; intros H; try reflexivity; contradiction. Qed.
Lemma ready_set_klist p l k : nk_ready (set_klist p l k) = nk_ready k.
Proof. destruct p; reflexivity. Qed.

(* ------------------------------------------------------------------ nkfind under the three list operations *)
Lemma nkfind_app_other l x fd : nk_fd x <> fd -> nkfind fd (l ++ [x]) = nkfind fd l.
Proof.
  intros Hne. induction l as [|e r IH]; cbn [app nkfind].
  - destruct (nk_fd x =? fd) eqn:E; [apply Z.eqb_eq in E; contradiction|reflexivity].
  - rewrite IH. reflexivity.
Qed.
Lemma nkfind_remove_other x l fd : x <> fd -> nkfind fd (nkremove x l) = nkfind fd l.
Proof.
  intros Hne. unfold nkremove. induction l as [|e r IH]; [reflexivity|]. cbn [filter nkfind].
  destruct (nk_fd e =? x) eqn:E; cbn [negb].
  - apply Z.eqb_eq in E. destruct (nk_fd e =? fd) eqn:E2; [apply Z.eqb_eq in E2; lia|exact IH].
  - cbn [nkfind]. rewrite IH. reflexivity.
Qed.
Lemma nkfind_replace_other n l fd : nk_fd n <> fd -> nkfind fd (nkreplace n l) = nkfind fd l.
Proof.
  intros Hne. induction l as [|e r IH]; [reflexivity|]. cbn [nkreplace].
  destruct (nk_fd e =? nk_fd n) eqn:E.
  - apply Z.eqb_eq in E. cbn [nkfind]. rewrite E.
    destruct (nk_fd n =? fd) eqn:E2; [apply Z.eqb_eq in E2; contradiction|reflexivity].
  - cbn [nkfind]. rewrite IH. reflexivity.
Qed.

(* epoll_ctl on (poller p, descriptor fd) changes neither another poller's list nor another descriptor's entry *)
Lemma nk_ctl_other_poller p op fd ev d k q : p <> q -> klist q (snd (nk_ctl p op fd ev d k)) = klist q k.
Proof.
  intros Hne. unfold nk_ctl. destruct (nkfind fd (klist p k)).
  - destruct (op =? CTL_ADD); [reflexivity|]. destruct (op =? CTL_MOD); cbn [snd]; apply klist_set_other; exact Hne.
  - destruct (op =? CTL_ADD); cbn [snd]; [apply klist_set_other; exact Hne|reflexivity].
Qed.
Lemma nk_ctl_other_fd p op fd ev d k q fd' :
  fd <> fd' -> nkfind fd' (klist q (snd (nk_ctl p op fd ev d k))) = nkfind fd' (klist q k).
Proof.
  intros Hne. destruct (pid_eq_dec p q) as [->|Hpq]; [|rewrite nk_ctl_other_poller by exact Hpq; reflexivity].
  unfold nk_ctl. destruct (nkfind fd (klist q k)).
  - destruct (op =? CTL_ADD); [reflexivity|]. destruct (op =? CTL_MOD); cbn [snd]; rewrite klist_set_same.
    + apply nkfind_replace_other. exact Hne.
    + apply nkfind_remove_other. exact Hne.
  - destruct (op =? CTL_ADD); cbn [snd]; [|reflexivity]. rewrite klist_set_same. apply nkfind_app_other. exact Hne.
Qed.
Lemma nk_ctl_ready p op fd ev d k : nk_ready (snd (nk_ctl p op fd ev d k)) = nk_ready k.
Proof.
  unfold nk_ctl. destruct (nkfind fd (klist p k)).
  - destruct (op =? CTL_ADD); [reflexivity|]. destruct (op =? CTL_MOD); cbn [snd]; apply ready_set_klist.
  - destruct (op =? CTL_ADD); cbn [snd]; [apply ready_set_klist|reflexivity].
Qed.

(* what Poller::ctl leaves alone: everything but the kernel, errno and the log *)
Definition same_engine (s s' : nst) : Prop :=
  n_pe s' = n_pe s /\ n_pr s' = n_pr s /\ n_pw s' = n_pw s /\ n_px s' = n_px s /\ n_now s' = n_now s /\
  n_thr s' = n_thr s /\ n_runq s' = n_runq s /\ n_stale s' = n_stale s /\ n_misfire s' = n_misfire s /\
  nk_ready (n_k s') = nk_ready (n_k s).
Lemma same_engine_refl s : same_engine s s.
Proof. repeat split. Qed.
Lemma same_engine_trans a b c : same_engine a b -> same_engine b c -> same_engine a c.
Proof. unfold same_engine. intuition congruence. Qed.

Lemma pctl_same_engine p fd op ev d s : same_engine s (snd (pctl p fd op ev d s)).
Proof.
  unfold pctl. pose proof (nk_ctl_ready p op fd ev d (n_k s)) as Hr.
  destruct (nk_ctl p op fd ev d (n_k s)) as [res k']. cbn [snd] in Hr.
  destruct (res =? 0); cbn [snd]; repeat split; exact Hr.
Qed.
Lemma pctl_other_poller p fd op ev d s q : p <> q -> klist q (n_k (snd (pctl p fd op ev d s))) = klist q (n_k s).
Proof.
  intros Hne. unfold pctl. pose proof (nk_ctl_other_poller p op fd ev d (n_k s) q Hne) as H.
  destruct (nk_ctl p op fd ev d (n_k s)) as [res k']. cbn [snd] in H. destruct (res =? 0); exact H.
Qed.
Lemma pctl_other_fd p fd op ev d s q fd' :
  fd <> fd' -> nkfind fd' (klist q (n_k (snd (pctl p fd op ev d s)))) = nkfind fd' (klist q (n_k s)).
Proof.
  intros Hne. unfold pctl. pose proof (nk_ctl_other_fd p op fd ev d (n_k s) q fd' Hne) as H.
  destruct (nk_ctl p op fd ev d (n_k s)) as [res k']. cbn [snd] in H. destruct (res =? 0); exact H.
Qed.

(* "q is the poller of a direction that is not in ints" *)
Definition dir_untouched (ints : Z) (q : pid) : Prop := q = PEng \/ has ints (dirbit q) = false.

Lemma untouched_neq ints q p : dir_untouched ints q -> p <> PEng -> has ints (dirbit p) = true -> p <> q.
Proof. intros [Hq|Hq] Hp Hh E; subst; [contradiction|congruence]. Qed.

Ltac step_pctl H :=
  match goal with
  | |- context [pctl ?p ?fd ?op ?ev ?d ?s] =>
      let r := fresh "r" in let s1 := fresh "s" in let E := fresh "E" in
      pose proof (H p fd op ev d s) as E; destruct (pctl p fd op ev d s) as [r s1]; cbn [snd fst] in E |- *
  end.

(* ------------------------------------------------------------------ rm_interest *)
Lemma rm_interest_other_fd fd ints s q fd' :
  fd <> fd' -> nkfind fd' (klist q (n_k (snd (rm_interest fd ints s)))) = nkfind fd' (klist q (n_k s)).
Proof.
  intros Hne. unfold rm_interest. destruct (fd <? 0); [reflexivity|].
  assert (H : forall p fd0 op ev d s0, fd0 = fd -> nkfind fd' (klist q (n_k (snd (pctl p fd0 op ev d s0)))) = nkfind fd' (klist q (n_k s0))).
  { intros; subst. apply pctl_other_fd. exact Hne. }
  destruct (has ints EV_READ).
  - pose proof (H PRd fd CTL_DEL 0 0 s eq_refl) as E1. destruct (pctl PRd fd CTL_DEL 0 0 s) as [r1 s1]. cbn [snd] in E1.
    destruct (has ints EV_WRITE).
    + pose proof (H PWr fd CTL_DEL 0 0 s1 eq_refl) as E2. destruct (pctl PWr fd CTL_DEL 0 0 s1) as [r2 s2]. cbn [snd] in E2.
      destruct (has ints EV_ERROR).
      * pose proof (H PEr fd CTL_DEL 0 0 s2 eq_refl) as E3. destruct (pctl PEr fd CTL_DEL 0 0 s2) as [r3 s3]. cbn [snd] in *. congruence.
      * cbn [snd]. congruence.
    + destruct (has ints EV_ERROR).
      * pose proof (H PEr fd CTL_DEL 0 0 s1 eq_refl) as E3. destruct (pctl PEr fd CTL_DEL 0 0 s1) as [r3 s3]. cbn [snd] in *. congruence.
      * cbn [snd]. congruence.
  - destruct (has ints EV_WRITE).
    + pose proof (H PWr fd CTL_DEL 0 0 s eq_refl) as E2. destruct (pctl PWr fd CTL_DEL 0 0 s) as [r2 s2]. cbn [snd] in E2.
      destruct (has ints EV_ERROR).
      * pose proof (H PEr fd CTL_DEL 0 0 s2 eq_refl) as E3. destruct (pctl PEr fd CTL_DEL 0 0 s2) as [r3 s3]. cbn [snd] in *. congruence.
      * cbn [snd]. congruence.
    + destruct (has ints EV_ERROR).
      * pose proof (H PEr fd CTL_DEL 0 0 s eq_refl) as E3. destruct (pctl PEr fd CTL_DEL 0 0 s) as [r3 s3]. cbn [snd] in *. congruence.
      * reflexivity.
Qed.

Lemma rm_interest_other_dir fd ints s q :
  dir_untouched ints q -> klist q (n_k (snd (rm_interest fd ints s))) = klist q (n_k s).
Proof.
  intros Hq. unfold rm_interest. destruct (fd <? 0); [reflexivity|].
  assert (HR : has ints EV_READ = true -> PRd <> q) by (intros H; apply (untouched_neq ints); [exact Hq|discriminate|exact H]).
  assert (HW : has ints EV_WRITE = true -> PWr <> q) by (intros H; apply (untouched_neq ints); [exact Hq|discriminate|exact H]).
  assert (HE : has ints EV_ERROR = true -> PEr <> q) by (intros H; apply (untouched_neq ints); [exact Hq|discriminate|exact H]).
  destruct (has ints EV_READ).
  - pose proof (pctl_other_poller PRd fd CTL_DEL 0 0 s q (HR eq_refl)) as E1. destruct (pctl PRd fd CTL_DEL 0 0 s) as [r1 s1]. cbn [snd] in E1.
    destruct (has ints EV_WRITE).
    + pose proof (pctl_other_poller PWr fd CTL_DEL 0 0 s1 q (HW eq_refl)) as E2. destruct (pctl PWr fd CTL_DEL 0 0 s1) as [r2 s2]. cbn [snd] in E2.
      destruct (has ints EV_ERROR).
      * pose proof (pctl_other_poller PEr fd CTL_DEL 0 0 s2 q (HE eq_refl)) as E3. destruct (pctl PEr fd CTL_DEL 0 0 s2) as [r3 s3]. cbn [snd] in *. congruence.
      * cbn [snd]. congruence.
    + destruct (has ints EV_ERROR).
      * pose proof (pctl_other_poller PEr fd CTL_DEL 0 0 s1 q (HE eq_refl)) as E3. destruct (pctl PEr fd CTL_DEL 0 0 s1) as [r3 s3]. cbn [snd] in *. congruence.
      * cbn [snd]. congruence.
  - destruct (has ints EV_WRITE).
    + pose proof (pctl_other_poller PWr fd CTL_DEL 0 0 s q (HW eq_refl)) as E2. destruct (pctl PWr fd CTL_DEL 0 0 s) as [r2 s2]. cbn [snd] in E2.
      destruct (has ints EV_ERROR).
      * pose proof (pctl_other_poller PEr fd CTL_DEL 0 0 s2 q (HE eq_refl)) as E3. destruct (pctl PEr fd CTL_DEL 0 0 s2) as [r3 s3]. cbn [snd] in *. congruence.
      * cbn [snd]. congruence.
    + destruct (has ints EV_ERROR).
      * pose proof (pctl_other_poller PEr fd CTL_DEL 0 0 s q (HE eq_refl)) as E3. destruct (pctl PEr fd CTL_DEL 0 0 s) as [r3 s3]. cbn [snd] in *. congruence.
      * reflexivity.
Qed.

Lemma rm_interest_same_engine fd ints s : same_engine s (snd (rm_interest fd ints s)).
Proof.
  unfold rm_interest. destruct (fd <? 0); [cbn; repeat split|].
  destruct (has ints EV_READ).
  - pose proof (pctl_same_engine PRd fd CTL_DEL 0 0 s) as E1. destruct (pctl PRd fd CTL_DEL 0 0 s) as [r1 s1]. cbn [snd] in E1.
    destruct (has ints EV_WRITE).
    + pose proof (pctl_same_engine PWr fd CTL_DEL 0 0 s1) as E2. destruct (pctl PWr fd CTL_DEL 0 0 s1) as [r2 s2]. cbn [snd] in E2.
      destruct (has ints EV_ERROR).
      * pose proof (pctl_same_engine PEr fd CTL_DEL 0 0 s2) as E3. destruct (pctl PEr fd CTL_DEL 0 0 s2) as [r3 s3]. cbn [snd] in *.
        eapply same_engine_trans; [eapply same_engine_trans|]; eassumption.
      * cbn [snd]. eapply same_engine_trans; eassumption.
    + destruct (has ints EV_ERROR).
      * pose proof (pctl_same_engine PEr fd CTL_DEL 0 0 s1) as E3. destruct (pctl PEr fd CTL_DEL 0 0 s1) as [r3 s3]. cbn [snd] in *.
        eapply same_engine_trans; eassumption.
      * cbn [snd]. exact E1.
  - destruct (has ints EV_WRITE).
    + pose proof (pctl_same_engine PWr fd CTL_DEL 0 0 s) as E2. destruct (pctl PWr fd CTL_DEL 0 0 s) as [r2 s2]. cbn [snd] in E2.
      destruct (has ints EV_ERROR).
      * pose proof (pctl_same_engine PEr fd CTL_DEL 0 0 s2) as E3. destruct (pctl PEr fd CTL_DEL 0 0 s2) as [r3 s3]. cbn [snd] in *.
        eapply same_engine_trans; eassumption.
      * cbn [snd]. exact E2.
    + destruct (has ints EV_ERROR).
      * pose proof (pctl_same_engine PEr fd CTL_DEL 0 0 s) as E3. destruct (pctl PEr fd CTL_DEL 0 0 s) as [r3 s3]. cbn [snd] in *. exact E3.
      * cbn [snd]. apply same_engine_refl.
Qed.

(* ------------------------------------------------------------------ add_interest *)
(* a generic "this function is a sequence of Poller::ctl calls on descriptor fd" argument *)
Section AddFrame.
  Variable P : nst -> nst -> Prop.
  Hypothesis P_refl : forall s, P s s.
  Hypothesis P_trans : forall a b c, P a b -> P b c -> P a c.
  Hypothesis P_errno : forall s e, P s (nupd_errno e s).
  Variables (g : bool) (fd ints data : Z).
  (* which ctl calls may occur *)
  Hypothesis P_rd_add : has ints EV_READ = true -> forall ev s, P s (snd (pctl PRd fd CTL_ADD ev data s)).
  Hypothesis P_wr_add : has ints EV_WRITE = true -> forall ev s, P s (snd (pctl PWr fd CTL_ADD ev data s)).
  Hypothesis P_er_add : has ints EV_ERROR = true -> forall ev s, P s (snd (pctl PEr fd CTL_ADD ev data s)).
  Hypothesis P_rd_del : g && negb (has ints EV_READ) = false -> forall s, P s (snd (pctl PRd fd CTL_DEL 0 0 s)).
  Hypothesis P_wr_del : g && negb (has ints EV_WRITE) = false -> forall s, P s (snd (pctl PWr fd CTL_DEL 0 0 s)).

  Lemma add_interest_frame s : P s (snd (add_interest g fd ints data s)).
  Proof.
    unfold add_interest. destruct (fd <? 0); [cbn [snd]; apply P_errno|].
    set (md := if has ints ONE_SHOT then EPOLLONESHOT else 0).
    assert (UR : forall s0, P s0 (if g && negb (has ints EV_READ) then s0 else snd (pctl PRd fd CTL_DEL 0 0 s0))).
    { intros s0. destruct (g && negb (has ints EV_READ)) eqn:E; [apply P_refl|apply P_rd_del; reflexivity]. }
    assert (UW : forall s0, P s0 (if g && negb (has ints EV_WRITE) then s0 else snd (pctl PWr fd CTL_DEL 0 0 s0))).
    { intros s0. destruct (g && negb (has ints EV_WRITE)) eqn:E; [apply P_refl|apply P_wr_del; reflexivity]. }
    assert (S1 : P s (snd (if has ints EV_READ then pctl PRd fd CTL_ADD (Z.lor md (Z.lor EPOLLIN EPOLLRDHUP)) data s else (0, s)))).
    { destruct (has ints EV_READ) eqn:E; [apply P_rd_add; reflexivity|apply P_refl]. }
    destruct (if has ints EV_READ then pctl PRd fd CTL_ADD (Z.lor md (Z.lor EPOLLIN EPOLLRDHUP)) data s else (0, s)) as [r1 s1].
    cbn [snd] in S1. destruct (r1 <? 0); [exact S1|].
    assert (S2 : P s1 (snd (if has ints EV_WRITE then pctl PWr fd CTL_ADD (Z.lor md EPOLLOUT) data s1 else (r1, s1)))).
    { destruct (has ints EV_WRITE) eqn:E; [apply P_wr_add; reflexivity|apply P_refl]. }
    destruct (if has ints EV_WRITE then pctl PWr fd CTL_ADD (Z.lor md EPOLLOUT) data s1 else (r1, s1)) as [r2 s2].
    cbn [snd] in S2. destruct (r2 <? 0).
    { cbn [snd]. eapply P_trans; [exact S1|]. eapply P_trans; [exact S2|]. apply UR. }
    assert (S3 : P s2 (snd (if has ints EV_ERROR then pctl PEr fd CTL_ADD (Z.lor md EPOLLERR) data s2 else (r2, s2)))).
    { destruct (has ints EV_ERROR) eqn:E; [apply P_er_add; reflexivity|apply P_refl]. }
    destruct (if has ints EV_ERROR then pctl PEr fd CTL_ADD (Z.lor md EPOLLERR) data s2 else (r2, s2)) as [r3 s3].
    cbn [snd] in S3. destruct (r3 <? 0); cbn [snd].
    - eapply P_trans; [exact S1|]. eapply P_trans; [exact S2|]. eapply P_trans; [exact S3|].
      eapply P_trans; [apply UW|apply UR].
    - eapply P_trans; [exact S1|]. eapply P_trans; [exact S2|]. exact S3.
  Qed.
End AddFrame.

(* other descriptors: whatever the variant *)
Lemma add_interest_other_fd g fd ints data s q fd' :
  fd <> fd' -> nkfind fd' (klist q (n_k (snd (add_interest g fd ints data s)))) = nkfind fd' (klist q (n_k s)).
Proof.
  intros Hne.
  apply (add_interest_frame (fun a b => nkfind fd' (klist q (n_k b)) = nkfind fd' (klist q (n_k a)))); intros;
    try reflexivity; try congruence; apply pctl_other_fd; exact Hne.
Qed.

(* the other direction of the same descriptor: only with the roll-back guarded (the proposed repair) *)
Lemma add_interest_other_dir_guarded fd ints data s q :
  dir_untouched ints q -> klist q (n_k (snd (add_interest true fd ints data s))) = klist q (n_k s).
Proof.
  intros Hq.
  assert (HR : has ints EV_READ = true -> PRd <> q) by (intros H; apply (untouched_neq ints); [exact Hq|discriminate|exact H]).
  assert (HW : has ints EV_WRITE = true -> PWr <> q) by (intros H; apply (untouched_neq ints); [exact Hq|discriminate|exact H]).
  assert (HE : has ints EV_ERROR = true -> PEr <> q) by (intros H; apply (untouched_neq ints); [exact Hq|discriminate|exact H]).
  apply (add_interest_frame (fun a b => klist q (n_k b) = klist q (n_k a))); intros;
    try reflexivity; try congruence; apply pctl_other_poller; auto.
  - apply HR. cbn [andb] in H. destruct (has ints EV_READ); [reflexivity|discriminate].
  - apply HW. cbn [andb] in H. destruct (has ints EV_WRITE); [reflexivity|discriminate].
Qed.

Lemma add_interest_same_engine g fd ints data s : same_engine s (snd (add_interest g fd ints data s)).
Proof.
  apply (add_interest_frame same_engine); intros; try apply same_engine_refl; try apply pctl_same_engine.
  - eapply same_engine_trans; eassumption.
  - repeat split.
Qed.

(* ------------------------------------------------------------------ the code as it is: refuted (finding F40) *)
(* every waiting thread still has its own registration (its thread id as data) in the poller of each direction it
   waits for, with EPOLLONESHOT, and that entry is armed or its event has been reaped and awaits delivery *)
Definition registered_at (s : nst) (t fd : Z) (p : pid) : Prop :=
  exists e, In e (klist p (n_k s)) /\ nk_fd e = fd /\ nk_data e = t /\ has (nk_events e) EPOLLONESHOT = true /\
            (nk_armed e = true \/ In t (firstn (Z.to_nat (pl_rem (get_pl p s))) (pl_ev (get_pl p s)))).
Definition ng_agree_at (s : nst) : Prop :=
  forall t fd ints dl p, nthr_get t (n_thr s) = Some (NWaiting fd ints dl) ->
    p <> PEng -> has ints (dirbit p) = true -> registered_at s t fd p.

(* scripts in which every thread waits for ONE direction, nothing is closed, nobody is interrupted *)
Definition plain_step (x : nstep) : bool :=
  match x with
  | NSWait _ fd i _ => (0 <=? fd) && ((i =? EV_READ) || (i =? EV_WRITE) || (i =? EV_ERROR))
  | NSClose _ | NSIntr _ _ => false
  | _ => true
  end.
Definition f40_witness : list nstep := [NSWait 1 5 EV_READ (-1); NSWait 2 5 EV_WRITE (-1); NSWait 3 5 EV_WRITE (-1)].

Lemma ng_agree_refuted_lemma :
  exists steps, forallb plain_step steps = true /\ ~ ng_agree_at (run_ng_g false steps).
Proof.
  exists f40_witness. split; [reflexivity|].
  intros H. specialize (H 1 5 EV_READ (-1) PRd).
  assert (E : nthr_get 1 (n_thr (run_ng_g false f40_witness)) = Some (NWaiting 5 EV_READ (-1))) by (vm_compute; reflexivity).
  specialize (H E). destruct H as [e [Hin _]]; [discriminate|vm_compute; reflexivity|].
  vm_compute in Hin. exact Hin.
Qed.
(* the same script with the roll-back guarded keeps the reader's registration *)
Example f40_witness_repaired :
  nk_r (n_k (run_ng_g true f40_witness)) = [mknk 5 (Z.lor EPOLLONESHOT (Z.lor EPOLLIN EPOLLRDHUP)) true 1].
Proof. vm_compute. reflexivity. Qed.
