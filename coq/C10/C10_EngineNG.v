(* C10 part 2b — the bookkeeping of the "next generation" epoll engine (io/epoll-ng.cpp 36-314) against a
   model of FOUR kernel epoll instances (engine, reader, writer, error pollers) with EPOLLONESHOT semantics
   and nested-epoll readiness.  Executable definitions only.

   Modelled code (pinned tree, io/epoll-ng.cpp):
      46-126  Poller: ctl / add / rm / notify_one / notify_all / reap (timeout 0)
     146-168  init(): 4 x epoll_create1, eventfd, engine.add(sub epfd, EPOLLIN, i), engine.add(evfd, EPOLLIN, EVENT)
     183-204  add_interest (incl. the two DEFERred roll-back rm()s)      205-219 rm_interest
     221-255  wait_for_events<DataCB,FDCB> with fdcb == true (master use)
     275-288  wait_and_fire_events: datacb = rm_interest( *waiter ) + thread_interrupt(waiter->data, EOK)
     289      cancel_wait                                                  291-313 wait_for_fd
   `data` of a sub-poller entry is the address of the waiter's stack-allocated Event; the model uses the id of the
   photon thread that owns that stack frame (the harness maps the pointer to the thread).  A datacb on a waiter
   whose wait_for_fd has already returned is the stale-pointer hazard: the model does not "execute" it, it sets
   [n_stale].
   The kernel is the same on both sides: harness/C10/engine.inc interposes epoll_create1/epoll_ctl/epoll_wait/
   eventfd/eventfd_read/eventfd_write with the semantics written here as [nk_ctl]/[nk_wait]. *)
From Coq Require Import ZArith List Bool.
From PV Require Import C10.C10_Engine.
Import ListNotations.
Local Open Scope Z_scope.

(* ------------------------------------------------------------------ the kernel: four epoll instances *)
Inductive pid := PEng | PRd | PWr | PEr.           (* POLLERTYPE ENGINE / READER / WRITER / ERROR *)
Definition epfd_of (p : pid) : Z := match p with PEng => 910 | PRd => 911 | PWr => 912 | PEr => 913 end.
Definition dirbit (p : pid) : Z := match p with PEng => 0 | PRd => EV_READ | PWr => EV_WRITE | PEr => EV_ERROR end.
Definition NEVFD : Z := 901.

Record nkent := mknk { nk_fd : Z; nk_events : Z; nk_armed : bool; nk_data : Z }.
Record nkern := mknkern {
  nk_e : list nkent; nk_r : list nkent; nk_w : list nkent; nk_x : list nkent;   (* interest lists, insertion order *)
  nk_ready : list (Z * Z)                                                       (* level readiness mask per descriptor *)
}.
Definition klist (p : pid) (k : nkern) : list nkent :=
  match p with PEng => nk_e k | PRd => nk_r k | PWr => nk_w k | PEr => nk_x k end.
Definition set_klist (p : pid) (l : list nkent) (k : nkern) : nkern :=
  match p with
  | PEng => mknkern l (nk_r k) (nk_w k) (nk_x k) (nk_ready k)
  | PRd => mknkern (nk_e k) l (nk_w k) (nk_x k) (nk_ready k)
  | PWr => mknkern (nk_e k) (nk_r k) l (nk_x k) (nk_ready k)
  | PEr => mknkern (nk_e k) (nk_r k) (nk_w k) l (nk_ready k)
  end.
Definition set_kready (r : list (Z * Z)) (k : nkern) : nkern := mknkern (nk_e k) (nk_r k) (nk_w k) (nk_x k) r.

Fixpoint nkfind (fd : Z) (l : list nkent) : option nkent :=
  match l with [] => None | e :: r => if nk_fd e =? fd then Some e else nkfind fd r end.
(* a descriptor occurs at most once in an interest list (ADD answers EEXIST), so "remove the entry of fd" is a filter *)
Definition nkremove (fd : Z) (l : list nkent) : list nkent := filter (fun e => negb (nk_fd e =? fd)) l.
Fixpoint nkreplace (n : nkent) (l : list nkent) : list nkent :=
  match l with [] => [] | e :: r => if nk_fd e =? nk_fd n then n :: r else e :: nkreplace n r end.

(* epoll_ctl(epfd_of p, op, fd, {events, data}): 0 or the errno *)
Definition nk_ctl (p : pid) (op fd events data : Z) (k : nkern) : Z * nkern :=
  let l := klist p k in
  match nkfind fd l with
  | None =>
      if op =? CTL_ADD then (0, set_klist p (l ++ [mknk fd events true data]) k) else (ENOENT, k)
  | Some _ =>
      if op =? CTL_ADD then (EEXIST, k)
      else if op =? CTL_MOD then (0, set_klist p (nkreplace (mknk fd events true data) l) k)
      else (0, set_klist p (nkremove fd l) k)
  end.

(* what an armed entry with requested events [ev] reports when the descriptor's readiness is [r] *)
Definition rep_mask (armed : bool) (ev r : Z) : Z :=
  if armed then
    Z.lor (bit_if (has r EPOLLIN && has ev EPOLLIN) EPOLLIN)
   (Z.lor (bit_if (has r EPOLLOUT && has ev EPOLLOUT) EPOLLOUT)
   (Z.lor (bit_if (has r EPOLLRDHUP && has ev EPOLLRDHUP) EPOLLRDHUP)
   (Z.lor (bit_if (has r EPOLLERR) EPOLLERR) (bit_if (has r EPOLLHUP) EPOLLHUP))))
  else 0.
Definition sub_rep (k : nkern) (e : nkent) : Z := rep_mask (nk_armed e) (nk_events e) (assoc (nk_fd e) (nk_ready k)).
Definition sub_readable (k : nkern) (p : pid) : bool := existsb (fun e => negb (sub_rep k e =? 0)) (klist p k).
(* nested epoll: the descriptor of a sub-poller is readable iff that poller has something to report *)
Definition eng_ready (k : nkern) (fd : Z) : Z :=
  if fd =? 911 then bit_if (sub_readable k PRd) EPOLLIN
  else if fd =? 912 then bit_if (sub_readable k PWr) EPOLLIN
  else if fd =? 913 then bit_if (sub_readable k PEr) EPOLLIN
  else assoc fd (nk_ready k).
Definition eng_rep (k : nkern) (e : nkent) : Z := rep_mask (nk_armed e) (nk_events e) (eng_ready k (nk_fd e)).

(* epoll_wait: scan the interest list in order; one-shot / edge-triggered entries are disarmed when reported *)
Fixpoint nk_scan (rep : nkent -> Z) (max : nat) (l : list nkent) : list (Z * Z * Z) * list nkent :=
  match l with
  | [] => ([], [])
  | e :: r =>
      match max with
      | O => ([], l)
      | S m =>
          let v := rep e in
          if v =? 0 then let '(evs, l') := nk_scan rep max r in (evs, e :: l')
          else
            let e' := if has (nk_events e) EPOLLONESHOT || has (nk_events e) EPOLLET
                      then mknk (nk_fd e) (nk_events e) false (nk_data e) else e in
            let '(evs, l') := nk_scan rep m r in ((nk_fd e, v, nk_data e) :: evs, e' :: l')
      end
  end.
Definition nk_wait (p : pid) (k : nkern) : list (Z * Z * Z) * nkern :=
  let rep := match p with PEng => eng_rep k | _ => sub_rep k end in
  let '(evs, l') := nk_scan rep 16 (klist p k) in (evs, set_klist p l' k).

Definition nk_set_ready (fd mask : Z) (k : nkern) : nkern := set_kready (assoc_set fd mask (nk_ready k)) k.
Definition nk_close (fd : Z) (k : nkern) : nkern :=
  mknkern (nkremove fd (nk_e k)) (nkremove fd (nk_r k)) (nkremove fd (nk_w k)) (nkremove fd (nk_x k))
          (assoc_set fd 0 (nk_ready k)).

(* ------------------------------------------------------------------ the engine *)
Record poller := mkpl { pl_ev : list Z;      (* events[i].data, as far as the array was ever written *)
                        pl_rem : Z }.        (* remains *)
Definition pl0 := mkpl [] 0.

(* a caller of wait_for_fd: asleep in thread_usleep / made READY by thread_interrupt(EOK), not yet resumed /
   running its own failure tail (timeout or interrupt) / returned (its Event is dead) *)
Inductive nwst := NWaiting (fd ints deadline : Z) | NNotified (fd ints : Z) | NTail (fd ints : Z) | NFinished.

Inductive nev :=
| NCtl (p : pid) (op fd events data res : Z)      (* epoll_ctl on poller p and its result (0 / errno) *)
| NWaitL (p : pid) (evs : list (Z * Z * Z))       (* epoll_wait(epfd_of p, 16 slots, 0): (fd, events, data) in array order *)
| NRes (t ret errno : Z)                          (* thread t's wait_for_fd returned *)
| NPollRet (n : Z)                                (* the driver's wait_and_fire_events(0) returned n *)
| NUnknown (d : Z)                                (* "Catch unknown event by engine" *)
| NMark.

Record nst := mknst {
  n_k : nkern;
  n_pe : poller; n_pr : poller; n_pw : poller; n_px : poller;      (* pl[0..3] *)
  n_errno : Z;
  n_now : Z;
  n_thr : list (Z * nwst);
  n_runq : list Z;             (* threads made READY by thread_interrupt, in run-queue order *)
  n_stale : bool;              (* a datacb dereferenced the Event of a waiter that had already returned *)
  n_misfire : bool;            (* a datacb fired a live waiter whose interests do not include the reporting poller's direction *)
  n_log : list nev             (* most recent first *)
}.

Definition upd_k k s := mknst k (n_pe s) (n_pr s) (n_pw s) (n_px s) (n_errno s) (n_now s) (n_thr s) (n_runq s) (n_stale s) (n_misfire s) (n_log s).
Definition get_pl (p : pid) (s : nst) : poller := match p with PEng => n_pe s | PRd => n_pr s | PWr => n_pw s | PEr => n_px s end.
Definition set_pl (p : pid) (x : poller) (s : nst) : nst :=
  match p with
  | PEng => mknst (n_k s) x (n_pr s) (n_pw s) (n_px s) (n_errno s) (n_now s) (n_thr s) (n_runq s) (n_stale s) (n_misfire s) (n_log s)
  | PRd => mknst (n_k s) (n_pe s) x (n_pw s) (n_px s) (n_errno s) (n_now s) (n_thr s) (n_runq s) (n_stale s) (n_misfire s) (n_log s)
  | PWr => mknst (n_k s) (n_pe s) (n_pr s) x (n_px s) (n_errno s) (n_now s) (n_thr s) (n_runq s) (n_stale s) (n_misfire s) (n_log s)
  | PEr => mknst (n_k s) (n_pe s) (n_pr s) (n_pw s) x (n_errno s) (n_now s) (n_thr s) (n_runq s) (n_stale s) (n_misfire s) (n_log s)
  end.
Definition nupd_errno e s := mknst (n_k s) (n_pe s) (n_pr s) (n_pw s) (n_px s) e (n_now s) (n_thr s) (n_runq s) (n_stale s) (n_misfire s) (n_log s).
Definition nupd_now n s := mknst (n_k s) (n_pe s) (n_pr s) (n_pw s) (n_px s) (n_errno s) n (n_thr s) (n_runq s) (n_stale s) (n_misfire s) (n_log s).
Definition nupd_thr t s := mknst (n_k s) (n_pe s) (n_pr s) (n_pw s) (n_px s) (n_errno s) (n_now s) t (n_runq s) (n_stale s) (n_misfire s) (n_log s).
Definition nupd_runq q s := mknst (n_k s) (n_pe s) (n_pr s) (n_pw s) (n_px s) (n_errno s) (n_now s) (n_thr s) q (n_stale s) (n_misfire s) (n_log s).
Definition nset_stale s := mknst (n_k s) (n_pe s) (n_pr s) (n_pw s) (n_px s) (n_errno s) (n_now s) (n_thr s) (n_runq s) true (n_misfire s) (n_log s).
Definition nset_misfire s := mknst (n_k s) (n_pe s) (n_pr s) (n_pw s) (n_px s) (n_errno s) (n_now s) (n_thr s) (n_runq s) (n_stale s) true (n_log s).
Definition nadd_log e s := mknst (n_k s) (n_pe s) (n_pr s) (n_pw s) (n_px s) (n_errno s) (n_now s) (n_thr s) (n_runq s) (n_stale s) (n_misfire s) (e :: n_log s).

Fixpoint nthr_get (t : Z) (l : list (Z * nwst)) : option nwst :=
  match l with [] => None | (x, w) :: r => if x =? t then Some w else nthr_get t r end.
Fixpoint nthr_set (t : Z) (w : nwst) (l : list (Z * nwst)) : list (Z * nwst) :=
  match l with [] => [(t, w)] | (x, v) :: r => if x =? t then (x, w) :: r else (x, v) :: nthr_set t w r end.
Definition set_thr (t : Z) (w : nwst) (s : nst) : nst := nupd_thr (nthr_set t w (n_thr s)) s.

(* epoll-ng.cpp 60-83: Poller::ctl — 0 or -errno (errno is left set by the failed epoll_ctl) *)
Definition pctl (p : pid) (fd op events data : Z) (s : nst) : Z * nst :=
  let '(res, k') := nk_ctl p op fd events data (n_k s) in
  let s1 := nadd_log (NCtl p op fd events data res) (upd_k k' s) in
  if res =? 0 then (0, s1) else (- res, nupd_errno res s1).

(* epoll-ng.cpp 183-204.  [g] = false is the code as it is: the two DEFERs `if (ret < 0) Xpoller.rm(e.fd, 0, {})`
   are declared unconditionally, i.e. they also run for a direction this call never added.  [g] = true is the
   proposed repair (roll back only what this call added). *)
Definition add_interest (g : bool) (fd ints data : Z) (s : nst) : Z * nst :=
  if fd <? 0 then (-1, nupd_errno EINVAL s)
  else
    let md := if has ints ONE_SHOT then EPOLLONESHOT else 0 in
    let undo_r (s : nst) := if g && negb (has ints EV_READ) then s else snd (pctl PRd fd CTL_DEL 0 0 s) in
    let undo_w (s : nst) := if g && negb (has ints EV_WRITE) then s else snd (pctl PWr fd CTL_DEL 0 0 s) in
    let '(r1, s1) := if has ints EV_READ then pctl PRd fd CTL_ADD (Z.lor md (Z.lor EPOLLIN EPOLLRDHUP)) data s else (0, s) in
    if r1 <? 0 then (r1, s1)
    else
      let '(r2, s2) := if has ints EV_WRITE then pctl PWr fd CTL_ADD (Z.lor md EPOLLOUT) data s1 else (r1, s1) in
      if r2 <? 0 then (r2, undo_r s2)
      else
        let '(r3, s3) := if has ints EV_ERROR then pctl PEr fd CTL_ADD (Z.lor md EPOLLERR) data s2 else (r2, s2) in
        if r3 <? 0 then (r3, undo_r (undo_w s3)) else (r3, s3).

(* epoll-ng.cpp 205-219 *)
Definition rm_interest (fd ints : Z) (s : nst) : Z * nst :=
  if fd <? 0 then (-1, nupd_errno EINVAL s)
  else
    let '(r1, s1) := if has ints EV_READ then pctl PRd fd CTL_DEL 0 0 s else (0, s) in
    let '(r2, s2) := if has ints EV_WRITE then pctl PWr fd CTL_DEL 0 0 s1 else (0, s1) in
    let '(r3, s3) := if has ints EV_ERROR then pctl PEr fd CTL_DEL 0 0 s2 else (0, s2) in
    (Z.lor r1 (Z.lor r2 r3), s3).

(* epoll-ng.cpp 279-285: the datacb of wait_and_fire_events for the entry reported by poller p whose data is the
   Event of thread t:  rm_interest( *waiter ); thread_interrupt(waiter->data, EOK).
   thread_interrupt: SLEEPING -> error_number = EOK, READY (appended to the run queue); READY with a pending
   error_number, or the RUNNING thread itself: nothing (thread.cpp 1520-1547). *)
Definition fire (p : pid) (t : Z) (s : nst) : nst :=
  match nthr_get t (n_thr s) with
  | Some (NWaiting fd ints _) =>
      let s0 := if has ints (dirbit p) then s else nset_misfire s in
      let s1 := snd (rm_interest fd ints s0) in
      nupd_runq (n_runq s1 ++ [t]) (set_thr t (NNotified fd ints) s1)
  | Some (NNotified fd ints) | Some (NTail fd ints) =>
      let s0 := if has ints (dirbit p) then s else nset_misfire s in
      snd (rm_interest fd ints s0)
  | Some NFinished | None => nset_stale s
  end.

(* epoll-ng.cpp 85-92 with fdcb() == true *)
Definition notify_one (p : pid) (s : nst) : Z * nst :=
  let pl := get_pl p s in
  if 0 <? pl_rem pl then
    let r := pl_rem pl - 1 in
    (1, fire p (nth (Z.to_nat r) (pl_ev pl) (-1)) (set_pl p (mkpl (pl_ev pl) r) s))
  else (0, s).

(* epoll-ng.cpp 226-231: do { turn = r.notify_one + w.notify_one + e.notify_one; fired += turn; } while (turn);
   (operands evaluated left to right, as g++ does) *)
Fixpoint drain (fuel : nat) (s : nst) (fired : Z) : Z * nst :=
  match fuel with
  | O => (fired, s)
  | S f =>
      let '(a, s1) := notify_one PRd s in
      let '(b, s2) := notify_one PWr s1 in
      let '(c, s3) := notify_one PEr s2 in
      let turn := a + b + c in
      if turn =? 0 then (fired, s3) else drain f s3 (fired + turn)
  end.
Definition drain_fuel (s : nst) : nat := S (Z.to_nat (pl_rem (n_pr s) + pl_rem (n_pw s) + pl_rem (n_px s))).

(* epoll-ng.cpp 103-125 with timeout 0: epoll_wait(epfd, events, 16, 0); remains += ret *)
Definition reap (p : pid) (s : nst) : nst :=
  let '(evs, k') := nk_wait p (n_k s) in
  let pl := get_pl p s in
  let ds := map (fun x => snd x) evs in
  nadd_log (NWaitL p evs)
    (set_pl p (mkpl (ds ++ skipn (length ds) (pl_ev pl)) (pl_rem pl + Z.of_nat (length ds))) (upd_k k' s)).

(* epoll-ng.cpp 237-252: the datacb of engine.notify_all *)
Definition eng_dispatch (d : Z) (s : nst) : nst :=
  if d =? 1 then reap PRd s
  else if d =? 2 then reap PWr s
  else if d =? 3 then reap PEr s
  else if d =? 4 then upd_k (nk_set_ready NEVFD 0 (n_k s)) s        (* eventfd_read *)
  else nadd_log (NUnknown d) s.
(* epoll-ng.cpp 94-101 on the engine poller, fdcb == true *)
Fixpoint eng_notify_all (fuel : nat) (s : nst) : nst :=
  match fuel with
  | O => s
  | S f =>
      let pl := n_pe s in
      if 0 <? pl_rem pl then
        let r := pl_rem pl - 1 in
        eng_notify_all f (eng_dispatch (nth (Z.to_nat r) (pl_ev pl) (-1)) (set_pl PEng (mkpl (pl_ev pl) r) s))
      else s
  end.

(* epoll-ng.cpp 221-255 + 275-288: wait_and_fire_events(0) *)
Definition wait_and_fire (s : nst) : Z * nst :=
  let '(fired, s1) := drain (drain_fuel s) s 0 in
  if fired =? 0 then
    let s2 := reap PEng s1 in
    (0, eng_notify_all (Z.to_nat (pl_rem (n_pe s2))) s2)
  else (fired, s1).

(* the threads made READY run (the caller of the engine yields): thread_usleep returns -1/EOK -> wait_for_fd returns 0 *)
Definition run_one (s : nst) (t : Z) : nst :=
  match nthr_get t (n_thr s) with
  | Some (NNotified _ _) => nadd_log (NRes t 0 0) (set_thr t NFinished s)
  | _ => s
  end.
Definition run_notified (s : nst) : nst := nupd_runq [] (fold_left run_one (n_runq s) s).

(* epoll-ng.cpp 303-312: the failure tail of wait_for_fd, run by thread t itself (timeout: e = ETIMEDOUT) *)
Definition wait_fail (t fd ints e : Z) (s : nst) : nst :=
  let s1 := snd (rm_interest fd ints (set_thr t (NTail fd ints) s)) in
  let s2 := snd (wait_and_fire s1) in                      (* "fire events in case of event during notify" *)
  run_notified (nadd_log (NRes t (-1) e) (set_thr t NFinished s2)).

(* the variant of add_interest the runner executes = the code in the tree *)
Definition NG_ROLLBACK_GUARDED : bool := true.

(* epoll-ng.cpp 291-302: wait_for_fd up to the sleep; tmo < 0 means "never" *)
Definition wait_for_fd_begin (g : bool) (t fd ints tmo : Z) (s : nst) : nst :=
  let fin ret s := nadd_log (NRes t ret (if ret <? 0 then n_errno s else 0)) (set_thr t NFinished s) in
  if ints =? 0 then fin 0 s
  else
    let '(r, s1) := add_interest g fd (Z.lor ints ONE_SHOT) t s in
    if r <? 0 then fin (-1) s1
    else if tmo =? 0 then wait_fail t fd ints ETIMEDOUT s1       (* thread_usleep(expired) returns 0 *)
    else set_thr t (NWaiting fd ints (if tmo <? 0 then -1 else n_now s1 + tmo)) s1.

Fixpoint nnext_expiry (limit : Z) (l : list (Z * nwst)) (best : option (Z * Z * Z * Z)) : option (Z * Z * Z * Z) :=
  match l with
  | [] => best
  | (t, NWaiting fd i d) :: r =>
      if (0 <=? d) && (d <=? limit) && (match best with Some (_, _, _, bd) => d <? bd | None => true end)
      then nnext_expiry limit r (Some (t, fd, i, d)) else nnext_expiry limit r best
  | _ :: r => nnext_expiry limit r best
  end.
Fixpoint nexpire_until (fuel : nat) (limit : Z) (s : nst) : nst :=
  match fuel with
  | O => s
  | S f =>
      match nnext_expiry limit (n_thr s) None with
      | None => s
      | Some (t, _, _, d) =>
          (* the sleeper t is resumed with ret = 0; it uses the fd / interests of its own Event *)
          match nthr_get t (n_thr s) with
          | Some (NWaiting fd i _) => nexpire_until f limit (wait_fail t fd i ETIMEDOUT (nupd_now d s))
          | _ => s
          end
      end
  end.

(* ------------------------------------------------------------------ scripts *)
Inductive nstep :=
| NSWait (t fd ints tmo : Z)       (* a new photon thread t calls wait_for_fd(fd, ints, tmo) *)
| NSReady (fd mask : Z)            (* the kernel's readiness of fd becomes mask *)
| NSPoll                           (* the idler's wait_and_fire_events(0), then the woken threads run *)
| NSIntr (t e : Z)                 (* thread_interrupt(t, e) by a third party, then t runs *)
| NSSleep (d : Z)                  (* d us pass: waiters whose deadline is reached time out, in deadline order *)
| NSKick                           (* cancel_wait() *)
| NSClose (fd : Z).                (* the descriptor is closed behind the engine's back *)

Definition ndo_step (g : bool) (x : nstep) (s : nst) : nst :=
  match x with
  | NSWait t fd i tmo => wait_for_fd_begin g t fd i tmo s
  | NSReady fd m => upd_k (nk_set_ready fd m (n_k s)) s
  | NSPoll => let '(n, s1) := wait_and_fire s in run_notified (nadd_log (NPollRet n) s1)
  | NSIntr t e =>
      match nthr_get t (n_thr s) with
      | Some (NWaiting fd i _) =>
          if e =? EOK then nadd_log (NRes t 0 0) (set_thr t NFinished s)      (* "Event arrived": returns 0 WITHOUT rm_interest *)
          else wait_fail t fd i e s
      | _ => s
      end
  | NSSleep d =>
      let lim := n_now s + d in
      nupd_now lim (nexpire_until (length (n_thr s)) lim s)
  | NSKick => upd_k (nk_set_ready NEVFD EPOLLIN (n_k s)) s
  | NSClose fd => upd_k (nk_close fd (n_k s)) s
  end.

(* EventEngineEPollNG::init() *)
Definition ng_init : nst :=
  let s0 := mknst (mknkern [] [] [] [] []) pl0 pl0 pl0 pl0 0 1000 [] [] false false [] in
  let s1 := snd (pctl PEng 911 CTL_ADD EPOLLIN 1 s0) in
  let s2 := snd (pctl PEng 912 CTL_ADD EPOLLIN 2 s1) in
  let s3 := snd (pctl PEng 913 CTL_ADD EPOLLIN 3 s2) in
  snd (pctl PEng NEVFD CTL_ADD EPOLLIN 4 s3).
Definition run_ng_g (g : bool) (steps : list nstep) : nst :=
  fold_left (fun s x => ndo_step g x (nadd_log NMark s)) steps ng_init.
Definition run_ng (steps : list nstep) : nst := run_ng_g NG_ROLLBACK_GUARDED steps.
