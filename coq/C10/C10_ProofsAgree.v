(* C10 part 2 — engine_kernel_agree: the inductive invariant of the level-triggered engine's bookkeeping over all
   sequences of engine calls and kernel events, under the guard that excludes the class of finding F32. *)
From Coq Require Import ZArith List Lia Bool.
From PV Require Import C10.C10_Engine C10.C10_ProofsEngine C10.C10_ProofsRearm.
Import ListNotations.
Local Open Scope Z_scope.

Ltac enum7 m :=
  let H := fresh "Hen" in
  assert (H : m = 0 \/ m = 1 \/ m = 2 \/ m = 3 \/ m = 4 \/ m = 5 \/ m = 6 \/ m = 7) by lia;
  destruct H as [-> | [-> | [-> | [-> | [-> | [-> | [-> | ->]]]]]]].
Ltac enumdir i :=
  match goal with H : i = 1 \/ i = 2 \/ i = 4 |- _ => destruct H as [-> | [-> | ->]] end.

Definition is_dir (i : Z) : Prop := i = 1 \/ i = 2 \/ i = 4.
Definition dir_data (i : Z) (e : ife) : Z :=
  if i =? 1 then i_rd e else if i =? 2 then i_wr e else i_er e.
Definition valid_int (x : Z) : Prop := x = 0 \/ exists m, 0 <= m <= 7 /\ x = ONE_SHOT + m.

(* ------------------------------------------------------------------ kernel lemmas *)
Lemma kfind_app_new l fd ev a : kfind fd l = None -> kfind fd (l ++ [mkkent fd ev a]) = Some (mkkent fd ev a).
Proof.
  induction l as [|e r IH]; cbn [app kfind ke_fd].
  - intros _. rewrite Z.eqb_refl. reflexivity.
  - destruct (ke_fd e =? fd); [discriminate|exact IH].
Qed.

Lemma k_ctl_fail op fd ev k : fst (k_ctl op fd ev k) <> 0 -> snd (k_ctl op fd ev k) = k.
Proof.
  unfold k_ctl. destruct (kfind fd (kn_list k)).
  - destruct (op =? CTL_ADD); [reflexivity|]. destruct (op =? CTL_MOD); cbn; congruence.
  - destruct (op =? CTL_ADD); cbn; congruence.
Qed.

Lemma k_ctl_addmod_ok op fd ev k :
  op = CTL_ADD \/ op = CTL_MOD -> fst (k_ctl op fd ev k) = 0 ->
  kfind fd (kn_list (snd (k_ctl op fd ev k))) = Some (mkkent fd ev true) /\
  kn_ready (snd (k_ctl op fd ev k)) = kn_ready k /\
  (op = CTL_ADD -> kfind fd (kn_list k) = None).
Proof.
  unfold k_ctl. intros Hop. destruct (kfind fd (kn_list k)) eqn:E.
  - destruct Hop as [-> | ->]; cbn; [discriminate|]. intros _.
    split; [eapply kfind_kreplace_same; exact E|]. split; [reflexivity|discriminate].
  - destruct Hop as [-> | ->]; cbn; [|discriminate]. intros _.
    split; [apply kfind_app_new; exact E|]. split; reflexivity.
Qed.

Lemma k_ctl_add_exists fd ev k e : kfind fd (kn_list k) = Some e -> fst (k_ctl CTL_ADD fd ev k) <> 0.
Proof. unfold k_ctl. intros ->. cbn. discriminate. Qed.

Lemma k_ctl_res_pos op fd ev k : 0 <= fst (k_ctl op fd ev k).
Proof.
  unfold k_ctl. destruct (kfind fd (kn_list k)).
  - destruct (op =? CTL_ADD); [cbn; unfold EEXIST; lia|]. destruct (op =? CTL_MOD); cbn; lia.
  - destruct (op =? CTL_ADD); cbn; [lia|unfold ENOENT; lia].
Qed.

(* the parts of the state that no engine call of this file touches *)
Definition same_misc (s s' : st) : Prop :=
  s_tab s' = s_tab s /\ s_size s' = s_size s /\ s_thr s' = s_thr s /\ s_evfd s' = s_evfd s /\
  s_batch s' = s_batch s /\ s_now s' = s_now s /\ kn_ready (s_k s') = kn_ready (s_k s).

Lemma ctl_spec fd op ev ign s :
  same_misc s (snd (ctl fd op ev ign s)) /\
  ((fst (ctl fd op ev ign s) = 0 /\ fst (k_ctl op fd ev (s_k s)) = 0 /\ s_k (snd (ctl fd op ev ign s)) = snd (k_ctl op fd ev (s_k s)))
   \/ (fst (ctl fd op ev ign s) <> 0 /\ s_k (snd (ctl fd op ev ign s)) = s_k s /\
       (fst (ctl fd op ev ign s) < 0 \/ (fst (ctl fd op ev ign s) = 1 /\ ign <> 0)))).
Proof.
  unfold ctl. pose proof (k_ctl_res_pos op fd ev (s_k s)) as Hp. pose proof (k_ctl_fail op fd ev (s_k s)) as Hf.
  destruct (k_ctl op fd ev (s_k s)) as [res k'] eqn:E. cbn [fst snd] in *.
  assert (Hr : kn_ready k' = kn_ready (s_k s)).
  { destruct (Z.eq_dec res 0) as [Hz|Hz]; [|rewrite (Hf Hz); reflexivity].
    revert E. unfold k_ctl. destruct (kfind fd (kn_list (s_k s)));
      repeat match goal with |- context [if ?c then _ else _] => destruct c end; intros E; inversion E; reflexivity. }
  destruct (res =? 0) eqn:Ez.
  - apply Z.eqb_eq in Ez. subst res. cbn. split; [repeat split; auto|]. left. auto.
  - apply Z.eqb_neq in Ez. rewrite (Hf Ez).
    destruct ((ign =? 0) || negb (ign =? res)) eqn:Ei; cbn.
    + split; [repeat split; auto|]. right. split; [lia|]. split; [reflexivity|]. left. lia.
    + split; [repeat split; auto|]. right. split; [lia|]. split; [reflexivity|]. right. split; [reflexivity|].
      apply orb_false_iff in Ei. destruct Ei as [Ei _]. apply Z.eqb_neq in Ei. exact Ei.
Qed.

Lemma same_misc_refl s : same_misc s s.
Proof. repeat split. Qed.
Lemma same_misc_trans a b c : same_misc a b -> same_misc b c -> same_misc a c.
Proof. unfold same_misc. intuition congruence. Qed.

(* ------------------------------------------------------------------ arithmetic of the interest masks (closed enumerations) *)
Lemma ar_dir_ints i : is_dir i -> Z.land (Z.lor i ONE_SHOT) EV_RWEO = ONE_SHOT + i /\ (Z.lor i ONE_SHOT =? 0) = false.
Proof. intros [-> | [-> | ->]]; split; reflexivity. Qed.

Lemma ar_mask m : 0 <= m <= 7 ->
  Z.land (ONE_SHOT + m) EV_RWEO = ONE_SHOT + m /\ (ONE_SHOT + m =? 0) = false /\
  has (ONE_SHOT + m) ONE_SHOT = true /\ translate (ONE_SHOT + m) = translate m.
Proof. intros H. enum7 m; repeat split; reflexivity. Qed.

Lemma ar_merge i m : is_dir i -> 0 <= m <= 7 ->
  has (Z.lxor (ONE_SHOT + m) (ONE_SHOT + i)) ONE_SHOT = false /\
  Z.lor (ONE_SHOT + m) (ONE_SHOT + i) = ONE_SHOT + Z.lor m i /\ 0 <= Z.lor m i <= 7 /\ 1 <= Z.lor m i /\
  has (Z.lor m i) i = true /\ has (ONE_SHOT + m) i = has m i /\ Z.lor 0 (ONE_SHOT + i) = ONE_SHOT + Z.lor 0 i.
Proof. intros [-> | [-> | ->]] H; enum7 m; repeat split; try reflexivity; cbn; lia. Qed.

Lemma ar_merge_other i j m : is_dir i -> is_dir j -> i <> j -> 0 <= m <= 7 -> has (Z.lor m i) j = has m j.
Proof. intros [-> | [-> | ->]] [-> | [-> | ->]] Hne H; try congruence; enum7 m; reflexivity. Qed.

Lemma ar_dmask i m rd wr er data : is_dir i -> 0 <= m <= 7 ->
  has (Z.land (ONE_SHOT + i) (ONE_SHOT + m))
      (Z.lor (if rd =? data then 0 else EV_READ) (Z.lor (if wr =? data then 0 else EV_WRITE) (if er =? data then 0 else EV_ERROR)))
  = has m i && negb (dir_data i (mkife 0 rd wr er) =? data).
Proof.
  intros [-> | [-> | ->]] H; unfold dir_data; cbn [i_rd i_wr i_er Z.eqb Pos.eqb];
    enum7 m; destruct (rd =? data), (wr =? data), (er =? data); reflexivity.
Qed.

Lemma ar_set_data i data e : is_dir i ->
  set_data (ONE_SHOT + i) data e =
  mkife (i_int e) (if i =? 1 then data else i_rd e) (if i =? 2 then data else i_wr e) (if i =? 4 then data else i_er e).
Proof. intros [-> | [-> | ->]]; reflexivity. Qed.

(* removing the directions F from ONE_SHOT + m *)
Definition minus (m F : Z) : Z := m - Z.land F m.
Lemma ar_rm F m : 0 <= F <= 7 -> 0 <= m <= 7 ->
  Z.land F (ONE_SHOT + m) = Z.land F m /\
  Z.lxor (ONE_SHOT + m) (Z.land F m) = ONE_SHOT + minus m F /\
  0 <= minus m F <= 7 /\
  (ONE_SHOT + minus m F =? ONE_SHOT) = (minus m F =? 0) /\
  (ONE_SHOT + minus m F =? 0) = false /\
  has (Z.land F m) EV_READ = has F 1 && has m 1 /\
  has (Z.land F m) EV_WRITE = has F 2 && has m 2 /\
  has (Z.land F m) EV_ERROR = has F 4 && has m 4.
Proof. intros HF Hm. unfold minus. enum7 F; enum7 m; repeat split; try reflexivity; cbn; lia. Qed.

Lemma ar_rm_has F m j : 0 <= F <= 7 -> 0 <= m <= 7 -> is_dir j -> has (minus m F) j = has m j && negb (has F j).
Proof. intros HF Hm [-> | [-> | ->]]; unfold minus; enum7 F; enum7 m; reflexivity. Qed.

Lemma ar_dir_range i : is_dir i -> 0 <= i <= 7 /\ (i =? 0) = false.
Proof. intros [-> | [-> | ->]]; split; (lia || reflexivity). Qed.

Lemma ar_has_dir_pos m i : 0 <= m <= 7 -> is_dir i -> has m i = true -> 1 <= m.
Proof. intros H [-> | [-> | ->]]; enum7 m; cbn; intros; (lia || discriminate). Qed.

Lemma ar_armed m i : 1 <= m <= 7 -> is_dir i -> has m i = true ->
  negb (Z.land (Z.lor (translate m) EPOLLONESHOT) (translate i) =? 0) = true.
Proof. intros H [-> | [-> | ->]]; enum7 m; cbn; intros; (lia || discriminate || reflexivity). Qed.

(* ------------------------------------------------------------------ add_interest *)
Lemma ctl_addmod_spec fd op ev ign s :
  op = CTL_ADD \/ op = CTL_MOD ->
  same_misc s (snd (ctl fd op ev ign s)) /\
  ((fst (ctl fd op ev ign s) = 0 /\
    kfind fd (kn_list (s_k (snd (ctl fd op ev ign s)))) = Some (mkkent fd ev true) /\
    (forall fd', fd <> fd' -> kfind fd' (kn_list (s_k (snd (ctl fd op ev ign s)))) = kfind fd' (kn_list (s_k s))) /\
    (op = CTL_ADD -> kfind fd (kn_list (s_k s)) = None))
   \/ (s_k (snd (ctl fd op ev ign s)) = s_k s /\
       (fst (ctl fd op ev ign s) < 0 \/ (fst (ctl fd op ev ign s) = 1 /\ ign <> 0)))).
Proof.
  intros Hop. destruct (ctl_spec fd op ev ign s) as [Hm [(H0 & Hk0 & Hk)|(Hn & Hk & Hr)]].
  - split; [exact Hm|]. left. split; [exact H0|]. rewrite Hk.
    destruct (k_ctl_addmod_ok op fd ev (s_k s) Hop Hk0) as (A & _ & C).
    split; [exact A|]. split; [|exact C]. intros fd' Hne. apply k_ctl_frame. exact Hne.
  - split; [exact Hm|]. right. auto.
Qed.

Lemma add_attempt_spec fd ints data op eint s :
  has eint ONE_SHOT = true -> op = CTL_ADD \/ op = CTL_MOD ->
  (fst (add_attempt fd ints data op eint s) = -1 /\ same_misc s (snd (add_attempt fd ints data op eint s)) /\
   s_k (snd (add_attempt fd ints data op eint s)) = s_k s)
  \/ (exists s1, add_attempt fd ints data op eint s = add_finish fd ints data eint s1 /\ same_misc s s1 /\
        kfind fd (kn_list (s_k s1)) = Some (mkkent fd (Z.lor (translate eint) EPOLLONESHOT) true) /\
        (forall fd', fd <> fd' -> kfind fd' (kn_list (s_k s1)) = kfind fd' (kn_list (s_k s))) /\
        (op = CTL_ADD -> kfind fd (kn_list (s_k s)) = None)).
Proof.
  intros Hos Hop. unfold add_attempt. rewrite Hos.
  set (ev := Z.lor (translate eint) EPOLLONESHOT).
  destruct Hop as [-> | ->].
  - replace (CTL_ADD =? CTL_MOD) with false by reflexivity.
    destruct (ctl_addmod_spec fd CTL_ADD ev 0 s (or_introl eq_refl)) as [Hm Hc].
    destruct (ctl fd CTL_ADD ev 0 s) as [r2 s2]. cbn [fst snd] in *.
    destruct Hc as [(H0 & A & B & C)|(Hk & [Hr|[_ Hr]])]; [| |congruence].
    + subst r2. replace (0 <? 0) with false by reflexivity. right. exists s2. auto.
    + replace (r2 <? 0) with true by (symmetry; apply Z.ltb_lt; exact Hr). left. auto.
  - replace (CTL_MOD =? CTL_MOD) with true by reflexivity.
    destruct (ctl_addmod_spec fd CTL_MOD ev ENOENT s (or_intror eq_refl)) as [Hm Hc].
    destruct (ctl fd CTL_MOD ev ENOENT s) as [r s1]. cbn [fst snd] in *.
    destruct Hc as [(H0 & A & B & C)|(Hk & [Hr|[Hr _]])].
    + subst r. replace (0 =? 0) with true by reflexivity. right. exists s1. split; [reflexivity|]. split; [exact Hm|].
      split; [exact A|]. split; [exact B|]. discriminate.
    + replace (r =? 0) with false by (symmetry; apply Z.eqb_neq; lia).
      replace (0 <? r) with false by (symmetry; apply Z.ltb_ge; lia). left. auto.
    + subst r. replace (1 =? 0) with false by reflexivity. replace (0 <? 1) with true by reflexivity.
      destruct (ctl_addmod_spec fd CTL_ADD ev 0 s1 (or_introl eq_refl)) as [Hm2 Hc2].
      destruct (ctl fd CTL_ADD ev 0 s1) as [r2 s2]. cbn [fst snd] in *.
      destruct Hc2 as [(H0 & A & B & C)|(Hk2 & [Hr|[_ Hr]])]; [| |congruence].
      * subst r2. replace (0 <? 0) with false by reflexivity. right. exists s2. split; [reflexivity|].
        split; [eapply same_misc_trans; eassumption|]. split; [exact A|].
        split; [intros fd' Hne; rewrite (B fd' Hne), Hk; reflexivity|discriminate].
      * replace (r2 <? 0) with true by (symmetry; apply Z.ltb_lt; exact Hr). left. cbn [fst snd].
        split; [reflexivity|]. split; [eapply same_misc_trans; eassumption|]. rewrite Hk2, Hk. reflexivity.
Qed.

(* the resize at the head of add_interest *)
Definition resized (fd : Z) (s : st) : st := if s_size s <=? fd then upd_size (fd * 2 + 2) s else s.
Lemma resized_spec fd s : 0 <= fd ->
  s_tab (resized fd s) = s_tab s /\ s_k (resized fd s) = s_k s /\ s_thr (resized fd s) = s_thr s /\
  s_evfd (resized fd s) = s_evfd s /\ s_batch (resized fd s) = s_batch s /\ s_now (resized fd s) = s_now s /\
  fd < s_size (resized fd s) /\ s_size s <= s_size (resized fd s).
Proof.
  intros H. unfold resized. destruct (s_size s <=? fd) eqn:E; cbn.
  - apply Z.leb_le in E. repeat split; lia.
  - apply Z.leb_gt in E. repeat split; lia.
Qed.

(* result of wait_for_fd's add_interest({fd, i | ONE_SHOT, t}) on an entry ONE_SHOT+m (or a fresh entry, m = 0) *)
Lemma add_interest_spec fd i data s m :
  0 <= fd -> is_dir i -> 0 <= m <= 7 ->
  (i_int (tab_get fd (s_tab s)) = 0 /\ m = 0 \/ i_int (tab_get fd (s_tab s)) = ONE_SHOT + m) ->
  let r := add_interest fd (Z.lor i ONE_SHOT) data s in
  let entry := tab_get fd (s_tab s) in
  let s0 := resized fd s in
  (fst r = -1 /\ s_tab (snd r) = s_tab s /\ s_k (snd r) = s_k s /\ s_thr (snd r) = s_thr s /\ s_evfd (snd r) = s_evfd s /\
   s_batch (snd r) = s_batch s /\ s_now (snd r) = s_now s /\ s_size s <= s_size (snd r))
  \/
  (fst r = 0 /\ (has m i = true -> dir_data i entry = data) /\
   s_tab (snd r) = tab_set fd (mkife (ONE_SHOT + Z.lor m i)
                                    (if i =? 1 then data else i_rd entry) (if i =? 2 then data else i_wr entry)
                                    (if i =? 4 then data else i_er entry)) (s_tab s) /\
   kfind fd (kn_list (s_k (snd r))) = Some (mkkent fd (Z.lor (translate (Z.lor m i)) EPOLLONESHOT) true) /\
   (forall fd', fd <> fd' -> kfind fd' (kn_list (s_k (snd r))) = kfind fd' (kn_list (s_k s))) /\
   (i_int entry = 0 -> kfind fd (kn_list (s_k s)) = None) /\
   kn_ready (s_k (snd r)) = kn_ready (s_k s) /\
   s_thr (snd r) = s_thr s /\ s_evfd (snd r) = s_evfd s /\ s_batch (snd r) = s_batch s /\ s_now (snd r) = s_now s /\
   fd < s_size (snd r) /\ s_size s <= s_size (snd r)).
Proof.
  intros Hfd Hi Hm Hx r entry s0. subst r s0.
  destruct (resized_spec fd s Hfd) as (Rt & Rk & Rth & Rev & Rb & Rn & Rlt & Rle).
  destruct (ar_dir_ints i Hi) as (Ai & Az).
  unfold add_interest. replace (fd <? 0) with false by (symmetry; apply Z.ltb_ge; lia). rewrite Az.
  fold (resized fd s). remember (resized fd s) as s0 eqn:Hs0. rewrite Ai. rewrite Rt. fold entry.
  destruct (ar_merge i m Hi Hm) as (M1 & M2 & M3 & M4 & M5 & M6 & M7).
  assert (Hfin : forall eint s1, same_misc s0 s1 -> Z.lor (i_int entry) eint = ONE_SHOT + Z.lor m i ->
            snd (add_finish fd (ONE_SHOT + i) data eint s1) =
            upd_tab (tab_set fd (mkife (ONE_SHOT + Z.lor m i) (if i =? 1 then data else i_rd entry)
                       (if i =? 2 then data else i_wr entry) (if i =? 4 then data else i_er entry)) (s_tab s)) s1).
  { intros eint s1 (T & _) He. unfold add_finish. cbn [snd]. rewrite T, Rt. fold entry.
    rewrite (ar_set_data i data _ Hi). cbn [i_int i_rd i_wr i_er]. rewrite He. reflexivity. }
  assert (Hsucc : forall op eint s1, add_attempt fd (ONE_SHOT + i) data op eint s0 = add_finish fd (ONE_SHOT + i) data eint s1 ->
            same_misc s0 s1 -> Z.lor (i_int entry) eint = ONE_SHOT + Z.lor m i -> translate eint = translate (Z.lor m i) ->
            kfind fd (kn_list (s_k s1)) = Some (mkkent fd (Z.lor (translate eint) EPOLLONESHOT) true) ->
            (forall fd', fd <> fd' -> kfind fd' (kn_list (s_k s1)) = kfind fd' (kn_list (s_k s0))) ->
            (has m i = true -> dir_data i entry = data) ->
            (i_int entry = 0 -> kfind fd (kn_list (s_k s)) = None) ->
            let r := add_attempt fd (ONE_SHOT + i) data op eint s0 in
            fst r = 0 /\ (has m i = true -> dir_data i entry = data) /\
            s_tab (snd r) = tab_set fd (mkife (ONE_SHOT + Z.lor m i)
                                    (if i =? 1 then data else i_rd entry) (if i =? 2 then data else i_wr entry)
                                    (if i =? 4 then data else i_er entry)) (s_tab s) /\
            kfind fd (kn_list (s_k (snd r))) = Some (mkkent fd (Z.lor (translate (Z.lor m i)) EPOLLONESHOT) true) /\
            (forall fd', fd <> fd' -> kfind fd' (kn_list (s_k (snd r))) = kfind fd' (kn_list (s_k s))) /\
            (i_int entry = 0 -> kfind fd (kn_list (s_k s)) = None) /\
            kn_ready (s_k (snd r)) = kn_ready (s_k s) /\
            s_thr (snd r) = s_thr s /\ s_evfd (snd r) = s_evfd s /\ s_batch (snd r) = s_batch s /\ s_now (snd r) = s_now s /\
            fd < s_size (snd r) /\ s_size s <= s_size (snd r)).
  { intros op eint s1 Heq Hmisc He Htr A B Hd Hn r. subst r. rewrite Heq.
    pose proof (Hfin eint s1 Hmisc He) as F. destruct Hmisc as (T & Sz & Th & Ev & Ba & No & Rd).
    split; [reflexivity|]. split; [exact Hd|]. rewrite F. cbn [s_tab s_k s_thr s_evfd s_batch s_now s_size upd_tab].
    split; [reflexivity|]. split; [rewrite A, Htr; reflexivity|].
    split; [intros fd' Hne; rewrite (B fd' Hne), Rk; reflexivity|]. split; [exact Hn|].
    split; [rewrite Rd, Rk; reflexivity|]. repeat split; try congruence; lia. }
  assert (Hfail : forall s', same_misc s0 s' -> s_k s' = s_k s0 ->
            s_tab s' = s_tab s /\ s_k s' = s_k s /\ s_thr s' = s_thr s /\ s_evfd s' = s_evfd s /\
            s_batch s' = s_batch s /\ s_now s' = s_now s /\ s_size s <= s_size s').
  { intros s' (T & Sz & Th & Ev & Ba & No & Rd) K. repeat split; try congruence; try (rewrite Sz; exact Rle). }
  destruct Hx as [[Hx0 ->] | Hxm].
  - (* fresh entry: EPOLL_CTL_ADD *)
    change (i_int entry = 0) in Hx0.
    replace (Z.land (i_int entry) EV_RWEO =? 0) with true by (rewrite Hx0; reflexivity).
    destruct (ar_mask i ltac:(destruct Hi as [-> | [-> | ->]]; lia)) as (_ & _ & Hos & Htr).
    destruct (add_attempt_spec fd (ONE_SHOT + i) data CTL_ADD (ONE_SHOT + i) s0 Hos (or_introl eq_refl))
      as [(F1 & F2 & F3)|(s1 & Heq & Hmisc & A & B & C)].
    + left. split; [exact F1|]. apply Hfail; assumption.
    + right. eapply Hsucc; try eassumption.
      * rewrite Hx0. exact M7.
      * intros Hh. exfalso. clear - Hh Hi. destruct Hi as [-> | [-> | ->]]; discriminate.
      * intros _. rewrite <- Rk. apply C. reflexivity.
  - change (i_int entry = ONE_SHOT + m) in Hxm.
    destruct (ar_mask m Hm) as (Am & Amz & _ & _).
    replace (Z.land (i_int entry) EV_RWEO) with (ONE_SHOT + m) by (rewrite Hxm; symmetry; exact Am).
    rewrite Amz, M1.
    pose proof (ar_dmask i m (i_rd entry) (i_wr entry) (i_er entry) data Hi Hm) as Hdm. rewrite Hdm.
    assert (Hdd : dir_data i (mkife 0 (i_rd entry) (i_wr entry) (i_er entry)) = dir_data i entry) by reflexivity.
    rewrite Hdd.
    destruct (has m i && negb (dir_data i entry =? data)) eqn:Hconf.
    + left. split; [reflexivity|]. cbn [snd]. apply (Hfail (upd_errno EALREADY s0)); [repeat split|reflexivity].
    + rewrite M2.
      destruct (ar_mask (Z.lor m i) M3) as (_ & _ & Hos & Htr).
      destruct (add_attempt_spec fd (ONE_SHOT + i) data CTL_MOD (ONE_SHOT + Z.lor m i) s0 Hos (or_intror eq_refl))
        as [(F1 & F2 & F3)|(s1 & Heq & Hmisc & A & B & C)].
      * left. split; [exact F1|]. apply Hfail; assumption.
      * right. eapply Hsucc; try eassumption.
        -- rewrite Hxm. clear - Hi Hm. destruct Hi as [-> | [-> | ->]]; enum7 m; reflexivity.
        -- intros Hh. rewrite Hh in Hconf. cbn [andb] in Hconf. apply negb_false_iff in Hconf. apply Z.eqb_eq in Hconf. exact Hconf.
        -- intros H0. rewrite Hxm in H0. exfalso. clear - H0 Hm. unfold ONE_SHOT in H0. lia.
Qed.

(* ------------------------------------------------------------------ rm_interest *)
Lemma rm_misc fd ints s :
  s_size (snd (rm_interest fd ints s)) = s_size s /\ s_thr (snd (rm_interest fd ints s)) = s_thr s /\
  s_evfd (snd (rm_interest fd ints s)) = s_evfd s /\ s_batch (snd (rm_interest fd ints s)) = s_batch s /\
  s_now (snd (rm_interest fd ints s)) = s_now s /\ kn_ready (s_k (snd (rm_interest fd ints s))) = kn_ready (s_k s).
Proof.
  unfold rm_interest.
  destruct ((fd <? 0) || (s_size s <=? fd)); [cbn; repeat split|].
  destruct (ints =? 0); [cbn; repeat split|].
  match goal with |- context [if ?c then _ else _] => destruct c end; [cbn; repeat split|].
  match goal with |- context [if ?c then _ else _] => destruct c end; [cbn; repeat split|].
  match goal with |- context [if ?c then _ else _] => destruct c end.
  - destruct (ctl_spec fd CTL_DEL 0 ENOENT s) as [(T & Sz & Th & Ev & Ba & No & Rd) _].
    destruct (ctl fd CTL_DEL 0 ENOENT s) as [r s1]. cbn [fst snd] in *.
    destruct (r <? 0); cbn; repeat split; assumption.
  - match goal with |- context [ctl fd CTL_MOD ?ev 0 s] =>
      destruct (ctl_spec fd CTL_MOD ev 0 s) as [(T & Sz & Th & Ev & Ba & No & Rd) _];
      destruct (ctl fd CTL_MOD ev 0 s) as [r s1] end. cbn [fst snd] in *.
    destruct (r <? 0); cbn; repeat split; assumption.
Qed.

Lemma rm_noop_case fd F s :
  (fd <? 0) || (s_size s <=? fd) = false -> (F =? 0) = false ->
  (Z.land F (Z.land (i_int (tab_get fd (s_tab s))) EV_RWEO) =? 0) = true ->
  rm_interest fd F s = (0, s).
Proof. intros H1 H2 H3. unfold rm_interest. rewrite H1, H2, H3. reflexivity. Qed.

Lemma rm_last_case fd F s :
  (fd <? 0) || (s_size s <=? fd) = false -> (F =? 0) = false ->
  let entry := tab_get fd (s_tab s) in
  let eint := Z.land (i_int entry) EV_RWEO in
  let inter := Z.land F eint in
  (inter =? 0) = false -> (Z.lxor eint inter =? ONE_SHOT) = true ->
  rm_interest fd F s =
  (0, upd_tab (tab_set fd (mkife (Z.lxor (i_int entry) inter)
                                 (if has inter EV_READ then 0 else i_rd entry)
                                 (if has inter EV_WRITE then 0 else i_wr entry)
                                 (if has inter EV_ERROR then 0 else i_er entry)) (s_tab s)) s).
Proof. intros H1 H2 entry eint inter H3 H4. unfold rm_interest. rewrite H1, H2. fold entry eint inter. rewrite H3, H4. reflexivity. Qed.

(* removing the directions F from the one-shot entry ONE_SHOT+m of descriptor fd *)
Lemma rm_spec fd F m s :
  0 <= fd < s_size s -> 1 <= F <= 7 -> 0 <= m <= 7 ->
  i_int (tab_get fd (s_tab s)) = ONE_SHOT + m ->
  (1 <= minus m F -> exists e0, kfind fd (kn_list (s_k s)) = Some e0) ->
  let entry := tab_get fd (s_tab s) in
  (Z.land F m = 0 /\ snd (rm_interest fd F s) = s) \/
  (Z.land F m <> 0 /\
   tab_get fd (s_tab (snd (rm_interest fd F s))) =
     mkife (ONE_SHOT + minus m F) (if has F 1 && has m 1 then 0 else i_rd entry)
           (if has F 2 && has m 2 then 0 else i_wr entry) (if has F 4 && has m 4 then 0 else i_er entry) /\
   (minus m F = 0 -> s_k (snd (rm_interest fd F s)) = s_k s) /\
   (1 <= minus m F -> kfind fd (kn_list (s_k (snd (rm_interest fd F s)))) =
                      Some (mkkent fd (Z.lor (translate (minus m F)) EPOLLONESHOT) true))).
Proof.
  intros Hfd HF Hm Hint Hk entry.
  assert (Hb : (fd <? 0) || (s_size s <=? fd) = false).
  { apply orb_false_iff. split; [apply Z.ltb_ge; lia | apply Z.leb_gt; lia]. }
  assert (HF0 : (F =? 0) = false) by (apply Z.eqb_neq; lia).
  destruct (ar_mask m Hm) as (Am & _ & _ & _).
  destruct (ar_rm F m ltac:(lia) Hm) as (R1 & R2 & R3 & R4 & R5 & R6 & R7 & R8).
  assert (Heint : Z.land (i_int (tab_get fd (s_tab s))) EV_RWEO = ONE_SHOT + m) by (rewrite Hint; exact Am).
  destruct (Z.land F m =? 0) eqn:Ei.
  - left. apply Z.eqb_eq in Ei. split; [exact Ei|].
    rewrite (rm_noop_case fd F s Hb HF0); [reflexivity|]. rewrite Heint, R1, Ei. reflexivity.
  - right. apply Z.eqb_neq in Ei. split; [exact Ei|].
    assert (Hi3 : (Z.land F (Z.land (i_int (tab_get fd (s_tab s))) EV_RWEO) =? 0) = false)
      by (rewrite Heint, R1; apply Z.eqb_neq; exact Ei).
    assert (Hrem : Z.lxor (Z.land (i_int (tab_get fd (s_tab s))) EV_RWEO)
                          (Z.land F (Z.land (i_int (tab_get fd (s_tab s))) EV_RWEO)) = ONE_SHOT + minus m F)
      by (rewrite Heint, R1; exact R2).
    assert (Hnew : Z.lxor (i_int (tab_get fd (s_tab s))) (Z.land F (Z.land (i_int (tab_get fd (s_tab s))) EV_RWEO))
                   = ONE_SHOT + minus m F) by (rewrite Heint, R1, Hint; exact R2).
    destruct (minus m F =? 0) eqn:Ez.
    + apply Z.eqb_eq in Ez.
      rewrite (rm_last_case fd F s Hb HF0 Hi3); [|rewrite Hrem; exact R4].
      cbn [snd s_tab s_k upd_tab]. rewrite tab_get_set_same, Hnew, Heint, R1, R6, R7, R8.
      split; [reflexivity|]. split; [reflexivity|]. intros; lia.
    + apply Z.eqb_neq in Ez. assert (Hpos : 1 <= minus m F) by lia.
      destruct (Hk Hpos) as [e0 He0].
      destruct (rm_interest_mod_case fd F s e0 Hb HF0 Hi3) as (_ & T & K);
        [rewrite Hrem; exact R4 | rewrite Hrem; exact R5 | exact He0 |].
      rewrite Hrem in K. rewrite Hnew, Heint, R1, R6, R7, R8 in T.
      destruct (ar_mask (minus m F) R3) as (_ & _ & Hos & Htr). rewrite Hos, Htr in K.
      split; [exact T|]. split; [intros; lia|]. intros _. exact K.
Qed.
