(* C09_Witness.v — concrete schedules refuting clauses of C09 on the faithful models
   (findings F10, F11), evaluated by vm_compute. *)
From Coq Require Import ZArith List Bool Arith.
From PV Require Import Base.U64 C09.C09_Common C09.C09_Unbuf C09.C09_Buf C09.C09_Model.
Import ListNotations.
Local Open Scope Z_scope.

Definition thr (l : list nat) : list label := map LThr l.

(* did a send / try_send of v return true? *)
Definition is_send_ok (v : val) (e : event) : bool :=
  match e_k e, e_v e, e_r e with
  | KSend, Some x, ROk | KTrySend, Some x, ROk => val_eqb x v
  | _, _, _ => false
  end.
Definition u_sent_true (s : ust) (v : val) : bool := existsb (is_send_ok v) (u_log s).
Definition b_sent_true (s : bst) (v : val) : bool := existsb (is_send_ok v) (b_log s).
Definition u_done (s : ust) (t : tid) : bool :=
  match u_pc s t, u_prog s t with UIdle, [] => true | _, _ => false end.
Definition u_asleep (s : ust) (t : tid) : bool := match u_w s t with Asleep => true | _ => false end.
Definition b_asleep (s : bst) (t : tid) : bool := match b_w s t with Asleep => true | _ => false end.

(* ---- F10: unbuffered channel, receiver T1 waiting, senders T2 then T3 ---------------------- *)
Definition f10_progs : tid -> list op := progs_fun [[ORecv MAX64]; [OSend MAX64]; [OSend MAX64]].
Definition f10_sched : list label :=
  thr [1;1;1; 2;2;2;2;2; 3;3;3;3;3; 1;1; 2;2;2]%nat.

(* On go.h as it is: T2's send returns true, its value (2,0) was overwritten by T3's and is
   never delivered; T3's value IS delivered, yet T3 stays asleep on m_unbuf_send_cv with nobody
   left to wake it (it returns true only when its Timeout expires). *)
Definition f10_witness_stmt : Prop :=
  exists s, urun false (u_init f10_progs 1000) f10_sched = Some s /\
    u_sent_true s (2, 0)%nat = true /\
    count_val (2, 0)%nat (u_taken s) = O /\
    u_taken s = [(3, 0)%nat] /\ u_lost s = [(2, 0)%nat] /\ u_slot s = None /\
    u_done s 1%nat = true /\ u_done s 2%nat = true /\
    u_asleep s 3%nat = true /\ u_scv s = [3%nat] /\ u_mtx s = None.
Lemma f10_witness : f10_witness_stmt.
Proof. unfold f10_witness_stmt. eexists. split; [vm_compute; reflexivity|]. vm_compute. repeat split; reflexivity. Qed.

(* the same schedule on the repaired code: T3 waits for the slot; (2,0) is delivered *)
Definition f10_fixed_behaviour_stmt : Prop :=
  exists s, urun true (u_init f10_progs 1000) (thr [1;1;1; 2;2;2;2;2; 3;3;3; 1;1; 2;2;2; 3;3]%nat) = Some s /\
    u_taken s = [(2, 0)%nat] /\ u_lost s = [] /\ u_sent_true s (2, 0)%nat = true /\
    u_sent_true s (3, 0)%nat = false /\ u_asleep s 3%nat = true /\ u_rw s = 0.
Lemma f10_fixed_behaviour : f10_fixed_behaviour_stmt.
Proof. unfold f10_fixed_behaviour_stmt. eexists. split; [vm_compute; reflexivity|]. vm_compute. repeat split; reflexivity. Qed.

(* ---- F11: buffered channel, check-then-register lost wake-up (needs two vCPUs: the steps of
   two threads interleave between a failed push/pop and the registration as a waiter) ---------- *)
Definition b_done (s : bst) (t : tid) : bool :=
  match b_pc s t, b_prog s t with BIdle, [] => true | _, _ => false end.

(* (a) sender: capacity 1; T1 sends twice, T2 receives once.  T1's second send finds the buffer
   full and is about to register; T2 pops, sees m_senders_waiting == 0 and does not signal; T1
   registers and sleeps on m_send_sem although a slot is free and nobody is inside a call. *)
Definition f11a_progs : tid -> list op := progs_fun [[OSend MAX64; OSend MAX64]; [ORecv MAX64]].
Definition f11a_sched : list label := thr [1;1;1;1;1;1;1; 1;1;1;1;1; 2;2;2; 1;1]%nat.
Definition f11a_witness_stmt : Prop :=
  exists s, brun false 1 (b_init f11a_progs 1000) f11a_sched = Some s /\
    b_q s = [] /\ b_closed s = false /\ b_done s 2%nat = true /\
    b_asleep s 1%nat = true /\ sm_q (b_ssem s) = [1%nat] /\ sm_cnt (b_ssem s) = 0 /\
    b_dl s 1%nat = MAX64 /\ b_popped s = [(1, 0)%nat].
Lemma f11a_witness : f11a_witness_stmt.
Proof. unfold f11a_witness_stmt. eexists. split; [vm_compute; reflexivity|]. vm_compute. repeat split; reflexivity. Qed.

(* (b) receiver: T1's pop finds the buffer empty; T2 sends, sees m_receivers_waiting == 0;
   T1 registers and sleeps although an item is buffered. *)
Definition f11b_progs : tid -> list op := progs_fun [[ORecv MAX64]; [OSend MAX64]].
Definition f11b_sched : list label := thr [1;1;1;1; 2;2;2;2;2;2;2; 1;1]%nat.
Definition f11b_witness_stmt : Prop :=
  exists s, brun false 1 (b_init f11b_progs 1000) f11b_sched = Some s /\
    b_q s = [((2, 0)%nat, true)] /\ b_closed s = false /\ b_done s 2%nat = true /\
    b_sent_true s (2, 0)%nat = true /\
    b_asleep s 1%nat = true /\ sm_q (b_rsem s) = [1%nat] /\ sm_cnt (b_rsem s) = 0 /\ b_dl s 1%nat = MAX64.
Lemma f11b_witness : f11b_witness_stmt.
Proof. unfold f11b_witness_stmt. eexists. split; [vm_compute; reflexivity|]. vm_compute. repeat split; reflexivity. Qed.

(* (c) close: T1's recv has seen "not closed"; T2's close() reads m_receivers_waiting == 0;
   T1 registers and sleeps for ever on a closed channel. *)
Definition f11c_progs : tid -> list op := progs_fun [[ORecv MAX64]; [OClose]].
Definition f11c_sched : list label := thr [1;1;1;1; 2;2;2;2;2;2; 1;1]%nat.
Definition f11c_witness_stmt : Prop :=
  exists s, brun false 1 (b_init f11c_progs 1000) f11c_sched = Some s /\
    b_closed s = true /\ b_done s 2%nat = true /\
    b_asleep s 1%nat = true /\ sm_q (b_rsem s) = [1%nat] /\ sm_cnt (b_rsem s) = 0 /\ b_dl s 1%nat = MAX64.
Lemma f11c_witness : f11c_witness_stmt.
Proof. unfold f11c_witness_stmt. eexists. split; [vm_compute; reflexivity|]. vm_compute. repeat split; reflexivity. Qed.

(* ---- the refutations in the form "there is a reachable state that violates the clause" ------- *)
(* F10: exactly-once fails on the unbuffered channel as it is *)
Definition chan_exactly_once_unbuffered_refuted_stmt : Prop :=
  exists (progs : tid -> list op) (ls : list label) (s : ust) (v : val),
    urun false (u_init progs 1000) ls = Some s /\
    u_sent_true s v = true /\ count_val v (u_taken s) = O /\ u_slot s = None /\ mem_val v (u_lost s) = true.
Lemma chan_exactly_once_unbuffered_refuted : chan_exactly_once_unbuffered_refuted_stmt.
Proof.
  exists f10_progs, f10_sched. eexists. exists (2, 0)%nat.
  split; [vm_compute; reflexivity|]. vm_compute. repeat split; reflexivity.
Qed.

(* F10, release clause: T3 sleeps for ever (no timer, nobody inside a call) although its value was
   delivered *)
Definition chan_release_unbuffered_refuted_stmt : Prop :=
  exists (progs : tid -> list op) (ls : list label) (s : ust) (t : tid) (v : val) e q,
    urun false (u_init progs 1000) ls = Some s /\
    u_pc s t = US_w2 v e q /\ u_asleep s t = true /\ u_dl s t = MAX64 /\ mem_val v (u_taken s) = true /\
    u_mtx s = None /\ forallb (fun t' => u_done s t' || Nat.eqb t' t) [1;2;3]%nat = true.
Lemma chan_release_unbuffered_refuted : chan_release_unbuffered_refuted_stmt.
Proof.
  exists f10_progs, f10_sched. eexists. exists 3%nat, (3, 0)%nat. do 2 eexists.
  split; [vm_compute; reflexivity|]. vm_compute. repeat split; reflexivity.
Qed.

(* F11: release fails on the buffered channel across vCPUs: a thread sleeps on its semaphore with
   an infinite deadline, count 0, nobody inside a call, while (a) a slot is free, (b) an item is
   buffered, (c) the channel is closed *)
Definition chan_release_buffered_refuted_stmt : Prop :=
  (exists ls s, brun false 1 (b_init f11a_progs 1000) ls = Some s /\ b_asleep s 1%nat = true /\ b_dl s 1%nat = MAX64 /\
                sm_cnt (b_ssem s) = 0 /\ b_q s = [] /\ b_closed s = false /\ b_done s 2%nat = true) /\
  (exists ls s, brun false 1 (b_init f11b_progs 1000) ls = Some s /\ b_asleep s 1%nat = true /\ b_dl s 1%nat = MAX64 /\
                sm_cnt (b_rsem s) = 0 /\ b_q s = [((2, 0)%nat, true)] /\ b_closed s = false /\ b_done s 2%nat = true) /\
  (exists ls s, brun false 1 (b_init f11c_progs 1000) ls = Some s /\ b_asleep s 1%nat = true /\ b_dl s 1%nat = MAX64 /\
                sm_cnt (b_rsem s) = 0 /\ b_closed s = true /\ b_done s 2%nat = true).
Lemma chan_release_buffered_refuted : chan_release_buffered_refuted_stmt.
Proof.
  split; [|split].
  - exists f11a_sched. eexists. split; [vm_compute; reflexivity|]. vm_compute. repeat split; reflexivity.
  - exists f11b_sched. eexists. split; [vm_compute; reflexivity|]. vm_compute. repeat split; reflexivity.
  - exists f11c_sched. eexists. split; [vm_compute; reflexivity|]. vm_compute. repeat split; reflexivity.
Qed.

(* the three F11 schedules on the REPAIRED buffered code (fx = true; the re-check adds steps): nobody is left asleep *)
Definition f11_fixed_behaviour_stmt : Prop :=
  (exists s, brun true 1 (b_init f11a_progs 1000) (thr [1;1;1;1;1;1;1; 1;1;1;1;1; 2;2;2; 1;1;1;1;1; 1;1;1;1;1;1]%nat) = Some s /\
             b_done s 1%nat = true /\ b_done s 2%nat = true /\ b_sent_true s (1, 1)%nat = true) /\
  (exists s, brun true 1 (b_init f11b_progs 1000) (thr [1;1;1;1; 2;2;2;2;2;2;2; 1;1;1;1;1; 1;1]%nat) = Some s /\
             b_done s 1%nat = true /\ b_popped s = [(2, 0)%nat]) /\
  (exists s, brun true 1 (b_init f11c_progs 1000) (thr [1;1;1;1; 2;2;2;2;2;2; 1;1;1; 1;1]%nat) = Some s /\
             b_done s 1%nat = true /\ b_closed s = true).
Lemma f11_fixed_behaviour : f11_fixed_behaviour_stmt.
Proof.
  split; [|split]; eexists; (split; [vm_compute; reflexivity|]); vm_compute; repeat split; reflexivity.
Qed.
