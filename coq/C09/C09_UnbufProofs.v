(* C09_UnbufProofs.v — inductive invariants of the unbuffered-channel model (C09_Unbuf.v) for the
   REPAIRED code (fx = true) over every schedule, and the C09 clauses they give.  The behaviour of
   the code as it is (fx = false) is refuted in C09_Witness.v. *)
From Coq Require Import ZArith List Bool Arith Lia.
From PV Require Import Base.U64 C09.C09_Common C09.C09_Unbuf C09.C09_BufProofs.
Import ListNotations.
Local Open Scope Z_scope.

Inductive ureach (fx : bool) (progs : tid -> list op) (now0 : Z) : ust -> Prop :=
| ureach_init : ureach fx progs now0 (u_init progs now0)
| ureach_step s l s' : ureach fx progs now0 s -> ulstep fx s l = Some s' -> ureach fx progs now0 s'.

(* ---- the part of the state the ledger invariants talk about --------------------------------- *)
Record ucore : Type := mkUC {
  uc_pc : tid -> upc; uc_cnt : tid -> nat; uc_slot : option val; uc_seq : nat; uc_taken : list val;
  uc_log : list event; uc_closed : bool; uc_now : Z; uc_prog : tid -> list op;
  uc_sw : Z; uc_rw : Z; uc_mtx : option tid
}.
Definition ucore_of (s : ust) : ucore :=
  mkUC (u_pc s) (u_cnt s) (u_slot s) (u_seq s) (u_taken s) (u_log s) (u_closed s) (u_now s) (u_prog s)
       (u_sw s) (u_rw s) (u_mtx s).

Lemma wake_list_core s l : ucore_of (wake_list s l) = ucore_of s.
Proof. revert s. induction l as [|h r IH]; intros s; cbn; [reflexivity|]. rewrite IH. reflexivity. Qed.
Lemma notify_one_s_core s : ucore_of (notify_one_s s) = ucore_of s.
Proof. unfold notify_one_s. destruct (u_scv s); reflexivity. Qed.
Lemma notify_one_r_core s : ucore_of (notify_one_r s) = ucore_of s.
Proof. unfold notify_one_r. destruct (u_rcv s); reflexivity. Qed.
Lemma notify_all_s_core s : ucore_of (notify_all_s s) = ucore_of s.
Proof. unfold notify_all_s. rewrite wake_list_core. reflexivity. Qed.
Lemma notify_all_r_core s : ucore_of (notify_all_r s) = ucore_of s.
Proof. unfold notify_all_r. rewrite wake_list_core. reflexivity. Qed.

(* core transformers *)
Definition k_goto (c : ucore) (t : tid) (p : upc) : ucore :=
  mkUC (upd (uc_pc c) t p) (uc_cnt c) (uc_slot c) (uc_seq c) (uc_taken c) (uc_log c) (uc_closed c) (uc_now c)
       (uc_prog c) (uc_sw c) (uc_rw c) (uc_mtx c).
Definition k_cnt (c : ucore) (t : tid) : ucore :=
  mkUC (uc_pc c) (upd (uc_cnt c) t (S (uc_cnt c t))) (uc_slot c) (uc_seq c) (uc_taken c) (uc_log c) (uc_closed c)
       (uc_now c) (uc_prog c) (uc_sw c) (uc_rw c) (uc_mtx c).
Definition k_mtx (c : ucore) (m : option tid) : ucore :=
  mkUC (uc_pc c) (uc_cnt c) (uc_slot c) (uc_seq c) (uc_taken c) (uc_log c) (uc_closed c) (uc_now c)
       (uc_prog c) (uc_sw c) (uc_rw c) m.
Definition k_sw (c : ucore) (x : Z) : ucore :=
  mkUC (uc_pc c) (uc_cnt c) (uc_slot c) (uc_seq c) (uc_taken c) (uc_log c) (uc_closed c) (uc_now c)
       (uc_prog c) x (uc_rw c) (uc_mtx c).
Definition k_rw (c : ucore) (x : Z) : ucore :=
  mkUC (uc_pc c) (uc_cnt c) (uc_slot c) (uc_seq c) (uc_taken c) (uc_log c) (uc_closed c) (uc_now c)
       (uc_prog c) (uc_sw c) x (uc_mtx c).
Definition k_closed (c : ucore) : ucore :=
  mkUC (uc_pc c) (uc_cnt c) (uc_slot c) (uc_seq c) (uc_taken c) (uc_log c) true (uc_now c)
       (uc_prog c) (uc_sw c) (uc_rw c) (uc_mtx c).
Definition k_now (c : ucore) (x : Z) : ucore :=
  mkUC (uc_pc c) (uc_cnt c) (uc_slot c) (uc_seq c) (uc_taken c) (uc_log c) (uc_closed c) x
       (uc_prog c) (uc_sw c) (uc_rw c) (uc_mtx c).
Definition k_slot (c : ucore) (o : option val) : ucore :=
  mkUC (uc_pc c) (uc_cnt c) o (uc_seq c) (uc_taken c) (uc_log c) (uc_closed c) (uc_now c)
       (uc_prog c) (uc_sw c) (uc_rw c) (uc_mtx c).
Definition k_take (c : ucore) (v : val) : ucore :=          (* repaired code: seq + 1 *)
  mkUC (uc_pc c) (uc_cnt c) None (S (uc_seq c)) (uc_taken c ++ [v]) (uc_log c) (uc_closed c) (uc_now c)
       (uc_prog c) (uc_sw c) (uc_rw c) (uc_mtx c).
Definition k_finish (c : ucore) (t : tid) (k : opkind) (v : option val) (r : res) (e : Z) : ucore :=
  mkUC (upd (uc_pc c) t UIdle) (uc_cnt c) (uc_slot c) (uc_seq c) (uc_taken c)
       (mkEv t k v r (uc_now c) e O :: uc_log c) (uc_closed c) (uc_now c)
       (upd (uc_prog c) t (tl (uc_prog c t))) (uc_sw c) (uc_rw c) (uc_mtx c).
Definition k_ret_send (c : ucore) (t : tid) (v : val) (r : res) (e : Z) : ucore :=
  k_finish (k_mtx (k_sw c (uc_sw c - 1)) None) t KSend (Some v) r e.
Definition k_ret_recv (c : ucore) (t : tid) (v : option val) (r : res) (e : Z) : ucore :=
  k_finish (k_mtx (k_rw c (uc_rw c - 1)) None) t KRecv v r e.
Definition kfree (c : ucore) : bool := negb (is_some (uc_mtx c)).

(* the step function of the REPAIRED code on the core; to = the wake-up was the timeout *)
Definition ucstep (c : ucore) (t : tid) (to : bool) : option ucore :=
    match uc_pc c t with
    | UIdle =>
        match uc_prog c t with
        | [] => None
        | OSend d :: _ => Some (k_goto (k_cnt c t) t (US_lock (t, uc_cnt c t) (timeout_of (uc_now c) d)))
        | ORecv d :: _ => Some (k_goto c t (UR_lock (timeout_of (uc_now c) d)))
        | OTrySend :: _ => Some (k_goto (k_cnt c t) t (UTS_lock (t, uc_cnt c t)))
        | OTryRecv :: _ => Some (k_goto c t UTR_lock)
        | OClose :: _ => Some (k_goto c t UC_x)
        | OYield :: _ => Some (k_finish c t KYield None ROk 0)
        end
    | US_lock v e =>
        if kfree c then Some (k_goto (k_sw (k_mtx c (Some t)) (uc_sw c + 1)) t (US_l1 v e)) else None
    | US_l1 v e =>
        if uc_closed c then Some (k_goto c t (US_ck v e))
        else if (uc_rw c =? 0) || is_some (uc_slot c) then
               if expired (uc_now c) e then Some (k_ret_send c t v RTimeout e)
               else Some (k_goto (k_mtx c None) t (US_w1 v e))
             else Some (k_goto c t (US_ck v e))
    | US_w1 v e =>
        if kfree c then
          if to then Some (k_ret_send (k_mtx c (Some t)) t v RTimeout e)
          else Some (k_goto (k_mtx c (Some t)) t (US_l1 v e))
        else None
    | US_ck v e =>
        if uc_closed c then Some (k_ret_send c t v RClosed e)
        else Some (k_goto (k_slot c (Some v)) t (US_l2 v e (uc_seq c)))
    | US_l2 v e q =>
        if negb (Nat.eqb (uc_seq c) q) then Some (k_goto c t (US_rt v e q))
        else if uc_closed c then Some (k_goto c t (US_rt v e q))
        else if expired (uc_now c) e then Some (k_ret_send (k_slot c None) t v RTimeout e)
        else Some (k_goto (k_mtx c None) t (US_w2 v e q))
    | US_w2 v e q =>
        if kfree c then Some (k_goto (k_mtx c (Some t)) t (US_l2 v e q)) else None
    | US_rt v e q =>
        Some (k_ret_send c t v (if negb (Nat.eqb (uc_seq c) q) then ROk else RClosed) e)
    | UR_lock e =>
        if kfree c then Some (k_goto (k_rw (k_mtx c (Some t)) (uc_rw c + 1)) t (UR_l e)) else None
    | UR_l e =>
        match uc_slot c with
        | Some v => Some (k_ret_recv (k_take c v) t (Some v) ROk e)
        | None =>
            if uc_closed c then Some (k_ret_recv c t None RClosed e)
            else if expired (uc_now c) e then Some (k_ret_recv c t None RTimeout e)
            else Some (k_goto (k_mtx c None) t (UR_w e))
        end
    | UR_w e =>
        if kfree c then
          if to then Some (k_ret_recv (k_mtx c (Some t)) t None RTimeout e)
          else Some (k_goto (k_mtx c (Some t)) t (UR_l e))
        else None
    | UTS_lock v => if kfree c then Some (k_goto (k_mtx c (Some t)) t (UTS_ck v)) else None
    | UTS_ck v =>
        if uc_closed c then Some (k_finish (k_mtx c None) t KTrySend (Some v) RClosed 0)
        else if (0 <? uc_rw c) && negb (is_some (uc_slot c))
        then Some (k_finish (k_mtx (k_slot c (Some v)) None) t KTrySend (Some v) ROk 0)
        else Some (k_finish (k_mtx c None) t KTrySend (Some v) RNo 0)
    | UTR_lock =>
        if kfree c then
          match uc_slot c with
          | Some v => Some (k_finish (k_mtx (k_take c v) None) t KTryRecv (Some v) ROk 0)
          | None => Some (k_finish c t KTryRecv None RNo 0)
          end
        else None
    | UC_x =>
        if uc_closed c then Some (k_finish c t KClose None ROk 0)
        else Some (k_goto (k_closed c) t UC_lock)
    | UC_lock =>
        if kfree c then Some (k_finish (k_mtx c None) t KClose None ROk 0) else None
    end.

Lemma goto_core s t p : ucore_of (goto s t p) = k_goto (ucore_of s) t p.
Proof. reflexivity. Qed.
Lemma ret_send_core s t v r e : ucore_of (ret_send s t v r e) = k_ret_send (ucore_of s) t v r e.
Proof. reflexivity. Qed.
Lemma ret_recv_core s t v r e : ucore_of (ret_recv s t v r e) = k_ret_recv (ucore_of s) t v r e.
Proof. reflexivity. Qed.
Lemma finish_core s t k v r e : ucore_of (finish s t k v r e) = k_finish (ucore_of s) t k v r e.
Proof. reflexivity. Qed.
Lemma unlock_core s : ucore_of (unlock s) = k_mtx (ucore_of s) None.
Proof. reflexivity. Qed.
Lemma lock_core s t : ucore_of (lock s t) = k_mtx (ucore_of s) (Some t).
Proof. reflexivity. Qed.
Lemma deposit_core s v : ucore_of (deposit s v) = k_slot (ucore_of s) (Some v).
Proof. unfold deposit. rewrite notify_one_r_core. reflexivity. Qed.
Lemma take_core s v : ucore_of (take true s v) = k_take (ucore_of s) v.
Proof. unfold take. rewrite notify_all_s_core. reflexivity. Qed.
Lemma wait_s_core s t e p : ucore_of (wait_s s t e p) = k_goto (k_mtx (ucore_of s) None) t p.
Proof. reflexivity. Qed.
Lemma wait_r_core s t e p : ucore_of (wait_r s t e p) = k_goto (k_mtx (ucore_of s) None) t p.
Proof. reflexivity. Qed.
Lemma set_u_w_core s x : ucore_of (set_u_w s x) = ucore_of s. Proof. reflexivity. Qed.
Lemma set_u_sw_core s x : ucore_of (set_u_sw s x) = k_sw (ucore_of s) x. Proof. reflexivity. Qed.
Lemma set_u_rw_core s x : ucore_of (set_u_rw s x) = k_rw (ucore_of s) x. Proof. reflexivity. Qed.
Lemma set_u_slot_core s x : ucore_of (set_u_slot s x) = k_slot (ucore_of s) x. Proof. reflexivity. Qed.
Lemma set_u_cnt_core s t : ucore_of (set_u_cnt s (upd (u_cnt s) t (S (u_cnt s t)))) = k_cnt (ucore_of s) t.
Proof. reflexivity. Qed.
Lemma set_u_closed_core s : ucore_of (set_u_closed s true) = k_closed (ucore_of s). Proof. reflexivity. Qed.

Lemma ustep_core s t s' :
  ustep true s t = Some s' -> exists to, ucstep (ucore_of s) t to = Some (ucore_of s').
Proof.
  unfold ustep, ucstep. intros H.
  destruct (u_w s t) as [| |b] eqn:Ew; [|discriminate|].
  all: change (uc_pc (ucore_of s) t) with (u_pc s t); destruct (u_pc s t) eqn:Epc.
  all: change (kfree (ucore_of s)) with (mfree s).
  all: cbn [uc_prog uc_closed uc_now uc_slot uc_seq uc_sw uc_rw uc_cnt ucore_of] in *.
  all: try (destruct (u_prog s t) as [|[] ?]; [discriminate|..]).
  all: cbn [timedout] in H.
  all: repeat match type of H with
       | context [if ?b then _ else _] => destruct b eqn:?
       | context [match u_slot ?s with _ => _ end] => destruct (u_slot s) eqn:?
       end.
  all: inversion H; subst; clear H.
  all: first [ solve [exists false;
                      repeat progress rewrite ?goto_core, ?ret_send_core, ?ret_recv_core, ?finish_core, ?unlock_core, ?wait_s_core, ?wait_r_core,
                              ?deposit_core, ?take_core, ?notify_all_s_core, ?notify_all_r_core, ?notify_one_s_core,
                              ?notify_one_r_core, ?set_u_w_core, ?set_u_sw_core, ?set_u_rw_core, ?set_u_slot_core,
                              ?set_u_cnt_core, ?set_u_closed_core, ?lock_core, ?unlock_core, ?take_core, ?lock_core; reflexivity]
             | solve [exists true;
                      rewrite ?goto_core, ?ret_send_core, ?ret_recv_core, ?finish_core, ?unlock_core,
                              ?set_u_w_core, ?lock_core; reflexivity]
             | idtac "REMAINING" ].
Qed.

Lemma utimer_core s t s' : utimer s t = Some s' -> ucore_of s' = ucore_of s.
Proof.
  unfold utimer. destruct (u_w s t); try discriminate. destruct (_ <=? _); [|discriminate].
  intros H; inversion H; reflexivity.
Qed.

(* ---- the invariant (repaired code) ------------------------------------------------------------ *)
Definition holds (p : upc) : bool :=
  match p with US_l1 _ _ | US_ck _ _ | US_l2 _ _ _ | US_rt _ _ _ | UR_l _ | UTS_ck _ => true | _ => false end.
Inductive phase : Type := Pre | Post (q : nat).
Definition usending (p : upc) : option (val * phase) :=
  match p with
  | US_lock v _ | US_l1 v _ | US_w1 v _ | US_ck v _ | UTS_lock v | UTS_ck v => Some (v, Pre)
  | US_l2 v _ q | US_w2 v _ q | US_rt v _ q => Some (v, Post q)
  | _ => None
  end.
(* what has been deposited and not withdrawn: the values taken, then the one in the slot *)
Definition chan (c : ucore) : list val := uc_taken c ++ opt_list (uc_slot c).
Definition udone (c : ucore) (t : tid) : nat :=
  match usending (uc_pc c t) with Some _ => pred (uc_cnt c t) | None => uc_cnt c t end.

Definition usend_ev_ok (c : ucore) (e : event) : Prop :=
  is_sendk (e_k e) = true ->
  exists n, e_v e = Some (e_t e, n) /\ (n < udone c (e_t e))%nat /\
            (e_r e = ROk -> e_k e = KSend -> In (e_t e, n) (uc_taken c)) /\
            (e_r e = ROk -> In (e_t e, n) (chan c)) /\
            (e_r e = RTimeout \/ e_r e = RNo -> ~ In (e_t e, n) (chan c)).

(* facts a thread holding the mutex has established at its current pc *)
Definition local_ok (c : ucore) (p : upc) : Prop :=
  match p with
  | US_ck _ _ => uc_closed c = true \/ uc_slot c = None
  | US_rt _ _ q => q <> uc_seq c \/ uc_closed c = true
  | _ => True
  end.

Record UInv (c : ucore) : Prop := mkUInv {
  u_mx : forall t, holds (uc_pc c t) = true <-> uc_mtx c = Some t;
  u_ck : forall t, local_ok c (uc_pc c t);
  u_val : forall t v ph, usending (uc_pc c t) = Some (v, ph) ->
            v = (t, pred (uc_cnt c t)) /\ (0 < uc_cnt c t)%nat /\
            match ph with
            | Pre => ~ In v (chan c)
            | Post q => (q = uc_seq c /\ uc_slot c = Some v /\ ~ In v (uc_taken c)) \/
                        ((q < uc_seq c)%nat /\ In v (uc_taken c))
            end;
  u_bound : forall t n, In (t, n) (chan c) -> (n < uc_cnt c t)%nat;
  u_nodup : NoDup (chan c);
  u_logok : Forall (usend_ev_ok c) (uc_log c);
  u_sorted : sender_sorted (chan c);
  u_recv : recv_vals (uc_log c) = rev (uc_taken c);
  u_closedr : Forall (fun e => e_r e = RClosed -> uc_closed c = true) (uc_log c)
}.

Lemma uinv_init progs now0 : UInv (ucore_of (u_init progs now0)).
Proof.
  constructor; cbn; try discriminate; try constructor; try contradiction; try discriminate.
  - intros l1 x l2 H. destruct l1; discriminate.
Qed.

Lemma usend_ev_ok_ext c c' :
  uc_taken c' = uc_taken c -> uc_slot c' = uc_slot c -> (forall t, udone c t <= udone c' t)%nat ->
  forall e, usend_ev_ok c e -> usend_ev_ok c' e.
Proof.
  intros Ht Hs Hd e H Hk. destruct (H Hk) as (n & A & B & C). exists n. unfold chan in *. rewrite Ht, Hs.
  split; auto. split; auto. specialize (Hd (e_t e)). lia.
Qed.

(* changes of the counters / clock / closed flag *)
Lemma uinv_frame c c' :
  UInv c -> uc_pc c' = uc_pc c -> uc_cnt c' = uc_cnt c -> uc_slot c' = uc_slot c -> uc_seq c' = uc_seq c ->
  uc_taken c' = uc_taken c -> uc_log c' = uc_log c -> uc_mtx c' = uc_mtx c ->
  (uc_closed c = true -> uc_closed c' = true) -> UInv c'.
Proof.
  intros I H1 H2 H3 H4 H5 H6 H7 H8. destruct I.
  assert (Hd : forall t, udone c' t = udone c t) by (intros; unfold udone; rewrite H1, H2; reflexivity).
  assert (Hc : chan c' = chan c) by (unfold chan; rewrite H3, H5; reflexivity).
  constructor; rewrite ?Hc, ?H1, ?H2, ?H3, ?H4, ?H5, ?H6, ?H7; auto.
  - intros t. specialize (u_ck0 t). unfold local_ok in *. rewrite H3, H4. destruct (uc_pc c t); auto; destruct u_ck0; auto.
  - eapply Forall_impl; [|exact u_logok0]. apply usend_ev_ok_ext; auto. intros; rewrite Hd; lia.
  - eapply Forall_impl; [|exact u_closedr0]. cbn. auto.
Qed.
Lemma uinv_sw c x : UInv c -> UInv (k_sw c x). Proof. intros; eapply uinv_frame; eauto. Qed.
Lemma uinv_rw c x : UInv c -> UInv (k_rw c x). Proof. intros; eapply uinv_frame; eauto. Qed.
Lemma uinv_now c x : UInv c -> UInv (k_now c x). Proof. intros; eapply uinv_frame; eauto. Qed.
Lemma uinv_closed c : UInv c -> UInv (k_closed c). Proof. intros; eapply uinv_frame; eauto. Qed.

Lemma udone_goto c t p t0 m :
  usending p = usending (uc_pc c t) -> udone (k_goto (k_mtx c m) t p) t0 = udone c t0.
Proof.
  intros H. unfold udone. cbn. unfold upd. destruct (Nat.eqb_spec t0 t); [subst; rewrite H|]; reflexivity.
Qed.

(* t moves inside one phase of its call, taking (a free) / keeping / releasing the mutex *)
Lemma uinv_move c t p m :
  UInv c -> usending p = usending (uc_pc c t) ->
  (uc_mtx c = None \/ uc_mtx c = Some t) ->
  m = (if holds p then Some t else None) ->
  local_ok c p ->
  UInv (k_goto (k_mtx c m) t p).
Proof.
  intros I Hs Hm Em Hck. destruct I.
  assert (Hoth : forall t0, t0 <> t -> holds (uc_pc c t0) = false).
  { intros t0 Hne. destruct (holds (uc_pc c t0)) eqn:E; auto. apply u_mx0 in E.
    destruct Hm as [Hm|Hm]; rewrite Hm in E; [discriminate|inversion E; congruence]. }
  constructor; cbn; auto.
  - intros t0. unfold upd. destruct (Nat.eqb_spec t0 t).
    + subst. destruct (holds p); split; auto; discriminate.
    + rewrite (Hoth _ n). split; [discriminate|]. subst m. destruct (holds p); intros E; inversion E. congruence.
  - intros t0. unfold upd. destruct (Nat.eqb_spec t0 t); [exact Hck|apply u_ck0].
  - intros t0 v ph. unfold upd. destruct (Nat.eqb_spec t0 t); [subst; rewrite Hs|]; apply u_val0.
  - eapply Forall_impl; [|exact u_logok0]. apply usend_ev_ok_ext; auto.
    intros t0. rewrite udone_goto; auto.
Qed.

Lemma udone_goto0 c t p t0 :
  usending p = usending (uc_pc c t) -> udone (k_goto c t p) t0 = udone c t0.
Proof.
  intros H. unfold udone. cbn. unfold upd. destruct (Nat.eqb_spec t0 t); [subst; rewrite H|]; reflexivity.
Qed.

Lemma uinv_goto c t p :
  UInv c -> usending p = usending (uc_pc c t) -> holds p = holds (uc_pc c t) ->
  local_ok c p ->
  UInv (k_goto c t p).
Proof.
  intros I Hs Hh Hck. destruct I. constructor; cbn; auto.
  - intros t0. unfold upd. destruct (Nat.eqb_spec t0 t); [subst; rewrite Hh|]; apply u_mx0.
  - intros t0. unfold upd. destruct (Nat.eqb_spec t0 t); [exact Hck|apply u_ck0].
  - intros t0 v ph. unfold upd. destruct (Nat.eqb_spec t0 t); [subst; rewrite Hs|]; apply u_val0.
  - eapply Forall_impl; [|exact u_logok0]. apply usend_ev_ok_ext; auto.
    intros t0. rewrite udone_goto0; auto.
Qed.

Lemma uinv_start c t p :
  UInv c -> uc_pc c t = UIdle -> usending p = Some ((t, uc_cnt c t), Pre) -> holds p = false ->
  holds p = false -> UInv (k_goto (k_cnt c t) t p).
Proof.
  intros I Hi Hs Hh Hck. destruct I. constructor; cbn; auto.
  - intros t0. unfold upd. destruct (Nat.eqb_spec t0 t); [subst; rewrite Hh|apply u_mx0].
    specialize (u_mx0 t). rewrite Hi in u_mx0. cbn in u_mx0. exact u_mx0.
  - intros t0. unfold upd. destruct (Nat.eqb_spec t0 t); [destruct p; try exact I; discriminate|apply u_ck0].
  - intros t0 v ph. unfold upd. destruct (Nat.eqb_spec t0 t).
    + subst. rewrite Hs. intros E; inversion E; subst. cbn. repeat split; try lia.
      intros Hin. apply u_bound0 in Hin. lia.
    + apply u_val0.
  - intros t0 n Hin. unfold upd. destruct (Nat.eqb_spec t0 t); [subst; apply u_bound0 in Hin; lia|auto].
  - eapply Forall_impl; [|exact u_logok0]. apply usend_ev_ok_ext; auto.
    intros t0. unfold udone. cbn. unfold upd. destruct (Nat.eqb_spec t0 t); [|lia].
    subst. rewrite Hs, Hi. cbn. lia.
Qed.

Lemma chan_slot_none c : uc_slot c = None -> chan c = uc_taken c.
Proof. intros H. unfold chan. rewrite H. apply app_nil_r. Qed.

(* the value of t goes into the (empty) slot; t continues at p (phase Post) or returns from
   try_send; handled by the two lemmas below through this core fact *)
Lemma uinv_deposit_val c t v :
  UInv c -> usending (uc_pc c t) = Some (v, Pre) -> uc_slot c = None ->
  let c1 := k_slot c (Some v) in
  chan c1 = uc_taken c ++ [v] /\ NoDup (chan c1) /\ sender_sorted (chan c1) /\
  (forall t0 n, In (t0, n) (chan c1) -> (n < uc_cnt c t0)%nat) /\
  ~ In v (uc_taken c) /\
  (forall t0 v0 ph, t0 <> t -> usending (uc_pc c t0) = Some (v0, ph) -> v0 <> v).
Proof.
  intros I Hs Hn c1. pose proof I as I0. destruct I.
  destruct (u_val0 _ _ _ Hs) as (Ev & Hpos & Hnin). rewrite (chan_slot_none _ Hn) in *.
  assert (Hc : chan c1 = uc_taken c ++ [v]) by reflexivity.
  split; [exact Hc|]. rewrite Hc. split; [apply NoDup_app_single; auto|]. split; [|split; [|split]].
  - intros l1 x l2 E y Hy Hf.
    destruct l2 as [|z l2'] using rev_ind.
    + apply app_inj_tail in E. destruct E as [E1 E2]. subst l1 x.
      destruct y as [ty ny]. rewrite Ev in Hf. cbn in Hf. subst ty. rewrite Ev. cbn.
      pose proof (u_bound0 _ _ Hy). assert (ny <> pred (uc_cnt c t)) by (intros ->; apply Hnin; rewrite Ev; exact Hy). lia.
    + clear IHl2'. rewrite app_comm_cons, app_assoc in E. apply app_inj_tail in E. destruct E as [E1 E2].
      eapply u_sorted0; eauto.
  - intros t0 n Hin. apply in_app_single in Hin. destruct Hin as [Hin|Hin]; auto.
    rewrite Ev in Hin. inversion Hin; subst. lia.
  - exact Hnin.
  - intros t0 v0 ph Hne E. destruct (u_val0 _ _ _ E) as (Ev0 & _). rewrite Ev0, Ev. intros X; inversion X. congruence.
Qed.

Lemma chan_goto c t p : chan (k_goto c t p) = chan c. Proof. reflexivity. Qed.
Lemma chan_finish c t k v r e : chan (k_finish c t k v r e) = chan c. Proof. reflexivity. Qed.
Lemma chan_mtx c m : chan (k_mtx c m) = chan c. Proof. reflexivity. Qed.

Lemma others_not_holding c t : UInv c -> (uc_mtx c = None \/ uc_mtx c = Some t) ->
  forall t0, t0 <> t -> holds (uc_pc c t0) = false.
Proof.
  intros I Hm t0 Hne. destruct (holds (uc_pc c t0)) eqn:E; auto. apply (u_mx _ I) in E.
  destruct Hm as [Hm|Hm]; rewrite Hm in E; [discriminate|inversion E; congruence].
Qed.

(* US_ck -> US_l2: the sender (holding the mutex) places its value in the empty slot *)
Lemma uinv_deposit_go c t v e :
  UInv c -> uc_pc c t = US_ck v e -> uc_closed c = false ->
  UInv (k_goto (k_slot c (Some v)) t (US_l2 v e (uc_seq c))).
Proof.
  intros I Epc Hcl. pose proof I as I0. destruct I.
  assert (Hs : usending (uc_pc c t) = Some (v, Pre)) by (rewrite Epc; reflexivity).
  assert (Hn : uc_slot c = None) by (pose proof (u_ck0 t) as X; rewrite Epc in X; destruct X; congruence).
  assert (Hm : uc_mtx c = Some t) by (apply u_mx0; rewrite Epc; reflexivity).
  destruct (uinv_deposit_val c t v I0 Hs Hn) as (Hc & Hnd & Hso & Hbd & Hnt & Hov).
  destruct (u_val0 _ _ _ Hs) as (Ev & Hpos & _).
  pose proof (others_not_holding c t I0 (or_intror Hm)) as Hoth.
  constructor; auto.
  - cbn. intros t0. unfold upd. destruct (Nat.eqb_spec t0 t); [subst; cbn; tauto|apply u_mx0].
  - intros t0. unfold local_ok. cbn. unfold upd. destruct (Nat.eqb_spec t0 t); [exact I|].
    specialize (Hoth _ n). destruct (uc_pc c t0); try exact I; discriminate.
  - intros t0 v0 ph. cbn [uc_pc k_goto k_slot uc_cnt uc_seq uc_slot uc_taken]. unfold upd.
    destruct (Nat.eqb_spec t0 t).
    + subst. cbn. intros E; inversion E; subst. repeat split; auto.
    + intros E. destruct (u_val0 _ _ _ E) as (A & B & C). repeat split; auto. destruct ph.
      * rewrite chan_goto, Hc. rewrite (chan_slot_none _ Hn) in C.
        intros X. apply in_app_single in X. destruct X as [X|X]; [auto|]. eapply Hov; eauto.
      * destruct C as [(C1 & C2 & C3)|C]; [congruence|]. right. exact C.
  - eapply Forall_impl; [|exact u_logok0]. intros ev H Hk. destruct (H Hk) as (n & A & B & C1 & C2 & C3).
    exists n. split; [exact A|]. split.
    { unfold udone in *. cbn. unfold upd. destruct (Nat.eqb_spec (e_t ev) t) as [Eq|Ne]; [|exact B].
      rewrite Eq in *. rewrite Hs in B. cbn. exact B. }
    split; [exact C1|]. rewrite chan_goto, Hc. rewrite (chan_slot_none _ Hn) in *.
    split; [intros X; apply in_app_single; left; auto|].
    intros X Y. apply in_app_single in Y. destruct Y as [Y|Y]; [exact (C3 X Y)|].
    rewrite Ev in Y. inversion Y. subst n. unfold udone in B. rewrite H1, Hs in B. lia.
Qed.

(* UTS_ck: try_send places its value and returns true *)
Lemma uinv_deposit_fin c t v :
  UInv c -> uc_pc c t = UTS_ck v -> uc_slot c = None ->
  UInv (k_finish (k_mtx (k_slot c (Some v)) None) t KTrySend (Some v) ROk 0).
Proof.
  intros I Epc Hn. pose proof I as I0. destruct I.
  assert (Hs : usending (uc_pc c t) = Some (v, Pre)) by (rewrite Epc; reflexivity).
  assert (Hm : uc_mtx c = Some t) by (apply u_mx0; rewrite Epc; reflexivity).
  destruct (uinv_deposit_val c t v I0 Hs Hn) as (Hc & Hnd & Hso & Hbd & Hnt & Hov).
  destruct (u_val0 _ _ _ Hs) as (Ev & Hpos & _).
  pose proof (others_not_holding c t I0 (or_intror Hm)) as Hoth.
  constructor; auto.
  - cbn. intros t0. unfold upd. destruct (Nat.eqb_spec t0 t); [subst; cbn; split; discriminate|].
    rewrite (Hoth _ n). split; discriminate.
  - intros t0. unfold local_ok. cbn. unfold upd. destruct (Nat.eqb_spec t0 t); [exact I|].
    specialize (Hoth _ n). destruct (uc_pc c t0); try exact I; discriminate.
  - intros t0 v0 ph. cbn [uc_pc k_finish k_mtx k_slot uc_cnt uc_seq uc_slot uc_taken]. unfold upd.
    destruct (Nat.eqb_spec t0 t); [discriminate|].
    intros E. destruct (u_val0 _ _ _ E) as (A & B & C). repeat split; auto. destruct ph.
    + rewrite chan_finish, chan_mtx, Hc. rewrite (chan_slot_none _ Hn) in C.
      intros X. apply in_app_single in X. destruct X as [X|X]; [auto|]. eapply Hov; eauto.
    + destruct C as [(C1 & C2 & C3)|C]; [congruence|]. right. exact C.
  - cbn [uc_log k_finish]. constructor.
    + intros _. cbn [e_t e_v e_r e_k]. exists (pred (uc_cnt c t)). rewrite <- Ev. split; [reflexivity|]. split.
      * unfold udone. cbn. rewrite upd_same. cbn. lia.
      * split; [discriminate|]. split; [|intros [X|X]; discriminate].
        intros _. rewrite chan_finish, chan_mtx, Hc. apply in_app_single. auto.
    + eapply Forall_impl; [|exact u_logok0]. intros ev H Hk. destruct (H Hk) as (n & A & B & C1 & C2 & C3).
      exists n. split; [exact A|]. split.
      { unfold udone in *. cbn. unfold upd. destruct (Nat.eqb_spec (e_t ev) t); [|exact B].
        rewrite e in *. rewrite Hs in B. cbn. lia. }
      split; [exact C1|]. rewrite chan_finish, chan_mtx, Hc. rewrite (chan_slot_none _ Hn) in *.
      split; [intros X; apply in_app_single; left; auto|].
      intros X Y. apply in_app_single in Y. destruct Y as [Y|Y]; [exact (C3 X Y)|].
      rewrite Ev in Y. inversion Y. subst n. unfold udone in B. rewrite H1, Hs in B. lia.
  - cbn. constructor; [discriminate|exact u_closedr0].
Qed.

(* a receiver (recv holding the mutex, or try_recv taking a free mutex) takes the value and returns *)
Lemma uinv_take c t v k e :
  UInv c -> uc_slot c = Some v -> usending (uc_pc c t) = None ->
  (uc_mtx c = None \/ uc_mtx c = Some t) -> is_recvk k = true -> is_sendk k = false ->
  UInv (k_finish (k_mtx (k_take c v) None) t k (Some v) ROk e).
Proof.
  intros I Hsl Hs Hm Hk Hk2. pose proof I as I0. destruct I.
  pose proof (others_not_holding c t I0 Hm) as Hoth.
  assert (Hc : chan c = uc_taken c ++ [v]) by (unfold chan; rewrite Hsl; reflexivity).
  assert (Hc' : chan (k_finish (k_mtx (k_take c v) None) t k (Some v) ROk e) = uc_taken c ++ [v])
    by (unfold chan; cbn; apply app_nil_r).
  constructor; rewrite ?Hc'; try (rewrite <- Hc; assumption).
  - cbn. intros t0. unfold upd. destruct (Nat.eqb_spec t0 t); [subst; cbn; split; discriminate|].
    rewrite (Hoth _ n). split; discriminate.
  - intros t0. unfold local_ok. cbn. unfold upd. destruct (Nat.eqb_spec t0 t); [exact I|].
    specialize (Hoth _ n). destruct (uc_pc c t0); try exact I; discriminate.
  - intros t0 v0 ph E. cbn in E. unfold upd in E.
    destruct (Nat.eqb_spec t0 t); [discriminate|].
    destruct (u_val0 _ _ _ E) as (A & B & C). split; [exact A|]. split; [exact B|]. destruct ph.
    + rewrite <- Hc. exact C.
    + right. cbn. destruct C as [(C1 & C2 & C3)|(C1 & C2)].
      * rewrite Hsl in C2. inversion C2. subst. split; [lia|]. apply in_app_single. auto.
      * split; [lia|]. apply in_app_single. auto.
  - cbn [uc_log k_finish]. constructor; [intros X; cbn in X; congruence|].
    eapply Forall_impl; [|exact u_logok0]. intros ev H Hke. destruct (H Hke) as (n & A & B & C1 & C2 & C3).
    exists n. split; [exact A|]. split.
    { unfold udone in *. cbn. unfold upd. destruct (Nat.eqb_spec (e_t ev) t) as [Eq|Ne]; [|exact B].
      rewrite Eq in *. rewrite Hs in B. cbn. exact B. }
    rewrite Hc', <- Hc. cbn [uc_taken k_finish k_mtx k_take]. split; [|split; assumption].
    intros X Y. apply in_app_single. left. auto.
  - cbn. rewrite Hk. cbn. rewrite u_recv0, rev_app_distr. reflexivity.
  - cbn. constructor; [discriminate|exact u_closedr0].
Qed.

(* the sender's Timeout expires while its value is still in the slot: it withdraws the value *)
Lemma uinv_withdraw c t v e q :
  UInv c -> uc_pc c t = US_l2 v e q -> q = uc_seq c ->
  UInv (k_finish (k_mtx (k_slot c None) None) t KSend (Some v) RTimeout e).
Proof.
  intros I Epc Hq. pose proof I as I0. destruct I.
  assert (Hs : usending (uc_pc c t) = Some (v, Post q)) by (rewrite Epc; reflexivity).
  assert (Hm : uc_mtx c = Some t) by (apply u_mx0; rewrite Epc; reflexivity).
  pose proof (others_not_holding c t I0 (or_intror Hm)) as Hoth.
  destruct (u_val0 _ _ _ Hs) as (Ev & Hpos & [(_ & Hsl & Hnt)|(Hlt & _)]); [|lia].
  assert (Hc : chan c = uc_taken c ++ [v]) by (unfold chan; rewrite Hsl; reflexivity).
  assert (Hc' : chan (k_finish (k_mtx (k_slot c None) None) t KSend (Some v) RTimeout e) = uc_taken c)
    by (unfold chan; cbn; apply app_nil_r).
  assert (Hsub : forall x, In x (uc_taken c) -> In x (chan c)) by (intros; rewrite Hc; apply in_app_single; auto).
  constructor; rewrite ?Hc'.
  - cbn. intros t0. unfold upd. destruct (Nat.eqb_spec t0 t); [subst; cbn; split; discriminate|].
    rewrite (Hoth _ n). split; discriminate.
  - intros t0. unfold local_ok. cbn. unfold upd. destruct (Nat.eqb_spec t0 t); [exact I|].
    specialize (Hoth _ n). destruct (uc_pc c t0); try exact I; discriminate.
  - intros t0 v0 ph E. cbn in E. unfold upd in E.
    destruct (Nat.eqb_spec t0 t); [discriminate|].
    destruct (u_val0 _ _ _ E) as (A & B & C). split; [exact A|]. split; [exact B|]. destruct ph.
    + intros X. apply C. auto.
    + cbn. destruct C as [(C1 & C2 & C3)|C]; [|right; exact C].
      exfalso. assert (Hv : v0 = v) by congruence. rewrite A, Ev in Hv. inversion Hv. congruence.
  - intros t0 n Hin. apply u_bound0. auto.
  - rewrite Hc in u_nodup0. apply NoDup_remove_1 in u_nodup0. rewrite app_nil_r in u_nodup0. exact u_nodup0.
  - cbn [uc_log k_finish]. constructor.
    + intros _. cbn [e_t e_v e_r e_k]. exists (pred (uc_cnt c t)). rewrite <- Ev. split; [reflexivity|]. split.
      * unfold udone. cbn. rewrite upd_same. cbn. lia.
      * rewrite Hc'. split; [discriminate|]. split; [discriminate|]. intros _. exact Hnt.
    + eapply Forall_impl; [|exact u_logok0]. intros ev H Hke. destruct (H Hke) as (n & A & B & C1 & C2 & C3).
      exists n. split; [exact A|]. split.
      { unfold udone in *. cbn. unfold upd. destruct (Nat.eqb_spec (e_t ev) t) as [Eq|Ne]; [|exact B].
        rewrite Eq in *. rewrite Hs in B. cbn. lia. }
      rewrite Hc'. cbn [uc_taken k_finish k_mtx k_slot]. split; [exact C1|]. split.
      * intros X. specialize (C2 X). rewrite Hc in C2. apply in_app_single in C2. destruct C2 as [C2|C2]; [exact C2|].
        exfalso. rewrite Ev in C2. inversion C2. subst n. unfold udone in B. rewrite H1, Hs in B. lia.
      * intros X Y. apply (C3 X). auto.
  - intros l1 x l2 E y Hy Hf. eapply (u_sorted0 l1 x (l2 ++ [v])); eauto. rewrite Hc, E, <- app_assoc. reflexivity.
  - cbn. exact u_recv0.
  - cbn. constructor; [discriminate|exact u_closedr0].
Qed.

(* an operation returns without touching the slot *)
Lemma uinv_finish_gen c c1 t k ov r e :
  UInv c ->
  uc_pc c1 = uc_pc c -> uc_cnt c1 = uc_cnt c -> uc_slot c1 = uc_slot c -> uc_seq c1 = uc_seq c ->
  uc_taken c1 = uc_taken c -> uc_log c1 = uc_log c -> uc_closed c1 = uc_closed c ->
  ((uc_mtx c1 = None /\ (uc_mtx c = None \/ uc_mtx c = Some t)) \/
   (uc_mtx c1 = uc_mtx c /\ holds (uc_pc c t) = false)) ->
  match usending (uc_pc c t) with
  | Some (v, ph) => is_sendk k = true /\ ov = Some v /\
                    (r = ROk -> (k = KSend -> In v (uc_taken c)) /\ In v (chan c)) /\
                    (r = RTimeout \/ r = RNo -> ~ In v (chan c))
  | None => is_sendk k = false
  end ->
  (is_recvk k = true -> r <> ROk) ->
  (r = RClosed -> uc_closed c = true) ->
  UInv (k_finish c1 t k ov r e).
Proof.
  intros I H1 H2 H3 H4 H5 H6 H7 Hm Hs Hr Hc. pose proof I as I0. destruct I.
  assert (Hch : chan (k_finish c1 t k ov r e) = chan c) by (unfold chan; cbn; rewrite H3, H5; reflexivity).
  constructor; rewrite ?Hch; auto.
  - cbn. intros t0. unfold upd. destruct (Nat.eqb_spec t0 t).
    + subst. cbn. split; [discriminate|]. intros E. destruct Hm as [[Hm _]|[Hm Hh]]; [congruence|].
      rewrite Hm in E. apply u_mx0 in E. congruence.
    + rewrite H1. destruct Hm as [[Hm Hm2]|[Hm Hh]].
      * rewrite Hm. rewrite (others_not_holding c t I0 Hm2 _ n). split; discriminate.
      * rewrite Hm. apply u_mx0.
  - intros t0. unfold local_ok. cbn. unfold upd. destruct (Nat.eqb_spec t0 t); [exact I|].
    rewrite H1, H7, H3, H4. apply u_ck0.
  - intros t0 v0 ph E. cbn in E. unfold upd in E. destruct (Nat.eqb_spec t0 t); [discriminate|].
    rewrite H1 in E. destruct (u_val0 _ _ _ E) as (A & B & C). cbn. rewrite H2, H3, H4, H5.
    split; [exact A|]. split; [exact B|]. destruct ph; auto.
  - cbn. rewrite H2. exact u_bound0.
  - cbn [uc_log k_finish]. rewrite H6. constructor.
    + intros Hk. cbn in Hk. cbn [e_t e_v e_r e_k].
      destruct (usending (uc_pc c t)) as [[v ph]|] eqn:Es; [|congruence].
      destruct Hs as (_ & -> & Hok & Hno). destruct (u_val0 _ _ _ Es) as (Ev & Hpos & _).
      exists (pred (uc_cnt c t)). rewrite <- Ev. split; [reflexivity|]. split.
      * unfold udone. cbn. rewrite upd_same. cbn. rewrite H2. lia.
      * rewrite Hch. cbn. rewrite H5. split; [intros X Y; apply (Hok X); exact Y|]. split; [apply Hok|exact Hno].
    + eapply Forall_impl; [|exact u_logok0]. intros ev H Hke. destruct (H Hke) as (n & A & B & C).
      exists n. split; [exact A|]. split.
      { unfold udone in *. cbn. unfold upd. rewrite H1, H2. destruct (Nat.eqb_spec (e_t ev) t) as [Eq|Ne]; [|exact B].
        rewrite Eq in *. cbn. destruct (usending (uc_pc c t)); lia. }
      rewrite Hch. cbn. rewrite H5. exact C.
  - cbn. rewrite H6, H5. destruct (is_recvk k) eqn:Ek; cbn; [|exact u_recv0].
    destruct r; cbn; try exact u_recv0. exfalso. apply Hr; reflexivity.
  - cbn. rewrite H6, H7. constructor; [exact Hc|exact u_closedr0].
Qed.

Lemma kfree_none c : kfree c = true -> uc_mtx c = None.
Proof. unfold kfree. destruct (uc_mtx c); [discriminate|reflexivity]. Qed.

Ltac fin_gen c0 :=
  eapply (uinv_finish_gen c0); try reflexivity; auto.

Lemma uinv_ucstep c t to c' : UInv c -> ucstep c t to = Some c' -> UInv c'.
Proof.
  intros I H. pose proof I as I0. destruct I. unfold ucstep in H.
  destruct (uc_pc c t) eqn:Epc.
  - (* UIdle *)
    destruct (uc_prog c t) as [|[] ?]; [discriminate|..]; inversion H; subst; clear H.
    + apply uinv_start; auto.
    + apply uinv_goto; auto; rewrite ?Epc; cbn; auto.
    + apply uinv_start; auto.
    + apply uinv_goto; auto; rewrite ?Epc; cbn; auto.
    + apply uinv_goto; auto; rewrite ?Epc; cbn; auto.
    + fin_gen c; rewrite ?Epc; cbn; auto; try discriminate.
  - (* US_lock *)
    destruct (kfree c) eqn:Ef; [|discriminate]. inversion H; subst; clear H. apply kfree_none in Ef.
    change (UInv (k_goto (k_mtx (k_sw c (uc_sw c + 1)) (Some t)) t (US_l1 v e))).
    apply uinv_move; try apply uinv_sw; auto; cbn; rewrite ?Epc; auto.
  - (* US_l1 *)
    assert (Hm : uc_mtx c = Some t) by (apply u_mx0; rewrite Epc; reflexivity).
    destruct (u_val0 t v Pre) as (Ev & Hpos & Hnin); [rewrite Epc; reflexivity|].
    destruct (uc_closed c) eqn:Ecl.
    { inversion H; subst; clear H. apply uinv_goto; auto; rewrite ?Epc; cbn; auto. }
    destruct ((uc_rw c =? 0) || is_some (uc_slot c)) eqn:Ew.
    + destruct (expired (uc_now c) e).
      * inversion H; subst; clear H. unfold k_ret_send.
        fin_gen (k_sw c (uc_sw c - 1)); try apply uinv_sw; auto; cbn; rewrite ?Epc; cbn; auto; try discriminate.
        all: try solve [repeat split; auto; discriminate].
      * inversion H; subst; clear H. apply uinv_move; auto; rewrite ?Epc; cbn; auto.
    + inversion H; subst; clear H. apply uinv_goto; auto; rewrite ?Epc; cbn; auto.
      apply orb_false_elim in Ew. destruct Ew as [_ Ew]. right. destruct (uc_slot c); [discriminate|reflexivity].
  - (* US_w1 *)
    destruct (kfree c) eqn:Ef; [|discriminate]. apply kfree_none in Ef.
    destruct (u_val0 t v Pre) as (Ev & Hpos & Hnin); [rewrite Epc; reflexivity|].
    destruct to; inversion H; subst; clear H.
    + unfold k_ret_send.
      fin_gen (k_sw c (uc_sw c - 1)); try apply uinv_sw; auto; cbn; rewrite ?Epc; cbn; auto; try discriminate.
      all: try solve [repeat split; auto; discriminate].
    + apply uinv_move; auto; rewrite ?Epc; cbn; auto.
  - (* US_ck *)
    assert (Hm : uc_mtx c = Some t) by (apply u_mx0; rewrite Epc; reflexivity).
    destruct (u_val0 t v Pre) as (Ev & Hpos & Hnin); [rewrite Epc; reflexivity|].
    destruct (uc_closed c) eqn:Ecl; inversion H; subst; clear H.
    + unfold k_ret_send.
      fin_gen (k_sw c (uc_sw c - 1)); try apply uinv_sw; auto; cbn; rewrite ?Epc; cbn; auto; try discriminate.
      all: try solve [repeat split; auto; try discriminate; intros [X|X]; discriminate].
    + eapply uinv_deposit_go; eauto.
  - (* US_l2 *)
    assert (Hm : uc_mtx c = Some t) by (apply u_mx0; rewrite Epc; reflexivity).
    destruct (Nat.eqb_spec (uc_seq c) q) as [Eq|Nq]; cbn [negb] in H.
    + destruct (uc_closed c) eqn:Ecl.
      { inversion H; subst; clear H. apply uinv_goto; auto; rewrite ?Epc; cbn; auto. }
      destruct (expired (uc_now c) e); inversion H; subst; clear H.
      * unfold k_ret_send.
        change (UInv (k_finish (k_mtx (k_slot (k_sw c (uc_sw c - 1)) None) None) t KSend (Some v) RTimeout e)).
        eapply uinv_withdraw; [apply uinv_sw; exact I0|cbn; exact Epc|reflexivity].
      * apply uinv_move; auto; rewrite ?Epc; cbn; auto.
    + inversion H; subst; clear H. apply uinv_goto; auto; rewrite ?Epc; cbn; auto.
  - (* US_w2 *)
    destruct (kfree c) eqn:Ef; [|discriminate]. apply kfree_none in Ef.
    inversion H; subst; clear H. apply uinv_move; auto; rewrite ?Epc; cbn; auto.
  - (* US_rt *)
    assert (Hm : uc_mtx c = Some t) by (apply u_mx0; rewrite Epc; reflexivity).
    destruct (u_val0 t v (Post q)) as (Ev & Hpos & Hph); [rewrite Epc; reflexivity|].
    pose proof (u_ck0 t) as Hl. rewrite Epc in Hl. cbn in Hl.
    inversion H; subst; clear H. unfold k_ret_send.
    fin_gen (k_sw c (uc_sw c - 1)); try apply uinv_sw; auto; cbn; rewrite ?Epc; cbn; auto.
    + destruct (Nat.eqb_spec (uc_seq c) q) as [Eq|Nq]; cbn.
      * repeat split; auto; try discriminate. intros [X|X]; discriminate.
      * destruct Hph as [(X & _)|(Hlt & Hin)]; [congruence|].
        repeat split; auto; try discriminate.
        -- unfold chan. apply in_or_app. left. exact Hin.
        -- intros [X|X]; discriminate.
    + discriminate.
    + destruct (Nat.eqb_spec (uc_seq c) q) as [Eq|Nq]; cbn; [|discriminate].
      intros _. destruct Hl as [Hl|Hl]; [congruence|exact Hl].
  - (* UR_lock *)
    destruct (kfree c) eqn:Ef; [|discriminate]. inversion H; subst; clear H. apply kfree_none in Ef.
    change (UInv (k_goto (k_mtx (k_rw c (uc_rw c + 1)) (Some t)) t (UR_l e))).
    apply uinv_move; try apply uinv_rw; auto; cbn; rewrite ?Epc; auto.
  - (* UR_l *)
    assert (Hm : uc_mtx c = Some t) by (apply u_mx0; rewrite Epc; reflexivity).
    destruct (uc_slot c) as [v|] eqn:Esl.
    + inversion H; subst; clear H. unfold k_ret_recv.
      change (UInv (k_finish (k_mtx (k_take (k_rw c (uc_rw c - 1)) v) None) t KRecv (Some v) ROk e)).
      apply uinv_take; try apply uinv_rw; auto; cbn; rewrite ?Epc; auto.
    + destruct (uc_closed c) eqn:Ecl; [|destruct (expired (uc_now c) e)]; inversion H; subst; clear H.
      * unfold k_ret_recv. fin_gen (k_rw c (uc_rw c - 1)); try apply uinv_rw; auto; cbn; rewrite ?Epc; cbn; auto; discriminate.
      * unfold k_ret_recv. fin_gen (k_rw c (uc_rw c - 1)); try apply uinv_rw; auto; cbn; rewrite ?Epc; cbn; auto; discriminate.
      * apply uinv_move; auto; rewrite ?Epc; cbn; auto.
  - (* UR_w *)
    destruct (kfree c) eqn:Ef; [|discriminate]. apply kfree_none in Ef.
    destruct to; inversion H; subst; clear H.
    + unfold k_ret_recv. fin_gen (k_rw c (uc_rw c - 1)); try apply uinv_rw; auto; cbn; rewrite ?Epc; cbn; auto; discriminate.
    + apply uinv_move; auto; rewrite ?Epc; cbn; auto.
  - (* UTS_lock *)
    destruct (kfree c) eqn:Ef; [|discriminate]. apply kfree_none in Ef.
    inversion H; subst; clear H. apply uinv_move; auto; rewrite ?Epc; cbn; auto.
  - (* UTS_ck *)
    assert (Hm : uc_mtx c = Some t) by (apply u_mx0; rewrite Epc; reflexivity).
    destruct (u_val0 t v Pre) as (Ev & Hpos & Hnin); [rewrite Epc; reflexivity|].
    destruct (uc_closed c) eqn:Ecl; [|destruct ((0 <? uc_rw c) && negb (is_some (uc_slot c))) eqn:Ed];
      inversion H; subst; clear H.
    + fin_gen c; cbn; rewrite ?Epc; cbn; auto; try discriminate.
      all: try solve [repeat split; auto; try discriminate; intros [X|X]; discriminate].
    + apply uinv_deposit_fin; auto. apply andb_prop in Ed. destruct Ed as [_ Ed].
      destruct (uc_slot c); [discriminate|reflexivity].
    + fin_gen c; cbn; rewrite ?Epc; cbn; auto; try discriminate.
      all: try solve [repeat split; auto; discriminate].
  - (* UTR_lock *)
    destruct (kfree c) eqn:Ef; [|discriminate]. apply kfree_none in Ef.
    destruct (uc_slot c) as [v|] eqn:Esl; inversion H; subst; clear H.
    + apply uinv_take; auto; rewrite ?Epc; auto.
    + fin_gen c; cbn; rewrite ?Epc; cbn; auto; try discriminate.
    all: try solve [right; rewrite Epc; auto].
  - (* UC_x *)
    destruct (uc_closed c) eqn:Ecl; inversion H; subst; clear H.
    + fin_gen c; cbn; rewrite ?Epc; cbn; auto; try discriminate.
    all: try solve [right; rewrite Epc; auto].
    + apply uinv_goto; try apply uinv_closed; auto; cbn; rewrite ?Epc; auto.
  - (* UC_lock *)
    destruct (kfree c) eqn:Ef; [|discriminate]. apply kfree_none in Ef.
    inversion H; subst; clear H.
    fin_gen c; cbn; rewrite ?Epc; cbn; auto; try discriminate.
Qed.

Theorem uinv_reach progs now0 s : ureach true progs now0 s -> UInv (ucore_of s).
Proof.
  induction 1 as [|s l s' R IH H].
  - apply uinv_init.
  - destruct l as [t|t|d]; cbn in H.
    + destruct (ustep_core _ _ _ H) as (to & Hc). eapply uinv_ucstep; eauto.
    + rewrite (utimer_core _ _ _ H). exact IH.
    + inversion H; subst. change (UInv (k_now (ucore_of s) (u_now s + Z.of_nat d))). apply uinv_now. exact IH.
Qed.

(* ---- the clauses of C09 for the unbuffered channel, REPAIRED code ----------------------------- *)
Section UnbufferedClauses.
  Variables (progs : tid -> list op) (now0 : Z).
  Notation reach := (ureach true progs now0).

  Definition u_offered (s : ust) (v : val) : Prop := (snd v < u_cnt s (fst v))%nat.
  (* a call of kind k (KSend / KTrySend) with value v has returned r *)
  Definition u_send_ret (s : ust) (k : opkind) (v : val) (r : res) : Prop :=
    exists e, In e (u_log s) /\ e_k e = k /\ e_v e = Some v /\ e_r e = r.

  (* exactly once.  u_taken = the values handed to successful recv/try_recv calls, in order (the
     take and the return are one step): it never repeats a value; a blocking send returns true only
     if its value is in it; a try_send that returned true has its value in it or still in the slot
     (where the next receiver finds it); the successful receives are exactly the takes. *)
  Theorem unbuf_exactly_once s : reach s ->
    NoDup (u_taken s ++ opt_list (u_slot s)) /\
    (forall v, u_send_ret s KSend v ROk -> In v (u_taken s)) /\
    (forall v, u_send_ret s KTrySend v ROk -> In v (u_taken s ++ opt_list (u_slot s))) /\
    recv_vals (u_log s) = rev (u_taken s).
  Proof.
    intros R. destruct (uinv_reach _ _ _ R). cbn in *. unfold chan in *. cbn in *.
    rewrite Forall_forall in u_logok0. repeat split; auto.
    - intros v (e & Hin & Hk & Hv & Hr).
      destruct (u_logok0 _ Hin) as (n & A & _ & C & _); [rewrite Hk; reflexivity|].
      rewrite Hv in A. inversion A. apply C; auto.
    - intros v (e & Hin & Hk & Hv & Hr).
      destruct (u_logok0 _ Hin) as (n & A & _ & _ & C & _); [rewrite Hk; reflexivity|].
      rewrite Hv in A. inversion A. apply C; auto.
  Qed.

  (* a send that timed out / a try_send that found no receiver is never delivered *)
  Theorem unbuf_timeout_not_delivered s k v r : reach s -> is_sendk k = true ->
    u_send_ret s k v r -> r = RTimeout \/ r = RNo -> ~ In v (u_taken s) /\ u_slot s <> Some v.
  Proof.
    intros R Hk (e & Hin & Ek & Hv & Hr) Hne. destruct (uinv_reach _ _ _ R). cbn in *. unfold chan in *. cbn in *.
    rewrite Forall_forall in u_logok0.
    destruct (u_logok0 _ Hin) as (n & A & _ & _ & _ & C); [rewrite Ek; exact Hk|].
    rewrite Hv in A. inversion A. subst v. rewrite Hr in C. specialize (C Hne).
    split; intros X; apply C; apply in_or_app; [left; exact X|right].
    change (uc_slot (ucore_of s)) with (u_slot s). rewrite X. left. reflexivity.
  Qed.

  (* no invention: whatever is delivered (or waits in the slot) was offered by a send call *)
  Theorem unbuf_no_invention s v : reach s -> In v (u_taken s ++ opt_list (u_slot s)) -> u_offered s v.
  Proof.
    intros R H. destruct (uinv_reach _ _ _ R). cbn in *. destruct v as [t n]. apply u_bound0. exact H.
  Qed.

  (* the values of one sender are delivered in the order of its calls *)
  Theorem unbuf_fifo s : reach s -> sender_sorted (u_taken s ++ opt_list (u_slot s)).
  Proof. intros R. destruct (uinv_reach _ _ _ R). exact u_sorted0. Qed.

  Theorem unbuf_closed_reason s e : reach s -> In e (u_log s) -> e_r e = RClosed -> u_closed s = true.
  Proof.
    intros R Hin Hr. destruct (uinv_reach _ _ _ R). cbn in *. rewrite Forall_forall in u_closedr0. eauto.
  Qed.

  (* mutual exclusion of the critical sections (the side condition of the atomic-step granularity):
     a thread is inside a block that touches the slot / counters iff it holds m_unbuf_mutex *)
  Theorem unbuf_footprint_protected s t : reach s -> (holds (u_pc s t) = true <-> u_mtx s = Some t).
  Proof. intros R. destruct (uinv_reach _ _ _ R). apply u_mx0. Qed.
End UnbufferedClauses.
