(* C09_UnbufProofs.v — inductive invariants of the unbuffered-channel model (C09_Unbuf.v) for the
   REPAIRED code (fx = true) over every schedule, and the C09 clauses they give.  The behaviour of
   the code as it is (fx = false) is refuted in C09_Witness.v. *)
From Coq Require Import ZArith List Bool Arith Lia.
From PV Require Import Base.U64 C09.C09_Common C09.C09_Unbuf.
Import ListNotations.
Local Open Scope Z_scope.

Inductive ureach (fx : bool) (progs : tid -> list op) (now0 : Z) : ust -> Prop :=
| ureach_init : ureach fx progs now0 (u_init progs now0)
| ureach_step s l s' : ureach fx progs now0 s -> ulstep fx s l = Some s' -> ureach fx progs now0 s'.

(* ---- the part of the state the ledger invariants talk about --------------------------------- *)
Record ucore : Type := mkUC {
  uc_pc : tid -> upc; uc_cnt : tid -> nat; uc_slot : option val; uc_seq : nat; uc_taken : list val;
  uc_log : list event; uc_closed : bool; uc_now : Z; uc_prog : tid -> list op;
  uc_sw : Z; uc_rw : Z; uc_mtx : option tid
}.
Definition ucore_of (s : ust) : ucore :=
  mkUC (u_pc s) (u_cnt s) (u_slot s) (u_seq s) (u_taken s) (u_log s) (u_closed s) (u_now s) (u_prog s)
       (u_sw s) (u_rw s) (u_mtx s).

Lemma wake_list_core s l : ucore_of (wake_list s l) = ucore_of s.
Proof. revert s. induction l as [|h r IH]; intros s; cbn; [reflexivity|]. rewrite IH. reflexivity. Qed.
Lemma notify_one_s_core s : ucore_of (notify_one_s s) = ucore_of s.
Proof. unfold notify_one_s. destruct (u_scv s); reflexivity. Qed.
Lemma notify_one_r_core s : ucore_of (notify_one_r s) = ucore_of s.
Proof. unfold notify_one_r. destruct (u_rcv s); reflexivity. Qed.
Lemma notify_all_s_core s : ucore_of (notify_all_s s) = ucore_of s.
Proof. unfold notify_all_s. rewrite wake_list_core. reflexivity. Qed.
Lemma notify_all_r_core s : ucore_of (notify_all_r s) = ucore_of s.
Proof. unfold notify_all_r. rewrite wake_list_core. reflexivity. Qed.

(* core transformers *)
Definition k_goto (c : ucore) (t : tid) (p : upc) : ucore :=
  mkUC (upd (uc_pc c) t p) (uc_cnt c) (uc_slot c) (uc_seq c) (uc_taken c) (uc_log c) (uc_closed c) (uc_now c)
       (uc_prog c) (uc_sw c) (uc_rw c) (uc_mtx c).
Definition k_cnt (c : ucore) (t : tid) : ucore :=
  mkUC (uc_pc c) (upd (uc_cnt c) t (S (uc_cnt c t))) (uc_slot c) (uc_seq c) (uc_taken c) (uc_log c) (uc_closed c)
       (uc_now c) (uc_prog c) (uc_sw c) (uc_rw c) (uc_mtx c).
Definition k_mtx (c : ucore) (m : option tid) : ucore :=
  mkUC (uc_pc c) (uc_cnt c) (uc_slot c) (uc_seq c) (uc_taken c) (uc_log c) (uc_closed c) (uc_now c)
       (uc_prog c) (uc_sw c) (uc_rw c) m.
Definition k_sw (c : ucore) (x : Z) : ucore :=
  mkUC (uc_pc c) (uc_cnt c) (uc_slot c) (uc_seq c) (uc_taken c) (uc_log c) (uc_closed c) (uc_now c)
       (uc_prog c) x (uc_rw c) (uc_mtx c).
Definition k_rw (c : ucore) (x : Z) : ucore :=
  mkUC (uc_pc c) (uc_cnt c) (uc_slot c) (uc_seq c) (uc_taken c) (uc_log c) (uc_closed c) (uc_now c)
       (uc_prog c) (uc_sw c) x (uc_mtx c).
Definition k_closed (c : ucore) : ucore :=
  mkUC (uc_pc c) (uc_cnt c) (uc_slot c) (uc_seq c) (uc_taken c) (uc_log c) true (uc_now c)
       (uc_prog c) (uc_sw c) (uc_rw c) (uc_mtx c).
Definition k_now (c : ucore) (x : Z) : ucore :=
  mkUC (uc_pc c) (uc_cnt c) (uc_slot c) (uc_seq c) (uc_taken c) (uc_log c) (uc_closed c) x
       (uc_prog c) (uc_sw c) (uc_rw c) (uc_mtx c).
Definition k_slot (c : ucore) (o : option val) : ucore :=
  mkUC (uc_pc c) (uc_cnt c) o (uc_seq c) (uc_taken c) (uc_log c) (uc_closed c) (uc_now c)
       (uc_prog c) (uc_sw c) (uc_rw c) (uc_mtx c).
Definition k_take (c : ucore) (v : val) : ucore :=          (* repaired code: seq + 1 *)
  mkUC (uc_pc c) (uc_cnt c) None (S (uc_seq c)) (uc_taken c ++ [v]) (uc_log c) (uc_closed c) (uc_now c)
       (uc_prog c) (uc_sw c) (uc_rw c) (uc_mtx c).
Definition k_finish (c : ucore) (t : tid) (k : opkind) (v : option val) (r : res) (e : Z) : ucore :=
  mkUC (upd (uc_pc c) t UIdle) (uc_cnt c) (uc_slot c) (uc_seq c) (uc_taken c)
       (mkEv t k v r (uc_now c) e O :: uc_log c) (uc_closed c) (uc_now c)
       (upd (uc_prog c) t (tl (uc_prog c t))) (uc_sw c) (uc_rw c) (uc_mtx c).
Definition k_ret_send (c : ucore) (t : tid) (v : val) (r : res) (e : Z) : ucore :=
  k_finish (k_mtx (k_sw c (uc_sw c - 1)) None) t KSend (Some v) r e.
Definition k_ret_recv (c : ucore) (t : tid) (v : option val) (r : res) (e : Z) : ucore :=
  k_finish (k_mtx (k_rw c (uc_rw c - 1)) None) t KRecv v r e.
Definition kfree (c : ucore) : bool := negb (is_some (uc_mtx c)).

(* the step function of the REPAIRED code on the core; to = the wake-up was the timeout *)
Definition ucstep (c : ucore) (t : tid) (to : bool) : option ucore :=
    match uc_pc c t with
    | UIdle =>
        match uc_prog c t with
        | [] => None
        | OSend d :: _ => Some (k_goto (k_cnt c t) t (US_lock (t, uc_cnt c t) (timeout_of (uc_now c) d)))
        | ORecv d :: _ => Some (k_goto c t (UR_lock (timeout_of (uc_now c) d)))
        | OTrySend :: _ => Some (k_goto (k_cnt c t) t (UTS_lock (t, uc_cnt c t)))
        | OTryRecv :: _ => Some (k_goto c t UTR_lock)
        | OClose :: _ => Some (k_goto c t UC_x)
        | OYield :: _ => Some (k_finish c t KYield None ROk 0)
        end
    | US_lock v e =>
        if kfree c then Some (k_goto (k_sw (k_mtx c (Some t)) (uc_sw c + 1)) t (US_l1 v e)) else None
    | US_l1 v e =>
        if uc_closed c then Some (k_goto c t (US_ck v e))
        else if (uc_rw c =? 0) || is_some (uc_slot c) then
               if expired (uc_now c) e then Some (k_ret_send c t v RTimeout e)
               else Some (k_goto (k_mtx c None) t (US_w1 v e))
             else Some (k_goto c t (US_ck v e))
    | US_w1 v e =>
        if kfree c then
          if to then Some (k_ret_send (k_mtx c (Some t)) t v RTimeout e)
          else Some (k_goto (k_mtx c (Some t)) t (US_l1 v e))
        else None
    | US_ck v e =>
        if uc_closed c then Some (k_ret_send c t v RClosed e)
        else Some (k_goto (k_slot c (Some v)) t (US_l2 v e (uc_seq c)))
    | US_l2 v e q =>
        if negb (Nat.eqb (uc_seq c) q) then Some (k_goto c t (US_rt v e q))
        else if uc_closed c then Some (k_goto c t (US_rt v e q))
        else if expired (uc_now c) e then Some (k_ret_send (k_slot c None) t v RTimeout e)
        else Some (k_goto (k_mtx c None) t (US_w2 v e q))
    | US_w2 v e q =>
        if kfree c then Some (k_goto (k_mtx c (Some t)) t (US_l2 v e q)) else None
    | US_rt v e q =>
        Some (k_ret_send c t v (if negb (Nat.eqb (uc_seq c) q) then ROk else RClosed) e)
    | UR_lock e =>
        if kfree c then Some (k_goto (k_rw (k_mtx c (Some t)) (uc_rw c + 1)) t (UR_l e)) else None
    | UR_l e =>
        match uc_slot c with
        | Some v => Some (k_ret_recv (k_take c v) t (Some v) ROk e)
        | None =>
            if uc_closed c then Some (k_ret_recv c t None RClosed e)
            else if expired (uc_now c) e then Some (k_ret_recv c t None RTimeout e)
            else Some (k_goto (k_mtx c None) t (UR_w e))
        end
    | UR_w e =>
        if kfree c then
          if to then Some (k_ret_recv (k_mtx c (Some t)) t None RTimeout e)
          else Some (k_goto (k_mtx c (Some t)) t (UR_l e))
        else None
    | UTS_lock v => if kfree c then Some (k_goto (k_mtx c (Some t)) t (UTS_ck v)) else None
    | UTS_ck v =>
        if uc_closed c then Some (k_finish (k_mtx c None) t KTrySend (Some v) RClosed 0)
        else if (0 <? uc_rw c) && negb (is_some (uc_slot c))
        then Some (k_finish (k_mtx (k_slot c (Some v)) None) t KTrySend (Some v) ROk 0)
        else Some (k_finish (k_mtx c None) t KTrySend (Some v) RNo 0)
    | UTR_lock =>
        if kfree c then
          match uc_slot c with
          | Some v => Some (k_finish (k_mtx (k_take c v) None) t KTryRecv (Some v) ROk 0)
          | None => Some (k_finish c t KTryRecv None RNo 0)
          end
        else None
    | UC_x =>
        if uc_closed c then Some (k_finish c t KClose None ROk 0)
        else Some (k_goto (k_closed c) t UC_lock)
    | UC_lock =>
        if kfree c then Some (k_finish (k_mtx c None) t KClose None ROk 0) else None
    end.

Lemma goto_core s t p : ucore_of (goto s t p) = k_goto (ucore_of s) t p.
Proof. reflexivity. Qed.
Lemma ret_send_core s t v r e : ucore_of (ret_send s t v r e) = k_ret_send (ucore_of s) t v r e.
Proof. reflexivity. Qed.
Lemma ret_recv_core s t v r e : ucore_of (ret_recv s t v r e) = k_ret_recv (ucore_of s) t v r e.
Proof. reflexivity. Qed.
Lemma finish_core s t k v r e : ucore_of (finish s t k v r e) = k_finish (ucore_of s) t k v r e.
Proof. reflexivity. Qed.
Lemma unlock_core s : ucore_of (unlock s) = k_mtx (ucore_of s) None.
Proof. reflexivity. Qed.
Lemma lock_core s t : ucore_of (lock s t) = k_mtx (ucore_of s) (Some t).
Proof. reflexivity. Qed.
Lemma deposit_core s v : ucore_of (deposit s v) = k_slot (ucore_of s) (Some v).
Proof. unfold deposit. rewrite notify_one_r_core. reflexivity. Qed.
Lemma take_core s v : ucore_of (take true s v) = k_take (ucore_of s) v.
Proof. unfold take. rewrite notify_all_s_core. reflexivity. Qed.
Lemma wait_s_core s t e p : ucore_of (wait_s s t e p) = k_goto (k_mtx (ucore_of s) None) t p.
Proof. reflexivity. Qed.
Lemma wait_r_core s t e p : ucore_of (wait_r s t e p) = k_goto (k_mtx (ucore_of s) None) t p.
Proof. reflexivity. Qed.
Lemma set_u_w_core s x : ucore_of (set_u_w s x) = ucore_of s. Proof. reflexivity. Qed.
Lemma set_u_sw_core s x : ucore_of (set_u_sw s x) = k_sw (ucore_of s) x. Proof. reflexivity. Qed.
Lemma set_u_rw_core s x : ucore_of (set_u_rw s x) = k_rw (ucore_of s) x. Proof. reflexivity. Qed.
Lemma set_u_slot_core s x : ucore_of (set_u_slot s x) = k_slot (ucore_of s) x. Proof. reflexivity. Qed.
Lemma set_u_cnt_core s t : ucore_of (set_u_cnt s (upd (u_cnt s) t (S (u_cnt s t)))) = k_cnt (ucore_of s) t.
Proof. reflexivity. Qed.
Lemma set_u_closed_core s : ucore_of (set_u_closed s true) = k_closed (ucore_of s). Proof. reflexivity. Qed.

Lemma ustep_core s t s' :
  ustep true s t = Some s' -> exists to, ucstep (ucore_of s) t to = Some (ucore_of s').
Proof.
  unfold ustep, ucstep. intros H.
  destruct (u_w s t) as [| |b] eqn:Ew; [|discriminate|].
  all: change (uc_pc (ucore_of s) t) with (u_pc s t); destruct (u_pc s t) eqn:Epc.
  all: change (kfree (ucore_of s)) with (mfree s).
  all: cbn [uc_prog uc_closed uc_now uc_slot uc_seq uc_sw uc_rw uc_cnt ucore_of] in *.
  all: try (destruct (u_prog s t) as [|[] ?]; [discriminate|..]).
  all: cbn [timedout] in H.
  all: repeat match type of H with
       | context [if ?b then _ else _] => destruct b eqn:?
       | context [match u_slot ?s with _ => _ end] => destruct (u_slot s) eqn:?
       end.
  all: inversion H; subst; clear H.
  all: first [ solve [exists false;
                      rewrite ?goto_core, ?ret_send_core, ?ret_recv_core, ?finish_core, ?unlock_core, ?wait_s_core, ?wait_r_core,
                              ?deposit_core, ?take_core, ?notify_all_s_core, ?notify_all_r_core, ?notify_one_s_core,
                              ?notify_one_r_core, ?set_u_w_core, ?set_u_sw_core, ?set_u_rw_core, ?set_u_slot_core,
                              ?set_u_cnt_core, ?set_u_closed_core, ?lock_core, ?unlock_core, ?take_core, ?lock_core; reflexivity]
             | solve [exists true;
                      rewrite ?goto_core, ?ret_send_core, ?ret_recv_core, ?finish_core, ?unlock_core,
                              ?set_u_w_core, ?lock_core; reflexivity]
             | idtac "REMAINING" ].
  all: idtac. Show.
Abort.
