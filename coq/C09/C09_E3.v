(* C09_E3.v — the tie of the buffered-channel model to engine E3 (lock-step atomic-step replay of the real go.h +
   real MPMC ring between OS threads, notes/E3.md; harness/C09/e3_chan.cpp).  EXECUTABLE DEFINITIONS ONLY.

   The model's steps are the channel's atomic accesses, with the ring's push/pop at the granularity of their
   linearisation points (interleavings INSIDE a push/pop are C07's subject).  `bpoints` gives, for the next
   model step of a thread, the number of instrumentation points (atomic accesses of the real code) it covers:
     push claim = tail.load, mark.load, tail CAS (3);  push on a full ring = tail, mark, head, tail loads (4);
     publish = mark.store (1);  pop = head.load, mark.load, head CAS, mark.store, or the four loads of the
     empty case (4);  timeout.expired(), the start of a call and a skipped signal touch no atomic (0): such
     steps are executed together with the preceding point, as the real thread does (E3 convention: a step = the
     atomic access + all thread-local code up to the next one).
   `e3_expand` turns a MODEL-level schedule (thread ids; entries that are not enabled are skipped) into the E3
   schedule (thread id repeated `bpoints` times), completes it by running the lowest enabled thread until nobody
   can move, and returns the final model state; the harness replays the E3 schedule on the real code and the two
   outcomes (results, blocked set, ring occupancy, closed, waiter counters, semaphore counts) are compared. *)
From Coq Require Import ZArith List Bool Arith.
From PV Require Import Base.U64 C09.C09_Common C09.C09_Buf.
Import ListNotations.
Local Open Scope Z_scope.

(* the harness-controlled clock (finding F40 needs an expiring Timeout): script op `A` of a participant = one
   instrumentation point "tick" after which photon::now is 200 us later; carried in the model by an OYield op
   (the buffered model gives OYield no access to the channel), the E3 step of which also advances b_now by 200. *)
Definition is_tick (s : bst) (t : tid) : bool :=
  match b_pc s t, b_prog s t with BIdle, OYield :: _ => true | _, _ => false end.
Definition tick_us : Z := 200.

Definition bpoints (mcap : Z) (s : bst) (t : tid) : nat :=
  match b_pc s t with
  | BIdle => if is_tick s t then 1%nat else 0%nat
  | BS_exp _ _ | BR_exp _ => 0%nat
  | BS_push _ _ => if (Z.of_nat (length (b_q s)) <? ring_cap mcap)%Z then 3%nat else 4%nat
  | BR_pop _ => 4%nat
  | BC_ss ns _ => if (0 <? ns)%Z then 1%nat else 0%nat
  | BC_sr nr => if (0 <? nr)%Z then 1%nat else 0%nat
  | _ => 1%nat
  end.

Definition benabled (fx : bool) (mcap : Z) (s : bst) (t : tid) : bool :=
  match b_pc s t, b_q s with
  | BR_pop _, (_, false) :: _ => false          (* would spin on an unpublished slot *)
  | _, _ => is_some (bstep fx mcap s t)
  end.

(* the thread-local code that follows a point: run the 0-point steps of t *)
Fixpoint bsilent (fuel : nat) (fx : bool) (mcap : Z) (s : bst) (t : tid) : bst :=
  match fuel with
  | O => s
  | S f =>
      if Nat.eqb (bpoints mcap s t) 0 && benabled fx mcap s t
      then match bstep fx mcap s t with Some s' => bsilent f fx mcap s' t | None => s end
      else s
  end.

Definition bmacro (fx : bool) (mcap : Z) (s : bst) (t : tid) : option (bst * nat) :=
  if benabled fx mcap s t
  then match bstep fx mcap s t with
       | Some s' => let s'' := if is_tick s t then set_b_now s' (b_now s' + tick_us) else s' in
                    Some (bsilent 8 fx mcap s'' t, bpoints mcap s t)
       | None => None
       end
  else None.

Fixpoint first_enabled (fx : bool) (mcap : Z) (s : bst) (l : list tid) : option tid :=
  match l with
  | [] => None
  | t :: r => if benabled fx mcap s t then Some t else first_enabled fx mcap s r
  end.

Fixpoint e3_complete (fuel : nat) (fx : bool) (mcap : Z) (n : nat) (s : bst) (acc : list tid) : bst * list tid :=
  match fuel with
  | O => (s, acc)
  | S f =>
      match first_enabled fx mcap s (seq 0 n) with
      | None => (s, acc)
      | Some t => match bmacro fx mcap s t with
                  | Some (s', k) => e3_complete f fx mcap n s' (acc ++ repeat t k)
                  | None => (s, acc)
                  end
      end
  end.

Fixpoint e3_sched (fx : bool) (mcap : Z) (s : bst) (ms : list tid) (acc : list tid) : bst * list tid :=
  match ms with
  | [] => (s, acc)
  | t :: r => match bmacro fx mcap s t with
              | Some (s', k) => e3_sched fx mcap s' r (acc ++ repeat t k)
              | None => e3_sched fx mcap s r acc
              end
  end.

Fixpoint init_silent (fx : bool) (mcap : Z) (s : bst) (l : list tid) : bst :=
  match l with [] => s | t :: r => init_silent fx mcap (bsilent 8 fx mcap s t) r end.

Definition ev_val (e : event) : Z :=
  match e_k e with
  | KSend | KTrySend => match e_r e with ROk => 1 | _ => 0 end
  | KRecv | KTryRecv => match e_r e, e_v e with
                        | ROk, Some (s, n) => 1000 * Z.of_nat s + Z.of_nat n
                        | _, _ => -1
                        end
  | _ => 0
  end.

Record e3_result : Type := mkE3R {
  r_sched : list tid; r_res : list (list Z); r_blocked : list tid; r_q : nat; r_closed : bool;
  r_sw : Z; r_rw : Z; r_ssem : Z; r_rsem : Z
}.

Definition e3_expand (fx : bool) (mcap : Z) (ps : list (list op)) (ms : list tid) : e3_result :=
  let n := length ps in
  let s0 := init_silent fx mcap (b_init (fun t => nth t ps []) 0) (seq 0 n) in
  let '(s1, a1) := e3_sched fx mcap s0 ms [] in
  let '(s2, a2) := e3_complete 2000 fx mcap n s1 a1 in
  let evs := rev (b_log s2) in
  mkE3R a2
        (map (fun t => map ev_val (filter (fun e => Nat.eqb (e_t e) t) evs)) (seq 0 n))
        (filter (fun t => negb (match b_prog s2 t with [] => true | _ => false end)) (seq 0 n))
        (length (b_q s2)) (b_closed s2) (b_sw s2) (b_rw s2) (sm_cnt (b_ssem s2)) (sm_cnt (b_rsem s2)).
