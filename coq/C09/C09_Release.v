(* C09_Release.v — the clauses that C09_Proofs.v states as `Definition … : Prop` and that are now PROVED
   (C09_BufTimeProofs.v, C09_UnbufRelease.v), and the status of the release clause of the buffered channel. *)
From Coq Require Import ZArith List Bool Arith.
From PV Require Import Base.U64 C09.C09_Common C09.C09_Unbuf C09.C09_Buf C09.C09_Proofs.
From PV Require Export C09.C09_BufTimeProofs C09.C09_UnbufRelease C09.C09_Witness2.
Import ListNotations.
Local Open Scope Z_scope.

(* buffered half of "false only because of an expired timeout" (statement of C09_Proofs.v) *)
Theorem chan_timeout_reason_buffered_proved : chan_timeout_reason_buffered.
Proof. unfold chan_timeout_reason_buffered. intros. eapply buf_timeout_reason; eauto. Qed.

(* release clause of the repaired unbuffered channel (statement of C09_Proofs.v) *)
Theorem chan_release_unbuffered_proved : chan_release_unbuffered.
Proof.
  unfold chan_release_unbuffered. intros progs now0 s R Q.
  destruct (unbuf_release progs now0 s R Q) as (A & B & C & D).
  split; [exact A|]. split; [exact B|]. split; [|exact D].
  intros t v e q Ep E. exact (proj1 (C t v e q Ep E)).
Qed.
