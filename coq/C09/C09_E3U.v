(* C09_E3U.v — the tie of the UNBUFFERED-channel model (C09_Unbuf.v, `ustep true` = go.h with the F10 repair) to
   engine E3 (lock-step replay of the real go.h between OS threads, notes/E3.md; harness/C09/e3_uchan.cpp).
   EXECUTABLE DEFINITIONS ONLY.

   In the harness photon::mutex and photon::condition_variable are replaced (by macro, go.h untouched) by
   instrumented stand-ins that implement the C01/C03 specification the model assumes:
     mutex.lock        = point "lock", repeated (a spin point) until the mutex is free;   mutex.unlock = point "unlock"
     cv.wait(m, tmo)   = point "cvwait" (ATOMICALLY enqueue at the tail of the FIFO + release m), then points "cvblk"
                         until woken (flavor 1 on a sleeper whose deadline has passed = the timer wakes it: it leaves
                         the queue, its wait will report ETIMEDOUT), then "lock" again
     notify_one / all  = point "notify1" / "notifyall" (head of the queue / everybody)
   the three std::atomic members (m_closed, m_senders_waiting, m_receivers_waiting) are std::verif_atomic: every
   access is a point; every op of a script starts with a point "op" (the Timeout of the call is constructed there).

   `upoints s t` = the number of instrumentation points the NEXT model step of thread t covers in the real code
   (go.h 377-491 and close 144-153, the control flow the step takes in state s).  The model steps are those of
   C09_Unbuf.v, unchanged: one per section under m_unbuf_mutex, cut at every load of m_closed; a step with 0 points
   (loop-2 head when the take counter has moved: no atomic is touched) is executed together with the preceding point,
   as the real thread does.  `e3u_expand` turns a MODEL-level schedule (entry e: thread e mod n; e / n = 1 means "the
   timer finds the deadline of that sleeper expired" = `utimer`; entries that are not enabled are skipped) into the E3
   schedule, completes it (lowest enabled thread first, then expired timers) until nobody can move and returns the
   final model state (+ one flavor-2 entry per thread still asleep: the harness dismisses that OS thread, channel state
   untouched); the harness replays the E3 schedule and the two outcomes are compared. *)
From Coq Require Import ZArith List Bool Arith.
From PV Require Import Base.U64 C09.C09_Common C09.C09_Unbuf.
Import ListNotations.
Local Open Scope Z_scope.

(* the harness-controlled clock: script op `A` = one point "tick", then photon::now += 200 *)
Definition u_is_tick (s : ust) (t : tid) : bool :=
  match u_pc s t, u_prog s t with UIdle, OYield :: _ => true | _, _ => false end.
Definition utick_us : Z := 200.

Definition upoints (s : ust) (t : tid) : nat :=
  let w := u_w s t in
  match u_pc s t with
  | UIdle => 1                                    (* "op" / "tick" *)
  | US_lock _ _ => 2                              (* lock, sw.fa *)
  | US_l1 _ e =>                                  (* closed.ld [, rw.ld [, cvwait | sw.fs, unlock]] *)
      if u_closed s then 1
      else if (u_rw s =? 0) || is_some (u_slot s)
           then (if expired (u_now s) e then 4 else 3)
           else 2
  | US_w1 _ _ => if timedout w then 4 else 2      (* cvblk, lock [, sw.fs, unlock] *)
  | US_ck _ _ => if u_closed s then 3 else 2      (* closed.ld, sw.fs, unlock | closed.ld, notify1 *)
  | US_l2 _ e q =>
      if negb (Nat.eqb (u_seq s) q) then 0        (* m_handoff_seq != seq: no atomic access *)
      else if u_closed s then 1                   (* closed.ld *)
      else if expired (u_now s) e then 4          (* closed.ld, notifyall, sw.fs, unlock *)
      else 2                                      (* closed.ld, cvwait *)
  | US_w2 _ _ _ => 2                              (* cvblk, lock *)
  | US_rt _ _ _ => 2                              (* sw.fs, unlock *)
  | UR_lock _ => 3                                (* lock, rw.fa, notify1 *)
  | UR_l e =>
      match u_slot s with
      | Some _ => 3                               (* notifyall, rw.fs, unlock *)
      | None => if u_closed s then 3              (* closed.ld, rw.fs, unlock *)
                else if expired (u_now s) e then 3
                else 2                            (* closed.ld, cvwait *)
      end
  | UR_w _ => if timedout w then 4 else 2         (* cvblk, lock [, rw.fs, unlock] *)
  | UTS_lock _ => 1                               (* lock *)
  | UTS_ck _ =>
      if u_closed s then 2                        (* closed.ld, unlock *)
      else if (0 <? u_rw s) && negb (is_some (u_slot s)) then 4   (* closed.ld, rw.ld, notify1, unlock *)
      else 3                                      (* closed.ld, rw.ld, unlock *)
  | UTR_lock => match u_slot s with Some _ => 3 | None => 2 end   (* lock [, notifyall], unlock *)
  | UC_x => 1                                     (* closed.xg *)
  | UC_lock => 4                                  (* lock, notifyall, notifyall, unlock *)
  end.

Definition uenabled (s : ust) (t : tid) : bool := is_some (ustep true s t).

(* the thread-local code that follows a point: the 0-point steps of t *)
Fixpoint usilent (fuel : nat) (s : ust) (t : tid) : ust :=
  match fuel with
  | O => s
  | S f =>
      if Nat.eqb (upoints s t) 0 && uenabled s t
      then match ustep true s t with Some s' => usilent f s' t | None => s end
      else s
  end.

Definition umacro (s : ust) (t : tid) : option (ust * nat) :=
  match ustep true s t with
  | Some s' => let s'' := if u_is_tick s t then set_u_now s' (u_now s' + utick_us) else s' in
               Some (usilent 4 s'' t, upoints s t)
  | None => None
  end.

(* one entry of the model-level schedule: (thread, flavor) -> new state + the E3 entries it stands for *)
Definition uentry (n : nat) (s : ust) (t : tid) (fl : nat) : option (ust * list nat) :=
  match fl with
  | O => match umacro s t with Some (s', k) => Some (s', repeat t k) | None => None end
  | _ => match utimer s t with Some s' => Some (s', [(t + n)%nat]) | None => None end
  end.

Fixpoint e3u_sched (n : nat) (s : ust) (ms : list nat) (acc : list nat) : ust * list nat :=
  match ms with
  | [] => (s, acc)
  | e :: r => match uentry n s (Nat.modulo e n) (Nat.div e n) with
              | Some (s', l) => e3u_sched n s' r (acc ++ l)
              | None => e3u_sched n s r acc
              end
  end.

Fixpoint ufirst (f : tid -> bool) (l : list tid) : option tid :=
  match l with [] => None | t :: r => if f t then Some t else ufirst f r end.

Fixpoint e3u_complete (fuel : nat) (n : nat) (s : ust) (acc : list nat) : ust * list nat :=
  match fuel with
  | O => (s, acc)
  | S f =>
      match ufirst (uenabled s) (seq 0 n) with
      | Some t => match uentry n s t 0 with
                  | Some (s', l) => e3u_complete f n s' (acc ++ l)
                  | None => (s, acc)
                  end
      | None =>
          match ufirst (fun t => is_some (utimer s t)) (seq 0 n) with
          | Some t => match uentry n s t 1 with
                      | Some (s', l) => e3u_complete f n s' (acc ++ l)
                      | None => (s, acc)
                      end
          | None => (s, acc)
          end
      end
  end.

Definition uev_val (e : event) : Z :=
  match e_k e with
  | KSend | KTrySend => match e_r e with ROk => 1 | _ => 0 end
  | KRecv | KTryRecv => match e_r e, e_v e with
                        | ROk, Some (s, n) => 1000 * Z.of_nat s + Z.of_nat n
                        | _, _ => -1
                        end
  | _ => 0
  end.

Record e3u_result : Type := mkE3UR {
  ur_sched : list nat; ur_res : list (list Z); ur_blocked : list tid; ur_slot : Z; ur_closed : bool;
  ur_sw : Z; ur_rw : Z; ur_seq : nat; ur_scv : list tid; ur_rcv : list tid; ur_mtx : option tid
}.

Definition e3u_expand (ps : list (list op)) (ms : list nat) : e3u_result :=
  let n := length ps in
  let s0 := u_init (fun t => nth t ps []) 0 in
  let '(s1, a1) := e3u_sched n s0 ms [] in
  let '(s2, a2) := e3u_complete 4000 n s1 a1 in
  let evs := rev (u_log s2) in
  let blocked := filter (fun t => negb (match u_prog s2 t with [] => true | _ => false end)) (seq 0 n) in
  (* the participants that are still asleep when nobody can move are dismissed one by one (flavor 2: the harness thread
     leaves its cv wait without touching the channel and ends), so that every replay ends with all OS threads joined *)
  mkE3UR (a2 ++ map (fun t => (t + 2 * n)%nat) blocked)
         (map (fun t => map uev_val (filter (fun e => Nat.eqb (e_t e) t) evs)) (seq 0 n))
         blocked
         (match u_slot s2 with Some (a, b) => 1000 * Z.of_nat a + Z.of_nat b | None => -1 end)
         (u_closed s2) (u_sw s2) (u_rw s2) (u_seq s2) (u_scv s2) (u_rcv s2) (u_mtx s2).
