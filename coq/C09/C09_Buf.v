(* C09_Buf.v — fine-grained model of the BUFFERED go-style channel (thread/go.h 259-355,
   close 143-160).  EXECUTABLE DEFINITIONS ONLY.

   One transition = one access to shared state (DESIGN.md 4.3):
     * a load / exchange / fetch_add / fetch_sub of m_closed, m_senders_waiting,
       m_receivers_waiting;
     * the two loads of read_available() (lockfree_queue.h 120-123: tail first, then head — the
       order the shipped build evaluates them in), separately;
     * the linearisation points of the MPMC ring queue (lockfree_queue.h 227-275), used through its
       C07 specification: `push` = the successful tail CAS (the slot is CLAIMED, counted by
       tail-head, not yet readable) or the head load that finds the ring full; then the mark store
       that PUBLISHES the slot; `pop` = the successful head CAS on a published slot, a spin
       iteration while the head slot is claimed but unpublished, or the tail load that finds the
       ring empty.  (The second mark store of pop, which recycles the slot for the next lap, only
       delays a later push and is not modelled.)  The ring has rcap = max(2, 2^ceil(log2 capacity))
       slots; m_capacity itself is enforced only by the read_available() test;
     * one section of photon::semaphore under its spinlock (thread.cpp 1887-1922, thread.h
       514-520; in-order resume): signal(n) = count += n, then wake the head waiters while the
       LOCAL copy of the count lasts (the count itself is NOT taken: a woken waiter subtracts it
       in its own next section and sleeps again if somebody else was faster); wait(1) = subtract
       or enqueue-and-sleep; after a timeout: pass the count on (try_resume) and return -1.
   Sequential consistency.  The index arithmetic mod 2^64 of the ring is not reached (heads and
   tails are counts of operations).  *)
From Coq Require Import ZArith List Bool Arith.
From PV Require Import Base.U64 C09.C09_Common.
Import ListNotations.
Local Open Scope Z_scope.

Inductive mode : Type := MTry | MBlock (e : Z).     (* try_* or blocking with expiration e *)

Inductive bpc : Type :=
| BIdle
(* buffered_send 259-292 / buffered_try_send 327-342 *)
| BS_cl (v : val) (m : mode)                 (* 261 / 328: m_closed.load *)
| BS_rt (v : val) (m : mode)                 (* 268 / 334: read_available: tail.load *)
| BS_rh (v : val) (m : mode) (tl : Z)        (*            read_available: head.load; the test *)
| BS_push (v : val) (m : mode)               (* m_queue->push: claim / full *)
| BS_pub (v : val) (m : mode)                (* push: mark.store (publish) *)
| BS_lrw (v : val) (m : mode)                (* 270 / 335: m_receivers_waiting.load *)
| BS_sig (v : val) (m : mode)                (* 271 / 336: m_recv_sem.signal(1) *)
| BS_exp (v : val) (e : Z)                   (* 277: timeout.expired() *)
| BS_reg (v : val) (e : Z)                   (* 283: m_senders_waiting.fetch_add(1) *)
| BS_wait (v : val) (e : Z)                  (* 284: m_send_sem.wait(1, timeout_us): first section *)
| BS_slp (v : val) (e : Z)                   (*      asleep in / woken from the semaphore's queue *)
| BS_unreg (v : val) (e : Z) (to : bool)     (* 285-290: fetch_sub(1); to = wait returned -1/ETIMEDOUT *)
| BS_rc (v : val) (e : Z)                    (* repaired code: re-check after registering: m_closed.load *)
| BS_rct (v : val) (e : Z)                   (*                read_available: tail.load *)
| BS_rch (v : val) (e : Z) (tl : Z)          (*                read_available: head.load; the test *)
(* buffered_recv 294-325 / buffered_try_recv 344-355 *)
| BR_pop (m : mode)                          (* 298 / 346: m_queue->pop *)
| BR_lsw (m : mode) (v : val)                (* 302 / 349: m_senders_waiting.load *)
| BR_sig (m : mode) (v : val)                (* 303 / 350: m_send_sem.signal(1) *)
| BR_cl (e : Z) (np : nat)                   (* 308: m_closed.load; np (ghost) = pushes so far when pop failed *)
| BR_exp (e : Z)                             (* 312 *)
| BR_reg (e : Z)                             (* 317 *)
| BR_wait (e : Z)                            (* 318 *)
| BR_slp (e : Z)
| BR_unreg (e : Z) (to : bool)               (* 319-323 *)
| BR_rc (e : Z)                              (* repaired code: re-check after registering: m_closed.load *)
| BR_rct (e : Z)                             (*                empty(): tail.load *)
| BR_rch (e : Z) (tl : Z)                    (*                empty(): head.load; the test *)
(* close 143-160 *)
| BC_x                                       (* 144: m_closed.exchange(true) *)
| BC_ls                                      (* 155: m_senders_waiting.load *)
| BC_lr (ns : Z)                             (* 156: m_receivers_waiting.load *)
| BC_ss (ns nr : Z)                          (* 157: if (senders > 0) m_send_sem.signal(senders) *)
| BC_sr (nr : Z).                            (* 158: if (receivers > 0) m_recv_sem.signal(receivers) *)

Record sem : Type := mkSem { sm_cnt : Z; sm_q : list tid }.

Record bst : Type := mkB {
  b_now : Z;
  b_closed : bool;              (* m_closed *)
  b_sw : Z;                     (* m_senders_waiting *)
  b_rw : Z;                     (* m_receivers_waiting *)
  b_head : Z;                   (* m_queue->head (number of pops); tail = head + length b_q *)
  b_q : list (val * bool);      (* ring contents, oldest first: (value, published) *)
  b_ssem : sem;                 (* m_send_sem *)
  b_rsem : sem;                 (* m_recv_sem *)
  b_pc : tid -> bpc;
  b_w : tid -> wstate;
  b_dl : tid -> Z;
  b_prog : tid -> list op;
  b_cnt : tid -> nat;
  b_pushed : list val;          (* ghost: values whose push claimed a slot, in claim order *)
  b_popped : list val;          (* ghost: values popped, in pop order *)
  b_log : list event;
  b_wk : list tid
}.

Definition set_b_now (s : bst) (x : Z) : bst :=
  mkB x (b_closed s) (b_sw s) (b_rw s) (b_head s) (b_q s) (b_ssem s) (b_rsem s) (b_pc s) (b_w s) (b_dl s) (b_prog s) (b_cnt s) (b_pushed s) (b_popped s) (b_log s) (b_wk s).
Definition set_b_closed (s : bst) (x : bool) : bst :=
  mkB (b_now s) x (b_sw s) (b_rw s) (b_head s) (b_q s) (b_ssem s) (b_rsem s) (b_pc s) (b_w s) (b_dl s) (b_prog s) (b_cnt s) (b_pushed s) (b_popped s) (b_log s) (b_wk s).
Definition set_b_sw (s : bst) (x : Z) : bst :=
  mkB (b_now s) (b_closed s) x (b_rw s) (b_head s) (b_q s) (b_ssem s) (b_rsem s) (b_pc s) (b_w s) (b_dl s) (b_prog s) (b_cnt s) (b_pushed s) (b_popped s) (b_log s) (b_wk s).
Definition set_b_rw (s : bst) (x : Z) : bst :=
  mkB (b_now s) (b_closed s) (b_sw s) x (b_head s) (b_q s) (b_ssem s) (b_rsem s) (b_pc s) (b_w s) (b_dl s) (b_prog s) (b_cnt s) (b_pushed s) (b_popped s) (b_log s) (b_wk s).
Definition set_b_head (s : bst) (x : Z) : bst :=
  mkB (b_now s) (b_closed s) (b_sw s) (b_rw s) x (b_q s) (b_ssem s) (b_rsem s) (b_pc s) (b_w s) (b_dl s) (b_prog s) (b_cnt s) (b_pushed s) (b_popped s) (b_log s) (b_wk s).
Definition set_b_q (s : bst) (x : list (val * bool)) : bst :=
  mkB (b_now s) (b_closed s) (b_sw s) (b_rw s) (b_head s) x (b_ssem s) (b_rsem s) (b_pc s) (b_w s) (b_dl s) (b_prog s) (b_cnt s) (b_pushed s) (b_popped s) (b_log s) (b_wk s).
Definition set_b_ssem (s : bst) (x : sem) : bst :=
  mkB (b_now s) (b_closed s) (b_sw s) (b_rw s) (b_head s) (b_q s) x (b_rsem s) (b_pc s) (b_w s) (b_dl s) (b_prog s) (b_cnt s) (b_pushed s) (b_popped s) (b_log s) (b_wk s).
Definition set_b_rsem (s : bst) (x : sem) : bst :=
  mkB (b_now s) (b_closed s) (b_sw s) (b_rw s) (b_head s) (b_q s) (b_ssem s) x (b_pc s) (b_w s) (b_dl s) (b_prog s) (b_cnt s) (b_pushed s) (b_popped s) (b_log s) (b_wk s).
Definition set_b_pc (s : bst) (x : tid -> bpc) : bst :=
  mkB (b_now s) (b_closed s) (b_sw s) (b_rw s) (b_head s) (b_q s) (b_ssem s) (b_rsem s) x (b_w s) (b_dl s) (b_prog s) (b_cnt s) (b_pushed s) (b_popped s) (b_log s) (b_wk s).
Definition set_b_w (s : bst) (x : tid -> wstate) : bst :=
  mkB (b_now s) (b_closed s) (b_sw s) (b_rw s) (b_head s) (b_q s) (b_ssem s) (b_rsem s) (b_pc s) x (b_dl s) (b_prog s) (b_cnt s) (b_pushed s) (b_popped s) (b_log s) (b_wk s).
Definition set_b_dl (s : bst) (x : tid -> Z) : bst :=
  mkB (b_now s) (b_closed s) (b_sw s) (b_rw s) (b_head s) (b_q s) (b_ssem s) (b_rsem s) (b_pc s) (b_w s) x (b_prog s) (b_cnt s) (b_pushed s) (b_popped s) (b_log s) (b_wk s).
Definition set_b_prog (s : bst) (x : tid -> list op) : bst :=
  mkB (b_now s) (b_closed s) (b_sw s) (b_rw s) (b_head s) (b_q s) (b_ssem s) (b_rsem s) (b_pc s) (b_w s) (b_dl s) x (b_cnt s) (b_pushed s) (b_popped s) (b_log s) (b_wk s).
Definition set_b_cnt (s : bst) (x : tid -> nat) : bst :=
  mkB (b_now s) (b_closed s) (b_sw s) (b_rw s) (b_head s) (b_q s) (b_ssem s) (b_rsem s) (b_pc s) (b_w s) (b_dl s) (b_prog s) x (b_pushed s) (b_popped s) (b_log s) (b_wk s).
Definition set_b_pushed (s : bst) (x : list val) : bst :=
  mkB (b_now s) (b_closed s) (b_sw s) (b_rw s) (b_head s) (b_q s) (b_ssem s) (b_rsem s) (b_pc s) (b_w s) (b_dl s) (b_prog s) (b_cnt s) x (b_popped s) (b_log s) (b_wk s).
Definition set_b_popped (s : bst) (x : list val) : bst :=
  mkB (b_now s) (b_closed s) (b_sw s) (b_rw s) (b_head s) (b_q s) (b_ssem s) (b_rsem s) (b_pc s) (b_w s) (b_dl s) (b_prog s) (b_cnt s) (b_pushed s) x (b_log s) (b_wk s).
Definition set_b_log (s : bst) (x : list event) : bst :=
  mkB (b_now s) (b_closed s) (b_sw s) (b_rw s) (b_head s) (b_q s) (b_ssem s) (b_rsem s) (b_pc s) (b_w s) (b_dl s) (b_prog s) (b_cnt s) (b_pushed s) (b_popped s) x (b_wk s).
Definition set_b_wk (s : bst) (x : list tid) : bst :=
  mkB (b_now s) (b_closed s) (b_sw s) (b_rw s) (b_head s) (b_q s) (b_ssem s) (b_rsem s) (b_pc s) (b_w s) (b_dl s) (b_prog s) (b_cnt s) (b_pushed s) (b_popped s) (b_log s) x.

Definition b_init (progs : tid -> list op) (now : Z) : bst :=
  mkB now false 0 0 0 [] (mkSem 0 []) (mkSem 0 []) (fun _ => BIdle) (fun _ => Run) (fun _ => 0) progs
      (fun _ => O) [] [] [] [].

(* capacity of the ring allocated for a channel of capacity c >= 1 (lockfree_queue.h 95-98) *)
Fixpoint pow2_ge (fuel : nat) (p c : Z) : Z :=
  match fuel with O => p | S f => if c <=? p then p else pow2_ge f (2 * p) c end.
Definition ring_cap (c : Z) : Z := if c <=? 1 then 2 else pow2_ge 64 2 c.

Definition bgoto (s : bst) (t : tid) (p : bpc) : bst := set_b_pc s (upd (b_pc s) t p).
Definition bfinish (s : bst) (t : tid) (k : opkind) (v : option val) (r : res) (e : Z) (aux : nat) : bst :=
  set_b_log (set_b_prog (bgoto s t BIdle) (upd (b_prog s) t (tl (b_prog s t))))
            (mkEv t k v r (b_now s) e aux :: b_log s).
Definition bwake1 (s : bst) (t : tid) : bst :=
  set_b_wk (set_b_w s (upd (b_w s) t (Woken false))) (b_wk s ++ [t]).
Fixpoint bwake_list (s : bst) (l : list tid) : bst :=
  match l with [] => s | h :: r => bwake_list (bwake1 s h) r end.

(* semaphore::try_resume(cnt) in-order (1910-1922): every waiter demands 1 *)
Definition resume_n (c : Z) (q : list tid) : list tid * list tid :=   (* (woken, remaining) *)
  let k := Z.to_nat (Z.max 0 c) in (firstn k q, skipn k q).

(* which of the two semaphores *)
Inductive which : Type := SendSem | RecvSem.
Definition get_sem (s : bst) (x : which) : sem := match x with SendSem => b_ssem s | RecvSem => b_rsem s end.
Definition put_sem (s : bst) (x : which) (m : sem) : bst :=
  match x with SendSem => set_b_ssem s m | RecvSem => set_b_rsem s m end.

(* semaphore::signal(n), n > 0 (thread.h 514-520) *)
Definition sem_signal (s : bst) (x : which) (n : Z) : bst :=
  let m := get_sem s x in
  let c := sm_cnt m + n in
  let '(wok, rest) := resume_n c (sm_q m) in
  bwake_list (put_sem s x (mkSem c rest)) wok.
(* first section of wait(1, Timeout{e}): Some s' = subtracted; None' = went to sleep *)
Definition sem_try (s : bst) (x : which) : option bst :=
  let m := get_sem s x in
  if 1 <=? sm_cnt m then Some (put_sem s x (mkSem (sm_cnt m - 1) (sm_q m))) else None.
Definition sem_sleep (s : bst) (x : which) (t : tid) (e : Z) (p : bpc) : bst :=
  let m := get_sem s x in
  set_b_dl (set_b_w (bgoto (put_sem s x (mkSem (sm_cnt m) (sm_q m ++ [t]))) t p) (upd (b_w s) t Asleep))
           (upd (b_dl s) t e).
(* section after a timed-out sleep (1897-1904): hand the count to the next waiters *)
Definition sem_after_timeout (s : bst) (x : which) : bst :=
  let m := get_sem s x in
  if 0 <? sm_cnt m then
    let '(wok, rest) := resume_n (sm_cnt m) (sm_q m) in
    bwake_list (put_sem s x (mkSem (sm_cnt m) rest)) wok
  else s.

(* expiration of the Timeout built from timeout.timeout_us() (go.h 284 / 318) *)
Definition rewait_exp (now e : Z) : Z := timeout_of now (sat_sub e now).

Fixpoint publish (v : val) (q : list (val * bool)) : list (val * bool) :=
  match q with
  | [] => []
  | (x, b) :: r => if val_eqb x v then (x, true) :: r else (x, b) :: publish v r
  end.

Definition kS (m : mode) : opkind := match m with MTry => KTrySend | MBlock _ => KSend end.
Definition kR (m : mode) : opkind := match m with MTry => KTryRecv | MBlock _ => KRecv end.
Definition mexp (m : mode) : Z := match m with MTry => 0 | MBlock e => e end.

(* mcap = m_capacity (>= 1).  fx = false: go.h as it is (finding F11); fx = true: go.h after
   repo_patches/C09-fix-buffered-lost-wakeup.diff — after registering as a waiter and before sleeping on the
   semaphore the caller re-checks m_closed and the ring; if the reason to wait is gone it unregisters and retries. *)
Definition bstep (fx : bool) (mcap : Z) (s : bst) (t : tid) : option bst :=
  match b_w s t with
  | Asleep => None
  | w =>
    match b_pc s t with
    | BIdle =>
        match b_prog s t with
        | [] => None
        | OSend d :: _ =>
            Some (bgoto (set_b_cnt s (upd (b_cnt s) t (S (b_cnt s t)))) t
                        (BS_cl (t, b_cnt s t) (MBlock (timeout_of (b_now s) d))))
        | ORecv d :: _ => Some (bgoto s t (BR_pop (MBlock (timeout_of (b_now s) d))))
        | OTrySend :: _ =>
            Some (bgoto (set_b_cnt s (upd (b_cnt s) t (S (b_cnt s t)))) t (BS_cl (t, b_cnt s t) MTry))
        | OTryRecv :: _ => Some (bgoto s t (BR_pop MTry))
        | OClose :: _ => Some (bgoto s t BC_x)
        | OYield :: _ => Some (bfinish s t KYield None ROk 0 O)
        end
    (* ---------------- send / try_send ---------------- *)
    | BS_cl v m =>
        if b_closed s then Some (bfinish s t (kS m) (Some v) RClosed (mexp m) O)
        else Some (bgoto s t (BS_rt v m))
    | BS_rt v m => Some (bgoto s t (BS_rh v m (b_head s + Z.of_nat (length (b_q s)))))
    | BS_rh v m tl =>
        if u64_sub tl (b_head s) <? mcap then Some (bgoto s t (BS_push v m))
        else match m with
             | MTry => Some (bfinish s t KTrySend (Some v) RNo 0 O)
             | MBlock e => Some (bgoto s t (BS_exp v e))
             end
    | BS_push v m =>
        if Z.of_nat (length (b_q s)) <? ring_cap mcap
        then Some (bgoto (set_b_pushed (set_b_q s (b_q s ++ [(v, false)])) (b_pushed s ++ [v])) t (BS_pub v m))
        else match m with
             | MTry => Some (bfinish s t KTrySend (Some v) RNo 0 O)
             | MBlock e => Some (bgoto s t (BS_exp v e))
             end
    | BS_pub v m => Some (bgoto (set_b_q s (publish v (b_q s))) t (BS_lrw v m))
    | BS_lrw v m =>
        if 0 <? b_rw s then Some (bgoto s t (BS_sig v m))
        else Some (bfinish s t (kS m) (Some v) ROk (mexp m) O)
    | BS_sig v m => Some (bfinish (sem_signal s RecvSem 1) t (kS m) (Some v) ROk (mexp m) O)
    | BS_exp v e =>
        if expired (b_now s) e then Some (bfinish s t KSend (Some v) RTimeout e O)
        else Some (bgoto s t (BS_reg v e))
    | BS_reg v e => Some (bgoto (set_b_sw s (b_sw s + 1)) t (if fx then BS_rc v e else BS_wait v e))
    | BS_rc v e => if b_closed s then Some (bgoto s t (BS_unreg v e false)) else Some (bgoto s t (BS_rct v e))
    | BS_rct v e => Some (bgoto s t (BS_rch v e (b_head s + Z.of_nat (length (b_q s)))))
    | BS_rch v e tl =>
        if u64_sub tl (b_head s) <? mcap then Some (bgoto s t (BS_unreg v e false)) else Some (bgoto s t (BS_wait v e))
    | BS_wait v e =>
        match sem_try s SendSem with
        | Some s1 => Some (bgoto s1 t (BS_unreg v e false))
        | None => Some (sem_sleep s SendSem t (rewait_exp (b_now s) e) (BS_slp v e))
        end
    | BS_slp v e =>
        let s0 := set_b_w s (upd (b_w s) t Run) in
        match w with
        | Woken true => Some (bgoto (sem_after_timeout s0 SendSem) t (BS_unreg v e true))
        | _ => match sem_try s0 SendSem with
               | Some s1 => Some (bgoto s1 t (BS_unreg v e false))
               | None => Some (sem_sleep s0 SendSem t (b_dl s t) (BS_slp v e))
               end
        end
    | BS_unreg v e to =>
        let s1 := set_b_sw s (b_sw s - 1) in
        if to then Some (bfinish s1 t KSend (Some v) RTimeout e O)
        else Some (bgoto s1 t (BS_cl v (MBlock e)))
    (* ---------------- recv / try_recv ---------------- *)
    | BR_pop m =>
        match b_q s with
        | (v, true) :: r =>
            Some (bgoto (set_b_popped (set_b_head (set_b_q s r) (b_head s + 1)) (b_popped s ++ [v])) t (BR_lsw m v))
        | (_, false) :: _ => Some s                       (* head slot claimed, not yet published: spin *)
        | [] =>
            match m with
            | MTry => Some (bfinish s t KTryRecv None RNo 0 O)
            | MBlock e => Some (bgoto s t (BR_cl e (length (b_pushed s))))
            end
        end
    | BR_lsw m v =>
        if 0 <? b_sw s then Some (bgoto s t (BR_sig m v))
        else Some (bfinish s t (kR m) (Some v) ROk (mexp m) O)
    | BR_sig m v => Some (bfinish (sem_signal s SendSem 1) t (kR m) (Some v) ROk (mexp m) O)
    | BR_cl e np =>
        if b_closed s then Some (bfinish s t KRecv None RClosed e np)
        else Some (bgoto s t (BR_exp e))
    | BR_exp e =>
        if expired (b_now s) e then Some (bfinish s t KRecv None RTimeout e O)
        else Some (bgoto s t (BR_reg e))
    | BR_reg e => Some (bgoto (set_b_rw s (b_rw s + 1)) t (if fx then BR_rc e else BR_wait e))
    | BR_rc e => if b_closed s then Some (bgoto s t (BR_unreg e false)) else Some (bgoto s t (BR_rct e))
    | BR_rct e => Some (bgoto s t (BR_rch e (b_head s + Z.of_nat (length (b_q s)))))
    | BR_rch e tl =>
        if tl =? b_head s then Some (bgoto s t (BR_wait e)) else Some (bgoto s t (BR_unreg e false))
    | BR_wait e =>
        match sem_try s RecvSem with
        | Some s1 => Some (bgoto s1 t (BR_unreg e false))
        | None => Some (sem_sleep s RecvSem t (rewait_exp (b_now s) e) (BR_slp e))
        end
    | BR_slp e =>
        let s0 := set_b_w s (upd (b_w s) t Run) in
        match w with
        | Woken true => Some (bgoto (sem_after_timeout s0 RecvSem) t (BR_unreg e true))
        | _ => match sem_try s0 RecvSem with
               | Some s1 => Some (bgoto s1 t (BR_unreg e false))
               | None => Some (sem_sleep s0 RecvSem t (b_dl s t) (BR_slp e))
               end
        end
    | BR_unreg e to =>
        let s1 := set_b_rw s (b_rw s - 1) in
        if to then Some (bfinish s1 t KRecv None RTimeout e O)
        else Some (bgoto s1 t (BR_pop (MBlock e)))
    (* ---------------- close ---------------- *)
    | BC_x =>
        if b_closed s then Some (bfinish s t KClose None ROk 0 O)
        else Some (bgoto (set_b_closed s true) t BC_ls)
    | BC_ls => Some (bgoto s t (BC_lr (b_sw s)))
    | BC_lr ns => Some (bgoto s t (BC_ss ns (b_rw s)))
    | BC_ss ns nr => Some (bgoto (if 0 <? ns then sem_signal s SendSem ns else s) t (BC_sr nr))
    | BC_sr nr => Some (bfinish (if 0 <? nr then sem_signal s RecvSem nr else s) t KClose None ROk 0 O)
    end
  end.

Definition sem_remove (m : sem) (t : tid) : sem := mkSem (sm_cnt m) (remove_tid t (sm_q m)).

Definition btimer (s : bst) (t : tid) : option bst :=
  match b_w s t with
  | Asleep =>
      if b_dl s t <=? b_now s
      then Some (set_b_wk (set_b_w (set_b_rsem (set_b_ssem s (sem_remove (b_ssem s) t)) (sem_remove (b_rsem s) t))
                                   (upd (b_w s) t (Woken true))) (b_wk s ++ [t]))
      else None
  | _ => None
  end.

Definition blstep (fx : bool) (mcap : Z) (s : bst) (l : label) : option bst :=
  match l with
  | LThr t => bstep fx mcap s t
  | LTimer t => btimer s t
  | LTick d => Some (set_b_now s (b_now s + Z.of_nat d))
  end.

Fixpoint brun (fx : bool) (mcap : Z) (s : bst) (ls : list label) : option bst :=
  match ls with
  | [] => Some s
  | l :: r => match blstep fx mcap s l with Some s' => brun fx mcap s' r | None => None end
  end.
