(* C09_TimeProofs.v — "false only because of an expired timeout": every RTimeout result of send/recv
   (unbuffered: both code variants; buffered: both code variants) was produced at a moment when the call's Timeout
   had expired, for every schedule and every timing.  Invariants over the FULL states (wake state, ts_wakeup). *)
From Coq Require Import ZArith List Bool Arith Lia.
From PV Require Import Base.U64 C09.C09_Common C09.C09_Unbuf C09.C09_Buf C09.C09_BufProofs C09.C09_UnbufProofs.
Import ListNotations.
Local Open Scope Z_scope.

Lemma expired_mono now now' e : now <= now' -> expired now e = true -> expired now' e = true.
Proof.
  unfold expired. intros H. rewrite !orb_true_iff, !Z.eqb_eq, !Z.leb_le. intros [A|A]; [left; exact A|right; lia].
Qed.
Lemma expired_of_le now e : e <= now -> expired now e = true.
Proof. unfold expired. intros H. rewrite orb_true_iff, Z.leb_le. right. exact H. Qed.

Definition ev_time_ok (ev : event) : Prop := e_r ev = RTimeout -> expired (e_now ev) (e_exp ev) = true.

(* ---------------------------------------------------------------- unbuffered ---------------- *)
(* the fact a thread inside a timed cv wait carries: asleep => ts_wakeup is the call's expiration;
   woken by the timer => the expiration has passed *)
Definition wait_ok (w : wstate) (dl now e : Z) : Prop :=
  (w = Asleep -> dl = e) /\ (w = Woken true -> expired now e = true).
Definition upc_ok (p : upc) (w : wstate) (dl now : Z) : Prop :=
  match p with
  | US_w1 _ e | UR_w e => wait_ok w dl now e
  | _ => True
  end.
Record UT (s : ust) : Prop := mkUT {
  ut_thr : forall t, upc_ok (u_pc s t) (u_w s t) (u_dl s t) (u_now s);
  ut_log : Forall ev_time_ok (u_log s)
}.

Lemma upc_ok_woken p w dl now : upc_ok p w dl now -> upc_ok p (Woken false) dl now.
Proof. destruct p; cbn; auto; intros _; split; discriminate. Qed.

(* projections through the wake-up functions *)
Definition memt (t : tid) (l : list tid) : bool := existsb (Nat.eqb t) l.
Lemma wake_list_w s l t : u_w (wake_list s l) t = if memt t l then Woken false else u_w s t.
Proof.
  revert s. induction l as [|h r IH]; intros s; cbn; [reflexivity|]. rewrite IH. cbn. unfold upd.
  destruct (Nat.eqb t h); cbn; [destruct (memt t r); reflexivity|reflexivity].
Qed.
Lemma wake_list_pc s l : u_pc (wake_list s l) = u_pc s.
Proof. revert s. induction l; intros; cbn; [reflexivity|rewrite IHl; reflexivity]. Qed.
Lemma wake_list_dl s l : u_dl (wake_list s l) = u_dl s.
Proof. revert s. induction l; intros; cbn; [reflexivity|rewrite IHl; reflexivity]. Qed.
Lemma wake_list_now s l : u_now (wake_list s l) = u_now s.
Proof. revert s. induction l; intros; cbn; [reflexivity|rewrite IHl; reflexivity]. Qed.
Lemma wake_list_log s l : u_log (wake_list s l) = u_log s.
Proof. revert s. induction l; intros; cbn; [reflexivity|rewrite IHl; reflexivity]. Qed.

(* a transformer that only wakes threads (by notification) *)
Definition wakes_only (f : ust -> ust) : Prop :=
  forall s, u_pc (f s) = u_pc s /\ u_dl (f s) = u_dl s /\ u_now (f s) = u_now s /\ u_log (f s) = u_log s /\
            forall t, u_w (f s) t = u_w s t \/ u_w (f s) t = Woken false.
Lemma wo_notify_one_s : wakes_only notify_one_s.
Proof.
  intros s. unfold notify_one_s. destruct (u_scv s) as [|h r]; cbn; repeat split; auto.
  intros t. unfold upd. destruct (Nat.eqb t h); auto.
Qed.
Lemma wo_notify_one_r : wakes_only notify_one_r.
Proof.
  intros s. unfold notify_one_r. destruct (u_rcv s) as [|h r]; cbn; repeat split; auto.
  intros t. unfold upd. destruct (Nat.eqb t h); auto.
Qed.
Lemma wo_notify_all_s : wakes_only notify_all_s.
Proof.
  intros s. unfold notify_all_s. rewrite wake_list_pc, wake_list_dl, wake_list_now, wake_list_log. cbn.
  repeat split; auto. intros t. rewrite wake_list_w. cbn. destruct (memt t (u_scv s)); auto.
Qed.
Lemma wo_notify_all_r : wakes_only notify_all_r.
Proof.
  intros s. unfold notify_all_r. rewrite wake_list_pc, wake_list_dl, wake_list_now, wake_list_log. cbn.
  repeat split; auto. intros t. rewrite wake_list_w. cbn. destruct (memt t (u_rcv s)); auto.
Qed.

Lemma UT_wakes f s : wakes_only f -> UT s -> UT (f s).
Proof.
  intros W [A B]. destruct (W s) as (P & D & N & L & Ww). constructor.
  - intros t. rewrite P, D, N. destruct (Ww t) as [E|E]; rewrite E; [apply A|eapply upc_ok_woken; apply A].
  - rewrite L. exact B.
Qed.

(* a transformer that does not touch pc / w / dl / now / log *)
Definition time_frame (f : ust -> ust) : Prop :=
  forall s, u_pc (f s) = u_pc s /\ u_w (f s) = u_w s /\ u_dl (f s) = u_dl s /\ u_now (f s) = u_now s /\ u_log (f s) = u_log s.
Lemma UT_frame f s : time_frame f -> UT s -> UT (f s).
Proof.
  intros F [A B]. destruct (F s) as (P & W & D & N & L). constructor.
  - intros t. rewrite P, W, D, N. apply A.
  - rewrite L. exact B.
Qed.

(* t moves to a pc that is not a timed-wait pc, becoming runnable *)
Lemma UT_goto s t p (w : wstate) :
  UT s -> (match p with US_w1 _ _ | UR_w _ => False | _ => True end) ->
  UT (set_u_w (goto s t p) (upd (u_w s) t w)).
Proof.
  intros [A B] Hp. constructor; cbn; auto.
  intros t0. unfold upd. destruct (Nat.eqb_spec t0 t); [|apply A]. destruct p; cbn; auto; contradiction.
Qed.
Lemma UT_goto0 s t p :
  UT s -> (match p with US_w1 _ _ | UR_w _ => False | _ => True end) -> UT (goto s t p).
Proof.
  intros [A B] Hp. constructor; cbn; auto.
  intros t0. unfold upd. destruct (Nat.eqb_spec t0 t); [|apply A]. destruct p; cbn; auto; contradiction.
Qed.
(* t goes to sleep in a cv wait with deadline e at pc p *)
Lemma UT_sleep s t e p :
  UT s -> (match p with US_w1 _ e' | UR_w e' => e' = e | _ => True end) -> UT (sleep s t e p).
Proof.
  intros [A B] Hp. constructor; cbn; auto.
  intros t0. unfold upd. destruct (Nat.eqb_spec t0 t); [|apply A].
  destruct p; cbn; auto; subst; split; auto; discriminate.
Qed.
Lemma UT_finish s t k v r e :
  UT s -> (r = RTimeout -> expired (u_now s) e = true) -> UT (finish s t k v r e).
Proof.
  intros [A B] Hr. constructor; cbn.
  - intros t0. unfold upd. destruct (Nat.eqb_spec t0 t); [exact I|apply A].
  - constructor; [exact Hr|exact B].
Qed.

Ltac frame_tac := intros [A B]; constructor; cbn; auto.
Lemma UT_sw s x : UT s -> UT (set_u_sw s x). Proof. frame_tac. Qed.
Lemma UT_rw s x : UT s -> UT (set_u_rw s x). Proof. frame_tac. Qed.
Lemma UT_slot s x : UT s -> UT (set_u_slot s x). Proof. frame_tac. Qed.
Lemma UT_seq s x : UT s -> UT (set_u_seq s x). Proof. frame_tac. Qed.
Lemma UT_taken s x : UT s -> UT (set_u_taken s x). Proof. frame_tac. Qed.
Lemma UT_lost s x : UT s -> UT (set_u_lost s x). Proof. frame_tac. Qed.
Lemma UT_mtx s x : UT s -> UT (set_u_mtx s x). Proof. frame_tac. Qed.
Lemma UT_scv s x : UT s -> UT (set_u_scv s x). Proof. frame_tac. Qed.
Lemma UT_rcv s x : UT s -> UT (set_u_rcv s x). Proof. frame_tac. Qed.
Lemma UT_cnt s x : UT s -> UT (set_u_cnt s x). Proof. frame_tac. Qed.
Lemma UT_closed s x : UT s -> UT (set_u_closed s x). Proof. frame_tac. Qed.
Lemma UT_run s s0 t : UT s -> UT (set_u_w s (upd (u_w s0) t Run)) \/ True.
Proof. auto. Qed.
Lemma UT_setrun s t : UT s -> UT (set_u_w s (upd (u_w s) t Run)).
Proof.
  intros [A B]. constructor; cbn; auto. intros t0. unfold upd. destruct (Nat.eqb_spec t0 t); [|apply A].
  destruct (u_pc s t0); cbn; auto; split; discriminate.
Qed.

Lemma UT_setrun2 s m t : UT s -> UT (set_u_w (set_u_mtx s m) (upd (u_w s) t Run)).
Proof.
  intros [A B]. constructor; cbn; auto. intros t0. unfold upd. destruct (Nat.eqb_spec t0 t); [|apply A].
  destruct (u_pc s t0); cbn; auto; split; discriminate.
Qed.

Lemma now_n1s s : u_now (notify_one_s s) = u_now s. Proof. apply wo_notify_one_s. Qed.
Lemma now_n1r s : u_now (notify_one_r s) = u_now s. Proof. apply wo_notify_one_r. Qed.
Lemma now_nas s : u_now (notify_all_s s) = u_now s. Proof. apply wo_notify_all_s. Qed.
Lemma now_nar s : u_now (notify_all_r s) = u_now s. Proof. apply wo_notify_all_r. Qed.

Ltac ut :=
  repeat first
    [ assumption
    | apply UT_sw | apply UT_rw | apply UT_slot | apply UT_seq | apply UT_taken | apply UT_lost | apply UT_mtx
    | apply UT_scv | apply UT_rcv | apply UT_cnt | apply UT_closed | apply UT_setrun2 | apply UT_setrun
    | apply (UT_wakes notify_one_s); [apply wo_notify_one_s|]
    | apply (UT_wakes notify_one_r); [apply wo_notify_one_r|]
    | apply (UT_wakes notify_all_s); [apply wo_notify_all_s|]
    | apply (UT_wakes notify_all_r); [apply wo_notify_all_r|]
    | apply UT_goto0; [|exact I]
    | apply UT_sleep; [|cbn; auto] ].

Lemma UT_ustep fx s t s' : UT s -> ustep fx s t = Some s' -> UT s'.
Proof.
  intros U H. pose proof (ut_thr _ U t) as Ht. unfold ustep in H.
  destruct (u_w s t) as [| |b] eqn:Ew; [|discriminate|].
  all: destruct (u_pc s t) eqn:Epc.
  all: try (destruct (u_prog s t) as [|[] ?]; [discriminate|..]).
  all: cbn [timedout] in H.
  all: repeat match type of H with
       | context [if ?b then _ else _] => destruct b eqn:?
       | context [match u_slot ?s with _ => _ end] => destruct (u_slot s) eqn:?
       end.
  all: inversion H; subst; clear H.
  all: unfold ret_send, ret_recv, wait_s, wait_r, deposit, take, lock, unlock in *.
  all: try destruct fx.
  all: try solve [ ut ].
  all: try solve [ apply UT_finish; [ut|];
                   repeat (rewrite ?now_nas, ?now_nar, ?now_n1s, ?now_n1r;
                           cbn [u_now set_u_mtx set_u_sw set_u_rw set_u_slot set_u_seq set_u_taken set_u_lost set_u_w set_u_scv set_u_rcv]);
                   try discriminate; auto;
                   intros _; cbn in Ht; destruct Ht as [_ Ht]; auto ].
Qed.

