(* C09_TimeProofs.v — "false only because of an expired timeout": every RTimeout result of send/recv
   (unbuffered: both code variants; buffered: both code variants) was produced at a moment when the call's Timeout
   had expired, for every schedule and every timing.  Invariants over the FULL states (wake state, ts_wakeup). *)
From Coq Require Import ZArith List Bool Arith Lia.
From PV Require Import Base.U64 C09.C09_Common C09.C09_Unbuf C09.C09_Buf C09.C09_BufProofs C09.C09_UnbufProofs.
Import ListNotations.
Local Open Scope Z_scope.

Lemma expired_mono now now' e : now <= now' -> expired now e = true -> expired now' e = true.
Proof.
  unfold expired. intros H. rewrite !orb_true_iff, !Z.eqb_eq, !Z.leb_le. intros [A|A]; [left; exact A|right; lia].
Qed.
Lemma expired_of_le now e : e <= now -> expired now e = true.
Proof. unfold expired. intros H. rewrite orb_true_iff, Z.leb_le. right. exact H. Qed.

Definition ev_time_ok (ev : event) : Prop := e_r ev = RTimeout -> expired (e_now ev) (e_exp ev) = true.

(* ---------------------------------------------------------------- unbuffered ---------------- *)
(* the fact a thread inside a timed cv wait carries: asleep => ts_wakeup is the call's expiration;
   woken by the timer => the expiration has passed *)
Definition wait_ok (w : wstate) (dl now e : Z) : Prop :=
  (w = Asleep -> dl = e) /\ (w = Woken true -> expired now e = true).
Definition upc_ok (p : upc) (w : wstate) (dl now : Z) : Prop :=
  match p with
  | US_w1 _ e | UR_w e => wait_ok w dl now e
  | _ => True
  end.
Record UT (s : ust) : Prop := mkUT {
  ut_thr : forall t, upc_ok (u_pc s t) (u_w s t) (u_dl s t) (u_now s);
  ut_log : Forall ev_time_ok (u_log s)
}.

Lemma upc_ok_woken p w dl now : upc_ok p w dl now -> upc_ok p (Woken false) dl now.
Proof. destruct p; cbn; auto; intros _; split; discriminate. Qed.

(* projections through the wake-up functions *)
Definition memt (t : tid) (l : list tid) : bool := existsb (Nat.eqb t) l.
Lemma wake_list_w s l t : u_w (wake_list s l) t = if memt t l then Woken false else u_w s t.
Proof.
  revert s. induction l as [|h r IH]; intros s; cbn; [reflexivity|]. rewrite IH. cbn. unfold upd.
  destruct (Nat.eqb t h); cbn; [destruct (memt t r); reflexivity|reflexivity].
Qed.
Lemma wake_list_pc s l : u_pc (wake_list s l) = u_pc s.
Proof. revert s. induction l; intros; cbn; [reflexivity|rewrite IHl; reflexivity]. Qed.
Lemma wake_list_dl s l : u_dl (wake_list s l) = u_dl s.
Proof. revert s. induction l; intros; cbn; [reflexivity|rewrite IHl; reflexivity]. Qed.
Lemma wake_list_now s l : u_now (wake_list s l) = u_now s.
Proof. revert s. induction l; intros; cbn; [reflexivity|rewrite IHl; reflexivity]. Qed.
Lemma wake_list_log s l : u_log (wake_list s l) = u_log s.
Proof. revert s. induction l; intros; cbn; [reflexivity|rewrite IHl; reflexivity]. Qed.

(* a transformer that only wakes threads (by notification) *)
Definition wakes_only (f : ust -> ust) : Prop :=
  forall s, u_pc (f s) = u_pc s /\ u_dl (f s) = u_dl s /\ u_now (f s) = u_now s /\ u_log (f s) = u_log s /\
            forall t, u_w (f s) t = u_w s t \/ u_w (f s) t = Woken false.
Lemma wo_notify_one_s : wakes_only notify_one_s.
Proof.
  intros s. unfold notify_one_s. destruct (u_scv s) as [|h r]; cbn; repeat split; auto.
  intros t. unfold upd. destruct (Nat.eqb t h); auto.
Qed.
Lemma wo_notify_one_r : wakes_only notify_one_r.
Proof.
  intros s. unfold notify_one_r. destruct (u_rcv s) as [|h r]; cbn; repeat split; auto.
  intros t. unfold upd. destruct (Nat.eqb t h); auto.
Qed.
Lemma wo_notify_all_s : wakes_only notify_all_s.
Proof.
  intros s. unfold notify_all_s. rewrite wake_list_pc, wake_list_dl, wake_list_now, wake_list_log. cbn.
  repeat split; auto. intros t. rewrite wake_list_w. cbn. destruct (memt t (u_scv s)); auto.
Qed.
Lemma wo_notify_all_r : wakes_only notify_all_r.
Proof.
  intros s. unfold notify_all_r. rewrite wake_list_pc, wake_list_dl, wake_list_now, wake_list_log. cbn.
  repeat split; auto. intros t. rewrite wake_list_w. cbn. destruct (memt t (u_rcv s)); auto.
Qed.

Lemma UT_wakes f s : wakes_only f -> UT s -> UT (f s).
Proof.
  intros W [A B]. destruct (W s) as (P & D & N & L & Ww). constructor.
  - intros t. rewrite P, D, N. destruct (Ww t) as [E|E]; rewrite E; [apply A|eapply upc_ok_woken; apply A].
  - rewrite L. exact B.
Qed.

(* a transformer that does not touch pc / w / dl / now / log *)
Definition time_frame (f : ust -> ust) : Prop :=
  forall s, u_pc (f s) = u_pc s /\ u_w (f s) = u_w s /\ u_dl (f s) = u_dl s /\ u_now (f s) = u_now s /\ u_log (f s) = u_log s.
Lemma UT_frame f s : time_frame f -> UT s -> UT (f s).
Proof.
  intros F [A B]. destruct (F s) as (P & W & D & N & L). constructor.
  - intros t. rewrite P, W, D, N. apply A.
  - rewrite L. exact B.
Qed.

(* t moves to a pc that is not a timed-wait pc, becoming runnable *)
Lemma UT_goto s t p (w : wstate) :
  UT s -> (match p with US_w1 _ _ | UR_w _ => False | _ => True end) ->
  UT (set_u_w (goto s t p) (upd (u_w s) t w)).
Proof.
  intros [A B] Hp. constructor; cbn; auto.
  intros t0. unfold upd. destruct (Nat.eqb_spec t0 t); [|apply A]. destruct p; cbn; auto; contradiction.
Qed.
Lemma UT_goto0 s t p :
  UT s -> (match p with US_w1 _ _ | UR_w _ => False | _ => True end) -> UT (goto s t p).
Proof.
  intros [A B] Hp. constructor; cbn; auto.
  intros t0. unfold upd. destruct (Nat.eqb_spec t0 t); [|apply A]. destruct p; cbn; auto; contradiction.
Qed.
(* t goes to sleep in a cv wait with deadline e at pc p *)
Lemma UT_sleep s t e p :
  UT s -> (match p with US_w1 _ e' | UR_w e' => e' = e | _ => True end) -> UT (sleep s t e p).
Proof.
  intros [A B] Hp. constructor; cbn; auto.
  intros t0. unfold upd. destruct (Nat.eqb_spec t0 t); [|apply A].
  destruct p; cbn; auto; subst; split; auto; discriminate.
Qed.
Lemma UT_finish s t k v r e :
  UT s -> (r = RTimeout -> expired (u_now s) e = true) -> UT (finish s t k v r e).
Proof.
  intros [A B] Hr. constructor; cbn.
  - intros t0. unfold upd. destruct (Nat.eqb_spec t0 t); [exact I|apply A].
  - constructor; [exact Hr|exact B].
Qed.

Ltac frame_tac := intros [A B]; constructor; cbn; auto.
Lemma UT_sw s x : UT s -> UT (set_u_sw s x). Proof. frame_tac. Qed.
Lemma UT_rw s x : UT s -> UT (set_u_rw s x). Proof. frame_tac. Qed.
Lemma UT_slot s x : UT s -> UT (set_u_slot s x). Proof. frame_tac. Qed.
Lemma UT_seq s x : UT s -> UT (set_u_seq s x). Proof. frame_tac. Qed.
Lemma UT_taken s x : UT s -> UT (set_u_taken s x). Proof. frame_tac. Qed.
Lemma UT_lost s x : UT s -> UT (set_u_lost s x). Proof. frame_tac. Qed.
Lemma UT_mtx s x : UT s -> UT (set_u_mtx s x). Proof. frame_tac. Qed.
Lemma UT_scv s x : UT s -> UT (set_u_scv s x). Proof. frame_tac. Qed.
Lemma UT_rcv s x : UT s -> UT (set_u_rcv s x). Proof. frame_tac. Qed.
Lemma UT_cnt s x : UT s -> UT (set_u_cnt s x). Proof. frame_tac. Qed.
Lemma UT_closed s x : UT s -> UT (set_u_closed s x). Proof. frame_tac. Qed.
Lemma UT_run s s0 t : UT s -> UT (set_u_w s (upd (u_w s0) t Run)) \/ True.
Proof. auto. Qed.
Lemma UT_setrun s t : UT s -> UT (set_u_w s (upd (u_w s) t Run)).
Proof.
  intros [A B]. constructor; cbn; auto. intros t0. unfold upd. destruct (Nat.eqb_spec t0 t); [|apply A].
  destruct (u_pc s t0); cbn; auto; split; discriminate.
Qed.

Lemma UT_setrun2 s m t : UT s -> UT (set_u_w (set_u_mtx s m) (upd (u_w s) t Run)).
Proof.
  intros [A B]. constructor; cbn; auto. intros t0. unfold upd. destruct (Nat.eqb_spec t0 t); [|apply A].
  destruct (u_pc s t0); cbn; auto; split; discriminate.
Qed.

Lemma now_n1s s : u_now (notify_one_s s) = u_now s. Proof. apply wo_notify_one_s. Qed.
Lemma now_n1r s : u_now (notify_one_r s) = u_now s. Proof. apply wo_notify_one_r. Qed.
Lemma now_nas s : u_now (notify_all_s s) = u_now s. Proof. apply wo_notify_all_s. Qed.
Lemma now_nar s : u_now (notify_all_r s) = u_now s. Proof. apply wo_notify_all_r. Qed.

Ltac ut :=
  repeat first
    [ assumption
    | apply UT_sw | apply UT_rw | apply UT_slot | apply UT_seq | apply UT_taken | apply UT_lost | apply UT_mtx
    | apply UT_scv | apply UT_rcv | apply UT_cnt | apply UT_closed | apply UT_setrun2 | apply UT_setrun
    | apply (UT_wakes notify_one_s); [apply wo_notify_one_s|]
    | apply (UT_wakes notify_one_r); [apply wo_notify_one_r|]
    | apply (UT_wakes notify_all_s); [apply wo_notify_all_s|]
    | apply (UT_wakes notify_all_r); [apply wo_notify_all_r|]
    | apply UT_goto0; [|exact I]
    | apply UT_sleep; [|cbn; auto] ].

Lemma UT_ustep fx s t s' : UT s -> ustep fx s t = Some s' -> UT s'.
Proof.
  intros U H. pose proof (ut_thr _ U t) as Ht. unfold ustep in H.
  destruct (u_w s t) as [| |b] eqn:Ew; [|discriminate|].
  all: destruct (u_pc s t) eqn:Epc.
  all: try (destruct (u_prog s t) as [|[] ?]; [discriminate|..]).
  all: cbn [timedout] in H.
  all: repeat match type of H with
       | context [if ?b then _ else _] => destruct b eqn:?
       | context [match u_slot ?s with _ => _ end] => destruct (u_slot s) eqn:?
       end.
  all: inversion H; subst; clear H.
  all: unfold ret_send, ret_recv, wait_s, wait_r, deposit, take, lock, unlock in *.
  all: try destruct fx.
  all: try solve [ ut ].
  all: try solve [ apply UT_finish; [ut|];
                   repeat (rewrite ?now_nas, ?now_nar, ?now_n1s, ?now_n1r;
                           cbn [u_now set_u_mtx set_u_sw set_u_rw set_u_slot set_u_seq set_u_taken set_u_lost set_u_w set_u_scv set_u_rcv]);
                   try discriminate; auto;
                   intros _; cbn in Ht; destruct Ht as [_ Ht]; auto ].
  all: destruct b; [|discriminate]; apply UT_finish; [ut|]; intros _; cbn; destruct Ht as [_ Ht]; apply Ht; reflexivity.
Qed.

Lemma UT_utimer s t s' : UT s -> utimer s t = Some s' -> UT s'.
Proof.
  intros [A B] H. unfold utimer in H. destruct (u_w s t) eqn:Ew; try discriminate.
  destruct (u_dl s t <=? u_now s) eqn:El; [|discriminate]. inversion H; subst; clear H.
  constructor; cbn; auto. intros t0. unfold upd. destruct (Nat.eqb_spec t0 t); [|apply A].
  subst. specialize (A t). rewrite Ew in A. destruct (u_pc s t); cbn in *; auto.
  all: destruct A as [A _]; split; [discriminate|]; intros _; apply expired_of_le; rewrite <- (A eq_refl); apply Z.leb_le; exact El.
Qed.

Lemma UT_tick s d : UT s -> UT (set_u_now s (u_now s + Z.of_nat d)).
Proof.
  intros [A B]. constructor; cbn; auto. intros t. specialize (A t).
  destruct (u_pc s t); cbn in *; auto.
  all: destruct A as [A1 A2]; split; auto; intros X; eapply expired_mono; [|apply A2; exact X]; lia.
Qed.

Theorem UT_reach fx progs now0 s : ureach fx progs now0 s -> UT s.
Proof.
  induction 1 as [|s l s' R IH H].
  - constructor; cbn; auto.
  - destruct l as [t|t|d]; cbn in H.
    + eapply UT_ustep; eauto.
    + eapply UT_utimer; eauto.
    + inversion H; subst. apply UT_tick. exact IH.
Qed.

(* send / recv on the unbuffered channel (as it is and repaired) report a timeout only when the call's Timeout has
   expired: e_now = photon::now at the return, e_exp = the expiration computed at the call *)
Theorem unbuf_timeout_reason fx progs now0 s e :
  ureach fx progs now0 s -> In e (u_log s) -> e_r e = RTimeout -> expired (e_now e) (e_exp e) = true.
Proof.
  intros R Hin Hr. destruct (UT_reach _ _ _ _ R) as [_ B]. rewrite Forall_forall in B. exact (B _ Hin Hr).
Qed.

(* ---------------------------------------------------------------- buffered ------------------ *)
Lemma timeout_of_le now d : timeout_of now d <= MAX64.
Proof. unfold timeout_of, sat_add. destruct (d =? 0); [unfold MAX64; lia|]. destruct (MAX64 <? now + d) eqn:E; [lia|]. apply Z.ltb_ge in E. lia. Qed.

Lemma rewait_ok now e : e <= MAX64 -> rewait_exp now e = e \/ expired now e = true.
Proof.
  intros He. unfold rewait_exp, timeout_of, sat_sub, sat_add.
  destruct (e <? now) eqn:E1.
  - right. apply expired_of_le. apply Z.ltb_lt in E1. lia.
  - apply Z.ltb_ge in E1. destruct (e - now =? 0) eqn:E2.
    + right. apply expired_of_le. apply Z.eqb_eq in E2. lia.
    + left. replace (now + (e - now)) with e by lia. destruct (MAX64 <? e) eqn:E3; [apply Z.ltb_lt in E3; lia|reflexivity].
Qed.

Definition mode_le (m : mode) : Prop := match m with MTry => True | MBlock e => e <= MAX64 end.
Definition bpc_ok (p : bpc) (w : wstate) (dl now : Z) : Prop :=
  match p with
  | BS_slp _ e | BR_slp e => e <= MAX64 /\ (dl = e \/ expired now e = true) /\ (w = Woken true -> expired now e = true)
  | BS_unreg _ e true | BR_unreg e true => expired now e = true
  | BS_cl _ m | BS_rt _ m | BS_rh _ m _ | BS_push _ m | BS_pub _ m | BS_lrw _ m | BS_sig _ m | BR_pop m | BR_lsw m _ | BR_sig m _ => mode_le m
  | BS_exp _ e | BS_reg _ e | BS_wait _ e | BS_unreg _ e false | BS_rc _ e | BS_rct _ e | BS_rch _ e _
  | BR_cl e _ | BR_exp e | BR_reg e | BR_wait e | BR_unreg e false | BR_rc e | BR_rct e | BR_rch e _ => e <= MAX64
  | _ => True
  end.
Record BT (s : bst) : Prop := mkBT {
  bt_thr : forall t, bpc_ok (b_pc s t) (b_w s t) (b_dl s t) (b_now s);
  bt_log : Forall ev_time_ok (b_log s)
}.

Lemma bpc_ok_woken p w dl now : bpc_ok p w dl now -> bpc_ok p (Woken false) dl now.
Proof. destruct p; cbn; auto; try (destruct to; auto); intros (A & B & _); repeat split; auto; discriminate. Qed.

Definition bwakes_only (f : bst -> bst) : Prop :=
  forall s, b_pc (f s) = b_pc s /\ b_dl (f s) = b_dl s /\ b_now (f s) = b_now s /\ b_log (f s) = b_log s /\
            forall t, b_w (f s) t = b_w s t \/ b_w (f s) t = Woken false.
Lemma bwo_wake_list l : bwakes_only (fun s => bwake_list s l).
Proof.
  induction l as [|h r IH]; intros s; cbn; [repeat split; auto|].
  destruct (IH (bwake1 s h)) as (A & B & C & D & E). rewrite A, B, C, D. cbn. repeat split; auto.
  intros t. destruct (E t) as [X|X]; rewrite X; cbn; auto. unfold upd. destruct (Nat.eqb t h); auto.
Qed.
Lemma bwo_put_sem x m : bwakes_only (fun s => put_sem s x m).
Proof. intros s. destruct x; cbn; repeat split; auto. Qed.
Lemma bwo_sem_signal x n : bwakes_only (fun s => sem_signal s x n).
Proof.
  intros s. unfold sem_signal. destruct (resume_n _ _) as [wok rest].
  destruct (bwo_wake_list wok (put_sem s x (mkSem (sm_cnt (get_sem s x) + n) rest))) as (A & B & C & D & E).
  destruct (bwo_put_sem x (mkSem (sm_cnt (get_sem s x) + n) rest) s) as (A' & B' & C' & D' & E').
  rewrite A, B, C, D, A', B', C', D'. repeat split; auto.
  intros t. destruct (E t) as [X|X]; rewrite X; auto.
Qed.
Lemma bwo_sem_after_timeout x : bwakes_only (fun s => sem_after_timeout s x).
Proof.
  intros s. unfold sem_after_timeout. destruct (0 <? _); [|repeat split; auto].
  destruct (resume_n _ _) as [wok rest].
  destruct (bwo_wake_list wok (put_sem s x (mkSem (sm_cnt (get_sem s x)) rest))) as (A & B & C & D & E).
  destruct (bwo_put_sem x (mkSem (sm_cnt (get_sem s x)) rest) s) as (A' & B' & C' & D' & E').
  rewrite A, B, C, D, A', B', C', D'. repeat split; auto.
  intros t. destruct (E t) as [X|X]; rewrite X; auto.
Qed.
Lemma BT_wakes f s : bwakes_only f -> BT s -> BT (f s).
Proof.
  intros W [A B]. destruct (W s) as (P & D & N & L & Ww). constructor.
  - intros t. rewrite P, D, N. destruct (Ww t) as [E|E]; rewrite E; [apply A|eapply bpc_ok_woken; apply A].
  - rewrite L. exact B.
Qed.
Lemma sem_try_wo s x s1 : sem_try s x = Some s1 -> BT s -> BT s1.
Proof.
  unfold sem_try. destruct (1 <=? _); intros H; inversion H. apply (BT_wakes (fun s => put_sem s x _)). apply bwo_put_sem.
Qed.

Lemma BT_upd s0 s' t :
  BT s0 -> b_now s' = b_now s0 ->
  (forall t0, t0 <> t -> b_pc s' t0 = b_pc s0 t0 /\ b_w s' t0 = b_w s0 t0 /\ b_dl s' t0 = b_dl s0 t0) ->
  bpc_ok (b_pc s' t) (b_w s' t) (b_dl s' t) (b_now s0) ->
  Forall ev_time_ok (b_log s') -> BT s'.
Proof.
  intros [A B] N O T L. constructor; auto. intros t0. rewrite N. destruct (Nat.eq_dec t0 t) as [->|Ne]; auto.
  destruct (O _ Ne) as (P & W & D). rewrite P, W, D. apply A.
Qed.

Ltac bframe := intros [A B]; constructor; cbn; auto.
Lemma BT_sw s x : BT s -> BT (set_b_sw s x). Proof. bframe. Qed.
Lemma BT_rw s x : BT s -> BT (set_b_rw s x). Proof. bframe. Qed.
Lemma BT_closed s x : BT s -> BT (set_b_closed s x). Proof. bframe. Qed.
Lemma BT_cnt s x : BT s -> BT (set_b_cnt s x). Proof. bframe. Qed.
Lemma BT_q s x : BT s -> BT (set_b_q s x). Proof. bframe. Qed.
Lemma BT_head s x : BT s -> BT (set_b_head s x). Proof. bframe. Qed.
Lemma BT_pushed s x : BT s -> BT (set_b_pushed s x). Proof. bframe. Qed.
Lemma BT_popped s x : BT s -> BT (set_b_popped s x). Proof. bframe. Qed.
Lemma BT_setrun s t : BT s -> BT (set_b_w s (upd (b_w s) t Run)).
Proof.
  intros [A B]. constructor; cbn; auto. intros t0. unfold upd. destruct (Nat.eqb_spec t0 t); [|apply A].
  specialize (A t0). destruct (b_pc s t0); cbn in *; auto; try (destruct to; auto); destruct A as (X & Y & _); repeat split; auto; discriminate.
Qed.

(* The step lemma `BT s -> bstep fx mcap s t = Some s' -> BT s'` (and with it chan_timeout_reason_buffered) is NOT
   finished: the infrastructure above is what it needs; see notes/C09.md. *)
