(* C09_Common.v — definitions shared by the two channel models (thread/go.h).
   EXECUTABLE DEFINITIONS ONLY.

   Threads are natural numbers.  A value travelling through the channel is the GHOST pair
   (sender, per-sender sequence number): the n-th send/try_send call of thread t carries (t, n),
   so that values are distinct by construction and "which send does this delivery belong to" is
   decidable (the harness sends the integer 1000*t + n).

   Time: `now` is a model variable (photon::now), advanced only by tick transitions; class
   Timeout (common/timeout.h 36-45) is modelled literally: Timeout(x) = x ? sat_add(now,x) : 0,
   expired() = (exp == 0) || (exp <= now); the default Timeout{} is exp = 2^64-1 ("never"). *)
From Coq Require Import ZArith List Bool Arith.
From PV Require Import Base.U64.
Import ListNotations.
Local Open Scope Z_scope.

Definition tid := nat.
Definition val := (nat * nat)%type.

Definition val_eqb (a b : val) : bool := Nat.eqb (fst a) (fst b) && Nat.eqb (snd a) (snd b).

Definition timeout_of (now x : Z) : Z := if x =? 0 then 0 else sat_add now x.
Definition expired (now exp : Z) : bool := (exp =? 0) || (exp <=? now).

(* the operations of a thread program *)
Inductive op : Type :=
| OSend (d : Z)        (* ch.send(v, Timeout(d))     d = 2^64-1: never times out *)
| ORecv (d : Z)        (* ch.recv(x, Timeout(d)) *)
| OTrySend             (* ch.try_send(v) *)
| OTryRecv             (* ch.try_recv(x) *)
| OClose               (* ch.close() *)
| OYield.              (* photon::thread_yield(): no access to the channel *)

(* state of a thread with respect to blocking *)
Inductive wstate : Type :=
| Run                       (* runnable *)
| Asleep                    (* in a wait queue (condition variable / semaphore), SLEEPING *)
| Woken (timedout : bool).  (* taken out of the wait queue, by a notify/signal (false) or by its
                               expired deadline (true); has not yet run *)

(* why an operation returned what it returned *)
Inductive res : Type :=
| ROk            (* true *)
| RClosed        (* false: the channel was observed closed *)
| RTimeout       (* false: the Timeout was observed expired / the wait timed out *)
| RNo.           (* false from try_send / try_recv: full / no receiver / empty *)

Definition res_code (r : res) : Z :=
  match r with ROk => 1 | RClosed => 2 | RTimeout => 3 | RNo => 0 end.

Inductive opkind : Type := KSend | KRecv | KTrySend | KTryRecv | KClose | KYield.
Definition opkind_code (k : opkind) : Z :=
  match k with KSend => 0 | KRecv => 1 | KTrySend => 2 | KTryRecv => 3 | KClose => 4 | KYield => 5 end.

(* one completed operation (the ghost result log, newest first) *)
Record event : Type := mkEv {
  e_t : tid;
  e_k : opkind;
  e_v : option val;     (* value sent / value received *)
  e_r : res;
  e_now : Z;            (* photon::now at the return *)
  e_exp : Z;            (* expiration of the call's Timeout (0 for try_*/close) *)
  e_aux : nat           (* buffered recv returning closed: number of pushes that had happened
                           when its last pop found the queue empty; else 0 *)
}.

(* participants of the all-interleavings transition systems *)
Inductive label : Type :=
| LThr (t : tid)        (* thread t executes its next atomic step *)
| LTimer (t : tid)      (* the vCPU owning t finds t's deadline expired (resume_threads) *)
| LTick (d : nat).      (* time passes *)

Definition upd {A : Type} (f : tid -> A) (t : tid) (x : A) : tid -> A :=
  fun u => if Nat.eqb u t then x else f u.

Fixpoint remove_tid (t : tid) (l : list tid) : list tid :=
  match l with
  | [] => []
  | x :: r => if Nat.eqb x t then remove_tid t r else x :: remove_tid t r
  end.

Definition is_some {A : Type} (o : option A) : bool := match o with Some _ => true | None => false end.
Definition opt_list {A : Type} (o : option A) : list A := match o with Some x => [x] | None => [] end.

Fixpoint mem_val (v : val) (l : list val) : bool :=
  match l with [] => false | x :: r => val_eqb v x || mem_val v r end.
Fixpoint count_val (v : val) (l : list val) : nat :=
  match l with [] => O | x :: r => ((if val_eqb v x then 1 else 0) + count_val v r)%nat end.
