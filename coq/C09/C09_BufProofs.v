(* C09_BufProofs.v — inductive invariants of the buffered-channel model (C09_Buf.v) over EVERY
   schedule (any number of threads / vCPUs, any timing), and the C09 clauses they give. *)
From Coq Require Import ZArith List Bool Arith Lia.
From PV Require Import Base.U64 C09.C09_Common C09.C09_Buf.
Import ListNotations.
Local Open Scope Z_scope.

(* ---- reachability ---------------------------------------------------------------------- *)
Inductive breach (fx : bool) (mcap : Z) (progs : tid -> list op) (now0 : Z) : bst -> Prop :=
| breach_init : breach fx mcap progs now0 (b_init progs now0)
| breach_step s l s' : breach fx mcap progs now0 s -> blstep fx mcap s l = Some s' -> breach fx mcap progs now0 s'.

(* ---- the part of the state the ledger invariants talk about ------------------------------ *)
Record core : Type := mkCore {
  c_pc : tid -> bpc; c_cnt : tid -> nat; c_pushed : list val; c_popped : list val;
  c_q : list (val * bool); c_log : list event; c_closed : bool; c_now : Z;
  c_prog : tid -> list op; c_sw : Z; c_rw : Z; c_head : Z
}.
Definition core_of (s : bst) : core :=
  mkCore (b_pc s) (b_cnt s) (b_pushed s) (b_popped s) (b_q s) (b_log s) (b_closed s) (b_now s)
         (b_prog s) (b_sw s) (b_rw s) (b_head s).

Lemma bwake_list_core s l : core_of (bwake_list s l) = core_of s.
Proof. revert s. induction l as [|h r IH]; intros s; cbn; [reflexivity|]. rewrite IH. reflexivity. Qed.
Lemma put_sem_core s x m : core_of (put_sem s x m) = core_of s.
Proof. destruct x; reflexivity. Qed.
Lemma sem_signal_core s x n : core_of (sem_signal s x n) = core_of s.
Proof.
  unfold sem_signal. destruct (resume_n _ _) as [wok rest]. rewrite bwake_list_core. apply put_sem_core.
Qed.
Lemma sem_after_timeout_core s x : core_of (sem_after_timeout s x) = core_of s.
Proof.
  unfold sem_after_timeout. destruct (0 <? _); [|reflexivity].
  destruct (resume_n _ _) as [wok rest]. rewrite bwake_list_core. apply put_sem_core.
Qed.
Lemma sem_try_core s x s1 : sem_try s x = Some s1 -> core_of s1 = core_of s.
Proof. unfold sem_try. destruct (1 <=? _); intros H; inversion H. apply put_sem_core. Qed.

Definition core_goto (c : core) (t : tid) (p : bpc) : core :=
  mkCore (upd (c_pc c) t p) (c_cnt c) (c_pushed c) (c_popped c) (c_q c) (c_log c) (c_closed c) (c_now c)
         (c_prog c) (c_sw c) (c_rw c) (c_head c).
Lemma sem_sleep_core s x t e p : core_of (sem_sleep s x t e p) = core_goto (core_of s) t p.
Proof. unfold sem_sleep. destruct x; reflexivity. Qed.

Lemma core_pc s : b_pc s = c_pc (core_of s). Proof. reflexivity. Qed.
Lemma core_cnt s : b_cnt s = c_cnt (core_of s). Proof. reflexivity. Qed.
Lemma core_pushed s : b_pushed s = c_pushed (core_of s). Proof. reflexivity. Qed.
Lemma core_popped s : b_popped s = c_popped (core_of s). Proof. reflexivity. Qed.
Lemma core_q s : b_q s = c_q (core_of s). Proof. reflexivity. Qed.
Lemma core_log s : b_log s = c_log (core_of s). Proof. reflexivity. Qed.
Lemma core_closed s : b_closed s = c_closed (core_of s). Proof. reflexivity. Qed.
Lemma core_now s : b_now s = c_now (core_of s). Proof. reflexivity. Qed.

(* ---- the step function seen on the core: semaphores and wake-ups abstracted to two oracle bits
   (to = the wake-up was the timeout; got = the semaphore count could be subtracted) ---------- *)
Definition c_finish (c : core) (t : tid) (k : opkind) (v : option val) (r : res) (e : Z) (aux : nat) : core :=
  mkCore (upd (c_pc c) t BIdle) (c_cnt c) (c_pushed c) (c_popped c) (c_q c)
         (mkEv t k v r (c_now c) e aux :: c_log c) (c_closed c) (c_now c)
         (upd (c_prog c) t (tl (c_prog c t))) (c_sw c) (c_rw c) (c_head c).
Definition c_start_send (c : core) (t : tid) (p : bpc) : core :=
  mkCore (upd (c_pc c) t p) (upd (c_cnt c) t (S (c_cnt c t))) (c_pushed c) (c_popped c) (c_q c) (c_log c)
         (c_closed c) (c_now c) (c_prog c) (c_sw c) (c_rw c) (c_head c).
Definition c_push (c : core) (t : tid) (v : val) (p : bpc) : core :=
  mkCore (upd (c_pc c) t p) (c_cnt c) (c_pushed c ++ [v]) (c_popped c) (c_q c ++ [(v, false)]) (c_log c)
         (c_closed c) (c_now c) (c_prog c) (c_sw c) (c_rw c) (c_head c).
Definition c_publish (c : core) (t : tid) (v : val) (p : bpc) : core :=
  mkCore (upd (c_pc c) t p) (c_cnt c) (c_pushed c) (c_popped c) (publish v (c_q c)) (c_log c)
         (c_closed c) (c_now c) (c_prog c) (c_sw c) (c_rw c) (c_head c).
Definition c_pop (c : core) (t : tid) (v : val) (r : list (val * bool)) (p : bpc) : core :=
  mkCore (upd (c_pc c) t p) (c_cnt c) (c_pushed c) (c_popped c ++ [v]) r (c_log c)
         (c_closed c) (c_now c) (c_prog c) (c_sw c) (c_rw c) (c_head c + 1).
Definition c_set_sw (c : core) (x : Z) : core :=
  mkCore (c_pc c) (c_cnt c) (c_pushed c) (c_popped c) (c_q c) (c_log c) (c_closed c) (c_now c) (c_prog c) x (c_rw c) (c_head c).
Definition c_set_rw (c : core) (x : Z) : core :=
  mkCore (c_pc c) (c_cnt c) (c_pushed c) (c_popped c) (c_q c) (c_log c) (c_closed c) (c_now c) (c_prog c) (c_sw c) x (c_head c).
Definition c_set_closed (c : core) : core :=
  mkCore (c_pc c) (c_cnt c) (c_pushed c) (c_popped c) (c_q c) (c_log c) true (c_now c) (c_prog c) (c_sw c) (c_rw c) (c_head c).
Definition c_set_now (c : core) (x : Z) : core :=
  mkCore (c_pc c) (c_cnt c) (c_pushed c) (c_popped c) (c_q c) (c_log c) (c_closed c) x (c_prog c) (c_sw c) (c_rw c) (c_head c).

Definition cstep (fx : bool) (mcap : Z) (c : core) (t : tid) (to got : bool) : option core :=
    match c_pc c t with
    | BIdle =>
        match c_prog c t with
        | [] => None
        | OSend d :: _ => Some (c_start_send c t (BS_cl (t, c_cnt c t) (MBlock (timeout_of (c_now c) d))))
        | ORecv d :: _ => Some (core_goto c t (BR_pop (MBlock (timeout_of (c_now c) d))))
        | OTrySend :: _ => Some (c_start_send c t (BS_cl (t, c_cnt c t) MTry))
        | OTryRecv :: _ => Some (core_goto c t (BR_pop MTry))
        | OClose :: _ => Some (core_goto c t BC_x)
        | OYield :: _ => Some (c_finish c t KYield None ROk 0 O)
        end
    | BS_cl v m =>
        if c_closed c then Some (c_finish c t (kS m) (Some v) RClosed (mexp m) O)
        else Some (core_goto c t (BS_rt v m))
    | BS_rt v m => Some (core_goto c t (BS_rh v m (c_head c + Z.of_nat (length (c_q c)))))
    | BS_rh v m tl =>
        if u64_sub tl (c_head c) <? mcap then Some (core_goto c t (BS_push v m))
        else match m with
             | MTry => Some (c_finish c t KTrySend (Some v) RNo 0 O)
             | MBlock e => Some (core_goto c t (BS_exp v e))
             end
    | BS_push v m =>
        if Z.of_nat (length (c_q c)) <? ring_cap mcap
        then Some (c_push c t v (BS_pub v m))
        else match m with
             | MTry => Some (c_finish c t KTrySend (Some v) RNo 0 O)
             | MBlock e => Some (core_goto c t (BS_exp v e))
             end
    | BS_pub v m => Some (c_publish c t v (BS_lrw v m))
    | BS_lrw v m =>
        if 0 <? c_rw c then Some (core_goto c t (BS_sig v m))
        else Some (c_finish c t (kS m) (Some v) ROk (mexp m) O)
    | BS_sig v m => Some (c_finish c t (kS m) (Some v) ROk (mexp m) O)
    | BS_exp v e =>
        if expired (c_now c) e then Some (c_finish c t KSend (Some v) RTimeout e O)
        else Some (core_goto c t (BS_reg v e))
    | BS_reg v e => Some (core_goto (c_set_sw c (c_sw c + 1)) t (if fx then BS_rc v e else BS_wait v e))
    | BS_rc v e => if c_closed c then Some (core_goto c t (BS_unreg v e false)) else Some (core_goto c t (BS_rct v e))
    | BS_rct v e => Some (core_goto c t (BS_rch v e (c_head c + Z.of_nat (length (c_q c)))))
    | BS_rch v e tl =>
        if u64_sub tl (c_head c) <? mcap then Some (core_goto c t (BS_unreg v e false)) else Some (core_goto c t (BS_wait v e))
    | BS_wait v e => if got then Some (core_goto c t (BS_unreg v e false)) else Some (core_goto c t (BS_slp v e))
    | BS_slp v e =>
        if to then Some (core_goto c t (BS_unreg v e true))
        else if got then Some (core_goto c t (BS_unreg v e false)) else Some (core_goto c t (BS_slp v e))
    | BS_unreg v e tmo =>
        let c1 := c_set_sw c (c_sw c - 1) in
        if tmo then Some (c_finish c1 t KSend (Some v) RTimeout e O)
        else Some (core_goto c1 t (BS_cl v (MBlock e)))
    | BR_pop m =>
        match c_q c with
        | (v, true) :: r => Some (c_pop c t v r (BR_lsw m v))
        | (_, false) :: _ => Some c
        | [] =>
            match m with
            | MTry => Some (c_finish c t KTryRecv None RNo 0 O)
            | MBlock e => Some (core_goto c t (BR_cl e (length (c_pushed c))))
            end
        end
    | BR_lsw m v =>
        if 0 <? c_sw c then Some (core_goto c t (BR_sig m v))
        else Some (c_finish c t (kR m) (Some v) ROk (mexp m) O)
    | BR_sig m v => Some (c_finish c t (kR m) (Some v) ROk (mexp m) O)
    | BR_cl e np =>
        if c_closed c then Some (c_finish c t KRecv None RClosed e np)
        else Some (core_goto c t (BR_exp e))
    | BR_exp e =>
        if expired (c_now c) e then Some (c_finish c t KRecv None RTimeout e O)
        else Some (core_goto c t (BR_reg e))
    | BR_reg e => Some (core_goto (c_set_rw c (c_rw c + 1)) t (if fx then BR_rc e else BR_wait e))
    | BR_rc e => if c_closed c then Some (core_goto c t (BR_unreg e false)) else Some (core_goto c t (BR_rct e))
    | BR_rct e => Some (core_goto c t (BR_rch e (c_head c + Z.of_nat (length (c_q c)))))
    | BR_rch e tl =>
        if tl =? c_head c then Some (core_goto c t (BR_wait e)) else Some (core_goto c t (BR_unreg e false))
    | BR_wait e => if got then Some (core_goto c t (BR_unreg e false)) else Some (core_goto c t (BR_slp e))
    | BR_slp e =>
        if to then Some (core_goto c t (BR_unreg e true))
        else if got then Some (core_goto c t (BR_unreg e false)) else Some (core_goto c t (BR_slp e))
    | BR_unreg e tmo =>
        let c1 := c_set_rw c (c_rw c - 1) in
        if tmo then Some (c_finish c1 t KRecv None RTimeout e O)
        else Some (core_goto c1 t (BR_pop (MBlock e)))
    | BC_x =>
        if c_closed c then Some (c_finish c t KClose None ROk 0 O)
        else Some (core_goto (c_set_closed c) t BC_ls)
    | BC_ls => Some (core_goto c t (BC_lr (c_sw c)))
    | BC_lr ns => Some (core_goto c t (BC_ss ns (c_rw c)))
    | BC_ss ns nr => Some (core_goto c t (BC_sr nr))
    | BC_sr nr => Some (c_finish c t KClose None ROk 0 O)
    end.

Lemma if_core (b : bool) s1 s2 c : core_of s1 = c -> core_of s2 = c -> core_of (if b then s1 else s2) = c.
Proof. destruct b; auto. Qed.

Lemma bfinish_core s t k v r e aux : core_of (bfinish s t k v r e aux) = c_finish (core_of s) t k v r e aux.
Proof. reflexivity. Qed.
Lemma bgoto_core s t p : core_of (bgoto s t p) = core_goto (core_of s) t p.
Proof. reflexivity. Qed.
Lemma set_b_w_core s x : core_of (set_b_w s x) = core_of s.
Proof. reflexivity. Qed.

Lemma bstep_core fx mcap s t s' :
  bstep fx mcap s t = Some s' ->
  exists to got, cstep fx mcap (core_of s) t to got = Some (core_of s') /\
                 (to = true -> b_w s t = Woken true).
Proof.
  unfold bstep, cstep. intros H.
  destruct (b_w s t) eqn:Ew; [|discriminate|].
  all: change (c_pc (core_of s) t) with (b_pc s t); destruct (b_pc s t) eqn:Epc.
  all: cbn [c_prog c_closed c_now c_q c_head c_pushed c_sw c_rw c_cnt core_of] in *.
  all: try (destruct (b_prog s t) as [|[] ?]; [discriminate|..]).
  all: repeat match type of H with
       | context [if ?b then _ else _] => destruct b eqn:?
       | context [match ?m with MTry => _ | MBlock _ => _ end] => destruct m
       | context [match sem_try ?a ?b with _ => _ end] => destruct (sem_try a b) eqn:?
       | context [match b_q ?s with _ => _ end] => destruct (b_q s) as [|[? []] ?] eqn:?
       end.
  all: inversion H; subst; clear H.
  all: repeat match goal with
       | E : sem_try _ _ = Some _ |- _ => apply sem_try_core in E; rewrite ?set_b_w_core in E
       end.
  all: first
    [ solve [exists false, false; split; [|discriminate];
             rewrite ?bfinish_core, ?bgoto_core, ?sem_sleep_core, ?sem_signal_core, ?sem_after_timeout_core, ?set_b_w_core;
             repeat match goal with E : core_of _ = _ |- _ => rewrite E end; reflexivity]
    | solve [exists false, true; split; [|discriminate];
             rewrite ?bfinish_core, ?bgoto_core, ?sem_sleep_core, ?sem_signal_core, ?sem_after_timeout_core, ?set_b_w_core;
             repeat match goal with E : core_of _ = _ |- _ => rewrite E end; reflexivity]
    | solve [exists true, false; split; [|reflexivity];
             rewrite ?bfinish_core, ?bgoto_core, ?sem_sleep_core, ?sem_signal_core, ?sem_after_timeout_core, ?set_b_w_core;
             repeat match goal with E : core_of _ = _ |- _ => rewrite E end; reflexivity]
    | idtac "REMAINING" ].
Qed.

Lemma btimer_core s t s' : btimer s t = Some s' -> core_of s' = core_of s.
Proof.
  unfold btimer. destruct (b_w s t); try discriminate. destruct (_ <=? _); [|discriminate].
  intros H; inversion H; reflexivity.
Qed.

(* ---- ledger invariant on the core ----------------------------------------------------------- *)
Definition sending (p : bpc) : option (val * bool) :=       (* (value, slot already claimed?) *)
  match p with
  | BS_cl v _ | BS_rt v _ | BS_rh v _ _ | BS_push v _ | BS_exp v _ | BS_reg v _ | BS_wait v _
  | BS_slp v _ | BS_unreg v _ _ | BS_rc v _ | BS_rct v _ | BS_rch v _ _ => Some (v, false)
  | BS_pub v _ | BS_lrw v _ | BS_sig v _ => Some (v, true)
  | _ => None
  end.
Definition holding (p : bpc) : option val :=
  match p with BR_lsw _ v | BR_sig _ v => Some v | _ => None end.
Definition is_sendk (k : opkind) : bool := match k with KSend | KTrySend => true | _ => false end.
Definition is_recvk (k : opkind) : bool := match k with KRecv | KTryRecv => true | _ => false end.
Definition is_ok (r : res) : bool := match r with ROk => true | _ => false end.

(* number of send/try_send calls of t that have returned *)
Definition done_cnt (c : core) (t : tid) : nat :=
  match sending (c_pc c t) with Some _ => pred (c_cnt c t) | None => c_cnt c t end.

(* values returned by successful recv / try_recv calls, newest first *)
Fixpoint recv_vals (l : list event) : list val :=
  match l with
  | [] => []
  | e :: r => if is_recvk (e_k e) && is_ok (e_r e)
              then match e_v e with Some v => v :: recv_vals r | None => recv_vals r end
              else recv_vals r
  end.

Definition send_ev_ok (c : core) (e : event) : Prop :=
  is_sendk (e_k e) = true ->
  exists n, e_v e = Some (e_t e, n) /\ (n < done_cnt c (e_t e))%nat /\
            (e_r e = ROk <-> In (e_t e, n) (c_pushed c)).

(* values of one sender appear in increasing order of their sequence numbers *)
Definition sender_sorted (l : list val) : Prop :=
  forall l1 x l2, l = l1 ++ x :: l2 -> forall y, In y l1 -> fst y = fst x -> (snd y < snd x)%nat.

Record Inv (c : core) : Prop := mkInv {
  i_ledger : c_pushed c = c_popped c ++ map fst (c_q c);
  i_send : forall t v cl, sending (c_pc c t) = Some (v, cl) ->
             v = (t, pred (c_cnt c t)) /\ (0 < c_cnt c t)%nat /\
             (cl = true -> In v (c_pushed c)) /\ (cl = false -> ~ In v (c_pushed c));
  i_bound : forall t n, In (t, n) (c_pushed c) -> (n < c_cnt c t)%nat;
  i_nodup : NoDup (c_pushed c);
  i_log : Forall (send_ev_ok c) (c_log c);
  i_sorted : sender_sorted (c_pushed c);
  i_hold : forall t v, holding (c_pc c t) = Some v -> In v (c_popped c) /\ ~ In v (recv_vals (c_log c));
  i_hold1 : forall t1 t2 v, holding (c_pc c t1) = Some v -> holding (c_pc c t2) = Some v -> t1 = t2;
  i_rnodup : NoDup (recv_vals (c_log c));
  i_rpop : forall v, In v (recv_vals (c_log c)) -> In v (c_popped c);
  i_np : forall t e np, c_pc c t = BR_cl e np -> (np <= length (c_popped c))%nat;
  i_aux : Forall (fun e => e_k e = KRecv -> e_r e = RClosed -> (e_aux e <= length (c_popped c))%nat) (c_log c);
  i_closed : Forall (fun e => e_r e = RClosed -> c_closed c = true) (c_log c);
  i_popret : forall v, In v (c_popped c) ->
               In v (recv_vals (c_log c)) \/ exists t, holding (c_pc c t) = Some v
}.

Lemma upd_same {A} (f : tid -> A) t x : upd f t x t = x.
Proof. unfold upd. rewrite Nat.eqb_refl. reflexivity. Qed.
Lemma upd_other {A} (f : tid -> A) t x u : u <> t -> upd f t x u = f u.
Proof. unfold upd. intros H. destruct (Nat.eqb_spec u t); [contradiction|reflexivity]. Qed.

Lemma inv_init progs now0 : Inv (core_of (b_init progs now0)).
Proof.
  constructor; cbn; try discriminate; try constructor; try contradiction.
  - intros l1 x l2 H. destruct l1; discriminate.
Qed.

Lemma done_cnt_goto c t p t0 :
  sending p = sending (c_pc c t) -> done_cnt (core_goto c t p) t0 = done_cnt c t0.
Proof.
  intros H. unfold done_cnt. cbn. unfold upd. destruct (Nat.eqb_spec t0 t); [subst; rewrite H|]; reflexivity.
Qed.

Lemma send_ev_ok_ext c c' :
  c_pushed c' = c_pushed c -> (forall t, done_cnt c t <= done_cnt c' t)%nat ->
  forall e, send_ev_ok c e -> send_ev_ok c' e.
Proof.
  intros Hp Hd e H Hk. destruct (H Hk) as (n & A & B & C). exists n. rewrite Hp.
  repeat split; auto; try apply C. specialize (Hd (e_t e)). lia.
Qed.

(* a step that only moves the pc of t between two points of the same phase *)
Lemma inv_goto c t p :
  Inv c -> sending p = sending (c_pc c t) -> holding p = holding (c_pc c t) ->
  (forall e np, p = BR_cl e np -> (np <= length (c_popped c))%nat) ->
  Inv (core_goto c t p).
Proof.
  intros I Hs Hh Hn. destruct I. constructor; cbn; auto.
  - intros t0 v cl. unfold upd. destruct (Nat.eqb_spec t0 t); [subst; rewrite Hs|]; eauto.
  - eapply Forall_impl; [|exact i_log0]. apply send_ev_ok_ext; [reflexivity|].
    intros t0. rewrite done_cnt_goto; auto.
  - intros t0 v. unfold upd. destruct (Nat.eqb_spec t0 t); [subst; rewrite Hh|]; eauto.
  - intros t1 t2 v. unfold upd.
    destruct (Nat.eqb_spec t1 t), (Nat.eqb_spec t2 t); subst; rewrite ?Hh; eauto.
  - intros t0 e np. unfold upd. destruct (Nat.eqb_spec t0 t); [subst; apply Hn|]; eauto.
  - intros v Hv. destruct (i_popret0 v Hv) as [X|[t0 X]]; [left; exact X|right].
    exists t0. unfold upd. destruct (Nat.eqb_spec t0 t); [subst; rewrite Hh|]; exact X.
Qed.

(* the counters and the closed flag are not part of the ledger *)
Lemma inv_frame c c' :
  Inv c -> c_pc c' = c_pc c -> c_cnt c' = c_cnt c -> c_pushed c' = c_pushed c -> c_popped c' = c_popped c ->
  c_q c' = c_q c -> c_log c' = c_log c -> (c_closed c = true -> c_closed c' = true) -> Inv c'.
Proof.
  intros I H1 H2 H3 H4 H5 H6 H7. destruct I.
  assert (Hd : forall t, done_cnt c' t = done_cnt c t) by (intros; unfold done_cnt; rewrite H1, H2; reflexivity).
  constructor; rewrite ?H1, ?H2, ?H3, ?H4, ?H5, ?H6; auto.
  - eapply Forall_impl; [|exact i_log0]. apply send_ev_ok_ext; auto. intros; rewrite Hd; lia.
  - eapply Forall_impl; [|exact i_closed0]. cbn. auto.
Qed.

Lemma inv_start_send c t p :
  Inv c -> c_pc c t = BIdle -> sending p = Some ((t, c_cnt c t), false) -> holding p = None ->
  (forall e np, p <> BR_cl e np) -> Inv (c_start_send c t p).
Proof.
  intros I Hi Hs Hh Hn. destruct I. constructor; cbn; auto.
  - intros t0 v cl. unfold upd. destruct (Nat.eqb_spec t0 t).
    + subst. rewrite Hs. intros E; inversion E; subst. cbn. repeat split; try lia; try discriminate.
      intros _ Hin. apply i_bound0 in Hin. lia.
    + eauto.
  - intros t0 n Hin. unfold upd. destruct (Nat.eqb_spec t0 t); [subst; apply i_bound0 in Hin; lia|auto].
  - eapply Forall_impl; [|exact i_log0]. apply send_ev_ok_ext; [reflexivity|].
    intros t0. unfold done_cnt. cbn. unfold upd. destruct (Nat.eqb_spec t0 t); [|lia].
    subst. rewrite Hs, Hi. cbn. lia.
  - intros t0 v. unfold upd. destruct (Nat.eqb_spec t0 t); [subst; rewrite Hh; discriminate|eauto].
  - intros t1 t2 v. unfold upd.
    destruct (Nat.eqb_spec t1 t), (Nat.eqb_spec t2 t); subst; rewrite ?Hh; try discriminate; eauto.
  - intros t0 e np. unfold upd. destruct (Nat.eqb_spec t0 t); [intros E; destruct (Hn _ _ E)|eauto].
  - intros v Hv. destruct (i_popret0 v Hv) as [X|[t0 X]]; [left; exact X|right].
    exists t0. unfold upd. destruct (Nat.eqb_spec t0 t); [subst; rewrite Hi in X; discriminate|exact X].
Qed.

Lemma in_app_single {A} (x y : A) l : In x (l ++ [y]) <-> In x l \/ x = y.
Proof. rewrite in_app_iff. cbn. intuition. Qed.

Lemma NoDup_app_single {A} (l : list A) x : NoDup l -> ~ In x l -> NoDup (l ++ [x]).
Proof.
  induction l as [|a l IH]; intros Hn Hx; cbn.
  - constructor; [intros []|constructor].
  - inversion Hn; subst. constructor.
    + rewrite in_app_single. intros [H|H]; [contradiction|]. subst. apply Hx. left. reflexivity.
    + apply IH; auto. intros H. apply Hx. right. exact H.
Qed.

Lemma inv_push c t v p :
  Inv c -> sending (c_pc c t) = Some (v, false) -> holding (c_pc c t) = None ->
  sending p = Some (v, true) -> holding p = None ->
  (forall e np, p <> BR_cl e np) -> Inv (c_push c t v p).
Proof.
  intros I Hs0 Hh0 Hs Hh Hn. pose proof I as I0. destruct I.
  destruct (i_send0 _ _ _ Hs0) as (Ev & Hpos & _ & Hnin). specialize (Hnin eq_refl).
  assert (Hlt : forall n, In (t, n) (c_pushed c) -> (n < pred (c_cnt c t))%nat).
  { intros n Hin. pose proof (i_bound0 _ _ Hin).
    assert (n <> pred (c_cnt c t)) by (intros ->; apply Hnin; rewrite Ev; exact Hin). lia. }
  constructor; cbn; auto.
  - rewrite i_ledger0, map_app, app_assoc. reflexivity.
  - intros t0 v0 cl. unfold upd. destruct (Nat.eqb_spec t0 t).
    + subst t0. rewrite Hs. intros E; inversion E; subst v0 cl. repeat split; auto; try discriminate.
      intros _. apply in_app_single. auto.
    + intros E. destruct (i_send0 _ _ _ E) as (A & B & C & D). repeat split; auto.
      * intros H. apply in_app_single. auto.
      * intros H Hin. apply in_app_single in Hin. destruct Hin as [Hin|Hin]; [exact (D H Hin)|].
        subst v0. rewrite Ev in Hin. inversion Hin. contradiction.
  - intros t0 n Hin. apply in_app_single in Hin. destruct Hin as [Hin|Hin]; auto.
    rewrite Ev in Hin. inversion Hin; subst. lia.
  - apply NoDup_app_single; auto.
  - eapply Forall_impl; [|exact i_log0]. intros e H Hk. destruct (H Hk) as (n & A & B & C).
    exists n. split; [exact A|]. split.
    + unfold done_cnt in *. cbn. unfold upd. destruct (Nat.eqb_spec (e_t e) t); [|exact B].
      rewrite e0 in *. rewrite Hs. rewrite Hs0 in B. exact B.
    + cbn [c_push c_pushed]. rewrite in_app_single. split; [intros X; left; apply C; exact X|].
      intros [X|X]; [apply C; exact X|]. exfalso. rewrite Ev in X. inversion X. subst n.
      unfold done_cnt in B. rewrite H1, Hs0 in B. lia.
  - intros l1 x l2 E y Hy Hf.
    destruct l2 as [|z l2'] using rev_ind.
    + apply app_inj_tail in E. destruct E as [E1 E2]. subst l1 x.
      destruct y as [ty ny]. rewrite Ev in Hf. cbn in Hf. subst ty. rewrite Ev. cbn. apply Hlt. exact Hy.
    + clear IHl2'. rewrite app_comm_cons, app_assoc in E. apply app_inj_tail in E. destruct E as [E1 E2].
      eapply i_sorted0; eauto.
  - intros t0 v0. unfold upd. destruct (Nat.eqb_spec t0 t); [subst; rewrite Hh; discriminate|eauto].
  - intros t1 t2 v0. unfold upd.
    destruct (Nat.eqb_spec t1 t), (Nat.eqb_spec t2 t); subst; rewrite ?Hh; try discriminate; eauto.
  - intros t0 e np. unfold upd. destruct (Nat.eqb_spec t0 t); [intros E; destruct (Hn _ _ E)|eauto].
  - intros v0 Hv. destruct (i_popret0 v0 Hv) as [X|[t0 X]]; [left; exact X|right].
    exists t0. unfold upd. destruct (Nat.eqb_spec t0 t); [subst; rewrite Hh0 in X; discriminate|exact X].
Qed.

Lemma publish_fst v q : map fst (publish v q) = map fst q.
Proof.
  induction q as [|[x b] r IH]; cbn; [reflexivity|].
  destruct (val_eqb x v); cbn; [reflexivity|]. rewrite IH. reflexivity.
Qed.

Lemma inv_publish c t v p :
  Inv c -> sending p = sending (c_pc c t) -> holding p = holding (c_pc c t) ->
  (forall e np, p <> BR_cl e np) -> Inv (c_publish c t v p).
Proof.
  intros I Hs Hh Hn.
  assert (I1 : Inv (core_goto c t p)) by (apply inv_goto; auto; intros e np E; destruct (Hn _ _ E)).
  destruct I1. constructor; cbn in *; auto. rewrite publish_fst. exact i_ledger0.
Qed.

Lemma inv_pop c t v b r p :
  Inv c -> c_q c = (v, b) :: r -> sending (c_pc c t) = None -> holding (c_pc c t) = None ->
  sending p = None -> holding p = Some v -> (forall e np, p <> BR_cl e np) ->
  Inv (c_pop c t v r p).
Proof.
  intros I Hq Hs0 Hh0 Hs Hh Hn. destruct I.
  assert (Hled : c_pushed c = (c_popped c ++ [v]) ++ map fst r).
  { rewrite i_ledger0, Hq. cbn. rewrite <- app_assoc. reflexivity. }
  assert (Hnin : ~ In v (c_popped c)).
  { intros Hin. rewrite i_ledger0, Hq in i_nodup0. cbn in i_nodup0.
    apply NoDup_remove_2 in i_nodup0. apply i_nodup0. apply in_or_app. left. exact Hin. }
  constructor; cbn; auto.
  - intros t0 v0 cl. unfold upd. destruct (Nat.eqb_spec t0 t); [subst; rewrite Hs; discriminate|eauto].
  - eapply Forall_impl; [|exact i_log0]. apply send_ev_ok_ext; [reflexivity|].
    intros t0. unfold done_cnt. cbn. unfold upd. destruct (Nat.eqb_spec t0 t); [|lia].
    subst. rewrite Hs, Hs0. lia.
  - intros t0 v0. unfold upd. destruct (Nat.eqb_spec t0 t).
    + subst. rewrite Hh. intros E; inversion E; subst. split; [apply in_app_single; auto|].
      intros Hin. apply Hnin. apply i_rpop0. exact Hin.
    + intros E. destruct (i_hold0 _ _ E). split; auto. apply in_app_single. auto.
  - intros t1 t2 v0. unfold upd.
    destruct (Nat.eqb_spec t1 t), (Nat.eqb_spec t2 t); subst; rewrite ?Hh; eauto.
    + intros E1 E2. inversion E1; subst. destruct (i_hold0 _ _ E2). contradiction.
    + intros E1 E2. inversion E2; subst. destruct (i_hold0 _ _ E1). contradiction.
  - intros v0 Hin. apply in_app_single. left. auto.
  - intros t0 e np. unfold upd. destruct (Nat.eqb_spec t0 t); [intros E; destruct (Hn _ _ E)|].
    intros E. rewrite app_length. apply i_np0 in E. lia.
  - eapply Forall_impl; [|exact i_aux0]. cbn. intros e H K R. rewrite app_length. specialize (H K R). lia.
  - intros v0 Hv. apply in_app_single in Hv. destruct Hv as [Hv|Hv].
    + destruct (i_popret0 v0 Hv) as [X|[t0 X]]; [left; exact X|right].
      exists t0. unfold upd. destruct (Nat.eqb_spec t0 t); [subst; rewrite Hh0 in X; discriminate|exact X].
    + subst v0. right. exists t. rewrite upd_same. exact Hh.
Qed.

(* the operation of t returns and is logged *)
Lemma inv_finish c t k ov r e aux :
  Inv c ->
  match sending (c_pc c t) with
  | Some (v, cl) => is_sendk k = true /\ ov = Some v /\ (r = ROk <-> cl = true)
  | None => is_sendk k = false
  end ->
  match holding (c_pc c t) with
  | Some v => is_recvk k = true /\ ov = Some v /\ r = ROk
  | None => is_recvk k = true -> r <> ROk
  end ->
  (r = RClosed -> c_closed c = true) ->
  (k = KRecv -> r = RClosed -> (aux <= length (c_popped c))%nat) ->
  Inv (c_finish c t k ov r e aux).
Proof.
  intros I Hs Hh Hc Ha. pose proof I as I0. destruct I.
  assert (Hdone : forall t0, (done_cnt c t0 <= done_cnt (c_finish c t k ov r e aux) t0)%nat).
  { intros t0. unfold done_cnt. cbn. unfold upd. destruct (Nat.eqb_spec t0 t); [|lia].
    subst. cbn. destruct (sending (c_pc c t)); lia. }
  constructor; cbn; auto.
  - intros t0 v cl. unfold upd. destruct (Nat.eqb_spec t0 t); [discriminate|eauto].
  - constructor.
    + intros Hk. cbn in Hk. cbn [e_t e_v e_r].
      destruct (sending (c_pc c t)) as [[v cl]|] eqn:Es; [|congruence].
      destruct Hs as (_ & -> & Hr). destruct (i_send0 _ _ _ Es) as (Ev & Hpos & Hin & Hnin).
      exists (pred (c_cnt c t)). rewrite <- Ev. split; [reflexivity|]. split.
      * unfold done_cnt. cbn. rewrite upd_same. cbn. lia.
      * cbn. rewrite Hr. destruct cl; split; auto; try discriminate. intros X. exfalso. apply Hnin; auto.
    + eapply Forall_impl; [|exact i_log0]. apply send_ev_ok_ext; [reflexivity|exact Hdone].
  - intros t0 v. unfold upd. destruct (Nat.eqb_spec t0 t); [discriminate|].
    intros E. destruct (i_hold0 _ _ E) as [A B]. split; auto.
    destruct (is_recvk k && is_ok r) eqn:Ek; auto. destruct ov as [v'|]; auto.
    intros [X|X]; auto. subst v'.
    destruct (holding (c_pc c t)) as [w|] eqn:Eh.
    + destruct Hh as (_ & Ew & _). inversion Ew; subst. apply n. symmetry. eapply i_hold2; eauto.
    + apply andb_prop in Ek. destruct Ek as [K1 K2]. destruct r; try discriminate. apply (Hh K1). reflexivity.
  - intros t1 t2 v. unfold upd.
    destruct (Nat.eqb_spec t1 t), (Nat.eqb_spec t2 t); subst; try discriminate; eauto.
  - destruct (is_recvk k && is_ok r) eqn:Ek; auto. destruct ov as [v'|]; auto.
    apply andb_prop in Ek. destruct Ek as [K1 K2].
    destruct (holding (c_pc c t)) as [w|] eqn:Eh.
    + destruct Hh as (_ & Ew & _). inversion Ew; subst. constructor; auto. apply (i_hold0 _ _ Eh).
    + destruct r; try discriminate. exfalso. apply (Hh K1). reflexivity.
  - intros v. destruct (is_recvk k && is_ok r) eqn:Ek; auto. destruct ov as [v'|]; auto.
    apply andb_prop in Ek. destruct Ek as [K1 K2].
    intros [X|X]; auto. subst v'.
    destruct (holding (c_pc c t)) as [w|] eqn:Eh.
    + destruct Hh as (_ & Ew & _). inversion Ew; subst. apply (i_hold0 _ _ Eh).
    + destruct r; try discriminate. exfalso. apply (Hh K1). reflexivity.
  - intros t0 e0 np. unfold upd. destruct (Nat.eqb_spec t0 t); [discriminate|eauto].
  - intros v Hv. destruct (i_popret0 v Hv) as [X|[t0 X]].
    + left. destruct (is_recvk k && is_ok r); auto. destruct ov; auto. right. exact X.
    + destruct (Nat.eqb_spec t0 t).
      * subst t0. rewrite X in Hh. destruct Hh as (K1 & -> & ->). left. rewrite K1. cbn. left. reflexivity.
      * right. exists t0. rewrite upd_other; auto.
Qed.

Lemma inv_set_sw c x : Inv c -> Inv (c_set_sw c x).
Proof. intros I. eapply inv_frame; eauto. Qed.
Lemma inv_set_rw c x : Inv c -> Inv (c_set_rw c x).
Proof. intros I. eapply inv_frame; eauto. Qed.
Lemma inv_set_closed c : Inv c -> Inv (c_set_closed c).
Proof. intros I. eapply inv_frame; eauto. Qed.
Lemma inv_set_now c x : Inv c -> Inv (c_set_now c x).
Proof. intros I. eapply inv_frame; eauto. Qed.

Lemma inv_cstep fx mcap c t to got c' : Inv c -> cstep fx mcap c t to got = Some c' -> Inv c'.
Proof.
  intros I H. unfold cstep in H.
  destruct (c_pc c t) eqn:Epc.
  all: try (destruct (c_prog c t) as [|[] ?]; [discriminate|..]).
  all: repeat match type of H with
       | context [if ?b then _ else _] => destruct b eqn:?
       | context [match ?m with MTry => _ | MBlock _ => _ end] => destruct m
       | context [match c_q ?s with _ => _ end] => destruct (c_q s) as [|[? []] ?] eqn:?
       end.
  all: inversion H; subst; clear H; auto.
  all: try solve [ apply inv_goto; try apply inv_set_sw; try apply inv_set_rw; try apply inv_set_closed; auto;
                   cbn; rewrite ?Epc; try reflexivity; try discriminate;
                   intros ? ? E; inversion E; subst; destruct I as [L]; rewrite L, Heql in *; cbn;
                   rewrite app_nil_r; auto ].
  all: try solve [ apply inv_start_send; auto; try reflexivity; discriminate ].
  all: try solve [ apply inv_finish; try apply inv_set_sw; try apply inv_set_rw; auto; cbn; rewrite ?Epc; cbn;
                   try solve [ destruct m; cbn; intuition (try discriminate; auto) ];
                   intuition (try discriminate; auto; try congruence) ].
  all: try solve [ apply inv_push; auto; rewrite ?Epc; try reflexivity; discriminate ].
  all: try solve [ apply inv_publish; auto; rewrite ?Epc; try reflexivity; discriminate ].
  all: try solve [ eapply inv_pop; eauto; rewrite ?Epc; try reflexivity; discriminate ].
  - apply inv_finish; auto; rewrite ?Epc; cbn; try discriminate; auto.
    intros _ _. destruct I. eapply i_np0; eauto.
Qed.

Theorem inv_reach fx mcap progs now0 s : breach fx mcap progs now0 s -> Inv (core_of s).
Proof.
  induction 1 as [|s l s' R IH H].
  - apply inv_init.
  - destruct l as [t|t|d]; cbn in H.
    + destruct (bstep_core _ _ _ _ _ H) as (to & got & Hc & _). eapply inv_cstep; eauto.
    + rewrite (btimer_core _ _ _ H). exact IH.
    + inversion H; subst. change (Inv (c_set_now (core_of s) (b_now s + Z.of_nat d))). apply inv_set_now. exact IH.
Qed.

(* ---- the clauses of C09 for the buffered channel ------------------------------------------- *)
Section BufferedClauses.
  Variables (fx : bool) (mcap : Z) (progs : tid -> list op) (now0 : Z).
  Notation reach := (breach fx mcap progs now0).

  (* the value v was the argument of a send / try_send call that has started *)
  Definition b_offered (s : bst) (v : val) : Prop := (snd v < b_cnt s (fst v))%nat.
  (* a send / try_send of v has returned r *)
  Definition b_send_ret (s : bst) (v : val) (r : res) : Prop :=
    exists e, In e (b_log s) /\ is_sendk (e_k e) = true /\ e_v e = Some v /\ e_r e = r.
  (* v is in the hands of a receiver that has popped it and is about to return true with it *)
  Definition b_in_hand (s : bst) (v : val) : Prop := exists t, holding (b_pc s t) = Some v.

  (* exactly once: a value whose send returned true sits, exactly once, either in the list of
     popped values or in the ring; every popped value is returned by exactly one successful
     recv / try_recv (or is about to be) and no successful recv returns anything else. *)
  Theorem buf_exactly_once s : reach s ->
    NoDup (b_popped s ++ map fst (b_q s)) /\
    (forall v, b_send_ret s v ROk -> In v (b_popped s ++ map fst (b_q s))) /\
    NoDup (recv_vals (b_log s)) /\
    (forall v, In v (recv_vals (b_log s)) -> In v (b_popped s)) /\
    (forall v, In v (b_popped s) -> In v (recv_vals (b_log s)) \/ b_in_hand s v) /\
    (forall v, b_in_hand s v -> In v (b_popped s) /\ ~ In v (recv_vals (b_log s))).
  Proof.
    intros R. destruct (inv_reach _ _ _ _ _ R). cbn in *.
    rewrite <- i_ledger0. repeat split; auto.
    - intros v (e & Hin & Hk & Hv & Hr). rewrite Forall_forall in i_log0.
      destruct (i_log0 _ Hin Hk) as (n & A & _ & C). rewrite Hv in A. inversion A. apply C. exact Hr.
    - destruct H as [t H]. apply (i_hold0 _ _ H).
    - destruct H as [t H]. apply (i_hold0 _ _ H).
  Qed.

  (* a send that returned false (closed / timeout / full) is never delivered: its value never
     entered the ring *)
  Theorem buf_false_not_delivered s v r : reach s -> b_send_ret s v r -> r <> ROk ->
    ~ In v (b_pushed s) /\ ~ In v (b_popped s) /\ ~ In v (recv_vals (b_log s)).
  Proof.
    intros R (e & Hin & Hk & Hv & Hr) Hne. destruct (inv_reach _ _ _ _ _ R). cbn in *.
    rewrite Forall_forall in i_log0. destruct (i_log0 _ Hin Hk) as (n & A & _ & C).
    rewrite Hv in A. inversion A. subst v.
    assert (N : ~ In (e_t e, n) (b_pushed s)) by (intros X; apply Hne; rewrite <- Hr; apply C; exact X).
    assert (N2 : ~ In (e_t e, n) (b_popped s)) by (intros X; apply N; rewrite i_ledger0; apply in_or_app; auto).
    repeat split; auto.
  Qed.

  (* no invention: whatever is delivered was offered by a send call of its sender *)
  Theorem buf_no_invention s v : reach s ->
    In v (recv_vals (b_log s)) \/ In v (b_popped s) -> b_offered s v /\ In v (b_pushed s).
  Proof.
    intros R H. destruct (inv_reach _ _ _ _ _ R). cbn in *.
    assert (Hp : In v (b_pushed s)).
    { rewrite i_ledger0. apply in_or_app. left. destruct H; auto. }
    split; auto. destruct v as [t n]. apply i_bound0. exact Hp.
  Qed.

  (* FIFO: the ring is first-in first-out (pushed = popped ++ ring), and the values of one sender
     enter it — hence leave it — in the order of its calls *)
  Theorem buf_fifo s : reach s ->
    b_pushed s = b_popped s ++ map fst (b_q s) /\ sender_sorted (b_pushed s) /\ sender_sorted (b_popped s).
  Proof.
    intros R. destruct (inv_reach _ _ _ _ _ R). cbn in *. repeat split; auto.
    intros l1 x l2 E y Hy Hf. eapply (i_sorted0 l1 x (l2 ++ map fst (b_q s))); eauto.
    rewrite i_ledger0, E, <- app_assoc. reflexivity.
  Qed.

  (* a send/recv that reports "closed" has seen m_closed == true *)
  Theorem buf_closed_reason s e : reach s -> In e (b_log s) -> e_r e = RClosed -> b_closed s = true.
  Proof.
    intros R Hin Hr. destruct (inv_reach _ _ _ _ _ R). cbn in *. rewrite Forall_forall in i_closed0. eauto.
  Qed.

  (* drain after close: a recv reports "closed" only after a pop that found the ring empty; every
     value pushed before that pop had been popped (e_aux = number of pushes at that moment) *)
  Theorem buf_drain_after_close s e : reach s -> In e (b_log s) -> e_k e = KRecv -> e_r e = RClosed ->
    firstn (e_aux e) (b_pushed s) = firstn (e_aux e) (b_popped s).
  Proof.
    intros R Hin Hk Hr. destruct (inv_reach _ _ _ _ _ R). cbn in *. rewrite Forall_forall in i_aux0.
    specialize (i_aux0 _ Hin Hk Hr). rewrite i_ledger0. rewrite firstn_app.
    replace (e_aux e - length (b_popped s))%nat with O by lia. cbn. rewrite app_nil_r. reflexivity.
  Qed.
End BufferedClauses.
