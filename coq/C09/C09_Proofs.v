(* C09_Proofs.v — collects the proof files of C09 and states the clauses that are NOT proved. *)
From Coq Require Import ZArith List Bool Arith.
From PV Require Import Base.U64 C09.C09_Common C09.C09_Unbuf C09.C09_Buf.
From PV Require Export C09.C09_Witness C09.C09_BufProofs C09.C09_UnbufProofs C09.C09_TimeProofs.
Import ListNotations.
Local Open Scope Z_scope.

(* every run of a schedule is a reachable state (ties the vm_compute witnesses and the Examples to
   the `reach` predicates of the theorems) *)
Lemma urun_reach fx progs now0 ls : forall s s', ureach fx progs now0 s -> urun fx s ls = Some s' -> ureach fx progs now0 s'.
Proof.
  induction ls as [|l r IH]; intros s s' R H; cbn in H; [inversion H; subst; exact R|].
  destruct (ulstep fx s l) eqn:E; [|discriminate]. eapply IH; [|exact H]. eapply ureach_step; eauto.
Qed.
Lemma brun_reach fx mcap progs now0 ls : forall s s', breach fx mcap progs now0 s -> brun fx mcap s ls = Some s' -> breach fx mcap progs now0 s'.
Proof.
  induction ls as [|l r IH]; intros s s' R H; cbn in H; [inversion H; subst; exact R|].
  destruct (blstep fx mcap s l) eqn:E; [|discriminate]. eapply IH; [|exact H]. eapply breach_step; eauto.
Qed.

(* non-trivial reachable states (the hypothesis `reach s` of every clause theorem is inhabited by
   states in which senders, receivers and a closer have interacted) *)
Example unbuf_reach_example :
  exists s, ureach true f10_progs 1000 s /\ u_taken s = [(2, 0)%nat] /\ u_asleep s 3%nat = true.
Proof.
  destruct f10_fixed_behaviour as (s & H & A & _ & _ & _ & B & _).
  exists s. split; [eapply urun_reach; [apply ureach_init|exact H]|]. auto.
Qed.
Example buf_reach_example :
  exists s, breach false 1 f11b_progs 1000 s /\ b_q s = [((2, 0)%nat, true)] /\ b_asleep s 1%nat = true.
Proof.
  destruct f11b_witness as (s & H & A & _ & _ & _ & B & _).
  exists s. split; [eapply brun_reach; [apply breach_init|exact H]|]. auto.
Qed.

(* ---- clauses stated here; PROVED later in new files (C09_Release.v: chan_timeout_reason_buffered_proved,
   chan_release_unbuffered_proved; see notes/C09.md "Continuation").  The comments below describe the state at the
   time this file was written. ------------------------------------------------------------------------------ *)
(* false only because of an expired timeout: every RTimeout result was produced at a moment when the
   call's Timeout had expired.  (The RClosed half is proved: buf_closed_reason, unbuf_closed_reason.)
   Missing: the invariant "a thread woken by the timer has deadline <= now, and the deadline of a
   sleep is the call's expiration", which needs the wake state and ts_wakeup that the ledger core
   abstracts. *)
(* the unbuffered half is PROVED: C09_TimeProofs.unbuf_timeout_reason (both code variants) *)
Definition chan_timeout_reason_buffered : Prop :=
  forall fx mcap progs now0 s e, breach fx mcap progs now0 s -> In e (b_log s) -> e_r e = RTimeout ->
    expired (e_now e) (e_exp e) = true.

(* release (enabledness) for the REPAIRED unbuffered channel: in a quiescent state (every thread
   is between two operations or asleep) no sender sleeps while a receiver sleeps or the channel is
   closed, no receiver sleeps while the slot is full, and no sender sleeps after its value was
   taken.  Not proved (needs the wait-queue/wake-state invariant); exercised by the oracle of
   checks/C09.py on every arrival order. *)
Definition u_quiescent (s : ust) : Prop :=
  u_mtx s = None /\ forall t, u_pc s t = UIdle \/ u_w s t = Asleep.
Definition chan_release_unbuffered : Prop :=
  forall progs now0 s, ureach true progs now0 s -> u_quiescent s ->
    (u_closed s = true -> forall t, u_w s t <> Asleep) /\
    (forall t e, u_pc s t = UR_w e -> u_w s t = Asleep -> u_slot s = None) /\
    (forall t v e q, u_pc s t = US_w2 v e q -> u_w s t = Asleep -> q = u_seq s) /\
    (forall t1 v e t2 e2, u_pc s t1 = US_w1 v e -> u_w s t1 = Asleep ->
                          u_pc s t2 = UR_w e2 -> u_w s t2 = Asleep -> False).
