(* C09_Proofs.v — collects the proof files of C09 (so that one target builds them all). *)
From PV Require Export C09.C09_Witness.
