(* C09_Witness2.v — the release clause on the REPAIRED buffered channel (fx = true, go.h after the re-check of
   90f131c): still refuted when capacity >= 2 and a send has a finite Timeout.  Evaluated by vm_compute.

   A sender that has consumed a wake-up (a count of m_send_sem) retries; its read_available() is torn: it loads
   `tail`, other threads push and pop so that `head` passes that old tail, it loads `head`, and the size_t
   difference wraps to 2^64-1 >= m_capacity ("full").  Its Timeout has expired meanwhile, so it returns false —
   without using the free slot and without passing the wake-up on.  Another sender stays asleep for ever on
   m_send_sem although a slot is free, the channel is open and nobody is inside a call. *)
From Coq Require Import ZArith List Bool Arith.
From PV Require Import Base.U64 C09.C09_Common C09.C09_Buf C09.C09_Model C09.C09_Witness.
Import ListNotations.
Local Open Scope Z_scope.

(* capacity 2.  T1: three sends; T2: send with Timeout(100); T3, T4: send; T5: three recvs *)
Definition f11r_progs : tid -> list op :=
  progs_fun [[OSend MAX64; OSend MAX64; OSend MAX64]; [OSend 100]; [OSend MAX64]; [OSend MAX64];
             [ORecv MAX64; ORecv MAX64; ORecv MAX64]].
Definition rep (n : nat) (t : nat) : list label := repeat (LThr t) n.
Definition f11r_sched : list label :=
  rep 14 1 ++            (* T1 sends twice: the ring is full *)
  rep 10 2 ++ rep 10 1 ++ rep 10 3 ++ rep 10 4 ++   (* T2, T1, T3, T4 register, re-check (full) and sleep *)
  rep 4 5 ++             (* T5 pops, signals: T2 woken *)
  rep 2 2 ++             (* T2 takes the count, unregisters *)
  rep 4 5 ++             (* T5 pops, signals: T1 woken; the ring is empty, head = tail = 2 *)
  rep 2 1 ++             (* T1 takes the count, unregisters *)
  rep 2 2 ++             (* T2: m_closed.load, then tail.load = 2 inside read_available() *)
  rep 6 1 ++             (* T1 pushes: tail = 3 *)
  rep 4 5 ++             (* T5 pops it: head = 3; signals: T3 woken *)
  rep 8 3 ++             (* T3 takes the count and pushes: one of two slots used *)
  [LTick 200] ++         (* T2's Timeout expires *)
  rep 2 2.               (* T2: head.load = 3, size_t(2 - 3) >= 2: "full"; expired: returns false *)

Definition chan_release_buffered_repaired_refuted_stmt : Prop :=
  exists (mcap : Z) (progs : tid -> list op) (ls : list label) (s : bst) (t : tid) (v : val) (e : Z),
    brun true mcap (b_init progs 1000) ls = Some s /\
    (* a sender is asleep on m_send_sem, deadline never, count 0 ... *)
    b_pc s t = BS_slp v e /\ b_asleep s t = true /\ b_dl s t = MAX64 /\ sm_cnt (b_ssem s) = 0 /\
    (* ... although a slot is free and the channel is open ... *)
    (Z.of_nat (length (b_q s)) <? mcap) = true /\ b_closed s = false /\
    (* ... and every other thread has finished its program (nobody is inside a call, nobody else asleep) *)
    forallb (fun t' => b_done s t' || Nat.eqb t' t) [1;2;3;4;5]%nat = true /\
    (forall t', (5 < t')%nat -> b_pc s t' = BIdle /\ b_prog s t' = []).
Lemma chan_release_buffered_repaired_refuted : chan_release_buffered_repaired_refuted_stmt.
Proof.
  exists 2, f11r_progs, f11r_sched. eexists. exists 4%nat. do 2 eexists.
  split; [vm_compute; reflexivity|].
  repeat (split; [vm_compute; reflexivity|]).
  intros t' H. do 6 (destruct t' as [|t']; [exfalso; inversion H; repeat match goal with X : (_ <= _)%nat |- _ => inversion X; clear X end|]).
  vm_compute. destruct t'; split; reflexivity.
Qed.
