(* C09_Model.v — the executable entry points of the C09 model: the cooperative (single-vCPU)
   runner over the SAME step functions `ustep` / `bstep` that the all-interleavings theorems
   are about (C09_Unbuf.v, C09_Buf.v).  EXECUTABLE DEFINITIONS ONLY.

   Cooperative run = photon on one vCPU with no pre-emption: the thread at the head of the run
   queue executes its steps until a step is not enabled (it is asleep in a wait queue, or its
   program is finished: the thread exits); threads woken by a step are appended to the tail of
   the run queue in wake-up order (prelocked_thread_interrupt, thread.cpp 1459-1475, same-vCPU
   arm: insert_tail); thread_yield() moves the caller to the tail (1315-1323).  Program threads
   1..n are created in that order by the main thread, which then only yields.
   Timed waits with a finite non-zero Timeout need the scheduler's sleep queue and the virtual
   clock: they are replayed through engine E2 (coq/C09/C09_E2.v), not through this runner; this
   runner covers Timeout(0) (expired at once) and the default Timeout (never). *)
From Coq Require Import ZArith List Bool Arith.
From PV Require Import Base.U64 C09.C09_Common C09.C09_Unbuf C09.C09_Buf.
Import ListNotations.
Local Open Scope Z_scope.

Section Coop.
  Variable St : Type.
  Variable step : St -> tid -> option St.
  Variable yielding : St -> tid -> bool.     (* between two ops and the next op is OYield *)
  Variable wk : St -> list tid.
  Variable clr : St -> St.

  (* returns (final state, run queue left, fuel exhausted?) *)
  Fixpoint coop (fuel : nat) (s : St) (rq : list tid) : St * list tid * bool :=
    match fuel with
    | O => (s, rq, true)
    | S f =>
        match rq with
        | [] => (s, [], false)
        | t :: rest =>
            match step s t with
            | None => coop f s rest
            | Some s' =>
                let rq' := if yielding s t then rest ++ wk s' ++ [t] else (t :: rest) ++ wk s' in
                coop f (clr s') rq'
            end
        end
    end.
End Coop.

Definition progs_fun (ps : list (list op)) : tid -> list op :=
  fun t => match t with O => [] | S k => nth k ps [] end.

Definition next_is_yield (p : list op) : bool :=
  match p with OYield :: _ => true | _ => false end.

Definition u_yielding (s : ust) (t : tid) : bool :=
  match u_pc s t with UIdle => next_is_yield (u_prog s t) | _ => false end.
Definition b_yielding (s : bst) (t : tid) : bool :=
  match b_pc s t with BIdle => next_is_yield (b_prog s t) | _ => false end.

Definition tids (n : nat) : list tid := seq 1 n.

(* result of a run: the completed operations (oldest first), the threads whose program is not
   finished, fuel exhausted? *)
Definition run_unbuf (fx : bool) (fuel : nat) (ps : list (list op)) : list event * list tid * bool :=
  let n := length ps in
  let '(s, _, ex) := coop ust (ustep fx) u_yielding u_wk (fun s => set_u_wk s []) fuel
                          (u_init (progs_fun ps) 1000) (tids n) in
  (rev (u_log s), filter (fun t => negb (match u_prog s t with [] => true | _ => false end)) (tids n), ex).

Definition run_buf (fx : bool) (mcap : Z) (fuel : nat) (ps : list (list op)) : list event * list tid * bool :=
  let n := length ps in
  let '(s, _, ex) := coop bst (bstep fx mcap) b_yielding b_wk (fun s => set_b_wk s []) fuel
                          (b_init (progs_fun ps) 1000) (tids n) in
  (rev (b_log s), filter (fun t => negb (match b_prog s t with [] => true | _ => false end)) (tids n), ex).
