(* C09_Unbuf.v — fine-grained model of the UNBUFFERED go-style channel (thread/go.h 361-469,
   close 143-152).  EXECUTABLE DEFINITIONS ONLY.

   photon::mutex and photon::condition_variable are used through their specifications (C01/C03):
     mutex      = exclusive section: `lock` is enabled only when no thread holds it;
     cv.wait    = ATOMICALLY release the mutex and enqueue on the cv's FIFO wait queue
                  (thread_usleep_defer: the deferred unlock runs after the enqueue, thread.cpp
                  1393-1400), then — after the wake-up — re-acquire the mutex; returns
                  -1/ETIMEDOUT iff the wake-up was the expired deadline (waitq_translate_errno);
     notify_one = wake the head of the queue (waitq::resume_one), notify_all = wake all.
   One transition = one block of code executed under m_unbuf_mutex; a block is additionally cut
   at every load of `m_closed`, because close() flips that std::atomic<bool> WITHOUT holding the
   mutex (go.h 144).  Everything else the unbuffered code touches (m_senders_waiting,
   m_receivers_waiting, m_handoff_ptr, m_handoff_ready, m_handoff_seq, the two wait queues) is only
   accessed while holding the mutex (lemma footprint: every step that reads or writes them is
   taken by the holder, C09_UnbufProofs.v `inv_holder`).  Sequential consistency.

   The parameter `fx` selects the code: fx = false is go.h at the pinned commit (finding F10);
   fx = true is go.h after repo_patches/C09-fix-unbuffered-overwrite.diff:
     * loop 1 of unbuffered_send waits while  R == 0 || handoff_ready   (was: R == 0 && !ready)
     * the sender remembers m_handoff_seq at the deposit and loop 2 waits while the counter is
       unchanged (was: while handoff_ready); on timeout it withdraws its value and notify_all()s
     * whoever takes the value increments m_handoff_seq and notify_all()s the senders
       (was: notify_one).
   m_handoff_ptr / m_handoff_ready are one field `u_slot : option val` (they are always set and
   cleared together). *)
From Coq Require Import ZArith List Bool Arith.
From PV Require Import Base.U64 C09.C09_Common.
Import ListNotations.
Local Open Scope Z_scope.

(* program counter of a thread inside an unbuffered-channel call; v = the value being sent,
   e = expiration of the call's Timeout, q = m_handoff_seq read at the deposit *)
Inductive upc : Type :=
| UIdle
| US_lock (v : val) (e : Z)            (* unbuffered_send 362: SCOPED_LOCK *)
| US_l1 (v : val) (e : Z)              (* 368: head of the wait-for-receiver loop (holds the mutex) *)
| US_w1 (v : val) (e : Z)              (* 374: inside m_unbuf_send_cv.wait of loop 1 *)
| US_ck (v : val) (e : Z)              (* 380: if (m_closed) *)
| US_l2 (v : val) (e : Z) (q : nat)    (* 392: head of the wait-until-taken loop *)
| US_w2 (v : val) (e : Z) (q : nat)    (* 402: inside m_unbuf_send_cv.wait of loop 2 *)
| US_rt (v : val) (e : Z) (q : nat)    (* 405: the return expression *)
| UR_lock (e : Z)                      (* unbuffered_recv 409 *)
| UR_l (e : Z)                         (* 417: head of the wait-for-handoff loop *)
| UR_w (e : Z)                         (* 422: inside m_unbuf_recv_cv.wait *)
| UTS_lock (v : val)                   (* unbuffered_try_send 440 *)
| UTS_ck (v : val)                     (* 442: if (m_closed) *)
| UTR_lock                             (* unbuffered_try_recv 458 *)
| UC_x                                 (* close 144: m_closed.exchange(true) *)
| UC_lock.                             (* close 150-152 *)

Record ust : Type := mkU {
  u_now : Z;                  (* photon::now *)
  u_closed : bool;            (* m_closed *)
  u_sw : Z;                   (* m_senders_waiting *)
  u_rw : Z;                   (* m_receivers_waiting *)
  u_slot : option val;        (* m_handoff_ptr / m_handoff_ready *)
  u_seq : nat;                (* m_handoff_seq (repaired code only) *)
  u_mtx : option tid;         (* holder of m_unbuf_mutex *)
  u_scv : list tid;           (* wait queue of m_unbuf_send_cv, head first *)
  u_rcv : list tid;           (* wait queue of m_unbuf_recv_cv *)
  u_pc : tid -> upc;
  u_w : tid -> wstate;
  u_dl : tid -> Z;            (* ts_wakeup of the current sleep *)
  u_prog : tid -> list op;    (* remaining program, current op first *)
  u_cnt : tid -> nat;         (* ghost: number of send/try_send calls started so far *)
  u_taken : list val;         (* ghost: values taken out of the slot by recv/try_recv, oldest first *)
  u_lost : list val;          (* ghost: values overwritten in the slot (never taken) *)
  u_log : list event;         (* ghost: completed operations, newest first *)
  u_wk : list tid             (* ghost: threads in the order they were woken (used only by the
                                 cooperative runner to append them to the run queue) *)
}.

Definition set_u_now (s : ust) (x : Z) : ust :=
  mkU x (u_closed s) (u_sw s) (u_rw s) (u_slot s) (u_seq s) (u_mtx s) (u_scv s) (u_rcv s) (u_pc s) (u_w s) (u_dl s) (u_prog s) (u_cnt s) (u_taken s) (u_lost s) (u_log s) (u_wk s).
Definition set_u_closed (s : ust) (x : bool) : ust :=
  mkU (u_now s) x (u_sw s) (u_rw s) (u_slot s) (u_seq s) (u_mtx s) (u_scv s) (u_rcv s) (u_pc s) (u_w s) (u_dl s) (u_prog s) (u_cnt s) (u_taken s) (u_lost s) (u_log s) (u_wk s).
Definition set_u_sw (s : ust) (x : Z) : ust :=
  mkU (u_now s) (u_closed s) x (u_rw s) (u_slot s) (u_seq s) (u_mtx s) (u_scv s) (u_rcv s) (u_pc s) (u_w s) (u_dl s) (u_prog s) (u_cnt s) (u_taken s) (u_lost s) (u_log s) (u_wk s).
Definition set_u_rw (s : ust) (x : Z) : ust :=
  mkU (u_now s) (u_closed s) (u_sw s) x (u_slot s) (u_seq s) (u_mtx s) (u_scv s) (u_rcv s) (u_pc s) (u_w s) (u_dl s) (u_prog s) (u_cnt s) (u_taken s) (u_lost s) (u_log s) (u_wk s).
Definition set_u_slot (s : ust) (x : option val) : ust :=
  mkU (u_now s) (u_closed s) (u_sw s) (u_rw s) x (u_seq s) (u_mtx s) (u_scv s) (u_rcv s) (u_pc s) (u_w s) (u_dl s) (u_prog s) (u_cnt s) (u_taken s) (u_lost s) (u_log s) (u_wk s).
Definition set_u_seq (s : ust) (x : nat) : ust :=
  mkU (u_now s) (u_closed s) (u_sw s) (u_rw s) (u_slot s) x (u_mtx s) (u_scv s) (u_rcv s) (u_pc s) (u_w s) (u_dl s) (u_prog s) (u_cnt s) (u_taken s) (u_lost s) (u_log s) (u_wk s).
Definition set_u_mtx (s : ust) (x : option tid) : ust :=
  mkU (u_now s) (u_closed s) (u_sw s) (u_rw s) (u_slot s) (u_seq s) x (u_scv s) (u_rcv s) (u_pc s) (u_w s) (u_dl s) (u_prog s) (u_cnt s) (u_taken s) (u_lost s) (u_log s) (u_wk s).
Definition set_u_scv (s : ust) (x : list tid) : ust :=
  mkU (u_now s) (u_closed s) (u_sw s) (u_rw s) (u_slot s) (u_seq s) (u_mtx s) x (u_rcv s) (u_pc s) (u_w s) (u_dl s) (u_prog s) (u_cnt s) (u_taken s) (u_lost s) (u_log s) (u_wk s).
Definition set_u_rcv (s : ust) (x : list tid) : ust :=
  mkU (u_now s) (u_closed s) (u_sw s) (u_rw s) (u_slot s) (u_seq s) (u_mtx s) (u_scv s) x (u_pc s) (u_w s) (u_dl s) (u_prog s) (u_cnt s) (u_taken s) (u_lost s) (u_log s) (u_wk s).
Definition set_u_pc (s : ust) (x : tid -> upc) : ust :=
  mkU (u_now s) (u_closed s) (u_sw s) (u_rw s) (u_slot s) (u_seq s) (u_mtx s) (u_scv s) (u_rcv s) x (u_w s) (u_dl s) (u_prog s) (u_cnt s) (u_taken s) (u_lost s) (u_log s) (u_wk s).
Definition set_u_w (s : ust) (x : tid -> wstate) : ust :=
  mkU (u_now s) (u_closed s) (u_sw s) (u_rw s) (u_slot s) (u_seq s) (u_mtx s) (u_scv s) (u_rcv s) (u_pc s) x (u_dl s) (u_prog s) (u_cnt s) (u_taken s) (u_lost s) (u_log s) (u_wk s).
Definition set_u_dl (s : ust) (x : tid -> Z) : ust :=
  mkU (u_now s) (u_closed s) (u_sw s) (u_rw s) (u_slot s) (u_seq s) (u_mtx s) (u_scv s) (u_rcv s) (u_pc s) (u_w s) x (u_prog s) (u_cnt s) (u_taken s) (u_lost s) (u_log s) (u_wk s).
Definition set_u_prog (s : ust) (x : tid -> list op) : ust :=
  mkU (u_now s) (u_closed s) (u_sw s) (u_rw s) (u_slot s) (u_seq s) (u_mtx s) (u_scv s) (u_rcv s) (u_pc s) (u_w s) (u_dl s) x (u_cnt s) (u_taken s) (u_lost s) (u_log s) (u_wk s).
Definition set_u_cnt (s : ust) (x : tid -> nat) : ust :=
  mkU (u_now s) (u_closed s) (u_sw s) (u_rw s) (u_slot s) (u_seq s) (u_mtx s) (u_scv s) (u_rcv s) (u_pc s) (u_w s) (u_dl s) (u_prog s) x (u_taken s) (u_lost s) (u_log s) (u_wk s).
Definition set_u_taken (s : ust) (x : list val) : ust :=
  mkU (u_now s) (u_closed s) (u_sw s) (u_rw s) (u_slot s) (u_seq s) (u_mtx s) (u_scv s) (u_rcv s) (u_pc s) (u_w s) (u_dl s) (u_prog s) (u_cnt s) x (u_lost s) (u_log s) (u_wk s).
Definition set_u_lost (s : ust) (x : list val) : ust :=
  mkU (u_now s) (u_closed s) (u_sw s) (u_rw s) (u_slot s) (u_seq s) (u_mtx s) (u_scv s) (u_rcv s) (u_pc s) (u_w s) (u_dl s) (u_prog s) (u_cnt s) (u_taken s) x (u_log s) (u_wk s).
Definition set_u_log (s : ust) (x : list event) : ust :=
  mkU (u_now s) (u_closed s) (u_sw s) (u_rw s) (u_slot s) (u_seq s) (u_mtx s) (u_scv s) (u_rcv s) (u_pc s) (u_w s) (u_dl s) (u_prog s) (u_cnt s) (u_taken s) (u_lost s) x (u_wk s).
Definition set_u_wk (s : ust) (x : list tid) : ust :=
  mkU (u_now s) (u_closed s) (u_sw s) (u_rw s) (u_slot s) (u_seq s) (u_mtx s) (u_scv s) (u_rcv s) (u_pc s) (u_w s) (u_dl s) (u_prog s) (u_cnt s) (u_taken s) (u_lost s) (u_log s) x.

Definition u_init (progs : tid -> list op) (now : Z) : ust :=
  mkU now false 0 0 None O None [] [] (fun _ => UIdle) (fun _ => Run) (fun _ => 0) progs (fun _ => O)
      [] [] [] [].

(* ---- helpers ------------------------------------------------------------------------------ *)
Definition goto (s : ust) (t : tid) (p : upc) : ust := set_u_pc s (upd (u_pc s) t p).
Definition lock (s : ust) (t : tid) : ust := set_u_mtx s (Some t).
Definition unlock (s : ust) : ust := set_u_mtx s None.
Definition mfree (s : ust) : bool := negb (is_some (u_mtx s)).

(* prelocked_thread_interrupt(t, -1) on a sleeper that was just taken from a wait queue *)
Definition wake1 (s : ust) (t : tid) : ust :=
  set_u_wk (set_u_w s (upd (u_w s) t (Woken false))) (u_wk s ++ [t]).
Fixpoint wake_list (s : ust) (l : list tid) : ust :=
  match l with [] => s | h :: r => wake_list (wake1 s h) r end.
Definition notify_one_s (s : ust) : ust :=
  match u_scv s with [] => s | h :: r => wake1 (set_u_scv s r) h end.
Definition notify_one_r (s : ust) : ust :=
  match u_rcv s with [] => s | h :: r => wake1 (set_u_rcv s r) h end.
Definition notify_all_s (s : ust) : ust := wake_list (set_u_scv s []) (u_scv s).
Definition notify_all_r (s : ust) : ust := wake_list (set_u_rcv s []) (u_rcv s).

(* cv.wait(mutex, Timeout{e}): release + enqueue atomically; the caller resumes at p *)
Definition sleep (s : ust) (t : tid) (e : Z) (p : upc) : ust :=
  set_u_dl (set_u_w (goto (unlock s) t p) (upd (u_w s) t Asleep)) (upd (u_dl s) t e).
Definition wait_s (s : ust) (t : tid) (e : Z) (p : upc) : ust :=
  let s1 := sleep s t e p in set_u_scv s1 (u_scv s1 ++ [t]).
Definition wait_r (s : ust) (t : tid) (e : Z) (p : upc) : ust :=
  let s1 := sleep s t e p in set_u_rcv s1 (u_rcv s1 ++ [t]).

(* the operation returns: log it, drop it from the program *)
Definition finish (s : ust) (t : tid) (k : opkind) (v : option val) (r : res) (e : Z) : ust :=
  set_u_log (set_u_prog (goto s t UIdle) (upd (u_prog s) t (tl (u_prog s t))))
            (mkEv t k v r (u_now s) e O :: u_log s).
(* return from unbuffered_send: DEFER(m_senders_waiting--), ~SCOPED_LOCK *)
Definition ret_send (s : ust) (t : tid) (v : val) (r : res) (e : Z) : ust :=
  finish (unlock (set_u_sw s (u_sw s - 1))) t KSend (Some v) r e.
Definition ret_recv (s : ust) (t : tid) (v : option val) (r : res) (e : Z) : ust :=
  finish (unlock (set_u_rw s (u_rw s - 1))) t KRecv v r e.

(* take the value out of the hand-off slot (428-432 / 461-465) *)
Definition take (fx : bool) (s : ust) (v : val) : ust :=
  let s1 := set_u_taken (set_u_slot s None) (u_taken s ++ [v]) in
  if fx then notify_all_s (set_u_seq s1 (S (u_seq s1))) else notify_one_s s1.
(* place the value in the slot (387-389 / 448-450); an occupied slot is overwritten *)
Definition deposit (s : ust) (v : val) : ust :=
  notify_one_r (set_u_slot (set_u_lost s (u_lost s ++ opt_list (u_slot s))) (Some v)).

Definition timedout (w : wstate) : bool := match w with Woken true => true | _ => false end.

(* ---- one atomic step of thread t ------------------------------------------------------------ *)
Definition ustep (fx : bool) (s : ust) (t : tid) : option ust :=
  match u_w s t with
  | Asleep => None
  | w =>
    match u_pc s t with
    | UIdle =>
        match u_prog s t with
        | [] => None
        | OSend d :: _ =>
            Some (goto (set_u_cnt s (upd (u_cnt s) t (S (u_cnt s t)))) t
                       (US_lock (t, u_cnt s t) (timeout_of (u_now s) d)))
        | ORecv d :: _ => Some (goto s t (UR_lock (timeout_of (u_now s) d)))
        | OTrySend :: _ =>
            Some (goto (set_u_cnt s (upd (u_cnt s) t (S (u_cnt s t)))) t (UTS_lock (t, u_cnt s t)))
        | OTryRecv :: _ => Some (goto s t UTR_lock)
        | OClose :: _ => Some (goto s t UC_x)
        | OYield :: _ => Some (finish s t KYield None ROk 0)
        end
    (* ---------------- unbuffered_send ---------------- *)
    | US_lock v e =>                                  (* 362-365 *)
        if mfree s then Some (goto (set_u_sw (lock s t) (u_sw s + 1)) t (US_l1 v e)) else None
    | US_l1 v e =>                                    (* 368-378 *)
        if u_closed s then Some (goto s t (US_ck v e))
        else
          let must_wait := if fx then (u_rw s =? 0) || is_some (u_slot s)
                           else (u_rw s =? 0) && negb (is_some (u_slot s)) in
          if must_wait then
            if expired (u_now s) e then Some (ret_send s t v RTimeout e)
            else Some (wait_s s t e (US_w1 v e))
          else Some (goto s t (US_ck v e))
    | US_w1 v e =>                                    (* 374: wake-up, re-lock, test the result *)
        if mfree s then
          let s1 := set_u_w (lock s t) (upd (u_w s) t Run) in
          if timedout w then Some (ret_send s1 t v RTimeout e) else Some (goto s1 t (US_l1 v e))
        else None
    | US_ck v e =>                                    (* 380-389 *)
        if u_closed s then Some (ret_send s t v RClosed e)
        else Some (goto (deposit s v) t (US_l2 v e (u_seq s)))
    | US_l2 v e q =>                                  (* 392-403 *)
        let mine := if fx then Nat.eqb (u_seq s) q else is_some (u_slot s) in
        if negb mine then Some (goto s t (US_rt v e q))
        else if u_closed s then Some (goto s t (US_rt v e q))
        else if expired (u_now s) e then
          (* 394-400: the slot is emptied; the repaired code also notify_all()s the senders *)
          let s1 := set_u_slot s None in
          Some (ret_send (if fx then notify_all_s s1 else s1) t v RTimeout e)
        else Some (wait_s s t e (US_w2 v e q))
    | US_w2 v e q =>                                  (* 402: the result of wait is ignored *)
        if mfree s then Some (goto (set_u_w (lock s t) (upd (u_w s) t Run)) t (US_l2 v e q)) else None
    | US_rt v e q =>                                  (* 405 *)
        let ok := if fx then negb (Nat.eqb (u_seq s) q)
                  else negb (u_closed s) || negb (is_some (u_slot s)) in
        Some (ret_send s t v (if ok then ROk else RClosed) e)
    (* ---------------- unbuffered_recv ---------------- *)
    | UR_lock e =>                                    (* 409-414 *)
        if mfree s then Some (goto (notify_one_s (set_u_rw (lock s t) (u_rw s + 1))) t (UR_l e)) else None
    | UR_l e =>                                       (* 417-436 *)
        match u_slot s with
        | Some v => Some (ret_recv (take fx s v) t (Some v) ROk e)
        | None =>
            if u_closed s then Some (ret_recv s t None RClosed e)
            else if expired (u_now s) e then Some (ret_recv s t None RTimeout e)
            else Some (wait_r s t e (UR_w e))
        end
    | UR_w e =>                                       (* 422 *)
        if mfree s then
          let s1 := set_u_w (lock s t) (upd (u_w s) t Run) in
          if timedout w then Some (ret_recv s1 t None RTimeout e) else Some (goto s1 t (UR_l e))
        else None
    (* ---------------- try_send / try_recv ---------------- *)
    | UTS_lock v => if mfree s then Some (goto (lock s t) t (UTS_ck v)) else None      (* 440 *)
    | UTS_ck v =>                                     (* 442-454 *)
        if u_closed s then Some (finish (unlock s) t KTrySend (Some v) RClosed 0)
        else if (0 <? u_rw s) && negb (is_some (u_slot s))
        then Some (finish (unlock (deposit s v)) t KTrySend (Some v) ROk 0)
        else Some (finish (unlock s) t KTrySend (Some v) RNo 0)
    | UTR_lock =>                                     (* 458-468 *)
        if mfree s then
          match u_slot s with
          | Some v => Some (finish (unlock (take fx (lock s t) v)) t KTryRecv (Some v) ROk 0)
          | None => Some (finish s t KTryRecv None RNo 0)
          end
        else None
    (* ---------------- close ---------------- *)
    | UC_x =>                                         (* 144-146 *)
        if u_closed s then Some (finish s t KClose None ROk 0)
        else Some (goto (set_u_closed s true) t UC_lock)
    | UC_lock =>                                      (* 150-152 *)
        if mfree s then Some (finish (unlock (notify_all_r (notify_all_s (lock s t)))) t KClose None ROk 0)
        else None
    end
  end.

(* the deadline of a sleeping thread is found expired by its vCPU (resume_threads 1278-1296):
   it leaves its wait queue and becomes runnable; its wait will report the timeout *)
Definition utimer (s : ust) (t : tid) : option ust :=
  match u_w s t with
  | Asleep =>
      if u_dl s t <=? u_now s
      then Some (set_u_wk (set_u_w (set_u_rcv (set_u_scv s (remove_tid t (u_scv s))) (remove_tid t (u_rcv s)))
                                   (upd (u_w s) t (Woken true))) (u_wk s ++ [t]))
      else None
  | _ => None
  end.

Definition ulstep (fx : bool) (s : ust) (l : label) : option ust :=
  match l with
  | LThr t => ustep fx s t
  | LTimer t => utimer s t
  | LTick d => Some (set_u_now s (u_now s + Z.of_nat d))
  end.

(* run a schedule; None = some step of the schedule was not enabled *)
Fixpoint urun (fx : bool) (s : ust) (ls : list label) : option ust :=
  match ls with
  | [] => Some s
  | l :: r => match ulstep fx s l with Some s' => urun fx s' r | None => None end
  end.
