(* C09_E2.v — the tie of the C09 models to engine E2 (deterministic single-vCPU replay of the real
   photon runtime under a virtual clock, notes/E2.md).  EXECUTABLE DEFINITIONS ONLY.

   `chan_step` is the `prim_step` of Sched/Prog.v.  It does not re-model the channel: one phase of
   a thread = the thread's steps of the fine-grained model (`ustep` / `bstep`, the SAME functions the
   all-interleavings theorems are about) executed until the thread falls asleep or its call
   returns.  The scheduler side (run queue, sleep heap, wait queues, virtual clock) is Sched/Core:
     * the wait queues of the two condition variables / two semaphores live in Core (QUser 0..3)
       and are copied into the channel state before every phase (so that a sleeper removed by the
       scheduler's timer is no longer seen by notify/signal);
     * a sleep of the fine-grained model becomes ASleep with the same deadline and queue;
     * the threads a phase wakes (ghost list u_wk / b_wk, in order) are woken in Core by
       prelocked_interrupt(th, -1), exactly what waitq::resume_one / semaphore::try_resume do;
     * when a thread resumes, set_error_number tells whether the wake-up was the timeout. *)
From Coq Require Import ZArith List Bool Arith.
From PV Require Import Base.U64 C04.C04_Heap Sched.Core Sched.Prog C09.C09_Common C09.C09_Unbuf C09.C09_Buf.
Import ListNotations.
Local Open Scope Z_scope.

Inductive chan_op : Type :=
| CSend (d : Z) | CRecv (d : Z) | CTrySend | CTryRecv | CClose.

Definition to_op (o : chan_op) : C09_Common.op :=
  match o with
  | CSend d => OSend d | CRecv d => ORecv d | CTrySend => OTrySend | CTryRecv => OTryRecv | CClose => OClose
  end.

Record chan_state : Type := mkCS { cs_cap : Z; cs_fx : bool; cs_u : ust; cs_b : bst }.

Definition Q_SCV := QUser 0.   (* m_unbuf_send_cv *)
Definition Q_RCV := QUser 1.   (* m_unbuf_recv_cv *)
Definition Q_SSEM := QUser 2.  (* m_send_sem *)
Definition Q_RSEM := QUser 3.  (* m_recv_sem *)

Definition ev_ret (e : event) : Z :=
  match e_k e with
  | KSend | KTrySend => match e_r e with ROk => 1 | _ => 0 end
  | KRecv | KTryRecv => match e_r e, e_v e with
                        | ROk, Some (s, n) => 1000 * Z.of_nat s + Z.of_nat n
                        | _, _ => -1
                        end
  | _ => 0
  end.

(* ---- unbuffered ---- *)
Fixpoint u_phase (fuel : nat) (fx : bool) (u : ust) (t : tid) : ust * bool :=
  match fuel with
  | O => (u, false)
  | S f =>
      match u_pc u t, u_prog u t with
      | UIdle, [] => (u, true)
      | _, _ => match ustep fx u t with
                | None => (u, false)
                | Some u' => u_phase f fx u' t
                end
      end
  end.

Definition u_sleep_q (p : upc) : option qid :=
  match p with
  | US_w1 _ _ | US_w2 _ _ _ => Some Q_SCV
  | UR_w _ => Some Q_RCV
  | _ => None
  end.

Fixpoint wake_all_core {U : Type} (st : state U) (l : list tid) : state U :=
  match l with [] => st | h :: r => wake_all_core (prelocked_interrupt st h (-1)) r end.

Definition chan_step_u (st : state chan_state) (t : tid) (o : chan_op) (k : kont)
  : state chan_state * action chan_state :=
  let cs := s_user st in
  (* what the scheduler did since the last phase: the clock, the wait queues *)
  let u0 := set_u_wk (set_u_now (set_u_rcv (set_u_scv (cs_u cs) (wq_get st Q_SCV)) (wq_get st Q_RCV)) (s_now st)) [] in
  let '(st1, u1) :=
    match k with
    | [] => (st, set_u_prog u0 (upd (u_prog u0) t [to_op o]))
    | _ => let '(st', r, _) := set_error_number st t in
           (st', set_u_w u0 (upd (u_w u0) t (Woken (r =? 0))))
    end in
  let '(u2, fin) := u_phase 100 (cs_fx cs) u1 t in
  let st2 := wake_all_core (set_user st1 (mkCS (cs_cap cs) (cs_fx cs) (set_u_wk u2 []) (cs_b cs))) (u_wk u2) in
  if fin then
    match u_log u2 with
    | e :: _ => (st2, ARet (ev_ret e) 0)
    | [] => (st2, AStuck)
    end
  else
    match u_w u2 t, u_sleep_q (u_pc u2 t) with
    | Asleep, Some q => (st2, ASleep (u_dl u2 t) (Some q) None [1])
    | _, _ => (st2, AStuck)
    end.

(* ---- buffered ---- *)
Fixpoint b_phase (fuel : nat) (fx : bool) (mcap : Z) (b : bst) (t : tid) : bst * bool :=
  match fuel with
  | O => (b, false)
  | S f =>
      match b_pc b t, b_prog b t with
      | BIdle, [] => (b, true)
      | _, _ => match bstep fx mcap b t with
                | None => (b, false)
                | Some b' => b_phase f fx mcap b' t
                end
      end
  end.

Definition b_sleep_q (p : bpc) : option qid :=
  match p with
  | BS_slp _ _ => Some Q_SSEM
  | BR_slp _ => Some Q_RSEM
  | _ => None
  end.

Definition chan_step_b (st : state chan_state) (t : tid) (o : chan_op) (k : kont)
  : state chan_state * action chan_state :=
  let cs := s_user st in
  let b00 := cs_b cs in
  let b0 := set_b_wk (set_b_now (set_b_rsem (set_b_ssem b00 (mkSem (sm_cnt (b_ssem b00)) (wq_get st Q_SSEM)))
                                            (mkSem (sm_cnt (b_rsem b00)) (wq_get st Q_RSEM))) (s_now st)) [] in
  let '(st1, b1) :=
    match k with
    | [] => (st, set_b_prog b0 (upd (b_prog b0) t [to_op o]))
    | _ => let '(st', r, _) := set_error_number st t in
           (st', set_b_w b0 (upd (b_w b0) t (Woken (r =? 0))))
    end in
  let '(b2, fin) := b_phase 200 (cs_fx cs) (cs_cap cs) b1 t in
  let st2 := wake_all_core (set_user st1 (mkCS (cs_cap cs) (cs_fx cs) (cs_u cs) (set_b_wk b2 []))) (b_wk b2) in
  if fin then
    match b_log b2 with
    | e :: _ => (st2, ARet (ev_ret e) 0)
    | [] => (st2, AStuck)
    end
  else
    match b_w b2 t, b_sleep_q (b_pc b2 t) with
    | Asleep, Some q => (st2, ASleep (b_dl b2 t) (Some q) None [1])
    | _, _ => (st2, AStuck)
    end.

Definition chan_step (st : state chan_state) (t : tid) (o : chan_op) (k : kont)
  : state chan_state * action chan_state :=
  if cs_cap (s_user st) =? 0 then chan_step_u st t o k else chan_step_b st t o k.

Definition chan_run (fuel : nat) (cap : Z) (fx : bool) (ps : list (list (Prog.op chan_op))) :=
  coop_result chan_step ps fuel VCLOCK_START
              (mkCS cap fx (u_init (fun _ => []) VCLOCK_START) (b_init (fun _ => []) VCLOCK_START)).
