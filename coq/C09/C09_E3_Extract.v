(* Extraction of the C09 E3 adapters (buffered: e3_expand; unbuffered: e3u_expand): ExtrOcamlBasic only. *)
From Coq Require Import ZArith List.
From PV Require Import Base.U64 C09.C09_Common C09.C09_Buf C09.C09_E3 C09.C09_Unbuf C09.C09_E3U.
Require Extraction.
Require Import ExtrOcamlBasic.
Extraction "c09_e3_model.ml" e3_expand e3u_expand.
