(* C09_BufTimeProofs.v — the buffered half of "false only because of an expired timeout":
   the invariant BT of C09_TimeProofs.v is preserved by every step of the buffered model (both code variants),
   hence every RTimeout result of buffered send/recv was produced when the call's Timeout had expired. *)
From Coq Require Import ZArith List Bool Arith Lia.
From PV Require Import Base.U64 C09.C09_Common C09.C09_Buf C09.C09_BufProofs C09.C09_UnbufProofs C09.C09_TimeProofs.
Import ListNotations.
Local Open Scope Z_scope.

Lemma BT_goto X t p : BT X -> bpc_ok p (b_w X t) (b_dl X t) (b_now X) -> BT (bgoto X t p).
Proof.
  intros [A B] H. constructor; cbn; auto.
  intros t0. unfold upd. destruct (Nat.eqb_spec t0 t); [subst; exact H|apply A].
Qed.

Lemma BT_finish X t k v r e aux :
  BT X -> (r = RTimeout -> expired (b_now X) e = true) -> BT (bfinish X t k v r e aux).
Proof.
  intros [A B] H. constructor; cbn.
  - intros t0. unfold upd. destruct (Nat.eqb_spec t0 t); [exact I|apply A].
  - constructor; [exact H|exact B].
Qed.

Lemma BT_put_sem X x m : BT X -> BT (put_sem X x m).
Proof. apply (BT_wakes (fun s => put_sem s x m)). apply bwo_put_sem. Qed.

Lemma BT_sleep X x t dl p e :
  BT X -> (exists v, p = BS_slp v e) \/ p = BR_slp e ->
  e <= MAX64 -> (dl = e \/ expired (b_now X) e = true) ->
  BT (sem_sleep X x t dl p).
Proof.
  intros [A B] Hp He Hd. unfold sem_sleep.
  constructor; [|destruct x; exact B].
  intros t0. destruct x; cbn; unfold upd; (destruct (Nat.eqb_spec t0 t); [|apply A]).
  all: destruct Hp as [[v ->]| ->]; cbn; repeat split; auto; discriminate.
Qed.

Lemma BT_signal X x n : BT X -> BT (sem_signal X x n).
Proof. apply (BT_wakes (fun s => sem_signal s x n)). apply bwo_sem_signal. Qed.
Lemma BT_after_timeout X x : BT X -> BT (sem_after_timeout X x).
Proof. apply (BT_wakes (fun s => sem_after_timeout s x)). apply bwo_sem_after_timeout. Qed.

Lemma now_signal X x n : b_now (sem_signal X x n) = b_now X.
Proof. apply (bwo_sem_signal x n X). Qed.
Lemma now_after_timeout X x : b_now (sem_after_timeout X x) = b_now X.
Proof. apply (bwo_sem_after_timeout x X). Qed.
Lemma now_sem_try X x X1 : sem_try X x = Some X1 -> b_now X1 = b_now X.
Proof. unfold sem_try. destruct (1 <=? _); intros H; inversion H. destruct x; reflexivity. Qed.

Lemma BT_bstep fx mcap s t s' : BT s -> bstep fx mcap s t = Some s' -> BT s'.
Proof.
  intros U H. pose proof (bt_thr _ U t) as Ht. unfold bstep in H.
  destruct (b_w s t) as [| |b] eqn:Ew; [|discriminate|].
  all: destruct (b_pc s t) eqn:Epc.
  all: try (destruct (b_prog s t) as [|[] ?]; [discriminate|..]).
  all: repeat match type of H with
       | context [if ?b then _ else _] => destruct b eqn:?
       | context [match ?m with MTry => _ | MBlock _ => _ end] => destruct m
       | context [match sem_try ?a ?b with _ => _ end] => destruct (sem_try a b) eqn:?
       | context [match b_q ?s with _ => _ end] => destruct (b_q s) as [|[? []] ?] eqn:?
       end.
  all: inversion H; subst; clear H; auto.
  all: cbn [bpc_ok mode_le] in Ht.
  all: try match goal with E : sem_try _ _ = Some ?s1 |- _ =>
         pose proof (now_sem_try _ _ _ E) as Hnow1;
         assert (BT s1) by (eapply sem_try_wo; [exact E|]; try apply BT_setrun; exact U) end.
  all: first
    [ solve [ apply BT_goto;
              [ repeat first [assumption | apply BT_sw | apply BT_rw | apply BT_closed | apply BT_cnt | apply BT_q
                             | apply BT_head | apply BT_pushed | apply BT_popped | apply BT_signal | apply BT_after_timeout
                             | apply BT_setrun ]
              | cbn [bpc_ok mode_le]; rewrite ?now_signal, ?now_after_timeout; cbn;
                try apply timeout_of_le; try tauto; try (destruct Ht as (? & ? & ?); auto) ] ]
    | solve [ apply BT_finish;
              [ repeat first [assumption | apply BT_sw | apply BT_rw | apply BT_closed | apply BT_cnt | apply BT_q
                             | apply BT_head | apply BT_pushed | apply BT_popped | apply BT_signal | apply BT_after_timeout
                             | apply BT_setrun ]
              | rewrite ?now_signal; cbn; try discriminate; auto ] ]
    | solve [ apply BT_sleep; [ try apply BT_setrun; exact U | eauto | tauto
                              | cbn; first [ apply rewait_ok; assumption | tauto ] ] ]
    | idtac ].
  all: eapply BT_sleep;
       [ first [exact U | apply BT_setrun; exact U]
       | first [left; eexists; reflexivity | right; reflexivity]
       | first [exact Ht | apply Ht]
       | first [apply rewait_ok; exact Ht | cbn; apply Ht] ].
Qed.

Theorem BT_reach fx mcap progs now0 s : breach fx mcap progs now0 s -> BT s.
Proof.
  induction 1 as [|s l s' R IH H].
  - constructor; cbn; auto.
  - destruct l as [t|t|d]; cbn in H.
    + eapply BT_bstep; eauto.
    + destruct IH as [A B]. unfold btimer in H. destruct (b_w s t) eqn:Ew; try discriminate.
      destruct (b_dl s t <=? b_now s) eqn:El; [|discriminate]. inversion H; subst; clear H.
      constructor; cbn; auto. intros t0. unfold upd. destruct (Nat.eqb_spec t0 t); [|apply A].
      subst. specialize (A t). rewrite Ew in A. apply Z.leb_le in El.
      destruct (b_pc s t); cbn in *; auto; try (destruct to; auto).
      all: destruct A as (A1 & A2 & _); repeat split; auto; intros _;
           destruct A2 as [A2|A2]; [apply expired_of_le; lia|exact A2].
    + inversion H; subst. destruct IH as [A B]. constructor; cbn; auto. intros t. specialize (A t).
      assert (M : forall e, expired (b_now s) e = true -> expired (b_now s + Z.of_nat d) e = true)
        by (intros e; apply expired_mono; lia).
      destruct (b_pc s t); cbn in *; auto; try (destruct to; auto).
      all: destruct A as (A1 & A2 & A3); repeat split; auto; destruct A2; auto.
Qed.

(* send / recv on the buffered channel (as it was and repaired) report a timeout only when the call's Timeout has
   expired: e_now = photon::now at the return, e_exp = the expiration computed at the call *)
Theorem buf_timeout_reason fx mcap progs now0 s e :
  breach fx mcap progs now0 s -> In e (b_log s) -> e_r e = RTimeout -> expired (e_now e) (e_exp e) = true.
Proof.
  intros R Hin Hr. destruct (BT_reach _ _ _ _ _ R) as [_ B]. rewrite Forall_forall in B. exact (B _ Hin Hr).
Qed.
