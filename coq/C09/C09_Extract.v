(* Extraction of the C09 model: ExtrOcamlBasic only. *)
From Coq Require Import ZArith List.
From PV Require Import Base.U64 C09.C09_Common C09.C09_Unbuf C09.C09_Buf C09.C09_Model.
Require Extraction.
Require Import ExtrOcamlBasic.
Extraction "c09_model.ml" run_unbuf run_buf ulstep blstep u_init b_init progs_fun res_code opkind_code.
