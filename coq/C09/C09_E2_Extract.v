(* Extraction of the C09 E2 adapter: ExtrOcamlBasic only. *)
From Coq Require Import ZArith List.
From PV Require Import Base.U64 Sched.Core Sched.Prog C09.C09_E2.
Require Extraction.
Require Import ExtrOcamlBasic.
Extraction "c09_e2_model.ml" chan_run.
