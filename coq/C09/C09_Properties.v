From PV Require Import C09.C09_Proofs.
Theorem chan_exactly_once_unbuffered_refuted_witness : f10_witness_stmt.
Proof. exact f10_witness. Qed.
Print Assumptions chan_exactly_once_unbuffered_refuted_witness.
