From PV Require Import C09.C09_Proofs.
Theorem chan_exactly_once_unbuffered_refuted_witness : exists s, C09_Unbuf.urun false (C09_Unbuf.u_init f10_progs 1000) f10_sched = Some s /\ u_sent_true s (2, 0)%nat = true /\ C09_Common.count_val (2, 0)%nat (C09_Unbuf.u_taken s) = O /\ C09_Unbuf.u_taken s = ((3, 0)%nat :: nil) /\ C09_Unbuf.u_lost s = ((2, 0)%nat :: nil) /\ C09_Unbuf.u_slot s = None /\ u_done s 1%nat = true /\ u_done s 2%nat = true /\ u_asleep s 3%nat = true /\ C09_Unbuf.u_scv s = (3%nat :: nil) /\ C09_Unbuf.u_mtx s = None.
Proof. exact f10_witness. Qed.
Print Assumptions chan_exactly_once_unbuffered_refuted_witness.
