From Coq Require Import ZArith List.
From PV Require Import C09.C09_Proofs C09.C09_Release.

(* PRE-FIX variants (fx = false = go.h before b2db000 / 90f131c; /repo now contains both repairs, these record why):
   F10 (unbuffered channel before its repair): exactly-once and release are refuted *)
Theorem chan_exactly_once_unbuffered_refuted : C09_Witness.chan_exactly_once_unbuffered_refuted_stmt.
Proof. exact C09_Witness.chan_exactly_once_unbuffered_refuted. Qed.
Print Assumptions chan_exactly_once_unbuffered_refuted.
Theorem chan_release_unbuffered_refuted : C09_Witness.chan_release_unbuffered_refuted_stmt.
Proof. exact C09_Witness.chan_release_unbuffered_refuted. Qed.
Print Assumptions chan_release_unbuffered_refuted.
(* F11 (buffered channel BEFORE its repair, fx = false): release is refuted across vCPUs *)
Theorem chan_release_buffered_refuted : C09_Witness.chan_release_buffered_refuted_stmt.
Proof. exact C09_Witness.chan_release_buffered_refuted. Qed.
Print Assumptions chan_release_buffered_refuted.

(* unbuffered channel, repaired code: every schedule *)
Theorem chan_exactly_once_unbuffered :
  forall progs now0 s, C09_UnbufProofs.ureach true progs now0 s ->
    NoDup (C09_Unbuf.u_taken s ++ C09_Common.opt_list (C09_Unbuf.u_slot s)) /\
    (forall v, C09_UnbufProofs.u_send_ret s C09_Common.KSend v C09_Common.ROk -> In v (C09_Unbuf.u_taken s)) /\
    (forall v, C09_UnbufProofs.u_send_ret s C09_Common.KTrySend v C09_Common.ROk ->
               In v (C09_Unbuf.u_taken s ++ C09_Common.opt_list (C09_Unbuf.u_slot s))) /\
    C09_BufProofs.recv_vals (C09_Unbuf.u_log s) = rev (C09_Unbuf.u_taken s).
Proof. exact C09_UnbufProofs.unbuf_exactly_once. Qed.
Print Assumptions chan_exactly_once_unbuffered.
Theorem chan_timeout_not_delivered_unbuffered :
  forall progs now0 s k v r, C09_UnbufProofs.ureach true progs now0 s -> C09_BufProofs.is_sendk k = true ->
    C09_UnbufProofs.u_send_ret s k v r -> r = C09_Common.RTimeout \/ r = C09_Common.RNo ->
    ~ In v (C09_Unbuf.u_taken s) /\ C09_Unbuf.u_slot s <> Some v.
Proof. exact C09_UnbufProofs.unbuf_timeout_not_delivered. Qed.
Print Assumptions chan_timeout_not_delivered_unbuffered.
Theorem chan_no_invention_unbuffered :
  forall progs now0 s v, C09_UnbufProofs.ureach true progs now0 s ->
    In v (C09_Unbuf.u_taken s ++ C09_Common.opt_list (C09_Unbuf.u_slot s)) -> C09_UnbufProofs.u_offered s v.
Proof. exact C09_UnbufProofs.unbuf_no_invention. Qed.
Print Assumptions chan_no_invention_unbuffered.
Theorem chan_fifo_per_sender_unbuffered :
  forall progs now0 s, C09_UnbufProofs.ureach true progs now0 s ->
    C09_BufProofs.sender_sorted (C09_Unbuf.u_taken s ++ C09_Common.opt_list (C09_Unbuf.u_slot s)).
Proof. exact C09_UnbufProofs.unbuf_fifo. Qed.
Print Assumptions chan_fifo_per_sender_unbuffered.
Theorem chan_false_closed_only_after_close_unbuffered :
  forall progs now0 s e, C09_UnbufProofs.ureach true progs now0 s -> In e (C09_Unbuf.u_log s) ->
    C09_Common.e_r e = C09_Common.RClosed -> C09_Unbuf.u_closed s = true.
Proof. exact C09_UnbufProofs.unbuf_closed_reason. Qed.
Print Assumptions chan_false_closed_only_after_close_unbuffered.
Theorem chan_unbuffered_footprint_protected :
  forall progs now0 s t, C09_UnbufProofs.ureach true progs now0 s ->
    (C09_UnbufProofs.holds (C09_Unbuf.u_pc s t) = true <-> C09_Unbuf.u_mtx s = Some t).
Proof. exact C09_UnbufProofs.unbuf_footprint_protected. Qed.
Print Assumptions chan_unbuffered_footprint_protected.

(* buffered channel, code as it is (fx = false) AND after the F11 repair (fx = true): every schedule, every capacity *)
Theorem chan_exactly_once_buffered :
  forall fx mcap progs now0 s, C09_BufProofs.breach fx mcap progs now0 s ->
    NoDup (C09_Buf.b_popped s ++ map fst (C09_Buf.b_q s)) /\
    (forall v, C09_BufProofs.b_send_ret s v C09_Common.ROk -> In v (C09_Buf.b_popped s ++ map fst (C09_Buf.b_q s))) /\
    NoDup (C09_BufProofs.recv_vals (C09_Buf.b_log s)) /\
    (forall v, In v (C09_BufProofs.recv_vals (C09_Buf.b_log s)) -> In v (C09_Buf.b_popped s)) /\
    (forall v, In v (C09_Buf.b_popped s) -> In v (C09_BufProofs.recv_vals (C09_Buf.b_log s)) \/ C09_BufProofs.b_in_hand s v) /\
    (forall v, C09_BufProofs.b_in_hand s v -> In v (C09_Buf.b_popped s) /\ ~ In v (C09_BufProofs.recv_vals (C09_Buf.b_log s))).
Proof. exact C09_BufProofs.buf_exactly_once. Qed.
Print Assumptions chan_exactly_once_buffered.
Theorem chan_false_not_delivered_buffered :
  forall fx mcap progs now0 s v r, C09_BufProofs.breach fx mcap progs now0 s -> C09_BufProofs.b_send_ret s v r -> r <> C09_Common.ROk ->
    ~ In v (C09_Buf.b_pushed s) /\ ~ In v (C09_Buf.b_popped s) /\ ~ In v (C09_BufProofs.recv_vals (C09_Buf.b_log s)).
Proof. exact C09_BufProofs.buf_false_not_delivered. Qed.
Print Assumptions chan_false_not_delivered_buffered.
Theorem chan_no_invention_buffered :
  forall fx mcap progs now0 s v, C09_BufProofs.breach fx mcap progs now0 s ->
    In v (C09_BufProofs.recv_vals (C09_Buf.b_log s)) \/ In v (C09_Buf.b_popped s) ->
    C09_BufProofs.b_offered s v /\ In v (C09_Buf.b_pushed s).
Proof. exact C09_BufProofs.buf_no_invention. Qed.
Print Assumptions chan_no_invention_buffered.
Theorem chan_fifo_per_sender_buffered :
  forall fx mcap progs now0 s, C09_BufProofs.breach fx mcap progs now0 s ->
    C09_Buf.b_pushed s = C09_Buf.b_popped s ++ map fst (C09_Buf.b_q s) /\
    C09_BufProofs.sender_sorted (C09_Buf.b_pushed s) /\ C09_BufProofs.sender_sorted (C09_Buf.b_popped s).
Proof. exact C09_BufProofs.buf_fifo. Qed.
Print Assumptions chan_fifo_per_sender_buffered.
Theorem chan_false_closed_only_after_close_buffered :
  forall fx mcap progs now0 s e, C09_BufProofs.breach fx mcap progs now0 s -> In e (C09_Buf.b_log s) ->
    C09_Common.e_r e = C09_Common.RClosed -> C09_Buf.b_closed s = true.
Proof. exact C09_BufProofs.buf_closed_reason. Qed.
Print Assumptions chan_false_closed_only_after_close_buffered.
Theorem chan_drain_after_close :
  forall fx mcap progs now0 s e, C09_BufProofs.breach fx mcap progs now0 s -> In e (C09_Buf.b_log s) ->
    C09_Common.e_k e = C09_Common.KRecv -> C09_Common.e_r e = C09_Common.RClosed ->
    firstn (C09_Common.e_aux e) (C09_Buf.b_pushed s) = firstn (C09_Common.e_aux e) (C09_Buf.b_popped s).
Proof. exact C09_BufProofs.buf_drain_after_close. Qed.
Print Assumptions chan_drain_after_close.

(* false only because of an expired timeout, unbuffered channel (as it is and repaired) *)
Theorem chan_false_timeout_only_when_expired_unbuffered :
  forall fx progs now0 s e, C09_UnbufProofs.ureach fx progs now0 s -> In e (C09_Unbuf.u_log s) ->
    C09_Common.e_r e = C09_Common.RTimeout -> C09_Common.expired (C09_Common.e_now e) (C09_Common.e_exp e) = true.
Proof. exact C09_TimeProofs.unbuf_timeout_reason. Qed.
Print Assumptions chan_false_timeout_only_when_expired_unbuffered.

(* false only because of an expired timeout, buffered channel (before and after the F11 repair) *)
Theorem chan_false_timeout_only_when_expired_buffered :
  forall fx mcap progs now0 s e, C09_BufProofs.breach fx mcap progs now0 s -> In e (C09_Buf.b_log s) ->
    C09_Common.e_r e = C09_Common.RTimeout -> C09_Common.expired (C09_Common.e_now e) (C09_Common.e_exp e) = true.
Proof. exact C09_BufTimeProofs.buf_timeout_reason. Qed.
Print Assumptions chan_false_timeout_only_when_expired_buffered.

(* release, unbuffered channel, REPAIRED code (fx = true), every schedule: in a quiescent state (mutex free, every
   thread between two operations or asleep in a cv wait) nobody sleeps after close(), no receiver sleeps while a value
   is in the slot, a sender asleep in loop 2 still has its value in the slot (not taken), and no sender waiting for a
   receiver / the slot sleeps while a receiver sleeps *)
Theorem chan_release_unbuffered :
  forall progs now0 s, C09_UnbufProofs.ureach true progs now0 s -> C09_UnbufRelease.uquiescent s ->
    (C09_Unbuf.u_closed s = true -> forall t, C09_Unbuf.u_w s t <> C09_Common.Asleep) /\
    (forall t e, C09_Unbuf.u_pc s t = C09_Unbuf.UR_w e -> C09_Unbuf.u_w s t = C09_Common.Asleep -> C09_Unbuf.u_slot s = None) /\
    (forall t v e q, C09_Unbuf.u_pc s t = C09_Unbuf.US_w2 v e q -> C09_Unbuf.u_w s t = C09_Common.Asleep ->
                     q = C09_Unbuf.u_seq s /\ C09_Unbuf.u_slot s = Some v) /\
    (forall t1 v e t2 e2, C09_Unbuf.u_pc s t1 = C09_Unbuf.US_w1 v e -> C09_Unbuf.u_w s t1 = C09_Common.Asleep ->
                          C09_Unbuf.u_pc s t2 = C09_Unbuf.UR_w e2 -> C09_Unbuf.u_w s t2 = C09_Common.Asleep -> False).
Proof. exact C09_UnbufRelease.unbuf_release. Qed.
Print Assumptions chan_release_unbuffered.
Example chan_release_unbuffered_hyps_met :
  exists s, C09_UnbufProofs.ureach true C09_Witness.f10_progs 1000 s /\ C09_UnbufRelease.uquiescent s /\
            C09_Unbuf.u_w s 3%nat = C09_Common.Asleep /\
            (exists v e, C09_Unbuf.u_pc s 3%nat = C09_Unbuf.US_w1 v e) /\ C09_Unbuf.u_taken s = ((2, 0)%nat :: nil).
Proof. exact C09_UnbufRelease.unbuf_release_example. Qed.

(* F40: release on the REPAIRED buffered channel (fx = true) is still refuted for capacity >= 2 with a timed send:
   a sender that consumed a wake-up leaves by timeout after a torn tail/head read; another sender sleeps for ever
   with a free slot, the channel open, nobody inside a call (replayed on the real go.h by the E3 step of the check) *)
Theorem chan_release_buffered_repaired_refuted : C09_Witness2.chan_release_buffered_repaired_refuted_stmt.
Proof. exact C09_Witness2.chan_release_buffered_repaired_refuted. Qed.
Print Assumptions chan_release_buffered_repaired_refuted.
