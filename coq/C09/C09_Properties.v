From Coq Require Import ZArith List.
From PV Require Import C09.C09_Proofs.

(* F10 (unbuffered channel as it is): exactly-once and release are refuted *)
Theorem chan_exactly_once_unbuffered_refuted : C09_Witness.chan_exactly_once_unbuffered_refuted_stmt.
Proof. exact C09_Witness.chan_exactly_once_unbuffered_refuted. Qed.
Print Assumptions chan_exactly_once_unbuffered_refuted.
Theorem chan_release_unbuffered_refuted : C09_Witness.chan_release_unbuffered_refuted_stmt.
Proof. exact C09_Witness.chan_release_unbuffered_refuted. Qed.
Print Assumptions chan_release_unbuffered_refuted.
(* F11 (buffered channel): release is refuted across vCPUs *)
Theorem chan_release_buffered_refuted : C09_Witness.chan_release_buffered_refuted_stmt.
Proof. exact C09_Witness.chan_release_buffered_refuted. Qed.
Print Assumptions chan_release_buffered_refuted.

(* unbuffered channel, repaired code: every schedule *)
Theorem chan_exactly_once_unbuffered :
  forall progs now0 s, C09_UnbufProofs.ureach true progs now0 s ->
    NoDup (C09_Unbuf.u_taken s ++ C09_Common.opt_list (C09_Unbuf.u_slot s)) /\
    (forall v, C09_UnbufProofs.u_send_ret s C09_Common.KSend v C09_Common.ROk -> In v (C09_Unbuf.u_taken s)) /\
    (forall v, C09_UnbufProofs.u_send_ret s C09_Common.KTrySend v C09_Common.ROk ->
               In v (C09_Unbuf.u_taken s ++ C09_Common.opt_list (C09_Unbuf.u_slot s))) /\
    C09_BufProofs.recv_vals (C09_Unbuf.u_log s) = rev (C09_Unbuf.u_taken s).
Proof. exact C09_UnbufProofs.unbuf_exactly_once. Qed.
Print Assumptions chan_exactly_once_unbuffered.
Theorem chan_timeout_not_delivered_unbuffered :
  forall progs now0 s k v r, C09_UnbufProofs.ureach true progs now0 s -> C09_BufProofs.is_sendk k = true ->
    C09_UnbufProofs.u_send_ret s k v r -> r = C09_Common.RTimeout \/ r = C09_Common.RNo ->
    ~ In v (C09_Unbuf.u_taken s) /\ C09_Unbuf.u_slot s <> Some v.
Proof. exact C09_UnbufProofs.unbuf_timeout_not_delivered. Qed.
Print Assumptions chan_timeout_not_delivered_unbuffered.
Theorem chan_no_invention_unbuffered :
  forall progs now0 s v, C09_UnbufProofs.ureach true progs now0 s ->
    In v (C09_Unbuf.u_taken s ++ C09_Common.opt_list (C09_Unbuf.u_slot s)) -> C09_UnbufProofs.u_offered s v.
Proof. exact C09_UnbufProofs.unbuf_no_invention. Qed.
Print Assumptions chan_no_invention_unbuffered.
Theorem chan_fifo_per_sender_unbuffered :
  forall progs now0 s, C09_UnbufProofs.ureach true progs now0 s ->
    C09_BufProofs.sender_sorted (C09_Unbuf.u_taken s ++ C09_Common.opt_list (C09_Unbuf.u_slot s)).
Proof. exact C09_UnbufProofs.unbuf_fifo. Qed.
Print Assumptions chan_fifo_per_sender_unbuffered.
Theorem chan_false_closed_only_after_close_unbuffered :
  forall progs now0 s e, C09_UnbufProofs.ureach true progs now0 s -> In e (C09_Unbuf.u_log s) ->
    C09_Common.e_r e = C09_Common.RClosed -> C09_Unbuf.u_closed s = true.
Proof. exact C09_UnbufProofs.unbuf_closed_reason. Qed.
Print Assumptions chan_false_closed_only_after_close_unbuffered.
Theorem chan_unbuffered_footprint_protected :
  forall progs now0 s t, C09_UnbufProofs.ureach true progs now0 s ->
    (C09_UnbufProofs.holds (C09_Unbuf.u_pc s t) = true <-> C09_Unbuf.u_mtx s = Some t).
Proof. exact C09_UnbufProofs.unbuf_footprint_protected. Qed.
Print Assumptions chan_unbuffered_footprint_protected.

(* buffered channel, code as it is (fx = false) AND after the F11 repair (fx = true): every schedule, every capacity *)
Theorem chan_exactly_once_buffered :
  forall fx mcap progs now0 s, C09_BufProofs.breach fx mcap progs now0 s ->
    NoDup (C09_Buf.b_popped s ++ map fst (C09_Buf.b_q s)) /\
    (forall v, C09_BufProofs.b_send_ret s v C09_Common.ROk -> In v (C09_Buf.b_popped s ++ map fst (C09_Buf.b_q s))) /\
    NoDup (C09_BufProofs.recv_vals (C09_Buf.b_log s)) /\
    (forall v, In v (C09_BufProofs.recv_vals (C09_Buf.b_log s)) -> In v (C09_Buf.b_popped s)) /\
    (forall v, In v (C09_Buf.b_popped s) -> In v (C09_BufProofs.recv_vals (C09_Buf.b_log s)) \/ C09_BufProofs.b_in_hand s v) /\
    (forall v, C09_BufProofs.b_in_hand s v -> In v (C09_Buf.b_popped s) /\ ~ In v (C09_BufProofs.recv_vals (C09_Buf.b_log s))).
Proof. exact C09_BufProofs.buf_exactly_once. Qed.
Print Assumptions chan_exactly_once_buffered.
Theorem chan_false_not_delivered_buffered :
  forall fx mcap progs now0 s v r, C09_BufProofs.breach fx mcap progs now0 s -> C09_BufProofs.b_send_ret s v r -> r <> C09_Common.ROk ->
    ~ In v (C09_Buf.b_pushed s) /\ ~ In v (C09_Buf.b_popped s) /\ ~ In v (C09_BufProofs.recv_vals (C09_Buf.b_log s)).
Proof. exact C09_BufProofs.buf_false_not_delivered. Qed.
Print Assumptions chan_false_not_delivered_buffered.
Theorem chan_no_invention_buffered :
  forall fx mcap progs now0 s v, C09_BufProofs.breach fx mcap progs now0 s ->
    In v (C09_BufProofs.recv_vals (C09_Buf.b_log s)) \/ In v (C09_Buf.b_popped s) ->
    C09_BufProofs.b_offered s v /\ In v (C09_Buf.b_pushed s).
Proof. exact C09_BufProofs.buf_no_invention. Qed.
Print Assumptions chan_no_invention_buffered.
Theorem chan_fifo_per_sender_buffered :
  forall fx mcap progs now0 s, C09_BufProofs.breach fx mcap progs now0 s ->
    C09_Buf.b_pushed s = C09_Buf.b_popped s ++ map fst (C09_Buf.b_q s) /\
    C09_BufProofs.sender_sorted (C09_Buf.b_pushed s) /\ C09_BufProofs.sender_sorted (C09_Buf.b_popped s).
Proof. exact C09_BufProofs.buf_fifo. Qed.
Print Assumptions chan_fifo_per_sender_buffered.
Theorem chan_false_closed_only_after_close_buffered :
  forall fx mcap progs now0 s e, C09_BufProofs.breach fx mcap progs now0 s -> In e (C09_Buf.b_log s) ->
    C09_Common.e_r e = C09_Common.RClosed -> C09_Buf.b_closed s = true.
Proof. exact C09_BufProofs.buf_closed_reason. Qed.
Print Assumptions chan_false_closed_only_after_close_buffered.
Theorem chan_drain_after_close :
  forall fx mcap progs now0 s e, C09_BufProofs.breach fx mcap progs now0 s -> In e (C09_Buf.b_log s) ->
    C09_Common.e_k e = C09_Common.KRecv -> C09_Common.e_r e = C09_Common.RClosed ->
    firstn (C09_Common.e_aux e) (C09_Buf.b_pushed s) = firstn (C09_Common.e_aux e) (C09_Buf.b_popped s).
Proof. exact C09_BufProofs.buf_drain_after_close. Qed.
Print Assumptions chan_drain_after_close.

(* false only because of an expired timeout, unbuffered channel (as it is and repaired) *)
Theorem chan_false_timeout_only_when_expired_unbuffered :
  forall fx progs now0 s e, C09_UnbufProofs.ureach fx progs now0 s -> In e (C09_Unbuf.u_log s) ->
    C09_Common.e_r e = C09_Common.RTimeout -> C09_Common.expired (C09_Common.e_now e) (C09_Common.e_exp e) = true.
Proof. exact C09_TimeProofs.unbuf_timeout_reason. Qed.
Print Assumptions chan_false_timeout_only_when_expired_unbuffered.
