(* C09_UnbufRelease.v — the RELEASE clause for the repaired unbuffered channel (fx = true), every schedule:
   invariants over the two condition-variable queues and the wake state. *)
From Coq Require Import ZArith List Bool Arith Lia.
From PV Require Import Base.U64 C09.C09_Common C09.C09_Unbuf C09.C09_Model C09.C09_Witness C09.C09_BufProofs C09.C09_UnbufProofs C09.C09_TimeProofs.
Import ListNotations.
Local Open Scope Z_scope.

Lemma memt_In t l : memt t l = true <-> In t l.
Proof.
  unfold memt. rewrite existsb_exists. split.
  - intros (x & Hin & E). apply Nat.eqb_eq in E. subst. exact Hin.
  - intros H. exists t. split; [exact H|apply Nat.eqb_refl].
Qed.
Lemma memt_app t a b : memt t (a ++ b) = memt t a || memt t b.
Proof. unfold memt. apply existsb_app. Qed.

(* how much of a wait queue a step wakes (from its head): nothing, one, all *)
Inductive wmode : Type := W0 | W1 | WA.
Definition take_w (m : wmode) (l : list tid) : list tid := match m with W0 => [] | W1 => firstn 1 l | WA => l end.
Definition rest_w (m : wmode) (l : list tid) : list tid := match m with W0 => l | W1 => tl l | WA => [] end.
Lemma take_rest m l : take_w m l ++ rest_w m l = l.
Proof. destruct m; cbn; [reflexivity|destruct l; reflexivity|apply app_nil_r]. Qed.
Inductive slp : Type := NoSleep | SleepS | SleepR.
Definition tail_s (sl : slp) (t : tid) : list tid := match sl with SleepS => [t] | _ => [] end.
Definition tail_r (sl : slp) (t : tid) : list tid := match sl with SleepR => [t] | _ => [] end.

Definition ws12 (p : upc) : bool := match p with US_w1 _ _ | US_w2 _ _ _ => true | _ => false end.
Definition wrp (p : upc) : bool := match p with UR_w _ => true | _ => false end.
Definition is_url (p : upc) : bool := match p with UR_l _ => true | _ => false end.

Record RI (s : ust) : Prop := mkRI {
  r_sl : forall t, u_w s t = Asleep ->
           (ws12 (u_pc s t) = true /\ In t (u_scv s)) \/ (wrp (u_pc s t) = true /\ In t (u_rcv s));
  r_s : forall t, In t (u_scv s) -> u_w s t = Asleep /\ ws12 (u_pc s t) = true;
  r_r : forall t, In t (u_rcv s) -> u_w s t = Asleep /\ wrp (u_pc s t) = true;
  r_nds : NoDup (u_scv s);
  r_ndr : NoDup (u_rcv s);
  (* after close(): nobody sleeps, except until the closing thread has passed its notify_all()s *)
  r_cl : u_closed s = true -> (exists c, u_pc s c = UC_lock) \/ forall t, u_w s t <> Asleep;
  (* a value in the slot and a receiver asleep: a notified receiver (or the receiver holding the mutex) is on its way *)
  r_slot : u_slot s <> None -> u_rcv s <> [] ->
           exists t, (wrp (u_pc s t) = true /\ u_w s t = Woken false) \/ is_url (u_pc s t) = true;
  (* a sender asleep in loop 2: its value has not been taken *)
  r_w2 : forall t v e q, u_pc s t = US_w2 v e q -> u_w s t = Asleep -> q = u_seq s
}.

Lemma RI_init progs now0 : RI (u_init progs now0).
Proof.
  constructor; cbn; try discriminate; try contradiction; try constructor; intros; try discriminate; try contradiction; try congruence.
Qed.

(* ---- the general step lemma ------------------------------------------------------------------- *)
Lemma RI_step s t s' (ms mr : wmode) (sl : slp) (p' : upc) :
  RI s ->
  u_w s t <> Asleep ->
  u_pc s' = upd (u_pc s) t p' ->
  (forall t0, t0 <> t ->
     u_w s' t0 = if memt t0 (take_w ms (u_scv s) ++ take_w mr (u_rcv s)) then Woken false else u_w s t0) ->
  (u_w s' t = Asleep <-> sl <> NoSleep) ->
  u_scv s' = rest_w ms (u_scv s) ++ tail_s sl t ->
  u_rcv s' = rest_w mr (u_rcv s) ++ tail_r sl t ->
  (sl = SleepS -> ws12 p' = true) -> (sl = SleepR -> wrp p' = true) ->
  (* closed *)
  (u_closed s' = true ->
     p' = UC_lock \/ (u_closed s = true /\ sl = NoSleep /\ (u_pc s t = UC_lock -> ms = WA /\ mr = WA))) ->
  (* slot *)
  (u_slot s' = None \/
   (u_slot s = None /\ mr = W1 /\ sl = NoSleep) \/
   (u_slot s <> None /\ sl <> SleepR /\ (wrp (u_pc s t) = true -> u_w s t = Woken false -> is_url p' = true) /\ is_url (u_pc s t) = false)) ->
  (* seq *)
  (forall v e q, p' = US_w2 v e q -> sl = SleepS -> q = u_seq s') ->
  (u_seq s' = u_seq s \/ ms = WA) ->
  RI s'.
Proof.
  intros I Hrun Hpc Hw Hwt Hscv Hrcv Hss Hsr Hcl Hslot Hq1 Hq2. destruct I.
  pose proof (take_rest ms (u_scv s)) as TRs. pose proof (take_rest mr (u_rcv s)) as TRr.
  assert (Tnq : ~ In t (u_scv s) /\ ~ In t (u_rcv s)).
  { split; intros X; [apply r_s0 in X|apply r_r0 in X]; destruct X; contradiction. }
  destruct Tnq as [Tns Tnr].
  assert (Hpco : forall t0, t0 <> t -> u_pc s' t0 = u_pc s t0) by (intros; rewrite Hpc; apply upd_other; auto).
  assert (Hpct : u_pc s' t = p') by (rewrite Hpc; apply upd_same).
  (* membership of the rests *)
  assert (InRs : forall x, In x (rest_w ms (u_scv s)) -> In x (u_scv s) /\ ~ In x (take_w ms (u_scv s))).
  { intros x Hx. split; [rewrite <- TRs; apply in_or_app; auto|].
    intros Hy. rewrite <- TRs in r_nds0. revert r_nds0 Hx Hy. generalize (take_w ms (u_scv s)) (rest_w ms (u_scv s)).
    intros a b ND Hb Ha. induction a as [|h a IH]; [contradiction|]. cbn in ND. inversion ND; subst.
    destruct Ha as [->|Ha]; [apply H1; apply in_or_app; auto|auto]. }
  assert (InRr : forall x, In x (rest_w mr (u_rcv s)) -> In x (u_rcv s) /\ ~ In x (take_w mr (u_rcv s))).
  { intros x Hx. split; [rewrite <- TRr; apply in_or_app; auto|].
    intros Hy. rewrite <- TRr in r_ndr0. revert r_ndr0 Hx Hy. generalize (take_w mr (u_rcv s)) (rest_w mr (u_rcv s)).
    intros a b ND Hb Ha. induction a as [|h a IH]; [contradiction|]. cbn in ND. inversion ND; subst.
    destruct Ha as [->|Ha]; [apply H1; apply in_or_app; auto|auto]. }
  (* a thread other than t that is asleep afterwards was asleep, and not woken *)
  assert (Hsl : forall t0, t0 <> t -> u_w s' t0 = Asleep ->
                u_w s t0 = Asleep /\ ~ In t0 (take_w ms (u_scv s)) /\ ~ In t0 (take_w mr (u_rcv s))).
  { intros t0 Hne E. rewrite (Hw _ Hne) in E. destruct (memt t0 _) eqn:M; [discriminate|].
    split; [exact E|]. rewrite memt_app in M. apply orb_false_elim in M. destruct M as [M1 M2].
    split; intros X; apply memt_In in X; congruence. }
  assert (Hkeep : forall t0, t0 <> t -> ~ In t0 (take_w ms (u_scv s)) -> ~ In t0 (take_w mr (u_rcv s)) ->
                  u_w s' t0 = u_w s t0).
  { intros t0 Hne A B. rewrite (Hw _ Hne). destruct (memt t0 _) eqn:M; [|reflexivity].
    rewrite memt_app in M. apply orb_prop in M. destruct M as [M|M]; apply memt_In in M; contradiction. }
  assert (Hwoken : forall t0, t0 <> t -> u_w s t0 = Woken false -> u_w s' t0 = Woken false).
  { intros t0 Hne E. rewrite (Hw _ Hne). destruct (memt t0 _); auto. }
  constructor.
  - (* r_sl *)
    intros t0 E. destruct (Nat.eq_dec t0 t) as [->|Hne].
    + apply Hwt in E. rewrite Hpct, Hscv, Hrcv. destruct sl; [congruence| |].
      * left. split; [auto|]. apply in_or_app. right. left. reflexivity.
      * right. split; [auto|]. apply in_or_app. right. left. reflexivity.
    + destruct (Hsl _ Hne E) as (E0 & N1 & N2). rewrite (Hpco _ Hne), Hscv, Hrcv.
      destruct (r_sl0 _ E0) as [[A B]|[A B]]; [left|right]; (split; [exact A|]); apply in_or_app; left.
      * rewrite <- TRs in B. apply in_app_or in B. destruct B; [contradiction|assumption].
      * rewrite <- TRr in B. apply in_app_or in B. destruct B; [contradiction|assumption].
  - (* r_s *)
    intros t0 Hin. rewrite Hscv in Hin. apply in_app_or in Hin. destruct Hin as [Hin|Hin].
    + destruct (InRs _ Hin) as [A B]. destruct (r_s0 _ A) as [C D].
      assert (Hne : t0 <> t) by (intros ->; contradiction).
      rewrite (Hpco _ Hne). split; [|exact D].
      rewrite (Hw _ Hne). destruct (memt t0 _) eqn:M; [|exact C]. exfalso.
      rewrite memt_app in M. apply orb_prop in M. destruct M as [M|M]; apply memt_In in M; [contradiction|].
      assert (X : In t0 (u_rcv s)) by (rewrite <- TRr; apply in_or_app; auto).
      apply r_r0 in X. destruct X as [_ X]. destruct (u_pc s t0); discriminate.
    + destruct sl; try contradiction. destruct Hin as [<-|[]]. rewrite Hpct. split; [apply Hwt; discriminate|auto].
  - (* r_r *)
    intros t0 Hin. rewrite Hrcv in Hin. apply in_app_or in Hin. destruct Hin as [Hin|Hin].
    + destruct (InRr _ Hin) as [A B]. destruct (r_r0 _ A) as [C D].
      assert (Hne : t0 <> t) by (intros ->; contradiction).
      rewrite (Hpco _ Hne). split; [|exact D].
      rewrite (Hw _ Hne). destruct (memt t0 _) eqn:M; [|exact C]. exfalso.
      rewrite memt_app in M. apply orb_prop in M. destruct M as [M|M]; apply memt_In in M; [|contradiction].
      assert (X : In t0 (u_scv s)) by (rewrite <- TRs; apply in_or_app; auto).
      apply r_s0 in X. destruct X as [_ X]. destruct (u_pc s t0); discriminate.
    + destruct sl; try contradiction. destruct Hin as [<-|[]]. rewrite Hpct. split; [apply Hwt; discriminate|auto].
  - (* NoDup scv *)
    rewrite Hscv. assert (ND : NoDup (rest_w ms (u_scv s))).
    { rewrite <- TRs in r_nds0. clear - r_nds0. induction (take_w ms (u_scv s)); [exact r_nds0|]. inversion r_nds0; auto. }
    destruct sl; cbn; rewrite ?app_nil_r; auto. apply NoDup_app_single; auto. intros X. apply InRs in X. tauto.
  - rewrite Hrcv. assert (ND : NoDup (rest_w mr (u_rcv s))).
    { rewrite <- TRr in r_ndr0. clear - r_ndr0. induction (take_w mr (u_rcv s)); [exact r_ndr0|]. inversion r_ndr0; auto. }
    destruct sl; cbn; rewrite ?app_nil_r; auto. apply NoDup_app_single; auto. intros X. apply InRr in X. tauto.
  - (* r_cl *)
    intros C. destruct (Hcl C) as [->|(C0 & -> & Hall)]; [left; exists t; exact Hpct|].
    destruct (r_cl0 C0) as [[c Hc]|Hno].
    + destruct (Nat.eq_dec c t) as [->|Hne]; [|left; exists c; rewrite (Hpco _ Hne); exact Hc].
      right. destruct (Hall Hc) as [-> ->]. cbn in *. intros t0 E.
      destruct (Nat.eq_dec t0 t) as [->|Hne]; [apply Hwt in E; congruence|].
      destruct (Hsl _ Hne E) as (E0 & N1 & N2). destruct (r_sl0 _ E0) as [[_ B]|[_ B]]; contradiction.
    + right. intros t0 E. destruct (Nat.eq_dec t0 t) as [->|Hne]; [apply Hwt in E; congruence|].
      destruct (Hsl _ Hne E) as (E0 & _). exact (Hno _ E0).
  - (* r_slot *)
    intros Sn Rn. destruct Hslot as [X|[(S0 & -> & ->)|(S0 & Hsl' & Hmv & Hnu)]]; [contradiction| |].
    + cbn in *. rewrite app_nil_r in Hrcv. destruct (u_rcv s) as [|h r] eqn:Er; [rewrite Hrcv in Rn; contradiction|].
      assert (Hh : In h (h :: r)) by (left; reflexivity).
      destruct (r_r0 _ Hh) as [A B]. assert (Hne : h <> t) by (intros ->; contradiction).
      exists h. left. rewrite (Hpco _ Hne). split; [exact B|]. rewrite (Hw _ Hne).
      replace (memt h _) with true; [reflexivity|]. symmetry. apply memt_In. apply in_or_app. right. left. reflexivity.
    + assert (Rn0 : u_rcv s <> []).
      { intros E. rewrite E in *. apply Rn. rewrite Hrcv. destruct mr, sl; cbn; congruence. }
      destruct (r_slot0 S0 Rn0) as [x [[A B]|A]].
      * destruct (Nat.eq_dec x t) as [->|Hne].
        -- exists t. right. rewrite Hpct. auto.
        -- exists x. left. rewrite (Hpco _ Hne). split; [exact A|]. apply Hwoken; auto.
      * destruct (Nat.eq_dec x t) as [->|Hne]; [congruence|]. exists x. right. rewrite (Hpco _ Hne). exact A.
  - (* r_w2 *)
    intros t0 v e q Ep E. destruct (Nat.eq_dec t0 t) as [->|Hne].
    + rewrite Hpct in Ep. apply (proj1 Hwt) in E. apply (Hq1 _ _ _ Ep). subst p'. destruct sl; try congruence.
      exfalso. specialize (Hsr eq_refl). rewrite Ep in Hsr. discriminate Hsr.
    + destruct (Hsl _ Hne E) as (E0 & N1 & _). rewrite (Hpco _ Hne) in Ep.
      destruct Hq2 as [Hq2|Hq2]; [rewrite Hq2; eapply r_w3; eauto|subst ms].
      exfalso. cbn in N1. destruct (r_sl0 _ E0) as [[_ B]|[B _]]; [contradiction|]. rewrite Ep in B. discriminate.
Qed.

(* ---- projections through the notify functions ------------------------------------------------ *)
Lemma wl_scv s l : u_scv (wake_list s l) = u_scv s.
Proof. revert s. induction l; intros; cbn; [reflexivity|rewrite IHl; reflexivity]. Qed.
Lemma wl_rcv s l : u_rcv (wake_list s l) = u_rcv s.
Proof. revert s. induction l; intros; cbn; [reflexivity|rewrite IHl; reflexivity]. Qed.
Lemma wl_rw s l : u_rw (wake_list s l) = u_rw s.
Proof. revert s. induction l; intros; cbn; [reflexivity|rewrite IHl; reflexivity]. Qed.
Lemma wl_slot s l : u_slot (wake_list s l) = u_slot s.
Proof. revert s. induction l; intros; cbn; [reflexivity|rewrite IHl; reflexivity]. Qed.
Lemma wl_closed s l : u_closed (wake_list s l) = u_closed s.
Proof. revert s. induction l; intros; cbn; [reflexivity|rewrite IHl; reflexivity]. Qed.
Lemma wl_seq s l : u_seq (wake_list s l) = u_seq s.
Proof. revert s. induction l; intros; cbn; [reflexivity|rewrite IHl; reflexivity]. Qed.
Lemma pc_n1s s : u_pc (notify_one_s s) = u_pc s.
Proof. unfold notify_one_s; destruct (u_scv s) eqn:E; cbn; rewrite ?E; reflexivity. Qed.
Lemma rw_n1s s : u_rw (notify_one_s s) = u_rw s.
Proof. unfold notify_one_s; destruct (u_scv s) eqn:E; cbn; rewrite ?E; reflexivity. Qed.
Lemma slot_n1s s : u_slot (notify_one_s s) = u_slot s.
Proof. unfold notify_one_s; destruct (u_scv s) eqn:E; cbn; rewrite ?E; reflexivity. Qed.
Lemma closed_n1s s : u_closed (notify_one_s s) = u_closed s.
Proof. unfold notify_one_s; destruct (u_scv s) eqn:E; cbn; rewrite ?E; reflexivity. Qed.
Lemma seq_n1s s : u_seq (notify_one_s s) = u_seq s.
Proof. unfold notify_one_s; destruct (u_scv s) eqn:E; cbn; rewrite ?E; reflexivity. Qed.
Lemma scv_n1s s : u_scv (notify_one_s s) = tl (u_scv s).
Proof. unfold notify_one_s; destruct (u_scv s) eqn:E; cbn; rewrite ?E; reflexivity. Qed.
Lemma rcv_n1s s : u_rcv (notify_one_s s) = u_rcv s.
Proof. unfold notify_one_s; destruct (u_scv s) eqn:E; cbn; rewrite ?E; reflexivity. Qed.
Lemma w_n1s s t0 : u_w (notify_one_s s) t0 = if memt t0 (firstn 1 (u_scv s)) then Woken false else u_w s t0.
Proof. unfold notify_one_s; destruct (u_scv s) as [|h r]; cbn; [reflexivity|]; unfold upd; rewrite orb_false_r; reflexivity. Qed.
Lemma pc_n1r s : u_pc (notify_one_r s) = u_pc s.
Proof. unfold notify_one_r; destruct (u_rcv s) eqn:E; cbn; rewrite ?E; reflexivity. Qed.
Lemma rw_n1r s : u_rw (notify_one_r s) = u_rw s.
Proof. unfold notify_one_r; destruct (u_rcv s) eqn:E; cbn; rewrite ?E; reflexivity. Qed.
Lemma slot_n1r s : u_slot (notify_one_r s) = u_slot s.
Proof. unfold notify_one_r; destruct (u_rcv s) eqn:E; cbn; rewrite ?E; reflexivity. Qed.
Lemma closed_n1r s : u_closed (notify_one_r s) = u_closed s.
Proof. unfold notify_one_r; destruct (u_rcv s) eqn:E; cbn; rewrite ?E; reflexivity. Qed.
Lemma seq_n1r s : u_seq (notify_one_r s) = u_seq s.
Proof. unfold notify_one_r; destruct (u_rcv s) eqn:E; cbn; rewrite ?E; reflexivity. Qed.
Lemma scv_n1r s : u_scv (notify_one_r s) = u_scv s.
Proof. unfold notify_one_r; destruct (u_rcv s) eqn:E; cbn; rewrite ?E; reflexivity. Qed.
Lemma rcv_n1r s : u_rcv (notify_one_r s) = tl (u_rcv s).
Proof. unfold notify_one_r; destruct (u_rcv s) eqn:E; cbn; rewrite ?E; reflexivity. Qed.
Lemma w_n1r s t0 : u_w (notify_one_r s) t0 = if memt t0 (firstn 1 (u_rcv s)) then Woken false else u_w s t0.
Proof. unfold notify_one_r; destruct (u_rcv s) as [|h r]; cbn; [reflexivity|]; unfold upd; rewrite orb_false_r; reflexivity. Qed.
Lemma pc_nas s : u_pc (notify_all_s s) = u_pc s.
Proof. unfold notify_all_s; rewrite wake_list_pc; reflexivity. Qed.
Lemma rw_nas s : u_rw (notify_all_s s) = u_rw s.
Proof. unfold notify_all_s; rewrite wl_rw; reflexivity. Qed.
Lemma slot_nas s : u_slot (notify_all_s s) = u_slot s.
Proof. unfold notify_all_s; rewrite wl_slot; reflexivity. Qed.
Lemma closed_nas s : u_closed (notify_all_s s) = u_closed s.
Proof. unfold notify_all_s; rewrite wl_closed; reflexivity. Qed.
Lemma seq_nas s : u_seq (notify_all_s s) = u_seq s.
Proof. unfold notify_all_s; rewrite wl_seq; reflexivity. Qed.
Lemma scv_nas s : u_scv (notify_all_s s) = [].
Proof. unfold notify_all_s; rewrite wl_scv; reflexivity. Qed.
Lemma rcv_nas s : u_rcv (notify_all_s s) = u_rcv s.
Proof. unfold notify_all_s; rewrite wl_rcv; reflexivity. Qed.
Lemma w_nas s t0 : u_w (notify_all_s s) t0 = if memt t0 (u_scv s) then Woken false else u_w s t0.
Proof. unfold notify_all_s; rewrite wake_list_w; reflexivity. Qed.
Lemma pc_nar s : u_pc (notify_all_r s) = u_pc s.
Proof. unfold notify_all_r; rewrite wake_list_pc; reflexivity. Qed.
Lemma rw_nar s : u_rw (notify_all_r s) = u_rw s.
Proof. unfold notify_all_r; rewrite wl_rw; reflexivity. Qed.
Lemma slot_nar s : u_slot (notify_all_r s) = u_slot s.
Proof. unfold notify_all_r; rewrite wl_slot; reflexivity. Qed.
Lemma closed_nar s : u_closed (notify_all_r s) = u_closed s.
Proof. unfold notify_all_r; rewrite wl_closed; reflexivity. Qed.
Lemma seq_nar s : u_seq (notify_all_r s) = u_seq s.
Proof. unfold notify_all_r; rewrite wl_seq; reflexivity. Qed.
Lemma scv_nar s : u_scv (notify_all_r s) = u_scv s.
Proof. unfold notify_all_r; rewrite wl_scv; reflexivity. Qed.
Lemma rcv_nar s : u_rcv (notify_all_r s) = [].
Proof. unfold notify_all_r; rewrite wl_rcv; reflexivity. Qed.
Lemma w_nar s t0 : u_w (notify_all_r s) t0 = if memt t0 (u_rcv s) then Woken false else u_w s t0.
Proof. unfold notify_all_r; rewrite wake_list_w; reflexivity. Qed.

Ltac projs :=
  repeat (progress (cbn [u_pc u_w u_scv u_rcv u_rw u_slot u_closed u_seq
                         set_u_now set_u_closed set_u_sw set_u_rw set_u_slot set_u_seq set_u_mtx set_u_scv set_u_rcv
                         set_u_pc set_u_w set_u_dl set_u_prog set_u_cnt set_u_taken set_u_lost set_u_log set_u_wk];
                    rewrite ?pc_n1s, ?pc_n1r, ?pc_nas, ?pc_nar, ?rw_n1s, ?rw_n1r, ?rw_nas, ?rw_nar,
                            ?slot_n1s, ?slot_n1r, ?slot_nas, ?slot_nar, ?closed_n1s, ?closed_n1r, ?closed_nas, ?closed_nar,
                            ?seq_n1s, ?seq_n1r, ?seq_nas, ?seq_nar, ?scv_n1s, ?scv_n1r, ?scv_nas, ?scv_nar,
                            ?rcv_n1s, ?rcv_n1r, ?rcv_nas, ?rcv_nar, ?w_n1s, ?w_n1r, ?w_nas, ?w_nar)).

Ltac pick_ms := match goal with
  | |- context [notify_all_s _] => constr:(WA)
  | |- context [notify_one_s _] => constr:(W1)
  | |- _ => constr:(W0) end.
Ltac pick_mr := match goal with
  | |- context [notify_all_r _] => constr:(WA)
  | |- context [notify_one_r _] => constr:(W1)
  | |- _ => constr:(W0) end.
Ltac pick_sl := match goal with
  | |- context [wait_s _ _ _ _] => constr:(SleepS)
  | |- context [wait_r _ _ _ _] => constr:(SleepR)
  | |- _ => constr:(NoSleep) end.

Lemma RI_ustep s t s' : UInv (ucore_of s) -> RI s -> ustep true s t = Some s' -> RI s'.
Proof.
  intros UI I H. pose proof (u_ck _ UI t) as Hck. cbn [uc_pc ucore_of] in Hck. unfold ustep in H.
  destruct (u_w s t) as [| |b] eqn:Ew; [|discriminate|].
  all: destruct (u_pc s t) eqn:Epc.
  all: try (destruct (u_prog s t) as [|[] ?]; [discriminate|..]).
  all: cbn [timedout] in H.
  all: repeat match type of H with
       | context [if ?b then _ else _] => destruct b eqn:?
       | context [match u_slot ?s with _ => _ end] => destruct (u_slot s) eqn:?
       end.
  all: inversion H; subst; clear H.
  all: let sl := pick_sl in
       unfold ret_send, ret_recv, deposit, take in *;
       let ms := pick_ms in let mr := pick_mr in
       unfold wait_s, wait_r, sleep, finish, goto, lock, unlock in *;
       eapply (RI_step s t _ ms mr sl); [exact I | rewrite Ew; discriminate | projs; reflexivity | ..].
  (* scv / rcv / sleep-pc side conditions *)
  all: try solve [projs; cbn [rest_w tail_s tail_r]; rewrite ?app_nil_r; reflexivity].
  all: try solve [intros X; try discriminate X; reflexivity].
  (* wake state of the others *)
  all: try solve [intros t0 Hne; projs; unfold upd; rewrite ?(proj2 (Nat.eqb_neq t0 t) Hne);
                  cbn [take_w app]; rewrite ?app_nil_r, ?memt_app; cbn [memt existsb];
                  repeat match goal with |- context [memt ?a ?b] => destruct (memt a b) end; reflexivity].
  (* wake state of t *)
  all: try solve [projs; unfold upd; rewrite ?Nat.eqb_refl, ?Ew;
                  repeat match goal with |- context [memt ?a ?b] => destruct (memt a b) end;
                  split; intros X; try discriminate; try congruence; exfalso; apply X; reflexivity].
  (* seq *)
  all: try solve [projs; first [left; reflexivity | right; reflexivity]].
  all: try solve [intros v' e' q' X Y; try discriminate X; inversion X; subst; projs;
                  match goal with E : negb (Nat.eqb _ _) = false |- _ =>
                    apply negb_false_iff in E; apply Nat.eqb_eq in E; congruence end].
  (* closed *)
  all: try solve [projs; intros C; first [left; reflexivity | congruence
                  | right; split; [exact C|]; split; [reflexivity|]; intros X; rewrite Epc in X;
                    first [discriminate X | split; reflexivity]]].
  (* slot *)
  all: try solve [projs; first
         [ left; reflexivity
         | left; assumption
         | right; left; split; [|split; reflexivity];
           first [ match goal with E : _ && negb (is_some _) = true |- _ =>
                     apply andb_prop in E; destruct E as [_ E]; destruct (u_slot s); [discriminate E|reflexivity] end
                 | cbn in Hck; destruct Hck; [congruence|assumption] ]
         | destruct (u_slot s) eqn:Esl; [|left; reflexivity];
           right; right; split; [discriminate|]; split; [discriminate|]; rewrite Epc, ?Ew; cbn;
           split; [intros; try discriminate; try reflexivity; destruct b; discriminate|reflexivity] ]].
Qed.

Lemma in_remove_tid x t l : In x (remove_tid t l) <-> In x l /\ x <> t.
Proof.
  induction l as [|h r IH]; cbn; [tauto|]. destruct (Nat.eqb_spec h t) as [->|Hne]; cbn; rewrite IH; intuition congruence.
Qed.
Lemma nodup_remove_tid t l : NoDup l -> NoDup (remove_tid t l).
Proof.
  induction 1 as [|h r Hn ND IH]; cbn; [constructor|]. destruct (Nat.eqb h t); auto.
  constructor; auto. rewrite in_remove_tid. tauto.
Qed.

Lemma RI_utimer s t s' : RI s -> utimer s t = Some s' -> RI s'.
Proof.
  intros I H. unfold utimer in H. destruct (u_w s t) eqn:Ew; try discriminate.
  destruct (u_dl s t <=? u_now s); [|discriminate]. inversion H; subst; clear H. destruct I.
  assert (Hw : forall t0, t0 <> t -> upd (u_w s) t (Woken true) t0 = u_w s t0) by (intros; apply upd_other; auto).
  assert (Hwt : upd (u_w s) t (Woken true) t = Woken true) by apply upd_same.
  constructor; cbn.
  - intros t0 E. destruct (Nat.eq_dec t0 t) as [->|Hne]; [rewrite Hwt in E; discriminate|].
    rewrite (Hw _ Hne) in E. rewrite !in_remove_tid. destruct (r_sl0 _ E) as [[A B]|[A B]]; auto.
  - intros t0 Hin. apply in_remove_tid in Hin. destruct Hin as [Hin Hne]. rewrite (Hw _ Hne). auto.
  - intros t0 Hin. apply in_remove_tid in Hin. destruct Hin as [Hin Hne]. rewrite (Hw _ Hne). auto.
  - apply nodup_remove_tid; auto.
  - apply nodup_remove_tid; auto.
  - intros C. destruct (r_cl0 C) as [X|X]; [left; exact X|right].
    intros t0 E. destruct (Nat.eq_dec t0 t) as [->|Hne]; [rewrite Hwt in E; discriminate|].
    rewrite (Hw _ Hne) in E. exact (X _ E).
  - intros Sn Rn. assert (Rn0 : u_rcv s <> []) by (intros E; rewrite E in Rn; apply Rn; reflexivity).
    destruct (r_slot0 Sn Rn0) as [x [[A B]|A]]; exists x.
    + left. split; [exact A|]. assert (x <> t) by (intros ->; congruence). rewrite Hw; auto.
    + right. exact A.
  - intros t0 v e q Ep E. destruct (Nat.eq_dec t0 t) as [->|Hne]; [rewrite Hwt in E; discriminate|].
    rewrite (Hw _ Hne) in E. eapply r_w3; eauto.
Qed.

Lemma RI_tick s d : RI s -> RI (set_u_now s (u_now s + Z.of_nat d)).
Proof. intros []. constructor; cbn; auto. Qed.

Theorem RI_reach progs now0 s : ureach true progs now0 s -> RI s.
Proof.
  induction 1 as [|s l s' R IH H].
  - apply RI_init.
  - destruct l as [t|t|d]; cbn in H.
    + eapply RI_ustep; eauto. eapply uinv_reach; eauto.
    + eapply RI_utimer; eauto.
    + inversion H; subst. apply RI_tick. exact IH.
Qed.

(* ---- clause 4: a sender asleep in loop 1 while a receiver is registered and the slot is free -------- *)
Definition regR (p : upc) : bool := match p with UR_l _ | UR_w _ => true | _ => false end.
Definition ws1 (p : upc) : bool := match p with US_w1 _ _ => true | _ => false end.
Definition fixing (p : upc) : bool := match p with US_l1 _ _ | US_ck _ _ => true | _ => false end.
Definition cntR (pc : tid -> upc) (L : list tid) : nat := length (filter (fun t => regR (pc t)) L).
Definition b2n (b : bool) : nat := if b then 1%nat else 0%nat.

Lemma cnt_upd_notin pc t p L : ~ In t L -> cntR (upd pc t p) L = cntR pc L.
Proof.
  unfold cntR. induction L as [|h r IH]; intros Hn; cbn; [reflexivity|].
  assert (h <> t) by (intros ->; apply Hn; left; reflexivity).
  rewrite upd_other by assumption. destruct (regR (pc h)); cbn; rewrite IH; auto; intros X; apply Hn; right; exact X.
Qed.
Lemma cnt_upd_in pc t p L : NoDup L -> In t L ->
  (cntR (upd pc t p) L + b2n (regR (pc t)) = cntR pc L + b2n (regR p))%nat.
Proof.
  unfold cntR. induction 1 as [|h r Hn ND IH]; intros Hin; [contradiction|]. cbn.
  destruct Hin as [->|Hin].
  - rewrite upd_same. pose proof (cnt_upd_notin pc t p r Hn) as E. unfold cntR in E.
    destruct (regR p), (regR (pc t)); cbn; rewrite E; lia.
  - assert (h <> t) by (intros ->; contradiction). rewrite upd_other by assumption.
    specialize (IH Hin). destruct (regR (pc h)); cbn; lia.
Qed.
Lemma cnt_pos pc L t : In t L -> regR (pc t) = true -> (0 < cntR pc L)%nat.
Proof.
  unfold cntR. induction L as [|h r IH]; intros Hin Hr; [contradiction|]. cbn.
  destruct Hin as [->|Hin]; [rewrite Hr; cbn; lia|]. destruct (regR (pc h)); cbn; [lia|auto].
Qed.

Record RI2 (s : ust) : Prop := mkRI2 {
  c_rw : exists L, NoDup L /\ (forall t, regR (u_pc s t) = true -> In t L) /\ u_rw s = Z.of_nat (cntR (u_pc s) L);
  c_C : forall S, ws1 (u_pc s S) = true -> u_w s S = Asleep -> 0 < u_rw s -> u_slot s = None -> u_closed s = false ->
        exists x, (ws1 (u_pc s x) = true /\ u_w s x = Woken false) \/ fixing (u_pc s x) = true
}.
Lemma RI2_init progs now0 : RI2 (u_init progs now0).
Proof. constructor; cbn; [exists []; repeat split; [constructor|discriminate]|discriminate]. Qed.

Lemma RI2_step s t s' (ms mr : wmode) (sl : slp) (p' : upc) :
  RI s -> UInv (ucore_of s) -> RI2 s ->
  u_w s t <> Asleep ->
  u_pc s' = upd (u_pc s) t p' ->
  (forall t0, t0 <> t ->
     u_w s' t0 = if memt t0 (take_w ms (u_scv s) ++ take_w mr (u_rcv s)) then Woken false else u_w s t0) ->
  (u_w s' t = Asleep <-> sl <> NoSleep) ->
  u_rw s' = u_rw s + Z.of_nat (b2n (regR p')) - Z.of_nat (b2n (regR (u_pc s t))) ->
  (sl = SleepS -> ws1 p' = true -> u_rw s' <= 0 \/ u_slot s' <> None) ->
  (sl = SleepR -> wrp p' = true) ->
  (ms = W1 -> u_slot s' = u_slot s) ->
  (ws1 (u_pc s t) = true -> u_w s t = Woken false -> fixing p' = true) ->
  (fixing (u_pc s t) = true -> fixing p' = true \/ ~ (0 < u_rw s' /\ u_slot s' = None /\ u_closed s' = false)) ->
  (ms = W0 -> (0 < u_rw s' -> 0 < u_rw s) /\ (u_slot s' = None -> u_slot s = None) /\
              (u_closed s' = false -> u_closed s = false)) ->
  RI2 s'.
Proof.
  intros I UI I2 Hrun Hpc Hw Hwt Hrw Hi Hsr Hw1 Hmv Hfix Hmono. destruct I2 as [(L & ND & HL & Erw) HC].
  assert (Hpco : forall t0, t0 <> t -> u_pc s' t0 = u_pc s t0) by (intros; rewrite Hpc; apply upd_other; auto).
  assert (Hpct : u_pc s' t = p') by (rewrite Hpc; apply upd_same).
  constructor.
  - destruct (in_dec Nat.eq_dec t L) as [Hin|Hnin].
    + exists L. split; [exact ND|]. split.
      * intros t0 Hr. destruct (Nat.eq_dec t0 t) as [->|Hne]; [exact Hin|]. rewrite (Hpco _ Hne) in Hr. auto.
      * rewrite Hrw, Erw, Hpc. pose proof (cnt_upd_in (u_pc s) t p' L ND Hin). lia.
    + exists (t :: L). split; [constructor; auto|]. split.
      * intros t0 Hr. destruct (Nat.eq_dec t0 t) as [->|Hne]; [left; reflexivity|]. rewrite (Hpco _ Hne) in Hr. right. auto.
      * assert (Hnr : regR (u_pc s t) = false).
        { destruct (regR (u_pc s t)) eqn:E; [|reflexivity]. exfalso. apply Hnin. auto. }
        rewrite Hrw, Erw, Hpc, Hnr. pose proof (cnt_upd_notin (u_pc s) t p' L Hnin) as E. unfold cntR in *. cbn.
        rewrite upd_same. destruct (regR p'); cbn; rewrite E; lia.
  - intros S HS1 HSa Hr Hs Hc.
    destruct (Nat.eq_dec S t) as [->|Hne].
    { apply Hwt in HSa. rewrite Hpct in HS1. destruct sl; try congruence.
      - destruct (Hi eq_refl HS1); [lia|contradiction].
      - exfalso. specialize (Hsr eq_refl). destruct p'; discriminate. }
    rewrite (Hpco _ Hne) in HS1. rewrite (Hw _ Hne) in HSa.
    destruct (memt S _) eqn:M; [discriminate|].
    rewrite memt_app in M. apply orb_false_elim in M. destruct M as [M _].
    assert (Sq : In S (u_scv s)).
    { destruct (r_sl _ I _ HSa) as [[_ B]|[B _]]; [exact B|]. destruct (u_pc s S); discriminate. }
    destruct ms.
    + (* nobody of the send queue woken *)
      destruct (Hmono eq_refl) as (M1 & M2 & M3).
      destruct (HC S HS1 HSa (M1 Hr) (M2 Hs) (M3 Hc)) as [x [[A B]|A]].
      * destruct (Nat.eq_dec x t) as [->|Hx].
        -- exists t. right. rewrite Hpct. auto.
        -- exists x. left. rewrite (Hpco _ Hx). split; [exact A|]. rewrite (Hw _ Hx). destruct (memt x _); auto.
      * destruct (Nat.eq_dec x t) as [->|Hx].
        -- destruct (Hfix A) as [F|F]; [exists t; right; rewrite Hpct; exact F|]. exfalso. apply F. auto.
        -- exists x. right. rewrite (Hpco _ Hx). exact A.
    + (* the head of the send queue woken *)
      cbn in M. destruct (u_scv s) as [|h r] eqn:Eq; [contradiction|]. cbn in M.
      assert (Hh : In h (u_scv s)) by (rewrite Eq; left; reflexivity).
      destruct (r_s _ I _ Hh) as [Ha Hp]. assert (Hht : h <> t) by (intros ->; contradiction).
      assert (Whk : u_w s' h = Woken false).
      { rewrite (Hw _ Hht). replace (memt h _) with true; [reflexivity|]. symmetry. rewrite memt_app.
        apply orb_true_intro. left. apply memt_In. left. reflexivity. }
      destruct (u_pc s h) eqn:Eh; try discriminate Hp.
      * exists h. left. rewrite (Hpco _ Hht), Eh. auto.
      * exfalso. pose proof (r_w2 _ I _ _ _ _ Eh Ha) as Eqq.
        destruct (u_val _ UI h v (Post q)) as (_ & _ & X); [cbn; rewrite Eh; reflexivity|].
        cbn in X. rewrite (Hw1 eq_refl) in Hs. destruct X as [(_ & X & _)|(X & _)]; [rewrite Hs in X; discriminate X|lia].
    + exfalso. apply memt_In in Sq. unfold take_w in M. rewrite Sq in M. discriminate M.
Qed.

Lemma RI2_ustep s t s' : UInv (ucore_of s) -> RI s -> RI2 s -> ustep true s t = Some s' -> RI2 s'.
Proof.
  intros UI I I2 H. unfold ustep in H.
  destruct (u_w s t) as [| |b] eqn:Ew; [|discriminate|].
  all: destruct (u_pc s t) eqn:Epc.
  all: try (destruct (u_prog s t) as [|[] ?]; [discriminate|..]).
  all: cbn [timedout] in H.
  all: repeat match type of H with
       | context [if ?b then _ else _] => destruct b eqn:?
       | context [match u_slot ?s with _ => _ end] => destruct (u_slot s) eqn:?
       end.
  all: inversion H; subst; clear H.
  all: let sl := pick_sl in
       unfold ret_send, ret_recv, deposit, take in *;
       let ms := pick_ms in let mr := pick_mr in
       unfold wait_s, wait_r, sleep, finish, goto, lock, unlock in *;
       eapply (RI2_step s t _ ms mr sl); [exact I | exact UI | exact I2 | rewrite Ew; discriminate | projs; reflexivity | ..].
  (* wake state of the others *)
  all: try solve [intros t0 Hne; projs; unfold upd; rewrite ?(proj2 (Nat.eqb_neq t0 t) Hne);
                  cbn [take_w app]; rewrite ?app_nil_r, ?memt_app; cbn [memt existsb];
                  repeat match goal with |- context [memt ?a ?b] => destruct (memt a b) end; reflexivity].
  (* wake state of t *)
  all: try solve [projs; unfold upd; rewrite ?Nat.eqb_refl, ?Ew;
                  repeat match goal with |- context [memt ?a ?b] => destruct (memt a b) end;
                  split; intros X; try discriminate; try congruence; exfalso; apply X; reflexivity].
  (* rw *)
  all: try solve [projs; rewrite ?Epc; cbn [regR b2n]; cbn; lia].
  (* sleeping in loop 1: no receiver or the slot is occupied *)
  all: try solve [intros X Y; try discriminate X; try discriminate Y; projs;
                  match goal with E : (_ =? 0) || is_some _ = true |- _ =>
                    apply orb_prop in E; destruct E as [E|E];
                    [apply Z.eqb_eq in E; left; lia | right; destruct (u_slot s); [discriminate|discriminate E]] end].
  all: try solve [intros X; try discriminate X; projs; reflexivity].
  (* a notified loop-1 sender goes on to the loop head *)
  all: try solve [rewrite ?Epc, ?Ew; cbn; intros; try discriminate; try reflexivity; destruct b; discriminate].
  (* a thread at the loop head / the deposit *)
  all: try solve [rewrite ?Epc; cbn; intros X; try discriminate X;
                  first [ left; reflexivity
                        | right; projs; intros (A & B & C);
                          first [ discriminate | congruence
                                | match goal with E : (_ =? 0) || is_some _ = true |- _ =>
                                    apply orb_prop in E; destruct E as [E|E];
                                    [apply Z.eqb_eq in E; lia | rewrite B in E; discriminate E] end ] ]].
  (* monotonicity for steps that wake no sender *)
  all: try solve [intros X; try discriminate X; projs; repeat split; intros; try assumption; try lia; try congruence; try discriminate].
Qed.

Lemma RI2_utimer s t s' : RI s -> RI2 s -> utimer s t = Some s' -> RI2 s'.
Proof.
  intros I [HL HC] H. unfold utimer in H. destruct (u_w s t) eqn:Ew; try discriminate.
  destruct (u_dl s t <=? u_now s); [|discriminate]. inversion H; subst; clear H.
  constructor; cbn; [exact HL|].
  intros S HS1 HSa Hr Hs Hc.
  assert (Hne : S <> t) by (intros ->; rewrite upd_same in HSa; discriminate).
  rewrite upd_other in HSa by assumption.
  destruct (HC S HS1 HSa Hr Hs Hc) as [x [[A B]|A]]; exists x.
  - left. split; [exact A|]. assert (x <> t) by (intros ->; congruence). rewrite upd_other; auto.
  - right. exact A.
Qed.
Lemma RI2_tick s d : RI2 s -> RI2 (set_u_now s (u_now s + Z.of_nat d)).
Proof. intros []. constructor; cbn; auto. Qed.

Theorem RI2_reach progs now0 s : ureach true progs now0 s -> RI2 s.
Proof.
  induction 1 as [|s l s' R IH H].
  - apply RI2_init.
  - destruct l as [t|t|d]; cbn in H.
    + eapply RI2_ustep; eauto; [eapply uinv_reach|eapply RI_reach]; eauto.
    + eapply RI2_utimer; eauto. eapply RI_reach; eauto.
    + inversion H; subst. apply RI2_tick. exact IH.
Qed.

(* ---- the release clause ----------------------------------------------------------------------- *)
(* quiescent: the mutex is free and every thread is between two operations or asleep in a cv wait *)
Definition uquiescent (s : ust) : Prop :=
  u_mtx s = None /\ forall t, u_pc s t = UIdle \/ u_w s t = Asleep.

Theorem unbuf_release progs now0 s : ureach true progs now0 s -> uquiescent s ->
  (* after close() nobody is left asleep *)
  (u_closed s = true -> forall t, u_w s t <> Asleep) /\
  (* no receiver asleep while a value is in the slot *)
  (forall t e, u_pc s t = UR_w e -> u_w s t = Asleep -> u_slot s = None) /\
  (* no sender asleep in loop 2 after its value was taken *)
  (forall t v e q, u_pc s t = US_w2 v e q -> u_w s t = Asleep -> q = u_seq s /\ u_slot s = Some v) /\
  (* no sender asleep in loop 1 (waiting for a receiver / the slot) while a receiver is asleep *)
  (forall t1 v e t2 e2, u_pc s t1 = US_w1 v e -> u_w s t1 = Asleep -> u_pc s t2 = UR_w e2 -> u_w s t2 = Asleep -> False).
Proof.
  intros R [_ Q]. pose proof (RI_reach _ _ _ R) as I. pose proof (RI2_reach _ _ _ R) as I2.
  pose proof (uinv_reach _ _ _ R) as UI.
  (* an active thread contradicts quiescence *)
  assert (Act : forall x, u_pc s x <> UIdle -> u_w s x <> Asleep -> False).
  { intros x A B. destruct (Q x); contradiction. }
  assert (C1 : u_closed s = true -> forall t, u_w s t <> Asleep).
  { intros C. destruct (r_cl _ I C) as [[c Hc]|X]; [|exact X]. exfalso. apply (Act c); [rewrite Hc; discriminate|].
    intros E. destruct (r_sl _ I _ E) as [[A _]|[A _]]; rewrite Hc in A; discriminate. }
  assert (C2 : forall t e, u_pc s t = UR_w e -> u_w s t = Asleep -> u_slot s = None).
  { intros t e Ep E. destruct (u_slot s) eqn:Es; [|reflexivity]. exfalso.
    assert (Rn : u_rcv s <> []).
    { destruct (r_sl _ I _ E) as [[A _]|[_ B]]; [rewrite Ep in A; discriminate|]. intros X. rewrite X in B. exact B. }
    assert (Sn : u_slot s <> None) by (rewrite Es; discriminate).
    destruct (r_slot _ I Sn Rn) as [x [[A B]|A]].
    - apply (Act x); [destruct (u_pc s x); discriminate|rewrite B; discriminate].
    - apply (Act x); [destruct (u_pc s x); discriminate|].
      intros E2. destruct (r_sl _ I _ E2) as [[X _]|[X _]]; destruct (u_pc s x); discriminate. }
  split; [exact C1|]. split; [exact C2|]. split.
  - intros t v e q Ep E. pose proof (r_w2 _ I _ _ _ _ Ep E) as Eq. split; [exact Eq|].
    destruct (u_val _ UI t v (Post q)) as (_ & _ & X); [cbn; rewrite Ep; reflexivity|].
    cbn in X. destruct X as [(_ & X & _)|(X & _)]; [exact X|lia].
  - intros t1 v e t2 e2 Ep1 E1 Ep2 E2.
    assert (Hrw : 0 < u_rw s).
    { destruct (c_rw _ I2) as (L & ND & HL & Erw). rewrite Erw.
      assert (Hr : regR (u_pc s t2) = true) by (rewrite Ep2; reflexivity).
      pose proof (cnt_pos (u_pc s) L t2 (HL _ Hr) Hr). lia. }
    assert (Hcl : u_closed s = false).
    { destruct (u_closed s) eqn:C; [|reflexivity]. exfalso. exact (C1 eq_refl t1 E1). }
    assert (H1 : ws1 (u_pc s t1) = true) by (rewrite Ep1; reflexivity).
    destruct (c_C _ I2 t1 H1 E1 Hrw (C2 _ _ Ep2 E2) Hcl) as [x [[A B]|A]].
    + apply (Act x); [destruct (u_pc s x); discriminate|rewrite B; discriminate].
    + apply (Act x); [destruct (u_pc s x); discriminate|].
      intros E3. destruct (r_sl _ I _ E3) as [[X _]|[X _]]; destruct (u_pc s x); discriminate.
Qed.

(* the hypotheses are met by a non-trivial state: the F10 schedule on the repaired code ends quiescent with
   sender 3 asleep in loop 1 (no receiver left), value (2,0) delivered *)
Example unbuf_release_example :
  exists s, ureach true C09_Witness.f10_progs 1000 s /\ uquiescent s /\ u_w s 3%nat = Asleep /\
            (exists v e, u_pc s 3%nat = US_w1 v e) /\ u_taken s = [(2, 0)%nat].
Proof.
  destruct C09_Witness.f10_fixed_behaviour as (s & H & A & _).
  exists s. split.
  { clear A. revert H. generalize (ureach_init true C09_Witness.f10_progs 1000).
    generalize (u_init C09_Witness.f10_progs 1000) as s0.
    generalize (C09_Witness.thr [1; 1; 1; 2; 2; 2; 2; 2; 3; 3; 3; 1; 1; 2; 2; 2; 3; 3]%nat) as ls.
    induction ls as [|l r IH]; intros s0 R H; cbn in H; [inversion H; subst; exact R|].
    destruct (ulstep true s0 l) eqn:E; [|discriminate]. eapply IH; [|exact H]. eapply ureach_step; eauto. }
  revert H. vm_compute. intros H. inversion H; subst; clear H. vm_compute.
  split; [split; [reflexivity|]|].
  - intros t. do 4 (destruct t as [|t]; [vm_compute; auto|]). left. reflexivity.
  - split; [reflexivity|]. split; [do 2 eexists; reflexivity|reflexivity].
Qed.
