From Coq Require Import ZArith List.
From PV Require Import Base.U64 C11.C11_Model C11.C11_Proofs.
Theorem c11_placeholder : True. Proof. exact placeholder. Qed.
Print Assumptions c11_placeholder.
