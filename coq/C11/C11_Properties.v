From Coq Require Import ZArith List.
From PV Require Import Base.U64 C04.C04_Heap C11.C11_Model C11.C11_ProofsSafety C11.C11_ProofsResp C11.C11_ProofsIso C11.C11_Proofs.
Import ListNotations.

Theorem rpc_no_access_after_return :
  forall calls script es s,
    run_events (init true calls script) es = Some s ->
    forall a, In a (s_acc s) -> a_live a = true.
Proof. exact no_access_after_return_all. Qed.
Print Assumptions rpc_no_access_after_return.

Theorem rpc_registered_contexts_live :
  forall calls script es s,
    run_events (init true calls script) es = Some s ->
    (forall g c, In (g, c) (s_map s) -> c_live (s_ctx s c) = true) /\
    (forall t g, adopted_by (pcof s t) = Some g -> c_live (s_ctx s g) = true).
Proof. exact registered_contexts_live. Qed.
Print Assumptions rpc_registered_contexts_live.

Theorem rpc_own_response :
  forall calls script es s,
    run_events (init true calls script) es = Some s ->
    forall t r p, In (t, r, p) (rets (s_trace s)) -> (0 <= r)%Z ->
      exists pre h post, flat script = pre ++ h ++ p ++ post /\
                         hdr_ok h (c_tag0 (s_ctx s t)) (length p) /\ r = Z.of_nat (length p).
Proof. exact own_response_all. Qed.
Print Assumptions rpc_own_response.

Theorem rpc_auto_tag_fresh :
  forall calls script es s,
    run_events (init true calls script) es = Some s -> map_find (s_mtag s + 1)%Z (s_map s) = None.
Proof. exact auto_tag_fresh_all. Qed.
Print Assumptions rpc_auto_tag_fresh.

Theorem rpc_request_tag :
  forall calls script es s,
    run_events (init true calls script) es = Some s ->
    forall t tag size ret now, In (TvWrite t tag size ret now) (s_trace s) -> tag = c_tag0 (s_ctx s t).
Proof. exact request_tag_all. Qed.
Print Assumptions rpc_request_tag.

Theorem rpc_failure_isolated :
  forall calls script es s,
    run_events (init true calls script) es = Some s ->
    (forall e, In e (s_erases s) ->
       match e_adopt e with
       | None => e_tag e = c_tag0 (s_ctx s (e_by e))
       | Some g => e_tag e = c_tag0 (s_ctx s g)
       end) /\
    (forall t g size need, reading_body (pcof s t) = Some (g, size, need) -> body_facts s g size need) /\
    (forall t r p k, In (t, r, p) (rets (s_trace s)) -> ~ In (k, t) (s_map s)).
Proof. exact failure_isolated_all. Qed.
Print Assumptions rpc_failure_isolated.

Theorem rpc_no_access_after_return_refuted :
  exists calls script es s,
    run_events (init false calls script) es = Some s /\
    exists a, In a (s_acc s) /\ a_live a = false.
Proof. exact no_access_after_return_refuted_pinned. Qed.
Print Assumptions rpc_no_access_after_return_refuted.

Theorem rpc_coop_run_is_a_schedule :
  forall fix_ calls script tfuel fuel,
    let d := run_case fix_ calls script tfuel fuel in
    run_events (init fix_ calls script) (rev (d_evs d)) = Some (d_st d).
Proof. exact drive_reachable. Qed.
Print Assumptions rpc_coop_run_is_a_schedule.
