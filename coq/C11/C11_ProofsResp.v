(* C11_ProofsResp.v — `own response` and `failure isolated` for the fixed protocol, every schedule.
   Ghost state used: s_consumed (every byte taken off the stream, in order), c_hoff (the offset in
   s_consumed at which the body of the response adopted for a context starts), c_tag0 (the tag the
   engine assigned to the context), s_erases (every m_map.erase). *)
From Coq Require Import ZArith List Bool Arith Lia.
From PV Require Import Base.U64 C04.C04_Heap C11.C11_Model C11.C11_ProofsSafety.
Import ListNotations.
Local Open Scope Z_scope.

(* ---- lists ------------------------------------------------------------------------------------------ *)
Definition flat (sc : list sev) : list Z :=
  flat_map (fun e => match e with SData _ bs => bs | SEof _ => [] end) sc.

Lemma stake_flat now : forall sc n g sc', stake now n sc = (g, sc') -> flat sc = g ++ flat sc'.
Proof.
  induction sc as [|e r IH]; intros n g sc' H.
  - destruct n; cbn in H; inversion H; reflexivity.
  - destruct n as [|m]; [cbn in H; inversion H; reflexivity|].
    cbn [stake] in H. destruct e as [t bs|t].
    + destruct (t <=? now).
      * destruct (Nat.leb (length bs) (S m)) eqn:L.
        -- destruct (stake now (S m - length bs) r) as [g1 sc1] eqn:E. inversion H; subst.
           change (flat (SData t bs :: r)) with (bs ++ flat r). rewrite (IH _ _ _ E). rewrite app_assoc. reflexivity.
        -- inversion H; subst. change (flat (SData t bs :: r)) with (bs ++ flat r).
           change (flat (SData t (skipn (S m) bs) :: r)) with (skipn (S m) bs ++ flat r).
           rewrite <- (firstn_skipn (S m) bs) at 1. rewrite <- app_assoc. reflexivity.
      * inversion H; subst. reflexivity.
    + inversion H; subst. reflexivity.
Qed.

Lemma stake_len now : forall sc n g sc', stake now n sc = (g, sc') -> (length g <= n)%nat.
Proof.
  induction sc as [|e r IH]; intros n g sc' H.
  - destruct n; cbn in H; inversion H; cbn; lia.
  - destruct n as [|m]; [cbn in H; inversion H; cbn; lia|].
    cbn [stake] in H. destruct e as [t bs|t].
    + destruct (t <=? now).
      * destruct (Nat.leb (length bs) (S m)) eqn:L.
        -- destruct (stake now (S m - length bs) r) as [g1 sc1] eqn:E. inversion H; subst.
           apply Nat.leb_le in L. specialize (IH _ _ _ E). rewrite app_length. lia.
        -- inversion H; subst. apply (firstn_le_length (S m) bs).
      * inversion H; subst. cbn. lia.
    + inversion H; subst. cbn. lia.
Qed.

Lemma overwrite_length h off g : (off + length g <= length h)%nat -> length (overwrite h off g) = length h.
Proof.
  intros H. unfold overwrite. rewrite !app_length, firstn_length, skipn_length. lia.
Qed.

Lemma overwrite_firstn h off g : (off + length g <= length h)%nat ->
  firstn (off + length g) (overwrite h off g) = firstn off h ++ g.
Proof.
  intros H. unfold overwrite.
  assert (L : length (firstn off h) = off) by (rewrite firstn_length; lia).
  rewrite app_assoc.
  rewrite firstn_app.
  assert (L2 : length (firstn off h ++ g) = (off + length g)%nat) by (rewrite app_length; lia).
  rewrite L2, Nat.sub_diag. cbn [firstn]. rewrite app_nil_r.
  rewrite <- L2. apply firstn_all.
Qed.

Lemma slice_mid (pre h rest : list Z) : slice (pre ++ h ++ rest) (length pre) (length h) = h.
Proof.
  unfold slice. rewrite skipn_app, Nat.sub_diag, skipn_all. cbn [skipn app].
  rewrite firstn_app, Nat.sub_diag, firstn_all. cbn. apply app_nil_r.
Qed.

Lemma slice_app_stable (l ext : list Z) off n : (off + n <= length l)%nat -> slice (l ++ ext) off n = slice l off n.
Proof.
  intros H. unfold slice. rewrite skipn_app.
  rewrite firstn_app. rewrite skipn_length.
  replace (n - (length l - off))%nat with 0%nat by lia. cbn [firstn]. apply app_nil_r.
Qed.

(* ---- the response invariant ---------------------------------------------------------------------------- *)
Definition rets (tr : list tev) : list (tid * Z * list Z) :=
  flat_map (fun e => match e with TvRet t r _ p _ => [(t, r, p)] | _ => [] end) tr.

Definition hdr_ok (h : list Z) (tag : Z) (size : nat) : Prop :=
  length h = 40%nat /\ hdr_magic h = MAGIC /\ hdr_version h = VERSION /\ hdr_tag h = tag /\
  Z.to_nat (hdr_size h) = size.

(* the buffer of context c holds exactly the bytes that followed, on the wire, a well-formed header
   carrying the tag the engine gave to c and announcing that many bytes; c_ret is their number *)
Definition good_resp (cons : list Z) (c : ctx) : Prop :=
  exists pre h post, cons = pre ++ h ++ c_buf c ++ post /\
                     hdr_ok h (c_tag0 c) (length (c_buf c)) /\ c_ret c = Z.of_nat (length (c_buf c)).

Definition reading_hdr (p : pc) : option nat :=
  match p with PHdrRead _ got _ | PHdrSleep _ got _ => Some got | _ => None end.
Definition reading_body (p : pc) : option (tid * nat * nat) :=
  match p with PBodyRead _ g size need _ | PBodySleep _ g size need _ => Some (g, size, need) | _ => None end.

Definition hdr_facts (s : state) (got : nat) : Prop :=
  (got <= 40)%nat /\ exists pre, s_consumed s = pre ++ firstn got (s_hdr s).
Definition body_facts (s : state) (g : tid) (size need : nat) : Prop :=
  (need <= size)%nat /\ length (c_buf (s_ctx s g)) = (size - need)%nat /\
  hdr_ok (s_hdr s) (c_tag0 (s_ctx s g)) size /\
  exists pre, s_consumed s = pre ++ s_hdr s ++ c_buf (s_ctx s g).

(* `ex`: a reader that is in the middle of marking its OWN context COLLECTED (it returns in the same
   micro step) is exempt from j_rph *)
Record JJ (ex : option tid) (w0 : list Z) (s : state) : Prop := {
  j_wire : w0 = s_consumed s ++ flat (s_script s);
  j_hlen : length (s_hdr s) = 40%nat;
  j_hdr : forall t got, reading_hdr (pcof s t) = Some got -> hdr_facts s got;
  j_body : forall t g size need, reading_body (pcof s t) = Some (g, size, need) -> body_facts s g size need;
  j_rph : forall t, Some t <> ex -> is_reader (pcof s t) = true -> c_phase (s_ctx s t) <> COLLECTED;
  j_coll : forall t, c_phase (s_ctx s t) = COLLECTED -> 0 <= c_ret (s_ctx s t) ->
           good_resp (s_consumed s) (s_ctx s t);
  j_ret : forall t r p, In (t, r, p) (rets (s_trace s)) ->
          pcof s t = PDone /\
          (0 <= r -> c_phase (s_ctx s t) = COLLECTED /\ r = c_ret (s_ctx s t) /\ p = c_buf (s_ctx s t)) }.

Notation J := (JJ None).

Record same_j (s s' : state) : Prop := {
  sj_pc : forall t, pcof s' t = pcof s t;
  sj_ctx : forall t, s_ctx s' t = s_ctx s t;
  sj_hdr : s_hdr s' = s_hdr s;
  sj_script : s_script s' = s_script s;
  sj_consumed : s_consumed s' = s_consumed s;
  sj_rets : rets (s_trace s') = rets (s_trace s) }.

Lemma same_j_refl s : same_j s s.
Proof. constructor; reflexivity. Qed.
Lemma same_j_trans s1 s2 s3 : same_j s1 s2 -> same_j s2 s3 -> same_j s1 s3.
Proof. intros [a1 a2 a3 a4 a5 a6] [b1 b2 b3 b4 b5 b6]; constructor; intros; congruence. Qed.

Lemma J_same ex w0 s s' : same_j s s' -> JJ ex w0 s -> JJ ex w0 s'.
Proof.
  intros [v1 v2 v3 v4 v5 v6] [h1 h2 h3 h4 h5 h6 h7].
  constructor.
  - rewrite v5, v4. exact h1.
  - rewrite v3. exact h2.
  - intros t got. rewrite v1. unfold hdr_facts. rewrite v5, v3. apply h3.
  - intros t g size need. rewrite v1. unfold body_facts. rewrite v5, v3, v2. apply h4.
  - intros t. rewrite v1, v2. apply h5.
  - intros t. rewrite v2, v5. apply h6.
  - intros t r p. rewrite v6, v1, v2. apply h7.
Qed.

Lemma sj_wake s h e : same_j s (wake s h e).
Proof. constructor; try reflexivity. intros; apply pcof_wake. Qed.
Lemma sj_set_err s t e : same_j s (set_err s t e).
Proof. constructor; try reflexivity. intros x. apply (sv_pc _ _ (sv_set_err s t e)). Qed.
Lemma sj_interrupt s h e : same_j s (interrupt s h e).
Proof.
  unfold interrupt. destruct (t_stat (s_thr s h)).
  - destruct (t_err (s_thr s h) =? 0). apply sj_set_err. apply same_j_refl.
  - apply sj_wake.
Qed.
Lemma sj_notify_one s : same_j s (notify_one s).
Proof. unfold notify_one. destruct (s_waitq s). apply same_j_refl. apply sj_wake. Qed.
Lemma sj_set_errno s e : same_j s (set_errno s e).
Proof. constructor; reflexivity. Qed.
Lemma sj_set_stmo s e : same_j s (set_stmo s e).
Proof. constructor; reflexivity. Qed.
Lemma sj_set_waitq s e : same_j s (set_waitq s e).
Proof. constructor; reflexivity. Qed.
Lemma sj_set_rlock s e : same_j s (set_rlock s e).
Proof. constructor; reflexivity. Qed.
Lemma sj_set_now s e : same_j s (set_now s e).
Proof. constructor; reflexivity. Qed.
Lemma sj_set_woken s e : same_j s (set_woken s e).
Proof. constructor; reflexivity. Qed.
Lemma sj_set_mtag s e : same_j s (set_mtag s e).
Proof. constructor; reflexivity. Qed.
Lemma sj_set_map s e : same_j s (set_map s e).
Proof. constructor; reflexivity. Qed.
Lemma sj_erase s a b c : same_j s (erase_tag s a b c).
Proof. constructor; reflexivity. Qed.
Lemma sj_add_acc s a b c : same_j s (add_acc s a b c).
Proof. constructor; reflexivity. Qed.
Lemma sj_shutdown s t : same_j s (stream_shutdown s t).
Proof. constructor; reflexivity. Qed.
Lemma sj_add_trace s e : (match e with TvRet _ _ _ _ _ => False | _ => True end) -> same_j s (add_trace s e).
Proof. intros H. constructor; try reflexivity. destruct e; try reflexivity. contradiction. Qed.

Lemma sj_usleep_ret s t : same_j s (fst (usleep_ret s t)).
Proof.
  unfold usleep_ret. destruct (t_err (s_thr s t) =? 0); cbn [fst].
  - apply same_j_refl.
  - eapply same_j_trans. apply sj_set_err. apply sj_set_errno.
Qed.
Lemma sj_cvwait_ret s t : same_j s (fst (cvwait_ret s t)).
Proof.
  unfold cvwait_ret. pose proof (sj_usleep_ret s t) as H.
  destruct (usleep_ret s t) as [s1 r]. cbn [fst] in H.
  destruct (r =? 0); cbn [fst].
  - eapply same_j_trans. apply H. apply sj_set_errno.
  - destruct (s_errno s1 =? -1); exact H.
Qed.
Lemma sj_do_send s3 t tag dl : same_j s3 (fst (do_send s3 t tag dl)).
Proof.
  unfold do_send.
  destruct (dl <? s_now s3); [apply sj_set_errno|].
  destruct (4294967295 <? k_req (nth t (s_calls s3) dummy_call)); [apply sj_set_errno|].
  set (s3a := if s_shut s3 then set_errno s3 EPIPE else s3).
  assert (A : same_j s3 s3a) by (unfold s3a; destruct (s_shut s3); [apply sj_set_errno|apply same_j_refl]).
  match goal with |- context [add_trace s3a ?e] => set (s3b := add_trace s3a e) end.
  assert (B : same_j s3 s3b) by (eapply same_j_trans; [exact A|apply sj_add_trace; exact I]).
  match goal with |- context [if ?c then (s3b, 0) else _] => destruct c end; cbn [fst]; [exact B|].
  eapply same_j_trans; [exact B|]. eapply same_j_trans; [apply sj_shutdown|apply sj_set_errno].
Qed.

Lemma good_resp_app cons ext c : good_resp cons c -> good_resp (cons ++ ext) c.
Proof.
  intros (pre & h & post & E & H1 & H2). exists pre, h, (post ++ ext). split; [|split; auto].
  rewrite E. rewrite <- !app_assoc. reflexivity.
Qed.

(* ---- generic J transitions --------------------------------------------------------------------------- *)
(* only the pc of t changes *)
Record pc_updj (s s' : state) (t : tid) (p : pc) : Prop := {
  pj_pc : forall x, pcof s' x = if Nat.eqb x t then p else pcof s x;
  pj_ctx : forall x, s_ctx s' x = s_ctx s x;
  pj_hdr : s_hdr s' = s_hdr s;
  pj_script : s_script s' = s_script s;
  pj_consumed : s_consumed s' = s_consumed s;
  pj_rets : rets (s_trace s') = rets (s_trace s) }.

Lemma pc_updj_set_pc s t p : pc_updj s (set_pc s t p) t p.
Proof. constructor; try reflexivity. apply pcof_set_pc. Qed.
Lemma pc_updj_sleep s t w p : pc_updj s (sleep s t w p) t p.
Proof. constructor; try reflexivity. apply pcof_sleep. Qed.

Lemma J_pc ex w0 s s' t p :
  JJ ex w0 s -> pc_updj s s' t p ->
  (forall got, reading_hdr p = Some got -> hdr_facts s got) ->
  (forall g size need, reading_body p = Some (g, size, need) -> body_facts s g size need) ->
  (Some t <> ex -> is_reader p = true -> c_phase (s_ctx s t) <> COLLECTED) ->
  (pcof s t <> PDone \/ p = PDone) ->
  JJ ex w0 s'.
Proof.
  intros [h1 h2 h3 h4 h5 h6 h7] [u1 u2 u3 u4 u5 u6] Hh Hb Hr Hd.
  constructor.
  - rewrite u5, u4. exact h1.
  - rewrite u3. exact h2.
  - intros x got. rewrite u1. unfold hdr_facts. rewrite u5, u3. eqb_case x t; [apply Hh|apply h3].
  - intros x g size need. rewrite u1. unfold body_facts. rewrite u5, u3, u2. eqb_case x t; [apply Hb|apply h4].
  - intros x. rewrite u1, u2. eqb_case x t; [exact Hr|apply h5].
  - intros x. rewrite u2, u5. apply h6.
  - intros x r p0. rewrite u6, u1, u2. intros H. destruct (h7 x r p0 H) as [A B]. split; [|exact B].
    eqb_case x t; [|exact A]. destruct Hd as [Hd|Hd]; [contradiction|exact Hd].
Qed.

(* a context is updated without touching what J reads *)
Lemma J_ctx_upd ex w0 s g c' :
  JJ ex w0 s ->
  c_buf c' = c_buf (s_ctx s g) -> c_tag0 c' = c_tag0 (s_ctx s g) -> c_ret c' = c_ret (s_ctx s g) ->
  (c_phase c' = c_phase (s_ctx s g) \/ (c_phase c' <> COLLECTED /\ c_phase (s_ctx s g) <> COLLECTED)) ->
  JJ ex w0 (upd_ctx s g c').
Proof.
  intros [h1 h2 h3 h4 h5 h6 h7] Eb E0 Er Ep.
  assert (B : forall x, c_buf (s_ctx (upd_ctx s g c') x) = c_buf (s_ctx s x)).
  { intros x. rewrite ctx_upd_ctx. eqb_case x g; auto. }
  assert (T0 : forall x, c_tag0 (s_ctx (upd_ctx s g c') x) = c_tag0 (s_ctx s x)).
  { intros x. rewrite ctx_upd_ctx. eqb_case x g; auto. }
  assert (R : forall x, c_ret (s_ctx (upd_ctx s g c') x) = c_ret (s_ctx s x)).
  { intros x. rewrite ctx_upd_ctx. eqb_case x g; auto. }
  assert (P : forall x, c_phase (s_ctx (upd_ctx s g c') x) = COLLECTED <-> c_phase (s_ctx s x) = COLLECTED).
  { intros x. rewrite ctx_upd_ctx. eqb_case x g; [|tauto]. destruct Ep as [Ep|[A B']]; [rewrite Ep; tauto|tauto]. }
  constructor.
  - exact h1.
  - exact h2.
  - exact h3.
  - intros x g0 size need H. destruct (h4 x g0 size need H) as (a & b & c & d).
    unfold body_facts. rewrite B, T0. split; [exact a|split; [exact b|split; [exact c|exact d]]].
  - intros x Hx H. intros E. apply P in E. revert E. apply h5; auto.
  - intros x H1 H2. apply P in H1. rewrite R in H2. specialize (h6 x H1 H2).
    destruct h6 as (pre & h & post & E & Hk & Hr). exists pre, h, post. rewrite B, T0, R. auto.
  - intros x r p H. destruct (h7 x r p H) as [A Bq]. split; [exact A|]. intros Hr.
    destruct (Bq Hr) as (b1 & b2 & b3). rewrite R, B. split; [apply P; exact b1|auto].
Qed.

Lemma J_weaken ex w0 s : J w0 s -> JJ ex w0 s.
Proof.
  intros [h1 h2 h3 h4 h5 h6 h7]. constructor; auto. intros t _. apply h5. discriminate.
Qed.

(* ---- returning ------------------------------------------------------------------------------------------ *)
Lemma sj_ret_mid s r w (rd : bool) : same_j s (ret_mid s r w rd).
Proof.
  unfold ret_mid. set (s1 := if rd then set_rlock s None else s).
  assert (H1 : same_j s s1) by (unfold s1; destruct rd; [apply sj_set_rlock|apply same_j_refl]).
  assert (H2 : same_j s (if w then notify_one s1 else s1)).
  { destruct w; [|exact H1]. eapply same_j_trans; [exact H1|apply sj_notify_one]. }
  set (s2 := if w then notify_one s1 else s1) in *.
  destruct (r <? 0); [|exact H2].
  destruct (s_errno s2 =? ECONNRESET); [exact H2|].
  eapply same_j_trans. exact H2. apply sj_set_errno.
Qed.

Lemma ret_call_jview s t r w rd s' :
  s' = ret_call s t r w rd ->
  s_hdr s' = s_hdr s /\ s_script s' = s_script s /\ s_consumed s' = s_consumed s /\
  rets (s_trace s') =
    (t, (if r <? 0 then -1 else r), (if (if r <? 0 then -1 else r) <? 0 then [] else c_buf (s_ctx s t))) :: rets (s_trace s).
Proof.
  pose proof (sj_ret_mid s r w rd) as [v1 v2 v3 v4 v5 v6].
  assert (E : ret_call s t r w rd =
              park (add_trace (upd_ctx (ret_mid s r w rd) t (cset_live (s_ctx (ret_mid s r w rd) t) false))
                      (TvRet t (if r <? 0 then -1 else r)
                             (if (if r <? 0 then -1 else r) <? 0 then s_errno (ret_mid s r w rd) else 0)
                             (if (if r <? 0 then -1 else r) <? 0 then [] else c_buf (s_ctx (ret_mid s r w rd) t)) (s_now s))) t)
    by reflexivity.
  intros ->. rewrite E. clear E. set (m := ret_mid s r w rd) in *.
  match goal with |- context [park ?X t] => set (f := park X t) end.
  assert (A1 : s_hdr f = s_hdr m) by reflexivity.
  assert (A2 : s_script f = s_script m) by reflexivity.
  assert (A3 : s_consumed f = s_consumed m) by reflexivity.
  assert (A4 : rets (s_trace f) =
               (t, (if r <? 0 then -1 else r), (if (if r <? 0 then -1 else r) <? 0 then [] else c_buf (s_ctx m t))) :: rets (s_trace m))
    by reflexivity.
  rewrite A1, A2, A3, A4, v3, v4, v5, v6, v2. repeat split; reflexivity.
Qed.

Lemma J_ret_call w0 s t r w rd :
  JJ (Some t) w0 s -> pcof s t <> PDone ->
  (0 <= r -> c_phase (s_ctx s t) = COLLECTED /\ r = c_ret (s_ctx s t)) ->
  J w0 (ret_call s t r w rd).
Proof.
  intros [h1 h2 h3 h4 h5 h6 h7] Hd Hr.
  destruct (ret_call_view s t r w rd _ eq_refl) as (u1 & u2 & _).
  destruct (ret_call_jview s t r w rd _ eq_refl) as (j1 & j2 & j3 & j4).
  set (s' := ret_call s t r w rd) in *.
  assert (B : forall x, c_buf (s_ctx s' x) = c_buf (s_ctx s x)) by (intros x; rewrite u2; eqb_case x t; reflexivity).
  assert (T0 : forall x, c_tag0 (s_ctx s' x) = c_tag0 (s_ctx s x)) by (intros x; rewrite u2; eqb_case x t; reflexivity).
  assert (R : forall x, c_ret (s_ctx s' x) = c_ret (s_ctx s x)) by (intros x; rewrite u2; eqb_case x t; reflexivity).
  assert (P : forall x, c_phase (s_ctx s' x) = c_phase (s_ctx s x)) by (intros x; rewrite u2; eqb_case x t; reflexivity).
  constructor.
  - rewrite j3, j2. exact h1.
  - rewrite j1. exact h2.
  - intros x got. rewrite u1. eqb_case x t; [cbn; discriminate|]. unfold hdr_facts. rewrite j3, j1. apply h3.
  - intros x g size need. rewrite u1. eqb_case x t; [cbn; discriminate|].
    unfold body_facts. rewrite j3, j1, B, T0. apply h4.
  - intros x _. rewrite u1, P. eqb_case x t; [cbn; discriminate|]. apply h5. congruence.
  - intros x. rewrite P, R, j3. intros H1 H2. specialize (h6 x H1 H2).
    destruct h6 as (pre & h & post & E & Hk & Hq). exists pre, h, post. rewrite B, T0, R. auto.
  - intros x r0 p0. rewrite j4. intros [H|H].
    + inversion H; subst x r0 p0. rewrite u1, Nat.eqb_refl. split; [reflexivity|].
      destruct (Z.ltb_spec r 0) as [L|L].
      * intros C. exfalso. lia.
      * intros _. destruct (Hr L) as [A Bq]. rewrite P, R, B.
        destruct (Z.ltb_spec r 0); [lia|]. auto.
    + destruct (h7 x r0 p0 H) as [A Bq]. assert (x <> t) by (intros ->; contradiction).
      rewrite u1, P, R, B. destruct (Nat.eqb_spec x t); [contradiction|]. auto.
Qed.

(* ---- a new context (do_call) ----------------------------------------------------------------------------- *)
Lemma J_ctx_new w0 s t cn :
  J w0 s -> pcof s t <> PDone ->
  (forall x g size need, reading_body (pcof s x) = Some (g, size, need) -> g <> t) ->
  c_phase cn <> COLLECTED ->
  J w0 (upd_ctx s t cn).
Proof.
  intros [h1 h2 h3 h4 h5 h6 h7] Hd Hb Hp.
  constructor.
  - exact h1.
  - exact h2.
  - exact h3.
  - intros x g size need H. pose proof (Hb x g size need H) as N. destruct (h4 x g size need H) as (a & b & c & d).
    unfold body_facts. rewrite ctx_upd_ctx. destruct (Nat.eqb_spec g t); [contradiction|].
    split; [exact a|split; [exact b|split; [exact c|exact d]]].
  - intros x Hx H. rewrite ctx_upd_ctx. eqb_case x t; [exact Hp|apply h5; auto].
  - intros x. rewrite ctx_upd_ctx. eqb_case x t; [intros; contradiction|apply h6].
  - intros x r p H. destruct (h7 x r p H) as [A B]. assert (x <> t) by (intros ->; contradiction).
    change (pcof (upd_ctx s t cn) x) with (pcof s x). rewrite ctx_upd_ctx.
    destruct (Nat.eqb_spec x t); [contradiction|]. auto.
Qed.

(* ---- the header buffer ------------------------------------------------------------------------------------- *)
Lemma J_set_hdr ex w0 s h' :
  JJ ex w0 s -> (forall x, reading_hdr (pcof s x) = None /\ reading_body (pcof s x) = None) ->
  length h' = 40%nat -> JJ ex w0 (set_hdr s h').
Proof.
  intros [h1 h2 h3 h4 h5 h6 h7] Hn L. constructor; auto.
  - intros x got H. change (pcof (set_hdr s h') x) with (pcof s x) in H. destruct (Hn x) as [A _]. congruence.
  - intros x g size need H. change (pcof (set_hdr s h') x) with (pcof s x) in H. destruct (Hn x) as [_ A]. congruence.
Qed.

Lemma reading_is_reader p : (reading_hdr p <> None \/ reading_body p <> None) -> is_reader p = true.
Proof. destruct p; cbn; intros [H|H]; congruence. Qed.

Lemma only_reader_reads s t o :
  Inv s -> reader_otag (pcof s t) = Some o ->
  forall x, x <> t -> reading_hdr (pcof s x) = None /\ reading_body (pcof s x) = None.
Proof.
  intros I R x N.
  assert (NR : is_reader (pcof s x) = false).
  { destruct (is_reader (pcof s x)) eqn:E; auto. exfalso. apply N. eapply reader_unique; eauto.
    unfold is_reader. rewrite R. reflexivity. }
  split.
  - destruct (reading_hdr (pcof s x)) eqn:E; auto. rewrite reading_is_reader in NR; [discriminate|left; congruence].
  - destruct (reading_body (pcof s x)) eqn:E; auto. rewrite reading_is_reader in NR; [discriminate|right; congruence].
Qed.

(* a failing return that is not produced by ret_call (do_call 161-163) *)
Lemma J_fail_ret w0 s s' t r p :
  J w0 s -> pcof s t <> PDone -> r < 0 ->
  (forall x, pcof s' x = if Nat.eqb x t then PDone else pcof s x) ->
  (forall x, s_ctx s' x = s_ctx s x) -> s_hdr s' = s_hdr s -> s_script s' = s_script s ->
  s_consumed s' = s_consumed s -> rets (s_trace s') = (t, r, p) :: rets (s_trace s) ->
  J w0 s'.
Proof.
  intros [h1 h2 h3 h4 h5 h6 h7] Hd Hr u1 u2 u3 u4 u5 u6.
  constructor.
  - rewrite u5, u4. exact h1.
  - rewrite u3. exact h2.
  - intros x got. rewrite u1. eqb_case x t; [cbn; discriminate|]. unfold hdr_facts. rewrite u5, u3. apply h3.
  - intros x g size need. rewrite u1. eqb_case x t; [cbn; discriminate|].
    unfold body_facts. rewrite u5, u3, u2. apply h4.
  - intros x Hx. rewrite u1, u2. eqb_case x t; [cbn; discriminate|]. apply h5. exact Hx.
  - intros x. rewrite u2, u5. apply h6.
  - intros x r0 p0. rewrite u6. intros [H|H].
    + inversion H; subst. rewrite u1, Nat.eqb_refl. split; [reflexivity|]. intros; lia.
    + destruct (h7 x r0 p0 H) as [A B]. assert (x <> t) by (intros ->; contradiction).
      rewrite u1, u2. destruct (Nat.eqb_spec x t); [contradiction|]. auto.
Qed.

(* a context that is neither COLLECTED nor returned: its return value, and (if nobody is receiving
   into it) its buffer, are free *)
Lemma J_ctx_free ex w0 s g c' :
  JJ ex w0 s -> c_phase (s_ctx s g) <> COLLECTED -> pcof s g <> PDone ->
  c_tag0 c' = c_tag0 (s_ctx s g) -> c_phase c' = c_phase (s_ctx s g) ->
  (c_buf c' = c_buf (s_ctx s g) \/ forall x g' size need, reading_body (pcof s x) = Some (g', size, need) -> g' <> g) ->
  JJ ex w0 (upd_ctx s g c').
Proof.
  intros [h1 h2 h3 h4 h5 h6 h7] Hp Hd E0 Ep Eb.
  constructor.
  - exact h1.
  - exact h2.
  - exact h3.
  - intros x g0 size need H. destruct (h4 x g0 size need H) as (a & b & c & d).
    unfold body_facts. rewrite ctx_upd_ctx. eqb_case g0 g.
    + destruct Eb as [Eb|Eb]; [|exfalso; eapply Eb; eauto].
      rewrite Eb, E0. split; [exact a|split; [exact b|split; [exact c|exact d]]].
    + split; [exact a|split; [exact b|split; [exact c|exact d]]].
  - intros x Hx H. rewrite ctx_upd_ctx. eqb_case x g; [rewrite Ep; exact Hp|apply h5; auto].
  - intros x. rewrite ctx_upd_ctx. eqb_case x g; [rewrite Ep; intros; contradiction|apply h6].
  - intros x r p H. destruct (h7 x r p H) as [A B]. assert (x <> g) by (intros ->; contradiction).
    change (pcof (upd_ctx s g c') x) with (pcof s x). rewrite ctx_upd_ctx.
    destruct (Nat.eqb_spec x g); [contradiction|]. auto.
Qed.

(* the reader t marks targ COLLECTED *)
Lemma J_collect w0 s t targ :
  J w0 s -> pcof s targ <> PDone -> c_phase (s_ctx s targ) <> COLLECTED ->
  (0 <= c_ret (s_ctx s targ) -> good_resp (s_consumed s) (s_ctx s targ)) ->
  (is_reader (pcof s targ) = true -> targ = t) ->
  JJ (Some t) w0 (upd_ctx s targ (cset_phase (s_ctx s targ) COLLECTED)).
Proof.
  intros [h1 h2 h3 h4 h5 h6 h7] Hd Hp Hg Hr.
  constructor.
  - exact h1.
  - exact h2.
  - exact h3.
  - intros x g0 size need H. destruct (h4 x g0 size need H) as (a & b & c & d).
    unfold body_facts. rewrite ctx_upd_ctx. eqb_case g0 targ; split; auto.
  - intros x Hx H. rewrite ctx_upd_ctx. eqb_case x targ; [|apply h5; [discriminate|exact H]].
    exfalso. apply Hx. f_equal. apply Hr. exact H.
  - intros x. rewrite ctx_upd_ctx. eqb_case x targ; [|apply h6].
    intros _ H. destruct (Hg H) as (pre & h & post & E & Hk & Hq). exists pre, h, post. auto.
  - intros x r p H. destruct (h7 x r p H) as [A B]. assert (x <> targ) by (intros ->; contradiction).
    change (pcof (upd_ctx s targ (cset_phase (s_ctx s targ) COLLECTED)) x) with (pcof s x). rewrite ctx_upd_ctx.
    destruct (Nat.eqb_spec x targ); [contradiction|]. auto.
Qed.

Lemma J_strengthen w0 s t : JJ (Some t) w0 s -> (is_reader (pcof s t) = true -> c_phase (s_ctx s t) <> COLLECTED) -> J w0 s.
Proof.
  intros [h1 h2 h3 h4 h5 h6 h7] H. constructor; auto.
  intros x _ Hx. destruct (Nat.eq_dec x t) as [->|N]; [auto|]. apply h5; [congruence|exact Hx].
Qed.

(* ---- the micro steps ------------------------------------------------------------------------------------ *)
Lemma reading_body_adopted p g size need : reading_body p = Some (g, size, need) -> adopted_by p = Some g.
Proof. destruct p; cbn; intros H; inversion H; reflexivity. Qed.

Lemma not_done_of_inside p : inside p = true -> p <> PDone.
Proof. intros H E. subst. discriminate. Qed.

Lemma J_step_call w0 s t : Inv s -> J w0 s -> pcof s t = PCall -> J w0 (step_call s t).
Proof.
  intros I Jc P.
  assert (ND : pcof s t <> PDone) by (rewrite P; discriminate).
  unfold step_call.
  set (k := nth t (s_calls s) dummy_call). set (now := s_now s).
  set (exp := if k_tmo k =? 0 then 0 else sat_add now (k_tmo k)).
  destruct (exp <? now).
  { unfold ret_nocall, park.
    eapply J_fail_ret with (t := t) (r := -1) (p := []); [exact Jc|exact ND|lia|..]; try reflexivity.
    intros x. rewrite pcof_sleep. reflexivity. }
  set (rem := sat_sub exp now). set (dl := if rem =? 0 then 0 else sat_add now rem).
  set (tag := s_mtag s + 1).
  set (cn := mkCtx tag BEFORE_ISSUE 0 (Some t) dl true [] tag 0 true).
  set (s2 := upd_ctx (set_mtag s tag) t cn).
  assert (J2 : J w0 s2).
  { apply J_ctx_new.
    - eapply J_same; [apply sj_set_mtag|exact Jc].
    - exact ND.
    - intros x g size need H Eg. subst g. apply reading_body_adopted in H.
      change (pcof (set_mtag s tag) x) with (pcof s x) in H.
      destruct (i_adopt _ I _ _ H) as (a & _). rewrite P in a. discriminate.
    - cbn. discriminate. }
  destruct (map_find tag (s_map s2)).
  { eapply J_same; [|exact J2]. constructor; reflexivity. }
  set (s3 := set_map s2 (s_map s2 ++ [(tag, t)])).
  pose proof (sj_do_send s3 t tag dl) as V.
  destruct (do_send s3 t tag dl) as [s4 r2]. cbn [fst] in V.
  assert (J4 : J w0 s4) by (eapply J_same; [exact V|]; eapply J_same; [apply sj_set_map|exact J2]).
  assert (P4 : pcof s4 t = PCall) by (rewrite (sj_pc _ _ V); exact P).
  assert (C4 : s_ctx s4 t = cn).
  { rewrite (sj_ctx _ _ V). unfold s3, s2. cbn. unfold updn. rewrite Nat.eqb_refl. reflexivity. }
  destruct (r2 <? 0).
  { apply J_ret_call.
    - apply J_weaken. eapply J_same; [apply sj_erase|exact J4].
    - change (pcof (erase_tag s4 t tag None) t) with (pcof s4 t). rewrite P4. discriminate.
    - intros; lia. }
  set (s5 := upd_ctx s4 t (cset_phase (s_ctx s4 t) ISSUED)).
  assert (J5 : J w0 s5).
  { apply J_ctx_upd; auto. right. rewrite C4. cbn. split; discriminate. }
  assert (P5 : pcof s5 t <> PDone) by (change (pcof s5 t) with (pcof s4 t); rewrite P4; discriminate).
  destruct (map_find (c_tag (s_ctx s5 t)) (s_map s5)).
  2:{ apply J_ret_call; [apply J_weaken; eapply J_same; [apply sj_set_errno|exact J5]|exact P5|intros; lia]. }
  destruct (c_phase (s_ctx s5 t)).
  - apply J_ret_call; [apply J_weaken; eapply J_same; [apply sj_set_errno|exact J5]|exact P5|intros; lia].
  - eapply J_pc; [exact J5|apply pc_updj_set_pc|..]; try (cbn; intros; discriminate). left; exact P5.
  - apply J_ret_call; [apply J_weaken; eapply J_same; [apply sj_set_errno|exact J5]|exact P5|intros; lia].
  - eapply J_pc; [exact J5|apply pc_updj_set_pc|..]; try (cbn; intros; discriminate). left; exact P5.
Qed.

Lemma J_step_waitloop w0 s t tmo : Inv s -> J w0 s -> pcof s t = PWaitLoop tmo -> J w0 (step_waitloop s t tmo).
Proof.
  intros I Jc P. unfold step_waitloop.
  assert (ND : pcof s t <> PDone) by (rewrite P; discriminate).
  assert (Park : forall s1, J w0 s1 -> (forall x, pcof s1 x = pcof s x) -> c_phase (s_ctx s1 t) <> COLLECTED ->
                 J w0 (match s_rlock s1 with
                       | None => set_pc (set_rlock s1 (Some t)) t (PReaderLoop (c_tag (s_ctx s1 t)))
                       | Some _ => sleep (set_waitq s1 (s_waitq s1 ++ [t])) t tmo (PParked tmo)
                       end)).
  { intros s1 J1 P1 Ph1. destruct (s_rlock s1).
    - eapply J_pc; [eapply J_same; [apply sj_set_waitq|exact J1]|apply pc_updj_sleep|..]; try (cbn; intros; discriminate).
      left. change (pcof (set_waitq s1 (s_waitq s1 ++ [t])) t) with (pcof s1 t). rewrite P1. exact ND.
    - eapply J_pc; [eapply J_same; [apply sj_set_rlock|exact J1]|apply pc_updj_set_pc|..]; try (cbn; intros; discriminate).
      + intros _ _. exact Ph1.
      + left. change (pcof (set_rlock s1 (Some t)) t) with (pcof s1 t). rewrite P1. exact ND. }
  destruct (c_phase (s_ctx s t)) eqn:Ph.
  - apply J_ret_call; [apply J_weaken; eapply J_same; [apply sj_set_errno|exact Jc]|exact ND|intros; lia].
  - apply Park.
    + apply J_ctx_upd; auto. right. rewrite Ph. cbn. split; discriminate.
    + reflexivity.
    + rewrite ctx_upd_ctx, Nat.eqb_refl. cbn. discriminate.
  - apply Park; auto. rewrite Ph. discriminate.
  - destruct (c_th (s_ctx s t)) as [h|].
    + destruct (Nat.eqb h t).
      * apply J_ret_call; [apply J_weaken; exact Jc|exact ND|]. intros _. split; [exact Ph|reflexivity].
      * apply J_ret_call; [apply J_weaken; eapply J_same; [apply sj_set_errno|exact Jc]|exact ND|intros; lia].
    + apply J_ret_call; [apply J_weaken; eapply J_same; [apply sj_set_errno|exact Jc]|exact ND|intros; lia].
Qed.

Lemma J_step_parked w0 s t tmo : Inv s -> J w0 s -> pcof s t = PParked tmo -> J w0 (step_parked s t tmo).
Proof.
  intros I Jc P. unfold step_parked.
  pose proof (sj_cvwait_ret s t) as V. destruct (cvwait_ret s t) as [s1 r]. cbn [fst] in V.
  assert (J1 : J w0 s1) by (eapply J_same; eauto).
  assert (P1 : pcof s1 t = PParked tmo) by (rewrite (sj_pc _ _ V); exact P).
  assert (ND : pcof s1 t <> PDone) by (rewrite P1; discriminate).
  destruct (phase_eqb (c_phase (s_ctx s1 t)) COLLECTED && match c_th (s_ctx s1 t) with Some h => Nat.eqb h t | None => false end) eqn:B.
  { apply andb_true_iff in B. destruct B as [B _]. apply phase_eqb_true in B.
    apply J_ret_call; [apply J_weaken; exact J1|exact ND|]. intros _. split; [exact B|reflexivity]. }
  destruct (r =? -1).
  2:{ eapply J_pc; [exact J1|apply pc_updj_set_pc|..]; try (cbn; intros; discriminate). left; exact ND. }
  set (s2 := erase_tag s1 t (c_tag (s_ctx s1 t)) None).
  assert (J2 : J w0 s2) by (eapply J_same; [apply sj_erase|exact J1]).
  destruct (s_fix s && negb (map_mem (c_tag (s_ctx s1 t)) (s_map s1))).
  - eapply J_pc; [exact J2|apply pc_updj_set_pc|..]; try (cbn; intros; discriminate). left; exact ND.
  - apply J_ret_call; [apply J_weaken; eapply J_same; [apply sj_set_errno|exact J2]|exact ND|intros; lia].
Qed.

Lemma J_hdr_fail w0 s t otag : J w0 s -> pcof s t <> PDone -> J w0 (hdr_fail s t otag).
Proof.
  intros Jc ND. unfold hdr_fail.
  apply J_ret_call; [apply J_weaken; eapply J_same; [apply sj_erase|exact Jc]|exact ND|intros; lia].
Qed.

Lemma J_hdr_short w0 s t otag ret : J w0 s -> pcof s t <> PDone -> J w0 (hdr_short s t otag ret).
Proof.
  intros Jc ND. unfold hdr_short.
  match goal with |- context [set_stmo (add_trace s ?e) MAX64] => set (s1 := set_stmo (add_trace s e) MAX64) end.
  assert (J1 : J w0 s1).
  { eapply J_same; [|exact Jc]. eapply same_j_trans; [|apply sj_set_stmo]. apply sj_add_trace. exact I. }
  apply J_hdr_fail.
  - eapply J_same; [eapply same_j_trans; [apply sj_shutdown|apply sj_set_errno]|].
    apply J_ctx_upd; auto.
  - exact ND.
Qed.

Lemma J_body_end w0 s t otag targ size need rd :
  Inv s -> J w0 s -> reader_otag (pcof s t) = Some otag -> inside (pcof s targ) = true ->
  c_tag (s_ctx s t) = c_tag0 (s_ctx s targ) ->
  c_phase (s_ctx s targ) <> COLLECTED ->
  body_facts s targ size need -> (rd = Z.of_nat size -> need = 0%nat) ->
  J w0 (body_end s t otag targ size rd).
Proof.
  intros I Jc R Tin Ttag Tph BF Hrd. unfold body_end.
  assert (NDt : pcof s t <> PDone) by (intros E; rewrite E in R; discriminate).
  assert (NDg : pcof s targ <> PDone) by (apply not_done_of_inside; exact Tin).
  match goal with |- context [set_stmo (add_trace s ?e) MAX64] => set (s1 := set_stmo (add_trace s e) MAX64) end.
  assert (V1 : same_j s s1) by (eapply same_j_trans; [|apply sj_set_stmo]; apply sj_add_trace; exact Logic.I).
  set (p := if rd =? Z.of_nat size then (s1, rd) else (set_errno (stream_shutdown s1 t) ECONNRESET, -1)).
  assert (V2 : same_j s (fst p) /\ (0 <= snd p -> snd p = Z.of_nat size /\ need = 0%nat)).
  { unfold p. destruct (Z.eqb_spec rd (Z.of_nat size)); cbn [fst snd].
    - split; [exact V1|]. intros _. split; [exact e|apply Hrd; exact e].
    - split; [|intros; lia]. eapply same_j_trans; [exact V1|]. eapply same_j_trans; [apply sj_shutdown|apply sj_set_errno]. }
  destruct p as [s2 r]. cbn [fst snd] in V2. destruct V2 as [V2 Hr].
  assert (J2 : J w0 s2) by (eapply J_same; eauto).
  destruct V2 as [v1 v2 v3 v4 v5 v6].
  set (s3 := add_acc s2 t targ AkRet).
  set (s4 := upd_ctx s3 targ (cset_ret (s_ctx s3 targ) r)).
  assert (J4 : J w0 s4).
  { apply J_ctx_free; auto.
    - eapply J_same; [apply sj_add_acc|exact J2].
    - change (s_ctx s3) with (s_ctx s2). rewrite v2. exact Tph.
    - change (pcof s3 targ) with (pcof s2 targ). rewrite v1. exact NDg. }
  assert (C4 : forall x, s_ctx s4 x = if Nat.eqb x targ then cset_ret (s_ctx s targ) r else s_ctx s x).
  { intros x. unfold s4. rewrite ctx_upd_ctx. change (s_ctx s3) with (s_ctx s2). rewrite !v2. reflexivity. }
  set (s5 := add_acc s4 t targ AkPhase).
  assert (J5 : J w0 s5) by (eapply J_same; [apply sj_add_acc|exact J4]).
  assert (P5 : forall x, pcof s5 x = pcof s x) by (intros x; rewrite <- v1; reflexivity).
  assert (C5 : forall x, s_ctx s5 x = s_ctx s4 x) by reflexivity.
  set (s6 := upd_ctx s5 targ (cset_phase (s_ctx s5 targ) COLLECTED)).
  assert (Uq : is_reader (pcof s5 targ) = true -> targ = t).
  { rewrite P5. intros H. eapply reader_unique; eauto. unfold is_reader. rewrite R. reflexivity. }
  assert (J6 : JJ (Some t) w0 s6).
  { apply J_collect; auto.
    - rewrite P5. exact NDg.
    - rewrite C5, C4, Nat.eqb_refl. exact Tph.
    - rewrite C5, C4, Nat.eqb_refl. cbn [c_ret cset_ret]. intros H0. destruct (Hr H0) as [Er En]. subst need.
      destruct BF as (b1 & b2 & b3 & pre & b4).
      exists pre, (s_hdr s), []. cbn [c_buf cset_ret c_tag0].
      change (s_consumed s5) with (s_consumed s2). rewrite v5.
      assert (L : length (c_buf (s_ctx s targ)) = size) by lia.
      split; [rewrite app_nil_r; exact b4|]. rewrite L. split; [exact b3|exact Er]. }
  assert (C6 : forall x, s_ctx s6 x = if Nat.eqb x targ then cset_phase (cset_ret (s_ctx s targ) r) COLLECTED else s_ctx s x).
  { intros x. unfold s6. rewrite ctx_upd_ctx, !C5, !C4, Nat.eqb_refl. destruct (Nat.eqb x targ); reflexivity. }
  assert (P6 : forall x, pcof s6 x = pcof s x) by exact P5.
  assert (C6t : c_tag (s_ctx s6 t) = c_tag (s_ctx s t)).
  { rewrite C6. destruct (Nat.eqb t targ) eqn:Eb; [|reflexivity]. apply Nat.eqb_eq in Eb. subst. reflexivity. }
  assert (ND6 : pcof s6 t <> PDone) by (rewrite P6; exact NDt).
  destruct (i_otag _ I _ _ R) as [Eo _].
  destruct (i_ctx _ I _ Tin) as (Tm & _ & _).
  assert (Rin : inside (pcof s t) = true) by (unfold inside, is_reader; rewrite R; apply orb_true_r).
  destruct (i_ctx _ I _ Rin) as (Rm & _ & _).
  rewrite C6t.
  destruct (Z.eqb_spec otag (c_tag (s_ctx s t))) as [E|E].
  - assert (targ = t) by (apply (i_inj _ I); auto; congruence). subst targ.
    destruct (c_th (s_ctx s4 t)) as [h|].
    + destruct (Nat.eqb h t).
      * apply J_ret_call; [exact J6|exact ND6|]. intros _. rewrite C6, Nat.eqb_refl. split; reflexivity.
      * apply J_ret_call; [eapply J_same; [apply sj_set_errno|exact J6]|exact ND6|intros; lia].
    + apply J_ret_call; [eapply J_same; [apply sj_set_errno|exact J6]|exact ND6|intros; lia].
  - assert (N : targ <> t) by (intros ->; congruence).
    destruct (c_th (s_ctx s4 targ)) as [h|].
    + eapply J_pc with (s := interrupt s6 h EINTR); [|apply pc_updj_set_pc|..]; try (cbn; intros; discriminate).
      * eapply J_same; [apply sj_interrupt|]. apply (J_strengthen w0 s6 t J6).
        intros _. rewrite C6. destruct (Nat.eqb_spec t targ); [congruence|].
        apply (j_rph _ _ _ Jc); [discriminate|]. unfold is_reader. rewrite R. reflexivity.
      * intros _ _. rewrite (sj_ctx _ _ (sj_interrupt s6 h EINTR)), C6. destruct (Nat.eqb_spec t targ); [congruence|].
        apply (j_rph _ _ _ Jc); [discriminate|]. unfold is_reader. rewrite R. reflexivity.
      * left. rewrite (sj_pc _ _ (sj_interrupt s6 h EINTR)). exact ND6.
    + apply J_ret_call; [eapply J_same; [apply sj_set_errno|exact J6]|exact ND6|intros; lia].
Qed.

Lemma firstn_all_40 (h : list Z) : length h = 40%nat -> firstn 40 h = h.
Proof. intros H. rewrite <- H. apply firstn_all. Qed.

Lemma J_hdr_complete w0 s t otag dl :
  Inv s -> J w0 s -> pcof s t = PHdrRead otag 40 dl -> J w0 (hdr_complete s t otag).
Proof.
  intros I Jc P. unfold hdr_complete.
  assert (R : reader_otag (pcof s t) = Some otag) by (rewrite P; reflexivity).
  assert (ND : pcof s t <> PDone) by (rewrite P; discriminate).
  assert (RD : is_reader (pcof s t) = true) by (rewrite P; reflexivity).
  destruct (j_hdr _ _ _ Jc t 40%nat) as (_ & pre & Hpre); [rewrite P; reflexivity|].
  rewrite (firstn_all_40 _ (j_hlen _ _ _ Jc)) in Hpre.
  assert (Others : forall x, x <> t -> reading_hdr (pcof s x) = None /\ reading_body (pcof s x) = None)
    by (eapply only_reader_reads; eauto).
  match goal with |- context [set_stmo (add_trace s ?e) MAX64] => set (s1 := set_stmo (add_trace s e) MAX64) end.
  assert (V1 : same_j s s1) by (eapply same_j_trans; [|apply sj_set_stmo]; apply sj_add_trace; exact Logic.I).
  assert (J1 : J w0 s1) by (eapply J_same; eauto).
  set (g := hdr_tag (s_hdr s1)).
  set (s2 := upd_ctx s1 t (cset_tag (s_ctx s1 t) g)).
  assert (J2 : J w0 s2) by (apply J_ctx_upd; auto).
  assert (I2 : Inv s2).
  { eapply Inv_set_own_tag; [eapply Inv_view; [|exact I]|..].
    - eapply same_view_trans; [apply sv_add_trace|apply sv_set_stmo].
    - exact R.
    - change (pcof s1 t) with (pcof s t). rewrite P. reflexivity. }
  assert (P2 : forall x, pcof s2 x = pcof s x) by reflexivity.
  assert (ND2 : pcof s2 t <> PDone) by exact ND.
  destruct (negb ((hdr_magic (s_hdr s1) =? MAGIC) && (hdr_version (s_hdr s1) =? VERSION))) eqn:Mg.
  { apply J_hdr_fail; [|exact ND2]. eapply J_same; [eapply same_j_trans; [apply sj_shutdown|apply sj_set_errno]|exact J2]. }
  apply negb_false_iff, andb_true_iff in Mg. destruct Mg as [Mg1 Mg2].
  apply Z.eqb_eq in Mg1. apply Z.eqb_eq in Mg2.
  destruct (map_find g (s_map s2)) as [targ|] eqn:F.
  2:{ apply J_ret_call; [apply J_weaken; eapply J_same; [eapply same_j_trans; [apply sj_erase|apply sj_set_errno]|exact J2]|exact ND2|intros; lia]. }
  apply map_find_In in F. destruct (i_map _ I2 _ _ F) as (Tin & Tt0 & Tph).
  set (s3 := erase_tag s2 t g (Some targ)).
  set (s4 := add_acc s3 t targ AkAdopt).
  assert (J4 : J w0 s4) by (eapply J_same; [eapply same_j_trans; [apply sj_erase|apply sj_add_acc]|exact J2]).
  set (s5 := upd_ctx s4 targ (cset_hoff (cset_buf (s_ctx s4 targ) []) (length (s_consumed s4)))).
  assert (J5 : J w0 s5).
  { apply J_ctx_free; auto.
    - apply not_done_of_inside. exact Tin.
    - right. intros x g' size need H. change (pcof s4 x) with (pcof s x) in H.
      destruct (Nat.eq_dec x t) as [->|N]; [rewrite P in H; discriminate|].
      destruct (Others x N) as [_ B]. congruence. }
  match goal with |- context [set_stmo s5 ?v] => set (s6 := set_stmo s5 v) end.
  assert (J6 : J w0 s6) by (eapply J_same; [apply sj_set_stmo|exact J5]).
  assert (I6 : Inv s6).
  { eapply Inv_view; [apply sv_set_stmo|]. apply Inv_ctx_upd; auto.
    apply Inv_add_acc; [apply erase_keeps_Inv; exact I2|].
    change (c_live (s_ctx s2 targ) = true). rewrite (i_live _ I2). exact Tin. }
  assert (C6 : forall x, s_ctx s6 x = if Nat.eqb x targ then cset_hoff (cset_buf (s_ctx s2 targ) []) (length (s_consumed s4)) else s_ctx s2 x).
  { intros x. change (s_ctx s6 x) with (s_ctx s5 x). unfold s5. rewrite ctx_upd_ctx. reflexivity. }
  assert (P6 : forall x, pcof s6 x = pcof s x) by reflexivity.
  assert (R6 : reader_otag (pcof s6 t) = Some otag) by (rewrite P6; exact R).
  assert (In6 : inside (pcof s6 targ) = true) by exact Tin.
  assert (T6 : c_tag (s_ctx s6 t) = c_tag0 (s_ctx s6 targ)).
  { assert (X : c_tag (s_ctx s2 t) = g) by (unfold s2; rewrite ctx_upd_ctx, Nat.eqb_refl; reflexivity).
    rewrite !C6, Nat.eqb_refl.
    destruct (Nat.eqb t targ) eqn:Eb.
    - apply Nat.eqb_eq in Eb. subst targ. change (c_tag (s_ctx s2 t) = c_tag0 (s_ctx s2 t)). congruence.
    - change (c_tag (s_ctx s2 t) = c_tag0 (s_ctx s2 targ)). congruence. }
  assert (Ph6 : c_phase (s_ctx s6 targ) <> COLLECTED) by (rewrite C6, Nat.eqb_refl; exact Tph).
  assert (BF : forall size, Z.to_nat (hdr_size (s_hdr s1)) = size -> body_facts s6 targ size size).
  { intros size Sz. unfold body_facts. rewrite C6, Nat.eqb_refl. cbn [c_buf cset_hoff cset_buf c_tag0].
    change (s_hdr s6) with (s_hdr s). change (s_consumed s6) with (s_consumed s).
    split; [lia|]. split; [cbn; lia|]. split.
    - unfold hdr_ok. split; [apply (j_hlen _ _ _ Jc)|]. split; [exact Mg1|]. split; [exact Mg2|]. split; [exact (eq_sym Tt0)|exact Sz].
    - exists pre. rewrite app_nil_r. exact Hpre. }
  destruct (Z.to_nat (hdr_size (s_hdr s1))) as [|n] eqn:Sz.
  { eapply J_body_end with (need := 0%nat); eauto. }
  destruct (s_shut s6).
  { eapply J_body_end with (need := S n); eauto. intros H. lia. }
  eapply J_pc; [exact J6|apply pc_updj_set_pc|..].
  - cbn. intros; discriminate.
  - cbn. intros g0 size need H. inversion H; subst. apply BF. reflexivity.
  - intros _ _. rewrite C6. destruct (Nat.eqb_spec t targ); [subst; exact Tph|].
    unfold s2. rewrite ctx_upd_ctx, Nat.eqb_refl. cbn. change (s_ctx s1 t) with (s_ctx s t).
    apply (j_rph _ _ _ Jc); [discriminate|exact RD].
  - left. rewrite P6. exact ND.
Qed.

Lemma J_step_readerloop w0 s t otag :
  Inv s -> J w0 s -> pcof s t = PReaderLoop otag -> J w0 (step_readerloop s t otag).
Proof.
  intros I Jc P. unfold step_readerloop.
  assert (R : reader_otag (pcof s t) = Some otag) by (rewrite P; reflexivity).
  assert (ND : pcof s t <> PDone) by (rewrite P; discriminate).
  assert (NoRead : forall x, reading_hdr (pcof s x) = None /\ reading_body (pcof s x) = None).
  { intros x. destruct (Nat.eq_dec x t) as [->|N]; [rewrite P; split; reflexivity|]. eapply only_reader_reads; eauto. }
  set (s1 := set_hdr s (repeat 0 8 ++ skipn 8 (s_hdr s))).
  assert (J1 : J w0 s1).
  { apply J_set_hdr; auto. rewrite app_length, repeat_length, skipn_length, (j_hlen _ _ _ Jc). reflexivity. }
  destruct (c_dl (s_ctx s t) <? s_now s).
  { apply J_hdr_fail; [eapply J_same; [apply sj_set_errno|exact J1]|exact ND]. }
  match goal with |- context [set_stmo s1 ?v] => set (s2 := set_stmo s1 v) end.
  assert (J2 : J w0 s2) by (eapply J_same; [apply sj_set_stmo|exact J1]).
  destruct (s_shut s2).
  { apply J_hdr_short; [exact J2|exact ND]. }
  eapply J_pc; [exact J2|apply pc_updj_set_pc|..].
  - cbn. intros got H. inversion H; subst. split; [lia|]. exists (s_consumed s2). cbn [firstn]. rewrite app_nil_r. reflexivity.
  - cbn. intros; discriminate.
  - intros _ _. change (s_ctx s2 t) with (s_ctx s t). apply (j_rph _ _ _ Jc); [discriminate|rewrite P; reflexivity].
  - left. exact ND.
Qed.

Lemma J_step_hdrread w0 s t otag got dl :
  Inv s -> J w0 s -> pcof s t = PHdrRead otag got dl -> J w0 (step_hdrread s t otag got dl).
Proof.
  intros I Jc P. unfold step_hdrread.
  assert (R : reader_otag (pcof s t) = Some otag) by (rewrite P; reflexivity).
  assert (ND : pcof s t <> PDone) by (rewrite P; discriminate).
  destruct (j_hdr _ _ _ Jc t got) as (G40 & pre & Hpre); [rewrite P; reflexivity|].
  assert (Others : forall x, x <> t -> reading_hdr (pcof s x) = None /\ reading_body (pcof s x) = None)
    by (eapply only_reader_reads; eauto).
  destruct (stake (s_now s) (HDRLEN - got) (s_script s)) as [g sc'] eqn:St.
  pose proof (stake_flat _ _ _ _ _ St) as Fl. pose proof (stake_len _ _ _ _ _ St) as Ln.
  unfold HDRLEN in *.
  set (s1 := set_pc (set_consumed (set_script (set_hdr s (overwrite (s_hdr s) got g)) sc') (s_consumed s ++ g)) t
                    (PHdrRead otag (got + length g) dl)).
  assert (HL : length (s_hdr s) = 40%nat) by apply (j_hlen _ _ _ Jc).
  assert (J1 : J w0 s1).
  { destruct Jc as [h1 h2 h3 h4 h5 h6 h7].
    assert (P1 : forall x, pcof s1 x = if Nat.eqb x t then PHdrRead otag (got + length g) dl else pcof s x).
    { intros x. unfold s1. rewrite pcof_set_pc. reflexivity. }
    constructor.
    - change (s_consumed s1) with (s_consumed s ++ g). change (s_script s1) with sc'.
      rewrite <- app_assoc, <- Fl. exact h1.
    - change (s_hdr s1) with (overwrite (s_hdr s) got g). rewrite overwrite_length; [exact HL|lia].
    - intros x got0. rewrite P1. eqb_case x t.
      + cbn. intros H. inversion H; subst got0. split; [lia|].
        change (s_consumed s1) with (s_consumed s ++ g). change (s_hdr s1) with (overwrite (s_hdr s) got g).
        exists pre. rewrite overwrite_firstn by lia. rewrite Hpre, app_assoc. reflexivity.
      + intros H. destruct (Others x n) as [A _]. congruence.
    - intros x g0 size need. rewrite P1. eqb_case x t; [cbn; discriminate|].
      intros H. destruct (Others x n) as [_ A]. congruence.
    - intros x Hx. rewrite P1. change (s_ctx s1 x) with (s_ctx s x). eqb_case x t.
      + intros _. apply h5; [exact Hx|rewrite P; reflexivity].
      + apply h5. exact Hx.
    - intros x H1 H2. change (s_consumed s1) with (s_consumed s ++ g). apply good_resp_app. apply h6; auto.
    - intros x r p H. change (rets (s_trace s1)) with (rets (s_trace s)) in H.
      destruct (h7 x r p H) as [A B]. assert (x <> t) by (intros ->; contradiction).
      rewrite P1. destruct (Nat.eqb_spec x t); [contradiction|]. auto. }
  assert (I1 : Inv s1).
  { eapply Inv_pc_same_class; [|apply pc_upd_set_pc|..].
    - eapply Inv_view; [|exact I]. eapply same_view_trans; [apply sv_set_hdr|]. eapply same_view_trans; [apply sv_set_script|apply sv_set_consumed].
    - change (pcof (set_consumed (set_script (set_hdr s (overwrite (s_hdr s) got g)) sc') (s_consumed s ++ g)) t) with (pcof s t). rewrite P. reflexivity.
    - change (pcof (set_consumed (set_script (set_hdr s (overwrite (s_hdr s) got g)) sc') (s_consumed s ++ g)) t) with (pcof s t). rewrite P. reflexivity.
    - change (pcof (set_consumed (set_script (set_hdr s (overwrite (s_hdr s) got g)) sc') (s_consumed s ++ g)) t) with (pcof s t). rewrite P. reflexivity.
    - change (pcof (set_consumed (set_script (set_hdr s (overwrite (s_hdr s) got g)) sc') (s_consumed s ++ g)) t) with (pcof s t). rewrite P. reflexivity. }
  assert (P1t : pcof s1 t = PHdrRead otag (got + length g) dl) by (unfold s1; rewrite pcof_set_pc, Nat.eqb_refl; reflexivity).
  assert (ND1 : pcof s1 t <> PDone) by (rewrite P1t; discriminate).
  destruct (read_status (s_now s) dl (40 - (got + length g)) sc') eqn:RS.
  - assert (got + length g = 40)%nat.
    { unfold read_status in RS. destruct (40 - (got + length g))%nat eqn:E; [lia|].
      destruct sc' as [|[td bs|te] r]; repeat (match type of RS with context [if ?c then _ else _] => destruct c end); discriminate. }
    apply J_hdr_complete with (dl := dl); auto. rewrite P1t. f_equal. exact H.
  - apply J_hdr_short; auto.
  - apply J_hdr_short; auto. eapply J_same; [apply sj_set_errno|exact J1].
  - eapply J_pc; [exact J1|apply pc_updj_sleep|..].
    + cbn. intros got0 H. inversion H; subst. apply (j_hdr _ _ _ J1 t). rewrite P1t. reflexivity.
    + cbn. intros; discriminate.
    + intros _ _. apply (j_rph _ _ _ J1); [discriminate|rewrite P1t; reflexivity].
    + left. exact ND1.
Qed.

Lemma J_step_bodyread w0 s t otag targ size need dl :
  Inv s -> J w0 s -> pcof s t = PBodyRead otag targ size need dl -> J w0 (step_bodyread s t otag targ size need dl).
Proof.
  intros I Jc P. unfold step_bodyread.
  assert (R : reader_otag (pcof s t) = Some otag) by (rewrite P; reflexivity).
  assert (Ad : adopted_by (pcof s t) = Some targ) by (rewrite P; reflexivity).
  assert (ND : pcof s t <> PDone) by (rewrite P; discriminate).
  destruct (i_adopt _ I _ _ Ad) as (Tin & Tmap & Ttag & Tfo).
  assert (NDg : pcof s targ <> PDone) by (apply not_done_of_inside; exact Tin).
  assert (Tph : c_phase (s_ctx s targ) <> COLLECTED).
  { destruct (Nat.eq_dec targ t) as [->|N]; [apply (j_rph _ _ _ Jc); [discriminate|rewrite P; reflexivity]|apply Tfo; exact N]. }
  destruct (j_body _ _ _ Jc t targ size need) as (b1 & b2 & b3 & pre & b4); [rewrite P; reflexivity|].
  assert (Others : forall x, x <> t -> reading_hdr (pcof s x) = None /\ reading_body (pcof s x) = None)
    by (eapply only_reader_reads; eauto).
  destruct (stake (s_now s) need (s_script s)) as [g sc'] eqn:St.
  pose proof (stake_flat _ _ _ _ _ St) as Fl. pose proof (stake_len _ _ _ _ _ St) as Ln.
  set (s1 := set_consumed (set_script s sc') (s_consumed s ++ g)).
  match goal with |- context [match g with [] => s1 | _ :: _ => ?e end] => set (s2 := match g with [] => s1 | _ :: _ => e end) end.
  set (s3 := set_pc s2 t (PBodyRead otag targ size (need - length g) dl)).
  (* what s3 looks like *)
  assert (V : (forall x, pcof s3 x = if Nat.eqb x t then PBodyRead otag targ size (need - length g) dl else pcof s x) /\
              (forall x, x <> targ -> s_ctx s3 x = s_ctx s x) /\
              c_buf (s_ctx s3 targ) = c_buf (s_ctx s targ) ++ g /\ c_tag0 (s_ctx s3 targ) = c_tag0 (s_ctx s targ) /\
              c_phase (s_ctx s3 targ) = c_phase (s_ctx s targ) /\ c_ret (s_ctx s3 targ) = c_ret (s_ctx s targ) /\
              c_tag (s_ctx s3 targ) = c_tag (s_ctx s targ) /\
              s_hdr s3 = s_hdr s /\ s_script s3 = sc' /\ s_consumed s3 = s_consumed s ++ g /\
              rets (s_trace s3) = rets (s_trace s)).
  { unfold s3, s2. destruct g as [|b g'].
    - split; [intros x; rewrite pcof_set_pc; reflexivity|]. split; [reflexivity|]. rewrite app_nil_r.
      repeat split; reflexivity.
    - split; [intros x; rewrite pcof_set_pc; reflexivity|]. split.
      + intros x N. change (s_ctx (set_pc ?a t ?b) x) with (s_ctx a x). rewrite ctx_upd_ctx.
        destruct (Nat.eqb_spec x targ); [contradiction|reflexivity].
      + change (s_ctx (set_pc ?a t ?b) targ) with (s_ctx a targ). rewrite ctx_upd_ctx, Nat.eqb_refl.
        repeat split; reflexivity. }
  destruct V as (P3 & C3 & B3 & T03 & Ph3 & Rt3 & Tg3 & H3 & Sc3 & Cn3 & Rs3).
  assert (J3 : J w0 s3).
  { destruct Jc as [h1 h2 h3 h4 h5 h6 h7].
    constructor.
    - rewrite Cn3, Sc3, <- app_assoc, <- Fl. exact h1.
    - rewrite H3. exact h2.
    - intros x got0. rewrite P3. eqb_case x t; [cbn; discriminate|]. intros H. destruct (Others x n) as [A _]. congruence.
    - intros x g0 sz nd. rewrite P3. eqb_case x t.
      + cbn. intros H. inversion H; subst g0 sz nd. unfold body_facts. rewrite B3, T03, H3, Cn3.
        split; [lia|]. split; [rewrite app_length; lia|]. split; [exact b3|].
        exists pre. rewrite b4, <- !app_assoc. reflexivity.
      + intros H. destruct (Others x n) as [_ A]. congruence.
    - intros x Hx. rewrite P3. intros Hr.
      assert (Hr' : is_reader (pcof s x) = true) by (destruct (Nat.eqb_spec x t); [subst x; rewrite P; reflexivity|exact Hr]).
      destruct (Nat.eq_dec x targ) as [->|N]; [rewrite Ph3; exact Tph|rewrite (C3 x N); apply h5; auto].
    - intros x. destruct (Nat.eq_dec x targ) as [->|N]; [rewrite Ph3; intros; contradiction|].
      rewrite (C3 x N), Cn3. intros H1 H2. apply good_resp_app. apply h6; auto.
    - intros x r p. rewrite Rs3. intros H. destruct (h7 x r p H) as [A B].
      assert (x <> t) by (intros ->; contradiction). assert (x <> targ) by (intros ->; contradiction).
      rewrite P3, (C3 x H1). destruct (Nat.eqb_spec x t); [contradiction|]. auto. }
  assert (I3 : Inv s3).
  { (* replay the safety argument for the chunk *)
    assert (I1 : Inv s1) by (eapply Inv_view; [|exact I]; eapply same_view_trans; [apply sv_set_script|apply sv_set_consumed]).
    assert (I2 : Inv s2).
    { unfold s2. destruct g as [|b g']; [exact I1|].
      apply Inv_ctx_upd; auto. eapply Inv_view; [apply sv_add_trace|]. apply Inv_add_acc; auto.
      change (s_ctx s1) with (s_ctx s). rewrite (i_live _ I). exact Tin. }
    eapply Inv_pc_same_class; [exact I2|apply pc_upd_set_pc|..];
      (replace (pcof s2 t) with (pcof s t) by (unfold s2; destruct g; reflexivity)); rewrite P; reflexivity. }
  assert (P3t : pcof s3 t = PBodyRead otag targ size (need - length g) dl) by (rewrite P3, Nat.eqb_refl; reflexivity).
  assert (R3 : reader_otag (pcof s3 t) = Some otag) by (rewrite P3t; reflexivity).
  assert (In3 : inside (pcof s3 targ) = true) by (rewrite P3; destruct (Nat.eqb targ t); [reflexivity|exact Tin]).
  assert (Tg33 : c_tag (s_ctx s3 t) = c_tag0 (s_ctx s3 targ)).
  { rewrite T03. destruct (Nat.eq_dec t targ) as [->|N]; [rewrite Tg3; exact Ttag|rewrite (C3 t N); exact Ttag]. }
  assert (Ph33 : c_phase (s_ctx s3 targ) <> COLLECTED) by (rewrite Ph3; exact Tph).
  assert (BF3 : body_facts s3 targ size (need - length g)) by (apply (j_body _ _ _ J3 t); rewrite P3t; reflexivity).
  destruct (read_status (s_now s) dl (need - length g) sc') eqn:RS.
  - assert (need - length g = 0)%nat.
    { unfold read_status in RS. destruct (need - length g)%nat eqn:E; [reflexivity|].
      destruct sc' as [|[td bs|te] r]; repeat (match type of RS with context [if ?c then _ else _] => destruct c end); discriminate. }
    eapply J_body_end with (need := (need - length g)%nat); eauto.
  - assert (need - length g <> 0)%nat.
    { unfold read_status in RS. destruct (need - length g)%nat eqn:E; [discriminate|lia]. }
    eapply J_body_end with (need := (need - length g)%nat); eauto. intros H0. apply Nat2Z.inj in H0. lia.
  - eapply J_body_end with (need := (need - length g)%nat); eauto.
    + eapply Inv_view; [apply sv_set_errno|exact I3].
    + eapply J_same; [apply sj_set_errno|exact J3].
    + intros H0. lia.
  - eapply J_pc; [exact J3|apply pc_updj_sleep|..].
    + cbn. intros; discriminate.
    + cbn. intros g0 sz nd H. inversion H; subst g0 sz nd. exact BF3.
    + intros _ _. apply (j_rph _ _ _ J3); [discriminate|rewrite P3t; reflexivity].
    + left. rewrite P3t. discriminate.
Qed.

(* ---- the transition system ------------------------------------------------------------------------------ *)
Lemma J_micro w0 s t : Inv s -> J w0 s -> J w0 (micro s t).
Proof.
  intros I Jc. unfold micro.
  destruct (t_pc (s_thr s t)) eqn:E; change (t_pc (s_thr s t)) with (pcof s t) in E.
  - destruct (0 <? k_start (nth t (s_calls s) dummy_call)).
    + eapply J_pc; [exact Jc|apply pc_updj_sleep|..]; try (cbn; intros; discriminate). left. rewrite E. discriminate.
    + eapply J_pc; [exact Jc|apply pc_updj_set_pc|..]; try (cbn; intros; discriminate). left. rewrite E. discriminate.
  - eapply J_pc; [eapply J_same; [apply sj_usleep_ret|exact Jc]|apply pc_updj_set_pc|..]; try (cbn; intros; discriminate).
    left. rewrite (sj_pc _ _ (sj_usleep_ret s t)), E. discriminate.
  - apply J_step_call; auto.
  - apply J_step_waitloop; auto.
  - apply J_step_parked; auto.
  - apply J_step_readerloop; auto.
  - apply J_step_hdrread; auto.
  - pose proof (sj_usleep_ret s t) as V.
    assert (J1 : J w0 (fst (usleep_ret s t))) by (eapply J_same; eauto).
    eapply J_pc; [exact J1|apply pc_updj_set_pc|..].
    + cbn. intros got0 H. inversion H; subst. apply (j_hdr _ _ _ J1 t). rewrite (sj_pc _ _ V), E. reflexivity.
    + cbn. intros; discriminate.
    + intros _ _. apply (j_rph _ _ _ J1); [discriminate|rewrite (sj_pc _ _ V), E; reflexivity].
    + left. rewrite (sj_pc _ _ V), E. discriminate.
  - apply J_step_bodyread; auto.
  - pose proof (sj_usleep_ret s t) as V.
    assert (J1 : J w0 (fst (usleep_ret s t))) by (eapply J_same; eauto).
    eapply J_pc; [exact J1|apply pc_updj_set_pc|..].
    + cbn. intros; discriminate.
    + cbn. intros g0 sz nd H. inversion H; subst g0 sz nd. apply (j_body _ _ _ J1 t). rewrite (sj_pc _ _ V), E. reflexivity.
    + intros _ _. apply (j_rph _ _ _ J1); [discriminate|rewrite (sj_pc _ _ V), E; reflexivity].
    + left. rewrite (sj_pc _ _ V), E. discriminate.
  - unfold park. eapply J_pc; [eapply J_same; [apply sj_usleep_ret|exact Jc]|apply pc_updj_sleep|..]; try (cbn; intros; discriminate).
    right. reflexivity.
Qed.

Lemma J_step w0 s e s' : Inv s -> J w0 s -> step s e = Some s' -> J w0 s'.
Proof.
  intros I Jc. destruct e as [t|t|d|]; unfold step.
  - destruct (Nat.ltb t (nthreads s)); [|intros H; discriminate H].
    destruct (t_stat (s_thr s t)); [|intros H; discriminate H].
    intros H; inversion H; subst. apply J_micro; auto.
  - destruct (Nat.ltb t (nthreads s)); [|intros H; discriminate H].
    destruct (t_stat (s_thr s t)); [intros H; discriminate H|].
    destruct (dl <=? s_now s); [|intros H; discriminate H]. intros H; inversion H; subst.
    eapply J_same; [|exact Jc]. constructor; try reflexivity.
    intros x. unfold pcof. cbn. unfold updn. destruct (Nat.eqb_spec x t); subst; reflexivity.
  - destruct (0 <=? d); [|intros H; discriminate H]. intros H; inversion H; subst.
    eapply J_same; [apply sj_set_now|exact Jc].
  - intros H; inversion H; subst. eapply J_same; [apply sj_set_woken|exact Jc].
Qed.

Lemma J_init fix_ calls script : J (flat script) (init fix_ calls script).
Proof.
  constructor; cbn; try reflexivity; try discriminate; try contradiction; auto.
Qed.

Lemma IJ_run w0 s es s' : Inv s -> J w0 s -> run_events s es = Some s' -> Inv s' /\ J w0 s'.
Proof.
  revert s. induction es as [|e r IH]; cbn; intros s I Jc H.
  - inversion H; subst; auto.
  - destruct (step s e) eqn:E; [|discriminate]. eapply IH; [| |exact H].
    + eapply Inv_step; eauto.
    + eapply J_step; eauto.
Qed.

(* own response: a call that returned r >= 0 holds in its buffer exactly the r bytes that followed, on the
   wire, a well-formed header carrying the tag the engine gave to this call and announcing r bytes *)
Lemma own_response_all :
  forall calls script es s,
    run_events (init true calls script) es = Some s ->
    forall t r p, In (t, r, p) (rets (s_trace s)) -> 0 <= r ->
      exists pre h post, flat script = pre ++ h ++ p ++ post /\
                         hdr_ok h (c_tag0 (s_ctx s t)) (length p) /\ r = Z.of_nat (length p).
Proof.
  intros calls script es s H t r p Hin Hr.
  destruct (IJ_run (flat script) _ _ _ (Inv_init calls script) (J_init true calls script) H) as [I Jc].
  destruct (j_ret _ _ _ Jc t r p Hin) as [_ B]. destruct (B Hr) as (b1 & b2 & b3).
  assert (Hr' : 0 <= c_ret (s_ctx s t)) by congruence.
  destruct (j_coll _ _ _ Jc t b1 Hr') as (pre & h & post & E & Hk & Hq).
  exists pre, h, (post ++ flat (s_script s)). subst p. split; [|split; [exact Hk|congruence]].
  rewrite (j_wire _ _ _ Jc), E, <- !app_assoc. reflexivity.
Qed.
