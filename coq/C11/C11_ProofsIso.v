(* C11_ProofsIso.v — failure isolation, part (i): every m_map.erase is either of the eraser's OWN tag or the
   adoption of the context that owns the erased tag (ghost log s_erases), for every schedule of the fixed code. *)
From Coq Require Import ZArith List Bool Arith Lia.
From PV Require Import Base.U64 C04.C04_Heap C11.C11_Model C11.C11_ProofsSafety C11.C11_ProofsResp.
Import ListNotations.
Local Open Scope Z_scope.

Definition erase_ok (s : state) (e : erase_ev) : Prop :=
  c_made (s_ctx s (e_by e)) = true /\
  match e_adopt e with
  | None => e_tag e = c_tag0 (s_ctx s (e_by e))
  | Some g => c_made (s_ctx s g) = true /\ e_tag e = c_tag0 (s_ctx s g)
  end.
Definition KE (s : state) : Prop := forall e, In e (s_erases s) -> erase_ok s e.

(* the request headers written so far: (thread, tag in the header) *)
Definition writes (tr : list tev) : list (tid * Z) :=
  flat_map (fun e => match e with TvWrite t tag _ _ _ => [(t, tag)] | _ => [] end) tr.
Definition write_ok (s : state) (w : tid * Z) : Prop :=
  c_made (s_ctx s (fst w)) = true /\ snd w = c_tag0 (s_ctx s (fst w)).
Definition KW (s : state) : Prop := forall w, In w (writes (s_trace s)) -> write_ok s w.

Definition stable (s s' : state) : Prop :=
  forall x, c_made (s_ctx s x) = true -> c_made (s_ctx s' x) = true /\ c_tag0 (s_ctx s' x) = c_tag0 (s_ctx s x).

(* s' extends s: created contexts keep their tag, and every new erase entry is justified *)
Definition k_ext (s s' : state) : Prop :=
  stable s s' /\
  (exists new, s_erases s' = new ++ s_erases s /\ forall e, In e new -> erase_ok s' e) /\
  (exists nw, writes (s_trace s') = nw ++ writes (s_trace s) /\ forall w, In w nw -> write_ok s' w).

Lemma erase_ok_stable s s' e : stable s s' -> erase_ok s e -> erase_ok s' e.
Proof.
  intros St [M H]. destruct (St _ M) as [M' T']. split; [exact M'|].
  destruct (e_adopt e) as [g|].
  - destruct H as [Mg Hg]. destruct (St _ Mg) as [Mg' Tg']. split; [exact Mg'|congruence].
  - congruence.
Qed.

Lemma write_ok_stable s s' w : stable s s' -> write_ok s w -> write_ok s' w.
Proof. intros St [M H]. destruct (St _ M) as [M' T']. split; [exact M'|congruence]. Qed.

Lemma k_ext_refl s : k_ext s s.
Proof.
  split; [intros x M; auto|]. split; [exists []|exists []]; (split; [reflexivity|intros e []]).
Qed.

Lemma k_ext_trans s1 s2 s3 : k_ext s1 s2 -> k_ext s2 s3 -> k_ext s1 s3.
Proof.
  intros [S1 [(n1 & E1 & O1) (w1 & F1 & P1)]] [S2 [(n2 & E2 & O2) (w2 & F2 & P2)]]. split; [|split].
  - intros x M. destruct (S1 _ M) as [M2 T2]. destruct (S2 _ M2) as [M3 T3]. split; [exact M3|congruence].
  - exists (n2 ++ n1). split; [rewrite E2, E1, app_assoc; reflexivity|].
    intros e H. apply in_app_iff in H. destruct H as [H|H]; [apply O2; exact H|].
    eapply erase_ok_stable; [exact S2|apply O1; exact H].
  - exists (w2 ++ w1). split; [rewrite F2, F1, app_assoc; reflexivity|].
    intros e H. apply in_app_iff in H. destruct H as [H|H]; [apply P2; exact H|].
    eapply write_ok_stable; [exact S2|apply P1; exact H].
Qed.

Lemma KE_ext s s' : KE s -> k_ext s s' -> KE s'.
Proof.
  intros K [S [(n & E & O) _]] e H. rewrite E in H. apply in_app_iff in H. destruct H as [H|H]; [apply O; exact H|].
  eapply erase_ok_stable; [exact S|apply K; exact H].
Qed.
Lemma KW_ext s s' : KW s -> k_ext s s' -> KW s'.
Proof.
  intros K [S [_ (n & E & O)]] e H. rewrite E in H. apply in_app_iff in H. destruct H as [H|H]; [apply O; exact H|].
  eapply write_ok_stable; [exact S|apply K; exact H].
Qed.

(* operations that touch neither contexts nor the erase log *)
Definition same_e (s s' : state) : Prop :=
  (forall x, s_ctx s' x = s_ctx s x) /\ (s_erases s' = s_erases s /\ writes (s_trace s') = writes (s_trace s)).
Lemma same_e_refl s : same_e s s. Proof. repeat split; reflexivity. Qed.
Lemma same_e_trans a b c : same_e a b -> same_e b c -> same_e a c.
Proof. intros [A1 [A2 A3]] [B1 [B2 B3]]. split; [intros x; rewrite B1; apply A1|split; congruence]. Qed.
Lemma k_ext_same s s' : same_e s s' -> k_ext s s'.
Proof.
  intros [C [E W]]. split; [intros x M; rewrite C; auto|]. split; [exists []|exists []]; (split; [assumption|intros e []]).
Qed.

Lemma se_wake s h e : same_e s (wake s h e). Proof. repeat split; reflexivity. Qed.
Lemma se_set_err s t e : same_e s (set_err s t e). Proof. repeat split; reflexivity. Qed.
Lemma se_interrupt s h e : same_e s (interrupt s h e).
Proof.
  unfold interrupt. destruct (t_stat (s_thr s h)).
  - destruct (t_err (s_thr s h) =? 0). apply se_set_err. apply same_e_refl.
  - apply se_wake.
Qed.
Lemma se_notify_one s : same_e s (notify_one s).
Proof. unfold notify_one. destruct (s_waitq s). apply same_e_refl. apply se_wake. Qed.
Lemma se_usleep_ret s t : same_e s (fst (usleep_ret s t)).
Proof. unfold usleep_ret. destruct (t_err (s_thr s t) =? 0); cbn [fst]; repeat split; reflexivity. Qed.
Lemma se_cvwait_ret s t : same_e s (fst (cvwait_ret s t)).
Proof.
  unfold cvwait_ret. pose proof (se_usleep_ret s t) as H.
  destruct (usleep_ret s t) as [s1 r]. cbn [fst] in H.
  destruct (r =? 0); cbn [fst]; [destruct H as [H1 [H2 H3]]; repeat split; assumption|].
  destruct (s_errno s1 =? -1); exact H.
Qed.
Lemma k_do_send s3 t tag dl :
  c_made (s_ctx s3 t) = true -> tag = c_tag0 (s_ctx s3 t) ->
  k_ext s3 (fst (do_send s3 t tag dl)) /\ (forall x, s_ctx (fst (do_send s3 t tag dl)) x = s_ctx s3 x).
Proof.
  intros M E. unfold do_send.
  destruct (dl <? s_now s3); [split; [apply k_ext_same; repeat split; reflexivity|reflexivity]|].
  destruct (4294967295 <? k_req (nth t (s_calls s3) dummy_call)); [split; [apply k_ext_same; repeat split; reflexivity|reflexivity]|].
  set (s3a := if s_shut s3 then set_errno s3 EPIPE else s3).
  assert (A : same_e s3 s3a) by (unfold s3a; destruct (s_shut s3); repeat split; reflexivity).
  match goal with |- context [add_trace s3a ?e] => set (s3b := add_trace s3a e) end.
  assert (B : k_ext s3 s3b /\ forall x, s_ctx s3b x = s_ctx s3 x).
  { destruct A as [A1 [A2 A3]]. split; [|intros x; apply A1]. split; [intros x Mx; change (s_ctx s3b x) with (s_ctx s3a x); rewrite A1; auto|].
    split.
    - exists []. split; [exact A2|intros e []].
    - exists [(t, tag)]. split; [change (writes (s_trace s3b)) with ((t, tag) :: writes (s_trace s3a)); rewrite A3; reflexivity|].
      intros w [<-|[]]. split; cbn [fst snd]; change (s_ctx s3b t) with (s_ctx s3a t); rewrite A1; assumption. }
  destruct B as [B1 B2].
  match goal with |- context [if ?c then (s3b, 0) else _] => destruct c end; cbn [fst]; [split; assumption|].
  split; [eapply k_ext_trans; [exact B1|apply k_ext_same; repeat split; reflexivity]|exact B2].
Qed.
Lemma se_ret_mid s r w (rd : bool) : same_e s (ret_mid s r w rd).
Proof.
  unfold ret_mid. set (s1 := if rd then set_rlock s None else s).
  assert (H1 : same_e s s1) by (unfold s1; destruct rd; repeat split; reflexivity).
  assert (H2 : same_e s (if w then notify_one s1 else s1)).
  { destruct w; [|exact H1]. eapply same_e_trans; [exact H1|apply se_notify_one]. }
  set (s2 := if w then notify_one s1 else s1) in *.
  destruct (r <? 0); [|exact H2].
  destruct (s_errno s2 =? ECONNRESET); [exact H2|].
  eapply same_e_trans; [exact H2|repeat split; reflexivity].
Qed.

Lemma k_ext_ctx_upd s g c' :
  c_made c' = c_made (s_ctx s g) -> c_tag0 c' = c_tag0 (s_ctx s g) -> k_ext s (upd_ctx s g c').
Proof.
  intros Em E0. split.
  - intros x M. rewrite ctx_upd_ctx. destruct (Nat.eqb_spec x g); [subst; split; congruence|auto].
  - split; [exists []|exists []]; (split; [reflexivity|intros e []]).
Qed.
Lemma k_ext_ctx_new s t cn : c_made (s_ctx s t) = false -> k_ext s (upd_ctx s t cn).
Proof.
  intros F. split.
  - intros x M. rewrite ctx_upd_ctx. destruct (Nat.eqb_spec x t); [subst; congruence|auto].
  - split; [exists []|exists []]; (split; [reflexivity|intros e []]).
Qed.
Lemma k_ext_erase s b g ad : erase_ok s (mkErase b g ad) -> k_ext s (erase_tag s b g ad).
Proof.
  intros O. split; [intros x M; auto|]. split.
  - exists [mkErase b g ad]. split; [reflexivity|]. intros e [<-|[]]. exact O.
  - exists []. split; [reflexivity|intros e []].
Qed.
Lemma k_ext_ret_call s t r w rd : k_ext s (ret_call s t r w rd).
Proof.
  destruct (ret_call_view s t r w rd _ eq_refl) as (_ & u2 & _).
  destruct (se_ret_mid s r w rd) as [_ [E W]].
  split.
  - intros x M. rewrite u2. destruct (Nat.eqb_spec x t); [subst; auto|auto].
  - split.
    + exists []. split; [|intros e []]. cbn [app]. unfold ret_call, park, sleep, add_trace, upd_ctx. cbn. exact E.
    + exists []. split; [|intros e []]. cbn [app].
      change (writes (s_trace (ret_call s t r w rd))) with (writes (s_trace (ret_mid s r w rd))). exact W.
Qed.

Ltac kx_same := apply k_ext_same; repeat split; reflexivity.

(* ---- the micro steps ------------------------------------------------------------------------------------- *)
Lemma k_body_end s t otag targ size rd : k_ext s (body_end s t otag targ size rd).
Proof.
  unfold body_end.
  match goal with |- context [set_stmo (add_trace s ?e) MAX64] => set (s1 := set_stmo (add_trace s e) MAX64) end.
  assert (K1 : k_ext s s1) by kx_same.
  set (p := if rd =? Z.of_nat size then (s1, rd) else (set_errno (stream_shutdown s1 t) ECONNRESET, -1)).
  assert (K2 : k_ext s (fst p)).
  { unfold p. destruct (rd =? Z.of_nat size); cbn [fst]; [exact K1|]. eapply k_ext_trans; [exact K1|kx_same]. }
  destruct p as [s2 r]. cbn [fst] in K2.
  set (s3 := add_acc s2 t targ AkRet).
  set (s4 := upd_ctx s3 targ (cset_ret (s_ctx s3 targ) r)).
  set (s5 := add_acc s4 t targ AkPhase).
  set (s6 := upd_ctx s5 targ (cset_phase (s_ctx s5 targ) COLLECTED)).
  assert (K3 : k_ext s s3) by (eapply k_ext_trans; [exact K2|kx_same]).
  assert (K4 : k_ext s s4) by (eapply k_ext_trans; [exact K3|apply (k_ext_ctx_upd s3 targ (cset_ret (s_ctx s3 targ) r)); reflexivity]).
  assert (K5 : k_ext s s5) by (eapply k_ext_trans; [exact K4|kx_same]).
  assert (K6 : k_ext s s6) by (eapply k_ext_trans; [exact K5|apply (k_ext_ctx_upd s5 targ (cset_phase (s_ctx s5 targ) COLLECTED)); reflexivity]).
  assert (Ret : forall r0 a b, k_ext s (ret_call s6 t r0 a b)) by (intros; eapply k_ext_trans; [exact K6|apply k_ext_ret_call]).
  assert (RetE : forall e r0 a b, k_ext s (ret_call (set_errno s6 e) t r0 a b)).
  { intros. eapply k_ext_trans; [exact K6|]. eapply k_ext_trans; [apply k_ext_same with (s' := set_errno s6 e); repeat split; reflexivity|apply k_ext_ret_call]. }
  destruct (otag =? c_tag (s_ctx s6 t)).
  - destruct (c_th (s_ctx s4 targ)) as [h|]; [destruct (Nat.eqb h t)|]; auto.
  - destruct (c_th (s_ctx s4 targ)) as [h|]; auto.
    eapply k_ext_trans; [exact K6|]. apply k_ext_same.
    apply se_interrupt.
Qed.

Lemma k_hdr_fail s t otag :
  c_made (s_ctx s t) = true -> otag = c_tag0 (s_ctx s t) -> k_ext s (hdr_fail s t otag).
Proof.
  intros M E. unfold hdr_fail. eapply k_ext_trans; [apply (k_ext_erase s t otag None)|apply k_ext_ret_call].
  split; [exact M|exact E].
Qed.

Lemma k_hdr_short s t otag ret :
  c_made (s_ctx s t) = true -> otag = c_tag0 (s_ctx s t) -> k_ext s (hdr_short s t otag ret).
Proof.
  intros M E. unfold hdr_short.
  match goal with |- context [set_stmo (add_trace s ?e) MAX64] => set (s1 := set_stmo (add_trace s e) MAX64) end.
  set (s2 := upd_ctx s1 t (cset_tag (s_ctx s1 t) (hdr_tag (s_hdr s1)))).
  assert (K2 : k_ext s s2).
  { eapply k_ext_trans; [apply k_ext_same with (s' := s1); repeat split; reflexivity|
      apply (k_ext_ctx_upd s1 t (cset_tag (s_ctx s1 t) (hdr_tag (s_hdr s1)))); reflexivity]. }
  eapply k_ext_trans; [exact K2|].
  eapply k_ext_trans; [apply k_ext_same with (s' := set_errno (stream_shutdown s2 t) ECONNRESET); repeat split; reflexivity|].
  apply k_hdr_fail.
  - change (c_made (s_ctx s2 t) = true). unfold s2. rewrite ctx_upd_ctx, Nat.eqb_refl. exact M.
  - change (otag = c_tag0 (s_ctx s2 t)). unfold s2. rewrite ctx_upd_ctx, Nat.eqb_refl. exact E.
Qed.

Lemma reader_made s t otag : Inv s -> reader_otag (pcof s t) = Some otag ->
  c_made (s_ctx s t) = true /\ otag = c_tag0 (s_ctx s t).
Proof.
  intros I R. destruct (i_otag _ I _ _ R) as [E _]. split; [|exact E].
  apply (i_ctx _ I). unfold inside, is_reader. rewrite R. apply orb_true_r.
Qed.

Lemma k_hdr_complete s t otag :
  Inv s -> reader_otag (pcof s t) = Some otag -> adopted_by (pcof s t) = None -> k_ext s (hdr_complete s t otag).
Proof.
  intros I R A. destruct (reader_made s t otag I R) as [M E]. unfold hdr_complete.
  match goal with |- context [set_stmo (add_trace s ?e) MAX64] => set (s1 := set_stmo (add_trace s e) MAX64) end.
  assert (I1 : Inv s1) by (eapply Inv_view; [|exact I]; eapply same_view_trans; [apply sv_add_trace|apply sv_set_stmo]).
  set (g := hdr_tag (s_hdr s1)).
  set (s2 := upd_ctx s1 t (cset_tag (s_ctx s1 t) g)).
  assert (I2 : Inv s2) by (eapply Inv_set_own_tag; eauto).
  assert (K2 : k_ext s s2).
  { eapply k_ext_trans; [apply k_ext_same with (s' := s1); repeat split; reflexivity|
      apply (k_ext_ctx_upd s1 t (cset_tag (s_ctx s1 t) g)); reflexivity]. }
  assert (M2 : c_made (s_ctx s2 t) = true) by (unfold s2; rewrite ctx_upd_ctx, Nat.eqb_refl; exact M).
  assert (E2 : otag = c_tag0 (s_ctx s2 t)) by (unfold s2; rewrite ctx_upd_ctx, Nat.eqb_refl; exact E).
  destruct (negb ((hdr_magic (s_hdr s1) =? MAGIC) && (hdr_version (s_hdr s1) =? VERSION))).
  { eapply k_ext_trans; [exact K2|].
    eapply k_ext_trans; [apply k_ext_same with (s' := set_errno (stream_shutdown s2 t) ECONNRESET); repeat split; reflexivity|].
    apply k_hdr_fail; [exact M2|exact E2]. }
  destruct (map_find g (s_map s2)) as [targ|] eqn:F.
  2:{ eapply k_ext_trans; [exact K2|]. eapply k_ext_trans; [apply (k_ext_erase s2 t otag None); split; [exact M2|exact E2]|].
      eapply k_ext_trans; [apply k_ext_same with (s' := set_errno (erase_tag s2 t otag None) ENOENT); repeat split; reflexivity|apply k_ext_ret_call]. }
  apply map_find_In in F. destruct (i_map _ I2 _ _ F) as (Tin & Tt0 & _).
  destruct (i_ctx _ I2 _ Tin) as (Tm & _).
  set (s3 := erase_tag s2 t g (Some targ)).
  assert (K3 : k_ext s s3).
  { eapply k_ext_trans; [exact K2|apply (k_ext_erase s2 t g (Some targ))]. split; [exact M2|]. split; [exact Tm|exact (eq_sym Tt0)]. }
  set (s4 := add_acc s3 t targ AkAdopt).
  set (s5 := upd_ctx s4 targ (cset_hoff (cset_buf (s_ctx s4 targ) []) (length (s_consumed s4)))).
  match goal with |- context [set_stmo s5 ?v] => set (s6 := set_stmo s5 v) end.
  assert (K6 : k_ext s s6).
  { eapply k_ext_trans; [exact K3|]. eapply k_ext_trans; [apply k_ext_same with (s' := s4); repeat split; reflexivity|].
    eapply k_ext_trans; [apply (k_ext_ctx_upd s4 targ (cset_hoff (cset_buf (s_ctx s4 targ) []) (length (s_consumed s4)))); reflexivity|].
    apply k_ext_same; repeat split; reflexivity. }
  destruct (Z.to_nat (hdr_size (s_hdr s1))).
  { eapply k_ext_trans; [exact K6|apply k_body_end]. }
  destruct (s_shut s6).
  { eapply k_ext_trans; [exact K6|apply k_body_end]. }
  eapply k_ext_trans; [exact K6|]. apply k_ext_same; repeat split; reflexivity.
Qed.

Lemma k_micro s t : Inv s -> k_ext s (micro s t).
Proof.
  intros I. unfold micro.
  destruct (t_pc (s_thr s t)) eqn:E; change (t_pc (s_thr s t)) with (pcof s t) in E.
  - destruct (0 <? k_start (nth t (s_calls s) dummy_call)); kx_same.
  - apply k_ext_same. apply se_usleep_ret.
  - (* step_call *)
    assert (F : c_made (s_ctx s t) = false).
    { destruct (c_made (s_ctx s t)) eqn:M; [|reflexivity]. pose proof (i_pre _ I _ M) as H. rewrite E in H. discriminate. }
    unfold step_call.
    match goal with |- context [if ?c then ret_nocall _ _ else _] => destruct c end.
    { kx_same. }
    match goal with |- context [upd_ctx (set_mtag s ?tg) t ?c] => set (s2 := upd_ctx (set_mtag s tg) t c); set (tag := tg) in *; pose (cn := c) end.
    assert (K2 : k_ext s s2).
    { eapply k_ext_trans; [apply k_ext_same with (s' := set_mtag s tag); repeat split; reflexivity|apply (k_ext_ctx_new (set_mtag s tag) t cn); exact F]. }
    destruct (map_find tag (s_map s2)).
    { eapply k_ext_trans; [exact K2|kx_same]. }
    set (s3 := set_map s2 (s_map s2 ++ [(tag, t)])).
    assert (C3 : s_ctx s3 t = cn) by (unfold s3, s2; cbn; unfold updn; rewrite Nat.eqb_refl; reflexivity).
    match goal with |- context [do_send s3 t tag ?d] =>
      pose proof (k_do_send s3 t tag d) as V; destruct (do_send s3 t tag d) as [s4 r2] end.
    cbn [fst] in V. destruct V as [V0 V1]; [rewrite C3; reflexivity|rewrite C3; reflexivity|].
    assert (K4 : k_ext s s4).
    { eapply k_ext_trans; [exact K2|]. eapply k_ext_trans; [apply k_ext_same with (s' := s3); repeat split; reflexivity|exact V0]. }
    assert (C4 : s_ctx s4 t = cn) by (rewrite V1; exact C3).
    destruct (r2 <? 0).
    { eapply k_ext_trans; [exact K4|]. eapply k_ext_trans; [apply (k_ext_erase s4 t tag None)|apply k_ext_ret_call].
      split; cbn [e_by e_adopt e_tag]; rewrite C4; reflexivity. }
    set (s5 := upd_ctx s4 t (cset_phase (s_ctx s4 t) ISSUED)).
    assert (K5 : k_ext s s5) by (eapply k_ext_trans; [exact K4|apply (k_ext_ctx_upd s4 t (cset_phase (s_ctx s4 t) ISSUED)); reflexivity]).
    assert (RetE : forall e r0 a b, k_ext s (ret_call (set_errno s5 e) t r0 a b)).
    { intros. eapply k_ext_trans; [exact K5|]. eapply k_ext_trans; [apply k_ext_same with (s' := set_errno s5 e); repeat split; reflexivity|apply k_ext_ret_call]. }
    destruct (map_find (c_tag (s_ctx s5 t)) (s_map s5)); [|apply RetE].
    destruct (c_phase (s_ctx s5 t)); try apply RetE; (eapply k_ext_trans; [exact K5|kx_same]).
  - (* step_waitloop *)
    unfold step_waitloop.
    assert (Park : forall s1, k_ext s s1 ->
                   k_ext s (match s_rlock s1 with
                            | None => set_pc (set_rlock s1 (Some t)) t (PReaderLoop (c_tag (s_ctx s1 t)))
                            | Some _ => sleep (set_waitq s1 (s_waitq s1 ++ [t])) t tmo (PParked tmo)
                            end)).
    { intros s1 K1. destruct (s_rlock s1); (eapply k_ext_trans; [exact K1|kx_same]). }
    assert (RetE : forall e r0 a b, k_ext s (ret_call (set_errno s e) t r0 a b)).
    { intros. eapply k_ext_trans; [apply k_ext_same with (s' := set_errno s e); repeat split; reflexivity|apply k_ext_ret_call]. }
    destruct (c_phase (s_ctx s t)); try apply RetE.
    + apply Park. apply k_ext_ctx_upd; reflexivity.
    + apply Park. apply k_ext_refl.
    + destruct (c_th (s_ctx s t)) as [h|]; [destruct (Nat.eqb h t)|]; try apply RetE. apply k_ext_ret_call.
  - (* step_parked *)
    unfold step_parked.
    assert (Tin : inside (pcof s t) = true) by (rewrite E; reflexivity).
    destruct (i_ctx _ I _ Tin) as (M & _).
    assert (Ft : c_tag (s_ctx s t) = c_tag0 (s_ctx s t)) by (apply (i_ftag _ I); rewrite E; reflexivity).
    pose proof (se_cvwait_ret s t) as V. destruct (cvwait_ret s t) as [s1 r]. cbn [fst] in V. pose proof V as [V1 _].
    assert (K1 : k_ext s s1) by (apply k_ext_same; exact V).
    match goal with |- context [if ?c then ret_call s1 t _ true false else _] => destruct c end.
    { eapply k_ext_trans; [exact K1|apply k_ext_ret_call]. }
    destruct (r =? -1); [|eapply k_ext_trans; [exact K1|kx_same]].
    set (s2 := erase_tag s1 t (c_tag (s_ctx s1 t)) None).
    assert (K2 : k_ext s s2).
    { eapply k_ext_trans; [exact K1|apply (k_ext_erase s1 t (c_tag (s_ctx s1 t)) None)]. split; cbn [e_by e_adopt e_tag]; rewrite V1; [exact M|exact Ft]. }
    match goal with |- context [if ?c then set_pc s2 t _ else _] => destruct c end.
    + eapply k_ext_trans; [exact K2|kx_same].
    + eapply k_ext_trans; [exact K2|]. eapply k_ext_trans; [apply k_ext_same with (s' := set_errno s2 ETIMEDOUT); repeat split; reflexivity|apply k_ext_ret_call].
  - (* step_readerloop *)
    unfold step_readerloop.
    assert (R : reader_otag (pcof s t) = Some otag) by (rewrite E; reflexivity).
    destruct (reader_made s t otag I R) as [M Eo].
    set (s1 := set_hdr s (repeat 0 8 ++ skipn 8 (s_hdr s))).
    destruct (c_dl (s_ctx s t) <? s_now s).
    { eapply k_ext_trans; [apply k_ext_same with (s' := set_errno s1 ETIMEDOUT); repeat split; reflexivity|apply k_hdr_fail; [exact M|exact Eo]]. }
    match goal with |- context [set_stmo s1 ?v] => set (s2 := set_stmo s1 v) end.
    destruct (s_shut s2).
    { eapply k_ext_trans; [apply k_ext_same with (s' := s2); repeat split; reflexivity|apply k_hdr_short; [exact M|exact Eo]]. }
    kx_same.
  - (* step_hdrread *)
    unfold step_hdrread.
    assert (R : reader_otag (pcof s t) = Some otag) by (rewrite E; reflexivity).
    destruct (reader_made s t otag I R) as [M Eo].
    destruct (stake (s_now s) (HDRLEN - got) (s_script s)) as [g sc'].
    set (s0 := set_consumed (set_script (set_hdr s (overwrite (s_hdr s) got g)) sc') (s_consumed s ++ g)).
    set (s1 := set_pc s0 t (PHdrRead otag (got + length g) dl)).
    assert (I1 : Inv s1).
    { eapply Inv_pc_same_class; [eapply Inv_view; [|exact I]|apply pc_upd_set_pc|..].
      - eapply same_view_trans; [apply sv_set_hdr|]. eapply same_view_trans; [apply sv_set_script|apply sv_set_consumed].
      - change (pcof s0 t) with (pcof s t). rewrite E. reflexivity.
      - change (pcof s0 t) with (pcof s t). rewrite E. reflexivity.
      - change (pcof s0 t) with (pcof s t). rewrite E. reflexivity.
      - change (pcof s0 t) with (pcof s t). rewrite E. reflexivity. }
    assert (P1 : pcof s1 t = PHdrRead otag (got + length g) dl) by (unfold s1; rewrite pcof_set_pc, Nat.eqb_refl; reflexivity).
    assert (K1 : k_ext s s1) by kx_same.
    destruct (read_status (s_now s) dl (HDRLEN - (got + length g)) sc').
    + eapply k_ext_trans; [exact K1|apply k_hdr_complete; [exact I1|rewrite P1; reflexivity|rewrite P1; reflexivity]].
    + eapply k_ext_trans; [exact K1|apply k_hdr_short; [exact M|exact Eo]].
    + eapply k_ext_trans; [exact K1|]. eapply k_ext_trans; [apply k_ext_same with (s' := set_errno s1 ETIMEDOUT); repeat split; reflexivity|apply k_hdr_short; [exact M|exact Eo]].
    + eapply k_ext_trans; [exact K1|kx_same].
  - apply k_ext_same. apply se_usleep_ret.
  - (* step_bodyread *)
    unfold step_bodyread.
    destruct (stake (s_now s) need (s_script s)) as [g sc'].
    set (s1 := set_consumed (set_script s sc') (s_consumed s ++ g)).
    match goal with |- context [match g with [] => s1 | _ :: _ => ?e end] => set (s2 := match g with [] => s1 | _ :: _ => e end) end.
    assert (K2 : k_ext s s2).
    { unfold s2. destruct g as [|b g']; [kx_same|].
      eapply k_ext_trans; [|apply k_ext_ctx_upd; reflexivity]. kx_same. }
    set (s3 := set_pc s2 t (PBodyRead otag targ size (need - length g) dl)).
    assert (K3 : k_ext s s3) by (eapply k_ext_trans; [exact K2|kx_same]).
    destruct (read_status (s_now s) dl (need - length g) sc').
    + eapply k_ext_trans; [exact K3|apply k_body_end].
    + eapply k_ext_trans; [exact K3|apply k_body_end].
    + eapply k_ext_trans; [exact K3|]. eapply k_ext_trans; [apply k_ext_same with (s' := set_errno s3 ETIMEDOUT); repeat split; reflexivity|apply k_body_end].
    + eapply k_ext_trans; [exact K3|kx_same].
  - apply k_ext_same. apply se_usleep_ret.
  - unfold park. apply k_ext_same. destruct (se_usleep_ret s t) as [A B]. split; [intros x; apply A|exact B].
Qed.

Lemma KE_step s e s' : Inv s -> KE s -> step s e = Some s' -> KE s'.
Proof.
  intros I K. destruct e as [t|t|d|]; unfold step.
  - destruct (Nat.ltb t (nthreads s)); [|intros H; discriminate H].
    destruct (t_stat (s_thr s t)); [|intros H; discriminate H].
    intros H; inversion H; subst. eapply KE_ext; [exact K|apply k_micro; exact I].
  - destruct (Nat.ltb t (nthreads s)); [|intros H; discriminate H].
    destruct (t_stat (s_thr s t)); [intros H; discriminate H|].
    destruct (dl <=? s_now s); [|intros H; discriminate H]. intros H; inversion H; subst. exact K.
  - destruct (0 <=? d); [|intros H; discriminate H]. intros H; inversion H; subst. exact K.
  - intros H; inversion H; subst. exact K.
Qed.

Lemma KW_step s e s' : Inv s -> KW s -> step s e = Some s' -> KW s'.
Proof.
  intros I K. destruct e as [t|t|d|]; unfold step.
  - destruct (Nat.ltb t (nthreads s)); [|intros H; discriminate H].
    destruct (t_stat (s_thr s t)); [|intros H; discriminate H].
    intros H; inversion H; subst. eapply KW_ext; [exact K|apply k_micro; exact I].
  - destruct (Nat.ltb t (nthreads s)); [|intros H; discriminate H].
    destruct (t_stat (s_thr s t)); [intros H; discriminate H|].
    destruct (dl <=? s_now s); [|intros H; discriminate H]. intros H; inversion H; subst. exact K.
  - destruct (0 <=? d); [|intros H; discriminate H]. intros H; inversion H; subst. exact K.
  - intros H; inversion H; subst. exact K.
Qed.

Lemma IK_run s es s' : Inv s -> KE s -> KW s -> run_events s es = Some s' -> Inv s' /\ KE s' /\ KW s'.
Proof.
  revert s. induction es as [|e r IH]; cbn; intros s I K W H.
  - inversion H; subst; auto.
  - destruct (step s e) eqn:E; [|discriminate]. eapply IH; [| | |exact H].
    + eapply Inv_step; eauto.
    + eapply KE_step; eauto.
    + eapply KW_step; eauto.
Qed.

(* failure isolation: (i) a thread only ever erases its own tag — or, as the reader, the tag of the context it
   is about to deliver the response to; (ii) the bytes consumed after a header go to the owner of the header's tag;
   (iii) a call that has returned is no longer registered *)
Lemma failure_isolated_all :
  forall calls script es s,
    run_events (init true calls script) es = Some s ->
    (forall e, In e (s_erases s) ->
       match e_adopt e with
       | None => e_tag e = c_tag0 (s_ctx s (e_by e))
       | Some g => e_tag e = c_tag0 (s_ctx s g)
       end) /\
    (forall t g size need, reading_body (pcof s t) = Some (g, size, need) -> body_facts s g size need) /\
    (forall t r p k, In (t, r, p) (rets (s_trace s)) -> ~ In (k, t) (s_map s)).
Proof.
  intros calls script es s H.
  destruct (IK_run _ _ _ (Inv_init calls script) (fun e (F : In e []) => match F with end)
                   (fun w (F : In w []) => match F with end) H) as (I & K & _).
  destruct (IJ_run (flat script) _ _ _ (Inv_init calls script) (J_init true calls script) H) as [_ Jc].
  split; [|split].
  - intros e He. destruct (K e He) as [_ O]. destruct (e_adopt e); [apply O|exact O].
  - intros t g size need. apply (j_body _ _ _ Jc).
  - intros t r p k Hr Hm. destruct (j_ret _ _ _ Jc t r p Hr) as [D _].
    destruct (i_map _ I _ _ Hm) as (a & _). rewrite D in a. discriminate.
Qed.

(* the tag a call wrote into its request header is the tag its context carries (so `own response` is
   about the tag the peer saw) *)
Lemma request_tag_all :
  forall calls script es s,
    run_events (init true calls script) es = Some s ->
    forall t tag size ret now, In (TvWrite t tag size ret now) (s_trace s) -> tag = c_tag0 (s_ctx s t).
Proof.
  intros calls script es s H t tag size ret now Hin.
  destruct (IK_run _ _ _ (Inv_init calls script) (fun e (F : In e []) => match F with end)
                   (fun w (F : In w []) => match F with end) H) as (_ & _ & W).
  assert (Hw : In (t, tag) (writes (s_trace s))).
  { unfold writes. apply in_flat_map. exists (TvWrite t tag size ret now). split; [exact Hin|left; reflexivity]. }
  destruct (W _ Hw) as [_ E]. exact E.
Qed.
