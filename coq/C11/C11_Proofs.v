(* C11_Proofs.v — the finding F12 as a theorem about the pinned code, and the examples.
   The invariant proofs are in C11_ProofsSafety.v (no access after return) and
   C11_ProofsResp.v (own response / failure isolation). *)
From Coq Require Import ZArith List Bool Arith Lia.
From PV Require Import Base.U64 C04.C04_Heap C11.C11_Model C11.C11_ProofsSafety.
Import ListNotations.
Local Open Scope Z_scope.

(* ---- F12: caller 0 becomes the reader, caller 1 parks with a 50 ms deadline; the header carrying
   caller 1's tag arrives at 30 ms, its body at 120 ms (virtual times are offsets from VSTART = 1000). *)
Definition body (n : nat) (seed : Z) : list Z := map (fun j => (seed + Z.of_nat j) mod 251) (seq 0 n).
Definition f12_calls : list call := [mkCall 0 MAX64 8; mkCall 0 50000 8].
Definition f12_script : list sev :=
  [SData 31000 (mk_hdr 2 16); SData 121000 (body 16 5); SData 131000 (mk_hdr 1 4 ++ body 4 9)].
Definition f12_run (fix_ : bool) : dstate := run_case fix_ f12_calls f12_script 200 200.

Definition dead_access (s : state) : bool := existsb (fun a => negb (a_live a)) (s_acc s).

Lemma f12_pinned_code_dead_access : dead_access (d_st (f12_run false)) = true /\ d_fail (f12_run false) = false.
Proof. vm_compute. split; reflexivity. Qed.

(* the same script on the code with the fix: no dead access, both calls return, the map is empty *)
Lemma f12_fixed_code_clean :
  dead_access (d_st (f12_run true)) = false /\ d_fail (f12_run true) = false /\
  s_map (d_st (f12_run true)) = [] /\
  map (fun e => match e with TvRet t r _ _ now => Some (t, r, now) | _ => None end)
      (filter (fun e => match e with TvRet _ _ _ _ _ => true | _ => false end) (rev (s_trace (d_st (f12_run true)))))
  = [Some (0%nat, -1, 51000); Some (1%nat, -1, 51000)].
Proof. vm_compute. repeat split; reflexivity. Qed.

Lemma no_access_after_return_refuted_pinned :
  exists calls script es s,
    run_events (init false calls script) es = Some s /\
    exists a, In a (s_acc s) /\ a_live a = false.
Proof.
  exists f12_calls, f12_script, (rev (d_evs (f12_run false))), (d_st (f12_run false)).
  split.
  - apply (drive_reachable false f12_calls f12_script 200 200).
  - destruct f12_pinned_code_dead_access as [H _]. unfold dead_access in H.
    apply existsb_exists in H. destruct H as (a & Ha & Hl). exists a. split; [exact Ha|].
    destruct (a_live a); [discriminate|reflexivity].
Qed.

(* the hypotheses of the positive theorem are met by a non-trivial run: on the fixed code the F12 script
   makes the reader adopt the follower's context and the follower take the new `keep waiting` branch *)
Example f12_fixed_reaches_adoption :
  exists es s t g, run_events (init true f12_calls f12_script) es = Some s /\
                   adopted_by (pcof s t) = Some g /\ g <> t /\ pcof s g = PWaitLoop MAX64.
Proof.
  (* the prefix of the cooperative schedule up to the moment the follower has found its tag gone *)
  set (es := rev (d_evs (f12_run true))).
  assert (H : exists n, let s := match run_events (init true f12_calls f12_script) (firstn n es) with Some s => s | None => init true [] [] end in
                         run_events (init true f12_calls f12_script) (firstn n es) = Some s /\
                         adopted_by (pcof s 0%nat) = Some 1%nat /\ pcof s 1%nat = PWaitLoop MAX64).
  { exists 20%nat. vm_compute. repeat split; reflexivity. }
  destruct H as (n & H). cbv zeta in H. destruct H as (A & B & C).
  eexists _, _, 0%nat, 1%nat. split; [exact A|]. split; [exact B|]. split; [discriminate|exact C].
Qed.
