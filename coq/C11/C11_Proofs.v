(* C11_Proofs.v — placeholder while the invariant proofs are being written (see C11_ProofsSafety.v) *)
From Coq Require Import ZArith List.
From PV Require Import Base.U64 C11.C11_Model.
Lemma placeholder : True. Proof. exact I. Qed.
