(* Extraction of the C11 model: ExtrOcamlBasic only; Z, positive, nat stay Coq's datatypes. *)
From Coq Require Import ZArith List.
From PV Require Import Base.U64 C04.C04_Heap C11.C11_Model.
Require Extraction.
Require Import ExtrOcamlBasic.
Extraction "c11_model.ml" run_case.
