(* C11_ProofsSafety.v — the inductive invariant of the FIXED protocol (s_fix = true) and
   `no access after return` for every schedule of the transition system `step`. *)
From Coq Require Import ZArith List Bool Arith Lia.
From PV Require Import Base.U64 C04.C04_Heap C11.C11_Model.
Import ListNotations.
Local Open Scope Z_scope.

(* ---- the part of the state the invariant talks about ------------------------------------------ *)
Definition pcof (s : state) (t : tid) : pc := t_pc (s_thr s t).

Definition is_follower (p : pc) : bool :=
  match p with PWaitLoop _ | PParked _ => true | _ => false end.
Definition reader_otag (p : pc) : option Z :=
  match p with
  | PReaderLoop o | PHdrRead o _ _ | PHdrSleep o _ _ | PBodyRead o _ _ _ _ | PBodySleep o _ _ _ _ => Some o
  | _ => None
  end.
Definition is_reader (p : pc) : bool := match reader_otag p with Some _ => true | None => false end.
Definition inside (p : pc) : bool := is_follower p || is_reader p.
Definition adopted_by (p : pc) : option tid :=
  match p with PBodyRead _ g _ _ _ | PBodySleep _ g _ _ _ => Some g | _ => None end.

Definition pre_call (p : pc) : bool :=
  match p with PInit | PStartSleep | PCall => true | _ => false end.

Record same_view (s s' : state) : Prop := {
  sv_pc : forall t, pcof s' t = pcof s t;
  sv_ctx : forall t, s_ctx s' t = s_ctx s t;
  sv_map : s_map s' = s_map s;
  sv_rlock : s_rlock s' = s_rlock s;
  sv_acc : s_acc s' = s_acc s;
  sv_mtag : s_mtag s' = s_mtag s;
  sv_fix : s_fix s' = s_fix s;
  sv_calls : s_calls s' = s_calls s }.

Lemma same_view_refl s : same_view s s.
Proof. constructor; reflexivity. Qed.
Lemma same_view_trans s1 s2 s3 : same_view s1 s2 -> same_view s2 s3 -> same_view s1 s3.
Proof.
  intros [a1 a2 a3 a4 a5 a6 a7 a8] [b1 b2 b3 b4 b5 b6 b7 b8]; constructor; intros; congruence.
Qed.

Record Inv (s : state) : Prop := {
  i_fix : s_fix s = true;
  i_live : forall t, c_live (s_ctx s t) = inside (pcof s t);
  i_ctx : forall t, inside (pcof s t) = true ->
          c_made (s_ctx s t) = true /\ c_th (s_ctx s t) = Some t /\ c_phase (s_ctx s t) <> BEFORE_ISSUE;
  i_tag0 : forall t, c_made (s_ctx s t) = true -> c_tag0 (s_ctx s t) <= s_mtag s;
  i_inj : forall t u, c_made (s_ctx s t) = true -> c_made (s_ctx s u) = true ->
          c_tag0 (s_ctx s t) = c_tag0 (s_ctx s u) -> t = u;
  i_map : forall g c, In (g, c) (s_map s) ->
          inside (pcof s c) = true /\ c_tag0 (s_ctx s c) = g /\ c_phase (s_ctx s c) <> COLLECTED;
  i_ftag : forall t, is_follower (pcof s t) = true -> c_tag (s_ctx s t) = c_tag0 (s_ctx s t);
  i_otag : forall t o, reader_otag (pcof s t) = Some o -> o = c_tag0 (s_ctx s t) /\ s_rlock s = Some t;
  i_adopt : forall t g, adopted_by (pcof s t) = Some g ->
            inside (pcof s g) = true /\ (forall k, ~ In (k, g) (s_map s)) /\
            c_tag (s_ctx s t) = c_tag0 (s_ctx s g) /\
            (g <> t -> is_follower (pcof s g) = true /\ c_phase (s_ctx s g) <> COLLECTED);
  i_acc : forall a, In a (s_acc s) -> a_live a = true;
  i_pre : forall t, c_made (s_ctx s t) = true -> pre_call (pcof s t) = false }.

Lemma Inv_view s s' : same_view s s' -> Inv s -> Inv s'.
Proof.
  intros [v1 v2 v3 v4 v5 v6 v7 v8] [h1 h2 h3 h4 h5 h6 h7 h8 h9 h10 h11].
  constructor.
  - congruence.
  - intros t. rewrite v1, v2. apply h2.
  - intros t. rewrite v1, v2. apply h3.
  - intros t. rewrite v2, v6. apply h4.
  - intros t u. rewrite !v2. apply h5.
  - intros g c. rewrite v3, v1, v2. apply h6.
  - intros t. rewrite v1, v2. apply h7.
  - intros t o. rewrite v1, v2, v4. apply h8.
  - intros t g. rewrite !v1, !v2, v3. intros H. destruct (h9 t g H) as (a & b & c & d).
    split; [exact a|split; [exact b|split; [exact c|exact d]]].
  - intros a. rewrite v5. apply h10.
  - intros t. rewrite v1, v2. apply h11.
Qed.

(* ---- view of the helper operations --------------------------------------------------------------- *)
Lemma updn_same {A} (f : nat -> A) k v : updn f k v k = v.
Proof. unfold updn. rewrite Nat.eqb_refl. reflexivity. Qed.
Lemma updn_other {A} (f : nat -> A) k v x : x <> k -> updn f k v x = f x.
Proof. unfold updn. intros H. destruct (Nat.eqb_spec x k); congruence. Qed.

Lemma pcof_wake s h e x : pcof (wake s h e) x = pcof s x.
Proof. unfold pcof, wake. cbn. unfold updn. destruct (Nat.eqb_spec x h); subst; reflexivity. Qed.

Lemma sv_wake s h e : same_view s (wake s h e).
Proof. constructor; try reflexivity. intros; apply pcof_wake. Qed.

Lemma sv_set_err s t e : same_view s (set_err s t e).
Proof.
  constructor; try reflexivity. intros x. unfold pcof, set_err. cbn. unfold updn.
  destruct (Nat.eqb_spec x t); subst; reflexivity.
Qed.

Lemma sv_interrupt s h e : same_view s (interrupt s h e).
Proof.
  unfold interrupt. destruct (t_stat (s_thr s h)).
  - destruct (t_err (s_thr s h) =? 0). apply sv_set_err. apply same_view_refl.
  - apply sv_wake.
Qed.

Lemma sv_notify_one s : same_view s (notify_one s).
Proof. unfold notify_one. destruct (s_waitq s). apply same_view_refl. apply sv_wake. Qed.

Lemma sv_set_errno s e : same_view s (set_errno s e).
Proof. constructor; reflexivity. Qed.
Lemma sv_set_stmo s e : same_view s (set_stmo s e).
Proof. constructor; reflexivity. Qed.
Lemma sv_set_hdr s e : same_view s (set_hdr s e).
Proof. constructor; reflexivity. Qed.
Lemma sv_set_script s e : same_view s (set_script s e).
Proof. constructor; reflexivity. Qed.
Lemma sv_set_consumed s e : same_view s (set_consumed s e).
Proof. constructor; reflexivity. Qed.
Lemma sv_set_waitq s e : same_view s (set_waitq s e).
Proof. constructor; reflexivity. Qed.
Lemma sv_add_trace s e : same_view s (add_trace s e).
Proof. constructor; reflexivity. Qed.
Lemma sv_shutdown s t : same_view s (stream_shutdown s t).
Proof. constructor; reflexivity. Qed.
Lemma sv_set_now s e : same_view s (set_now s e).
Proof. constructor; reflexivity. Qed.

Lemma sv_usleep_ret s t : same_view s (fst (usleep_ret s t)).
Proof.
  unfold usleep_ret. destruct (t_err (s_thr s t) =? 0); cbn [fst].
  - apply same_view_refl.
  - eapply same_view_trans. apply sv_set_err. apply sv_set_errno.
Qed.

Lemma sv_cvwait_ret s t : same_view s (fst (cvwait_ret s t)).
Proof.
  unfold cvwait_ret. pose proof (sv_usleep_ret s t) as H.
  destruct (usleep_ret s t) as [s1 r]. cbn [fst] in H.
  destruct (r =? 0); cbn [fst].
  - eapply same_view_trans. apply H. apply sv_set_errno.
  - destruct (s_errno s1 =? -1); exact H.
Qed.

(* ---- map facts ----------------------------------------------------------------------------------- *)
Lemma map_find_In g m c : map_find g m = Some c -> In (g, c) m.
Proof.
  induction m as [|[k v] r IH]; cbn; [discriminate|].
  destruct (Z.eqb_spec k g); intros H.
  - inversion H; subst. left; reflexivity.
  - right; auto.
Qed.
Lemma map_find_None g m : map_find g m = None -> forall c, ~ In (g, c) m.
Proof.
  induction m as [|[k v] r IH]; cbn; intros H c; [tauto|].
  destruct (Z.eqb_spec k g); [discriminate|].
  intros [E|E]. inversion E; congruence. eapply IH; eauto.
Qed.
Lemma map_erase_In g m k c : In (k, c) (map_erase g m) <-> In (k, c) m /\ k <> g.
Proof.
  unfold map_erase. rewrite filter_In. cbn. split; intros [H1 H2]; split; auto.
  - destruct (Z.eqb_spec k g); [discriminate|auto].
  - destruct (Z.eqb_spec k g); [contradiction|reflexivity].
Qed.
Lemma map_find_app g m c : map_find g (m ++ [(g, c)]) <> None.
Proof.
  induction m as [|[k v] r IH]; cbn.
  - rewrite Z.eqb_refl. discriminate.
  - destruct (k =? g); [discriminate|exact IH].
Qed.

(* ---- basic consequences of the invariant ------------------------------------------------------------ *)
Lemma inside_follower_or_reader p : inside p = true -> is_reader p = false -> is_follower p = true.
Proof. unfold inside. destruct (is_follower p); cbn; congruence. Qed.

Lemma reader_unique s t u : Inv s -> is_reader (pcof s t) = true -> is_reader (pcof s u) = true -> t = u.
Proof.
  intros I Ht Hu. unfold is_reader in *.
  destruct (reader_otag (pcof s t)) eqn:Et; [|discriminate].
  destruct (reader_otag (pcof s u)) eqn:Eu; [|discriminate].
  destruct (i_otag _ I _ _ Et) as [_ A]. destruct (i_otag _ I _ _ Eu) as [_ B]. congruence.
Qed.

Lemma adopted_is_reader p g : adopted_by p = Some g -> is_reader p = true.
Proof. destruct p; cbn; congruence. Qed.

Lemma erase_keeps_Inv s by_ g ad : Inv s -> Inv (erase_tag s by_ g ad).
Proof.
  intros [h1 h2 h3 h4 h5 h6 h7 h8 h9 h10 h11]. constructor; cbn; auto.
  - intros k c H. apply map_erase_In in H. destruct H as [H _]. exact (h6 _ _ H).
  - intros t g0 H. destruct (h9 t g0 H) as (a & b & c & d).
    split; [exact a|split; [|split; [exact c|exact d]]].
    intros k Hk. apply map_erase_In in Hk. destruct Hk. eapply b; eauto.
Qed.

(* ---- generic transitions ---------------------------------------------------------------------------- *)
Lemma pcof_set_pc s t p x : pcof (set_pc s t p) x = if Nat.eqb x t then p else pcof s x.
Proof. unfold pcof, set_pc. cbn. unfold updn. destruct (Nat.eqb x t); reflexivity. Qed.
Lemma pcof_sleep s t w p x : pcof (sleep s t w p) x = if Nat.eqb x t then p else pcof s x.
Proof. unfold pcof, sleep. cbn. unfold updn. destruct (Nat.eqb x t); reflexivity. Qed.
Lemma ctx_upd_ctx s g c x : s_ctx (upd_ctx s g c) x = if Nat.eqb x g then c else s_ctx s x.
Proof. unfold upd_ctx. cbn. unfold updn. reflexivity. Qed.

(* a state whose view is that of s except that thread t is at p *)
Record pc_upd (s s' : state) (t : tid) (p : pc) : Prop := {
  pu_pc : forall x, pcof s' x = if Nat.eqb x t then p else pcof s x;
  pu_ctx : forall x, s_ctx s' x = s_ctx s x;
  pu_map : s_map s' = s_map s;
  pu_rlock : s_rlock s' = s_rlock s;
  pu_acc : s_acc s' = s_acc s;
  pu_mtag : s_mtag s' = s_mtag s;
  pu_fix : s_fix s' = s_fix s }.

Lemma pc_upd_set_pc s t p : pc_upd s (set_pc s t p) t p.
Proof. constructor; try reflexivity. apply pcof_set_pc. Qed.
Lemma pc_upd_sleep s t w p : pc_upd s (sleep s t w p) t p.
Proof. constructor; try reflexivity. apply pcof_sleep. Qed.

Ltac eqb_case x t := destruct (Nat.eqb_spec x t); [subst x|].

(* the thread stays in the same class (follower / reader with the same o_tag / adopting the same context) *)
Lemma Inv_pc_same_class s s' t p :
  Inv s -> pc_upd s s' t p ->
  is_follower p = is_follower (pcof s t) ->
  reader_otag p = reader_otag (pcof s t) ->
  adopted_by p = adopted_by (pcof s t) ->
  pre_call p && negb (pre_call (pcof s t)) = false ->
  Inv s'.
Proof.
  intros [h1 h2 h3 h4 h5 h6 h7 h8 h9 h10 h11] [u1 u2 u3 u4 u5 u6 u7] Hf Hr Ha Hp.
  assert (Hin : inside p = inside (pcof s t)).
  { unfold inside, is_reader. rewrite Hf, Hr. reflexivity. }
  assert (Hins : forall x, inside (pcof s' x) = inside (pcof s x)).
  { intros x. rewrite u1. eqb_case x t; auto. }
  assert (Hfol : forall x, is_follower (pcof s' x) = is_follower (pcof s x)).
  { intros x. rewrite u1. eqb_case x t; auto. }
  assert (Hro : forall x, reader_otag (pcof s' x) = reader_otag (pcof s x)).
  { intros x. rewrite u1. eqb_case x t; auto. }
  assert (Had : forall x, adopted_by (pcof s' x) = adopted_by (pcof s x)).
  { intros x. rewrite u1. eqb_case x t; auto. }
  constructor.
  - congruence.
  - intros x. rewrite u2, Hins. apply h2.
  - intros x. rewrite u2, Hins. apply h3.
  - intros x. rewrite u2, u6. apply h4.
  - intros x y. rewrite !u2. apply h5.
  - intros g c. rewrite u3, u2, Hins. apply h6.
  - intros x. rewrite u2, Hfol. apply h7.
  - intros x o. rewrite u2, u4, Hro. apply h8.
  - intros x g. rewrite Had, !u2, u3, Hins, Hfol. apply h9.
  - intros a. rewrite u5. apply h10.
  - intros x. rewrite u1, u2. eqb_case x t; [|apply h11].
    intros M. specialize (h11 t M). rewrite h11 in Hp. cbn in Hp. rewrite andb_true_r in Hp. exact Hp.
Qed.

(* returning from do_call *)
Definition ret_mid (s : state) (r : Z) (w rd : bool) : state :=
  let s1 := if rd then set_rlock s None else s in
  let s2 := if w then notify_one s1 else s1 in
  if r <? 0 then (if s_errno s2 =? ECONNRESET then s2 else set_errno s2 EFAULT) else s2.

Lemma sv_ret_mid s r w (rd : bool) : same_view (if rd then set_rlock s None else s) (ret_mid s r w rd).
Proof.
  unfold ret_mid. set (s1 := if rd then set_rlock s None else s).
  assert (H2 : same_view s1 (if w then notify_one s1 else s1)).
  { destruct w. apply sv_notify_one. apply same_view_refl. }
  set (s2 := if w then notify_one s1 else s1) in *.
  destruct (r <? 0); [|exact H2].
  destruct (s_errno s2 =? ECONNRESET); [exact H2|].
  eapply same_view_trans. exact H2. apply sv_set_errno.
Qed.

Lemma ret_call_view s t r w rd s' :
  s' = ret_call s t r w rd ->
  (forall x, pcof s' x = if Nat.eqb x t then PDone else pcof s x) /\
  (forall x, s_ctx s' x = if Nat.eqb x t then cset_live (s_ctx s t) false else s_ctx s x) /\
  s_map s' = s_map s /\ s_rlock s' = (if rd then None else s_rlock s) /\
  s_acc s' = s_acc s /\ s_mtag s' = s_mtag s /\ s_fix s' = s_fix s.
Proof.
  pose proof (sv_ret_mid s r w rd) as [v1 v2 v3 v4 v5 v6 v7 v8].
  assert (E : ret_call s t r w rd =
              park (add_trace (upd_ctx (ret_mid s r w rd) t (cset_live (s_ctx (ret_mid s r w rd) t) false))
                      (TvRet t (if r <? 0 then -1 else r)
                             (if (if r <? 0 then -1 else r) <? 0 then s_errno (ret_mid s r w rd) else 0)
                             (if (if r <? 0 then -1 else r) <? 0 then [] else c_buf (s_ctx (ret_mid s r w rd) t)) (s_now s))) t)
    by reflexivity.
  intros ->. rewrite E. clear E.
  set (m := ret_mid s r w rd) in *.
  repeat split.
  - intros x. unfold park. rewrite pcof_sleep. destruct (Nat.eqb x t); [reflexivity|].
    change (pcof m x = pcof s x). rewrite v1. destruct rd; reflexivity.
  - intros x. unfold park, sleep, add_trace. cbn. unfold updn.
    destruct (Nat.eqb x t).
    + rewrite v2. destruct rd; reflexivity.
    + rewrite v2. destruct rd; reflexivity.
  - unfold park, sleep, add_trace, upd_ctx. cbn. rewrite v3. destruct rd; reflexivity.
  - unfold park, sleep, add_trace, upd_ctx. cbn. rewrite v4. destruct rd; reflexivity.
  - unfold park, sleep, add_trace, upd_ctx. cbn. rewrite v5. destruct rd; reflexivity.
  - unfold park, sleep, add_trace, upd_ctx. cbn. rewrite v6. destruct rd; reflexivity.
  - unfold park, sleep, add_trace, upd_ctx. cbn. rewrite v7. destruct rd; reflexivity.
Qed.

Lemma Inv_ret s t r w rd :
  Inv s -> inside (pcof s t) = true ->
  (forall k, ~ In (k, t) (s_map s)) ->
  (forall u, u <> t -> adopted_by (pcof s u) <> Some t) ->
  rd = is_reader (pcof s t) ->
  Inv (ret_call s t r w rd).
Proof.
  intros [h1 h2 h3 h4 h5 h6 h7 h8 h9 h10 h11] Hin Hmap Had Hrd.
  destruct (ret_call_view s t r w rd _ eq_refl) as (u1 & u2 & u3 & u4 & u5 & u6 & u7).
  set (s' := ret_call s t r w rd) in *.
  assert (Hm : forall x, c_made (s_ctx s' x) = c_made (s_ctx s x)).
  { intros x. rewrite u2. eqb_case x t; reflexivity. }
  assert (Ht0 : forall x, c_tag0 (s_ctx s' x) = c_tag0 (s_ctx s x)).
  { intros x. rewrite u2. eqb_case x t; reflexivity. }
  constructor.
  - congruence.
  - intros x. rewrite u1, u2. eqb_case x t; [reflexivity|apply h2].
  - intros x. rewrite u1, u2. eqb_case x t; [cbn; discriminate|apply h3].
  - intros x. rewrite Hm, Ht0, u6. apply h4.
  - intros x y. rewrite !Hm, !Ht0. apply h5.
  - intros g c. rewrite u3. intros H. assert (c <> t) by (intros ->; eapply Hmap; eauto).
    rewrite u1, u2. destruct (Nat.eqb_spec c t); [contradiction|]. apply h6; auto.
  - intros x. rewrite u1, u2. eqb_case x t; [cbn; discriminate|apply h7].
  - intros x o. rewrite u1, u2, u4. eqb_case x t; [cbn; discriminate|].
    intros H. destruct (h8 x o H) as [A B]. split; [exact A|].
    destruct rd; [|exact B]. exfalso. apply n.
    assert (Hx : is_reader (pcof s x) = true) by (unfold is_reader; rewrite H; reflexivity).
    symmetry in Hrd.
    assert (I : Inv s) by (constructor; auto).
    eapply reader_unique; eauto.
  - intros x g. rewrite u1. eqb_case x t; [cbn; discriminate|].
    intros H. assert (g <> t) by (intros ->; eapply Had; eauto).
    destruct (h9 x g H) as (a & b & c & d).
    rewrite u1, !u2, u3. destruct (Nat.eqb_spec g t); [contradiction|].
    destruct (Nat.eqb_spec x t); [contradiction|].
    split; [exact a|split; [exact b|split; [exact c|exact d]]].
  - intros a. rewrite u5. apply h10.
  - intros x. rewrite u1, Hm. eqb_case x t; [reflexivity|apply h11].
Qed.

(* ---- more generic transitions ------------------------------------------------------------------------- *)
Lemma Inv_add_acc s by_ g k : Inv s -> c_live (s_ctx s g) = true -> Inv (add_acc s by_ g k).
Proof.
  intros [h1 h2 h3 h4 h5 h6 h7 h8 h9 h10 h11] L. constructor; cbn; auto.
  intros a [<-|H]; cbn; auto.
Qed.

Lemma Inv_ctx_upd s g c' :
  Inv s ->
  c_made c' = c_made (s_ctx s g) -> c_tag0 c' = c_tag0 (s_ctx s g) -> c_live c' = c_live (s_ctx s g) ->
  c_th c' = c_th (s_ctx s g) ->
  (c_tag c' = c_tag (s_ctx s g) \/ (is_follower (pcof s g) = false /\ forall x, adopted_by (pcof s x) = None)) ->
  (c_phase c' = c_phase (s_ctx s g) \/
   (c_phase c' <> BEFORE_ISSUE /\
    (c_phase c' = COLLECTED -> (forall k, ~ In (k, g) (s_map s)) /\ forall x, x <> g -> adopted_by (pcof s x) <> Some g))) ->
  Inv (upd_ctx s g c').
Proof.
  intros [h1 h2 h3 h4 h5 h6 h7 h8 h9 h10 h11] Em E0 El Eh Et Ep.
  assert (P : forall x, pcof (upd_ctx s g c') x = pcof s x) by reflexivity.
  assert (Hm : forall x, c_made (s_ctx (upd_ctx s g c') x) = c_made (s_ctx s x)).
  { intros x. rewrite ctx_upd_ctx. eqb_case x g; auto. }
  assert (Ht0 : forall x, c_tag0 (s_ctx (upd_ctx s g c') x) = c_tag0 (s_ctx s x)).
  { intros x. rewrite ctx_upd_ctx. eqb_case x g; auto. }
  assert (Hth : forall x, c_th (s_ctx (upd_ctx s g c') x) = c_th (s_ctx s x)).
  { intros x. rewrite ctx_upd_ctx. eqb_case x g; auto. }
  assert (Hl : forall x, c_live (s_ctx (upd_ctx s g c') x) = c_live (s_ctx s x)).
  { intros x. rewrite ctx_upd_ctx. eqb_case x g; auto. }
  constructor.
  - exact h1.
  - intros x. rewrite Hl, P. apply h2.
  - intros x. rewrite Hm, Hth, P. intros H. destruct (h3 x H) as (a & b & c). split; [exact a|split; [exact b|]].
    rewrite ctx_upd_ctx. eqb_case x g; [|exact c]. destruct Ep as [Ep|[Ep _]]; congruence.
  - intros x. rewrite Hm, Ht0. apply h4.
  - intros x y. rewrite !Hm, !Ht0. apply h5.
  - intros k c H. change (s_map (upd_ctx s g c')) with (s_map s) in H.
    destruct (h6 k c H) as (a & b & d). rewrite P, Ht0. split; [exact a|split; [exact b|]].
    rewrite ctx_upd_ctx. eqb_case c g; [|exact d]. destruct Ep as [Ep|[_ Ep]]; [congruence|].
    intros E. destruct (Ep E) as [A _]. eapply A; eauto.
  - intros x. rewrite P, Ht0. intros H. rewrite ctx_upd_ctx. eqb_case x g; [|apply h7; auto].
    destruct Et as [Et|[Et _]]; [rewrite Et; apply h7; auto|congruence].
  - intros x o. rewrite P, Ht0. apply h8.
  - intros x y. rewrite !P, Ht0. change (s_map (upd_ctx s g c')) with (s_map s). intros H.
    destruct (h9 x y H) as (a & b & c & d). split; [exact a|split; [exact b|split]].
    + rewrite ctx_upd_ctx. eqb_case x g; [|exact c].
      destruct Et as [Et|[_ Et]]; [congruence|]. rewrite Et in H. discriminate.
    + intros N. destruct (d N) as [d1 d2]. split; [exact d1|].
      rewrite ctx_upd_ctx. eqb_case y g; [|exact d2]. destruct Ep as [Ep|[_ Ep]]; [congruence|].
      intros E. destruct (Ep E) as [_ B]. eapply B; eauto.
  - exact h10.
  - intros x. rewrite Hm, P. apply h11.
Qed.

Lemma Inv_become_reader s t o :
  Inv s -> is_follower (pcof s t) = true -> s_rlock s = None -> o = c_tag (s_ctx s t) ->
  Inv (set_pc (set_rlock s (Some t)) t (PReaderLoop o)).
Proof.
  intros I F R Eo. pose proof I as [h1 h2 h3 h4 h5 h6 h7 h8 h9 h10 h11].
  assert (NR : forall x, reader_otag (pcof s x) = None).
  { intros x. destruct (reader_otag (pcof s x)) eqn:E; auto. destruct (h8 x z E). congruence. }
  assert (NA : forall x, adopted_by (pcof s x) = None).
  { intros x. destruct (adopted_by (pcof s x)) eqn:E; auto. apply adopted_is_reader in E.
    unfold is_reader in E. rewrite NR in E. discriminate. }
  assert (P : forall x, pcof (set_pc (set_rlock s (Some t)) t (PReaderLoop o)) x =
                        if Nat.eqb x t then PReaderLoop o else pcof s x).
  { intros x. rewrite pcof_set_pc. reflexivity. }
  assert (Hin : forall x, inside (pcof (set_pc (set_rlock s (Some t)) t (PReaderLoop o)) x) = inside (pcof s x)).
  { intros x. rewrite P. eqb_case x t; auto. unfold inside. rewrite F. reflexivity. }
  constructor.
  - exact h1.
  - intros x. rewrite Hin. apply h2.
  - intros x. rewrite Hin. apply h3.
  - exact h4.
  - exact h5.
  - intros g c H. rewrite Hin. apply h6. exact H.
  - intros x. rewrite P. eqb_case x t; [cbn; discriminate|apply h7].
  - intros x o'. rewrite P. eqb_case x t.
    + cbn. intros E. inversion E; subst o'. split; [|reflexivity]. rewrite Eo. apply h7. exact F.
    + rewrite NR. discriminate.
  - intros x g. rewrite P. eqb_case x t; [cbn; discriminate|]. rewrite NA. discriminate.
  - exact h10.
  - intros x. rewrite P. eqb_case x t; [reflexivity|apply h11].
Qed.

(* the reader starts collecting targ's body *)
Lemma Inv_start_body s s' t otag targ p :
  Inv s -> pc_upd s s' t p ->
  reader_otag (pcof s t) = Some otag -> reader_otag p = Some otag -> adopted_by p = Some targ ->
  inside (pcof s targ) = true -> (forall k, ~ In (k, targ) (s_map s)) ->
  c_tag (s_ctx s t) = c_tag0 (s_ctx s targ) -> c_phase (s_ctx s targ) <> COLLECTED ->
  Inv s'.
Proof.
  intros I [u1 u2 u3 u4 u5 u6 u7] Ro Rp Ap Tin Tmap Ttag Tph.
  pose proof I as [h1 h2 h3 h4 h5 h6 h7 h8 h9 h10 h11].
  assert (Ft : is_follower (pcof s t) = false) by (destruct (pcof s t); cbn in *; congruence).
  assert (Fp : is_follower p = false) by (destruct p; cbn in *; congruence).
  assert (Hins : forall x, inside (pcof s' x) = inside (pcof s x)).
  { intros x. rewrite u1. eqb_case x t; auto. unfold inside, is_reader. rewrite Ft, Fp, Ro, Rp. reflexivity. }
  assert (Hfol : forall x, is_follower (pcof s' x) = is_follower (pcof s x)).
  { intros x. rewrite u1. eqb_case x t; auto. congruence. }
  assert (Hro : forall x, reader_otag (pcof s' x) = reader_otag (pcof s x)).
  { intros x. rewrite u1. eqb_case x t; auto. congruence. }
  constructor.
  - congruence.
  - intros x. rewrite u2, Hins. apply h2.
  - intros x. rewrite u2, Hins. apply h3.
  - intros x. rewrite u2, u6. apply h4.
  - intros x y. rewrite !u2. apply h5.
  - intros g c. rewrite u3, u2, Hins. apply h6.
  - intros x. rewrite u2, Hfol. apply h7.
  - intros x o. rewrite u2, u4, Hro. apply h8.
  - intros x g. rewrite u1. eqb_case x t.
    + rewrite Ap. intros E. inversion E; subst g. rewrite !u2, u3, Hins, Hfol.
      split; [exact Tin|split; [exact Tmap|split; [exact Ttag|]]].
      intros N. split; [|exact Tph]. apply inside_follower_or_reader; [exact Tin|].
      destruct (is_reader (pcof s targ)) eqn:E'; [|reflexivity]. exfalso. apply N.
      eapply reader_unique; eauto. unfold is_reader. rewrite Ro. reflexivity.
    + rewrite !u2, u3, Hins, Hfol. apply h9.
  - intros a. rewrite u5. apply h10.
  - intros x. rewrite u1, u2. eqb_case x t; [|apply h11]. intros _. destruct p; cbn in *; congruence.
Qed.

(* the reader has collected another thread's response: COLLECTED, and back to the top of the loop *)
Lemma Inv_collect_other s s' t otag targ c' :
  Inv s -> reader_otag (pcof s t) = Some otag -> targ <> t ->
  (forall k, ~ In (k, targ) (s_map s)) ->
  (forall x, pcof s' x = if Nat.eqb x t then PReaderLoop otag else pcof s x) ->
  (forall x, s_ctx s' x = if Nat.eqb x targ then c' else s_ctx s x) ->
  c_made c' = c_made (s_ctx s targ) -> c_tag0 c' = c_tag0 (s_ctx s targ) -> c_live c' = c_live (s_ctx s targ) ->
  c_th c' = c_th (s_ctx s targ) -> c_tag c' = c_tag (s_ctx s targ) -> c_phase c' = COLLECTED ->
  s_map s' = s_map s -> s_rlock s' = s_rlock s -> s_acc s' = s_acc s ->
  s_mtag s' = s_mtag s -> s_fix s' = s_fix s ->
  Inv s'.
Proof.
  intros I Ro N Tmap u1 u2 Em E0 El Eh Et Ep u3 u4 u5 u6 u7.
  pose proof I as [h1 h2 h3 h4 h5 h6 h7 h8 h9 h10 h11].
  assert (Hins : forall x, inside (pcof s' x) = inside (pcof s x)).
  { intros x. rewrite u1. eqb_case x t; auto. unfold inside, is_reader. rewrite Ro.
    destruct (pcof s t); cbn in *; congruence. }
  assert (Hfol : forall x, is_follower (pcof s' x) = is_follower (pcof s x)).
  { intros x. rewrite u1. eqb_case x t; auto. destruct (pcof s t); cbn in *; congruence. }
  assert (Hro : forall x, reader_otag (pcof s' x) = reader_otag (pcof s x)).
  { intros x. rewrite u1. eqb_case x t; auto. }
  assert (Hm : forall x, c_made (s_ctx s' x) = c_made (s_ctx s x)).
  { intros x. rewrite u2. eqb_case x targ; auto. }
  assert (Ht0 : forall x, c_tag0 (s_ctx s' x) = c_tag0 (s_ctx s x)).
  { intros x. rewrite u2. eqb_case x targ; auto. }
  assert (Hth : forall x, c_th (s_ctx s' x) = c_th (s_ctx s x)).
  { intros x. rewrite u2. eqb_case x targ; auto. }
  assert (Hl : forall x, c_live (s_ctx s' x) = c_live (s_ctx s x)).
  { intros x. rewrite u2. eqb_case x targ; auto. }
  assert (Htg : forall x, c_tag (s_ctx s' x) = c_tag (s_ctx s x)).
  { intros x. rewrite u2. eqb_case x targ; auto. }
  constructor.
  - congruence.
  - intros x. rewrite Hl, Hins. apply h2.
  - intros x. rewrite Hm, Hth, Hins. intros H. destruct (h3 x H) as (a & b & c). split; [exact a|split; [exact b|]].
    rewrite u2. eqb_case x targ; [|exact c]. rewrite Ep. discriminate.
  - intros x. rewrite Hm, Ht0, u6. apply h4.
  - intros x y. rewrite !Hm, !Ht0. apply h5.
  - intros k c. rewrite u3, Hins, Ht0. intros H. destruct (h6 k c H) as (a & b & d).
    split; [exact a|split; [exact b|]]. rewrite u2. eqb_case c targ; [|exact d]. exfalso. eapply Tmap; eauto.
  - intros x. rewrite Htg, Ht0, Hfol. apply h7.
  - intros x o. rewrite Ht0, u4, Hro. apply h8.
  - intros x g. rewrite u1. eqb_case x t; [cbn; discriminate|].
    intros H. assert (R : is_reader (pcof s x) = true) by (eapply adopted_is_reader; eauto).
    exfalso. apply n. eapply reader_unique; eauto. unfold is_reader. rewrite Ro. reflexivity.
  - intros a. rewrite u5. apply h10.
  - intros x. rewrite u1, Hm. eqb_case x t; [reflexivity|apply h11].
Qed.

(* ---- do_call: a new context ---------------------------------------------------------------------------- *)
Lemma Inv_call_ok s s' t dl cn :
  Inv s -> inside (pcof s t) = false ->
  (forall x, pcof s' x = if Nat.eqb x t then PWaitLoop dl else pcof s x) ->
  (forall x, s_ctx s' x = if Nat.eqb x t then cn else s_ctx s x) ->
  c_made cn = true -> c_tag0 cn = s_mtag s + 1 -> c_tag cn = s_mtag s + 1 -> c_live cn = true ->
  c_th cn = Some t -> c_phase cn = ISSUED ->
  s_map s' = s_map s ++ [(s_mtag s + 1, t)] -> s_mtag s' = s_mtag s + 1 ->
  s_rlock s' = s_rlock s -> s_acc s' = s_acc s -> s_fix s' = s_fix s ->
  Inv s'.
Proof.
  intros I Out u1 u2 Cm C0 Ct Cl Ch Cp u3 u6 u4 u5 u7.
  pose proof I as [h1 h2 h3 h4 h5 h6 h7 h8 h9 h10 h11].
  assert (Fo : is_follower (pcof s t) = false /\ reader_otag (pcof s t) = None /\ adopted_by (pcof s t) = None).
  { unfold inside, is_reader in Out. destruct (pcof s t); cbn in *; try discriminate; auto. }
  destruct Fo as (Fo1 & Fo2 & Fo3).
  constructor.
  - congruence.
  - intros x. rewrite u1, u2. eqb_case x t; [rewrite Cl; reflexivity|apply h2].
  - intros x. rewrite u1, u2. eqb_case x t; [|apply h3].
    intros _. rewrite Cm, Ch, Cp. repeat split; congruence.
  - intros x. rewrite u2, u6. eqb_case x t; [lia|]. intros H. specialize (h4 x H). lia.
  - intros x y. rewrite !u2. eqb_case x t; eqb_case y t; auto.
    + intros _ H E. specialize (h4 y H). lia.
    + intros H _ E. specialize (h4 x H). lia.
  - intros g c. rewrite u3, in_app_iff. intros [H|[H|[]]].
    + destruct (h6 g c H) as (a & b & d).
      assert (c <> t) by (intros ->; congruence).
      rewrite u1, u2. destruct (Nat.eqb_spec c t); [contradiction|]. auto.
    + inversion H; subst g c. rewrite u1, u2, Nat.eqb_refl. rewrite C0, Cp. repeat split; congruence.
  - intros x. rewrite u1, u2. eqb_case x t; [intros _; congruence|apply h7].
  - intros x o. rewrite u1, u2, u4. eqb_case x t; [cbn; discriminate|apply h8].
  - intros x g. rewrite u1. eqb_case x t; [cbn; discriminate|].
    intros H. destruct (h9 x g H) as (a & b & c & d).
    assert (g <> t) by (intros ->; congruence).
    rewrite u1, !u2, u3. destruct (Nat.eqb_spec g t); [contradiction|]. destruct (Nat.eqb_spec x t); [contradiction|].
    split; [exact a|split; [|split; [exact c|exact d]]].
    intros k. rewrite in_app_iff. intros [K|[K|[]]]; [eapply b; eauto|]. inversion K; congruence.
  - intros a. rewrite u5. apply h10.
  - intros x. rewrite u1, u2. eqb_case x t; [reflexivity|apply h11].
Qed.

Lemma Inv_call_fail s s' t cn :
  Inv s -> inside (pcof s t) = false ->
  (forall x, pcof s' x = if Nat.eqb x t then PDone else pcof s x) ->
  (forall x, s_ctx s' x = if Nat.eqb x t then cn else s_ctx s x) ->
  c_made cn = true -> c_tag0 cn = s_mtag s + 1 -> c_live cn = false ->
  (forall k c, In (k, c) (s_map s') -> In (k, c) (s_map s)) -> s_mtag s' = s_mtag s + 1 ->
  s_rlock s' = s_rlock s -> s_acc s' = s_acc s -> s_fix s' = s_fix s ->
  Inv s'.
Proof.
  intros I Out u1 u2 Cm C0 Cl u3 u6 u4 u5 u7.
  pose proof I as [h1 h2 h3 h4 h5 h6 h7 h8 h9 h10 h11].
  assert (Fo : is_follower (pcof s t) = false /\ reader_otag (pcof s t) = None /\ adopted_by (pcof s t) = None).
  { unfold inside, is_reader in Out. destruct (pcof s t); cbn in *; try discriminate; auto. }
  destruct Fo as (Fo1 & Fo2 & Fo3).
  constructor.
  - congruence.
  - intros x. rewrite u1, u2. eqb_case x t; [rewrite Cl; reflexivity|apply h2].
  - intros x. rewrite u1, u2. eqb_case x t; [cbn; discriminate|apply h3].
  - intros x. rewrite u2, u6. eqb_case x t; [lia|]. intros H. specialize (h4 x H). lia.
  - intros x y. rewrite !u2. eqb_case x t; eqb_case y t; auto.
    + intros _ H E. specialize (h4 y H). lia.
    + intros H _ E. specialize (h4 x H). lia.
  - intros g c H. apply u3 in H. destruct (h6 g c H) as (a & b & d).
    assert (c <> t) by (intros ->; congruence).
    rewrite u1, u2. destruct (Nat.eqb_spec c t); [contradiction|]. auto.
  - intros x. rewrite u1, u2. eqb_case x t; [cbn; discriminate|apply h7].
  - intros x o. rewrite u1, u2, u4. eqb_case x t; [cbn; discriminate|apply h8].
  - intros x g. rewrite u1. eqb_case x t; [cbn; discriminate|].
    intros H. destruct (h9 x g H) as (a & b & c & d).
    assert (g <> t) by (intros ->; congruence).
    rewrite u1, !u2. destruct (Nat.eqb_spec g t); [contradiction|]. destruct (Nat.eqb_spec x t); [contradiction|].
    split; [exact a|split; [|split; [exact c|exact d]]].
    intros k K. apply u3 in K. eapply b; eauto.
  - intros a. rewrite u5. apply h10.
  - intros x. rewrite u1, u2. eqb_case x t; [reflexivity|apply h11].
Qed.

Lemma sv_do_send s3 t tag dl : same_view s3 (fst (do_send s3 t tag dl)).
Proof.
  unfold do_send.
  destruct (dl <? s_now s3); [apply sv_set_errno|].
  destruct (4294967295 <? k_req (nth t (s_calls s3) dummy_call)); [apply sv_set_errno|].
  set (s3a := if s_shut s3 then set_errno s3 EPIPE else s3).
  assert (A : same_view s3 s3a) by (unfold s3a; destruct (s_shut s3); [apply sv_set_errno|apply same_view_refl]).
  match goal with |- context [add_trace s3a ?e] => set (s3b := add_trace s3a e) end.
  assert (B : same_view s3 s3b) by (eapply same_view_trans; [exact A|apply sv_add_trace]).
  match goal with |- context [if ?c then (s3b, 0) else _] => destruct c end; cbn [fst]; [exact B|].
  eapply same_view_trans; [exact B|]. eapply same_view_trans; [apply sv_shutdown|apply sv_set_errno].
Qed.

(* ---- the micro steps ----------------------------------------------------------------------------------- *)
Lemma Inv_outside_move s0 s s' t p :
  Inv s0 -> same_view s0 s -> pc_upd s s' t p -> inside (pcof s0 t) = false -> inside p = false ->
  pre_call p && negb (pre_call (pcof s0 t)) = false -> Inv s'.
Proof.
  intros I V U O Op Hp. eapply Inv_pc_same_class; [eapply Inv_view; eauto|exact U|..];
  rewrite (sv_pc _ _ V); try exact Hp; unfold inside, is_reader in *;
  destruct p; cbn in *; try discriminate; destruct (pcof s0 t); cbn in *; try discriminate; reflexivity.
Qed.

Lemma Inv_step_call s t : Inv s -> pcof s t = PCall -> Inv (step_call s t).
Proof.
  intros I P. pose proof I as [h1 h2 h3 h4 h5 h6 h7 h8 h9 h10 h11].
  assert (Out : inside (pcof s t) = false) by (rewrite P; reflexivity).
  unfold step_call.
  set (k := nth t (s_calls s) dummy_call). set (now := s_now s).
  set (exp := if k_tmo k =? 0 then 0 else sat_add now (k_tmo k)).
  destruct (exp <? now).
  { unfold ret_nocall, park.
    eapply Inv_outside_move with (s0 := s); [exact I| |apply pc_upd_sleep|exact Out|reflexivity|rewrite P; reflexivity].
    eapply same_view_trans; [apply sv_set_errno|apply sv_add_trace]. }
  set (rem := sat_sub exp now). set (dl := if rem =? 0 then 0 else sat_add now rem).
  set (tag := s_mtag s + 1).
  set (cn := mkCtx tag BEFORE_ISSUE 0 (Some t) dl true [] tag 0 true).
  set (s2 := upd_ctx (set_mtag s tag) t cn).
  assert (M2 : s_map s2 = s_map s) by reflexivity.
  destruct (map_find tag (s_map s2)) as [c|] eqn:F.
  { exfalso. rewrite M2 in F. apply map_find_In in F. destruct (h6 _ _ F) as (a & b & _).
    destruct (h3 _ a) as (m & _). specialize (h4 _ m). unfold tag in b. lia. }
  set (s3 := set_map s2 (s_map s2 ++ [(tag, t)])).
  pose proof (sv_do_send s3 t tag dl) as V.
  destruct (do_send s3 t tag dl) as [s4 r2]. cbn [fst] in V. destruct V as [v1 v2 v3 v4 v5 v6 v7 v8].
  assert (C4 : forall x, s_ctx s4 x = if Nat.eqb x t then cn else s_ctx s x).
  { intros x. rewrite v2. unfold s3, s2. cbn. unfold updn. reflexivity. }
  assert (P4 : forall x, pcof s4 x = pcof s x) by (intros x; rewrite v1; reflexivity).
  assert (M4 : s_map s4 = s_map s ++ [(tag, t)]) by (rewrite v3; reflexivity).
  assert (T4 : s_mtag s4 = tag) by (rewrite v6; reflexivity).
  assert (R4 : s_rlock s4 = s_rlock s) by (rewrite v4; reflexivity).
  assert (A4 : s_acc s4 = s_acc s) by (rewrite v5; reflexivity).
  assert (F4 : s_fix s4 = s_fix s) by (rewrite v7; reflexivity).
  destruct (r2 <? 0).
  { (* do_issue failed *)
    destruct (ret_call_view (erase_tag s4 t tag None) t (-1) false false _ eq_refl) as (u1 & u2 & u3 & u4 & u5 & u6 & u7).
    eapply Inv_call_fail with (t := t) (cn := cset_live cn false); [exact I|exact Out|..].
    - intros x. rewrite u1. destruct (Nat.eqb x t); [reflexivity|]. change (pcof s4 x = pcof s x). apply P4.
    - intros x. rewrite u2. change (s_ctx (erase_tag s4 t tag None)) with (s_ctx s4).
      rewrite !C4, Nat.eqb_refl. destruct (Nat.eqb x t); reflexivity.
    - reflexivity.
    - reflexivity.
    - reflexivity.
    - intros g c. rewrite u3. change (s_map (erase_tag s4 t tag None)) with (map_erase tag (s_map s4)).
      rewrite map_erase_In, M4, in_app_iff. intros [[H|[H|[]]] N]; [exact H|]. inversion H; congruence.
    - rewrite u6. exact T4.
    - rewrite u4. exact R4.
    - rewrite u5. exact A4.
    - rewrite u7. exact F4. }
  set (s5 := upd_ctx s4 t (cset_phase (s_ctx s4 t) ISSUED)).
  assert (C5 : s_ctx s5 t = cset_phase cn ISSUED).
  { unfold s5. rewrite ctx_upd_ctx, Nat.eqb_refl, C4, Nat.eqb_refl. reflexivity. }
  assert (M5 : s_map s5 = s_map s ++ [(tag, t)]) by exact M4.
  rewrite C5. cbn [c_tag cset_phase c_phase cn].
  destruct (map_find tag (s_map s5)) eqn:F5.
  2:{ exfalso. rewrite M5 in F5. eapply map_find_app; eauto. }
  eapply Inv_call_ok with (t := t) (dl := dl) (cn := cset_phase cn ISSUED); [exact I|exact Out|..].
  - intros x. rewrite pcof_set_pc. destruct (Nat.eqb x t); [reflexivity|]. change (pcof s4 x = pcof s x). apply P4.
  - intros x. change (s_ctx (set_pc s5 t (PWaitLoop dl)) x) with (s_ctx s5 x). unfold s5.
    rewrite ctx_upd_ctx. rewrite !C4, Nat.eqb_refl. destruct (Nat.eqb x t); reflexivity.
  - reflexivity.
  - reflexivity.
  - reflexivity.
  - reflexivity.
  - reflexivity.
  - reflexivity.
  - exact M5.
  - exact T4.
  - exact R4.
  - exact A4.
  - exact F4.
Qed.

Lemma phase_eqb_true a b : phase_eqb a b = true -> a = b.
Proof. destruct a, b; cbn; congruence. Qed.

Lemma reader_no_other_adopter s t o : Inv s -> reader_otag (pcof s t) = Some o ->
  forall x, x <> t -> adopted_by (pcof s x) = None.
Proof.
  intros I R x N. destruct (adopted_by (pcof s x)) eqn:E; auto. exfalso. apply N.
  eapply reader_unique; eauto. eapply adopted_is_reader; eauto. unfold is_reader. rewrite R. reflexivity.
Qed.

(* the reader returns (its own context is not in the map any more) *)
Lemma Inv_reader_ret s t otag r :
  Inv s -> reader_otag (pcof s t) = Some otag -> (forall k, ~ In (k, t) (s_map s)) ->
  Inv (ret_call s t r true true).
Proof.
  intros I R M. apply Inv_ret; auto.
  - unfold inside, is_reader. rewrite R. apply orb_true_r.
  - intros u N. rewrite (reader_no_other_adopter s t otag I R u N). discriminate.
  - unfold is_reader. rewrite R. reflexivity.
Qed.

Lemma Inv_hdr_fail s t otag : Inv s -> reader_otag (pcof s t) = Some otag -> Inv (hdr_fail s t otag).
Proof.
  intros I R. unfold hdr_fail. eapply Inv_reader_ret with (otag := otag).
  - apply erase_keeps_Inv. exact I.
  - exact R.
  - intros k H. cbn in H. apply map_erase_In in H. destruct H as [H N].
    destruct (i_map _ I _ _ H) as (_ & b & _). destruct (i_otag _ I _ _ R) as [E _]. congruence.
Qed.

Lemma Inv_set_own_tag s t otag g :
  Inv s -> reader_otag (pcof s t) = Some otag -> adopted_by (pcof s t) = None ->
  Inv (upd_ctx s t (cset_tag (s_ctx s t) g)).
Proof.
  intros I R A. apply Inv_ctx_upd; auto.
  right. split.
  - destruct (pcof s t); cbn in *; congruence.
  - intros x. destruct (Nat.eq_dec x t) as [->|N]; [exact A|]. eapply reader_no_other_adopter; eauto.
Qed.

Lemma Inv_hdr_short s t otag ret :
  Inv s -> reader_otag (pcof s t) = Some otag -> adopted_by (pcof s t) = None -> Inv (hdr_short s t otag ret).
Proof.
  intros I R A. unfold hdr_short.
  match goal with |- context [set_stmo (add_trace s ?e) MAX64] => set (s1 := set_stmo (add_trace s e) MAX64) end.
  assert (I1 : Inv s1).
  { eapply Inv_view; [|exact I]. eapply same_view_trans; [apply sv_add_trace|apply sv_set_stmo]. }
  assert (I2 : Inv (upd_ctx s1 t (cset_tag (s_ctx s1 t) (hdr_tag (s_hdr s1))))).
  { eapply Inv_set_own_tag; eauto. }
  apply Inv_hdr_fail.
  - eapply Inv_view; [|exact I2]. eapply same_view_trans; [apply sv_shutdown|apply sv_set_errno].
  - exact R.
Qed.

Lemma Inv_body_end s t otag targ size rd :
  Inv s -> reader_otag (pcof s t) = Some otag -> inside (pcof s targ) = true ->
  (forall k, ~ In (k, targ) (s_map s)) -> c_tag (s_ctx s t) = c_tag0 (s_ctx s targ) ->
  Inv (body_end s t otag targ size rd).
Proof.
  intros I R Tin Tmap Ttag. unfold body_end.
  match goal with |- context [set_stmo (add_trace s ?e) MAX64] => set (s1 := set_stmo (add_trace s e) MAX64) end.
  assert (V1 : same_view s s1) by (eapply same_view_trans; [apply sv_add_trace|apply sv_set_stmo]).
  set (p := if rd =? Z.of_nat size then (s1, rd) else (set_errno (stream_shutdown s1 t) ECONNRESET, -1)).
  assert (V2 : same_view s (fst p)).
  { unfold p. destruct (rd =? Z.of_nat size); cbn [fst]; [exact V1|].
    eapply same_view_trans; [exact V1|]. eapply same_view_trans; [apply sv_shutdown|apply sv_set_errno]. }
  destruct p as [s2 r]. cbn [fst] in V2.
  assert (I2 : Inv s2) by (eapply Inv_view; eauto).
  destruct V2 as [v1 v2 v3 v4 v5 v6 v7 v8].
  assert (L2 : c_live (s_ctx s2 targ) = true) by (rewrite (i_live _ I2), v1; exact Tin).
  set (s3 := add_acc s2 t targ AkRet).
  assert (I3 : Inv s3) by (apply Inv_add_acc; auto).
  set (s4 := upd_ctx s3 targ (cset_ret (s_ctx s3 targ) r)).
  assert (I4 : Inv s4) by (apply Inv_ctx_upd; auto).
  assert (C4 : forall x, s_ctx s4 x = if Nat.eqb x targ then cset_ret (s_ctx s targ) r else s_ctx s x).
  { intros x. unfold s4. rewrite ctx_upd_ctx. change (s_ctx s3) with (s_ctx s2). rewrite !v2. reflexivity. }
  assert (Th : c_th (s_ctx s4 targ) = Some targ).
  { rewrite C4, Nat.eqb_refl. cbn. destruct (i_ctx _ I _ Tin) as (_ & b & _). exact b. }
  rewrite Th.
  set (s5 := add_acc s4 t targ AkPhase).
  assert (L4 : c_live (s_ctx s4 targ) = true) by (rewrite C4, Nat.eqb_refl; cbn; rewrite <- v2; exact L2).
  assert (I5 : Inv s5) by (apply Inv_add_acc; auto).
  set (s6 := upd_ctx s5 targ (cset_phase (s_ctx s5 targ) COLLECTED)).
  assert (P5 : forall x, pcof s5 x = pcof s x) by (intros x; rewrite <- v1; reflexivity).
  assert (M5 : s_map s5 = s_map s) by (rewrite <- v3; reflexivity).
  assert (C6t : c_tag (s_ctx s6 t) = c_tag (s_ctx s t)).
  { unfold s6. rewrite ctx_upd_ctx. change (s_ctx s5) with (s_ctx s4). rewrite !C4, Nat.eqb_refl.
    destruct (Nat.eqb t targ) eqn:Eb; [|reflexivity]. apply Nat.eqb_eq in Eb. subst. reflexivity. }
  destruct (i_otag _ I _ _ R) as [Eo _].
  destruct (i_ctx _ I _ Tin) as (Tm & _ & _).
  assert (Rin : inside (pcof s t) = true) by (unfold inside, is_reader; rewrite R; apply orb_true_r).
  destruct (i_ctx _ I _ Rin) as (Rm & _ & _).
  rewrite C6t.
  destruct (Z.eqb_spec otag (c_tag (s_ctx s t))) as [E|E].
  - (* my own response *)
    assert (targ = t).
    { apply (i_inj _ I); auto. congruence. }
    subst targ. rewrite Nat.eqb_refl.
    eapply Inv_reader_ret with (otag := otag).
    + unfold s6. apply Inv_ctx_upd; auto. right. split; [cbn; discriminate|]. intros _. split.
      * intros k. rewrite M5. apply Tmap.
      * intros x N. rewrite P5. rewrite (reader_no_other_adopter s t otag I R x N). discriminate.
    + change (pcof s6 t) with (pcof s5 t). rewrite P5. exact R.
    + intros k. change (s_map s6) with (s_map s5). rewrite M5. apply Tmap.
  - assert (N : targ <> t) by (intros ->; congruence).
    eapply Inv_collect_other with (s := s5) (t := t) (otag := otag) (targ := targ)
                                  (c' := cset_phase (s_ctx s5 targ) COLLECTED); auto.
    + rewrite P5. exact R.
    + intros k. rewrite M5. apply Tmap.
    + intros x. rewrite pcof_set_pc. destruct (Nat.eqb x t); [reflexivity|].
      rewrite (sv_pc _ _ (sv_interrupt s6 targ EINTR)). reflexivity.
    + intros x. change (s_ctx (set_pc (interrupt s6 targ EINTR) t (PReaderLoop otag)) x) with (s_ctx (interrupt s6 targ EINTR) x).
      rewrite (sv_ctx _ _ (sv_interrupt s6 targ EINTR)). unfold s6. rewrite ctx_upd_ctx. reflexivity.
    + change (s_map (set_pc (interrupt s6 targ EINTR) t (PReaderLoop otag))) with (s_map (interrupt s6 targ EINTR)).
      rewrite (sv_map _ _ (sv_interrupt s6 targ EINTR)). reflexivity.
    + change (s_rlock (set_pc (interrupt s6 targ EINTR) t (PReaderLoop otag))) with (s_rlock (interrupt s6 targ EINTR)).
      rewrite (sv_rlock _ _ (sv_interrupt s6 targ EINTR)). reflexivity.
    + change (s_acc (set_pc (interrupt s6 targ EINTR) t (PReaderLoop otag))) with (s_acc (interrupt s6 targ EINTR)).
      rewrite (sv_acc _ _ (sv_interrupt s6 targ EINTR)). reflexivity.
    + change (s_mtag (set_pc (interrupt s6 targ EINTR) t (PReaderLoop otag))) with (s_mtag (interrupt s6 targ EINTR)).
      rewrite (sv_mtag _ _ (sv_interrupt s6 targ EINTR)). reflexivity.
    + change (s_fix (set_pc (interrupt s6 targ EINTR) t (PReaderLoop otag))) with (s_fix (interrupt s6 targ EINTR)).
      rewrite (sv_fix _ _ (sv_interrupt s6 targ EINTR)). reflexivity.
Qed.

Lemma Inv_hdr_complete s t otag :
  Inv s -> reader_otag (pcof s t) = Some otag -> adopted_by (pcof s t) = None -> Inv (hdr_complete s t otag).
Proof.
  intros I R A. unfold hdr_complete.
  match goal with |- context [set_stmo (add_trace s ?e) MAX64] => set (s1 := set_stmo (add_trace s e) MAX64) end.
  assert (V1 : same_view s s1) by (eapply same_view_trans; [apply sv_add_trace|apply sv_set_stmo]).
  assert (I1 : Inv s1) by (eapply Inv_view; eauto).
  assert (R1 : reader_otag (pcof s1 t) = Some otag) by (rewrite (sv_pc _ _ V1); exact R).
  assert (A1 : adopted_by (pcof s1 t) = None) by (rewrite (sv_pc _ _ V1); exact A).
  set (g := hdr_tag (s_hdr s1)).
  set (s2 := upd_ctx s1 t (cset_tag (s_ctx s1 t) g)).
  assert (I2 : Inv s2) by (eapply Inv_set_own_tag; eauto).
  assert (R2 : reader_otag (pcof s2 t) = Some otag) by exact R1.
  assert (A2 : adopted_by (pcof s2 t) = None) by exact A1.
  destruct (negb ((hdr_magic (s_hdr s1) =? MAGIC) && (hdr_version (s_hdr s1) =? VERSION))).
  { apply Inv_hdr_fail; [|exact R2].
    eapply Inv_view; [|exact I2]. eapply same_view_trans; [apply sv_shutdown|apply sv_set_errno]. }
  destruct (map_find g (s_map s2)) as [targ|] eqn:F.
  2:{ (* unknown tag *)
      eapply Inv_reader_ret with (otag := otag).
      - eapply Inv_view; [apply sv_set_errno|]. apply erase_keeps_Inv. exact I2.
      - exact R2.
      - intros k H. cbn in H. apply map_erase_In in H. destruct H as [H N].
        destruct (i_map _ I2 _ _ H) as (_ & b & _). destruct (i_otag _ I2 _ _ R2) as [E _]. congruence. }
  apply map_find_In in F.
  destruct (i_map _ I2 _ _ F) as (Tin & Tt0 & Tph).
  set (s3 := erase_tag s2 t g (Some targ)).
  assert (I3 : Inv s3) by (apply erase_keeps_Inv; exact I2).
  assert (L3 : c_live (s_ctx s3 targ) = true) by (change (s_ctx s3) with (s_ctx s2); rewrite (i_live _ I2); exact Tin).
  set (s4 := add_acc s3 t targ AkAdopt).
  assert (I4 : Inv s4) by (apply Inv_add_acc; auto).
  set (s5 := upd_ctx s4 targ (cset_hoff (cset_buf (s_ctx s4 targ) []) (length (s_consumed s4)))).
  assert (I5 : Inv s5) by (apply Inv_ctx_upd; auto).
  match goal with |- context [set_stmo s5 ?v] => set (s6 := set_stmo s5 v) end.
  assert (I6 : Inv s6) by (eapply Inv_view; [apply sv_set_stmo|exact I5]).
  assert (P6 : forall x, pcof s6 x = pcof s2 x) by reflexivity.
  assert (M6 : forall k, ~ In (k, targ) (s_map s6)).
  { intros k H. change (s_map s6) with (map_erase g (s_map s2)) in H. apply map_erase_In in H. destruct H as [H N].
    destruct (i_map _ I2 _ _ H) as (_ & b & _). congruence. }
  assert (C6 : forall x, s_ctx s6 x = if Nat.eqb x targ then cset_hoff (cset_buf (s_ctx s2 targ) []) (length (s_consumed s4)) else s_ctx s2 x).
  { intros x. change (s_ctx s6 x) with (s_ctx s5 x). unfold s5. rewrite ctx_upd_ctx. reflexivity. }
  assert (T6 : c_tag (s_ctx s6 t) = c_tag0 (s_ctx s6 targ)).
  { assert (X : c_tag (s_ctx s2 t) = g) by (unfold s2; rewrite ctx_upd_ctx, Nat.eqb_refl; reflexivity).
    rewrite !C6, Nat.eqb_refl.
    destruct (Nat.eqb t targ) eqn:Eb.
    - apply Nat.eqb_eq in Eb. subst targ. change (c_tag (s_ctx s2 t) = c_tag0 (s_ctx s2 t)). congruence.
    - change (c_tag (s_ctx s2 t) = c_tag0 (s_ctx s2 targ)). congruence. }
  assert (Ph6 : c_phase (s_ctx s6 targ) <> COLLECTED) by (rewrite C6, Nat.eqb_refl; exact Tph).
  assert (In6 : inside (pcof s6 targ) = true) by (rewrite P6; exact Tin).
  destruct (Z.to_nat (hdr_size (s_hdr s1))) as [|n] eqn:Sz.
  { apply Inv_body_end; auto. }
  destruct (s_shut s6).
  { apply Inv_body_end; auto. }
  refine (Inv_start_body s6 _ t otag targ _ I6 (pc_upd_set_pc _ _ _) _ _ _ In6 M6 T6 Ph6).
  - rewrite P6. exact R2.
  - reflexivity.
  - reflexivity.
Qed.

Lemma Inv_step_hdrread s t otag got dl :
  Inv s -> pcof s t = PHdrRead otag got dl -> Inv (step_hdrread s t otag got dl).
Proof.
  intros I P. unfold step_hdrread.
  destruct (stake (s_now s) (HDRLEN - got) (s_script s)) as [g sc'].
  set (s0 := set_consumed (set_script (set_hdr s (overwrite (s_hdr s) got g)) sc') (s_consumed s ++ g)).
  assert (V0 : same_view s s0).
  { eapply same_view_trans; [apply sv_set_hdr|]. eapply same_view_trans; [apply sv_set_script|apply sv_set_consumed]. }
  assert (I0 : Inv s0) by (eapply Inv_view; eauto).
  set (s1 := set_pc s0 t (PHdrRead otag (got + length g) dl)).
  assert (I1 : Inv s1).
  { eapply Inv_pc_same_class; [exact I0|apply pc_upd_set_pc|..]; rewrite (sv_pc _ _ V0), P; reflexivity. }
  assert (P1 : pcof s1 t = PHdrRead otag (got + length g) dl) by (unfold s1; rewrite pcof_set_pc, Nat.eqb_refl; reflexivity).
  assert (R1 : reader_otag (pcof s1 t) = Some otag) by (rewrite P1; reflexivity).
  assert (A1 : adopted_by (pcof s1 t) = None) by (rewrite P1; reflexivity).
  destruct (read_status (s_now s) dl (HDRLEN - (got + length g)) sc').
  - apply Inv_hdr_complete; auto.
  - apply Inv_hdr_short; auto.
  - apply Inv_hdr_short; auto.
    + eapply Inv_view; [apply sv_set_errno|exact I1].
  - eapply Inv_pc_same_class; [exact I1|apply pc_upd_sleep|..]; rewrite P1; reflexivity.
Qed.

Lemma Inv_step_bodyread s t otag targ size need dl :
  Inv s -> pcof s t = PBodyRead otag targ size need dl -> Inv (step_bodyread s t otag targ size need dl).
Proof.
  intros I P. unfold step_bodyread.
  assert (Ad : adopted_by (pcof s t) = Some targ) by (rewrite P; reflexivity).
  assert (R : reader_otag (pcof s t) = Some otag) by (rewrite P; reflexivity).
  destruct (i_adopt _ I _ _ Ad) as (Tin & Tmap & Ttag & _).
  destruct (stake (s_now s) need (s_script s)) as [g sc'].
  set (s1 := set_consumed (set_script s sc') (s_consumed s ++ g)).
  assert (V1 : same_view s s1) by (eapply same_view_trans; [apply sv_set_script|apply sv_set_consumed]).
  assert (I1 : Inv s1) by (eapply Inv_view; eauto).
  match goal with |- context [match g with [] => s1 | _ :: _ => ?e end] => set (s2 := match g with [] => s1 | _ :: _ => e end) end.
  assert (H2 : Inv s2 /\ (forall x, pcof s2 x = pcof s x) /\ s_map s2 = s_map s /\
               c_tag (s_ctx s2 t) = c_tag (s_ctx s t) /\ c_tag0 (s_ctx s2 targ) = c_tag0 (s_ctx s targ)).
  { unfold s2. destruct g as [|b g'].
    - split; [exact I1|]. split; [reflexivity|]. split; [reflexivity|]. split; reflexivity.
    - split.
      + apply Inv_ctx_upd; auto.
        eapply Inv_view; [apply sv_add_trace|]. apply Inv_add_acc; auto.
        change (s_ctx s1) with (s_ctx s). rewrite (i_live _ I). exact Tin.
      + split; [reflexivity|]. split; [reflexivity|]. split.
        * rewrite ctx_upd_ctx. destruct (Nat.eqb t targ) eqn:Eb; [|reflexivity].
          apply Nat.eqb_eq in Eb. subst. reflexivity.
        * rewrite ctx_upd_ctx, Nat.eqb_refl. reflexivity. }
  destruct H2 as (I2 & P2 & M2 & T2 & T02).
  set (s3 := set_pc s2 t (PBodyRead otag targ size (need - length g) dl)).
  assert (I3 : Inv s3).
  { eapply Inv_pc_same_class; [exact I2|apply pc_upd_set_pc|..]; rewrite P2, P; reflexivity. }
  assert (P3 : forall x, pcof s3 x = if Nat.eqb x t then PBodyRead otag targ size (need - length g) dl else pcof s x).
  { intros x. unfold s3. rewrite pcof_set_pc, P2. reflexivity. }
  assert (R3 : reader_otag (pcof s3 t) = Some otag) by (rewrite P3, Nat.eqb_refl; reflexivity).
  assert (In3 : inside (pcof s3 targ) = true).
  { rewrite P3. destruct (Nat.eqb targ t); [reflexivity|exact Tin]. }
  assert (Mp3 : forall k, ~ In (k, targ) (s_map s3)) by (intros k; change (s_map s3) with (s_map s2); rewrite M2; apply Tmap).
  assert (Tg3 : c_tag (s_ctx s3 t) = c_tag0 (s_ctx s3 targ)) by (change (s_ctx s3) with (s_ctx s2); congruence).
  destruct (read_status (s_now s) dl (need - length g) sc').
  - apply Inv_body_end; auto.
  - apply Inv_body_end; auto.
  - apply Inv_body_end; auto.
    eapply Inv_view; [apply sv_set_errno|exact I3].
  - eapply Inv_pc_same_class; [exact I3|apply pc_upd_sleep|..]; rewrite P3, Nat.eqb_refl; reflexivity.
Qed.

Lemma Inv_step_readerloop s t otag :
  Inv s -> pcof s t = PReaderLoop otag -> Inv (step_readerloop s t otag).
Proof.
  intros I P. unfold step_readerloop.
  set (s1 := set_hdr s (repeat 0 8 ++ skipn 8 (s_hdr s))).
  assert (I1 : Inv s1) by (eapply Inv_view; [apply sv_set_hdr|exact I]).
  assert (R1 : reader_otag (pcof s1 t) = Some otag) by (change (pcof s1 t) with (pcof s t); rewrite P; reflexivity).
  assert (A1 : adopted_by (pcof s1 t) = None) by (change (pcof s1 t) with (pcof s t); rewrite P; reflexivity).
  destruct (c_dl (s_ctx s t) <? s_now s).
  { apply Inv_hdr_fail; auto. eapply Inv_view; [apply sv_set_errno|exact I1]. }
  match goal with |- context [set_stmo s1 ?v] => set (s2 := set_stmo s1 v) end.
  assert (I2 : Inv s2) by (eapply Inv_view; [apply sv_set_stmo|exact I1]).
  destruct (s_shut s2).
  { apply Inv_hdr_short; auto. }
  eapply Inv_pc_same_class; [exact I2|apply pc_upd_set_pc|..]; change (pcof s2 t) with (pcof s t); rewrite P; reflexivity.
Qed.

Lemma follower_not_in_map_if_collected s t :
  Inv s -> c_phase (s_ctx s t) = COLLECTED ->
  (forall k, ~ In (k, t) (s_map s)) /\ (forall u, u <> t -> adopted_by (pcof s u) <> Some t).
Proof.
  intros I Ph. split.
  - intros k H. destruct (i_map _ I _ _ H) as (_ & _ & c). contradiction.
  - intros u N H. destruct (i_adopt _ I _ _ H) as (_ & _ & _ & d). destruct (d (not_eq_sym N)) as [_ d2]. contradiction.
Qed.

Lemma Inv_step_waitloop s t tmo :
  Inv s -> pcof s t = PWaitLoop tmo -> Inv (step_waitloop s t tmo).
Proof.
  intros I P. unfold step_waitloop.
  assert (Tin : inside (pcof s t) = true) by (rewrite P; reflexivity).
  assert (Fo : is_follower (pcof s t) = true) by (rewrite P; reflexivity).
  destruct (i_ctx _ I _ Tin) as (Tm & Th & Tp).
  assert (Park : forall s1, Inv s1 -> (forall x, pcof s1 x = pcof s x) -> s_rlock s1 = s_rlock s ->
                 Inv (match s_rlock s1 with
                      | None => set_pc (set_rlock s1 (Some t)) t (PReaderLoop (c_tag (s_ctx s1 t)))
                      | Some _ => sleep (set_waitq s1 (s_waitq s1 ++ [t])) t tmo (PParked tmo)
                      end)).
  { intros s1 I1 P1 R1. destruct (s_rlock s1) eqn:RL.
    - eapply Inv_pc_same_class; [eapply Inv_view; [apply sv_set_waitq|exact I1]|apply pc_upd_sleep|..];
        change (pcof (set_waitq s1 (s_waitq s1 ++ [t])) t) with (pcof s1 t); rewrite P1, P; reflexivity.
    - apply Inv_become_reader; auto. rewrite P1. exact Fo. }
  destruct (c_phase (s_ctx s t)) eqn:Ph.
  - contradiction.
  - apply Park.
    + apply Inv_ctx_upd; auto.
      right. split; [cbn; discriminate|]. cbn. discriminate.
    + reflexivity.
    + reflexivity.
  - apply Park; auto.
  - rewrite Th, Nat.eqb_refl.
    destruct (follower_not_in_map_if_collected s t I Ph) as [A B].
    apply Inv_ret; auto. rewrite P. reflexivity.
Qed.

Lemma Inv_step_parked s t tmo :
  Inv s -> pcof s t = PParked tmo -> Inv (step_parked s t tmo).
Proof.
  intros I P. unfold step_parked.
  pose proof (sv_cvwait_ret s t) as V. destruct (cvwait_ret s t) as [s1 r]. cbn [fst] in V.
  assert (I1 : Inv s1) by (eapply Inv_view; eauto).
  assert (P1 : pcof s1 t = PParked tmo) by (rewrite (sv_pc _ _ V); exact P).
  assert (Tin : inside (pcof s1 t) = true) by (rewrite P1; reflexivity).
  assert (Fo : is_follower (pcof s1 t) = true) by (rewrite P1; reflexivity).
  destruct (i_ctx _ I1 _ Tin) as (Tm & Th & Tp).
  rewrite Th, Nat.eqb_refl, andb_true_r.
  destruct (phase_eqb (c_phase (s_ctx s1 t)) COLLECTED) eqn:Pe.
  { apply phase_eqb_true in Pe. destruct (follower_not_in_map_if_collected s1 t I1 Pe) as [A B].
    apply Inv_ret; auto. rewrite P1. reflexivity. }
  destruct (r =? -1).
  2:{ eapply Inv_pc_same_class; [exact I1|apply pc_upd_set_pc|..]; rewrite P1; reflexivity. }
  rewrite (i_fix _ I). cbn [andb].
  set (s2 := erase_tag s1 t (c_tag (s_ctx s1 t)) None).
  assert (I2 : Inv s2) by (apply erase_keeps_Inv; exact I1).
  destruct (map_mem (c_tag (s_ctx s1 t)) (s_map s1)) eqn:Er; cbn [negb].
  - (* really timed out: the tag was still registered, so nobody has adopted the context *)
    unfold map_mem in Er. destruct (map_find (c_tag (s_ctx s1 t)) (s_map s1)) as [c'|] eqn:F; [|discriminate].
    apply map_find_In in F. destruct (i_map _ I1 _ _ F) as (Cin & Ct0 & _).
    destruct (i_ctx _ I1 _ Cin) as (Cm & _ & _).
    assert (c' = t).
    { apply (i_inj _ I1); auto. rewrite Ct0. apply (i_ftag _ I1). exact Fo. }
    subst c'.
    apply Inv_ret.
    + eapply Inv_view; [apply sv_set_errno|exact I2].
    + exact Tin.
    + intros k H. cbn in H. apply map_erase_In in H. destruct H as [H N].
      destruct (i_map _ I1 _ _ H) as (_ & b & _). apply N. rewrite <- b. symmetry. apply (i_ftag _ I1). exact Fo.
    + intros u N H. change (pcof (set_errno s2 ETIMEDOUT) u) with (pcof s1 u) in H.
      destruct (i_adopt _ I1 _ _ H) as (_ & b & _). eapply b; eauto.
    + change (pcof (set_errno s2 ETIMEDOUT) t) with (pcof s1 t). rewrite P1. reflexivity.
  - (* the fix: the reader has adopted the context — keep waiting *)
    eapply Inv_pc_same_class; [exact I2|apply pc_upd_set_pc|..]; change (pcof s2 t) with (pcof s1 t); rewrite P1; reflexivity.
Qed.

(* ---- the transition system ---------------------------------------------------------------------------- *)
Lemma Inv_micro s t : Inv s -> Inv (micro s t).
Proof.
  intros I. unfold micro.
  destruct (t_pc (s_thr s t)) eqn:E; change (t_pc (s_thr s t)) with (pcof s t) in E.
  - destruct (0 <? k_start (nth t (s_calls s) dummy_call)).
    + eapply Inv_outside_move with (s0 := s); [exact I|apply same_view_refl|apply pc_upd_sleep|rewrite E; reflexivity|reflexivity|rewrite E; reflexivity].
    + eapply Inv_outside_move with (s0 := s); [exact I|apply same_view_refl|apply pc_upd_set_pc|rewrite E; reflexivity|reflexivity|rewrite E; reflexivity].
  - eapply Inv_outside_move with (s0 := s); [exact I|apply sv_usleep_ret|apply pc_upd_set_pc|rewrite E; reflexivity|reflexivity|rewrite E; reflexivity].
  - apply Inv_step_call; auto.
  - apply Inv_step_waitloop; auto.
  - apply Inv_step_parked; auto.
  - apply Inv_step_readerloop; auto.
  - apply Inv_step_hdrread; auto.
  - eapply Inv_pc_same_class; [eapply Inv_view; [apply sv_usleep_ret|exact I]|apply pc_upd_set_pc|..];
      rewrite (sv_pc _ _ (sv_usleep_ret s t)), E; reflexivity.
  - apply Inv_step_bodyread; auto.
  - eapply Inv_pc_same_class; [eapply Inv_view; [apply sv_usleep_ret|exact I]|apply pc_upd_set_pc|..];
      rewrite (sv_pc _ _ (sv_usleep_ret s t)), E; reflexivity.
  - unfold park. eapply Inv_outside_move with (s0 := s); [exact I|apply sv_usleep_ret|apply pc_upd_sleep|rewrite E; reflexivity|reflexivity|rewrite E; reflexivity].
Qed.

Lemma Inv_step s e s' : Inv s -> step s e = Some s' -> Inv s'.
Proof.
  intros I. destruct e as [t|t|d|]; unfold step.
  - destruct (Nat.ltb t (nthreads s)); [|intros H; discriminate H].
    destruct (t_stat (s_thr s t)); [|intros H; discriminate H].
    intros H; inversion H; subst. apply Inv_micro; auto.
  - destruct (Nat.ltb t (nthreads s)); [|intros H; discriminate H].
    destruct (t_stat (s_thr s t)); [intros H; discriminate H|].
    destruct (dl <=? s_now s); [|intros H; discriminate H]. intros H; inversion H; subst.
    eapply Inv_view; [|exact I]. constructor; try reflexivity.
    intros x. unfold pcof. cbn. unfold updn. destruct (Nat.eqb_spec x t); subst; reflexivity.
  - destruct (0 <=? d); [|intros H; discriminate H]. intros H; inversion H; subst.
    eapply Inv_view; [apply sv_set_now|exact I].
  - intros H; inversion H; subst. eapply Inv_view; [|exact I]. constructor; reflexivity.
Qed.

Lemma Inv_init calls script : Inv (init true calls script).
Proof.
  constructor; cbn; try reflexivity; try discriminate; try contradiction; auto.
Qed.

Lemma Inv_run s es s' : Inv s -> run_events s es = Some s' -> Inv s'.
Proof.
  revert s. induction es as [|e r IH]; cbn; intros s I H.
  - inversion H; subst; auto.
  - destruct (step s e) eqn:E; [|discriminate]. eapply IH; [|exact H]. eapply Inv_step; eauto.
Qed.

(* the property, for the code with the fix: whatever the program, the peer's script and the schedule,
   every access to a context (or its buffers) by a thread other than its owner names a LIVE context *)
Lemma no_access_after_return_all :
  forall calls script es s,
    run_events (init true calls script) es = Some s ->
    forall a, In a (s_acc s) -> a_live a = true.
Proof.
  intros calls script es s H. apply (i_acc s). eapply Inv_run; [apply Inv_init|exact H].
Qed.

(* ... and every context still registered in the map, or being collected by the reader, is live *)
Lemma registered_contexts_live :
  forall calls script es s,
    run_events (init true calls script) es = Some s ->
    (forall g c, In (g, c) (s_map s) -> c_live (s_ctx s c) = true) /\
    (forall t g, adopted_by (pcof s t) = Some g -> c_live (s_ctx s g) = true).
Proof.
  intros calls script es s H.
  assert (I : Inv s) by (eapply Inv_run; [apply Inv_init|exact H]).
  split.
  - intros g c K. rewrite (i_live _ I). apply (i_map _ I _ _ K).
  - intros t g K. rewrite (i_live _ I). apply (i_adopt _ I _ _ K).
Qed.

(* ---- the cooperative run only takes steps of the transition system -------------------------------------- *)
Definition d_ok (s0 : state) (d : dstate) : Prop := run_events s0 (rev (d_evs d)) = Some (d_st d).

Lemma run_events_app s es1 es2 :
  run_events s (es1 ++ es2) = match run_events s es1 with Some s1 => run_events s1 es2 | None => None end.
Proof.
  revert s. induction es1 as [|e r IH]; cbn; intros s; [reflexivity|].
  destruct (step s e); [apply IH|reflexivity].
Qed.

Lemma d_ok_apply s0 d e : d_ok s0 d -> d_ok s0 (d_apply d e).
Proof.
  unfold d_ok, d_apply. intros H. destruct (step (d_st d) e) eqn:E; cbn; [|exact H].
  rewrite run_events_app, H. cbn. rewrite E. reflexivity.
Qed.

Lemma d_ok_wake_list s0 l : forall d, d_ok s0 d -> d_ok s0 (d_wake_list d l).
Proof. induction l as [|w r IH]; cbn [d_wake_list]; intros d H; [exact H|]. apply IH. exact H. Qed.

Lemma d_ok_run_thread s0 fuel t : forall d, d_ok s0 d -> d_ok s0 (d_run_thread fuel d t).
Proof.
  induction fuel as [|f IH]; cbn [d_run_thread]; intros d H; [exact H|].
  destruct (t_stat (s_thr (d_st d) t)).
  - apply IH. apply d_ok_apply. exact H.
  - pose proof (d_ok_wake_list s0 (s_woken (d_st d)) _ (d_ok_apply s0 d EvAck H)) as K. exact K.
Qed.

Lemma d_ok_resume s0 fuel : forall d, d_ok s0 d -> d_ok s0 (d_resume fuel d).
Proof.
  induction fuel as [|f IH]; cbn [d_resume]; intros d H; [exact H|].
  destruct (front (d_heap d)) as [[|t]|]; try exact H.
  destruct (d_ts d (S t) <=? s_now (d_st d)); [|exact H].
  apply IH. apply d_ok_apply. exact H.
Qed.

Lemma d_ok_drive s0 tfuel fuel : forall d, d_ok s0 d -> d_ok s0 (drive tfuel fuel d).
Proof.
  induction fuel as [|f IH]; cbn [drive]; intros d H; [exact H|].
  destruct (d_ring d) as [|[|t] rest]; [exact H| |].
  - pose proof (d_ok_resume s0 (S (length (hq (d_heap d)))) d H) as K.
    set (d1 := d_resume (S (length (hq (d_heap d)))) d) in *.
    assert (Idle : d_ok s0 (match front (d_heap d1) with
                            | None => d1
                            | Some x => if d_ts d1 x =? MAX64 then d1
                                        else drive tfuel f (d_apply d1 (EvTick (Z.min IDLE_MAX (sat_sub (d_ts d1 x) (s_now (d_st d1))))))
                            end)).
    { destruct (front (d_heap d1)); [|exact K]. destruct (d_ts d1 t =? MAX64); [exact K|].
      apply IH. apply d_ok_apply. exact K. }
    destruct (d_ring d1) as [|[|t1] [|r2 rest2]]; try exact Idle.
    apply IH. exact K.
  - apply IH. apply d_ok_run_thread. exact H.
Qed.

Lemma drive_reachable fix_ calls script tfuel fuel :
  let d := run_case fix_ calls script tfuel fuel in
  run_events (init fix_ calls script) (rev (d_evs d)) = Some (d_st d).
Proof.
  cbv zeta. unfold run_case. apply d_ok_drive. unfold d_ok, d_init. cbn. reflexivity.
Qed.

(* hence the run that is compared with the real stub satisfies the property too *)
Lemma coop_no_access_after_return calls script tfuel fuel :
  forall a, In a (s_acc (d_st (run_case true calls script tfuel fuel))) -> a_live a = true.
Proof.
  eapply no_access_after_return_all. apply drive_reachable.
Qed.

(* the model's only `left the domain` branch (s_bad: `goto again` after a failed insert of an automatic tag,
   out-of-order-execution.cpp 82-90) is dead: in every reachable state the next automatic tag is not in the map *)
Lemma auto_tag_fresh_all :
  forall calls script es s,
    run_events (init true calls script) es = Some s -> map_find (s_mtag s + 1) (s_map s) = None.
Proof.
  intros calls script es s H.
  assert (I : Inv s) by (eapply Inv_run; [apply Inv_init|exact H]).
  destruct (map_find (s_mtag s + 1) (s_map s)) as [c|] eqn:F; [|reflexivity].
  exfalso. apply map_find_In in F. destruct (i_map _ I _ _ F) as (a & b & _).
  destruct (i_ctx _ I _ a) as (m & _). pose proof (i_tag0 _ I _ m). lia.
Qed.
