(* C11_ProofsSafety.v — the inductive invariant of the FIXED protocol (s_fix = true) and
   `no access after return` for every schedule of the transition system `step`. *)
From Coq Require Import ZArith List Bool Arith Lia.
From PV Require Import Base.U64 C04.C04_Heap C11.C11_Model.
Import ListNotations.
Local Open Scope Z_scope.

(* ---- the part of the state the invariant talks about ------------------------------------------ *)
Definition pcof (s : state) (t : tid) : pc := t_pc (s_thr s t).

Definition is_follower (p : pc) : bool :=
  match p with PWaitLoop _ | PParked _ => true | _ => false end.
Definition reader_otag (p : pc) : option Z :=
  match p with
  | PReaderLoop o | PHdrRead o _ _ | PHdrSleep o _ _ | PBodyRead o _ _ _ _ | PBodySleep o _ _ _ _ => Some o
  | _ => None
  end.
Definition is_reader (p : pc) : bool := match reader_otag p with Some _ => true | None => false end.
Definition inside (p : pc) : bool := is_follower p || is_reader p.
Definition adopted_by (p : pc) : option tid :=
  match p with PBodyRead _ g _ _ _ | PBodySleep _ g _ _ _ => Some g | _ => None end.

Record same_view (s s' : state) : Prop := {
  sv_pc : forall t, pcof s' t = pcof s t;
  sv_ctx : forall t, s_ctx s' t = s_ctx s t;
  sv_map : s_map s' = s_map s;
  sv_rlock : s_rlock s' = s_rlock s;
  sv_acc : s_acc s' = s_acc s;
  sv_mtag : s_mtag s' = s_mtag s;
  sv_fix : s_fix s' = s_fix s;
  sv_calls : s_calls s' = s_calls s }.

Lemma same_view_refl s : same_view s s.
Proof. constructor; reflexivity. Qed.
Lemma same_view_trans s1 s2 s3 : same_view s1 s2 -> same_view s2 s3 -> same_view s1 s3.
Proof.
  intros [a1 a2 a3 a4 a5 a6 a7 a8] [b1 b2 b3 b4 b5 b6 b7 b8]; constructor; intros; congruence.
Qed.

Record Inv (s : state) : Prop := {
  i_fix : s_fix s = true;
  i_live : forall t, c_live (s_ctx s t) = inside (pcof s t);
  i_ctx : forall t, inside (pcof s t) = true ->
          c_made (s_ctx s t) = true /\ c_th (s_ctx s t) = Some t /\ c_phase (s_ctx s t) <> BEFORE_ISSUE;
  i_tag0 : forall t, c_made (s_ctx s t) = true -> 0 < c_tag0 (s_ctx s t) <= s_mtag s;
  i_inj : forall t u, c_made (s_ctx s t) = true -> c_made (s_ctx s u) = true ->
          c_tag0 (s_ctx s t) = c_tag0 (s_ctx s u) -> t = u;
  i_map : forall g c, In (g, c) (s_map s) ->
          inside (pcof s c) = true /\ c_tag0 (s_ctx s c) = g /\ c_phase (s_ctx s c) <> COLLECTED;
  i_ftag : forall t, is_follower (pcof s t) = true -> c_tag (s_ctx s t) = c_tag0 (s_ctx s t);
  i_otag : forall t o, reader_otag (pcof s t) = Some o -> o = c_tag0 (s_ctx s t) /\ s_rlock s = Some t;
  i_adopt : forall t g, adopted_by (pcof s t) = Some g ->
            inside (pcof s g) = true /\ (forall k, ~ In (k, g) (s_map s)) /\
            c_tag (s_ctx s t) = c_tag0 (s_ctx s g) /\
            (g <> t -> is_follower (pcof s g) = true /\ c_phase (s_ctx s g) <> COLLECTED);
  i_acc : forall a, In a (s_acc s) -> a_live a = true }.

Lemma Inv_view s s' : same_view s s' -> Inv s -> Inv s'.
Proof.
  intros [v1 v2 v3 v4 v5 v6 v7 v8] [h1 h2 h3 h4 h5 h6 h7 h8 h9 h10].
  constructor.
  - congruence.
  - intros t. rewrite v1, v2. apply h2.
  - intros t. rewrite v1, v2. apply h3.
  - intros t. rewrite v2, v6. apply h4.
  - intros t u. rewrite !v2. apply h5.
  - intros g c. rewrite v3, v1, v2. apply h6.
  - intros t. rewrite v1, v2. apply h7.
  - intros t o. rewrite v1, v2, v4. apply h8.
  - intros t g. rewrite !v1, !v2, v3. intros H. destruct (h9 t g H) as (a & b & c & d).
    split; [exact a|split; [exact b|split; [exact c|exact d]]].
  - intros a. rewrite v5. apply h10.
Qed.

(* ---- view of the helper operations --------------------------------------------------------------- *)
Lemma updn_same {A} (f : nat -> A) k v : updn f k v k = v.
Proof. unfold updn. rewrite Nat.eqb_refl. reflexivity. Qed.
Lemma updn_other {A} (f : nat -> A) k v x : x <> k -> updn f k v x = f x.
Proof. unfold updn. intros H. destruct (Nat.eqb_spec x k); congruence. Qed.

Lemma pcof_wake s h e x : pcof (wake s h e) x = pcof s x.
Proof. unfold pcof, wake. cbn. unfold updn. destruct (Nat.eqb_spec x h); subst; reflexivity. Qed.

Lemma sv_wake s h e : same_view s (wake s h e).
Proof. constructor; try reflexivity. intros; apply pcof_wake. Qed.

Lemma sv_set_err s t e : same_view s (set_err s t e).
Proof.
  constructor; try reflexivity. intros x. unfold pcof, set_err. cbn. unfold updn.
  destruct (Nat.eqb_spec x t); subst; reflexivity.
Qed.

Lemma sv_interrupt s h e : same_view s (interrupt s h e).
Proof.
  unfold interrupt. destruct (t_stat (s_thr s h)).
  - destruct (t_err (s_thr s h) =? 0). apply sv_set_err. apply same_view_refl.
  - apply sv_wake.
Qed.

Lemma sv_notify_one s : same_view s (notify_one s).
Proof. unfold notify_one. destruct (s_waitq s). apply same_view_refl. apply sv_wake. Qed.

Lemma sv_set_errno s e : same_view s (set_errno s e).
Proof. constructor; reflexivity. Qed.
Lemma sv_set_stmo s e : same_view s (set_stmo s e).
Proof. constructor; reflexivity. Qed.
Lemma sv_set_hdr s e : same_view s (set_hdr s e).
Proof. constructor; reflexivity. Qed.
Lemma sv_set_script s e : same_view s (set_script s e).
Proof. constructor; reflexivity. Qed.
Lemma sv_set_consumed s e : same_view s (set_consumed s e).
Proof. constructor; reflexivity. Qed.
Lemma sv_set_waitq s e : same_view s (set_waitq s e).
Proof. constructor; reflexivity. Qed.
Lemma sv_add_trace s e : same_view s (add_trace s e).
Proof. constructor; reflexivity. Qed.
Lemma sv_shutdown s t : same_view s (stream_shutdown s t).
Proof. constructor; reflexivity. Qed.
Lemma sv_set_now s e : same_view s (set_now s e).
Proof. constructor; reflexivity. Qed.

Lemma sv_usleep_ret s t : same_view s (fst (usleep_ret s t)).
Proof.
  unfold usleep_ret. destruct (t_err (s_thr s t) =? 0); cbn [fst].
  - apply same_view_refl.
  - eapply same_view_trans. apply sv_set_err. apply sv_set_errno.
Qed.

Lemma sv_cvwait_ret s t : same_view s (fst (cvwait_ret s t)).
Proof.
  unfold cvwait_ret. pose proof (sv_usleep_ret s t) as H.
  destruct (usleep_ret s t) as [s1 r]. cbn [fst] in H.
  destruct (r =? 0); cbn [fst].
  - eapply same_view_trans. apply H. apply sv_set_errno.
  - destruct (s_errno s1 =? -1); exact H.
Qed.

(* ---- map facts ----------------------------------------------------------------------------------- *)
Lemma map_find_In g m c : map_find g m = Some c -> In (g, c) m.
Proof.
  induction m as [|[k v] r IH]; cbn; [discriminate|].
  destruct (Z.eqb_spec k g); intros H.
  - inversion H; subst. left; reflexivity.
  - right; auto.
Qed.
Lemma map_find_None g m : map_find g m = None -> forall c, ~ In (g, c) m.
Proof.
  induction m as [|[k v] r IH]; cbn; intros H c; [tauto|].
  destruct (Z.eqb_spec k g); [discriminate|].
  intros [E|E]. inversion E; congruence. eapply IH; eauto.
Qed.
Lemma map_erase_In g m k c : In (k, c) (map_erase g m) <-> In (k, c) m /\ k <> g.
Proof.
  unfold map_erase. rewrite filter_In. cbn. split; intros [H1 H2]; split; auto.
  - destruct (Z.eqb_spec k g); [discriminate|auto].
  - destruct (Z.eqb_spec k g); [contradiction|reflexivity].
Qed.
Lemma map_find_app g m c : map_find g (m ++ [(g, c)]) <> None.
Proof.
  induction m as [|[k v] r IH]; cbn.
  - rewrite Z.eqb_refl. discriminate.
  - destruct (k =? g); [discriminate|exact IH].
Qed.

(* ---- basic consequences of the invariant ------------------------------------------------------------ *)
Lemma inside_follower_or_reader p : inside p = true -> is_reader p = false -> is_follower p = true.
Proof. unfold inside. destruct (is_follower p); cbn; congruence. Qed.

Lemma reader_unique s t u : Inv s -> is_reader (pcof s t) = true -> is_reader (pcof s u) = true -> t = u.
Proof.
  intros I Ht Hu. unfold is_reader in *.
  destruct (reader_otag (pcof s t)) eqn:Et; [|discriminate].
  destruct (reader_otag (pcof s u)) eqn:Eu; [|discriminate].
  destruct (i_otag _ I _ _ Et) as [_ A]. destruct (i_otag _ I _ _ Eu) as [_ B]. congruence.
Qed.

Lemma adopted_is_reader p g : adopted_by p = Some g -> is_reader p = true.
Proof. destruct p; cbn; congruence. Qed.

Lemma erase_keeps_Inv s by_ g ad : Inv s -> Inv (erase_tag s by_ g ad).
Proof.
  intros [h1 h2 h3 h4 h5 h6 h7 h8 h9 h10]. constructor; cbn; auto.
  - intros k c H. apply map_erase_In in H. destruct H as [H _]. exact (h6 _ _ H).
  - intros t g0 H. destruct (h9 t g0 H) as (a & b & c & d).
    split; [exact a|split; [|split; [exact c|exact d]]].
    intros k Hk. apply map_erase_In in Hk. destruct Hk. eapply b; eauto.
Qed.
